#!/usr/bin/env python3
"""Regenerate repo_patches/ocache/*.patch from the pristine any-sync worktree given as argv[1].
Each patch is produced alone against HEAD (so they apply in any order); the worktree is left with
ALL of them applied. Usage: mkpatches.py <repo worktree> <out dir>"""
import subprocess, sys, os
repo, out = sys.argv[1], sys.argv[2]
OC, EN = 'app/ocache/ocache.go', 'app/ocache/entry.go'
HOOK_ON, HOOK_OFF = 'app/ocache/verifhook_on.go', 'app/ocache/verifhook_off.go'

def git(*a):
    return subprocess.run(['git', '-C', repo] + list(a), check=True, stdout=subprocess.PIPE, text=True).stdout

def rep(s, old, new):
    assert s.count(old) == 1, old
    return s.replace(old, new, 1)

def hook(oc, en):
    y = lambda p, i: '\tverifYield("%s", %s)\n' % (p, i)
    oc = rep(oc, "\tfor {\n\t\tc.mu.Lock()\n\t\tif c.closed {", "\tfor {\n\t" + y("get.lookup", "id") + "\t\tc.mu.Lock()\n\t\tif c.closed {")
    oc = rep(oc, "\t\tc.mu.Unlock()\n\t\treload, err := e.waitClose(ctx, id)", "\t\tc.mu.Unlock()\n\t" + y("get.waitClose", "id") + "\t\treload, err := e.waitClose(ctx, id)")
    for fn, pt, i in [("Pick(ctx context.Context, id string) (value Object, err error)", "pick.lookup", "id"),
                      ("Remove(ctx context.Context, id string) (ok bool, err error)", "remove.lookup", "id"),
                      ("RemoveSame(ctx context.Context, id string, value Object) (ok bool, err error)", "removeSame.lookup", "id"),
                      ("TryRemove(id string) (ok bool, err error)", "tryRemove.lookup", "id"),
                      ("Add(id string, value Object) (err error)", "add", "id"),
                      ("DoLockedIfNotExists(id string, action func() error) error", "doLocked", "id"),
                      ("ForEach(f func(obj Object) (isContinue bool))", "forEach", '""'),
                      ("GC()", "gc.collect", '""'),
                      ("Close() (err error)", "close.collect", '""')]:
        oc = rep(oc, "func (c *oCache) %s {\n" % fn, "func (c *oCache) %s {\n" % fn + y(pt, i))
    oc = rep(oc, "\tdefer close(e.load)\n", "\tdefer close(e.load)\n\tdefer verifYield(\"load.signal\", id)\n" + y("load.begin", "id"))
    oc = rep(oc, "\tcancel()\n\n\tc.mu.Lock()\n\tdefer c.mu.Unlock()\n\tif value == nil", "\tcancel()\n" + y("load.commit", "id") + "\n\tc.mu.Lock()\n\tdefer c.mu.Unlock()\n\tif value == nil")
    en = rep(en, "\tselect {\n\tcase <-ctx.Done():\n\t\tlog.DebugCtx(ctx, \"ctx done while waiting on object load\"", "\tverifWait(\"waitLoad\", e.id, e.load)\n\tselect {\n\tcase <-ctx.Done():\n\t\tlog.DebugCtx(ctx, \"ctx done while waiting on object load\"")
    en = rep(en, "\t\twaitCh := e.close\n\t\te.mx.Unlock()\n\t\tselect {", "\t\twaitCh := e.close\n\t\te.mx.Unlock()\n\t\tverifWait(\"waitClose.wait\", e.id, waitCh)\n\t\tselect {")
    en = rep(en, "(prevState, curState entryState, err error) {\n", "(prevState, curState entryState, err error) {\n\tverifYield(\"setClosing\", e.id)\n")
    en = rep(en, "\t\tif !wait {\n\t\t\treturn\n\t\t}\n\t\tselect {", "\t\tif !wait {\n\t\t\treturn\n\t\t}\n\t\tverifWait(\"setClosing.wait\", e.id, waitCh)\n\t\tselect {")
    return oc, en

def fix_tryremove_load(oc, en):
    oc = rep(oc, """		return false, ErrNotExists
	}

	c.mu.Unlock()

	prevState, _, _ := e.setClosing(context.Background(), false)""", """		return false, ErrNotExists
	}
	// an entry whose load is still in flight has no value to TryClose yet;
	// like GC, only consider active entries (e.value is set under c.mu
	// before the entry becomes active)
	if !e.isActive() {
		c.mu.Unlock()
		return false, nil
	}

	c.mu.Unlock()

	prevState, _, _ := e.setClosing(context.Background(), false)""")
    return oc, en

def fix_add_after_close(oc, en):
    oc = rep(oc, """	defer c.mu.Unlock()
	if _, ok := c.data[id]; ok {
		return ErrExists
	}
	e := newEntry(id, value, entryStateActive)""", """	defer c.mu.Unlock()
	if c.closed {
		return ErrClosed
	}
	if _, ok := c.data[id]; ok {
		return ErrExists
	}
	e := newEntry(id, value, entryStateActive)""")
    return oc, en

def fix_tryremove_err(oc, en):
    oc = rep(oc, """		c.log.With("object_id", e.id).Warnf("try remove err: %v", err)
		return closed, err
	}

	if !closed {
		e.setActive(true)
		return false, nil
	}

	c.closeAndDelete(e)
	return true, nil
}""", """		c.log.With("object_id", e.id).Warnf("try remove err: %v", err)
	}

	// the entry must leave the closing state on the error path too,
	// otherwise every later Get/Remove of this id waits on it forever
	if !closed {
		e.setActive(true)
		return false, err
	}

	c.closeAndDelete(e)
	return true, err
}""")
    return oc, en

hook_on = open(os.path.join(out, 'verifhook_on.go.txt')).read()
hook_off = open(os.path.join(out, 'verifhook_off.go.txt')).read()
poc, pen = git('show', 'HEAD:' + OC), git('show', 'HEAD:' + EN)

def write(oc, en, hooks):
    open(os.path.join(repo, OC), 'w').write(oc); open(os.path.join(repo, EN), 'w').write(en)
    for p, txt in [(HOOK_ON, hook_on), (HOOK_OFF, hook_off)]:
        fp = os.path.join(repo, p)
        if hooks:
            open(fp, 'w').write(txt)
        elif os.path.exists(fp):
            os.remove(fp)
    subprocess.run(['git', '-C', repo, 'add', '-N', 'app/ocache'], check=True)

for name, fn, hooks, ctx in [('hook-ocache-yield', hook, True, '-U1'), ('fix-F-ocache-tryremove-load', fix_tryremove_load, False, '-U2'),
                             ('fix-F-ocache-add-after-close', fix_add_after_close, False, '-U2'), ('fix-F-ocache-tryremove-err', fix_tryremove_err, False, '-U2')]:
    subprocess.run(['git', '-C', repo, 'reset', '-q'], check=True)
    write(*fn(poc, pen), hooks)
    open(os.path.join(out, name + '.patch'), 'w').write(git('diff', ctx, '--', 'app/ocache'))
subprocess.run(['git', '-C', repo, 'reset', '-q'], check=True)
oc, en = poc, pen
for fn in (hook, fix_tryremove_load, fix_add_after_close, fix_tryremove_err):
    oc, en = fn(oc, en)
write(oc, en, True)
subprocess.run(['git', '-C', repo, 'reset', '-q'], check=True)
