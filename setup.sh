#!/bin/sh
# Build the framework from files on disk only (offline). Run once in /verif after a fresh restore.
set -e
cd "$(dirname "$0")"
export GOFLAGS=-mod=mod GOPROXY=off GOTOOLCHAIN=auto
unset GOSUMDB
mkdir -p .build evidence replays
REPO="${VERIF_REPO:-/repo}"
cp "$REPO/go.sum" harness/go.sum
if [ "$REPO" = /repo ]; then
  (cd harness && go build -tags verif -o ../.build/verifharness-setup ./cmd/verifharness)
else
  sed "s|=> /repo|=> $REPO|" harness/go.mod > .build/alt.go.mod; cp harness/go.sum .build/alt.go.sum
  (cd harness && go build -modfile=../.build/alt.go.mod -tags verif -o ../.build/verifharness-setup ./cmd/verifharness)
fi
rm -rf lean/AnySyncModel/Generated
./.build/verifharness-setup extract -repo "$REPO" -out lean/AnySyncModel/Generated
(cd lean && lake build)
echo "setup done"
