#!/bin/sh
# Build the framework from files on disk only (offline). Run once in /verif after a fresh restore.
set -e
cd "$(dirname "$0")"
export GOFLAGS=-mod=mod GOPROXY=off GOTOOLCHAIN=auto
unset GOSUMDB
mkdir -p .build evidence replays
cp /repo/go.sum harness/go.sum
(cd harness && go build -tags verif -o ../.build/verifharness-setup ./cmd/verifharness)
rm -rf lean/AnySyncModel/Generated
./.build/verifharness-setup extract -repo /repo -out lean/AnySyncModel/Generated
(cd lean && lake build)
echo "setup done"
