/-
Helper lemmas for the handshake model (C14 / C11 `readMsg`): what the frame reader guarantees, what each
role guarantees on every path, and the step lemmas used to evaluate a whole connection.
-/
import AnySyncModel.Handshake.Spec

namespace AnySync.Handshake
open AnySync.Generated.Handshake

theorem release_fresh (o : PoolObj) : release o = .fresh := by
  simp [release, PoolObj.fresh, releaseResets_credType, releaseResets_credPayload, releaseResets_credVersion,
    releaseResets_credClient, releaseResets_remoteAck, releaseResets_localAck]

theorem readFull_ok {n : Nat} {s : Bytes} {e : End} {h rest : Bytes}
    (hf : readFull n s e = .ok h rest) : h.length = n ∧ s = h ++ rest := by
  unfold readFull at hf
  split at hf
  · simp at hf; obtain ⟨rfl, rfl⟩ := hf; simp_all
  · split at hf
    · simp at hf; obtain ⟨rfl, rfl⟩ := hf; simp; omega
    · split at hf
      · simp at hf
      · split at hf <;> simp at hf

theorem gather_some {cs : List Bytes} {need : Nat} {acc out : Bytes} {rest : List Bytes}
    (h : gather cs need acc = some (out, rest)) :
    out = acc ++ cs.flatten.take need ∧ rest.flatten = cs.flatten.drop need ∧ need ≤ cs.flatten.length := by
  induction cs generalizing need acc with
  | nil =>
    simp only [gather] at h
    split at h
    · rename_i h0; subst h0; simp at h; obtain ⟨rfl, rfl⟩ := h; simp
    · cases h
  | cons c cs ih =>
    simp only [gather] at h
    split at h
    · rename_i h0; subst h0; simp at h; obtain ⟨rfl, rfl⟩ := h; simp
    · split at h
      · rename_i hne hle
        obtain ⟨h1, h2, h3⟩ := ih h
        refine ⟨?_, ?_, ?_⟩
        · rw [h1]; simp [List.take_append, List.take_of_length_le hle]
        · rw [h2]; simp [List.drop_append, List.drop_of_length_le hle]
        · rw [List.flatten_cons, List.length_append]; omega
      · rename_i hne hgt
        simp at h; obtain ⟨rfl, rfl⟩ := h
        have hlt : need ≤ c.length := by omega
        refine ⟨?_, ?_, ?_⟩
        · simp [List.take_append, Nat.sub_eq_zero_of_le hlt]
        · simp [List.drop_append, Nat.sub_eq_zero_of_le hlt]
        · rw [List.flatten_cons, List.length_append]; omega

theorem gather_none {cs : List Bytes} {need : Nat} {acc : Bytes}
    (h : gather cs need acc = none) : cs.flatten.length < need := by
  induction cs generalizing need acc with
  | nil =>
    simp only [gather] at h
    split at h
    · cases h
    · simp; omega
  | cons c cs ih =>
    simp only [gather] at h
    split at h
    · cases h
    · split at h
      · rename_i hne hle
        have := ih h
        rw [List.flatten_cons, List.length_append]; omega
      · cases h

theorem parseHeader_ok_of_length {h : Bytes} (hl : h.length = 5) : ∃ tp size, parseHeader h = .ok tp size := by
  match h, hl with
  | [a,b,c,d,e'], _ => exact ⟨_, _, rfl⟩

theorem readRaw_no_panic (allowed : List Nat) (s : Bytes) (e : End) (req : Nat) :
    readRaw allowed s e ≠ .fail .panic req := by
  unfold readRaw
  split
  · simp
  · simp
  · simp
  · rename_i h rest hf
    have hl := (readFull_ok hf).1
    obtain ⟨tp, size, hp⟩ := parseHeader_ok_of_length (h := h) (by simpa [headerSize] using hl)
    rw [hp]
    simp only
    split
    · simp
    · split
      · simp
      · split <;> simp

theorem readRaw_frame {allowed : List Nat} {s : Bytes} {e : End} {tp : Nat} {p rest : Bytes} {off : Nat}
    (h : readRaw allowed s e = .frame tp p rest off) :
    allowed.contains tp = true ∧ p.length ≤ sizeLimit ∧ off = headerSize ∧
      ∃ hd, hd.length = headerSize ∧ s = hd ++ (p ++ rest) ∧ parseHeader hd = .ok tp p.length := by
  unfold readRaw at h
  repeat' (split at h)
  all_goals (try (simp at h))
  rename_i hd rest0 hf _ tp' size hp hall hsz _ p' rest' hf2
  obtain ⟨rfl, rfl, rfl, rfl⟩ := h
  have h1 := readFull_ok hf
  have h2 := readFull_ok hf2
  refine ⟨by simpa using hall, ?_, rfl, hd, h1.1, ?_, ?_⟩
  · simp [sizeRejected, sizeGuardStrict] at hsz; omega
  · rw [h1.2, h2.2]
  · rw [h2.1]; exact hp

theorem readRaw_fail_req {allowed : List Nat} {s : Bytes} {e : End} {v : Verdict} {req : Nat}
    (h : readRaw allowed s e = .fail v req) : req ≤ sizeLimit ∧ v.isOk = false ∧ v ≠ .panic := by
  have hnp := readRaw_no_panic allowed s e req
  refine ⟨?_, ?_, fun hv => hnp (hv ▸ h)⟩
  · unfold readRaw at h
    repeat' (split at h)
    all_goals (try (simp at h))
    all_goals (try (obtain ⟨_, rfl⟩ := h))
    all_goals (try (simp [headerSize, sizeLimit]; done))
    all_goals (rename_i hsz _ _ _; simp [sizeRejected, sizeGuardStrict, sizeLimit] at hsz; simp only [headerSize, sizeLimit]; omega)
  · unfold readRaw at h
    repeat' (split at h)
    all_goals (try (simp at h))
    all_goals (try (obtain ⟨rfl, _⟩ := h))
    all_goals rfl

/-- what a successful `readMsg` means -/
theorem readMsg_ok {dec : Decoder} {allowed : List Nat} {pool : PoolObj} {s : Bytes} {e : End} {r : ReadOk}
    (h : readMsg dec allowed pool s e = .ok r) :
    ∃ p, readRaw allowed s e = .frame r.tp p r.rest headerSize ∧ r.len = p.length ∧ r.off = headerSize ∧
      r.used = headerSize + p.length ∧
      ((r.tp = 1 ∧ r.msg = .cred ∧ ∃ f, dec 1 p = .cred f ∧ r.pool = mergeCred pool f) ∨
       (r.tp = 2 ∧ r.msg = .ack ∧ ∃ a, dec 2 p = .ack a ∧ r.pool = mergeAck pool a) ∨
       (r.tp = 3 ∧ r.msg = .proto ∧ r.pool = pool) ∨
       (r.tp ≠ 1 ∧ r.tp ≠ 2 ∧ r.tp ≠ 3 ∧ r.msg = .none ∧ r.pool = pool)) := by
  unfold readMsg at h
  split at h
  · simp at h
  · rename_i tp p rest off hr
    have hoff := (readRaw_frame hr).2.2.1
    subst hoff
    simp only [msgTypeCred, msgTypeAck, msgTypeProto] at h
    refine ⟨p, ?_⟩
    by_cases h1 : tp = 1
    · subst h1
      simp only [if_true] at h
      split at h <;> simp at h
      rename_i f hd
      subst h
      exact ⟨hr, rfl, rfl, rfl, Or.inl ⟨rfl, rfl, f, hd, rfl⟩⟩
    · by_cases h2 : tp = 2
      · subst h2
        simp only [if_neg h1, if_true] at h
        split at h <;> simp at h
        rename_i a hd
        subst h
        exact ⟨hr, rfl, rfl, rfl, Or.inr (Or.inl ⟨rfl, rfl, a, hd, rfl⟩)⟩
      · by_cases h3 : tp = 3
        · subst h3
          simp only [if_neg h1, if_neg h2, if_true] at h
          split at h <;> simp at h
          subst h
          exact ⟨hr, rfl, rfl, rfl, Or.inr (Or.inr (Or.inl ⟨rfl, rfl, rfl⟩))⟩
        · simp [h1, h2, h3] at h
          subst h
          exact ⟨hr, rfl, rfl, rfl, Or.inr (Or.inr (Or.inr ⟨h1, h2, h3, rfl, rfl⟩))⟩

theorem readMsg_fail {dec : Decoder} {allowed : List Nat} {pool : PoolObj} {s : Bytes} {e : End}
    {v : Verdict} {req : Nat} {fr : List (Nat × Nat × Nat)}
    (h : readMsg dec allowed pool s e = .fail v req fr) :
    req ≤ sizeLimit ∧ v.isOk = false ∧ v ≠ .panic ∧ fr.length ≤ 1 := by
  unfold readMsg at h
  split at h
  · rename_i v' req' hr
    simp at h
    obtain ⟨rfl, rfl, rfl⟩ := h
    have := readRaw_fail_req hr
    exact ⟨this.1, this.2.1, this.2.2, by simp⟩
  · rename_i tp p rest off hr
    have hp := (readRaw_frame hr).2.1
    have hreq : max headerSize p.length ≤ sizeLimit := by
      simp only [headerSize, sizeLimit] at *; omega
    simp only [msgTypeCred, msgTypeAck, msgTypeProto] at h
    by_cases h1 : tp = 1
    · subst h1
      simp only [if_true] at h
      split at h <;> simp at h <;> obtain ⟨rfl, rfl, rfl⟩ := h <;> exact ⟨hreq, rfl, by simp, by simp⟩
    · by_cases h2 : tp = 2
      · subst h2
        simp only [if_neg h1, if_true] at h
        split at h <;> simp at h <;> obtain ⟨rfl, rfl, rfl⟩ := h <;> exact ⟨hreq, rfl, by simp, by simp⟩
      · by_cases h3 : tp = 3
        · subst h3
          simp only [if_neg h1, if_neg h2, if_true] at h
          split at h <;> simp at h <;> obtain ⟨rfl, rfl, rfl⟩ := h <;> exact ⟨hreq, rfl, by simp, by simp⟩
        · simp [h1, h2, h3] at h

theorem failClose_facts (v : Verdict) (w : List WFrame) (rd : List (Nat × Nat × Nat)) (mr : Nat) (p : PoolObj) :
    (failClose v w rd mr p).verdict = v ∧ (failClose v w rd mr p).maxReq = mr ∧
    (failClose v w rd mr p).reads = rd ∧ (failClose v w rd mr p).pool = .fresh := by
  unfold failClose
  split <;> simp [release_fresh]

theorem ackVerdict_not_ok (c : Nat) : (ackVerdict c).isOk = false ∧ ackVerdict c ≠ .panic := by
  unfold ackVerdict; split <;> simp [Verdict.isOk]

/-- message kind after a read restricted to the generated whitelists -/
theorem readMsg_kind {dec : Decoder} {allowed : List Nat} {pool : PoolObj} {s : Bytes} {e : End} {r : ReadOk}
    (h : readMsg dec allowed pool s e = .ok r) : allowed.contains r.tp = true ∧ r.len ≤ sizeLimit := by
  obtain ⟨p, hr, hl, _⟩ := readMsg_ok h
  have := readRaw_frame hr
  exact ⟨this.1, hl ▸ this.2.1⟩

structure SideFacts (o : SideOut) : Prop where
  noPanic : o.verdict ≠ .panic
  maxReq  : o.maxReq ≤ sizeLimit
  reads   : o.reads.length ≤ 2
  pool    : o.pool = .fresh

theorem outgoing_facts (dec : Decoder) (cfg : Cfg) (pool : PoolObj) (s : Bytes) (e : End) :
    SideFacts (outgoing dec cfg pool s e) := by
  unfold outgoing
  cases h1 : readMsg dec outRead1 pool s e with
  | fail v req fr =>
    obtain ⟨hreq, hok, hnp, hfr⟩ := readMsg_fail h1
    have hf := failClose_facts v [.cred] fr req pool
    exact ⟨by simp only; rw [hf.1]; exact hnp, by simp only; rw [hf.2.1]; exact hreq,
      by simp only; rw [hf.2.2.1]; omega, by simp only; exact hf.2.2.2⟩
  | ok r1 =>
    obtain ⟨hall1, hlen1⟩ := readMsg_kind h1
    obtain ⟨p1, hr1, _, _, _, hk1⟩ := readMsg_ok h1
    have hm1 : max headerSize r1.len ≤ sizeLimit := by simp only [headerSize, sizeLimit] at *; omega
    simp only
    rcases hk1 with ⟨_, hmsg, _⟩ | ⟨_, hmsg, _⟩ | ⟨htp, _⟩ | ⟨h1', h2', _⟩
    · rw [hmsg]; simp only
      cases hc : check cfg r1.pool with
      | error c =>
        have hf := failClose_facts (.he c) [.cred] [(r1.tp, r1.off, r1.len)] (max headerSize r1.len) r1.pool
        exact ⟨by simp only; rw [hf.1]; simp, by simp only; rw [hf.2.1]; exact hm1,
          by simp only; rw [hf.2.2.1]; simp, by simp only; exact hf.2.2.2⟩
      | ok res =>
        simp only
        cases h2 : readMsg dec outRead2 r1.pool r1.rest e with
        | fail v req fr =>
          obtain ⟨hreq, hok, hnp, hfr⟩ := readMsg_fail h2
          have hf := failClose_facts v [.cred, .ack 0] ([(r1.tp, r1.off, r1.len)] ++ shift r1.used fr) (max (max headerSize r1.len) req) r1.pool
          exact ⟨by simp only; rw [hf.1]; exact hnp, by simp only; rw [hf.2.1]; omega,
            by simp only; rw [hf.2.2.1]; simp [shift]; omega, by simp only; exact hf.2.2.2⟩
        | ok r2 =>
          obtain ⟨hall2, hlen2⟩ := readMsg_kind h2
          obtain ⟨p2, hr2, _, _, _, hk2⟩ := readMsg_ok h2
          have hm2 : max (max headerSize r1.len) (max headerSize r2.len) ≤ sizeLimit := by
            simp only [headerSize, sizeLimit] at *; omega
          simp only
          rcases hk2 with ⟨htp, _⟩ | ⟨_, hmsg2, _⟩ | ⟨htp, _⟩ | ⟨h1', h2', _⟩
          · rw [htp] at hall2; simp [outRead2] at hall2
          · rw [hmsg2]; simp only
            split
            · exact ⟨by simp, hm2, by simp, release_fresh _⟩
            · exact ⟨by simp, hm2, by simp, release_fresh _⟩
          · rw [htp] at hall2; simp [outRead2] at hall2
          · simp [outRead2] at hall2; omega
    · rw [hmsg]; simp only
      exact ⟨(ackVerdict_not_ok _).2, hm1, by simp, release_fresh _⟩
    · rw [htp] at hall1; simp [outRead1] at hall1
    · simp [outRead1] at hall1; omega

theorem incoming_facts (dec : Decoder) (cfg : Cfg) (pool : PoolObj) (s : Bytes) (e : End) :
    SideFacts (incoming dec cfg pool s e) := by
  unfold incoming
  cases h1 : readMsg dec inRead1 pool s e with
  | fail v req fr =>
    obtain ⟨hreq, hok, hnp, hfr⟩ := readMsg_fail h1
    have hf := failClose_facts v [] fr req pool
    exact ⟨by simp only; rw [hf.1]; exact hnp, by simp only; rw [hf.2.1]; exact hreq,
      by simp only; rw [hf.2.2.1]; omega, by simp only; exact hf.2.2.2⟩
  | ok r1 =>
    obtain ⟨hall1, hlen1⟩ := readMsg_kind h1
    obtain ⟨p1, hr1, _, _, _, hk1⟩ := readMsg_ok h1
    have hm1 : max headerSize r1.len ≤ sizeLimit := by simp only [headerSize, sizeLimit] at *; omega
    simp only
    rcases hk1 with ⟨_, hmsg, _⟩ | ⟨htp, _⟩ | ⟨htp, _⟩ | ⟨h1', h2', _⟩
    · rw [hmsg]; simp only
      cases hc : check cfg r1.pool with
      | error c =>
        have hf := failClose_facts (.he c) [] [(r1.tp, r1.off, r1.len)] (max headerSize r1.len) r1.pool
        exact ⟨by simp only; rw [hf.1]; simp, by simp only; rw [hf.2.1]; exact hm1,
          by simp only; rw [hf.2.2.1]; simp, by simp only; exact hf.2.2.2⟩
      | ok res =>
        simp only
        cases h2 : readMsg dec inRead2 r1.pool r1.rest e with
        | fail v req fr =>
          obtain ⟨hreq, hok, hnp, hfr⟩ := readMsg_fail h2
          have hf := failClose_facts v [.cred] ([(r1.tp, r1.off, r1.len)] ++ shift r1.used fr) (max (max headerSize r1.len) req) r1.pool
          exact ⟨by simp only; rw [hf.1]; exact hnp, by simp only; rw [hf.2.1]; omega,
            by simp only; rw [hf.2.2.1]; simp [shift]; omega, by simp only; exact hf.2.2.2⟩
        | ok r2 =>
          obtain ⟨hall2, hlen2⟩ := readMsg_kind h2
          obtain ⟨p2, hr2, _, _, _, hk2⟩ := readMsg_ok h2
          have hm2 : max (max headerSize r1.len) (max headerSize r2.len) ≤ sizeLimit := by
            simp only [headerSize, sizeLimit] at *; omega
          simp only
          rcases hk2 with ⟨htp, _⟩ | ⟨_, hmsg2, _⟩ | ⟨htp, _⟩ | ⟨h1', h2', _⟩
          · rw [htp] at hall2; simp [inRead2] at hall2
          · rw [hmsg2]; simp only
            split
            · exact ⟨(ackVerdict_not_ok _).2, hm2, by simp, release_fresh _⟩
            · exact ⟨by simp, hm2, by simp, release_fresh _⟩
          · rw [htp] at hall2; simp [inRead2] at hall2
          · simp [inRead2] at hall2; omega
    · rw [htp] at hall1; simp [inRead1] at hall1
    · rw [htp] at hall1; simp [inRead1] at hall1
    · simp [inRead1] at hall1; omega

theorem readRaw_narrow {allowed : List Nat} {s : Bytes} {e : End} {tp : Nat} {p rest : Bytes} {off : Nat}
    (h : readRaw allowed s e = .frame tp p rest off) : readRaw [tp] s e = .frame tp p rest off := by
  unfold readRaw at h ⊢
  repeat' (split at h)
  all_goals (try (simp at h))
  rename_i hd rest0 hf _ tp' size hp hall hsz _ p' rest' hf2
  obtain ⟨rfl, rfl, rfl, rfl⟩ := h
  simp [hf, hp, hsz, hf2]

theorem outgoing_ok {dec : Decoder} {cfg : Cfg} {pool : PoolObj} {s : Bytes} {e : End} {res : Result}
    (h : (outgoing dec cfg pool s e).verdict = .ok res) : AcceptedStream dec cfg pool s e res := by
  unfold outgoing at h
  cases h1 : readMsg dec outRead1 pool s e with
  | fail v req fr =>
    rw [h1] at h; simp only at h
    rw [(failClose_facts _ _ _ _ _).1] at h
    have := (readMsg_fail h1).2.1; rw [h] at this; simp [Verdict.isOk] at this
  | ok r1 =>
    rw [h1] at h; simp only at h
    obtain ⟨p1, hr1, _, _, _, hk1⟩ := readMsg_ok h1
    have hall1 := (readRaw_frame hr1).1
    rcases hk1 with ⟨htp1, hmsg, f, hd1, hp1⟩ | ⟨_, hmsg, _⟩ | ⟨htp, hmsg, _⟩ | ⟨h1', h2', h3', hmsg, _⟩
    · rw [hmsg] at h; simp only at h
      cases hc : check cfg r1.pool with
      | error c => rw [hc] at h; simp only at h; rw [(failClose_facts _ _ _ _ _).1] at h; simp at h
      | ok res' =>
        rw [hc] at h; simp only at h
        cases h2 : readMsg dec outRead2 r1.pool r1.rest e with
        | fail v req fr =>
          rw [h2] at h; simp only at h
          rw [(failClose_facts _ _ _ _ _).1] at h
          have := (readMsg_fail h2).2.1; rw [h] at this; simp [Verdict.isOk] at this
        | ok r2 =>
          rw [h2] at h; simp only at h
          obtain ⟨p2, hr2, _, _, _, hk2⟩ := readMsg_ok h2
          have hall2 := (readRaw_frame hr2).1
          rcases hk2 with ⟨htp, hmsg2, _⟩ | ⟨htp2, hmsg2, a, hd2, hp2⟩ | ⟨htp, hmsg2, _⟩ | ⟨_, _, _, hmsg2, _⟩
          · rw [hmsg2] at h; simp at h
          · rw [hmsg2] at h; simp only at h
            split at h
            · rename_i hz
              simp at h; subst h
              refine ⟨p1, r1.rest, f, p2, r2.rest, a, ?_, ?_, ?_, ?_, ?_, ?_⟩
              · have := readRaw_narrow hr1; rw [htp1] at this; exact this
              · exact hd1
              · rw [← hp1]; exact hc
              · have := readRaw_narrow hr2; rw [htp2] at this; exact this
              · exact hd2
              · rw [← hp1, ← hp2]; exact hz
            · simp at h
          · rw [hmsg2] at h; simp at h
          · rw [hmsg2] at h; simp at h
    · rw [hmsg] at h; simp only at h
      have := (ackVerdict_not_ok r1.pool.remoteAck).1; rw [h] at this; simp [Verdict.isOk] at this
    · rw [hmsg] at h; simp at h
    · rw [hmsg] at h; simp at h

theorem incoming_ok {dec : Decoder} {cfg : Cfg} {pool : PoolObj} {s : Bytes} {e : End} {res : Result}
    (h : (incoming dec cfg pool s e).verdict = .ok res) : AcceptedStream dec cfg pool s e res := by
  unfold incoming at h
  cases h1 : readMsg dec inRead1 pool s e with
  | fail v req fr =>
    rw [h1] at h; simp only at h
    rw [(failClose_facts _ _ _ _ _).1] at h
    have := (readMsg_fail h1).2.1; rw [h] at this; simp [Verdict.isOk] at this
  | ok r1 =>
    rw [h1] at h; simp only at h
    obtain ⟨p1, hr1, _, _, _, hk1⟩ := readMsg_ok h1
    have hall1 := (readRaw_frame hr1).1
    rcases hk1 with ⟨htp1, hmsg, f, hd1, hp1⟩ | ⟨_, hmsg, _⟩ | ⟨htp, hmsg, _⟩ | ⟨h1', h2', h3', hmsg, _⟩
    · rw [hmsg] at h; simp only at h
      cases hc : check cfg r1.pool with
      | error c => rw [hc] at h; simp only at h; rw [(failClose_facts _ _ _ _ _).1] at h; simp at h
      | ok res' =>
        rw [hc] at h; simp only at h
        cases h2 : readMsg dec inRead2 r1.pool r1.rest e with
        | fail v req fr =>
          rw [h2] at h; simp only at h
          rw [(failClose_facts _ _ _ _ _).1] at h
          have := (readMsg_fail h2).2.1; rw [h] at this; simp [Verdict.isOk] at this
        | ok r2 =>
          rw [h2] at h; simp only at h
          obtain ⟨p2, hr2, _, _, _, hk2⟩ := readMsg_ok h2
          have hall2 := (readRaw_frame hr2).1
          rcases hk2 with ⟨htp, hmsg2, _⟩ | ⟨htp2, hmsg2, a, hd2, hp2⟩ | ⟨htp, hmsg2, _⟩ | ⟨_, _, _, hmsg2, _⟩
          · rw [hmsg2] at h; simp at h
          · rw [hmsg2] at h; simp only at h
            split at h
            · simp only at h
              have := (ackVerdict_not_ok r2.pool.remoteAck).1; rw [h] at this; simp [Verdict.isOk] at this
            · rename_i hz
              simp at hz
              simp at h; subst h
              refine ⟨p1, r1.rest, f, p2, r2.rest, a, ?_, ?_, ?_, ?_, ?_, ?_⟩
              · have := readRaw_narrow hr1; rw [htp1] at this; exact this
              · exact hd1
              · rw [← hp1]; exact hc
              · have := readRaw_narrow hr2; rw [htp2] at this; exact this
              · exact hd2
              · rw [← hp1, ← hp2]; exact hz
          · rw [hmsg2] at h; simp at h
          · rw [hmsg2] at h; simp at h
    · rw [hmsg] at h; simp at h
    · rw [hmsg] at h; simp at h
    · rw [hmsg] at h; simp at h

/-! ### honest credentials, step lemmas, the evaluated connection -/

theorem merge_make (p : Cfg) : mergeCred .fresh (makeCred p) =
    { credType := if p.verify then 1 else 0,
      credPayload := if p.verify then .signed (.key p.acct) (.sign p.acct (p.lp ++ p.rp)) else .empty,
      credVersion := p.ver, credClient := p.client, remoteAck := 0, localAck := 0 } := by
  unfold mergeCred makeCred PoolObj.fresh
  by_cases hv : p.verify <;> by_cases h0 : p.ver = 0 <;> by_cases hc : p.client = Client.empty <;>
    simp [hv, h0, hc]

theorem check_honest_iff (v p : Cfg) (res : Result) :
    check v (mergeCred .fresh (makeCred p)) = .ok res ↔ Admits v p ∧ res = admitted v p := by
  rw [merge_make]
  unfold check Admits admitted
  by_cases hmem : p.ver ∈ v.compat <;> by_cases hvv : v.verify <;> by_cases hpv : p.verify <;>
    by_cases hb : p.client.bad <;> simp [hmem, hvv, hpv, hb]
  · split <;> simp
  · constructor
    · intro h; split at h <;> simp_all
    · rintro ⟨h, rfl⟩; simp [h]
  · exact eq_comm
  · exact eq_comm



theorem readMsg_nil_eof (dec : Decoder) (allowed : List Nat) (pool : PoolObj) :
    readMsg dec allowed pool [] .eof = .fail .eof headerSize [] := by
  simp [readMsg, readRaw, readFull, headerSize]

theorem readMsg_nil_stall (dec : Decoder) (allowed : List Nat) (pool : PoolObj) :
    readMsg dec allowed pool [] .stall = .fail .ctx headerSize [] := by
  simp [readMsg, readRaw, readFull, headerSize]

theorem check_error_ne_zero {cfg : Cfg} {o : PoolObj} {c : Nat} (h : check cfg o = .error c) : c ≠ 0 := by
  unfold check at h
  repeat' (split at h)
  all_goals (simp at h)
  all_goals omega

theorem check_error_lt {cfg : Cfg} {o : PoolObj} {c : Nat} (h : check cfg o = .error c) : c < 256 := by
  unfold check at h
  repeat' (split at h)
  all_goals (simp at h)
  all_goals omega


theorem in_err (W : WellEncoded dec enc oc ic) {c : Nat} (hA : inChecksOut oc ic = .error c) (rest : Bytes) (e : End) :
    (incoming dec ic .fresh (enc .out .cred ++ rest) e).verdict = .he c ∧
    (incoming dec ic .fresh (enc .out .cred ++ rest) e).wrote = errAck (.he c) := by
  obtain ⟨r, hr, hm, hrest, hp⟩ := W.cred .out inRead1 .fresh rest e (by simp [inRead1, msgTypeCred])
  unfold inChecksOut at hA
  unfold incoming
  simp [hr, hm, hp, hA, failClose]

theorem in_ok_stall (W : WellEncoded dec enc oc ic) {res : Result} (hA : inChecksOut oc ic = .ok res) :
    (incoming dec ic .fresh (enc .out .cred) .stall).verdict = .ctx ∧
    (incoming dec ic .fresh (enc .out .cred) .stall).wrote = [.cred] := by
  obtain ⟨r, hr, hm, hrest, hp⟩ := W.cred .out inRead1 .fresh [] .stall (by simp [inRead1, msgTypeCred])
  unfold inChecksOut at hA
  unfold incoming
  simp only [List.append_nil] at hr
  simp [hr, hm, hp, hA, hrest, readMsg_nil_stall, failClose]

theorem in_ok_eof (W : WellEncoded dec enc oc ic) {res : Result} (hA : inChecksOut oc ic = .ok res) :
    (incoming dec ic .fresh (enc .out .cred) .eof).verdict = .eof ∧
    (incoming dec ic .fresh (enc .out .cred) .eof).wrote = [.cred, .ack 1] := by
  obtain ⟨r, hr, hm, hrest, hp⟩ := W.cred .out inRead1 .fresh [] .eof (by simp [inRead1, msgTypeCred])
  unfold inChecksOut at hA
  unfold incoming
  simp only [List.append_nil] at hr
  simp [hr, hm, hp, hA, hrest, readMsg_nil_eof, failClose, errAck]

theorem in_ok_ack (W : WellEncoded dec enc oc ic) {res : Result} (hA : inChecksOut oc ic = .ok res)
    (c : Nat) (hc256 : c < 256) (rest : Bytes) (e : End) :
    (incoming dec ic .fresh (enc .out .cred ++ (enc .out (.ack c) ++ rest)) e).verdict =
      (if c = 0 then .ok res else ackVerdict c) ∧
    (incoming dec ic .fresh (enc .out .cred ++ (enc .out (.ack c) ++ rest)) e).wrote =
      (if c = 0 then [.cred, .ack 0] else [.cred]) := by
  obtain ⟨r, hr, hm, hrest, hp⟩ := W.cred .out inRead1 .fresh (enc .out (.ack c) ++ rest) e (by simp [inRead1, msgTypeCred])
  obtain ⟨r2, hr2, hm2, hrest2, hp2⟩ := W.ack .out c hc256 inRead2 r.pool rest e (by simp [inRead2, msgTypeAck])
    (by rw [hp]; simp [mergeCred, PoolObj.fresh])
  unfold inChecksOut at hA
  unfold incoming
  rw [← hp] at hA
  by_cases hc : c = 0
  · subst hc; simp [hr, hm, hA, hrest, hr2, hm2, hp2]
  · simp [hr, hm, hA, hrest, hr2, hm2, hp2, hc]


variable {dec : Decoder} {enc : Encoder} {oc ic : Cfg}

theorem out_nil_eof (dec : Decoder) (oc : Cfg) : (outgoing dec oc .fresh [] .eof).verdict = .eof := by
  unfold outgoing; simp [readMsg_nil_eof, failClose]

theorem out_ack (W : WellEncoded dec enc oc ic) (c : Nat) (hc256 : c < 256) (rest : Bytes) (e : End) :
    (outgoing dec oc .fresh (enc .inc (.ack c) ++ rest) e).verdict = ackVerdict c := by
  obtain ⟨r, hr, hm, hrest, hp⟩ := W.ack .inc c hc256 outRead1 .fresh rest e (by simp [outRead1, msgTypeAck]) rfl
  unfold outgoing
  simp [hr, hm, hp]

theorem out_err (W : WellEncoded dec enc oc ic) {c : Nat} (hB : outChecksIn oc ic = .error c) (rest : Bytes) (e : End) :
    (outgoing dec oc .fresh (enc .inc .cred ++ rest) e).verdict = .he c ∧
    (outgoing dec oc .fresh (enc .inc .cred ++ rest) e).wrote = [.cred] ++ errAck (.he c) := by
  obtain ⟨r, hr, hm, hrest, hp⟩ := W.cred .inc outRead1 .fresh rest e (by simp [outRead1, msgTypeCred])
  unfold outChecksIn at hB
  unfold outgoing
  simp [hr, hm, hp, hB, failClose]

theorem out_ok_stall (W : WellEncoded dec enc oc ic) {res : Result} (hB : outChecksIn oc ic = .ok res) :
    (outgoing dec oc .fresh (enc .inc .cred) .stall).verdict = .ctx ∧
    (outgoing dec oc .fresh (enc .inc .cred) .stall).wrote = [.cred, .ack 0] := by
  obtain ⟨r, hr, hm, hrest, hp⟩ := W.cred .inc outRead1 .fresh [] .stall (by simp [outRead1, msgTypeCred])
  unfold outChecksIn at hB
  unfold outgoing
  simp only [List.append_nil] at hr
  simp [hr, hm, hp, hB, hrest, readMsg_nil_stall, failClose]

theorem out_ok_ack (W : WellEncoded dec enc oc ic) {res : Result} (hB : outChecksIn oc ic = .ok res)
    (rest : Bytes) (e : End) :
    (outgoing dec oc .fresh (enc .inc .cred ++ (enc .inc (.ack 0) ++ rest)) e).verdict = .ok res := by
  obtain ⟨r, hr, hm, hrest, hp⟩ := W.cred .inc outRead1 .fresh (enc .inc (.ack 0) ++ rest) e (by simp [outRead1, msgTypeCred])
  obtain ⟨r2, hr2, hm2, hrest2, hp2⟩ := W.ack .inc 0 (by omega) outRead2 r.pool rest e (by simp [outRead2, msgTypeAck])
    (by rw [hp]; simp [mergeCred, PoolObj.fresh])
  unfold outChecksIn at hB
  unfold outgoing
  rw [← hp] at hB
  simp [hr, hm, hB, hrest, hr2, hm2, hp2]

/-- every path of the initiator starts by writing its credentials -/
theorem out_wrote_cred (dec : Decoder) (cfg : Cfg) (pool : PoolObj) (s : Bytes) (e : End) :
    ∃ t, (outgoing dec cfg pool s e).wrote = .cred :: t := by
  unfold outgoing failClose
  repeat' split
  all_goals simp

/-- **the connection, evaluated** -/
theorem connect_eval (W : WellEncoded dec enc oc ic) :
    let c := connect dec enc oc ic .fresh .fresh
    match inChecksOut oc ic, outChecksIn oc ic with
    | .ok ri, .ok ro => c.out.verdict = .ok ro ∧ c.inc.verdict = .ok ri
    | _, _ => c.out.verdict.isOk = false ∧ c.inc.verdict.isOk = false := by
  intro c
  cases hA : inChecksOut oc ic with
  | error ca =>
    simp only
    -- the responder rejects: whatever the initiator wrote after its credentials
    obtain ⟨t, ht⟩ := out_wrote_cred dec oc .fresh (encAll enc .inc (incoming dec ic .fresh (encAll enc .out [.cred]) .stall).wrote)
      (endAfter (incoming dec ic .fresh (encAll enc .out [.cred]) .stall))
    have hin : c.inc.verdict = .he ca ∧ c.inc.wrote = errAck (.he ca) := by
      show (incoming dec ic .fresh (encAll enc .out _) _).verdict = _ ∧ (incoming dec ic .fresh (encAll enc .out _) _).wrote = _
      rw [ht]
      simp only [encAll, List.map_cons, List.flatten_cons]
      exact in_err W hA _ _
    refine ⟨?_, by rw [hin.1]; rfl⟩
    show (outgoing dec oc .fresh (encAll enc .inc c.inc.wrote) (endAfter c.inc)).verdict.isOk = false
    rw [hin.2]
    have hend : endAfter c.inc = .eof := by simp [endAfter, hin.1]
    rw [hend]
    by_cases h3 : ca = 3
    · subst h3; simp [errAck, encAll, out_nil_eof, Verdict.isOk]
    · have : errAck (.he ca) = [.ack ca] := by
        unfold errAck; split <;> simp_all
      rw [this]
      simp only [encAll, List.map_cons, List.map_nil, List.flatten_cons, List.flatten_nil]
      rw [out_ack W ca (check_error_lt (by unfold inChecksOut at hA; exact hA))]; exact (ackVerdict_not_ok ca).1
  | ok ri =>
    have hin1 := in_ok_stall W hA
    cases hB : outChecksIn oc ic with
    | error cb =>
      simp only
      have hout1 : (outgoing dec oc .fresh (encAll enc .inc [.cred]) .stall).verdict = .he cb ∧
          (outgoing dec oc .fresh (encAll enc .inc [.cred]) .stall).wrote = [.cred] ++ errAck (.he cb) := by
        simp only [encAll, List.map_cons, List.map_nil, List.flatten_cons, List.flatten_nil]
        exact out_err W hB _ _
      have hend1 : endAfter (incoming dec ic .fresh (encAll enc .out [.cred]) .stall) = .stall := by
        simp only [encAll, List.map_cons, List.map_nil, List.flatten_cons, List.flatten_nil, List.append_nil]
        simp [endAfter, hin1.1]
      have hw1 : (incoming dec ic .fresh (encAll enc .out [.cred]) .stall).wrote = [.cred] := by
        simp only [encAll, List.map_cons, List.map_nil, List.flatten_cons, List.flatten_nil, List.append_nil]
        exact hin1.2
      -- second answer of the responder
      have hin2 : c.inc.verdict.isOk = false ∧ ∃ t, c.inc.wrote = .cred :: t := by
        show (incoming dec ic .fresh (encAll enc .out (outgoing dec oc .fresh (encAll enc .inc _) _).wrote) (endAfter (outgoing dec oc .fresh (encAll enc .inc _) _))).verdict.isOk = false ∧
          ∃ t, (incoming dec ic .fresh (encAll enc .out (outgoing dec oc .fresh (encAll enc .inc _) _).wrote) (endAfter (outgoing dec oc .fresh (encAll enc .inc _) _))).wrote = .cred :: t
        rw [hw1, hend1, hout1.2]
        have hend : endAfter (outgoing dec oc .fresh (encAll enc .inc [.cred]) .stall) = .eof := by
          simp [endAfter, hout1.1]
        rw [hend]
        by_cases h3 : cb = 3
        · subst h3
          simp only [errAck, List.append_nil, encAll, List.map_cons, List.map_nil, List.flatten_cons, List.flatten_nil]
          have := in_ok_eof W hA
          rw [this.1, this.2]; exact ⟨rfl, _, rfl⟩
        · have : errAck (.he cb) = [.ack cb] := by
            unfold errAck; split <;> simp_all
          rw [this]
          simp only [encAll, List.cons_append, List.nil_append, List.map_cons, List.map_nil, List.flatten_cons, List.flatten_nil]
          have h := in_ok_ack W hA cb (check_error_lt (by unfold outChecksIn at hB; exact hB)) [] .eof
          have hne : cb ≠ 0 := check_error_ne_zero (by unfold outChecksIn at hB; exact hB)
          simp only [hne, if_false] at h
          rw [h.1, h.2]; exact ⟨(ackVerdict_not_ok cb).1, _, rfl⟩
      refine ⟨?_, hin2.1⟩
      obtain ⟨t, ht⟩ := hin2.2
      show (outgoing dec oc .fresh (encAll enc .inc c.inc.wrote) (endAfter c.inc)).verdict.isOk = false
      rw [ht]
      simp only [encAll, List.map_cons, List.flatten_cons]
      rw [(out_err W hB _ _).1]; rfl
    | ok ro =>
      simp only
      have hend1 : endAfter (incoming dec ic .fresh (encAll enc .out [.cred]) .stall) = .stall := by
        simp only [encAll, List.map_cons, List.map_nil, List.flatten_cons, List.flatten_nil, List.append_nil]
        simp [endAfter, hin1.1]
      have hw1 : (incoming dec ic .fresh (encAll enc .out [.cred]) .stall).wrote = [.cred] := by
        simp only [encAll, List.map_cons, List.map_nil, List.flatten_cons, List.flatten_nil, List.append_nil]
        exact hin1.2
      have hout1 : (outgoing dec oc .fresh (encAll enc .inc [.cred]) .stall).verdict = .ctx ∧
          (outgoing dec oc .fresh (encAll enc .inc [.cred]) .stall).wrote = [.cred, .ack 0] := by
        simp only [encAll, List.map_cons, List.map_nil, List.flatten_cons, List.flatten_nil, List.append_nil]
        exact out_ok_stall W hB
      have hin2 : c.inc.verdict = .ok ri ∧ c.inc.wrote = [.cred, .ack 0] := by
        show (incoming dec ic .fresh (encAll enc .out (outgoing dec oc .fresh (encAll enc .inc _) _).wrote) (endAfter (outgoing dec oc .fresh (encAll enc .inc _) _))).verdict = _ ∧
          (incoming dec ic .fresh (encAll enc .out (outgoing dec oc .fresh (encAll enc .inc _) _).wrote) (endAfter (outgoing dec oc .fresh (encAll enc .inc _) _))).wrote = _
        rw [hw1, hend1, hout1.2]
        simp only [encAll, List.map_cons, List.map_nil, List.flatten_cons, List.flatten_nil]
        have h := in_ok_ack W hA 0 (by omega) [] (endAfter (outgoing dec oc .fresh (enc .inc .cred ++ []) .stall))
        simpa using h
      refine ⟨?_, hin2.1⟩
      show (outgoing dec oc .fresh (encAll enc .inc c.inc.wrote) (endAfter c.inc)).verdict = .ok ro
      rw [hin2.2]
      simp only [encAll, List.map_cons, List.map_nil, List.flatten_cons, List.flatten_nil]
      exact out_ok_ack W hB _ _


/-! ### ack(Null) is only ever written after the peer's credentials were accepted -/

theorem errAck_no_null {v : Verdict} (h : v ≠ .he 0) : WFrame.ack 0 ∉ errAck v := by
  unfold errAck
  split
  · simp
  · rename_i c _; simp; intro hc; exact h (by rw [hc])
  · simp

theorem readRaw_fail_ne_null {allowed : List Nat} {s : Bytes} {e : End} {v : Verdict} {req : Nat}
    (h : readRaw allowed s e = .fail v req) : v ≠ .he 0 := by
  unfold readRaw at h
  repeat' (split at h)
  all_goals (try (simp at h))
  all_goals (try (obtain ⟨rfl, _⟩ := h))
  all_goals simp

theorem readMsg_fail_ne_null {dec : Decoder} {allowed : List Nat} {pool : PoolObj} {s : Bytes} {e : End}
    {v : Verdict} {req : Nat} {fr : List (Nat × Nat × Nat)}
    (h : readMsg dec allowed pool s e = .fail v req fr) : v ≠ .he 0 := by
  unfold readMsg at h
  split at h
  · rename_i v' req' hr
    simp at h
    obtain ⟨rfl, _, _⟩ := h
    exact readRaw_fail_ne_null hr
  · rename_i tp p rest off hr
    simp only [msgTypeCred, msgTypeAck, msgTypeProto] at h
    by_cases h1 : tp = 1
    · subst h1
      simp only [if_true] at h
      split at h <;> simp at h <;> obtain ⟨rfl, _, _⟩ := h <;> simp
    · by_cases h2 : tp = 2
      · subst h2
        simp only [if_neg h1, if_true] at h
        split at h <;> simp at h <;> obtain ⟨rfl, _, _⟩ := h <;> simp
      · by_cases h3 : tp = 3
        · subst h3
          simp only [if_neg h1, if_neg h2, if_true] at h
          split at h <;> simp at h <;> obtain ⟨rfl, _, _⟩ := h <;> simp
        · simp [h1, h2, h3] at h

theorem failClose_wrote (v : Verdict) (w : List WFrame) (rd : List (Nat × Nat × Nat)) (mr : Nat) (p : PoolObj)
    (hv : v ≠ .he 0) (hw : WFrame.ack 0 ∉ w) : WFrame.ack 0 ∉ (failClose v w rd mr p).wrote := by
  unfold failClose
  split
  · exact hw
  · exact hw
  · simp only [List.mem_append, not_or]; exact ⟨hw, errAck_no_null hv⟩

theorem outgoing_null_ack {dec : Decoder} {cfg : Cfg} {pool : PoolObj} {s : Bytes} {e : End}
    (h : WFrame.ack 0 ∈ (outgoing dec cfg pool s e).wrote) : AcceptedCreds dec cfg pool s e := by
  unfold outgoing at h
  cases h1 : readMsg dec outRead1 pool s e with
  | fail v req fr =>
    rw [h1] at h; simp only at h
    exact absurd h (failClose_wrote _ _ _ _ _ (readMsg_fail_ne_null h1) (by simp))
  | ok r1 =>
    rw [h1] at h; simp only at h
    obtain ⟨p1, hr1, _, _, _, hk1⟩ := readMsg_ok h1
    rcases hk1 with ⟨htp1, hmsg, f, hd1, hp1⟩ | ⟨_, hmsg, _⟩ | ⟨htp, hmsg, _⟩ | ⟨h1', h2', h3', hmsg, _⟩
    · rw [hmsg] at h; simp only at h
      cases hc : check cfg r1.pool with
      | error c =>
        rw [hc] at h; simp only at h
        have hne : Verdict.he c ≠ .he 0 := by
          intro hh; injection hh with hh; exact check_error_ne_zero hc hh
        exact absurd h (failClose_wrote _ _ _ _ _ hne (by simp))
      | ok res =>
        refine ⟨p1, r1.rest, f, res, ?_, hd1, ?_⟩
        · have := readRaw_narrow hr1; rw [htp1] at this; exact this
        · rw [← hp1]; exact hc
    · rw [hmsg] at h; simp at h
    · rw [hmsg] at h; simp at h
    · rw [hmsg] at h; simp at h

theorem incoming_null_ack {dec : Decoder} {cfg : Cfg} {pool : PoolObj} {s : Bytes} {e : End}
    (h : WFrame.ack 0 ∈ (incoming dec cfg pool s e).wrote) : AcceptedCreds dec cfg pool s e := by
  unfold incoming at h
  cases h1 : readMsg dec inRead1 pool s e with
  | fail v req fr =>
    rw [h1] at h; simp only at h
    exact absurd h (failClose_wrote _ _ _ _ _ (readMsg_fail_ne_null h1) (by simp))
  | ok r1 =>
    rw [h1] at h; simp only at h
    obtain ⟨p1, hr1, _, _, _, hk1⟩ := readMsg_ok h1
    rcases hk1 with ⟨htp1, hmsg, f, hd1, hp1⟩ | ⟨_, hmsg, _⟩ | ⟨htp, hmsg, _⟩ | ⟨h1', h2', h3', hmsg, _⟩
    · rw [hmsg] at h; simp only at h
      cases hc : check cfg r1.pool with
      | error c =>
        rw [hc] at h; simp only at h
        have hne : Verdict.he c ≠ .he 0 := by
          intro hh; injection hh with hh; exact check_error_ne_zero hc hh
        exact absurd h (failClose_wrote _ _ _ _ _ hne (by simp))
      | ok res =>
        refine ⟨p1, r1.rest, f, res, ?_, hd1, ?_⟩
        · have := readRaw_narrow hr1; rw [htp1] at this; exact this
        · rw [← hp1]; exact hc
    · rw [hmsg] at h; simp at h
    · rw [hmsg] at h; simp at h
    · rw [hmsg] at h; simp at h


/-! ### corrupted frames: the side that did not accept fails, and so does its peer -/

theorem errAck_tail {v : Verdict} (h : ∀ c, v = .he c → c ≠ 0 ∧ c < 256) : ErrTail (errAck v) := by
  unfold errAck
  split
  · exact Or.inl rfl
  · rename_i c _
    obtain ⟨h0, h1⟩ := h c rfl
    exact Or.inr ⟨c, h0, h1, rfl⟩
  · exact Or.inr ⟨1, by omega, by omega, rfl⟩

theorem readRaw_fail_he {allowed : List Nat} {s : Bytes} {e : End} {v : Verdict} {req : Nat}
    (h : readRaw allowed s e = .fail v req) : ∀ c, v = .he c → c = 3 := by
  unfold readRaw at h
  repeat' (split at h)
  all_goals (try (simp at h))
  all_goals (try (obtain ⟨rfl, _⟩ := h))
  all_goals (intro c hc; first | (injection hc with hc; exact hc.symm) | cases hc)

theorem readMsg_fail_he {dec : Decoder} {allowed : List Nat} {pool : PoolObj} {s : Bytes} {e : End}
    {v : Verdict} {req : Nat} {fr : List (Nat × Nat × Nat)}
    (h : readMsg dec allowed pool s e = .fail v req fr) : ∀ c, v = .he c → c = 3 := by
  unfold readMsg at h
  split at h
  · rename_i v' req' hr
    simp at h
    obtain ⟨rfl, _, _⟩ := h
    exact readRaw_fail_he hr
  · rename_i tp p rest off hr
    simp only [msgTypeCred, msgTypeAck, msgTypeProto] at h
    by_cases h1 : tp = 1
    · subst h1
      simp only [if_true] at h
      split at h <;> simp at h <;> obtain ⟨rfl, _, _⟩ := h <;> intro c hc <;> cases hc
    · by_cases h2 : tp = 2
      · subst h2
        simp only [if_neg h1, if_true] at h
        split at h <;> simp at h <;> obtain ⟨rfl, _, _⟩ := h <;> intro c hc <;> cases hc
      · by_cases h3 : tp = 3
        · subst h3
          simp only [if_neg h1, if_neg h2, if_true] at h
          split at h <;> simp at h <;> obtain ⟨rfl, _, _⟩ := h <;> intro c hc <;> cases hc
        · simp [h1, h2, h3] at h

theorem failClose_shape (v : Verdict) (w : List WFrame) (rd : List (Nat × Nat × Nat)) (mr : Nat) (p : PoolObj)
    (hv : ∀ c, v = .he c → c ≠ 0 ∧ c < 256) :
    ∃ t, (failClose v w rd mr p).wrote = w ++ t ∧ ErrTail t ∧ (failClose v w rd mr p).verdict = v := by
  unfold failClose
  split
  · exact ⟨[], by simp, Or.inl rfl, rfl⟩
  · exact ⟨[], by simp, Or.inl rfl, rfl⟩
  · exact ⟨errAck v, rfl, errAck_tail hv, rfl⟩

theorem he3_ok : ∀ c, c = 3 → c ≠ 0 ∧ c < 256 := by intro c h; omega

/-- **a responder that did not accept the initiator's credentials**: fails, and has written nothing
but (possibly) one non-Null error ack -/
theorem incoming_not_accepted {dec : Decoder} {cfg : Cfg} {pool : PoolObj} {s : Bytes} {e : End}
    (hna : ¬ AcceptedCreds dec cfg pool s e) :
    (incoming dec cfg pool s e).verdict.isOk = false ∧ ErrTail (incoming dec cfg pool s e).wrote := by
  unfold incoming
  cases h1 : readMsg dec inRead1 pool s e with
  | fail v req fr =>
    simp only
    obtain ⟨t, hw, ht, hv⟩ := failClose_shape v [] fr req pool (fun c hc => he3_ok c (readMsg_fail_he h1 c hc))
    rw [hw, hv]
    exact ⟨(readMsg_fail h1).2.1, by simpa using ht⟩
  | ok r1 =>
    simp only
    obtain ⟨p1, hr1, _, _, _, hk1⟩ := readMsg_ok h1
    rcases hk1 with ⟨htp1, hmsg, f, hd1, hp1⟩ | ⟨_, hmsg, _⟩ | ⟨htp, hmsg, _⟩ | ⟨h1', h2', h3', hmsg, _⟩
    · rw [hmsg]; simp only
      cases hc : check cfg r1.pool with
      | error c =>
        simp only
        obtain ⟨t, hw, ht, hv⟩ := failClose_shape (.he c) [] [(r1.tp, r1.off, r1.len)] (max headerSize r1.len) r1.pool
          (fun c' hc' => by injection hc' with hc'; subst hc'; exact ⟨check_error_ne_zero hc, check_error_lt hc⟩)
        rw [hw, hv]
        exact ⟨rfl, by simpa using ht⟩
      | ok res =>
        exfalso
        apply hna
        refine ⟨p1, r1.rest, f, res, ?_, hd1, ?_⟩
        · have := readRaw_narrow hr1; rw [htp1] at this; exact this
        · rw [← hp1]; exact hc
    · rw [hmsg]; exact ⟨rfl, Or.inl rfl⟩
    · rw [hmsg]; exact ⟨rfl, Or.inl rfl⟩
    · rw [hmsg]; exact ⟨rfl, Or.inl rfl⟩

/-- **an initiator that did not accept the responder's credentials**: fails, and after its own
credentials has written nothing but (possibly) one non-Null error ack -/
theorem outgoing_not_accepted {dec : Decoder} {cfg : Cfg} {pool : PoolObj} {s : Bytes} {e : End}
    (hna : ¬ AcceptedCreds dec cfg pool s e) :
    (outgoing dec cfg pool s e).verdict.isOk = false ∧
    ∃ t, (outgoing dec cfg pool s e).wrote = .cred :: t ∧ ErrTail t := by
  unfold outgoing
  cases h1 : readMsg dec outRead1 pool s e with
  | fail v req fr =>
    simp only
    obtain ⟨t, hw, ht, hv⟩ := failClose_shape v [.cred] fr req pool (fun c hc => he3_ok c (readMsg_fail_he h1 c hc))
    rw [hw, hv]
    exact ⟨(readMsg_fail h1).2.1, t, rfl, ht⟩
  | ok r1 =>
    simp only
    obtain ⟨p1, hr1, _, _, _, hk1⟩ := readMsg_ok h1
    rcases hk1 with ⟨htp1, hmsg, f, hd1, hp1⟩ | ⟨_, hmsg, _⟩ | ⟨htp, hmsg, _⟩ | ⟨h1', h2', h3', hmsg, _⟩
    · rw [hmsg]; simp only
      cases hc : check cfg r1.pool with
      | error c =>
        simp only
        obtain ⟨t, hw, ht, hv⟩ := failClose_shape (.he c) [.cred] [(r1.tp, r1.off, r1.len)] (max headerSize r1.len) r1.pool
          (fun c' hc' => by injection hc' with hc'; subst hc'; exact ⟨check_error_ne_zero hc, check_error_lt hc⟩)
        rw [hw, hv]
        exact ⟨rfl, t, rfl, ht⟩
      | ok res =>
        exfalso
        apply hna
        refine ⟨p1, r1.rest, f, res, ?_, hd1, ?_⟩
        · have := readRaw_narrow hr1; rw [htp1] at this; exact this
        · rw [← hp1]; exact hc
    · rw [hmsg]; exact ⟨(ackVerdict_not_ok _).1, [], rfl, Or.inl rfl⟩
    · rw [hmsg]; exact ⟨rfl, [], rfl, Or.inl rfl⟩
    · rw [hmsg]; exact ⟨rfl, [], rfl, Or.inl rfl⟩


variable {dec : Decoder} {enc : Encoder} {oc ic : Cfg}

theorem out_nil (dec : Decoder) (oc : Cfg) (e : End) : (outgoing dec oc .fresh [] e).verdict.isOk = false := by
  unfold outgoing
  cases e <;> simp [readMsg_nil_eof, readMsg_nil_stall, failClose, Verdict.isOk]

theorem out_ok_eof (W : WellEncoded dec enc oc ic) {res : Result} (hB : outChecksIn oc ic = .ok res) :
    (outgoing dec oc .fresh (enc .inc .cred) .eof).verdict = .eof := by
  obtain ⟨r, hr, hm, hrest, hp⟩ := W.cred .inc outRead1 .fresh [] .eof (by simp [outRead1, msgTypeCred])
  unfold outChecksIn at hB
  unfold outgoing
  simp only [List.append_nil] at hr
  simp [hr, hm, hp, hB, hrest, readMsg_nil_eof, failClose]

theorem out_ok_ack_nz (W : WellEncoded dec enc oc ic) {res : Result} (hB : outChecksIn oc ic = .ok res)
    (c : Nat) (hc0 : c ≠ 0) (hc : c < 256) (rest : Bytes) (e : End) :
    (outgoing dec oc .fresh (enc .inc .cred ++ (enc .inc (.ack c) ++ rest)) e).verdict = .he c := by
  obtain ⟨r, hr, hm, hrest, hp⟩ := W.cred .inc outRead1 .fresh (enc .inc (.ack c) ++ rest) e (by simp [outRead1, msgTypeCred])
  obtain ⟨r2, hr2, hm2, hrest2, hp2⟩ := W.ack .inc c hc outRead2 r.pool rest e (by simp [outRead2, msgTypeAck])
    (by rw [hp]; simp [mergeCred, PoolObj.fresh])
  unfold outChecksIn at hB
  unfold outgoing
  rw [← hp] at hB
  simp [hr, hm, hB, hrest, hr2, hm2, hp2, hc0]

/-- the initiator, fed what a failing responder wrote (nothing / its credentials, then nothing or a
non-Null error ack), fails -/
theorem out_fails_on_failed_in (W : WellEncoded dec enc oc ic) (pre t : List WFrame)
    (hpre : pre = [] ∨ pre = [.cred]) (ht : ErrTail t) (e : End) :
    (outgoing dec oc .fresh (encAll enc .inc (pre ++ t)) e).verdict.isOk = false := by
  rcases hpre with rfl | rfl
  · rcases ht with rfl | ⟨c, hc0, hc, rfl⟩
    · simp only [List.append_nil, encAll, List.map_nil, List.flatten_nil]; exact out_nil dec oc e
    · simp only [List.nil_append, encAll, List.map_cons, List.map_nil, List.flatten_cons, List.flatten_nil]
      rw [out_ack W c hc]; exact (ackVerdict_not_ok c).1
  · cases hB : outChecksIn oc ic with
    | error cb =>
      simp only [encAll, List.cons_append, List.nil_append, List.map_cons, List.flatten_cons]
      rw [(out_err W hB _ _).1]; rfl
    | ok res =>
      rcases ht with rfl | ⟨c, hc0, hc, rfl⟩
      · simp only [List.append_nil, encAll, List.map_cons, List.map_nil, List.flatten_cons, List.flatten_nil]
        cases e
        · rw [out_ok_eof W hB]; rfl
        · rw [(out_ok_stall W hB).1]; rfl
      · simp only [encAll, List.cons_append, List.nil_append, List.map_cons, List.map_nil, List.flatten_cons, List.flatten_nil]
        rw [out_ok_ack_nz W hB c hc0 hc]; rfl

/-- the responder, fed the initiator's credentials followed by what a failing initiator wrote after
them (nothing or a non-Null error ack), fails -/
theorem in_fails_on_failed_out (W : WellEncoded dec enc oc ic) (t : List WFrame) (ht : ErrTail t) (e : End) :
    (incoming dec ic .fresh (enc .out .cred ++ encAll enc .out t) e).verdict.isOk = false := by
  cases hA : inChecksOut oc ic with
  | error ca => rw [(in_err W hA _ _).1]; rfl
  | ok res =>
    rcases ht with rfl | ⟨c, hc0, hc, rfl⟩
    · simp only [encAll, List.map_nil, List.flatten_nil, List.append_nil]
      cases e
      · rw [(in_ok_eof W hA).1]; rfl
      · rw [(in_ok_stall W hA).1]; rfl
    · simp only [encAll, List.map_cons, List.map_nil, List.flatten_cons, List.flatten_nil]
      have h := (in_ok_ack W hA c hc [] e).1
      simp only [hc0, if_false] at h
      rw [h]; exact (ackVerdict_not_ok c).1


/-- whatever a responder that does not succeed has written: nothing or its credentials, then nothing
or one non-Null error ack -/
theorem incoming_fail_shape {dec : Decoder} {cfg : Cfg} {pool : PoolObj} {s : Bytes} {e : End}
    (hf : (incoming dec cfg pool s e).verdict.isOk = false) :
    ∃ pre t, (incoming dec cfg pool s e).wrote = pre ++ t ∧ (pre = [] ∨ pre = [.cred]) ∧ ErrTail t := by
  unfold incoming at hf ⊢
  cases h1 : readMsg dec inRead1 pool s e with
  | fail v req fr =>
    simp only
    obtain ⟨t, hw, ht, _⟩ := failClose_shape v [] fr req pool (fun c hc => he3_ok c (readMsg_fail_he h1 c hc))
    exact ⟨[], t, hw, Or.inl rfl, ht⟩
  | ok r1 =>
    rw [h1] at hf
    simp only at hf ⊢
    cases hm : r1.msg with
    | cred =>
      rw [hm] at hf; simp only at hf ⊢
      cases hc : check cfg r1.pool with
      | error c =>
        simp only
        obtain ⟨t, hw, ht, _⟩ := failClose_shape (.he c) [] [(r1.tp, r1.off, r1.len)] (max headerSize r1.len) r1.pool
          (fun c' hc' => by injection hc' with hc'; subst hc'; exact ⟨check_error_ne_zero hc, check_error_lt hc⟩)
        exact ⟨[], t, hw, Or.inl rfl, ht⟩
      | ok res =>
        rw [hc] at hf; simp only at hf ⊢
        cases h2 : readMsg dec inRead2 r1.pool r1.rest e with
        | fail v req fr =>
          simp only
          obtain ⟨t, hw, ht, _⟩ := failClose_shape v [.cred] ([(r1.tp, r1.off, r1.len)] ++ shift r1.used fr)
            (max (max headerSize r1.len) req) r1.pool (fun c hc => he3_ok c (readMsg_fail_he h2 c hc))
          exact ⟨[.cred], t, hw, Or.inr rfl, ht⟩
        | ok r2 =>
          rw [h2] at hf; simp only at hf ⊢
          cases hm2 : r2.msg with
          | ack =>
            rw [hm2] at hf; simp only at hf ⊢
            split
            · exact ⟨[.cred], [], rfl, Or.inr rfl, Or.inl rfl⟩
            · rename_i hz
              rw [if_neg hz] at hf
              simp [Verdict.isOk] at hf
          | cred => exact ⟨[.cred], [], rfl, Or.inr rfl, Or.inl rfl⟩
          | proto => exact ⟨[.cred], [], rfl, Or.inr rfl, Or.inl rfl⟩
          | none => exact ⟨[.cred], [], rfl, Or.inr rfl, Or.inl rfl⟩
    | ack => exact ⟨[], [], rfl, Or.inl rfl, Or.inl rfl⟩
    | proto => exact ⟨[], [], rfl, Or.inl rfl, Or.inl rfl⟩
    | none => exact ⟨[], [], rfl, Or.inl rfl, Or.inl rfl⟩

/-- the responder got the honest credentials but then something that is not an ack(Null): it fails -/
theorem in_fails_on_bad_final_ack {dec : Decoder} {enc : Encoder} {oc ic : Cfg} (W : WellEncoded dec enc oc ic)
    (g : Bytes) (hg : NotNullAck dec g) (rest : Bytes) (e : End) :
    (incoming dec ic .fresh (enc .out .cred ++ (g ++ rest)) e).verdict.isOk = false := by
  cases hv : (incoming dec ic .fresh (enc .out .cred ++ (g ++ rest)) e).verdict with
  | ok res =>
    exfalso
    obtain ⟨p1, rest1, f, p2, rest2, a, hr1, hd1, hc, hr2, hd2, hz⟩ := incoming_ok hv
    obtain ⟨r, hr, hm, hrest, hp⟩ := W.cred .out [msgTypeCred] .fresh (g ++ rest) e (by simp [msgTypeCred])
    obtain ⟨p1', hr1', _, _, _, _⟩ := readMsg_ok hr
    rw [hr1] at hr1'
    injection hr1' with _ _ hrest1 _
    rw [hrest] at hrest1
    rw [hrest1] at hr2
    obtain ⟨hn, hs⟩ := hg rest e p2 rest2 a hr2 hd2
    cases a with
    | none => exact hn rfl
    | some v =>
      simp [mergeAck] at hz
      exact hs (by rw [hz])
  | he c => rfl
  | declined => rfl
  | tooBig => rfl
  | eof => rfl
  | ueof => rfl
  | ctx => rfl
  | decode => rfl
  | panic => rfl


theorem readFull_eof_no_stall (n : Nat) (s : Bytes) : readFull n s .eof ≠ .stall := by
  unfold readFull
  by_cases h0 : n = 0
  · simp [h0]
  · by_cases hl : n ≤ s.length
    · simp [h0, hl]
    · simp only [h0, hl, if_false]
      split <;> simp

theorem readRaw_eof_no_ctx {allowed : List Nat} {s : Bytes} {v : Verdict} {req : Nat}
    (h : readRaw allowed s .eof = .fail v req) : v ≠ .ctx := by
  unfold readRaw at h
  split at h
  · simp at h; obtain ⟨rfl, _⟩ := h; simp
  · simp at h; obtain ⟨rfl, _⟩ := h; simp
  · rename_i hf; exact absurd hf (readFull_eof_no_stall _ _)
  · split at h
    · simp at h; obtain ⟨rfl, _⟩ := h; simp
    · split at h
      · simp at h; obtain ⟨rfl, _⟩ := h; simp
      · split at h
        · simp at h; obtain ⟨rfl, _⟩ := h; simp
        · split at h
          · simp at h; obtain ⟨rfl, _⟩ := h; simp
          · simp at h; obtain ⟨rfl, _⟩ := h; simp
          · rename_i hf; exact absurd hf (readFull_eof_no_stall _ _)
          · simp at h

theorem readMsg_eof_no_ctx {dec : Decoder} {allowed : List Nat} {pool : PoolObj} {s : Bytes}
    {v : Verdict} {req : Nat} {fr : List (Nat × Nat × Nat)}
    (h : readMsg dec allowed pool s .eof = .fail v req fr) : v ≠ .ctx := by
  unfold readMsg at h
  split at h
  · rename_i v' req' hr
    simp at h
    obtain ⟨rfl, _, _⟩ := h
    exact readRaw_eof_no_ctx hr
  · rename_i tp p rest off hr
    simp only [msgTypeCred, msgTypeAck, msgTypeProto] at h
    by_cases h1 : tp = 1
    · subst h1
      simp only [if_true] at h
      split at h <;> simp at h <;> obtain ⟨rfl, _, _⟩ := h <;> simp
    · by_cases h2 : tp = 2
      · subst h2
        simp only [if_neg h1, if_true] at h
        split at h <;> simp at h <;> obtain ⟨rfl, _, _⟩ := h <;> simp
      · by_cases h3 : tp = 3
        · subst h3
          simp only [if_neg h1, if_neg h2, if_true] at h
          split at h <;> simp at h <;> obtain ⟨rfl, _, _⟩ := h <;> simp
        · simp [h1, h2, h3] at h

theorem ackVerdict_ne_ctx (c : Nat) : ackVerdict c ≠ .ctx := by
  unfold ackVerdict; split <;> simp

theorem failClose_verdict (v : Verdict) (w : List WFrame) (rd : List (Nat × Nat × Nat)) (mr : Nat) (p : PoolObj) :
    (failClose v w rd mr p).verdict = v := (failClose_facts v w rd mr p).1

/-- once the peer has closed the stream (end = eof) a side never keeps waiting -/
theorem side_eof_no_ctx (dec : Decoder) (role : Role) (cfg : Cfg) (pool : PoolObj) (s : Bytes) :
    (runSide dec role cfg pool s .eof).verdict ≠ .ctx := by
  cases role
  · unfold runSide outgoing
    simp only
    cases h1 : readMsg dec outRead1 pool s .eof with
    | fail v req fr => simp only; rw [failClose_verdict]; exact readMsg_eof_no_ctx h1
    | ok r1 =>
      simp only
      cases r1.msg with
      | cred =>
        simp only
        cases check cfg r1.pool with
        | error c => simp only; rw [failClose_verdict]; simp
        | ok res =>
          simp only
          cases h2 : readMsg dec outRead2 r1.pool r1.rest .eof with
          | fail v req fr => simp only; rw [failClose_verdict]; exact readMsg_eof_no_ctx h2
          | ok r2 =>
            simp only
            cases r2.msg with
            | ack => simp only; split <;> simp
            | cred => simp
            | proto => simp
            | none => simp
      | ack => simp only; exact ackVerdict_ne_ctx _
      | proto => simp
      | none => simp
  · unfold runSide incoming
    simp only
    cases h1 : readMsg dec inRead1 pool s .eof with
    | fail v req fr => simp only; rw [failClose_verdict]; exact readMsg_eof_no_ctx h1
    | ok r1 =>
      simp only
      cases r1.msg with
      | cred =>
        simp only
        cases check cfg r1.pool with
        | error c => simp only; rw [failClose_verdict]; simp
        | ok res =>
          simp only
          cases h2 : readMsg dec inRead2 r1.pool r1.rest .eof with
          | fail v req fr => simp only; rw [failClose_verdict]; exact readMsg_eof_no_ctx h2
          | ok r2 =>
            simp only
            cases r2.msg with
            | ack => simp only; split <;> first | exact ackVerdict_ne_ctx _ | simp
            | cred => simp
            | proto => simp
            | none => simp
      | ack => simp
      | proto => simp
      | none => simp


end AnySync.Handshake
