/-
Specification vocabulary for C14, stated over the byte stream a side receives and over the
configurations of the two ends (no reference to the control flow of the handshake).
-/
import AnySyncModel.Handshake.Model

namespace AnySync.Handshake
open AnySync.Generated.Handshake

/-- the shape of any accepted byte stream (both roles): a complete, whitelisted, size-bounded
credentials frame whose decoded content passes the checker, followed by a complete ack frame
carrying Null -/
def AcceptedStream (dec : Decoder) (cfg : Cfg) (pool : PoolObj) (s : Bytes) (e : End) (res : Result) : Prop :=
  ∃ p1 rest1 f p2 rest2 a,
    readRaw [msgTypeCred] s e = .frame msgTypeCred p1 rest1 headerSize ∧ dec msgTypeCred p1 = .cred f ∧
    check cfg (mergeCred pool f) = .ok res ∧
    readRaw [msgTypeAck] rest1 e = .frame msgTypeAck p2 rest2 headerSize ∧ dec msgTypeAck p2 = .ack a ∧
    (mergeAck (mergeCred pool f) a).remoteAck = 0


/-- a side that puts ack(Null) on the wire has accepted the peer's credentials -/
def AcceptedCreds (dec : Decoder) (cfg : Cfg) (pool : PoolObj) (s : Bytes) (e : End) : Prop :=
  ∃ p1 rest1 f res, readRaw [msgTypeCred] s e = .frame msgTypeCred p1 rest1 headerSize ∧
    dec msgTypeCred p1 = .cred f ∧ check cfg (mergeCred pool f) = .ok res


/-- what a failing side may have appended as its error ack -/
def ErrTail (t : List WFrame) : Prop := t = [] ∨ ∃ c, c ≠ 0 ∧ c < 256 ∧ t = [.ack c]

/-- bytes that are not (the beginning of) an ack frame carrying Null, whatever follows them -/
def NotNullAck (dec : Decoder) (g : Bytes) : Prop :=
  ∀ rest e p2 rest2 a, readRaw [msgTypeAck] (g ++ rest) e = .frame msgTypeAck p2 rest2 headerSize →
    dec msgTypeAck p2 = .ack a → a ≠ none ∧ a ≠ some 0

/-- bytes that are not (the beginning of) a credentials frame the checker of `cfg` accepts -/
def NotAcceptable (dec : Decoder) (cfg : Cfg) (g : Bytes) : Prop :=
  ∀ rest e, ¬ AcceptedCreds dec cfg .fresh (g ++ rest) e

/-- frames written by a side are read back as themselves by the other side: protobuf round trip of
`Credentials` / `Ack`, frames below the size limit. (Trusted for the real encoder; exercised by the
correspondence runs on real bytes; proved for the toy encoder of the driver.) -/
structure WellEncoded (dec : Decoder) (enc : Encoder) (oc ic : Cfg) : Prop where
  cred : ∀ (who : Role) (allowed : List Nat) (pool : PoolObj) (rest : Bytes) (e : End),
    allowed.contains msgTypeCred = true →
    ∃ r, readMsg dec allowed pool (enc who .cred ++ rest) e = .ok r ∧ r.msg = .cred ∧ r.rest = rest ∧
      r.pool = mergeCred pool (makeCred (match who with | .out => oc | .inc => ic))
  ack : ∀ (who : Role) (c : Nat), c < 256 → ∀ (allowed : List Nat) (pool : PoolObj) (rest : Bytes) (e : End),
    allowed.contains msgTypeAck = true → pool.remoteAck = 0 →
    ∃ r, readMsg dec allowed pool (enc who (.ack c) ++ rest) e = .ok r ∧ r.msg = .ack ∧ r.rest = rest ∧
      r.pool = { pool with remoteAck := c }

/-- what the responder's checker makes of the initiator's honest credentials, and vice versa -/
def inChecksOut (oc ic : Cfg) : Except Nat Result := check ic (mergeCred .fresh (makeCred oc))
def outChecksIn (oc ic : Cfg) : Except Nat Result := check oc (mergeCred .fresh (makeCred ic))

/-- the property's success condition for `verifier` looking at honest `prover`:
version gating + identity proof over exactly (prover's id ++ verifier's id) -/
def Admits (verifier prover : Cfg) : Prop :=
  prover.ver ∈ verifier.compat ∧ prover.client.bad = false ∧
  (verifier.verify = true → prover.verify = true ∧ prover.lp ++ prover.rp = verifier.rp ++ verifier.lp)

def admitted (verifier prover : Cfg) : Result :=
  ⟨if verifier.verify then some prover.acct else none, prover.ver, prover.client⟩

/-- a toy wire encoding (one payload byte naming the frame) used by the driver's `pair` operation and
as the witness that `WellEncoded` is satisfiable -/
def toyEnc : Encoder := fun who f =>
  match f with
  | .cred => [1, 1, 0, 0, 0, (match who with | .out => 0xA0 | .inc => 0xA1)]
  | .ack e => [2, 1, 0, 0, 0, UInt8.ofNat e]

def toyDec (oc ic : Cfg) : Decoder := fun tp p =>
  match p with
  | [b] =>
    if tp = 1 then
      (if b = 0xA0 then .cred (makeCred oc) else if b = 0xA1 then .cred (makeCred ic) else .bad .proto)
    else if tp = 2 then .ack (some b.toNat)
    else .bad .proto
  | _ => .bad .proto

end AnySync.Handshake
