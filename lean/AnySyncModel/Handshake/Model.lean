/-
Model of the credential handshake `net/secureservice/handshake/{handshake,credential}.go` and of the
two credential checkers of `net/secureservice/credential.go` (C14; the frame reader is also the C11
model of `readMsg`).

What is mirrored, statement by statement:
* `readMsg(allowed…)`: `io.ReadFull` of `headerSize` bytes, type whitelist, little-endian size,
  `size > sizeLimit` guard, `io.ReadFull` of `size` bytes, `switch tp` decoding INTO the pooled
  message (vtprotobuf `UnmarshalVT` merges: a field that is absent on the wire keeps its old value);
* `outgoingHandshake` / `incomingHandshake`: the four-frame exchange, `tryWriteErrAndClose`;
* `noVerifyChecker.CheckCredential`, `peerSignVerifier.CheckCredential`;
* the pooled `handshake` object: `release()` clears exactly the fields the extractor found cleared in
  the source (`Generated/HandshakeConsts.lean`).

Slicing / nil dereferences that would panic in Go are explicit: `Verdict.panic`.

Not modelled (inputs of the model): the generated protobuf decoder (`Decoder`: payload bytes ↦
decoded fields or error), Ed25519 (symbolic: a signature verifies iff it is the term
`sign signer msg` for that very key and message), the byte encoding of outgoing frames.
-/
import AnySyncModel.Generated.HandshakeConsts

namespace AnySync.Handshake
open AnySync.Generated.Handshake

abbrev Bytes := List UInt8

/-- what the stream does after the last byte: closed by the peer, or silent (only the context
deadline / cancellation ends the wait) -/
inductive End where
  | eof | stall
deriving Repr, DecidableEq

/-- client version string, interned; `bad` = contains the hot-fixed marker `middle:v0.36.6` -/
structure Client where
  id  : Nat
  bad : Bool
deriving Repr, DecidableEq

def Client.empty : Client := ⟨0, false⟩

inductive Ident where
  | key (n : Nat)   -- a well-formed Ed25519 public key (interned)
  | bad             -- bytes that `UnmarshalEd25519PublicKeyProto` rejects
deriving Repr, DecidableEq

/-- symbolic signatures: the only byte string verifying under key `k` for `msg` is `sign k msg` -/
inductive Sig where
  | sign (signer : Nat) (msg : List Char)
  | garbage
deriving Repr, DecidableEq

/-- `Credentials.payload` as seen by `PayloadSignedPeerIds.UnmarshalVT` -/
inductive Payload where
  | undecodable
  | signed (id : Ident) (sig : Sig)
deriving Repr, DecidableEq

/-- empty payload bytes decode to an empty identity and an empty signature -/
def Payload.empty : Payload := .signed .bad .garbage

inductive DecErr where
  | ueof | proto
deriving Repr, DecidableEq

/-- wire content of a Credentials message: `none` = field absent -/
structure CredFields where
  typ     : Option Nat := none
  version : Option Nat := none
  client  : Option Client := none
  payload : Option Payload := none
deriving Repr, DecidableEq

inductive Body where
  | cred (f : CredFields)
  | ack (e : Option Nat)
  | proto
  | bad (k : DecErr)
deriving Repr, DecidableEq

/-- the generated protobuf decoder: frame type, payload bytes ↦ content -/
abbrev Decoder := Nat → Bytes → Body

/-- the pooled `handshake` object: the fields that survive between sessions -/
structure PoolObj where
  credType    : Nat := 0
  credPayload : Payload := .empty
  credVersion : Nat := 0
  credClient  : Client := .empty
  remoteAck   : Nat := 0
  localAck    : Nat := 0
deriving Repr, DecidableEq

def PoolObj.fresh : PoolObj := {}

/-- `release()`: clears what the source clears -/
def release (o : PoolObj) : PoolObj :=
  { credType    := if releaseResets_credType then 0 else o.credType
    credPayload := if releaseResets_credPayload then .empty else o.credPayload
    credVersion := if releaseResets_credVersion then 0 else o.credVersion
    credClient  := if releaseResets_credClient then .empty else o.credClient
    remoteAck   := if releaseResets_remoteAck then 0 else o.remoteAck
    localAck    := if releaseResets_localAck then 0 else o.localAck }

/-- `h.remoteCred.UnmarshalVT`: merge -/
def mergeCred (o : PoolObj) (f : CredFields) : PoolObj :=
  { o with
    credType    := match f.typ with | some t => t | none => o.credType
    credPayload := match f.payload with | some p => p | none => o.credPayload
    credVersion := match f.version with | some v => v | none => o.credVersion
    credClient  := match f.client with | some c => c | none => o.credClient }

def mergeAck (o : PoolObj) (e : Option Nat) : PoolObj :=
  { o with remoteAck := match e with | some v => v | none => o.remoteAck }

/-- outcome of one side -/
structure Result where
  identity : Option Nat
  version  : Nat
  client   : Client
deriving Repr, DecidableEq

inductive Verdict where
  | ok (r : Result)
  | he (code : Nat)     -- HandshakeError{e: code}
  | declined            -- ErrPeerDeclinedCredentials
  | tooBig              -- ErrGotUnexpectedMessage
  | eof | ueof          -- io.EOF / io.ErrUnexpectedEOF
  | ctx                 -- still waiting for input: ended by the context only
  | decode              -- protobuf error other than unexpected EOF
  | panic
deriving Repr, DecidableEq

def Verdict.isOk : Verdict → Bool
  | .ok _ => true
  | _ => false

/-! ### byte level -/

inductive Full where
  | ok (bs rest : Bytes)
  | eof | ueof | stall
deriving Repr, DecidableEq

/-- `io.ReadFull(conn, buf[:n])` on what the peer will ever send -/
def readFull (n : Nat) (s : Bytes) (e : End) : Full :=
  if n = 0 then .ok [] s
  else if n ≤ s.length then .ok (s.take n) (s.drop n)
  else match e with
    | .stall => .stall
    | .eof => if s.length = 0 then .eof else .ueof

/-- `io.ReadFull` over a connection whose `Read` calls return the stream piece by piece (`chunks`):
gather `need` bytes, return them and what is left of the chunk list -/
def gather : List Bytes → Nat → Bytes → Option (Bytes × List Bytes)
  | [], need, acc => if need = 0 then some (acc, []) else none
  | c :: cs, need, acc =>
    if need = 0 then some (acc, c :: cs)
    else if c.length ≤ need then gather cs (need - c.length) (acc ++ c)
    else some (acc ++ c.take need, c.drop need :: cs)

def le32 (a b c d : UInt8) : Nat :=
  a.toNat + 256 * b.toNat + 65536 * c.toNat + 16777216 * d.toNat

inductive Hdr where
  | ok (tp size : Nat)
  | panic
deriving Repr, DecidableEq

/-- `tp := h.buf[0]`, `binary.LittleEndian.Uint32(h.buf[1:headerSize])` with Go's bounds checks -/
def parseHeader (h : Bytes) : Hdr :=
  match h with
  | [] => .panic
  | t :: r =>
    match r with
    | a :: b :: c :: d :: _ => .ok t.toNat (le32 a b c d)
    | _ => .panic

def sizeRejected (size : Nat) : Bool :=
  if sizeGuardStrict then decide (size > sizeLimit) else decide (size ≥ sizeLimit)

/-- frame-level result of `readMsg` before decoding -/
inductive Raw where
  | frame (tp : Nat) (payload rest : Bytes) (off : Nat)  -- off = offset of the payload in the input
  | fail (v : Verdict) (req : Nat)                        -- req = largest single read request issued
deriving Repr, DecidableEq

def readRaw (allowed : List Nat) (s : Bytes) (e : End) : Raw :=
  match readFull headerSize s e with
  | .eof => .fail .eof headerSize
  | .ueof => .fail .ueof headerSize
  | .stall => .fail .ctx headerSize
  | .ok h rest =>
    match parseHeader h with
    | .panic => .fail .panic headerSize
    | .ok tp size =>
      if !allowed.contains tp then .fail (.he 3) headerSize
      else if sizeRejected size then .fail .tooBig headerSize
      else match readFull size rest e with
        | .eof => .fail .eof (max headerSize size)
        | .ueof => .fail .ueof (max headerSize size)
        | .stall => .fail .ctx (max headerSize size)
        | .ok p rest' => .frame tp p rest' headerSize

inductive Msg where
  | cred | ack | proto | none   -- which pointer of `message` is set
deriving Repr, DecidableEq

structure ReadOk where
  msg  : Msg
  pool : PoolObj
  rest : Bytes
  used : Nat          -- bytes consumed
  tp   : Nat
  off  : Nat
  len  : Nat

inductive Read where
  | ok (r : ReadOk)
  | fail (v : Verdict) (req : Nat) (fr : List (Nat × Nat × Nat))  -- fr: the frame handed to the decoder, if any

def readMsg (dec : Decoder) (allowed : List Nat) (pool : PoolObj) (s : Bytes) (e : End) : Read :=
  match readRaw allowed s e with
  | .fail v req => .fail v req []
  | .frame tp p rest off =>
    let req := max headerSize p.length
    let fr := [(tp, off, p.length)]
    let mk (m : Msg) (pl : PoolObj) : Read :=
      .ok { msg := m, pool := pl, rest := rest, used := off + p.length, tp := tp, off := off, len := p.length }
    if tp = msgTypeCred then
      match dec tp p with
      | .cred f => mk .cred (mergeCred pool f)
      | .bad .ueof => .fail .ueof req fr
      | _ => .fail .decode req fr
    else if tp = msgTypeAck then
      match dec tp p with
      | .ack a => mk .ack (mergeAck pool a)
      | .bad .ueof => .fail .ueof req fr
      | _ => .fail .decode req fr
    else if tp = msgTypeProto then
      match dec tp p with
      | .proto => mk .proto pool
      | .bad .ueof => .fail .ueof req fr
      | _ => .fail .decode req fr
    else mk .none pool

/-! ### checkers -/

structure Cfg where
  verify : Bool
  acct   : Nat
  lp     : List Char      -- own peer id
  rp     : List Char      -- transport peer id of the remote, as given to the handshake
  ver    : Nat
  compat : List Nat
  client : Client
deriving Repr, DecidableEq

/-- `CheckCredential(remotePeerId, cred)` of both checker kinds; `Except` error = HandshakeError code -/
def check (cfg : Cfg) (o : PoolObj) : Except Nat Result :=
  if !cfg.compat.contains o.credVersion then .error 6
  else if !cfg.verify then
    if o.credClient.bad then .error 6
    else .ok ⟨none, o.credVersion, o.credClient⟩
  else if o.credType ≠ 1 then .error 4
  else match o.credPayload with
    | .undecodable => .error 3
    | .signed .bad _ => .error 2
    | .signed (.key k) sig =>
      if sig = .sign k (cfg.rp ++ cfg.lp) then
        if o.credClient.bad then .error 6
        else .ok ⟨some k, o.credVersion, o.credClient⟩
      else .error 2

/-- `MakeCredentials`: the wire content of the credentials an honest side presents (proto3: zero
values are not put on the wire) -/
def makeCred (cfg : Cfg) : CredFields :=
  { typ     := if cfg.verify then some 1 else none
    version := if cfg.ver = 0 then none else some cfg.ver
    client  := if cfg.client = .empty then none else some cfg.client
    payload := if cfg.verify then some (.signed (.key cfg.acct) (.sign cfg.acct (cfg.lp ++ cfg.rp))) else none }

/-- frames a side writes -/
inductive WFrame where
  | cred
  | ack (e : Nat)
deriving Repr, DecidableEq

structure SideOut where
  verdict : Verdict
  wrote   : List WFrame
  closed  : Bool
  reads   : List (Nat × Nat × Nat)   -- (type, payload offset, payload length) of every decoded frame
  maxReq  : Nat
  pool    : PoolObj                  -- the object as put back into the pool

/-- `tryWriteErrAndClose(err)`: the frames written (ErrUnexpectedPayload: just close) -/
def errAck : Verdict → List WFrame
  | .he 3 => []
  | .he c => [.ack c]
  | _ => [.ack 1]

/-- failure through `tryWriteErrAndClose`; a side that is still waiting (`ctx`) is ended by its
context: the connection is closed by `Outgoing/IncomingHandshake`, nothing more can be written -/
def failClose (v : Verdict) (w : List WFrame) (rd : List (Nat × Nat × Nat)) (mr : Nat) (p : PoolObj) : SideOut :=
  match v with
  | .ctx => ⟨.ctx, w, true, rd, mr, release p⟩
  | .panic => ⟨.panic, w, false, rd, mr, release p⟩   -- `defer h.release()` also runs while panicking
  | _ => ⟨v, w ++ errAck v, true, rd, mr, release p⟩

def shift (k : Nat) (l : List (Nat × Nat × Nat)) : List (Nat × Nat × Nat) :=
  l.map (fun x => (x.1, k + x.2.1, x.2.2))

def ackVerdict (code : Nat) : Verdict :=
  if code = 2 then .declined else .he code

def outgoing (dec : Decoder) (cfg : Cfg) (pool : PoolObj) (s : Bytes) (e : End) : SideOut :=
  match readMsg dec outRead1 pool s e with
  | .fail v req fr => failClose v [.cred] fr req pool
  | .ok r1 =>
    let rd1 := [(r1.tp, r1.off, r1.len)]
    let mr1 := max headerSize r1.len
    match r1.msg with
    | .ack => ⟨ackVerdict r1.pool.remoteAck, [.cred], false, rd1, mr1, release r1.pool⟩
    | .cred =>
      match check cfg r1.pool with
      | .error c => failClose (.he c) [.cred] rd1 mr1 r1.pool
      | .ok res =>
        match readMsg dec outRead2 r1.pool r1.rest e with
        | .fail v req fr => failClose v [.cred, .ack 0] (rd1 ++ shift r1.used fr) (max mr1 req) r1.pool
        | .ok r2 =>
          let rd2 := rd1 ++ [(r2.tp, r1.used + r2.off, r2.len)]
          let mr2 := max mr1 (max headerSize r2.len)
          match r2.msg with
          | .ack =>
            if r2.pool.remoteAck = 0 then ⟨.ok res, [.cred, .ack 0], false, rd2, mr2, release r2.pool⟩
            else ⟨.he r2.pool.remoteAck, [.cred, .ack 0], true, rd2, mr2, release r2.pool⟩
          | _ => ⟨.panic, [.cred, .ack 0], false, rd2, mr2, release r2.pool⟩   -- `msg.ack.Error` on nil
    | _ => ⟨.panic, [.cred], false, rd1, mr1, release r1.pool⟩          -- `cred.Version` on nil

def incoming (dec : Decoder) (cfg : Cfg) (pool : PoolObj) (s : Bytes) (e : End) : SideOut :=
  match readMsg dec inRead1 pool s e with
  | .fail v req fr => failClose v [] fr req pool
  | .ok r1 =>
    let rd1 := [(r1.tp, r1.off, r1.len)]
    let mr1 := max headerSize r1.len
    match r1.msg with
    | .cred =>
      match check cfg r1.pool with
      | .error c => failClose (.he c) [] rd1 mr1 r1.pool
      | .ok res =>
        match readMsg dec inRead2 r1.pool r1.rest e with
        | .fail v req fr => failClose v [.cred] (rd1 ++ shift r1.used fr) (max mr1 req) r1.pool
        | .ok r2 =>
          let rd2 := rd1 ++ [(r2.tp, r1.used + r2.off, r2.len)]
          let mr2 := max mr1 (max headerSize r2.len)
          match r2.msg with
          | .ack =>
            if r2.pool.remoteAck ≠ 0 then ⟨ackVerdict r2.pool.remoteAck, [.cred], false, rd2, mr2, release r2.pool⟩
            else ⟨.ok res, [.cred, .ack 0], false, rd2, mr2, release r2.pool⟩
          | _ => ⟨.panic, [.cred], false, rd2, mr2, release r2.pool⟩
    | _ => ⟨.panic, [], false, rd1, mr1, release r1.pool⟩

inductive Role where
  | out | inc
deriving Repr, DecidableEq

def runSide (dec : Decoder) (role : Role) (cfg : Cfg) (pool : PoolObj) (s : Bytes) (e : End) : SideOut :=
  match role with
  | .out => outgoing dec cfg pool s e
  | .inc => incoming dec cfg pool s e

/-! ### a whole connection: two sides over a reliable stream

`enc who f` are the bytes of frame `f` written by side `who`. Each side is a function of everything
its peer will ever send; because the protocol strictly alternates, the connection is obtained by
letting the two functions answer each other four times. -/

abbrev Encoder := Role → WFrame → Bytes

def encAll (enc : Encoder) (who : Role) (l : List WFrame) : Bytes :=
  (l.map (enc who)).flatten

def endAfter (o : SideOut) : End :=
  match o.verdict with
  | .ctx => .stall     -- still there, waiting
  | .ok _ => .stall    -- returned successfully: connection stays open
  | _ => .eof          -- failed: connection closed (by the handshake or by its caller)

structure Conn where
  out : SideOut
  inc : SideOut

def connect (dec : Decoder) (enc : Encoder) (oc ic : Cfg) (po pi : PoolObj) : Conn :=
  let f1 := encAll enc .out [.cred]
  let in1 := incoming dec ic pi f1 .stall
  let out1 := outgoing dec oc po (encAll enc .inc in1.wrote) (endAfter in1)
  let in2 := incoming dec ic pi (encAll enc .out out1.wrote) (endAfter out1)
  let out2 := outgoing dec oc po (encAll enc .inc in2.wrote) (endAfter in2)
  ⟨out2, in2⟩

/-! ### sessions following each other on one pooled object -/

structure Session where
  role : Role
  cfg  : Cfg
  data : Bytes
  fin  : End

/-- run the sessions one after the other on the same pooled object; verdicts in order -/
def runPool (dec : Decoder) (pool : PoolObj) : List Session → List Verdict
  | [] => []
  | s :: rest =>
    let o := runSide dec s.role s.cfg pool s.data s.fin
    o.verdict :: runPool dec o.pool rest

end AnySync.Handshake
