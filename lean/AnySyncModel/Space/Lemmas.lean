/- helper lemmas for Props/C13.lean -/
import AnySyncModel.Space.Spec

namespace AnySync.Space
open AnySync.Generated.Space

variable {B C : Type} [DecidableEq B] [DecidableEq C]

/-! ### first-dot split -/

theorem indexOf_split {d : C} {l : List C} {i : Nat} (h : indexOf d l = some i) :
    l = l.take i ++ d :: l.drop (i + 1) ∧ d ∉ l.take i := by
  induction l generalizing i with
  | nil => simp [indexOf] at h
  | cons x xs ih =>
    simp only [indexOf] at h
    split at h
    · rename_i hx; cases h; subst hx; simp
    · rename_i hx
      simp only [Option.map_eq_some_iff] at h
      obtain ⟨j, hj, rfl⟩ := h
      obtain ⟨h1, h2⟩ := ih hj
      refine ⟨?_, ?_⟩
      · simp only [List.take_succ_cons, List.drop_succ_cons, List.cons_append]; rw [← h1]
      · simp only [List.take_succ_cons, List.mem_cons, not_or]
        exact ⟨fun e => hx e.symm, h2⟩

theorem indexOf_append_of_not_mem {d : C} (a x : List C) (h : d ∉ a) :
    indexOf d (a ++ d :: x) = some a.length := by
  induction a with
  | nil => simp [indexOf]
  | cons y ys ih =>
    simp only [List.mem_cons, not_or] at h
    simp [indexOf, Ne.symm h.1, ih h.2]

/-- two ids `a ++ "." ++ x = b ++ "." ++ y` with dot-free `a`, `b` split the same way -/
theorem split_unique {d : C} {a b x y : List C} (ha : d ∉ a) (hb : d ∉ b)
    (h : a ++ d :: x = b ++ d :: y) : a = b ∧ x = y := by
  have h1 := indexOf_append_of_not_mem a x ha
  have h2 := indexOf_append_of_not_mem b y hb
  rw [h] at h1
  have hl : a.length = b.length := by rw [h2] at h1; exact (Option.some.inj h1).symm
  have := List.append_inj h hl
  exact ⟨this.1, (List.cons.inj this.2).2⟩

theorem id_of_split {d : C} {id hsh sfx : List C} {i : Nat} (hidx : indexOf d id = some i)
    (h1 : ¬ hsh ≠ id.take i) (h2 : ¬ id.drop (i + 1) ≠ sfx) : id = hsh ++ d :: sfx := by
  have := (indexOf_split hidx).1
  simp only [ne_eq, Decidable.not_not] at h1 h2
  rw [h1, ← h2]; exact this

/-! ### what acceptance means -/

theorem validateHeader_ok {W : World B C} {h : Option (HeaderWithId B C)} {aclP setP : Option B} {b : Bool}
    (hv : validateHeader W h none aclP setP = .ok b) :
    ∃ hd hb sg header k, h = some hd ∧ HeaderAccepted W hd aclP setP hb sg header k ∧
      (b = true ↔ header.version ≠ headerVersion1) := by
  unfold validateHeader at hv
  repeat' (split at hv)
  all_goals (cases hv)
  all_goals (
    refine ⟨_, _, _, _, _, rfl, ⟨id_of_split (by assumption) (by assumption) (by assumption),
      by assumption, by assumption, by assumption, ?_, ?_, ?_⟩, ?_⟩ <;> simp_all)

theorem validateAcl_ok {W : World B C} {a : WithId B C} {sid : List C} (hv : validateAcl W a = .ok sid) :
    ∃ rb sg root k mk, AclAccepted W a rb sg root k mk ∧ sid = root.spaceId := by
  unfold validateAcl at hv
  repeat' (split at hv)
  all_goals (cases hv)
  all_goals (
    refine ⟨_, _, _, _, _, ⟨?_, by assumption, by assumption, by assumption, ?_, by assumption, ?_⟩, rfl⟩ <;> simp_all)

theorem validateSettings_ok {W : World B C} {s : WithId B C} {r : List C × List C} (hv : validateSettings W s = .ok r) :
    ∃ rb sg root k, SettingsAccepted W s rb sg root k ∧ r = (root.aclHeadId, root.spaceId) := by
  unfold validateSettings at hv
  repeat' (split at hv)
  all_goals (cases hv)
  all_goals (
    refine ⟨_, _, _, _, ⟨?_, by assumption, by assumption, by assumption, ?_⟩, rfl⟩ <;> simp_all)

theorem validate_ok {W : World B C} {p : Payload B C} (hv : validate W p = .ok ()) : Accepted W p := by
  unfold validate at hv
  split at hv
  · cases hv
  · rename_i need hh
    split at hv
    · cases hv
    · rename_i sid ha
      split at hv
      · cases hv
      · rename_i ahead ssid hs
        obtain ⟨hd, hb, hsg, header, hk, hp, hacc, hneed⟩ := validateHeader_ok hh
        obtain ⟨arb, asg, aroot, ak, amk, haacc, hsid⟩ := validateAcl_ok ha
        obtain ⟨srb, ssg, sroot, sk, hsacc, hr⟩ := validateSettings_ok hs
        cases hr
        subst hsid
        split at hv
        · cases hv
        · split at hv
          · cases hv
          · rename_i h1 h2
            refine ⟨hd, hb, hsg, header, hk, arb, asg, aroot, ak, amk, srb, ssg, sroot, sk, hp, hacc, haacc, hsacc, ?_, ?_⟩
            · intro hver
              have hn : need = true := hneed.mpr hver
              simp only [hn, true_and, not_or, ne_eq, Decidable.not_not, Payload.headerId, hp] at h1
              exact ⟨h1.1, h1.2 ▸ h1.1⟩
            · simpa using h2

/-! ### converse: the accepted shape validates -/

theorem validateHeader_of_accepted {W : World B C} (L : Laws W) {hd : HeaderWithId B C} {aclP setP : Option B}
    {hb sg : B} {header : Header B} {k : Key} (h : HeaderAccepted W hd aclP setP hb sg header k) :
    validateHeader W (some hd) none aclP setP = .ok (decide (header.version ≠ headerVersion1)) := by
  obtain ⟨hid, hraw, hhdr, hkey, hver, hemb, ho⟩ := h
  have hidx := indexOf_append_of_not_mem (W.hash hd.raw) ((fmt36 header.replKey).map W.ch) (L.hash_nodot hd.raw)
  rw [← hid] at hidx
  have htake : hd.id.take (W.hash hd.raw).length = W.hash hd.raw := by rw [hid]; simp
  have hdrop : hd.id.drop ((W.hash hd.raw).length + 1) = (fmt36 header.replKey).map W.ch := by
    rw [hid]; simp
  unfold validateHeader
  simp only [hidx, htake, hraw, hhdr, hkey, hver, hdrop, ne_eq, not_true_eq_false, if_false, Bool.true_eq_false]
  by_cases hv1 : header.version = headerVersion1
  · obtain ⟨h1, h2⟩ := hemb hv1
    simp only [hv1, h1, h2, Bool.true_eq_false, and_false, if_false]
    split
    · rename_i h11; simp [ho h11]
    · rfl
  · simp only [hv1, false_and, if_false]
    split
    · rename_i h11; simp [ho h11]
    · rfl

theorem validateAcl_of_accepted {W : World B C} {a : WithId B C} {rb sg : B} {root : AclRoot B C} {k mk : Key}
    (h : AclAccepted W a rb sg root k mk) : validateAcl W a = .ok root.spaceId := by
  obtain ⟨hid, hraw, hroot, hkey, hver, hmk, hmver⟩ := h
  unfold validateAcl
  simp [← hid, hraw, hroot, hkey, hver, hmk, hmver]

theorem validateSettings_of_accepted {W : World B C} {s : WithId B C} {rb sg : B} {root : RootChange B C} {k : Key}
    (h : SettingsAccepted W s rb sg root k) : validateSettings W s = .ok (root.aclHeadId, root.spaceId) := by
  obtain ⟨hid, hraw, hroot, hkey, hver⟩ := h
  unfold validateSettings
  simp [← hid, hraw, hroot, hkey, hver]

theorem validate_of_accepted {W : World B C} (L : Laws W) {p : Payload B C} (h : Accepted W p) :
    validate W p = .ok () := by
  obtain ⟨hd, hb, hsg, header, hk, arb, asg, aroot, ak, amk, srb, ssg, sroot, sk, hp, hacc, haacc, hsacc, hids, hhead⟩ := h
  unfold validate
  rw [hp, validateHeader_of_accepted L hacc, validateAcl_of_accepted haacc, validateSettings_of_accepted hsacc]
  simp only [Payload.headerId, hp, hhead, ne_eq, not_true_eq_false, if_false]
  by_cases hv1 : header.version = headerVersion1
  · simp [hv1]
  · obtain ⟨h1, h2⟩ := hids hv1
    simp [hv1, h1, h2]

end AnySync.Space
