/-
Consistency witness for the symbolic laws of C13: a free (Dolev–Yao style) term algebra in which
every encoder is a constructor, every decoder a pattern match, a signature is the term `sig sk m`,
the content hash of `t` is the one-symbol string `[cid t]`. `Laws` and `Crypto` hold by constructor
injectivity — so the hypotheses of the theorems in Props/C13.lean are jointly satisfiable.
-/
import AnySyncModel.Space.Spec

namespace AnySync.Space

inductive Term where
  | nil
  | atom (n : Nat)
  | chr (c : Char)                 -- a character of an id string
  | cid (t : Term)                 -- the content id of `t`, as one symbol of an id string
  | snil
  | scons (h t : Term)             -- id strings inside roots
  | raw (p s : Term)
  | header (identity : Term) (rk ver : Nat) (acl set : Term) (ty : List Char) (pl : Term) (rest : Nat)
  | aclRoot (identity master isig sid : Term) (rest : Nat)
  | root (identity sid head : Term) (rest : Nat)
  | key (k : Nat)
  | rawKey (k : Nat)
  | sig (sk : Nat) (m : Term)
  | o2o (owner w1 w2 : Nat)
  deriving DecidableEq, Repr

namespace Term

def encStr : List Term → Term
  | [] => .snil
  | x :: xs => .scons x (encStr xs)

def decStr : Term → List Term
  | .scons h t => h :: decStr t
  | _ => []

theorem decStr_encStr (l : List Term) : decStr (encStr l) = l := by
  induction l with
  | nil => rfl
  | cons x xs ih => simp [encStr, decStr, ih]

/-- the primitives over terms -/
def world : World Term Term where
  ch c := .chr c
  hash t := [.cid t]
  decRaw | .raw p s => some (p, s) | _ => none
  decHeader
    | .header i rk v a s ty pl r => some ⟨i, rk, v, a, s, ty, pl, r⟩
    | _ => none
  decAclRoot
    | .aclRoot i m s sid r => some ⟨i, m, s, decStr sid, r⟩
    | _ => none
  decRoot
    | .root i sid h r => some ⟨i, decStr sid, decStr h, r⟩
    | _ => none
  decO2O | .o2o _ _ _ => true | _ => false
  decKey | .key k => some k | _ => none
  rawKey k := .rawKey k
  verify k m s := s = .sig k m

theorem laws : Laws world where
  hash_inj := by intro a b h; simpa [world] using h
  hash_nodot := by intro a; simp [world]

/-- encoders and signing over terms (secret key `n` has public key `n`) -/
def crypto : Crypto world where
  encRaw p s := .raw p s
  encHeader h := .header h.identity h.replKey h.version h.aclPayload h.settingPayload h.spaceType h.payload h.rest
  encAclRoot r := .aclRoot r.identity r.masterKey r.identitySig (encStr r.spaceId) r.rest
  encRoot r := .root r.identity (encStr r.spaceId) (encStr r.aclHeadId) r.rest
  encKey k := .key k
  encO2O o w := .o2o o w.1 w.2
  nil := .nil
  pub := id
  sign sk m := .sig sk m
  fnv k := k
  dec_encRaw := by intros; rfl
  dec_encHeader := by intro h; cases h; rfl
  dec_encAclRoot := by intro r; cases r; simp [world, decStr_encStr]
  dec_encRoot := by intro r; cases r; simp [world, decStr_encStr]
  dec_encKey := by intros; rfl
  dec_encO2O := by intros; rfl
  verify_iff := by intro sk m s; simp [world]

/-- a Diffie–Hellman structure with the commutativity law `dh a (pub b) = dh b (pub a)` -/
def dhToy : DH where
  pub := id
  dh a b := a + b
  kdf s lo hi := s + lo + hi

theorem dhToy_comm (a b : Nat) : dhToy.dh a (dhToy.pub b) = dhToy.dh b (dhToy.pub a) := by
  simp [dhToy, Nat.add_comm]

end Term
end AnySync.Space
