/-
Consistency witness for the symbolic laws of C13: a free (Dolev–Yao style) term algebra in which
every encoder is a constructor, every decoder a pattern match, a signature is the term `sig sk m`,
the content hash of `t` is the one-symbol string `[cid t]`. `Laws` and `Crypto` hold by constructor
injectivity — so the hypotheses of the theorems in Props/C13.lean are jointly satisfiable.
-/
import AnySyncModel.Space.Spec

namespace AnySync.Space

inductive Term where
  | nil
  | atom (n : Nat)
  | chr (c : Char)                 -- a character of an id string
  | cid (t : Term)                 -- the content id of `t`, as one symbol of an id string
  | snil
  | scons (h t : Term)             -- id strings inside roots
  | raw (p s : Term)
  | header (identity : Term) (rk ver : Nat) (acl set : Term) (ty : List Char) (pl : Term) (rest : Nat)
  | aclRoot (identity master isig sid : Term) (rest : Nat)
  | root (identity sid head : Term) (rest : Nat)
  | key (k : Nat)
  | rawKey (k : Nat)
  | sig (sk : Nat) (m : Term)
  | o2o (owner w1 w2 : Nat)
  deriving DecidableEq, Repr

namespace Term

def encStr : List Term → Term
  | [] => .snil
  | x :: xs => .scons x (encStr xs)

def decStr : Term → List Term
  | .scons h t => h :: decStr t
  | _ => []

theorem decStr_encStr (l : List Term) : decStr (encStr l) = l := by
  induction l with
  | nil => rfl
  | cons x xs ih => simp [encStr, decStr, ih]

/-- the primitives over terms -/
def world : World Term Term where
  ch c := .chr c
  hash t := [.cid t]
  decRaw | .raw p s => some (p, s) | _ => none
  decHeader
    | .header i rk v a s ty pl r => some ⟨i, rk, v, a, s, ty, pl, r⟩
    | _ => none
  decAclRoot
    | .aclRoot i m s sid r => some ⟨i, m, s, decStr sid, r⟩
    | _ => none
  decRoot
    | .root i sid h r => some ⟨i, decStr sid, decStr h, r⟩
    | _ => none
  decO2O | .o2o _ _ _ => true | _ => false
  decKey | .key k => some k | _ => none
  rawKey k := .rawKey k
  verify k m s := s = .sig k m

theorem laws : Laws world where
  hash_inj := by intro a b h; simpa [world] using h
  hash_nodot := by intro a; simp [world]

/-- encoders and signing over terms (secret key `n` has public key `n`) -/
def crypto : Crypto world where
  encRaw p s := .raw p s
  encHeader h := .header h.identity h.replKey h.version h.aclPayload h.settingPayload h.spaceType h.payload h.rest
  encAclRoot r := .aclRoot r.identity r.masterKey r.identitySig (encStr r.spaceId) r.rest
  encRoot r := .root r.identity (encStr r.spaceId) (encStr r.aclHeadId) r.rest
  encKey k := .key k
  encO2O o w := .o2o o w.1 w.2
  nil := .nil
  pub := id
  sign sk m := .sig sk m
  fnv k := k
  dec_encRaw := by intros; rfl
  dec_encHeader := by intro h; cases h; rfl
  dec_encAclRoot := by intro r; cases r; simp [world, decStr_encStr]
  dec_encRoot := by intro r; cases r; simp [world, decStr_encStr]
  dec_encKey := by intros; rfl
  dec_encO2O := by intros; rfl
  verify_iff := by intro sk m s; simp [world]

/-- an injective pairing with an elementary proof: `2^l * (2h+1)` -/
def pair2 (l h : Nat) : Nat := 2 ^ l * (2 * h + 1)

theorem pair2_inj : ∀ (l h l' h' : Nat), pair2 l h = pair2 l' h' → l = l' ∧ h = h' := by
  intro l
  induction l with
  | zero =>
    intro h l' h' e
    cases l' with
    | zero => simp [pair2] at e; omega
    | succ k =>
      exfalso
      simp only [pair2, Nat.pow_zero, Nat.one_mul, Nat.pow_succ] at e
      have : 2 ^ k * 2 * (2 * h' + 1) = 2 * (2 ^ k * (2 * h' + 1)) := by
        rw [Nat.mul_comm (2 ^ k) 2, Nat.mul_assoc]
      rw [this] at e
      generalize 2 ^ k * (2 * h' + 1) = X at e
      omega
  | succ n ih =>
    intro h l' h' e
    cases l' with
    | zero =>
      exfalso
      simp only [pair2, Nat.pow_zero, Nat.one_mul, Nat.pow_succ] at e
      have : 2 ^ n * 2 * (2 * h + 1) = 2 * (2 ^ n * (2 * h + 1)) := by
        rw [Nat.mul_comm (2 ^ n) 2, Nat.mul_assoc]
      rw [this] at e
      generalize 2 ^ n * (2 * h + 1) = X at e
      omega
    | succ k =>
      simp only [pair2, Nat.pow_succ] at e
      have e1 : 2 ^ n * 2 * (2 * h + 1) = 2 * (2 ^ n * (2 * h + 1)) := by
        rw [Nat.mul_comm (2 ^ n) 2, Nat.mul_assoc]
      have e2 : 2 ^ k * 2 * (2 * h' + 1) = 2 * (2 ^ k * (2 * h' + 1)) := by
        rw [Nat.mul_comm (2 ^ k) 2, Nat.mul_assoc]
      rw [e1, e2] at e
      have e3 : pair2 n h = pair2 k h' := by simp only [pair2]; omega
      obtain ⟨a, b⟩ := ih h k h' e3
      exact ⟨by omega, b⟩

/-- a Diffie–Hellman structure satisfying every stated law: identities `2k` and `2k+1` are each
other's "negation" (same X25519 image `k`); X25519 is commutative; the KDF output determines its context -/
def dhToy : DH where
  pub := id
  mont x := x / 2
  dh a u := a / 2 + u
  kdf _ c := pair2 c.1 c.2

theorem dhToy_comm (a b : Nat) : dhToy.dh a (dhToy.mont (dhToy.pub b)) = dhToy.dh b (dhToy.mont (dhToy.pub a)) := by
  simp [dhToy, Nat.add_comm]

theorem dhToy_kdf_inj (s : Nat) (c : Nat × Nat) (s' : Nat) (c' : Nat × Nat)
    (h : dhToy.kdf s c = dhToy.kdf s' c') : c = c' := by
  obtain ⟨a, b⟩ := pair2_inj _ _ _ _ h
  cases c; cases c'; simp_all

end Term
end AnySync.Space
