import AnySyncModel.Space.Model
/-! # the one-to-one ACL root as the ACL state reads it (`commonspace/object/acl/list/onetoone.go`)

`setOneToOneAcl` = `findMeAndValidateOneToOne` + `deriveOneToOneKeys` + the account table. Byte strings
and keys are symbols; the primitives are parameters:

* `decKey`  — `crypto.UnmarshalEd25519PublicKeyProto` : marshalled bytes ↦ key (its raw storage)
* `marshal` — `PubKey.Marshall`                        : key ↦ marshalled bytes
* `pub`     — secret key ↦ public key
* `shared`  — `crypto.GenerateSharedKey(me, bob, path)`: the joint SECRET key (may fail)

The branch order is the order of the Go code: writer count, owner nil, (if I am listed) partner key
decode → joint key → owner comparison, then owner decode, then the writers in list order. The account
table is a Go map keyed by raw key storage, later writes win (`lookupAcc` = first match of the list,
newest first). The second `GenerateSharedKey` call (metadata path) has the same DH inputs as the
first and is not a separate failure point of the model. -/
namespace AnySync.Space

structure O2OPrims where
  decKey : Nat → Option Nat
  marshal : Nat → Nat
  pub : Nat → Nat
  shared : Nat → Nat → Option Nat

/-- `AclRoot.OneToOneInfo` after protobuf decoding: an absent / empty owner decodes to nil -/
structure O2OInfo where
  owner : Option Nat
  writers : List Nat
  deriving DecidableEq, Repr

inductive O2OErr
  | count          -- "should have exactly two Writers"
  | ownerEmpty     -- "Owner is empty"
  | key            -- a public key does not unmarshal
  | shared         -- GenerateSharedKey failed
  | ownerMismatch  -- "Owner pubkey != derived pubkey"
  deriving DecidableEq, Repr

inductive O2OPerm | owner | writer
  deriving DecidableEq, Repr

structure O2OState where
  /-- account table, newest write first -/
  accounts : List (Nat × O2OPerm)
  /-- `st.keys[rootId]`: the joint secret key the read and metadata keys are derived from -/
  keys : Option Nat
  foundMe : Bool
  deriving DecidableEq, Repr

def lookupAcc (l : List (Nat × O2OPerm)) (k : Nat) : Option O2OPerm :=
  (l.find? (·.1 = k)).map (·.2)

/-- am I one of the two listed writers (`bytes.Equal(myPubKeyBytes, writerBytes)`) -/
def listed (P : O2OPrims) (me w0 w1 : Nat) : Bool :=
  w0 = P.marshal (P.pub me) || w1 = P.marshal (P.pub me)

/-- `findMeAndValidateOneToOne` -/
def findMe (P : O2OPrims) (me : Nat) (i : O2OInfo) : Except O2OErr Bool :=
  match i.writers, i.owner with
  | [w0, w1], some _ => .ok (listed P me w0 w1)
  | [_, _], none => .error .ownerEmpty
  | _, _ => .error .count

/-- `deriveOneToOneKeys`, for a two-element writer list: the partner is `Writers[0]` unless that is me -/
def deriveKeys (P : O2OPrims) (me w0 w1 o : Nat) : Except O2OErr Nat :=
  match P.decKey (if w0 = P.marshal (P.pub me) then w1 else w0) with
  | none => .error .key
  | some bob =>
    match P.shared me bob with
    | none => .error .shared
    | some s => if o = P.marshal (P.pub s) then .ok s else .error .ownerMismatch

/-- `setOneToOneAcl` once the list has two writers and an owner -/
def setTwo (P : O2OPrims) (me w0 w1 o : Nat) : Except O2OErr O2OState :=
  match (if listed P me w0 w1 then (deriveKeys P me w0 w1 o).map some else .ok none) with
  | .error e => .error e
  | .ok ks =>
    match P.decKey o, P.decKey w0, P.decKey w1 with
    | some ko, some k0, some k1 =>
      .ok ⟨[(k1, .writer), (k0, .writer), (ko, .owner)], ks, listed P me w0 w1⟩
    | _, _, _ => .error .key

/-- `setOneToOneAcl` -/
def setOneToOne (P : O2OPrims) (me : Nat) (i : O2OInfo) : Except O2OErr O2OState :=
  match i.writers, i.owner with
  | [w0, w1], some o => setTwo P me w0 w1 o
  | [_, _], none => .error .ownerEmpty
  | _, _ => .error .count

theorem setOneToOne_ok {P : O2OPrims} {me : Nat} {i : O2OInfo} {s : O2OState}
    (h : setOneToOne P me i = .ok s) :
    ∃ w0 w1 o, i.writers = [w0, w1] ∧ i.owner = some o ∧ setTwo P me w0 w1 o = .ok s := by
  unfold setOneToOne at h
  split at h
  · next w0 w1 o hw ho => exact ⟨w0, w1, o, hw, ho, h⟩
  · simp at h
  · simp at h

theorem setTwo_ok {P : O2OPrims} {me w0 w1 o : Nat} {s : O2OState} (h : setTwo P me w0 w1 o = .ok s) :
    ∃ ko k0 k1, P.decKey o = some ko ∧ P.decKey w0 = some k0 ∧ P.decKey w1 = some k1 ∧
      s.accounts = [(k1, .writer), (k0, .writer), (ko, .owner)] ∧ s.foundMe = listed P me w0 w1 ∧
      ((listed P me w0 w1 = true ∧ ∃ k, deriveKeys P me w0 w1 o = .ok k ∧ s.keys = some k) ∨
       (listed P me w0 w1 = false ∧ s.keys = none)) := by
  unfold setTwo at h
  cases hl : listed P me w0 w1 <;> cases hd : deriveKeys P me w0 w1 o <;>
    cases hko : P.decKey o <;> cases hk0 : P.decKey w0 <;> cases hk1 : P.decKey w1 <;>
    simp [hl, hd, hko, hk0, hk1, Except.map] at h <;> subst h <;> simp

theorem deriveKeys_ok {P : O2OPrims} {me w0 w1 o k : Nat} (h : deriveKeys P me w0 w1 o = .ok k) :
    ∃ bob, P.decKey (if w0 = P.marshal (P.pub me) then w1 else w0) = some bob ∧
      P.shared me bob = some k ∧ o = P.marshal (P.pub k) := by
  unfold deriveKeys at h
  cases hb : P.decKey (if w0 = P.marshal (P.pub me) then w1 else w0) with
  | none => simp [hb] at h
  | some bob =>
    cases hs : P.shared me bob with
    | none => simp [hb, hs] at h
    | some sk =>
      by_cases ho : o = P.marshal (P.pub sk)
      · simp [hb, hs, ho] at h; subst h; exact ⟨bob, rfl, hs, ho⟩
      · simp [hb, hs, ho] at h

/-- the root `makeOneToOneInfo` builds for the pair (a, identity b): owner = the joint public key,
writers = the two marshalled identities in ascending order -/
def genuineInfo (P : O2OPrims) (joint aId bId : Nat) : O2OInfo :=
  let s := sortPair (P.marshal aId) (P.marshal bId)
  ⟨some (P.marshal (P.pub joint)), [s.1, s.2]⟩

end AnySync.Space
