/-
Model of `commonspace/spacepayloads/payloads.go` (C13): `ValidateSpaceHeader`,
`validateCreateSpaceAclPayload`, `validateCreateSpaceSettingsPayload`,
`ValidateSpaceStorageCreatePayload`, branch by branch, in the order of the Go code.

Byte strings are opaque (`B`, equal value ⇔ equal bytes; the driver uses interned naturals, the
consistency witness of `Spec.lean` a free term algebra); everything the Go code obtains from hashing,
protobuf decoding, key decoding and signature verification is a field of `World` (a parameter). The
driver instantiates `World` with tables computed by the real primitives on the concrete payload; the
theorems quantify over every `World` that satisfies the symbolic laws of `Spec.lean` (collision-free
hash, decode∘encode = id, sign/verify law). Space ids are strings over `C` (the driver: `Char`), so the
first-dot split is modelled as coded. Core Lean only (linked into `modeld`).
-/
import AnySyncModel.Generated.SpaceConsts

namespace AnySync.Space
open AnySync.Generated.Space

/-- a decoded Ed25519 public key -/
abbrev Key := Nat

/-- `spacesyncproto.SpaceHeader` (fields the validator reads; `rest` = timestamp, seed, fileproto version) -/
structure Header (B : Type) where
  identity : B
  replKey : Nat
  version : Nat
  aclPayload : B
  settingPayload : B
  spaceType : List Char
  payload : B
  rest : Nat
  deriving DecidableEq, Repr

/-- `aclrecordproto.AclRoot` (`rest` = read-key material, timestamp, one-to-one info, options) -/
structure AclRoot (B C : Type) where
  identity : B
  masterKey : B
  identitySig : B
  spaceId : List C
  rest : Nat
  deriving DecidableEq, Repr

/-- `treechangeproto.RootChange` (`rest` = change type, timestamp, seed, …) -/
structure RootChange (B C : Type) where
  identity : B
  spaceId : List C
  aclHeadId : List C
  rest : Nat
  deriving DecidableEq, Repr

/-- the primitives the validator calls -/
structure World (B C : Type) where
  /-- embedding of ASCII characters into the id alphabet -/
  ch : Char → C
  /-- `cidutil.NewCidFromBytes` (text form of the CID) -/
  hash : B → List C
  /-- `RawSpaceHeader` / `RawRecord` / `RawTreeChange` `.UnmarshalVT`: (payload, signature) -/
  decRaw : B → Option (B × B)
  decHeader : B → Option (Header B)
  decAclRoot : B → Option (AclRoot B C)
  decRoot : B → Option (RootChange B C)
  /-- `AclOneToOneInfo.UnmarshalVT` succeeds -/
  decO2O : B → Bool
  /-- `crypto.UnmarshalEd25519PublicKeyProto` -/
  decKey : B → Option Key
  /-- `PubKey.Raw()` -/
  rawKey : Key → B
  /-- `PubKey.Verify(msg, sig)` -/
  verify : Key → B → B → Bool

inductive Err where
  | incorrectHeader      -- spacestorage.ErrIncorrectSpaceHeader
  | incorrectCid         -- objecttree.ErrIncorrectCid
  | malformed            -- protobuf / key unmarshal error
  | incorrectIdentity    -- ErrIncorrectIdentity
  | incorrectOneToOne    -- ErrIncorrectOneToOnePayload
  deriving DecidableEq, Repr

/-- `strings.Index(s, d)` -/
def indexOf {C : Type} [DecidableEq C] (d : C) : List C → Option Nat
  | [] => none
  | x :: xs => if x = d then some 0 else (indexOf d xs).map (· + 1)

/-- digit of `strconv.FormatUint(_, 36)`: `0-9a-z` -/
def digit36 (d : Nat) : Char :=
  if d < 10 then Char.ofNat ('0'.toNat + d) else Char.ofNat ('a'.toNat + (d - 10))

/-- digits of `n` in base 36, most significant first, prepended to `acc` (`fuel` ≥ number of digits) -/
def fmt36Aux : Nat → Nat → List Char → List Char
  | 0, _, acc => acc
  | fuel + 1, n, acc =>
    if n < 36 then digit36 n :: acc else fmt36Aux fuel (n / 36) (digit36 (n % 36) :: acc)

/-- `strconv.FormatUint(n, 36)` -/
def fmt36 (n : Nat) : List Char := fmt36Aux (n + 1) n []

/-- `IsOneToOneType` -/
def isOneToOneType (t : List Char) : Bool :=
  t = spaceTypeOneToOne.toList || t = spaceTypeOneToOneAny.toList

/-- `RawSpaceHeaderWithId` -/
structure HeaderWithId (B C : Type) where
  id : List C
  raw : B
  deriving DecidableEq, Repr

/-- `x != nil && !bytes.Equal(x, embedded)` is false -/
def checkEmbedded {B : Type} [DecidableEq B] (embedded : B) (supplied : Option B) : Bool :=
  match supplied with
  | some a => a = embedded
  | none => true

variable {B C : Type} [DecidableEq B] [DecidableEq C]

/-- `ValidateSpaceHeader(rawHeaderWithId, identity, aclPayload, settingsPayload)`;
`none` arguments are Go `nil`s. Returns `needCheckSpaceId`. -/
def validateHeader (W : World B C) (h : Option (HeaderWithId B C)) (identity : Option Key)
    (aclPayload settingsPayload : Option B) : Except Err Bool :=
  match h with
  | none => .error .incorrectHeader
  | some h =>
  match indexOf (W.ch '.') h.id with
  | none => .error .incorrectHeader
  | some sepIdx =>
  if W.hash h.raw ≠ h.id.take sepIdx then .error .incorrectCid else
  match W.decRaw h.raw with
  | none => .error .malformed
  | some (headerBytes, signature) =>
  match W.decHeader headerBytes with
  | none => .error .malformed
  | some header =>
  match W.decKey header.identity with
  | none => .error .malformed
  | some payloadIdentity =>
  if W.verify payloadIdentity headerBytes signature = false then .error .incorrectHeader else
  if h.id.drop (sepIdx + 1) ≠ (fmt36 header.replKey).map W.ch then .error .incorrectHeader else
  -- isV1 := header.Version == SpaceHeaderVersion1
  if header.version = headerVersion1 ∧ checkEmbedded header.aclPayload aclPayload = false then .error .incorrectHeader else
  if header.version = headerVersion1 ∧ checkEmbedded header.settingPayload settingsPayload = false then .error .incorrectHeader else
  if isOneToOneType header.spaceType then
    if W.decO2O header.payload = false then .error .incorrectOneToOne
    else .ok (decide (header.version ≠ headerVersion1))
  else
    match identity with
    | some k =>
      if payloadIdentity ≠ k then .error .incorrectIdentity else .ok (decide (header.version ≠ headerVersion1))
    | none => .ok (decide (header.version ≠ headerVersion1))

/-- `RawRecordWithId` / `RawTreeChangeWithId` -/
structure WithId (B C : Type) where
  id : List C
  payload : B
  deriving DecidableEq, Repr

/-- `validateCreateSpaceAclPayload`: returns the space id named by the ACL root -/
def validateAcl (W : World B C) (a : WithId B C) : Except Err (List C) :=
  if W.hash a.payload ≠ a.id then .error .incorrectCid else
  match W.decRaw a.payload with
  | none => .error .malformed
  | some (rootBytes, signature) =>
  match W.decAclRoot rootBytes with
  | none => .error .malformed
  | some root =>
  match W.decKey root.identity with
  | none => .error .malformed
  | some payloadIdentity =>
  if W.verify payloadIdentity rootBytes signature = false then .error .incorrectHeader else
  match W.decKey root.masterKey with
  | none => .error .malformed
  | some masterKey =>
  if W.verify masterKey (W.rawKey payloadIdentity) root.identitySig = false then .error .incorrectHeader else
  .ok root.spaceId

/-- `validateCreateSpaceSettingsPayload`: returns (aclHeadId, spaceId) -/
def validateSettings (W : World B C) (s : WithId B C) : Except Err (List C × List C) :=
  if W.hash s.payload ≠ s.id then .error .incorrectHeader else
  match W.decRaw s.payload with
  | none => .error .malformed
  | some (rootBytes, signature) =>
  match W.decRoot rootBytes with
  | none => .error .malformed
  | some root =>
  match W.decKey root.identity with
  | none => .error .malformed
  | some payloadIdentity =>
  if W.verify payloadIdentity rootBytes signature = false then .error .incorrectHeader else
  .ok (root.aclHeadId, root.spaceId)

/-- `spacestorage.SpaceStorageCreatePayload`. The two wrappers are always allocated on every path
that reaches the validator (create, push, pull); their byte slices may be nil (`aclNil`, `setNil`). -/
structure Payload (B C : Type) where
  header : Option (HeaderWithId B C)
  acl : WithId B C
  aclNil : Bool
  settings : WithId B C
  setNil : Bool
  deriving DecidableEq, Repr

/-- `payload.SpaceHeaderWithId.Id` after the header was validated (non-nil there) -/
def Payload.headerId (p : Payload B C) : List C :=
  match p.header with
  | some h => h.id
  | none => []

/-- `ValidateSpaceStorageCreatePayload` -/
def validate (W : World B C) (p : Payload B C) : Except Err Unit :=
  match validateHeader W p.header none
      (if p.aclNil then none else some p.acl.payload)
      (if p.setNil then none else some p.settings.payload) with
  | .error e => .error e
  | .ok needCheckSpaceId =>
  match validateAcl W p.acl with
  | .error e => .error e
  | .ok aclSpaceId =>
  match validateSettings W p.settings with
  | .error e => .error e
  | .ok (aclHeadId, settingsSpaceId) =>
  if needCheckSpaceId = true ∧ (aclSpaceId ≠ p.headerId ∨ aclSpaceId ≠ settingsSpaceId) then .error .incorrectHeader else
  if aclHeadId ≠ p.acl.id then .error .incorrectHeader else
  .ok ()

/-! ## one-to-one derivation (symbolic): `GenerateSharedKey`, `makeOneToOneInfo` -/

/-- the Diffie–Hellman / key-derivation primitives (parameters; keys are symbols) -/
structure DH where
  /-- Ed25519 secret key ↦ Ed25519 public key (the account IDENTITY) -/
  pub : Nat → Nat
  /-- Ed25519 identity ↦ X25519 (Montgomery) public key, `Ed25519PublicKeyToCurve25519`. NOT injective:
  a point and its negation (same bytes, sign bit flipped) and torsion shifts share their u-coordinate
  or their X25519 result. -/
  mont : Nat → Nat
  /-- `curve25519.X25519(own secret, other's X25519 public key)` -/
  dh : Nat → Nat → Nat
  /-- HKDF-SHA256(shared secret, context) → SLIP-21 node at the one-to-one path → Ed25519 seed: the
  SECRET joint key -/
  kdf : Nat → Nat × Nat → Nat

/-- `buildSortedContext` / the `sort.Slice` of `makeOneToOneInfo`: the two byte strings in ascending order -/
def sortPair (x y : Nat) : Nat × Nat := if x ≤ y then (x, y) else (y, x)

/-- the two byte strings `GenerateSharedKey` hands to `buildSortedContext`: the two Ed25519 identities
(`fromIdentities`, the unchanged tree) — or, hypothetically, the two X25519 public keys -/
def kdfContext (D : DH) (fromIdentities : Bool) (aId bId : Nat) : Nat × Nat :=
  if fromIdentities then sortPair aId bId else sortPair (D.mont aId) (D.mont bId)

def sharedKeyWith (D : DH) (fromIdentities : Bool) (aSk bId : Nat) : Nat :=
  D.kdf (D.dh aSk (D.mont bId)) (kdfContext D fromIdentities (D.pub aSk) bId)

/-- `crypto.GenerateSharedKey(aSk, bPk, path)`; which context it uses is regenerated from the source -/
def sharedKey (D : DH) (aSk bId : Nat) : Nat := sharedKeyWith D kdfContextFromIdentities aSk bId

/-- everything `StoragePayloadForOneToOneSpaceWithType` feeds into header, ACL root and settings root:
the joint key (identity, master key, signer, replication key), the sorted writers, the header type.
No timestamp and no seed enter that constructor. -/
structure O2OCore where
  shared : Nat
  writers : Nat × Nat
  ty : Nat
  deriving DecidableEq, Repr

def oneToOneCore (D : DH) (aSk bPk ty : Nat) : O2OCore :=
  ⟨sharedKey D aSk bPk, sortPair (D.pub aSk) bPk, ty⟩

end AnySync.Space
