/-
Model of `commonspace/spacepayloads/payloads.go` (C13): `ValidateSpaceHeader`,
`validateCreateSpaceAclPayload`, `validateCreateSpaceSettingsPayload`,
`ValidateSpaceStorageCreatePayload`, branch by branch, in the order of the Go code.

Byte strings are opaque symbols (`Bytes := Nat`, equal symbol ⇔ equal bytes); everything the Go code
obtains from hashing, protobuf decoding, key decoding and signature verification is a field of `World`
(a parameter). The driver instantiates `World` with tables computed by the real primitives on the
concrete payload; the theorems quantify over every `World` that satisfies the symbolic laws of
`Spec.lean` (collision-free hash, decode∘encode = id, sign/verify law). Space ids are real strings
(`List Char`), so the first-dot split is modelled as coded.
Core Lean only (linked into `modeld`).
-/
import AnySyncModel.Generated.SpaceConsts

namespace AnySync.Space
open AnySync.Generated.Space

abbrev Bytes := Nat
/-- a decoded Ed25519 public key -/
abbrev Key := Nat
abbrev Str := List Char

/-- `spacesyncproto.SpaceHeader` (fields the validator reads; `rest` = timestamp, seed, fileproto version) -/
structure Header where
  identity : Bytes
  replKey : Nat
  version : Nat
  aclPayload : Bytes
  settingPayload : Bytes
  spaceType : Str
  payload : Bytes
  rest : Nat
  deriving DecidableEq, Repr

/-- `aclrecordproto.AclRoot` (`rest` = read-key material, timestamp, one-to-one info, options) -/
structure AclRoot where
  identity : Bytes
  masterKey : Bytes
  identitySig : Bytes
  spaceId : Str
  rest : Nat
  deriving DecidableEq, Repr

/-- `treechangeproto.RootChange` (`rest` = change type, timestamp, seed, …) -/
structure RootChange where
  identity : Bytes
  spaceId : Str
  aclHeadId : Str
  rest : Nat
  deriving DecidableEq, Repr

/-- the primitives the validator calls -/
structure World where
  /-- `cidutil.NewCidFromBytes` (text form of the CID) -/
  hash : Bytes → Str
  /-- `RawSpaceHeader` / `RawRecord` / `RawTreeChange` `.UnmarshalVT`: (payload, signature) -/
  decRaw : Bytes → Option (Bytes × Bytes)
  decHeader : Bytes → Option Header
  decAclRoot : Bytes → Option AclRoot
  decRoot : Bytes → Option RootChange
  /-- `AclOneToOneInfo.UnmarshalVT` succeeds -/
  decO2O : Bytes → Bool
  /-- `crypto.UnmarshalEd25519PublicKeyProto` -/
  decKey : Bytes → Option Key
  /-- `PubKey.Raw()` -/
  rawKey : Key → Bytes
  /-- `PubKey.Verify(msg, sig)` -/
  verify : Key → Bytes → Bytes → Bool

inductive Err where
  | incorrectHeader      -- spacestorage.ErrIncorrectSpaceHeader
  | incorrectCid         -- objecttree.ErrIncorrectCid
  | malformed            -- protobuf / key unmarshal error
  | incorrectIdentity    -- ErrIncorrectIdentity
  | incorrectOneToOne    -- ErrIncorrectOneToOnePayload
  deriving DecidableEq, Repr

/-- `strings.Index(s, ".")` -/
def indexDot : Str → Option Nat
  | [] => none
  | x :: xs => if x = '.' then some 0 else (indexDot xs).map (· + 1)

/-- digit of `strconv.FormatUint(_, 36)`: `0-9a-z` -/
def digit36 (d : Nat) : Char :=
  if d < 10 then Char.ofNat ('0'.toNat + d) else Char.ofNat ('a'.toNat + (d - 10))

/-- digits of `n` in base 36, most significant first, prepended to `acc` (`fuel` ≥ number of digits) -/
def fmt36Aux : Nat → Nat → Str → Str
  | 0, _, acc => acc
  | fuel + 1, n, acc =>
    if n < 36 then digit36 n :: acc else fmt36Aux fuel (n / 36) (digit36 (n % 36) :: acc)

/-- `strconv.FormatUint(n, 36)` -/
def fmt36 (n : Nat) : Str := fmt36Aux (n + 1) n []

/-- `IsOneToOneType` -/
def isOneToOneType (t : Str) : Bool :=
  t = spaceTypeOneToOne.toList || t = spaceTypeOneToOneAny.toList

def liftOpt {α : Type} (o : Option α) (e : Err) : Except Err α :=
  match o with
  | some a => .ok a
  | none => .error e

/-- `RawSpaceHeaderWithId` -/
structure HeaderWithId where
  id : Str
  raw : Bytes
  deriving DecidableEq, Repr

/-- `ValidateSpaceHeader(rawHeaderWithId, identity, aclPayload, settingsPayload)`;
`none` arguments are Go `nil`s. Returns `needCheckSpaceId`. -/
def validateHeader (W : World) (h : Option HeaderWithId) (identity : Option Key)
    (aclPayload settingsPayload : Option Bytes) : Except Err Bool := do
  let h ← liftOpt h .incorrectHeader
  let sepIdx ← liftOpt (indexDot h.id) .incorrectHeader
  if W.hash h.raw ≠ h.id.take sepIdx then throw .incorrectCid
  let (headerBytes, signature) ← liftOpt (W.decRaw h.raw) .malformed
  let header ← liftOpt (W.decHeader headerBytes) .malformed
  let payloadIdentity ← liftOpt (W.decKey header.identity) .malformed
  if !W.verify payloadIdentity headerBytes signature then throw .incorrectHeader
  if h.id.drop (sepIdx + 1) ≠ fmt36 header.replKey then throw .incorrectHeader
  let isV1 := header.version = headerVersion1
  if isV1 then
    match aclPayload with
    | some a => if a ≠ header.aclPayload then throw .incorrectHeader
    | none => pure ()
    match settingsPayload with
    | some s => if s ≠ header.settingPayload then throw .incorrectHeader
    | none => pure ()
  if isOneToOneType header.spaceType then
    if !W.decO2O header.payload then throw .incorrectOneToOne
  else
    match identity with
    | some k => if payloadIdentity ≠ k then throw .incorrectIdentity
    | none => pure ()
  return !isV1

/-- `RawRecordWithId` / `RawTreeChangeWithId` -/
structure WithId where
  id : Str
  payload : Bytes
  deriving DecidableEq, Repr

/-- `validateCreateSpaceAclPayload`: returns the space id named by the ACL root -/
def validateAcl (W : World) (a : WithId) : Except Err Str := do
  if W.hash a.payload ≠ a.id then throw .incorrectCid
  let (rootBytes, signature) ← liftOpt (W.decRaw a.payload) .malformed
  let root ← liftOpt (W.decAclRoot rootBytes) .malformed
  let payloadIdentity ← liftOpt (W.decKey root.identity) .malformed
  if !W.verify payloadIdentity rootBytes signature then throw .incorrectHeader
  let masterKey ← liftOpt (W.decKey root.masterKey) .malformed
  if !W.verify masterKey (W.rawKey payloadIdentity) root.identitySig then throw .incorrectHeader
  return root.spaceId

/-- `validateCreateSpaceSettingsPayload`: returns (aclHeadId, spaceId) -/
def validateSettings (W : World) (s : WithId) : Except Err (Str × Str) := do
  if W.hash s.payload ≠ s.id then throw .incorrectHeader
  let (rootBytes, signature) ← liftOpt (W.decRaw s.payload) .malformed
  let root ← liftOpt (W.decRoot rootBytes) .malformed
  let payloadIdentity ← liftOpt (W.decKey root.identity) .malformed
  if !W.verify payloadIdentity rootBytes signature then throw .incorrectHeader
  return (root.aclHeadId, root.spaceId)

/-- `spacestorage.SpaceStorageCreatePayload`. The two wrappers are always allocated on every path
that reaches the validator (create, push, pull); their byte slices may be nil (`aclNil`, `setNil`). -/
structure Payload where
  header : Option HeaderWithId
  acl : WithId
  aclNil : Bool
  settings : WithId
  setNil : Bool
  deriving DecidableEq, Repr

/-- `ValidateSpaceStorageCreatePayload` -/
def validate (W : World) (p : Payload) : Except Err Unit := do
  let needCheckSpaceId ← validateHeader W p.header none
    (if p.aclNil then none else some p.acl.payload)
    (if p.setNil then none else some p.settings.payload)
  let aclSpaceId ← validateAcl W p.acl
  let (aclHeadId, settingsSpaceId) ← validateSettings W p.settings
  if needCheckSpaceId then
    let hid := match p.header with | some h => h.id | none => []
    if aclSpaceId ≠ hid ∨ aclSpaceId ≠ settingsSpaceId then throw .incorrectHeader
  if aclHeadId ≠ p.acl.id then throw .incorrectHeader
  return ()

/-! ## one-to-one derivation (symbolic): `GenerateSharedKey`, `makeOneToOneInfo` -/

/-- the Diffie–Hellman / key-derivation primitives (parameters; keys are symbols) -/
structure DH where
  /-- Ed25519 secret key ↦ public key -/
  pub : Nat → Nat
  /-- `curve25519.X25519(own secret, other's public)` (after the Ed25519→Curve25519 conversions) -/
  dh : Nat → Nat → Nat
  /-- HKDF-SHA256(shared secret, context = the two raw public keys in sorted order) → SLIP-21 node at the
  one-to-one path → Ed25519 seed: the SECRET joint key -/
  kdf : Nat → Nat → Nat → Nat

/-- `buildSortedContext` / the `sort.Slice` of `makeOneToOneInfo`: the two public keys in ascending order -/
def sortPair (x y : Nat) : Nat × Nat := if x ≤ y then (x, y) else (y, x)

/-- `crypto.GenerateSharedKey(aSk, bPk, path)` -/
def sharedKey (D : DH) (aSk bPk : Nat) : Nat :=
  D.kdf (D.dh aSk bPk) (sortPair (D.pub aSk) bPk).1 (sortPair (D.pub aSk) bPk).2

/-- everything `StoragePayloadForOneToOneSpaceWithType` feeds into header, ACL root and settings root:
the joint key (identity, master key, signer, replication key), the sorted writers, the header type.
No timestamp and no seed enter that constructor. -/
structure O2OCore where
  shared : Nat
  writers : Nat × Nat
  ty : Nat
  deriving DecidableEq, Repr

def oneToOneCore (D : DH) (aSk bPk ty : Nat) : O2OCore :=
  ⟨sharedKey D aSk bPk, sortPair (D.pub aSk) bPk, ty⟩

end AnySync.Space
