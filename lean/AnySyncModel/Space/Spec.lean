/-
Specification vocabulary for C13.

* `Laws W`: the symbolic-crypto assumptions about the primitives (`World`): the content hash is
  collision-free and its text has no dot. Explicit hypotheses of the theorems, never axioms.
* `Crypto W`: encoders / signing for the constructors, with the round-trip laws
  (`decode (encode x) = x`) and the signature law (`verify (pub sk) m s ↔ s = sign sk m`).
* `Accepted`: what `validate … = ok` means, part by part.
* the constructors (create / derive v0 / v1, one-to-one) as coded.
* `Term`: a free term algebra that satisfies every law (consistency witness).
-/
import AnySyncModel.Space.Model

namespace AnySync.Space
open AnySync.Generated.Space

variable {B C : Type} [DecidableEq B] [DecidableEq C]

/-- assumptions on the hash: collision-free; the CID text contains no dot (base32 alphabet) -/
structure Laws (W : World B C) : Prop where
  hash_inj : ∀ a b, W.hash a = W.hash b → a = b
  hash_nodot : ∀ a, W.ch '.' ∉ W.hash a

/-- the header part is accepted: id = CID(raw) "." base36(replication key), raw decodes to a header
signed by its own identity, a v1 header embeds exactly the supplied roots, a 1-1 header carries a
decodable 1-1 info. -/
def HeaderAccepted (W : World B C) (hd : HeaderWithId B C) (aclP setP : Option B)
    (hb sg : B) (header : Header B) (k : Key) : Prop :=
  hd.id = W.hash hd.raw ++ W.ch '.' :: (fmt36 header.replKey).map W.ch ∧
  W.decRaw hd.raw = some (hb, sg) ∧ W.decHeader hb = some header ∧
  W.decKey header.identity = some k ∧ W.verify k hb sg = true ∧
  (header.version = headerVersion1 →
    checkEmbedded header.aclPayload aclP = true ∧ checkEmbedded header.settingPayload setP = true) ∧
  (isOneToOneType header.spaceType = true → W.decO2O header.payload = true)

/-- the ACL root part is accepted -/
def AclAccepted (W : World B C) (a : WithId B C) (rb sg : B) (root : AclRoot B C) (k mk : Key) : Prop :=
  a.id = W.hash a.payload ∧ W.decRaw a.payload = some (rb, sg) ∧ W.decAclRoot rb = some root ∧
  W.decKey root.identity = some k ∧ W.verify k rb sg = true ∧
  W.decKey root.masterKey = some mk ∧ W.verify mk (W.rawKey k) root.identitySig = true

/-- the settings root part is accepted -/
def SettingsAccepted (W : World B C) (s : WithId B C) (rb sg : B) (root : RootChange B C) (k : Key) : Prop :=
  s.id = W.hash s.payload ∧ W.decRaw s.payload = some (rb, sg) ∧ W.decRoot rb = some root ∧
  W.decKey root.identity = some k ∧ W.verify k rb sg = true

/-- everything `ValidateSpaceStorageCreatePayload` establishes -/
def Accepted (W : World B C) (p : Payload B C) : Prop :=
  ∃ hd hb hsg header hk arb asg aroot ak amk srb ssg sroot sk,
    p.header = some hd ∧
    HeaderAccepted W hd (if p.aclNil then none else some p.acl.payload)
      (if p.setNil then none else some p.settings.payload) hb hsg header hk ∧
    AclAccepted W p.acl arb asg aroot ak amk ∧
    SettingsAccepted W p.settings srb ssg sroot sk ∧
    (header.version ≠ headerVersion1 → aroot.spaceId = hd.id ∧ sroot.spaceId = hd.id) ∧
    sroot.aclHeadId = p.acl.id

/-- Boolean views of the verdict (for evaluated examples) -/
def accepts (W : World B C) (p : Payload B C) : Bool :=
  match validate W p with
  | .ok _ => true
  | .error _ => false

def rejectsWith (W : World B C) (p : Payload B C) (e : Err) : Bool :=
  match validate W p with
  | .ok _ => false
  | .error e' => e' = e

/-! ## constructors -/

/-- encoders and signing (what `MarshalVT`, `Marshall` and `Sign` produce), with their laws -/
structure Crypto (W : World B C) where
  encRaw : B → B → B
  encHeader : Header B → B
  encAclRoot : AclRoot B C → B
  encRoot : RootChange B C → B
  encKey : Key → B
  /-- encoding of `AclOneToOneInfo{Owner, Writers}` -/
  encO2O : Key → Key × Key → B
  /-- the nil / empty byte string -/
  nil : B
  /-- secret key ↦ public key -/
  pub : Nat → Key
  sign : Nat → B → B
  /-- `fnv64(raw public key)`, the replication key of derived and one-to-one spaces -/
  fnv : Key → Nat
  dec_encRaw : ∀ p s, W.decRaw (encRaw p s) = some (p, s)
  dec_encHeader : ∀ h, W.decHeader (encHeader h) = some h
  dec_encAclRoot : ∀ r, W.decAclRoot (encAclRoot r) = some r
  dec_encRoot : ∀ r, W.decRoot (encRoot r) = some r
  dec_encKey : ∀ k, W.decKey (encKey k) = some k
  dec_encO2O : ∀ o w, W.decO2O (encO2O o w) = true
  verify_iff : ∀ sk m s, W.verify (pub sk) m s = true ↔ s = sign sk m

/-- `NewSpaceId(cid, replicationKey)` -/
def mkId (W : World B C) (raw : B) (rk : Nat) : List C :=
  W.hash raw ++ W.ch '.' :: (fmt36 rk).map W.ch

/-- inputs of the create / derive constructors (`hrest`, `aclRest`, `setRest` stand for timestamps,
seeds, read-key material, options, file-protocol version: random or caller-chosen, never checked) -/
structure CreateIn (B : Type) where
  sk : Nat
  master : Nat
  ty : List Char
  rk : Nat
  hpayload : B
  hrest : Nat
  aclRest : Nat
  setRest : Nat

/-- `StoragePayloadForSpaceCreate` / `…Derive` (v0): header first, both roots embed the space id -/
def buildV0 {W : World B C} (K : Crypto W) (i : CreateIn B) : Payload B C :=
  let identity := K.encKey (K.pub i.sk)
  let hb := K.encHeader ⟨identity, i.rk, 0, K.nil, K.nil, i.ty, i.hpayload, i.hrest⟩
  let raw := K.encRaw hb (K.sign i.sk hb)
  let id := mkId W raw i.rk
  let ab := K.encAclRoot ⟨identity, K.encKey (K.pub i.master), K.sign i.master (W.rawKey (K.pub i.sk)), id, i.aclRest⟩
  let acl := K.encRaw ab (K.sign i.sk ab)
  let sb := K.encRoot ⟨identity, id, W.hash acl, i.setRest⟩
  let set := K.encRaw sb (K.sign i.sk sb)
  ⟨some ⟨id, raw⟩, ⟨W.hash acl, acl⟩, false, ⟨W.hash set, set⟩, false⟩

/-- `StoragePayloadForSpaceCreateV1` / `…DeriveV1` / the one-to-one constructor (v1): roots first
(without a space id), then a header that embeds both -/
def buildV1 {W : World B C} (K : Crypto W) (i : CreateIn B) : Payload B C :=
  let identity := K.encKey (K.pub i.sk)
  let ab := K.encAclRoot ⟨identity, K.encKey (K.pub i.master), K.sign i.master (W.rawKey (K.pub i.sk)), [], i.aclRest⟩
  let acl := K.encRaw ab (K.sign i.sk ab)
  let sb := K.encRoot ⟨identity, [], W.hash acl, i.setRest⟩
  let set := K.encRaw sb (K.sign i.sk sb)
  let hb := K.encHeader ⟨identity, i.rk, headerVersion1, acl, set, i.ty, i.hpayload, i.hrest⟩
  let raw := K.encRaw hb (K.sign i.sk hb)
  ⟨some ⟨mkId W raw i.rk, raw⟩, ⟨W.hash acl, acl⟩, false, ⟨W.hash set, set⟩, false⟩

/-- the v0 limitation made concrete: the header of `buildV0 K i` together with an ACL root and a settings
root issued by unrelated keys `sk'`, `master'` that simply NAME the space id -/
def forgeRootsV0 {W : World B C} (K : Crypto W) (i : CreateIn B) (sk' master' : Nat) : Payload B C :=
  let hb := K.encHeader ⟨K.encKey (K.pub i.sk), i.rk, 0, K.nil, K.nil, i.ty, i.hpayload, i.hrest⟩
  let raw := K.encRaw hb (K.sign i.sk hb)
  let id := mkId W raw i.rk
  let identity' := K.encKey (K.pub sk')
  let ab := K.encAclRoot ⟨identity', K.encKey (K.pub master'), K.sign master' (W.rawKey (K.pub sk')), id, i.aclRest⟩
  let acl := K.encRaw ab (K.sign sk' ab)
  let sb := K.encRoot ⟨identity', id, W.hash acl, i.setRest⟩
  let set := K.encRaw sb (K.sign sk' sb)
  ⟨some ⟨id, raw⟩, ⟨W.hash acl, acl⟩, false, ⟨W.hash set, set⟩, false⟩

/-- derive: the replication key is `fnv64` of the signer's raw public key; no seed, no timestamp -/
def deriveIn {W : World B C} (K : Crypto W) (sk master : Nat) (ty : List Char) (hpayload : B) (fileproto : Nat) : CreateIn B :=
  ⟨sk, master, ty, K.fnv (K.pub sk), hpayload, fileproto, 0, 0⟩

/-- `StoragePayloadForOneToOneSpaceWithType`, given the joint secret key and the sorted writers
(`oneToOneCore`): identity = master key = signer = joint key, header payload = the 1-1 info -/
def oneToOneIn {W : World B C} (K : Crypto W) (c : O2OCore) : CreateIn B :=
  let ty := if c.ty = 0 then spaceTypeOneToOne.toList else spaceTypeOneToOneAny.toList
  ⟨c.shared, c.shared, ty, K.fnv (K.pub c.shared),
   K.encO2O (K.pub c.shared) c.writers, c.ty, 0, 0⟩

def oneToOne {W : World B C} (K : Crypto W) (D : DH) (aSk bPk ty : Nat) : Payload B C :=
  buildV1 K (oneToOneIn K (oneToOneCore D aSk bPk ty))

end AnySync.Space
