/-
Line-protocol helpers shared by all drivers (core Lean only, no Mathlib: the driver is linked
into the native executable `modeld`).
-/
namespace AnySync.Wire

/-- split on single spaces, dropping empty tokens -/
def tokens (line : String) : List String :=
  (line.trimAscii.toString.splitOn " ").filter (· ≠ "")

def nat? (s : String) : Option Nat := s.toNat?

def nats? : List String → Option (List Nat)
  | [] => some []
  | s :: rest => do
    let n ← s.toNat?
    let ns ← nats? rest
    pure (n :: ns)

/-- `a,b,c` → `[a,b,c]`; `-` or empty → `[]` -/
def natList? (s : String) : Option (List Nat) :=
  if s = "-" ∨ s = "" then some [] else nats? (s.splitOn ",")

def showNats (l : List Nat) : String :=
  if l.isEmpty then "-" else ",".intercalate (l.map toString)

def bool? (s : String) : Option Bool :=
  if s = "1" then some true else if s = "0" then some false else none

def showBool (b : Bool) : String := if b then "1" else "0"

end AnySync.Wire
