/-
`#audit_module M`: prints, for every theorem declared in module `M`, one line
`AUDIT <name> : <axioms>`; used by `/verif/check` to verify that every property theorem exists and
depends only on the allowed axioms. (Lean meta code; not part of any model or driver.)
-/
import Lean
open Lean Elab Command

elab "#audit_module " id:ident : command => do
  let env ← getEnv
  let modName := id.getId
  let some idx := env.getModuleIdx? modName
    | throwError "audit: module {modName} not imported"
  let mut lines : Array String := #[]
  for (name, ci) in env.constants.map₁.toList do
    if env.getModuleIdxFor? name == some idx then
      if name.isInternal then continue
      if let .thmInfo _ := ci then
        let axs ← liftCoreM (Lean.collectAxioms name)
        let axs := axs.qsort (fun a b => a.toString < b.toString)
        lines := lines.push s!"AUDIT {name} : {" ".intercalate (axs.toList.map toString)}"
  for l in lines.qsort (· < ·) do
    IO.println l
