import AnySyncModel.Generated.DeletionShape
/-!
# Deletion (C15): executable model

Mirrors, step by step and check by check, the Go code that decides whether a deleted object can come
back:

* `headstorage.UpdateEntry` (upsert of one heads entry; the `DeletedStatus` key is only written when the
  update carries it) followed by the head-storage observer `DiffManager.UpdateHeads`;
* `deletionstate.Add / Delete / Run` (in-memory mirror `queued` / `deleted`, orphan scan on start);
* `synctree.PutSyncTree`, `BuildSyncTreeOrGetRemote` / `treeRemoteGetter.getTree` (tombstone check, remote
  fetch as two steps `fstart` / `ffin`), `objecttree.CreateStorageTx` (tombstone re-check inside the write
  transaction, parent check, late child of a tombstoned parent is queued);
* `deleter.Delete` with `tryMarkDeleted`, `DeleteTree`, `deleteBoundChildren`;
* `settingsstate.stateBuilder.Build / processChange`, `changeFactory.makeSnapshot`,
  `settingsObject.DeleteObject`, `DeletionManager.UpdateState`;
* restart: everything in memory is rebuilt from the heads table (`FillDiff`, `deletionstate.Run`,
  `settingsObject.Init`).

Object ids are small naturals (the harness interns the real CIDs); settings records are numbered by
the harness in creation order, record `0` is the settings root.
-/
namespace AnySync.Deletion

/-- outcome of a step as the harness canonicalises the Go error -/
inductive Res where
  | ok | deleted | exists_ | noparent | unknown | already | derived | notfound | parked | nofetch
  | badstart | panic
  deriving DecidableEq, Repr, Inhabited

/-- one settings-log record: the ids it deletes and, for a snapshot, the full set it carries -/
structure Rec where
  ids : List Nat
  snap : Option (List Nat)
  deriving Repr, Inhabited, DecidableEq

/-- `settingsstate.State` -/
structure SState where
  deleted : List Nat
  last : Nat
  deriving Repr, Inhabited, DecidableEq

/-- one run of the state builder as observed on the real tree: was the old state dropped
(`Rebuild`) or kept (`Update`), the change the iteration started from, the tree root, and the
changes iterated in order -/
structure View where
  rebuild : Bool
  start : Nat
  root : Nat
  seq : List Nat
  deriving Repr, Inhabited, DecidableEq

structure St where
  n : Nat
  /-- static catalogue: the parent an object's root is bound to -/
  parent : Nat → Option Nat
  -- the heads table (durable)
  entry : Nat → Bool
  status : Nat → Nat
  bound : Nat → Bool
  edited : Nat → Bool
  /-- a heads entry written by an old version: non-derived, heads = [id], NO common snapshot. `FillDiff`
  keeps such entries in the advertised index although live updates never add root-only heads -/
  legacy : Nat → Bool
  /-- the tree's changes are stored (durable) -/
  stored : Nat → Bool
  -- in memory
  adv : Nat → Bool
  mirror : Nat → Nat
  live : Nat → Bool
  fetching : Option Nat
  /-- settings log records by number (data from the harness or produced by `del`) -/
  recs : List Rec
  ss : Option SState

def St.init (n : Nat) (parent : Nat → Option Nat) : St :=
  { n := n, parent := parent, entry := fun _ => false, status := fun _ => 0, bound := fun _ => false,
    edited := fun _ => false, legacy := fun _ => false, stored := fun _ => false, adv := fun _ => false, mirror := fun _ => 0,
    live := fun _ => false, fetching := none, recs := [⟨[], none⟩], ss := some ⟨[], 0⟩ }

/-- status as the code reads it: a missing entry reads as NotDeleted (`checkTreeDeleted`) -/
def St.tomb (s : St) (k : Nat) : Bool := s.entry k && decide (1 ≤ s.status k)

def upd {α} (f : Nat → α) (k : Nat) (v : α) : Nat → α := fun j => if j = k then v else f j

/-- `UpdateEntry{Id, DeletedStatus:&v}` + observer (`UpdateHeads` with a non-zero status removes the id) -/
def setStatus (s : St) (k v : Nat) : St :=
  { s with entry := upd s.entry k true, status := upd s.status k v,
           adv := fun j => if j = k ∧ v ≠ 0 then false else s.adv j }

/-- `UpdateEntry{Id, Heads}` with non-root heads + observer -/
def headsUpdate (s : St) (k : Nat) : St :=
  { s with edited := upd s.edited k true,
           adv := fun j => if j = k then
                    (if s.status k ≠ 0 then false else if s.mirror k ≠ 0 then s.adv k else true)
                  else s.adv j }

/-- `CreateStorageTx` after its checks passed: root inserted, entry upserted with heads = [root] … -/
def createBase (s : St) (k : Nat) : St :=
  let st0 := if s.entry k then s.status k else 0
  { s with entry := upd s.entry k true, status := upd s.status k st0,
           bound := upd s.bound k (s.parent k).isSome, edited := upd s.edited k false,
           legacy := upd s.legacy k false,        -- CreateStorageTx writes CommonSnapshot = root
           stored := upd s.stored k true,
           adv := fun j => if j = k ∧ st0 ≠ 0 then false else s.adv j }

/-- … and the late child of a tombstoned parent queued -/
def createTx (s : St) (k : Nat) : St :=
  match s.parent k with
  | some p => if (createBase s k).tomb p then setStatus (createBase s k) k 1 else createBase s k
  | none => createBase s k

/-- regenerated from the source on every run: the tombstone re-check sits inside `CreateStorageTx` and the
callers open the write transaction before calling it. When the extractor does not find that shape the model
has no re-check (and `recheck_on`, hence every invariant proof, breaks). -/
def recheck : Bool :=
  Generated.DeletionShape.recheckInsideCreateStorageTx && Generated.DeletionShape.callersOpenTxFirst

/-- the checks of `CreateStorageTx` in their order: tombstone re-check inside the transaction, parent
entry present -/
def createCheck (s : St) (k : Nat) : Res :=
  if recheck && s.tomb k then .deleted
  else match s.parent k with
    | some p => if s.entry p then .ok else .noparent
    | none => .ok

/-- remote response applied: storage created in one transaction together with the fetched changes -/
def createFetched (s : St) (k : Nat) : St × Res :=
  if s.stored k then (s, .exists_)
  else match createCheck s k with
    | .ok => let s1 := headsUpdate (createTx s k) k
             ({ s1 with live := upd s1.live k true }, .ok)
    | r => (s, r)

def stepPut (s : St) (k : Nat) : St × Res :=
  if s.tomb k then (s, .deleted)               -- checkTreeDeleted
  else if s.stored k then (s, .exists_)
  else match createCheck s k with
    | .ok => let s1 := createTx s k
             ({ s1 with live := upd s1.live k true }, .ok)
    | r => (s, r)

/-- `getTree` up to the remote request: `none` = the request is sent -/
def getLocal (s : St) (k : Nat) : Option (St × Res) :=
  if s.stored k then some ({ s with live := upd s.live k true }, .ok)
  else if s.tomb k then some (s, .deleted)
  else none

def stepFetch (s : St) (k : Nat) : St × Res :=
  match getLocal s k with
  | some r => r
  | none => createFetched s k

def stepFStart (s : St) (k : Nat) : St × Res :=
  match getLocal s k with
  | some r => r
  | none => ({ s with fetching := some k }, .parked)

def stepFFin (s : St) : St × Res :=
  match s.fetching with
  | none => (s, .nofetch)
  | some k => createFetched { s with fetching := none } k

/-- the tree cache of the client: live object, else open / fetch -/
def getCached (s : St) (k : Nat) (remote : Bool) : St × Res :=
  if s.live k then (s, .ok)
  else match getLocal s k with
    | some r => r
    | none => if remote then createFetched s k else (s, .unknown)

def stepEdit (s : St) (k : Nat) : St × Res :=
  match getCached s k false with
  | (s1, .ok) => (headsUpdate s1 k, .ok)
  | r => r

def stepHead (s : St) (k : Nat) : St × Res :=
  if s.live k || s.stored k then
    match getCached s k true with
    | (s1, .ok) => (headsUpdate s1 k, .ok)
    | r => r
  else getCached s k true       -- a tree fetched just now already has the announced heads

/-- `deletionstate.Add` for one id -/
def addOne (s : St) (k : Nat) : St :=
  if s.mirror k ≠ 0 then s
  else let s1 := setStatus s k 1
       { s1 with mirror := upd s1.mirror k 1 }

def addAll (s : St) (ids : List Nat) : St := ids.foldl addOne s

/-- `tryMarkDeleted` + `DeleteTree` + `deletionstate.Delete` for one id -/
def deleteOne (s : St) (k : Nat) : St :=
  let s1 : St := { s with stored := upd s.stored k false, live := upd s.live k false }
  let s2 := setStatus s1 k 2
  { s2 with mirror := upd s2.mirror k 2 }

/-- `GetEntriesByParentId` -/
def childrenOf (s : St) (p : Nat) : List Nat :=
  (List.range s.n).filter fun c => s.entry c && s.bound c && s.parent c == some p

def deleteChildren (s : St) (p : Nat) : St :=
  (childrenOf s p).foldl (fun s c => if 2 ≤ s.status c then s else deleteOne s c) s

def queuedList (s : St) : List Nat := (List.range s.n).filter fun k => s.mirror k == 1

/-- `deleter.Delete`: every queued id, then its bound children -/
def stepRun (s : St) : St :=
  (queuedList s).foldl (fun s k => deleteChildren (deleteOne s k) k) s

def insertSorted (a : Nat) : List Nat → List Nat
  | [] => [a]
  | b :: l => if a < b then a :: b :: l else if a = b then b :: l else b :: insertSorted a l

/-- set union kept sorted and duplicate-free (the canonical form of a Go `map[string]struct{}`) -/
def unionIds (l : List Nat) (acc : List Nat) : List Nat := l.foldl (fun acc a => insertSorted a acc) acc

def recOf (s : St) (rid : Nat) : Rec := s.recs.getD rid ⟨[], none⟩

/-- `processChange` + `LastIteratedId` bookkeeping; `none` = nil-snapshot dereference (panic) -/
def processChange (recs : List Rec) (root : Nat) (st : SState) (c : Nat) : Option SState :=
  if c = 0 ∨ st.last = c then some { st with last := c }
  else if c = root then
    match (recs.getD c ⟨[], none⟩).snap with
    | some sn => some ⟨unionIds sn [], c⟩
    | none => none
  else some ⟨unionIds (recs.getD c ⟨[], none⟩).ids st.deleted, c⟩

def processAll (recs : List Rec) (root : Nat) : Option SState → List Nat → Option SState
  | st, [] => st
  | none, _ => none
  | some st, c :: l => processAll recs root (processChange recs root st c) l

/-- `stateBuilder.Build` on an observed view -/
def build (recs : List Rec) (old : Option SState) (v : View) : Option SState × Res :=
  let old := if v.rebuild then none else old
  let startId := match old with
    | some st => st.last        -- record 0 is never "" in Go; `last` is always set after the first build
    | none => v.root
  if startId ≠ v.start then (old, .badstart)
  else match processAll recs v.root (some (old.getD ⟨[], 0⟩)) v.seq with
    | some st => (some st, .ok)
    | none => (old, .panic)

/-- `settingsObject.updateIds`: build, then `DeletionManager.UpdateState` = `deletionstate.Add` -/
def applyView (s : St) (v : Option View) : St × Res :=
  match v with
  | none => (s, .ok)
  | some v =>
    match build s.recs s.ss v with
    | (some st, .ok) => (addAll { s with ss := some st } st.deleted, .ok)
    | (_, r) => (s, r)

def stepDeliver (s : St) (v : Option View) : St × Res := applyView s v

def parentDeleted (s : St) (c : Nat) : Bool :=
  match s.parent c with | some p => s.mirror p == 2 | none => false

/-- orphan scan of `deletionstate.Run`: a bound child of a Deleted parent that is still NotDeleted -/
def orphanCond (s : St) (c : Nat) : Bool :=
  s.status c == 0 && s.entry c && s.bound c && parentDeleted s c

def orphanOne (s : St) (c : Nat) : St :=
  if orphanCond s c then
    let s' := setStatus s c 1
    { s' with mirror := upd s'.mirror c 1 }
  else s

/-- restart, part 1: everything in memory is dropped; `deletionstate.Run` reloads the mirror from the
heads table -/
def restartMem (s : St) : St :=
  { s with live := fun _ => false, fetching := none, ss := none, adv := fun _ => false,
           mirror := fun k => if s.entry k then (if s.status k = 1 then 1 else if 2 ≤ s.status k then 2 else 0) else 0 }

/-- `DiffManager.FillDiff`: entries without a tombstone key, empty roots skipped -/
def fillDiff (s : St) : St :=
  { s with adv := fun k => s.entry k && s.status k == 0 && (s.edited k || s.legacy k) }

/-- restart: memory rebuilt from the heads table in the order the space app runs its components
(deletionstate with its orphan scan, settings object, head sync) -/
def stepRestart (s : St) (v : Option View) : St × Res :=
  let r := applyView ((List.range s.n).foldl orphanOne (restartMem s)) v
  (fillDiff r.1, r.2)

/-- crash inside a deletion-worker pass: the first id `k` was marked Deleted (tree deleted), its bound
children were not handled yet; then the peer restarts. (`Op.crash`) -/
def stepCrash (s : St) (k : Nat) (v : Option View) : St × Res :=
  if s.mirror k = 1 then stepRestart (deleteOne s k) v else (s, .nofetch)

/-- `settingsObject.DeleteObject` -/
def stepDel (s : St) (k : Nat) (snap : Bool) (v : Option View) : St × Res × Rec :=
  let none_ : Rec := ⟨[], none⟩
  match s.ss with
  | none => (s, .panic, none_)
  | some st =>
    if st.deleted.contains k then (s, .already, none_)
    else if !s.entry k then (s, .notfound, none_)
    else if s.bound k then (s, .derived, none_)
    else
      let kids := (childrenOf s k).filter fun c => s.status c < 1
      let ids := unionIds (k :: kids) []
      let r : Rec := ⟨ids, if snap then some (unionIds ids st.deleted) else none⟩
      let s1 := { s with recs := s.recs ++ [r] }
      let (s2, res) := applyView s1 v
      (s2, res, r)

/-- a legacy heads entry appears in the stored table (written by an old version / restored from an old
backup): `UpdateEntry{Id, Heads:[id]}` on an id without entry. The observer ignores root-only heads, so the
advertised index changes only at the next restart (`FillDiff`). -/
def stepLegacy (s : St) (k : Nat) : St × Res :=
  if s.entry k then (s, .exists_)
  else ({ s with entry := upd s.entry k true, status := upd s.status k 0, bound := upd s.bound k false,
                 edited := upd s.edited k false, legacy := upd s.legacy k true }, .ok)

/-- one id of a deletion-worker pass during which every storage write transaction fails: a stored tree is
opened by the tree manager (and stays in its cache) but its data removal fails, so the worker `continue`s —
no status change, no children; an id without stored tree needs no write transaction and is marked Deleted -/
def faultOne (s : St) (k : Nat) : St :=
  if s.stored k then { s with live := upd s.live k true } else deleteOne s k

def faultChildren (s : St) (p : Nat) : St :=
  (childrenOf s p).foldl (fun s c => if 2 ≤ s.status c then s else faultOne s c) s

/-- `deleter.Delete` under a storage fault (all explicit write transactions of the pass fail) -/
def stepRunFault (s : St) : St :=
  (queuedList s).foldl (fun s k => if s.stored k then { s with live := upd s.live k true }
                                   else faultChildren (deleteOne s k) k) s

inductive Op where
  | put (k : Nat) | fetch (k : Nat) | fstart (k : Nat) | ffin | edit (k : Nat) | head (k : Nat)
  | run | runFault | legacy (k : Nat) | restart (v : Option View) | crash (k : Nat) (v : Option View) | deliver (v : Option View)
  | del (k : Nat) (snap : Bool) (v : Option View)
  | record (r : Rec)
  deriving Repr, Inhabited

def step (s : St) : Op → St × Res
  | .put k => stepPut s k
  | .fetch k => stepFetch s k
  | .fstart k => stepFStart s k
  | .ffin => stepFFin s
  | .edit k => stepEdit s k
  | .head k => stepHead s k
  | .run => (stepRun s, .ok)
  | .runFault => (stepRunFault s, .ok)
  | .legacy k => stepLegacy s k
  | .restart v => stepRestart s v
  | .crash k v => stepCrash s k v
  | .deliver v => stepDeliver s v
  | .del k snap v => let r := stepDel s k snap v; (r.1, r.2.1)
  | .record r => ({ s with recs := s.recs ++ [r] }, .ok)

def run (s : St) (ops : List Op) : St := ops.foldl (fun s op => (step s op).1) s

end AnySync.Deletion
