import AnySyncModel.Deletion.Model
/-!
# Deletion (C15): invariants of the model and their preservation by every step

`Inv`   – the state invariant (tombstoned ⇒ not advertised, Deleted ⇒ not stored / not live, the
          in-memory mirror agrees with the Deleted statuses);
`Mono`  – the step relation "statuses never decrease, entries never disappear".
Both are proved for each primitive of the model and lifted to `step` and to `run` (all step sequences).
-/
namespace AnySync.Deletion

structure Inv (s : St) : Prop where
  adv : ∀ k, s.entry k = true → 1 ≤ s.status k → s.adv k = false
  le2 : ∀ k, s.status k ≤ 2
  unstored : ∀ k, s.entry k = true → s.status k = 2 → s.stored k = false
  live : ∀ k, s.live k = true → s.stored k = true
  delMirror : ∀ k, s.entry k = true → s.status k = 2 → s.mirror k = 2
  mirror2 : ∀ k, s.mirror k = 2 → s.entry k = true ∧ s.status k = 2
  noEntry : ∀ k, s.entry k = false → s.status k = 0
  mirrorTomb : ∀ k, s.mirror k ≠ 0 → s.entry k = true ∧ 1 ≤ s.status k

def Mono (s s' : St) : Prop := ∀ k, s.status k ≤ s'.status k ∧ (s.entry k = true → s'.entry k = true)

theorem Mono.refl (s : St) : Mono s s := fun _ => ⟨Nat.le_refl _, id⟩
theorem Mono.trans {a b c : St} (h1 : Mono a b) (h2 : Mono b c) : Mono a c :=
  fun k => ⟨Nat.le_trans (h1 k).1 (h2 k).1, fun h => (h2 k).2 ((h1 k).2 h)⟩

/-- both facts about one transition -/
def Good (s s' : St) : Prop := Inv s' ∧ Mono s s'

theorem Good.refl {s : St} (h : Inv s) : Good s s := ⟨h, Mono.refl s⟩
theorem Good.trans {a b c : St} (h1 : Good a b) (h2 : Good b c) : Good a c := ⟨h2.1, h1.2.trans h2.2⟩

theorem inv_init (n : Nat) (p : Nat → Option Nat) : Inv (St.init n p) := by
  constructor <;> intro k <;> simp [St.init]

/-! ## primitives -/

theorem good_headsUpdate (s : St) (k : Nat) (h : Inv s) : Good s (headsUpdate s k) := by
  obtain ⟨h1, h2, h3, h4, h5, h6, h7, h8⟩ := h
  refine ⟨?_, ?_⟩
  · constructor <;> intro j <;> simp only [headsUpdate, upd] <;> grind
  · intro j; simp only [headsUpdate]; grind

theorem good_setStatus1 (s : St) (k : Nat) (h : Inv s) (hk : s.status k ≤ 1) (he : s.entry k = false → s.status k = 0) :
    Good s (setStatus s k 1) := by
  obtain ⟨h1, h2, h3, h4, h5, h6, h7, h8⟩ := h
  refine ⟨?_, ?_⟩
  · constructor <;> intro j <;> simp only [setStatus, upd] <;> grind
  · intro j; simp only [setStatus, upd]; grind

theorem good_addOne (s : St) (k : Nat) (h : Inv s) : Good s (addOne s k) := by
  obtain ⟨h1, h2, h3, h4, h5, h6, h7, h8⟩ := h
  unfold addOne
  split
  · exact Good.refl ⟨h1, h2, h3, h4, h5, h6, h7, h8⟩
  · refine ⟨?_, ?_⟩
    · constructor <;> intro j <;> simp only [setStatus, upd] <;> grind
    · intro j; simp only [setStatus, upd]; grind

theorem good_deleteOne (s : St) (k : Nat) (h : Inv s) : Good s (deleteOne s k) := by
  obtain ⟨h1, h2, h3, h4, h5, h6, h7, h8⟩ := h
  unfold deleteOne
  refine ⟨?_, ?_⟩
  · constructor <;> intro j <;> simp only [setStatus, upd] <;> grind
  · intro j; simp only [setStatus, upd]; grind

theorem good_orphanOne (s : St) (c : Nat) (h : Inv s) : Good s (orphanOne s c) := by
  obtain ⟨h1, h2, h3, h4, h5, h6, h7, h8⟩ := h
  unfold orphanOne
  by_cases hc : orphanCond s c = true
  · have hz : s.status c = 0 := by
      simp only [orphanCond, Bool.and_eq_true, beq_iff_eq] at hc
      exact hc.1.1.1
    simp only [hc, if_true]
    refine ⟨?_, ?_⟩
    · constructor <;> intro j <;> simp only [setStatus, upd] <;> grind
    · intro j; simp only [setStatus, upd]; grind
  · simp only [hc]
    exact Good.refl ⟨h1, h2, h3, h4, h5, h6, h7, h8⟩

theorem tomb_false_iff (s : St) (k : Nat) (h : Inv s) : s.tomb k = false ↔ s.status k = 0 := by
  have := h.noEntry k
  simp only [St.tomb]
  cases he : s.entry k <;> simp_all <;> omega

theorem good_createBase (s : St) (k : Nat) (h : Inv s) (hk : s.tomb k = false) : Good s (createBase s k) := by
  have hz := (tomb_false_iff s k h).1 hk
  obtain ⟨h1, h2, h3, h4, h5, h6, h7, h8⟩ := h
  unfold createBase
  refine ⟨?_, ?_⟩
  · constructor <;> intro j <;> simp only [upd] <;> grind
  · intro j; simp only [upd]; grind

theorem createBase_status (s : St) (k : Nat) (h : Inv s) (hk : s.tomb k = false) : (createBase s k).status k = 0 := by
  have hz := (tomb_false_iff s k h).1 hk
  simp [createBase, upd, hz]

theorem good_createTx (s : St) (k : Nat) (h : Inv s) (hk : s.tomb k = false) : Good s (createTx s k) := by
  have g := good_createBase s k h hk
  have hz := createBase_status s k h hk
  unfold createTx
  split
  · split
    · exact g.trans (good_setStatus1 _ k g.1 (by omega) (fun _ => hz))
    · exact g
  · exact g

theorem createTx_stored (s : St) (k : Nat) : (createTx s k).stored k = true := by
  unfold createTx
  split
  · split <;> simp [setStatus, createBase, upd]
  · simp [createBase, upd]

theorem good_setLive (s : St) (k : Nat) (h : Inv s) (hs : s.stored k = true) :
    Good s { s with live := upd s.live k true } := by
  obtain ⟨h1, h2, h3, h4, h5, h6, h7, h8⟩ := h
  refine ⟨?_, ?_⟩
  · constructor <;> intro j <;> simp only [upd] <;> grind
  · exact Mono.refl s

/-! ## folds -/

theorem good_foldl {α} (f : St → α → St) (hf : ∀ s a, Inv s → Good s (f s a)) :
    ∀ (l : List α) (s : St), Inv s → Good s (l.foldl f s)
  | [], _, h => Good.refl h
  | a :: l, s, h => (hf s a h).trans (good_foldl f hf l (f s a) (hf s a h).1)

theorem good_addAll (s : St) (ids : List Nat) (h : Inv s) : Good s (addAll s ids) :=
  good_foldl addOne good_addOne ids s h

theorem good_deleteChildren (s : St) (p : Nat) (h : Inv s) : Good s (deleteChildren s p) := by
  unfold deleteChildren
  refine good_foldl _ ?_ _ s h
  intro s c hs
  split
  · exact Good.refl hs
  · exact good_deleteOne s c hs

theorem good_stepRun (s : St) (h : Inv s) : Good s (stepRun s) := by
  unfold stepRun
  refine good_foldl _ ?_ _ s h
  intro s k hs
  exact (good_deleteOne s k hs).trans (good_deleteChildren _ k (good_deleteOne s k hs).1)

/-! ## steps -/

/-- the generated shape facts say the re-check is there (breaks when the extractor no longer finds the
tombstone re-check inside the storage-creating transaction) -/
theorem recheck_on : recheck = true := by decide

theorem createCheck_ok (s : St) (k : Nat) (h : createCheck s k = .ok) : s.tomb k = false := by
  unfold createCheck at h
  cases ht : s.tomb k
  · rfl
  · simp [ht, recheck_on] at h

theorem good_createFetched (s : St) (k : Nat) (h : Inv s) : Good s (createFetched s k).1 := by
  unfold createFetched
  split
  · exact Good.refl h
  · split
    · rename_i hc
      have ht := createCheck_ok s k hc
      have g1 := good_createTx s k h ht
      have g2 := good_headsUpdate _ k g1.1
      have hst : (headsUpdate (createTx s k) k).stored k = true := by
        simp only [headsUpdate]; exact createTx_stored s k
      exact g1.trans (g2.trans (good_setLive _ k g2.1 hst))
    · exact Good.refl h

theorem good_stepPut (s : St) (k : Nat) (h : Inv s) : Good s (stepPut s k).1 := by
  unfold stepPut
  split
  · exact Good.refl h
  · split
    · exact Good.refl h
    · split
      · rename_i hc
        have ht := createCheck_ok s k hc
        have g1 := good_createTx s k h ht
        have hst : (createTx s k).stored k = true := createTx_stored s k
        exact g1.trans (good_setLive _ k g1.1 hst)
      · exact Good.refl h

theorem good_getLocal (s : St) (k : Nat) (h : Inv s) (r : St × Res) (hr : getLocal s k = some r) : Good s r.1 := by
  unfold getLocal at hr
  split at hr
  · rename_i hs
    cases hr
    exact good_setLive s k h hs
  · split at hr
    · cases hr; exact Good.refl h
    · cases hr

theorem good_stepFetch (s : St) (k : Nat) (h : Inv s) : Good s (stepFetch s k).1 := by
  unfold stepFetch
  split
  · rename_i r hr; exact good_getLocal s k h r hr
  · exact good_createFetched s k h

theorem inv_fetching (s : St) (f : Option Nat) (h : Inv s) : Good s { s with fetching := f } :=
  ⟨⟨h.adv, h.le2, h.unstored, h.live, h.delMirror, h.mirror2, h.noEntry, h.mirrorTomb⟩, Mono.refl s⟩

theorem good_stepFStart (s : St) (k : Nat) (h : Inv s) : Good s (stepFStart s k).1 := by
  unfold stepFStart
  split
  · rename_i r hr; exact good_getLocal s k h r hr
  · exact inv_fetching s _ h

theorem good_stepFFin (s : St) (h : Inv s) : Good s (stepFFin s).1 := by
  unfold stepFFin
  split
  · exact Good.refl h
  · rename_i k _
    exact (inv_fetching s none h).trans (good_createFetched _ k (inv_fetching s none h).1)

theorem good_getCached (s : St) (k : Nat) (b : Bool) (h : Inv s) : Good s (getCached s k b).1 := by
  unfold getCached
  split
  · exact Good.refl h
  · split
    · rename_i r hr; exact good_getLocal s k h r hr
    · split
      · exact good_createFetched s k h
      · exact Good.refl h

theorem good_stepEdit (s : St) (k : Nat) (h : Inv s) : Good s (stepEdit s k).1 := by
  unfold stepEdit
  have g := good_getCached s k false h
  split
  · rename_i s1 heq
    rw [heq] at g
    exact g.trans (good_headsUpdate s1 k g.1)
  · exact g

theorem good_stepHead (s : St) (k : Nat) (h : Inv s) : Good s (stepHead s k).1 := by
  unfold stepHead
  have g := good_getCached s k true h
  split
  · split
    · rename_i s1 heq
      rw [heq] at g
      exact g.trans (good_headsUpdate s1 k g.1)
    · exact g
  · exact g

theorem good_ss (s : St) (x : Option SState) (h : Inv s) : Good s { s with ss := x } :=
  ⟨⟨h.adv, h.le2, h.unstored, h.live, h.delMirror, h.mirror2, h.noEntry, h.mirrorTomb⟩, Mono.refl s⟩

theorem good_recs (s : St) (x : List Rec) (h : Inv s) : Good s { s with recs := x } :=
  ⟨⟨h.adv, h.le2, h.unstored, h.live, h.delMirror, h.mirror2, h.noEntry, h.mirrorTomb⟩, Mono.refl s⟩

theorem good_applyView (s : St) (v : Option View) (h : Inv s) : Good s (applyView s v).1 := by
  unfold applyView
  split
  · exact Good.refl h
  · split
    · rename_i st _
      exact (good_ss s (some st) h).trans (good_addAll _ _ (good_ss s (some st) h).1)
    · exact Good.refl h

theorem good_restartMem (s : St) (h : Inv s) : Good s (restartMem s) := by
  obtain ⟨h1, h2, h3, h4, h5, h6, h7, h8⟩ := h
  refine ⟨?_, Mono.refl s⟩
  constructor <;> intro j <;> simp only [restartMem] <;> grind

theorem good_fillDiff (s : St) (h : Inv s) : Good s (fillDiff s) := by
  obtain ⟨h1, h2, h3, h4, h5, h6, h7, h8⟩ := h
  refine ⟨?_, Mono.refl s⟩
  constructor <;> intro j <;> simp only [fillDiff] <;> grind

theorem good_stepRestart (s : St) (v : Option View) (h : Inv s) : Good s (stepRestart s v).1 := by
  unfold stepRestart
  have g1 := good_restartMem s h
  have g2 := good_foldl orphanOne good_orphanOne (List.range s.n) _ g1.1
  have g3 := good_applyView _ v g2.1
  exact g1.trans (g2.trans (g3.trans (good_fillDiff _ g3.1)))

theorem good_stepDel (s : St) (k : Nat) (snap : Bool) (v : Option View) (h : Inv s) :
    Good s (stepDel s k snap v).1 := by
  unfold stepDel
  split
  · exact Good.refl h
  · split
    · exact Good.refl h
    · split
      · exact Good.refl h
      · split
        · exact Good.refl h
        · simp only
          exact (good_recs s _ h).trans (good_applyView _ v (good_recs s _ h).1)

theorem good_stepCrash (s : St) (k : Nat) (v : Option View) (h : Inv s) : Good s (stepCrash s k v).1 := by
  unfold stepCrash
  split
  · exact (good_deleteOne s k h).trans (good_stepRestart _ v (good_deleteOne s k h).1)
  · exact Good.refl h

theorem good_stepLegacy (s : St) (k : Nat) (h : Inv s) : Good s (stepLegacy s k).1 := by
  obtain ⟨h1, h2, h3, h4, h5, h6, h7, h8⟩ := h
  unfold stepLegacy
  split
  · exact Good.refl ⟨h1, h2, h3, h4, h5, h6, h7, h8⟩
  · refine ⟨?_, ?_⟩
    · constructor <;> intro j <;> simp only [upd] <;> grind
    · intro j; simp only [upd]; grind

theorem good_faultOne (s : St) (k : Nat) (h : Inv s) : Good s (faultOne s k) := by
  unfold faultOne
  split
  · rename_i hs; exact good_setLive s k h hs
  · exact good_deleteOne s k h

theorem good_faultChildren (s : St) (p : Nat) (h : Inv s) : Good s (faultChildren s p) := by
  unfold faultChildren
  refine good_foldl _ ?_ _ s h
  intro s c hs
  split
  · exact Good.refl hs
  · exact good_faultOne s c hs

theorem good_stepRunFault (s : St) (h : Inv s) : Good s (stepRunFault s) := by
  unfold stepRunFault
  refine good_foldl _ ?_ _ s h
  intro s k hs
  split
  · rename_i hst; exact good_setLive s k hs hst
  · exact (good_deleteOne s k hs).trans (good_faultChildren _ k (good_deleteOne s k hs).1)

theorem good_step (s : St) (op : Op) (h : Inv s) : Good s (step s op).1 := by
  cases op with
  | put k => exact good_stepPut s k h
  | fetch k => exact good_stepFetch s k h
  | fstart k => exact good_stepFStart s k h
  | ffin => exact good_stepFFin s h
  | edit k => exact good_stepEdit s k h
  | head k => exact good_stepHead s k h
  | run => exact good_stepRun s h
  | runFault => exact good_stepRunFault s h
  | legacy k => exact good_stepLegacy s k h
  | restart v => exact good_stepRestart s v h
  | crash k v => exact good_stepCrash s k v h
  | deliver v => exact good_applyView s v h
  | del k snap v => exact good_stepDel s k snap v h
  | record r => exact good_recs s _ h

theorem good_run (s : St) (ops : List Op) (h : Inv s) : Good s (run s ops) := by
  unfold run
  exact good_foldl (fun s op => (step s op).1) (fun s op hs => good_step s op hs) ops s h

theorem createFetched_tomb (s : St) (k : Nat) (h : s.tomb k = true) :
    (createFetched s k).2 ≠ .ok ∧ (createFetched s k).1 = s := by
  unfold createFetched
  split
  · simp
  · simp [createCheck, h, recheck_on]

theorem stepPut_ok (s : St) (k : Nat) (h : (stepPut s k).2 = .ok) :
    (stepPut s k).1 = { createTx s k with live := upd (createTx s k).live k true } := by
  unfold stepPut at h ⊢
  by_cases h1 : s.tomb k = true
  · simp [h1] at h
  · by_cases h2 : s.stored k = true
    · simp [h1, h2] at h
    · simp only [h1, h2] at h ⊢
      cases hc : createCheck s k <;> simp [hc] at h ⊢

/-! ## children: catalogue well-formedness, `J` (children of a Deleted parent are tombstoned), `K` -/

/-- catalogue well-formedness and the child / mirror invariants.
`J`: for a bound child `c` of `p`: (a) `p` Deleted ⇒ `c` tombstoned; (b) `c` still NotDeleted ⇒ the tree of `p`
is stored (so a worker pass whose storage writes fail never marks `p` Deleted behind `c`'s back).
`N`: an entry without stored tree is a tombstone or a legacy entry. `LR`: legacy entries have no bound
children (the generator's restriction, `LegacyOK`). -/
structure InvC (s : St) : Prop where
  wf : ∀ a b, s.parent a = some b → s.parent b = none
  J : ∀ c p, c < s.n → s.parent c = some p → s.entry c = true → s.bound c = true →
        (s.entry p = true → s.status p = 2 → 1 ≤ s.status c) ∧ (s.status c = 0 → s.stored p = true)
  K : ∀ p, s.parent p = none → s.entry p = true → 1 ≤ s.status p → s.mirror p ≠ 0
  mle : ∀ k, s.mirror k ≤ 2
  N : ∀ k, s.entry k = true → s.stored k = false → s.legacy k = false → 1 ≤ s.status k
  LR : ∀ k, s.legacy k = true → ∀ c, s.parent c ≠ some k

theorem invC_init (n : Nat) (p : Nat → Option Nat) (hw : ∀ a b, p a = some b → p b = none) : InvC (St.init n p) := by
  constructor
  · exact hw
  all_goals (intros; simp_all [St.init])

theorem invC_headsUpdate (s : St) (k : Nat) (h : InvC s) : InvC (headsUpdate s k) :=
  ⟨h.wf, h.J, h.K, h.mle, h.N, h.LR⟩

theorem invC_addOne (s : St) (k : Nat) (hi : Inv s) (h : InvC s) : InvC (addOne s k) := by
  obtain ⟨h1, h2, h3, h4, h5, h6, h7, h8⟩ := hi
  obtain ⟨c1, c2, c3, c4, c5, c6⟩ := h
  unfold addOne
  split
  · exact ⟨c1, c2, c3, c4, c5, c6⟩
  · constructor
    · exact c1
    · intro c p; have := c2 c p; simp only [setStatus, upd]; grind
    · intro p; simp only [setStatus, upd]; grind
    · intro j; simp only [setStatus, upd]; grind
    · intro j; have := c5 j; simp only [setStatus, upd]; grind
    · exact c6

theorem invC_orphanOne (s : St) (k : Nat) (hi : Inv s) (h : InvC s) : InvC (orphanOne s k) := by
  obtain ⟨h1, h2, h3, h4, h5, h6, h7, h8⟩ := hi
  obtain ⟨c1, c2, c3, c4, c5, c6⟩ := h
  unfold orphanOne
  by_cases hc : orphanCond s k = true
  · have hz : s.status k = 0 := by
      simp only [orphanCond, Bool.and_eq_true, beq_iff_eq] at hc
      exact hc.1.1.1
    simp only [hc, if_true]
    constructor
    · exact c1
    · intro c p; have := c2 c p; simp only [setStatus, upd]; grind
    · intro p; simp only [setStatus, upd]; grind
    · intro j; simp only [setStatus, upd]; grind
    · intro j; have := c5 j; simp only [setStatus, upd]; grind
    · exact c6
  · simp only [hc]; exact ⟨c1, c2, c3, c4, c5, c6⟩

theorem createCheck_parent (s : St) (k p : Nat) (h : createCheck s k = .ok) (hp : s.parent k = some p) :
    s.entry p = true := by
  unfold createCheck at h
  split at h
  · cases h
  · simp only [hp] at h
    by_cases he : s.entry p = true
    · exact he
    · simp [he] at h

theorem invC_createTx (s : St) (k : Nat) (hi : Inv s) (h : InvC s) (hk : s.tomb k = false)
    (hpe : ∀ p, s.parent k = some p → s.entry p = true) : InvC (createTx s k) := by
  have hz := (tomb_false_iff s k hi).1 hk
  obtain ⟨h1, h2, h3, h4, h5, h6, h7, h8⟩ := hi
  obtain ⟨c1, c2, c3, c4, c5, c6⟩ := h
  unfold createTx
  split
  · rename_i p hp
    have hpk : p ≠ k := by intro e; subst e; have := c1 _ _ hp; simp_all
    have hep := hpe p hp
    have hlp : s.legacy p = false := by
      cases hl : s.legacy p
      · rfl
      · exact absurd hp (c6 p hl k)
    have hnp := c5 p hep
    split
    · rename_i ht
      constructor
      · exact c1
      · intro c q; have := c2 c q; simp only [setStatus, createBase, upd]; grind
      · intro q; simp only [setStatus, createBase, upd]; grind
      · exact c4
      · intro j; have := c5 j; simp only [setStatus, createBase, upd]; grind
      · intro j; have := c6 j; simp only [setStatus, createBase, upd]; grind
    · rename_i ht
      simp only [St.tomb, createBase, upd, hpk, if_false, Bool.and_eq_true, decide_eq_true_eq] at ht
      constructor
      · exact c1
      · intro c q; have := c2 c q; simp only [createBase, upd]; grind
      · intro q; simp only [createBase, upd]; grind
      · exact c4
      · intro j; have := c5 j; simp only [createBase, upd]; grind
      · intro j; have := c6 j; simp only [createBase, upd]; grind
  · rename_i hp
    constructor
    · exact c1
    · intro c q; have := c2 c q; simp only [createBase, upd]; grind
    · intro q; simp only [createBase, upd]; grind
    · exact c4
    · intro j; have := c5 j; simp only [createBase, upd]; grind
    · intro j; have := c6 j; simp only [createBase, upd]; grind

theorem invC_restartMem (s : St) (hi : Inv s) (h : InvC s) : InvC (restartMem s) := by
  obtain ⟨h1, h2, h3, h4, h5, h6, h7, h8⟩ := hi
  obtain ⟨c1, c2, c3, c4, c5, c6⟩ := h
  constructor
  · exact c1
  · exact c2
  · intro p; simp only [restartMem]; grind
  · intro j; simp only [restartMem]; grind
  · exact c5
  · exact c6

/-- marking an id WITHOUT stored tree Deleted keeps the whole invariant: by `J`(b) none of its bound children
is still NotDeleted -/
theorem invC_deleteOne_unstored (s : St) (k : Nat) (h : InvC s) (hs : s.stored k = false) : InvC (deleteOne s k) := by
  obtain ⟨c1, c2, c3, c4, c5, c6⟩ := h
  constructor
  · exact c1
  · intro c p; have := c2 c p; simp only [deleteOne, setStatus, upd]; grind
  · intro p; simp only [deleteOne, setStatus, upd]; grind
  · intro j; simp only [deleteOne, setStatus, upd]; grind
  · intro j; have := c5 j; simp only [deleteOne, setStatus, upd]; grind
  · exact c6

/-- `J` for every parent except `k` -/
def Jex (s : St) (k : Nat) : Prop :=
  ∀ c p, p ≠ k → c < s.n → s.parent c = some p → s.entry c = true → s.bound c = true →
    (s.entry p = true → s.status p = 2 → 1 ≤ s.status c) ∧ (s.status c = 0 → s.stored p = true)

/-- the parts of the state the worker never touches -/
def SameCat (s s' : St) : Prop := s'.n = s.n ∧ s'.parent = s.parent ∧ s'.bound = s.bound

/-- one iteration of `deleteBoundChildren` -/
def childStep (s : St) (c : Nat) : St := if 2 ≤ s.status c then s else deleteOne s c

structure Mid (s : St) (k : Nat) : Prop where
  wf : ∀ a b, s.parent a = some b → s.parent b = none
  jex : Jex s k
  K : ∀ p, s.parent p = none → s.entry p = true → 1 ≤ s.status p → s.mirror p ≠ 0
  mle : ∀ j, s.mirror j ≤ 2
  N : ∀ k, s.entry k = true → s.stored k = false → s.legacy k = false → 1 ≤ s.status k
  LR : ∀ k, s.legacy k = true → ∀ c, s.parent c ≠ some k

theorem deleteOne_root (s : St) (k : Nat) (h : InvC s) : Mid (deleteOne s k) k := by
  obtain ⟨c1, c2, c3, c4, c5, c6⟩ := h
  refine ⟨c1, ?_, ?_, ?_, ?_, c6⟩
  · intro c p; have := c2 c p; simp only [deleteOne, setStatus, upd]; grind
  · intro p; simp only [deleteOne, setStatus, upd]; grind
  · intro j; simp only [deleteOne, setStatus, upd]; grind
  · intro j; have := c5 j; simp only [deleteOne, setStatus, upd]; grind

theorem mid_childStep (s : St) (k c : Nat) (hc : s.parent c = some k) (h : Mid s k) : Mid (childStep s c) k := by
  obtain ⟨c1, c2, c3, c4, c5, c6⟩ := h
  unfold childStep
  split
  · exact ⟨c1, c2, c3, c4, c5, c6⟩
  unfold Jex at c2
  · constructor
    · exact c1
    · intro a p; simp only [deleteOne, setStatus, upd]
      have := c1 _ _ hc
      have := c2 a p
      grind
    · intro p; simp only [deleteOne, setStatus, upd]; grind
    · intro j; simp only [deleteOne, setStatus, upd]; grind
    · intro j; have := c5 j; simp only [deleteOne, setStatus, upd]; grind
    · exact c6

theorem childStep_status (s : St) (c : Nat) : 2 ≤ (childStep s c).status c := by
  unfold childStep; split
  · assumption
  · simp [deleteOne, setStatus, upd]

theorem childStep_same (s : St) (c : Nat) : (childStep s c).n = s.n ∧ (childStep s c).parent = s.parent ∧ (childStep s c).bound = s.bound := by
  unfold childStep; split <;> simp [deleteOne, setStatus]

theorem childStep_entry (s : St) (c j : Nat) (h : (childStep s c).entry j = true) : s.entry j = true ∨ j = c := by
  unfold childStep at h; split at h
  · exact Or.inl h
  · simp only [deleteOne, setStatus, upd] at h; grind

theorem good_childStep (s : St) (c : Nat) (h : Inv s) : Good s (childStep s c) := by
  unfold childStep; split
  · exact Good.refl h
  · exact good_deleteOne s c h

theorem fold_children (k : Nat) : ∀ (l : List Nat) (s : St), Inv s → Mid s k → (∀ c ∈ l, s.parent c = some k) →
    let s' := l.foldl childStep s
    Mid s' k ∧ (∀ c ∈ l, 2 ≤ s'.status c) ∧ s'.n = s.n ∧ s'.parent = s.parent ∧ s'.bound = s.bound ∧
    (∀ j, s'.entry j = true → s.entry j = true ∨ j ∈ l)
  | [], s, _, hm, _ => ⟨hm, by simp, rfl, rfl, rfl, fun j h => Or.inl h⟩
  | c :: l, s, hi, hm, hl => by
    have g := good_childStep s c hi
    have sm := childStep_same s c
    have hm' := mid_childStep s k c (hl c (by simp)) hm
    have ih := fold_children k l (childStep s c) g.1 hm' (fun d hd => by rw [sm.2.1]; exact hl d (by simp [hd]))
    simp only [List.foldl] at ih ⊢
    obtain ⟨i1, i2, i3, i4, i5, i6⟩ := ih
    refine ⟨i1, ?_, by rw [i3, sm.1], by rw [i4, sm.2.1], by rw [i5, sm.2.2], ?_⟩
    · intro d hd
      rcases List.mem_cons.1 hd with e | hd'
      · subst e
        have m := (good_foldl childStep (fun s a h => good_childStep s a h) l _ g.1).2 d
        exact Nat.le_trans (childStep_status s d) m.1
      · exact i2 d hd'
    · intro j hj
      rcases i6 j hj with e | e
      · rcases childStep_entry s c j e with e' | e'
        · exact Or.inl e'
        · exact Or.inr (by simp [e'])
      · exact Or.inr (by simp [e])

/-- one iteration of the worker loop (`deleteOne k` then its bound children) re-establishes `InvC` -/
theorem invC_runUnit (s : St) (k : Nat) (hi : Inv s) (h : InvC s) : InvC (deleteChildren (deleteOne s k) k) := by
  have g := good_deleteOne s k hi
  have hm := deleteOne_root s k h
  have hl : ∀ c ∈ childrenOf (deleteOne s k) k, (deleteOne s k).parent c = some k := by
    intro c hc
    simp only [childrenOf, List.mem_filter, Bool.and_eq_true, beq_iff_eq] at hc
    exact hc.2.2
  have f := fold_children k (childrenOf (deleteOne s k) k) (deleteOne s k) g.1 hm hl
  simp only at f
  obtain ⟨f1, f2, f3, f4, f5, f6⟩ := f
  have hdef : deleteChildren (deleteOne s k) k = (childrenOf (deleteOne s k) k).foldl childStep (deleteOne s k) := rfl
  rw [hdef]
  refine ⟨f1.wf, ?_, f1.K, f1.mle, f1.N, f1.LR⟩
  intro c p hc hp he hb
  by_cases hpk : p = k
  · subst hpk
    have hin : c ∈ childrenOf (deleteOne s p) p := by
      simp only [childrenOf, List.mem_filter, List.mem_range, Bool.and_eq_true, beq_iff_eq]
      rw [f3] at hc; rw [f4] at hp; rw [f5] at hb
      refine ⟨hc, ⟨?_, hb⟩, hp⟩
      rcases f6 c he with e | e
      · exact e
      · simp only [childrenOf, List.mem_filter, Bool.and_eq_true] at e; exact e.2.1.1
    have h2 := f2 c hin
    exact ⟨fun _ _ => by omega, fun h0 => by omega⟩
  · exact f1.jex c p hpk hc hp he hb


/-! ## `InvC` through every step -/

def Both (s : St) : Prop := Inv s ∧ InvC s

theorem both_foldl {α} (f : St → α → St) (hf : ∀ s a, Both s → Both (f s a)) :
    ∀ (l : List α) (s : St), Both s → Both (l.foldl f s)
  | [], _, h => h
  | a :: l, s, h => both_foldl f hf l (f s a) (hf s a h)

theorem invC_same (s s' : St) (h : InvC s) (e1 : s'.n = s.n) (e2 : s'.parent = s.parent) (e3 : s'.entry = s.entry)
    (e4 : s'.status = s.status) (e5 : s'.bound = s.bound) (e6 : s'.mirror = s.mirror)
    (e7 : s'.stored = s.stored) (e8 : s'.legacy = s.legacy) : InvC s' := by
  obtain ⟨c1, c2, c3, c4, c5, c6⟩ := h
  constructor
  · rw [e2]; exact c1
  · rw [e1, e2, e3, e4, e5, e7]; exact c2
  · rw [e2, e3, e4, e6]; exact c3
  · rw [e6]; exact c4
  · rw [e3, e4, e7, e8]; exact c5
  · rw [e2, e8]; exact c6

theorem both_createFetched (s : St) (k : Nat) (h : Both s) : Both (createFetched s k).1 := by
  refine ⟨(good_createFetched s k h.1).1, ?_⟩
  unfold createFetched
  split
  · exact h.2
  · split
    · rename_i hc
      have ht := createCheck_ok s k hc
      have c := invC_createTx s k h.1 h.2 ht (fun p hp => createCheck_parent s k p hc hp)
      exact invC_same _ _ (invC_headsUpdate _ k c) rfl rfl rfl rfl rfl rfl rfl rfl
    · exact h.2

theorem both_stepPut (s : St) (k : Nat) (h : Both s) : Both (stepPut s k).1 := by
  refine ⟨(good_stepPut s k h.1).1, ?_⟩
  unfold stepPut
  split
  · exact h.2
  · split
    · exact h.2
    · split
      · rename_i hc
        have ht := createCheck_ok s k hc
        exact invC_same _ _ (invC_createTx s k h.1 h.2 ht (fun p hp => createCheck_parent s k p hc hp))
          rfl rfl rfl rfl rfl rfl rfl rfl
      · exact h.2

theorem both_getLocal (s : St) (k : Nat) (h : Both s) (r : St × Res) (hr : getLocal s k = some r) : Both r.1 := by
  refine ⟨(good_getLocal s k h.1 r hr).1, ?_⟩
  unfold getLocal at hr
  split at hr
  · cases hr; exact invC_same _ _ h.2 rfl rfl rfl rfl rfl rfl rfl rfl
  · split at hr
    · cases hr; exact h.2
    · cases hr

theorem both_getCached (s : St) (k : Nat) (b : Bool) (h : Both s) : Both (getCached s k b).1 := by
  unfold getCached
  split
  · exact h
  · split
    · rename_i r hr; exact both_getLocal s k h r hr
    · split
      · exact both_createFetched s k h
      · exact h

theorem both_headsUpdate (s : St) (k : Nat) (h : Both s) : Both (headsUpdate s k) :=
  ⟨(good_headsUpdate s k h.1).1, invC_headsUpdate s k h.2⟩

theorem both_addAll (s : St) (ids : List Nat) (h : Both s) : Both (addAll s ids) :=
  both_foldl addOne (fun s a hs => ⟨(good_addOne s a hs.1).1, invC_addOne s a hs.1 hs.2⟩) ids s h

theorem both_applyView (s : St) (v : Option View) (h : Both s) : Both (applyView s v).1 := by
  unfold applyView
  split
  · exact h
  · split
    · rename_i st _
      exact both_addAll _ _ ⟨(good_ss s (some st) h.1).1, invC_same _ _ h.2 rfl rfl rfl rfl rfl rfl rfl rfl⟩
    · exact h

theorem both_stepRun (s : St) (h : Both s) : Both (stepRun s) := by
  unfold stepRun
  refine both_foldl _ ?_ _ s h
  intro s k hs
  exact ⟨((good_deleteOne s k hs.1).trans (good_deleteChildren _ k (good_deleteOne s k hs.1).1)).1,
         invC_runUnit s k hs.1 hs.2⟩

/-! ### a worker pass whose storage writes fail keeps the child invariant -/

theorem both_setLive (s : St) (k : Nat) (h : Both s) (hs : s.stored k = true) :
    Both { s with live := upd s.live k true } :=
  ⟨(good_setLive s k h.1 hs).1, invC_same _ _ h.2 rfl rfl rfl rfl rfl rfl rfl rfl⟩

theorem both_faultOne (s : St) (k : Nat) (h : Both s) : Both (faultOne s k) := by
  unfold faultOne
  split
  · rename_i hs; exact both_setLive s k h hs
  · rename_i hs
    exact ⟨(good_deleteOne s k h.1).1, invC_deleteOne_unstored s k h.2 (by simpa using hs)⟩

theorem both_faultChildren (s : St) (p : Nat) (h : Both s) : Both (faultChildren s p) := by
  unfold faultChildren
  refine both_foldl _ ?_ _ s h
  intro s c hs
  split
  · exact hs
  · exact both_faultOne s c hs

theorem both_stepRunFault (s : St) (h : Both s) : Both (stepRunFault s) := by
  unfold stepRunFault
  refine both_foldl _ ?_ _ s h
  intro s k hs
  split
  · rename_i hst; exact both_setLive s k hs hst
  · rename_i hst
    exact both_faultChildren _ k
      ⟨(good_deleteOne s k hs.1).1, invC_deleteOne_unstored s k hs.2 (by simpa using hst)⟩

/-! ### restart re-establishes `J` by itself (orphan scan), whatever a crash left behind -/

/-- what `deletionstate.Run` guarantees of the reloaded mirror -/
def M2 (s : St) : Prop := ∀ p, s.entry p = true → s.status p = 2 → s.mirror p = 2

/-- `J`(a) for one child -/
def Jc (s : St) (c : Nat) : Prop :=
  ∀ p, s.parent c = some p → s.entry c = true → s.bound c = true → s.entry p = true → s.status p = 2 → 1 ≤ s.status c

/-- `J`(b) weakened by "… or the parent is Deleted" (what a crash right after the parent's deletion leaves) -/
def Ow (s : St) : Prop :=
  ∀ c p, c < s.n → s.parent c = some p → s.entry c = true → s.bound c = true → s.status c = 0 →
    s.stored p = true ∨ (s.entry p = true ∧ s.status p = 2)

/-- `InvC` with `J` weakened to `Ow` -/
structure InvK (s : St) : Prop where
  wf : ∀ a b, s.parent a = some b → s.parent b = none
  K : ∀ p, s.parent p = none → s.entry p = true → 1 ≤ s.status p → s.mirror p ≠ 0
  mle : ∀ k, s.mirror k ≤ 2
  N : ∀ k, s.entry k = true → s.stored k = false → s.legacy k = false → 1 ≤ s.status k
  LR : ∀ k, s.legacy k = true → ∀ c, s.parent c ≠ some k
  ow : Ow s

theorem InvC.toK {s : St} (h : InvC s) : InvK s :=
  ⟨h.wf, h.K, h.mle, h.N, h.LR, fun c p hc hp he hb h0 => Or.inl ((h.J c p hc hp he hb).2 h0)⟩

theorem invK_deleteOne (s : St) (k : Nat) (h : InvC s) : InvK (deleteOne s k) := by
  have m := deleteOne_root s k h
  refine ⟨m.wf, m.K, m.mle, m.N, m.LR, ?_⟩
  intro c p hc hp he hb h0
  by_cases hpk : p = k
  · subst hpk; right; simp [deleteOne, setStatus, upd]
  · exact Or.inl ((m.jex c p hpk hc hp he hb).2 h0)

theorem invK_restartMem (s : St) (h : InvK s) : InvK (restartMem s) ∧ M2 (restartMem s) := by
  obtain ⟨c1, c3, c4, c5, c6, c7⟩ := h
  refine ⟨⟨c1, ?_, ?_, c5, c6, c7⟩, ?_⟩
  · intro p; simp only [restartMem]; grind
  · intro j; simp only [restartMem]; grind
  · intro p; simp only [restartMem]; grind

theorem orphanCond_status (s : St) (c : Nat) (h : orphanCond s c = true) : s.status c = 0 := by
  simp only [orphanCond, Bool.and_eq_true, beq_iff_eq] at h
  exact h.1.1.1

theorem invK_orphanOne (s : St) (a : Nat) (h : InvK s) : InvK (orphanOne s a) := by
  obtain ⟨c1, c3, c4, c5, c6, c7⟩ := h
  unfold orphanOne
  by_cases hc : orphanCond s a = true
  · have hz := orphanCond_status s a hc
    have hea : s.entry a = true := by
      simp only [orphanCond, Bool.and_eq_true] at hc; exact hc.1.1.2
    simp only [hc, if_true]
    refine ⟨c1, ?_, ?_, ?_, c6, ?_⟩
    · intro p; simp only [setStatus, upd]; grind
    · intro j; simp only [setStatus, upd]; grind
    · intro j; have := c5 j; simp only [setStatus, upd]; grind
    · intro c p; have := c7 c p; simp only [setStatus, upd]; grind
  · simp only [hc]; exact ⟨c1, c3, c4, c5, c6, c7⟩

theorem orphanOne_M2 (s : St) (a : Nat) (h : M2 s) : M2 (orphanOne s a) := by
  unfold orphanOne
  by_cases hc : orphanCond s a = true
  · have hz := orphanCond_status s a hc
    simp only [hc, if_true]
    intro p; have := h p; simp only [setStatus, upd]; grind
  · simp only [hc]; exact h

theorem orphanOne_Jc_stable (s : St) (a c : Nat) (h : Jc s c) : Jc (orphanOne s a) c := by
  unfold orphanOne
  by_cases hc : orphanCond s a = true
  · have hz := orphanCond_status s a hc
    have hea : s.entry a = true := by
      simp only [orphanCond, Bool.and_eq_true] at hc; exact hc.1.1.2
    simp only [hc, if_true]
    intro p; have := h p; simp only [setStatus, upd]; grind
  · simp only [hc]; exact h

theorem orphanOne_Jc_self (s : St) (c : Nat) (h : M2 s) : Jc (orphanOne s c) c := by
  unfold orphanOne
  by_cases hc : orphanCond s c = true
  · simp only [hc, if_true]
    intro p _ _ _ _ _; simp [setStatus, upd]
  · simp only [hc]
    show Jc s c
    intro p hp he hb hep hsp
    have hm := h p hep hsp
    have : s.status c ≠ 0 := by
      intro hz
      apply hc
      simp [orphanCond, parentDeleted, hp, he, hb, hm, hz]
    omega

theorem orphanOne_cat (s : St) (a : Nat) : (orphanOne s a).n = s.n := by
  unfold orphanOne; split <;> rfl

theorem orphanFold : ∀ (l : List Nat) (s : St), M2 s → InvK s →
    let s' := l.foldl orphanOne s
    M2 s' ∧ InvK s' ∧ (∀ c, Jc s c → Jc s' c) ∧ (∀ c ∈ l, Jc s' c) ∧ s'.n = s.n
  | [], s, hm, hk => ⟨hm, hk, fun _ h => h, by simp, rfl⟩
  | a :: l, s, hm, hk => by
    have ih := orphanFold l (orphanOne s a) (orphanOne_M2 s a hm) (invK_orphanOne s a hk)
    simp only [List.foldl] at ih ⊢
    obtain ⟨i1, i2, i3, i4, i5⟩ := ih
    refine ⟨i1, i2, fun c h => i3 c (orphanOne_Jc_stable s a c h), ?_, by rw [i5, orphanOne_cat]⟩
    intro c hc
    rcases List.mem_cons.1 hc with e | e
    · subst e; exact i3 c (orphanOne_Jc_self s c hm)
    · exact i4 c e

/-- restart from ANY state with a sane bookkeeping (in particular the one a crash inside a worker pass
leaves) yields the full child invariant -/
theorem both_restart_of_invK (s : St) (v : Option View) (hi : Inv s) (hk : InvK s) : Both (stepRestart s v).1 := by
  unfold stepRestart
  have g1 := good_restartMem s hi
  obtain ⟨k1, m1⟩ := invK_restartMem s hk
  have g2 := good_foldl orphanOne good_orphanOne (List.range s.n) _ g1.1
  have f := orphanFold (List.range s.n) (restartMem s) m1 k1
  simp only at f
  obtain ⟨_, f2, _, f4, f5⟩ := f
  have c2 : InvC ((List.range s.n).foldl orphanOne (restartMem s)) := by
    refine ⟨f2.wf, ?_, f2.K, f2.mle, f2.N, f2.LR⟩
    intro c p hc hp he hb
    have hc' : c ∈ List.range s.n := by
      rw [f5] at hc; exact List.mem_range.2 hc
    have ja := f4 c hc' p hp he hb
    refine ⟨ja, fun h0 => ?_⟩
    rcases f2.ow c p hc hp he hb h0 with h | ⟨h1, h2⟩
    · exact h
    · have := ja h1 h2; omega
  have b3 := both_applyView _ v ⟨g2.1, c2⟩
  exact ⟨(good_fillDiff _ b3.1).1, invC_same _ _ b3.2 rfl rfl rfl rfl rfl rfl rfl rfl⟩

theorem both_stepRestart (s : St) (v : Option View) (h : Both s) : Both (stepRestart s v).1 :=
  both_restart_of_invK s v h.1 h.2.toK

theorem both_stepCrash (s : St) (k : Nat) (v : Option View) (h : Both s) : Both (stepCrash s k v).1 := by
  unfold stepCrash
  split
  · exact both_restart_of_invK _ v (good_deleteOne s k h.1).1 (invK_deleteOne s k h.2)
  · exact h

/-- the generator's restriction: a legacy entry is only ever written for an id that no bound child names as
its parent -/
def LegacyOK (s : St) : Op → Prop
  | .legacy k => ∀ c, s.parent c ≠ some k
  | _ => True

theorem invC_stepLegacy (s : St) (k : Nat) (hi : Inv s) (h : InvC s) (hl : ∀ c, s.parent c ≠ some k) :
    InvC (stepLegacy s k).1 := by
  obtain ⟨h1, h2, h3, h4, h5, h6, h7, h8⟩ := hi
  obtain ⟨c1, c2, c3, c4, c5, c6⟩ := h
  unfold stepLegacy
  split
  · exact ⟨c1, c2, c3, c4, c5, c6⟩
  · constructor
    · exact c1
    · intro c p; have := c2 c p; have := hl c; simp only [upd]; grind
    · intro p; simp only [upd]; grind
    · exact c4
    · intro j; have := c5 j; simp only [upd]; grind
    · intro j; have := c6 j; simp only [upd]; grind

/-- every step keeps the child invariant (storage-faulted worker passes and crashes included) -/
theorem both_step (s : St) (op : Op) (hop : LegacyOK s op) (h : Both s) : Both (step s op).1 := by
  cases op with
  | runFault => exact both_stepRunFault s h
  | legacy k => exact ⟨(good_stepLegacy s k h.1).1, invC_stepLegacy s k h.1 h.2 hop⟩
  | put k => exact both_stepPut s k h
  | fetch k =>
    simp only [step, stepFetch]
    split
    · rename_i r hr; exact both_getLocal s k h r hr
    · exact both_createFetched s k h
  | fstart k =>
    simp only [step, stepFStart]
    split
    · rename_i r hr; exact both_getLocal s k h r hr
    · exact ⟨(inv_fetching s _ h.1).1, invC_same _ _ h.2 rfl rfl rfl rfl rfl rfl rfl rfl⟩
  | ffin =>
    simp only [step, stepFFin]
    split
    · exact h
    · rename_i k _
      exact both_createFetched _ k ⟨(inv_fetching s none h.1).1, invC_same _ _ h.2 rfl rfl rfl rfl rfl rfl rfl rfl⟩
  | edit k =>
    simp only [step, stepEdit]
    have g := both_getCached s k false h
    split
    · rename_i s1 heq; rw [heq] at g; exact both_headsUpdate s1 k g
    · exact g
  | head k =>
    simp only [step, stepHead]
    have g := both_getCached s k true h
    split
    · split
      · rename_i s1 heq; rw [heq] at g; exact both_headsUpdate s1 k g
      · exact g
    · exact g
  | run => exact both_stepRun s h
  | restart v => exact both_stepRestart s v h
  | crash k v => exact both_stepCrash s k v h
  | deliver v => exact both_applyView s v h
  | del k snap v =>
    refine ⟨(good_stepDel s k snap v h.1).1, ?_⟩
    simp only [step, stepDel]
    split
    · exact h.2
    · split
      · exact h.2
      · split
        · exact h.2
        · split
          · exact h.2
          · simp only
            refine (both_applyView _ v ⟨?_, ?_⟩).2
            · exact (good_recs s _ h.1).1
            · exact invC_same _ _ h.2 rfl rfl rfl rfl rfl rfl rfl rfl
  | record r => exact ⟨(good_recs s _ h.1).1, invC_same _ _ h.2 rfl rfl rfl rfl rfl rfl rfl rfl⟩

/-- `LegacyOK` along a run -/
def LegacyOKRun : St → List Op → Prop
  | _, [] => True
  | s, op :: ops => LegacyOK s op ∧ LegacyOKRun (step s op).1 ops

theorem both_run : ∀ (ops : List Op) (s : St), LegacyOKRun s ops → Both s → Both (run s ops)
  | [], _, _, h => h
  | op :: ops, s, hn, h => by
    simp only [run, List.foldl]
    exact both_run ops _ hn.2 (both_step s op hn.1 h)

/-! ## the catalogue (`parent`) is never changed by a step; the static form of the legacy restriction -/

theorem parent_createTx (s : St) (k : Nat) : (createTx s k).parent = s.parent := by
  unfold createTx; split
  · split <;> rfl
  · rfl

theorem parent_createFetched (s : St) (k : Nat) : (createFetched s k).1.parent = s.parent := by
  unfold createFetched; split
  · rfl
  · split
    · exact parent_createTx s k
    · rfl

theorem parent_stepPut (s : St) (k : Nat) : (stepPut s k).1.parent = s.parent := by
  unfold stepPut; split
  · rfl
  · split
    · rfl
    · split
      · exact parent_createTx s k
      · rfl

theorem parent_getLocal (s : St) (k : Nat) (r : St × Res) (h : getLocal s k = some r) : r.1.parent = s.parent := by
  unfold getLocal at h; split at h
  · cases h; rfl
  · split at h
    · cases h; rfl
    · cases h

theorem parent_getCached (s : St) (k : Nat) (b : Bool) : (getCached s k b).1.parent = s.parent := by
  unfold getCached; split
  · rfl
  · split
    · rename_i r hr; exact parent_getLocal s k r hr
    · split
      · exact parent_createFetched s k
      · rfl

theorem parent_foldl {α} (f : St → α → St) (hf : ∀ s a, (f s a).parent = s.parent) :
    ∀ (l : List α) (s : St), (l.foldl f s).parent = s.parent
  | [], _ => rfl
  | a :: l, s => by simp only [List.foldl]; rw [parent_foldl f hf l (f s a), hf]

theorem parent_addOne (s : St) (k : Nat) : (addOne s k).parent = s.parent := by
  unfold addOne; split <;> rfl

theorem parent_applyView (s : St) (v : Option View) : (applyView s v).1.parent = s.parent := by
  unfold applyView; split
  · rfl
  · split
    · exact parent_foldl addOne parent_addOne _ _
    · rfl

theorem parent_childStep' (s : St) (c : Nat) :
    (if 2 ≤ s.status c then s else deleteOne s c).parent = s.parent := by
  split <;> rfl

theorem parent_stepRun (s : St) : (stepRun s).parent = s.parent := by
  unfold stepRun
  refine parent_foldl _ ?_ _ _
  intro s k
  unfold deleteChildren
  rw [parent_foldl _ (fun s c => parent_childStep' s c)]
  rfl

theorem parent_faultOne (s : St) (c : Nat) : (faultOne s c).parent = s.parent := by
  unfold faultOne; split <;> rfl

theorem parent_stepRunFault (s : St) : (stepRunFault s).parent = s.parent := by
  unfold stepRunFault
  refine parent_foldl _ ?_ _ _
  intro s k
  split
  · rfl
  · unfold faultChildren
    rw [parent_foldl _ (fun s c => by split; rfl; exact parent_faultOne s c)]
    rfl

theorem parent_orphanOne (s : St) (c : Nat) : (orphanOne s c).parent = s.parent := by
  unfold orphanOne; split <;> rfl

theorem parent_stepRestart (s : St) (v : Option View) : (stepRestart s v).1.parent = s.parent := by
  unfold stepRestart
  show (applyView _ v).1.parent = s.parent
  rw [parent_applyView, parent_foldl orphanOne parent_orphanOne]
  rfl

theorem parent_step (s : St) (op : Op) : (step s op).1.parent = s.parent := by
  cases op with
  | put k => exact parent_stepPut s k
  | fetch k =>
    simp only [step, stepFetch]; split
    · rename_i r hr; exact parent_getLocal s k r hr
    · exact parent_createFetched s k
  | fstart k =>
    simp only [step, stepFStart]; split
    · rename_i r hr; exact parent_getLocal s k r hr
    · rfl
  | ffin =>
    simp only [step, stepFFin]; split
    · rfl
    · rename_i k _; exact parent_createFetched _ k
  | edit k =>
    simp only [step, stepEdit]
    have g := parent_getCached s k false
    split
    · rename_i s1 heq; rw [heq] at g; exact g
    · exact g
  | head k =>
    simp only [step, stepHead]
    have g := parent_getCached s k true
    split
    · split
      · rename_i s1 heq; rw [heq] at g; exact g
      · exact g
    · exact g
  | run => exact parent_stepRun s
  | runFault => exact parent_stepRunFault s
  | legacy k => simp only [step, stepLegacy]; split <;> rfl
  | restart v => exact parent_stepRestart s v
  | crash k v =>
    simp only [step, stepCrash]; split
    · rw [parent_stepRestart]; rfl
    · rfl
  | deliver v => exact parent_applyView s v
  | del k snap v =>
    simp only [step, stepDel]
    split
    · rfl
    · split
      · rfl
      · split
        · rfl
        · split
          · rfl
          · simp only; rw [parent_applyView]
  | record r => rfl

/-- the generator's restriction as a property of the op list alone: legacy entries are written only for ids
that no catalogue object names as its parent -/
def LegacyUnrelated (parent : Nat → Option Nat) (ops : List Op) : Prop :=
  ∀ op ∈ ops, ∀ k, op = .legacy k → ∀ c, parent c ≠ some k

theorem legacyOKRun_of_unrelated (parent : Nat → Option Nat) :
    ∀ (ops : List Op) (s : St), s.parent = parent → LegacyUnrelated parent ops → LegacyOKRun s ops
  | [], _, _, _ => trivial
  | op :: ops, s, hp, hu => by
    refine ⟨?_, legacyOKRun_of_unrelated parent ops _ (by rw [parent_step, hp])
      (fun o ho => hu o (by simp [ho]))⟩
    cases op with
    | legacy k => intro c; rw [hp]; exact hu (.legacy k) (by simp) k rfl c
    | _ => trivial

/-! ## after a worker run nothing is left queued -/

theorem deleteOne_mirror (s : St) (j k : Nat) (h : s.mirror k ≠ 1 ∨ k = j) : (deleteOne s j).mirror k ≠ 1 := by
  simp only [deleteOne, setStatus, upd]; grind

theorem childStep_mirror (s : St) (j k : Nat) (h : s.mirror k ≠ 1) : (childStep s j).mirror k ≠ 1 := by
  unfold childStep; split
  · exact h
  · exact deleteOne_mirror s j k (Or.inl h)

theorem foldl_preserve {α} (P : St → Prop) (f : St → α → St) (hf : ∀ s a, P s → P (f s a)) :
    ∀ (l : List α) (s : St), P s → P (l.foldl f s)
  | [], _, h => h
  | a :: l, s, h => foldl_preserve P f hf l (f s a) (hf s a h)

theorem runUnit_mirror (s : St) (j k : Nat) (h : s.mirror k ≠ 1 ∨ k = j) :
    (deleteChildren (deleteOne s j) j).mirror k ≠ 1 :=
  foldl_preserve (fun s => s.mirror k ≠ 1) childStep (fun s a hs => childStep_mirror s a k hs) _ _
    (deleteOne_mirror s j k h)

theorem run_fold_mirror (k : Nat) : ∀ (l : List Nat) (s : St), (s.mirror k ≠ 1 ∨ k ∈ l) →
    (l.foldl (fun s j => deleteChildren (deleteOne s j) j) s).mirror k ≠ 1
  | [], s, h => by simpa using h
  | j :: l, s, h => by
    simp only [List.foldl]
    apply run_fold_mirror k l
    by_cases e : k = j
    · exact Or.inl (runUnit_mirror s j k (Or.inr e))
    · rcases h with h | h
      · exact Or.inl (runUnit_mirror s j k (Or.inl h))
      · exact Or.inr (by simpa [e] using h)

theorem stepRun_mirror (s : St) (k : Nat) (hk : k < s.n) : (stepRun s).mirror k ≠ 1 := by
  unfold stepRun
  apply run_fold_mirror
  by_cases h : s.mirror k = 1
  · exact Or.inr (by simp [queuedList, hk, h])
  · exact Or.inl h

/-- after one worker run every bound child of a tombstoned parent is tombstoned -/
theorem children_after_run (s : St) (h : Both s) (c p : Nat) (hc : c < s.n) (hp : p < s.n)
    (hpar : s.parent c = some p)
    (he : (stepRun s).entry c = true) (hb : (stepRun s).bound c = true) (ht : (stepRun s).tomb p = true) :
    (stepRun s).tomb c = true := by
  have b := both_stepRun s h
  have hn : (stepRun s).n = s.n ∧ (stepRun s).parent = s.parent := by
    unfold stepRun
    refine foldl_preserve (fun x => x.n = s.n ∧ x.parent = s.parent) _ ?_ _ s ⟨rfl, rfl⟩
    intro x j hx
    have : ∀ (l : List Nat) (y : St), (y.n = s.n ∧ y.parent = s.parent) →
        ((l.foldl (fun s c => if 2 ≤ s.status c then s else deleteOne s c) y).n = s.n ∧
         (l.foldl (fun s c => if 2 ≤ s.status c then s else deleteOne s c) y).parent = s.parent) := by
      intro l
      induction l with
      | nil => intro y hy; exact hy
      | cons a l ih =>
        intro y hy
        simp only [List.foldl]
        apply ih
        split
        · exact hy
        · exact hy
    exact this _ _ hx
  simp only [St.tomb, Bool.and_eq_true, decide_eq_true_eq] at ht ⊢
  have hroot : (stepRun s).parent p = none := by rw [hn.2]; exact h.2.wf c p hpar
  have m0 := b.2.K p hroot ht.1 ht.2
  have m1 := stepRun_mirror s p hp
  have m2 := b.2.mle p
  have m : (stepRun s).mirror p = 2 := by omega
  have sp := b.1.mirror2 p m
  exact ⟨he, (b.2.J c p (by rw [hn.1]; exact hc) (by rw [hn.2]; exact hpar) he hb).1 sp.1 sp.2⟩


/-! ## settings log: the state builder computes a union -/

theorem mem_insertSorted (a x : Nat) (l : List Nat) : x ∈ insertSorted a l ↔ x = a ∨ x ∈ l := by
  induction l with
  | nil => simp [insertSorted]
  | cons b l ih =>
    simp only [insertSorted]
    split
    · simp
    · split
      · rename_i h; subst h; simp
      · simp [ih]; grind

theorem mem_unionIds (x : Nat) (l acc : List Nat) : x ∈ unionIds l acc ↔ x ∈ l ∨ x ∈ acc := by
  unfold unionIds
  induction l generalizing acc with
  | nil => simp
  | cons a l ih => simp [List.foldl, ih, mem_insertSorted]; grind

def idsOf (recs : List Rec) (c : Nat) : List Nat := (recs.getD c ⟨[], none⟩).ids

theorem processAll_append (recs : List Rec) (root : Nat) (st : Option SState) (l1 l2 : List Nat) :
    processAll recs root st (l1 ++ l2) = processAll recs root (processAll recs root st l1) l2 := by
  induction l1 generalizing st with
  | nil => cases st <;> simp [processAll]
  | cons c l ih =>
    cases st with
    | none => simp [processAll]; cases l2 <;> simp [processAll]
    | some s => simp [processAll, ih]

theorem processChange_last (recs : List Rec) (root : Nat) (st : SState) :
    processChange recs root st st.last = some st := by
  simp [processChange]

/-- changes of a view tail: none of them is the settings root record 0 or the tree root, no repeats,
and the change the state was built up to is not among them -/
def PlainSeq (root last : Nat) (seq : List Nat) : Prop :=
  (∀ c ∈ seq, c ≠ 0 ∧ c ≠ root) ∧ seq.Nodup ∧ last ∉ seq

theorem mem_processAll (recs : List Rec) (root : Nat) (seq : List Nat) (st : SState)
    (h : PlainSeq root st.last seq) :
    ∃ st', processAll recs root (some st) seq = some st' ∧
      (∀ x, x ∈ st'.deleted ↔ x ∈ st.deleted ∨ ∃ c ∈ seq, x ∈ idsOf recs c) ∧
      st'.last = seq.getLastD st.last := by
  induction seq generalizing st with
  | nil => exact ⟨st, by simp [processAll], by simp, by simp⟩
  | cons c l ih =>
    obtain ⟨h1, h2, h3⟩ := h
    have hc := h1 c (by simp)
    have hne : st.last ≠ c := by intro e; apply h3; simp [e]
    have hp : processChange recs root st c = some ⟨unionIds (idsOf recs c) st.deleted, c⟩ := by
      simp [processChange, hc.1, hc.2, hne, idsOf]
    have hl : PlainSeq root c l := by
      refine ⟨fun d hd => h1 d (by simp [hd]), (List.nodup_cons.1 h2).2, (List.nodup_cons.1 h2).1⟩
    obtain ⟨st', e1, e2, e3⟩ := ih ⟨unionIds (idsOf recs c) st.deleted, c⟩ hl
    refine ⟨st', by simp [processAll, hp, e1], ?_, ?_⟩
    · intro x; rw [e2 x]; simp [mem_unionIds]; grind
    · rw [e3]; cases l <;> simp [List.getLastD]

end AnySync.Deletion
