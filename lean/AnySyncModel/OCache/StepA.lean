import AnySyncModel.OCache.Shape
/-! preservation of layer A of the invariant (`InvA`) by every transition of the LTS -/
namespace AnySync.OCache

attribute [local simp] upd State.setThr State.setE State.setI State.goto State.finish State.panic
  markStarted_pc markStarted_op markStarted_todo Pc.loaderOf Pc.closerOf Entry.inMapOf

theorem todo_part {s : State} {t : Tid} (hI : InvA s) (ht : t < s.nThr) :
    ∀ r ∈ (markStarted s (s.thr t)).todo, r < s.nHeap ∧ ((markStarted s (s.thr t)).op ≠ .close → (s.heap r).st ≠ .loading) := by
  rw [markStarted_todo, markStarted_op]; exact (hI.thr t ht).1

set_option hygiene false in
/-- discharge the obligations of `invA_frame` for an explicit successor state -/
local macro "frameA" r0:term : tactic => `(tactic|
  (apply invA_frame' (t := t) $r0 hI ht
   case hnThr => simp
   case hnHeap => simp
   case hnew => intro r hr; simp at hr ⊢; first | omega | grind
   case hthr => intro t' ht'; simp [ht']
   case hheap => intro r hr; simp [hr]
   case hmap => intro r hr hr2; simp [hr]; try grind
   case hmapok => intro id r hm; simp at hm ⊢ <;> grind
   case hG => intro hr; first | (exfalso; simp at hr; done) | ((try simp at hr); constructor <;> simp <;> grind)
   case hE0 => intro hr; first | (exfalso; simp at hr; done) | ((try simp at hr); constructor <;> simp <;> grind)
   case hE0c => intro hr; first | (exfalso; simp at hr; done) | ((try simp at hr); intro t2 h2; simp at h2 ⊢ <;> grind)
   case hE0l => intro hr; first | (exfalso; simp at hr; done) | ((try simp at hr); simp <;> grind)
   case hT => unfold TInvA; simp <;> grind
   case hown => intro r hr; simp [hld, hcl]; try grind
   case hP => simpa using hI.no_panic))

set_option hygiene false in
/-- common preamble: unfold `stepCore` at the current pc -/
local macro "open_step" : tactic => `(tactic|
  (have hTd := (hI.thr t ht).1
   have hM := hI.map_ok
   have hTt := (hI.thr t ht).2
   have hcl0 := congrArg Pc.closerOf hpc
   have hld0 := congrArg Pc.loaderOf hpc
   generalize hcl : (s.thr t).pc.closerOf = cl at hcl0
   generalize hld : (s.thr t).pc.loaderOf = ld at hld0
   simp only [Pc.closerOf, Pc.loaderOf] at hcl0 hld0
   subst hcl0 hld0
   rw [hpc] at hTt
   simp only at hTt
   unfold stepCore at h
   rw [markStarted_pc, hpc] at h
   simp only [markStarted_op, markStarted_todo] at h))

set_option hygiene false in
/-- destructure the result of `afterRemove`/`nextTodo` and run `tac` in each of its five shapes -/
local macro "with_after" hh:ident tac:tactic : tactic => `(tactic|
  (obtain ⟨th', cd, rfl, hA, hcd⟩ := $hh
   obtain ⟨op', pc', todo', ret', sta', stale'⟩ := th'
   obtain ⟨hop', hst', hsd', hsub, hpc'⟩ := hA
   simp only [markStarted_op, markStarted_todo] at hop' hst' hsd' hsub hpc' hcd
   rcases hpc' with ⟨hp, hx⟩ | ⟨hp, hx⟩ | ⟨hp, hx⟩ | ⟨r2, hm2, hp, hx⟩ | ⟨r2, hm2, hp, hx⟩ <;> subst hp <;> $tac))

theorem a_getLookup (s s' : State) (t : Tid) (hint : Option Id)
    (hI : InvA s) (ht : t < s.nThr) (hpc : (s.thr t).pc = .getLookup)
    (h : stepCore s t (markStarted s (s.thr t)) hint = some s') : InvA s' := by
  open_step
  split at h
  · cases h
    frameA s.nHeap
  · split at h
    · rename_i r hm
      cases h
      have hr := (hM _ _ hm).1
      frameA s.nHeap
    · cases h
      frameA s.nHeap

theorem a_getWaitClose (s s' : State) (t : Tid) (hint : Option Id) (r : Ref) (l : Bool)
    (hI : InvA s) (ht : t < s.nThr) (hpc : (s.thr t).pc = .getWaitClose r l)
    (h : stepCore s t (markStarted s (s.thr t)) hint = some s') : InvA s' := by
  cases l
  all_goals
    open_step
    have hr : r < s.nHeap := by first | exact hTt | exact hTt.1
    obtain ⟨hE1, hE2, hE3, hE4, hE5, hE6, hE7, hE8, hE9, hE10⟩ := hI.ent r hr
    split at h
    · cases h; frameA s.nHeap
    · cases h; frameA s.nHeap
    · simp at h; cases h; frameA s.nHeap

theorem a_waitCloseWait (s s' : State) (t : Tid) (hint : Option Id) (r : Ref) (g : Nat)
    (hI : InvA s) (ht : t < s.nThr) (hpc : (s.thr t).pc = .waitCloseWait r g)
    (h : stepCore s t (markStarted s (s.thr t)) hint = some s') : InvA s' := by
  open_step
  split at h
  · cases h; frameA s.nHeap
  · cases h

theorem a_loadBegin (s s' : State) (t : Tid) (hint : Option Id) (r : Ref)
    (hI : InvA s) (ht : t < s.nThr) (hpc : (s.thr t).pc = .loadBegin r)
    (h : stepCore s t (markStarted s (s.thr t)) hint = some s') : InvA s' := by
  open_step
  have hr : r < s.nHeap := hTt.1
  obtain ⟨hE1, hE2, hE3, hE4, hE5, hE6, hE7, hE8, hE9, hE10⟩ := hI.ent r hr
  cases h
  frameA r

theorem a_loadCommit (s s' : State) (t : Tid) (hint : Option Id) (r : Ref) (v : Option Inst) (ab : Bool)
    (hI : InvA s) (ht : t < s.nThr) (hpc : (s.thr t).pc = .loadCommit r v ab)
    (h : stepCore s t (markStarted s (s.thr t)) hint = some s') : InvA s' := by
  open_step
  have hr : r < s.nHeap := hTt.1
  obtain ⟨hE1, hE2, hE3, hE4, hE5, hE6, hE7, hE8, hE9, hE10⟩ := hI.ent r hr
  split at h
  · cases h; frameA r
  · cases h; frameA r

theorem a_loadSignal (s s' : State) (t : Tid) (hint : Option Id) (r : Ref)
    (hI : InvA s) (ht : t < s.nThr) (hpc : (s.thr t).pc = .loadSignal r)
    (h : stepCore s t (markStarted s (s.thr t)) hint = some s') : InvA s' := by
  open_step
  have hr : r < s.nHeap := hTt.1
  obtain ⟨hE1, hE2, hE3, hE4, hE5, hE6, hE7, hE8, hE9, hE10⟩ := hI.ent r hr
  cases h
  unfold getReturn
  simp only [markStarted_retries]
  split
  · split
    · frameA r
    · frameA r
  · split
    · frameA r
    · frameA r

theorem a_getWaitLoad (s s' : State) (t : Tid) (hint : Option Id) (r : Ref)
    (hI : InvA s) (ht : t < s.nThr) (hpc : (s.thr t).pc = .getWaitLoad r)
    (h : stepCore s t (markStarted s (s.thr t)) hint = some s') : InvA s' := by
  open_step
  have hr : r < s.nHeap := hTt
  obtain ⟨hE1, hE2, hE3, hE4, hE5, hE6, hE7, hE8, hE9, hE10⟩ := hI.ent r hr
  split at h
  · cases h
    unfold getReturn
    simp only [markStarted_retries]
    split
    · split
      · frameA s.nHeap
      · frameA s.nHeap
    · split
      · frameA s.nHeap
      · frameA s.nHeap
  · cases h

theorem a_pickLookup (s s' : State) (t : Tid) (hint : Option Id)
    (hI : InvA s) (ht : t < s.nThr) (hpc : (s.thr t).pc = .pickLookup)
    (h : stepCore s t (markStarted s (s.thr t)) hint = some s') : InvA s' := by
  open_step
  split at h
  · cases h; frameA s.nHeap
  · rename_i r hm
    have hr := (hM _ _ hm).1
    split at h
    · cases h; frameA s.nHeap
    · cases h; frameA s.nHeap

theorem a_pickWaitLoad (s s' : State) (t : Tid) (hint : Option Id) (r : Ref)
    (hI : InvA s) (ht : t < s.nThr) (hpc : (s.thr t).pc = .pickWaitLoad r)
    (h : stepCore s t (markStarted s (s.thr t)) hint = some s') : InvA s' := by
  open_step
  split at h
  · split at h
    · cases h; frameA s.nHeap
    · split at h
      · cases h; frameA s.nHeap
      · cases h; frameA s.nHeap
  · cases h

theorem a_addStart (s s' : State) (t : Tid) (hint : Option Id)
    (hI : InvA s) (ht : t < s.nThr) (hpc : (s.thr t).pc = .addStart)
    (h : stepCore s t (markStarted s (s.thr t)) hint = some s') : InvA s' := by
  open_step
  split at h
  · cases h; frameA s.nHeap
  · split at h
    · cases h; frameA s.nHeap
    · cases h; frameA s.nHeap

theorem a_removeLookup (s s' : State) (t : Tid) (hint : Option Id)
    (hI : InvA s) (ht : t < s.nThr) (hpc : (s.thr t).pc = .removeLookup)
    (h : stepCore s t (markStarted s (s.thr t)) hint = some s') : InvA s' := by
  open_step
  split at h
  · cases h; frameA s.nHeap
  · split at h
    · cases h; frameA s.nHeap
    · rename_i r hm
      have hr := (hM _ _ hm).1
      cases h; frameA s.nHeap

theorem a_removeSameLookup (s s' : State) (t : Tid) (hint : Option Id)
    (hI : InvA s) (ht : t < s.nThr) (hpc : (s.thr t).pc = .removeSameLookup)
    (h : stepCore s t (markStarted s (s.thr t)) hint = some s') : InvA s' := by
  open_step
  split at h
  · cases h; frameA s.nHeap
  · split at h
    · rename_i r _ _ hm _
      have hr := (hM _ _ hm).1
      split at h
      · cases h; frameA s.nHeap
      · cases h; frameA s.nHeap
    · cases h; frameA s.nHeap

theorem a_tryRemoveLookup (s s' : State) (t : Tid) (hint : Option Id)
    (hI : InvA s) (ht : t < s.nThr) (hpc : (s.thr t).pc = .tryRemoveLookup)
    (h : stepCore s t (markStarted s (s.thr t)) hint = some s') : InvA s' := by
  open_step
  split at h
  · cases h; frameA s.nHeap
  · split at h
    · cases h; frameA s.nHeap
    · rename_i r hm
      have hr := (hM _ _ hm).1
      split at h
      · cases h; frameA s.nHeap
      · cases h; frameA s.nHeap

theorem a_doLocked (s s' : State) (t : Tid) (hint : Option Id)
    (hI : InvA s) (ht : t < s.nThr) (hpc : (s.thr t).pc = .doLocked)
    (h : stepCore s t (markStarted s (s.thr t)) hint = some s') : InvA s' := by
  open_step
  split at h
  · cases h; frameA s.nHeap
  · split at h
    · cases h; frameA s.nHeap
    · cases h; frameA s.nHeap

theorem a_forEach (s s' : State) (t : Tid) (hint : Option Id)
    (hI : InvA s) (ht : t < s.nThr) (hpc : (s.thr t).pc = .forEach)
    (h : stepCore s t (markStarted s (s.thr t)) hint = some s') : InvA s' := by
  open_step
  cases h; frameA s.nHeap

theorem a_rmWaitLoad (s s' : State) (t : Tid) (hint : Option Id) (r : Ref)
    (hI : InvA s) (ht : t < s.nThr) (hpc : (s.thr t).pc = .rmWaitLoad r)
    (h : stepCore s t (markStarted s (s.thr t)) hint = some s') : InvA s' := by
  open_step
  have hr : r < s.nHeap := hTt
  obtain ⟨hE1, hE2, hE3, hE4, hE5, hE6, hE7, hE8, hE9, hE10⟩ := hI.ent r hr
  split at h
  · split at h
    · have hh := afterRemove_shape h
      with_after hh (frameA s.nHeap)
    · cases h; frameA s.nHeap
  · cases h

theorem a_setClosingWait (s s' : State) (t : Tid) (hint : Option Id) (r : Ref)
    (hI : InvA s) (ht : t < s.nThr)
    (hpc : (s.thr t).pc = .rmSetClosing r ∨ ∃ g, (s.thr t).pc = .rmClosingWait r g)
    (hr : r < s.nHeap) (hld1 : (s.heap r).loadDone = true) (hle : (s.heap r).loadErr = false)
    (h : setClosingWait s t (markStarted s (s.thr t)) r hint = some s') : InvA s' := by
  have hTd := (hI.thr t ht).1
  have hM := hI.map_ok
  have hcl : (s.thr t).pc.closerOf = none := by
    rcases hpc with h | ⟨g, h⟩ <;> rw [h] <;> rfl
  have hld : (s.thr t).pc.loaderOf = none := by
    rcases hpc with h | ⟨g, h⟩ <;> rw [h] <;> rfl
  obtain ⟨hE1, hE2, hE3, hE4, hE5, hE6, hE7, hE8, hE9, hE10⟩ := hI.ent r hr
  unfold setClosingWait at h
  simp only [markStarted_op, markStarted_todo] at h
  split at h
  · cases h; frameA s.nHeap
  · have hh := afterRemove_shape h
    with_after hh (frameA s.nHeap)
  · split at h
    · cases h
      exfalso; grind
    · cases h
      rename_i hnc hncd _ i hval
      have hact : (s.heap r).st = .active := by
        cases hst : (s.heap r).st <;> simp_all
      unfold markClosing
      frameA r

theorem a_rmSetClosing (s s' : State) (t : Tid) (hint : Option Id) (r : Ref)
    (hI : InvA s) (ht : t < s.nThr) (hpc : (s.thr t).pc = .rmSetClosing r)
    (h : stepCore s t (markStarted s (s.thr t)) hint = some s') : InvA s' := by
  open_step
  exact a_setClosingWait s s' t hint r hI ht (Or.inl hpc) hTt.1 hTt.2.1 hTt.2.2 h

theorem a_rmClosingWait (s s' : State) (t : Tid) (hint : Option Id) (r : Ref) (g : Nat)
    (hI : InvA s) (ht : t < s.nThr) (hpc : (s.thr t).pc = .rmClosingWait r g)
    (h : stepCore s t (markStarted s (s.thr t)) hint = some s') : InvA s' := by
  open_step
  split at h
  · exact a_setClosingWait s s' t hint r hI ht (Or.inr ⟨g, hpc⟩) hTt.1 hTt.2.1 hTt.2.2.1 h
  · cases h

theorem a_trySetClosing (s s' : State) (t : Tid) (hint : Option Id) (r : Ref)
    (hI : InvA s) (ht : t < s.nThr) (hpc : (s.thr t).pc = .trySetClosing r)
    (h : stepCore s t (markStarted s (s.thr t)) hint = some s') : InvA s' := by
  open_step
  have hr : r < s.nHeap := hTt.1
  obtain ⟨hE1, hE2, hE3, hE4, hE5, hE6, hE7, hE8, hE9, hE10⟩ := hI.ent r hr
  split at h
  · have hh := afterRemove_shape h
    with_after hh (frameA s.nHeap)
  · have hh := afterRemove_shape h
    with_after hh (frameA s.nHeap)
  · split at h
    · cases h
      exfalso; grind
    · cases h
      rename_i hnc hncd _ i hval
      have hact : (s.heap r).st = .active := by
        cases hst : (s.heap r).st <;> simp_all
      unfold markClosing
      frameA r

theorem mem_mapRefs {s : State} {r : Ref} : r ∈ mapRefs s ↔ r < s.nHeap ∧ s.map (s.heap r).id = some r := by
  unfold mapRefs refs inMap; simp

theorem a_gcCollect (s s' : State) (t : Tid) (hint : Option Id)
    (hI : InvA s) (ht : t < s.nThr) (hpc : (s.thr t).pc = .gcCollect)
    (h : stepCore s t (markStarted s (s.thr t)) hint = some s') : InvA s' := by
  open_step
  split at h
  · cases h; frameA s.nHeap
  · have hh := nextTodo_shape false none h
    have hmr : ∀ r, r ∈ (mapRefs s).filter (fun r => (s.heap r).st == .active) →
        r < s.nHeap ∧ (s.heap r).st = .active := by
      intro r hr; simp [mem_mapRefs] at hr; exact ⟨hr.1.1, hr.2⟩
    with_after hh (frameA s.nHeap)

/-- all fields of an entry that the invariant looks at -/
structure CoreEq (e' e : Entry) : Prop where
  id : e'.id = e.id
  st : e'.st = e.st
  loadDone : e'.loadDone = e.loadDone
  value : e'.value = e.value
  loadErr : e'.loadErr = e.loadErr
  gen : e'.gen = e.gen
  chOpen : e'.chOpen = e.chOpen
  pending : e'.pending = e.pending
  loader : e'.loader = e.loader
  closer : e'.closer = e.closer

theorem invA_heap_congr {s : State} {heap' : Ref → Entry} (hI : InvA s)
    (hc : ∀ r, CoreEq (heap' r) (s.heap r)) : InvA { s with heap := heap' } := by
  have c1 := fun r => (hc r).id
  have c2 := fun r => (hc r).st
  have c3 := fun r => (hc r).loadDone
  have c4 := fun r => (hc r).value
  have c5 := fun r => (hc r).loadErr
  have c6 := fun r => (hc r).gen
  have c7 := fun r => (hc r).chOpen
  have c8 := fun r => (hc r).pending
  have c9 := fun r => (hc r).loader
  have c10 := fun r => (hc r).closer
  constructor
  · intro id r hm; simp only [c1]; exact hI.map_ok id r hm
  · intro r hr
    have e := hI.ent r hr
    constructor <;> simp only [Entry.inMapOf, c1, c2, c3, c4, c5, c6, c7, c8, c9, c10]
    · exact e.loading_iff
    · exact e.err_loading
    · exact e.done_val
    · exact e.closing_open
    · exact e.closing_closer
    · exact e.pending_loading
    · exact e.live_inmap
    · exact e.closed_notin
    · exact e.closer_thr
    · exact e.loader_thr
  · intro t ht
    have e := hI.thr t ht
    unfold TInvA at e ⊢
    simp only [Entry.inMapOf, c1, c2, c3, c4, c5, c6, c7, c8, c9, c10]
    exact e
  · exact hI.no_panic


theorem a_closeCollect_core (s s' : State) (t : Tid) (hint : Option Id) (th0 : Thread)
    (hI : InvA s) (ht : t < s.nThr) (hpc : (s.thr t).pc = .closeCollect) (hop0 : th0.op = (s.thr t).op)
    (htd : ∀ r, r ∈ th0.todo → r < s.nHeap)
    (h : nextTodo { s with closed := true } t th0 hint = some s') : InvA s' := by
  have hM := hI.map_ok
  have hTt := (hI.thr t ht).2
  rw [hpc] at hTt
  simp only at hTt
  have hcl : (s.thr t).pc.closerOf = none := by rw [hpc]; rfl
  have hld : (s.thr t).pc.loaderOf = none := by rw [hpc]; rfl
  have hh := nextTodo_shape false none h
  with_after hh (frameA s.nHeap)

theorem a_closeCollect (s s' : State) (t : Tid) (hint : Option Id)
    (hI : InvA s) (ht : t < s.nThr) (hpc : (s.thr t).pc = .closeCollect)
    (h : stepCore s t (markStarted s (s.thr t)) hint = some s') : InvA s' := by
  open_step
  split at h
  · cases h; frameA s.nHeap
  · let heap' : Ref → Entry := fun r =>
      if (mapRefs s).contains r && (s.heap r).cancelSet then { s.heap r with cancelled := true } else s.heap r
    have hI' : InvA { s with heap := heap' } := by
      apply invA_heap_congr hI
      intro r; simp only [heap']; split <;> constructor <;> rfl
    exact a_closeCollect_core { s with heap := heap' } s' t hint
      { op := (s.thr t).op, pc := .closeCollect, todo := mapRefs s, retries := (markStarted s (s.thr t)).retries,
        started := (markStarted s (s.thr t)).started, stale := (markStarted s (s.thr t)).stale }
      hI' ht hpc rfl (fun r hr => (mem_mapRefs.1 hr).1) h

set_option hygiene false in
local macro "open_env" : tactic => `(tactic|
  (have hTd := (hI.thr t ht).1
   have hM := hI.map_ok
   have hTt := (hI.thr t ht).2
   have hcl0 := congrArg Pc.closerOf hpc
   have hld0 := congrArg Pc.loaderOf hpc
   generalize hcl : (s.thr t).pc.closerOf = cl at hcl0
   generalize hld : (s.thr t).pc.loaderOf = ld at hld0
   simp only [Pc.closerOf, Pc.loaderOf] at hcl0 hld0
   subst hcl0 hld0
   rw [hpc] at hTt
   simp only at hTt
   unfold envStep at h
   simp only [ht, if_true, hpc] at h))

theorem a_env_load (s s' : State) (t : Tid) (v : Verdict) (hint : Option Id) (r : Ref) (i : Inst)
    (hI : InvA s) (ht : t < s.nThr) (hpc : (s.thr t).pc = .inLoad r i)
    (h : envStep s t v hint = some s') : InvA s' := by
  open_env
  have hr : r < s.nHeap := hTt.1
  obtain ⟨hE1, hE2, hE3, hE4, hE5, hE6, hE7, hE8, hE9, hE10⟩ := hI.ent r hr
  cases v <;> simp only at h
  · cases h; frameA s.nHeap
  · cases h; frameA r
  all_goals cases h

set_option hygiene false in
local macro "closer_pre" : tactic => `(tactic|
  (have hTd := (hI.thr t ht).1
   have hM := hI.map_ok
   have hTt : r < s.nHeap ∧ (s.heap r).closer = some t ∧ (s.heap r).st = .closing ∧ (s.heap r).value = some i := by
     have := (hI.thr t ht).2
     rcases hpc with h | h <;> rw [h] at this <;> exact this
   have hcl : (s.thr t).pc.closerOf = some r := by rcases hpc with h | h <;> rw [h] <;> rfl
   have hld : (s.thr t).pc.loaderOf = none := by rcases hpc with h | h <;> rw [h] <;> rfl
   have hr : r < s.nHeap := hTt.1
   obtain ⟨hE1, hE2, hE3, hE4, hE5, hE6, hE7, hE8, hE9, hE10⟩ := hI.ent r hr))

/-- the close completed: `closeAndDelete` + continuation (Close returned / TryClose answered true) -/
theorem a_closed_core (s s' : State) (t : Tid) (hint : Option Id) (r : Ref) (i : Inst) (x : InstRec)
    (ok : Bool) (err : Option Err)
    (hI : InvA s) (ht : t < s.nThr) (hpc : (s.thr t).pc = .inClose r i ∨ (s.thr t).pc = .inTry r i)
    (h : afterRemove (closeAndDelete (s.setI i x) r (s.heap r)) t (s.thr t) ok err hint = some s') : InvA s' := by
  closer_pre
  have hh := afterRemove_shape h
  unfold closeAndDelete at hh
  with_after hh (frameA r)

/-- TryClose answered "busy": back to active -/
theorem a_busy_core (s s' : State) (t : Tid) (hint : Option Id) (r : Ref) (i : Inst) (x : InstRec)
    (ok : Bool) (err : Option Err)
    (hI : InvA s) (ht : t < s.nThr) (hpc : (s.thr t).pc = .inClose r i ∨ (s.thr t).pc = .inTry r i)
    (h : afterRemove ((s.setI i x).setE r { s.heap r with st := .active, chOpen := false, closer := none })
      t (s.thr t) ok err hint = some s') : InvA s' := by
  closer_pre
  have hh := afterRemove_shape h
  with_after hh (frameA r)

set_option hygiene false in
local macro "closer_pre" : tactic => `(tactic|
  (have hTd := (hI.thr t ht).1
   have hM := hI.map_ok
   have hTt : r < s.nHeap ∧ (s.heap r).closer = some t ∧ (s.heap r).st = .closing ∧ (s.heap r).value = some i := by
     have := (hI.thr t ht).2
     rcases hpc with h | h <;> rw [h] at this <;> exact this
   have hcl : (s.thr t).pc.closerOf = some r := by rcases hpc with h | h <;> rw [h] <;> rfl
   have hld : (s.thr t).pc.loaderOf = none := by rcases hpc with h | h <;> rw [h] <;> rfl
   have hr : r < s.nHeap := hTt.1
   obtain ⟨hE1, hE2, hE3, hE4, hE5, hE6, hE7, hE8, hE9, hE10⟩ := hI.ent r hr))

theorem a_env_close (s s' : State) (t : Tid) (v : Verdict) (hint : Option Id) (r : Ref) (i : Inst)
    (hI : InvA s) (ht : t < s.nThr) (hpc : (s.thr t).pc = .inClose r i)
    (h : envStep s t v hint = some s') : InvA s' := by
  have hTt := (hI.thr t ht).2
  rw [hpc] at hTt
  simp only at hTt
  have hop : (s.heap r).chOpen = true := ((hI.ent r hTt.1).closing_open).1 hTt.2.2.1
  unfold envStep at h
  simp only [ht, if_true, hpc] at h
  cases v <;> simp only [hop, Bool.not_true, Bool.false_eq_true, if_false] at h
  case closeRet => exact a_closed_core s s' t hint r i _ _ _ hI ht (Or.inl hpc) h
  all_goals cases h

theorem a_env_try (s s' : State) (t : Tid) (v : Verdict) (hint : Option Id) (r : Ref) (i : Inst)
    (hI : InvA s) (ht : t < s.nThr) (hpc : (s.thr t).pc = .inTry r i)
    (h : envStep s t v hint = some s') : InvA s' := by
  have hTt := (hI.thr t ht).2
  rw [hpc] at hTt
  simp only at hTt
  have hop : (s.heap r).chOpen = true := ((hI.ent r hTt.1).closing_open).1 hTt.2.2.1
  unfold envStep at h
  simp only [ht, if_true, hpc] at h
  cases v <;> simp only [hop, Bool.not_true, Bool.false_eq_true, if_false, if_true] at h
  case tryTrue => exact a_closed_core s s' t hint r i _ _ _ hI ht (Or.inr hpc) h
  case tryErrTrue => exact a_closed_core s s' t hint r i _ _ _ hI ht (Or.inr hpc) h
  case tryFalse => exact a_busy_core s s' t hint r i _ _ _ hI ht (Or.inr hpc) h
  case tryErrFalse => exact a_busy_core s s' t hint r i _ _ _ hI ht (Or.inr hpc) h
  all_goals cases h

theorem a_spawn (s : State) (op : Op) (hI : InvA s) : InvA (spawn s op) := by
  unfold spawn
  constructor
  · intro id r hm; exact hI.map_ok id r hm
  · intro r hr
    have e := hI.ent r hr
    refine ⟨e.loading_iff, e.err_loading, e.done_val, e.closing_open, e.closing_closer, e.pending_loading,
      e.live_inmap, e.closed_notin, ?_, ?_⟩
    · intro t2 h2
      have := e.closer_thr t2 h2
      refine ⟨Nat.lt_succ_of_lt this.1, ?_⟩
      have hne : t2 ≠ s.nThr := Nat.ne_of_lt this.1
      simp [upd, hne]; exact this.2
    · intro hd
      obtain ⟨t2, a, b, c⟩ := e.loader_thr hd
      have hne : t2 ≠ s.nThr := Nat.ne_of_lt b
      exact ⟨t2, a, Nat.lt_succ_of_lt b, by simp [upd, hne]; exact c⟩
  · intro t ht
    by_cases e : t = s.nThr
    · subst e
      simp only [upd, if_true]
      unfold TInvA
      refine ⟨by simp, ?_⟩
      cases op <;> simp [firstPc]
    · have ht' : t < s.nThr := by
        have : t < s.nThr + 1 := ht
        omega
      simp only [upd, e, if_false]
      exact (tinvA_congr rfl rfl rfl).2 (hI.thr t ht')
  · exact hI.no_panic

/-- every internal step preserves layer A -/
theorem invA_step {s s' : State} {t : Tid} {hint : Option Id} (hI : InvA s) (h : step s t hint = some s') :
    InvA s' := by
  unfold step at h
  split at h
  · rename_i ht
    simp only at h
    cases hpc : (s.thr t).pc
    case getLookup => exact a_getLookup s s' t hint hI ht hpc h
    case getWaitClose r l => exact a_getWaitClose s s' t hint r l hI ht hpc h
    case waitCloseWait r g => exact a_waitCloseWait s s' t hint r g hI ht hpc h
    case loadBegin r => exact a_loadBegin s s' t hint r hI ht hpc h
    case loadCommit r v ab => exact a_loadCommit s s' t hint r v ab hI ht hpc h
    case loadSignal r => exact a_loadSignal s s' t hint r hI ht hpc h
    case getWaitLoad r => exact a_getWaitLoad s s' t hint r hI ht hpc h
    case pickLookup => exact a_pickLookup s s' t hint hI ht hpc h
    case pickWaitLoad r => exact a_pickWaitLoad s s' t hint r hI ht hpc h
    case addStart => exact a_addStart s s' t hint hI ht hpc h
    case removeLookup => exact a_removeLookup s s' t hint hI ht hpc h
    case removeSameLookup => exact a_removeSameLookup s s' t hint hI ht hpc h
    case tryRemoveLookup => exact a_tryRemoveLookup s s' t hint hI ht hpc h
    case rmWaitLoad r => exact a_rmWaitLoad s s' t hint r hI ht hpc h
    case rmSetClosing r => exact a_rmSetClosing s s' t hint r hI ht hpc h
    case rmClosingWait r g => exact a_rmClosingWait s s' t hint r g hI ht hpc h
    case trySetClosing r => exact a_trySetClosing s s' t hint r hI ht hpc h
    case gcCollect => exact a_gcCollect s s' t hint hI ht hpc h
    case closeCollect => exact a_closeCollect s s' t hint hI ht hpc h
    case doLocked => exact a_doLocked s s' t hint hI ht hpc h
    case forEach => exact a_forEach s s' t hint hI ht hpc h
    all_goals (unfold stepCore at h; rw [markStarted_pc, hpc] at h; cases h)
  · cases h

theorem invA_env {s s' : State} {t : Tid} {v : Verdict} {hint : Option Id} (hI : InvA s)
    (h : envStep s t v hint = some s') : InvA s' := by
  by_cases ht : t < s.nThr
  · cases hpc : (s.thr t).pc
    case inLoad r i => exact a_env_load s s' t v hint r i hI ht hpc h
    case inClose r i => exact a_env_close s s' t v hint r i hI ht hpc h
    case inTry r i => exact a_env_try s s' t v hint r i hI ht hpc h
    all_goals (unfold envStep at h; simp only [ht, if_true, hpc] at h; cases h)
  · unfold envStep at h; simp only [ht, if_false] at h; cases h

theorem invA_next {s s' : State} {l : Label} (hI : InvA s) (h : next s l = some s') : InvA s' := by
  cases l with
  | spawn op => simp only [next] at h; cases h; exact a_spawn s op hI
  | step t hint => exact invA_step hI h
  | env t v hint => exact invA_env hI h

theorem invA_inductive : Inductive InvA := ⟨invA_init, fun _ _ _ hI h => invA_next hI h⟩

end AnySync.OCache
