import AnySyncModel.OCache.Congr
/-! preservation of layer C of the invariant by every transition (generated from the same case
skeleton as StepA.lean; see notes/areas/ocache.md) -/
namespace AnySync.OCache

attribute [local simp] upd State.setThr State.setE State.setI State.goto State.finish State.panic
  markStarted_pc markStarted_op markStarted_todo Pc.loaderOf Pc.closerOf Pc.holds Pc.rmRef Entry.inMapOf

@[local simp] theorem loaded_iff (x : IStatus) : x.loaded = true ↔ x = .live ∨ x = .closing ∨ x = .closed := by
  cases x <;> simp [IStatus.loaded]
@[local simp] theorem alive_iff (x : IStatus) : x.alive = true ↔ x = .loading ∨ x = .live ∨ x = .closing := by
  cases x <;> simp [IStatus.alive]
@[local simp] theorem alive_false_iff (x : IStatus) : x.alive = false ↔ x = .closed ∨ x = .failed := by
  cases x <;> simp [IStatus.alive]

theorem stale_started {s : State} {t : Tid} (hC : InvC s) (ht : t < s.nThr) :
    ∀ i, i ∈ (markStarted s (s.thr t)).stale → i < s.nInst ∧ (s.inst i).st = .closed := by
  intro i hi
  unfold markStarted at hi
  split at hi
  · exact (hC.thr t ht).stale_closed i hi
  · simp [closedInsts] at hi; exact hi

/-- the instance stored in an entry has finished loading; it is closed only if the entry is -/
theorem val_loaded {s : State} {r : Ref} (a : EInvA s r) (b : EInvB s r) :
    ∀ i, (s.heap r).value = some i →
      i < s.nInst ∧ (s.inst i).st.loaded = true ∧ (s.inst i).id = (s.heap r).id ∧
      ((s.heap r).st ≠ .closed → (s.inst i).st ≠ .closed) := by
  intro i hv
  have v := b.val_inst i hv
  have hne : (s.heap r).st ≠ .loading := by
    intro h; have := a.loading_iff.1 h; rw [hv] at this; cases this
  refine ⟨v.1, ?_, v.2.2.1, ?_⟩
  · cases hst : (s.heap r).st
    · exact absurd hst hne
    · rw [v.2.2.2.1 hst]; rfl
    · rw [v.2.2.2.2.1 hst]; rfl
    · rw [v.2.2.2.2.2 hst]; rfl
  · intro hnc
    cases hst : (s.heap r).st
    · exact absurd hst hne
    · rw [v.2.2.2.1 hst]; simp
    · rw [v.2.2.2.2.1 hst]; simp
    · exact absurd hst hnc

theorem markStarted_started (s : State) (th : Thread) : (markStarted s th).started = true := by
  unfold markStarted; split <;> simp_all

theorem markStarted_of_started {s : State} {th : Thread} (h : th.started = true) : markStarted s th = th := by
  unfold markStarted; simp [h]

set_option hygiene false in
/-- facts about the stepping thread from all layers -/
local macro "thr_facts" : tactic => `(tactic|
  (obtain ⟨hb1, hb2, hb3, hb4, hb6, hb5, hb7⟩ := hB.thr t ht
   obtain ⟨hc1, hc2, hc3, hc4, hc5⟩ := hC.thr t ht
   simp only [loaded_iff] at hb2 hb3
   have hst := stale_started hC ht
   have hmst := markStarted_started s (s.thr t)))

set_option hygiene false in
local macro "open_step" : tactic => `(tactic|
  (have hTd := (hA.thr t ht).1
   have hM := hA.map_ok
   have hTt := (hA.thr t ht).2
   have hcl0 := congrArg Pc.closerOf hpc
   have hld0 := congrArg Pc.loaderOf hpc
   have hhold0 := congrArg Pc.holds hpc
   have hrm0 := congrArg Pc.rmRef hpc
   generalize hrm : (s.thr t).pc.rmRef = rm at hrm0
   simp only [Pc.rmRef] at hrm0
   subst hrm0
   generalize hcl : (s.thr t).pc.closerOf = cl at hcl0
   generalize hld : (s.thr t).pc.loaderOf = ld at hld0
   generalize hhold : (s.thr t).pc.holds = hd at hhold0
   simp only [Pc.closerOf, Pc.loaderOf, Pc.holds] at hcl0 hld0 hhold0
   subst hcl0 hld0 hhold0
   thr_facts
   rw [hpc] at hTt
   simp only at hTt
   have hcr := hD.thr t ht
   unfold CloseRun at hcr
   rw [hpc] at hcr
   simp only at hcr
   first
   | (have hms : markStarted s (s.thr t) = s.thr t := by
        rcases hc5 with h | h
        · exact markStarted_of_started h
        · exfalso; rw [hpc] at h; cases hop : (s.thr t).op <;> rw [hop] at h <;> simp [firstPc] at h)
   | skip
   unfold stepCore at h
   rw [markStarted_pc, hpc] at h
   simp only [markStarted_op, markStarted_todo] at h))

set_option hygiene false in
/-- layer A and B facts of entry `r` (needs `hr : r < s.nHeap`) -/
local macro "ent_facts" r:ident : tactic => `(tactic|
  (obtain ⟨hE1, hE2, hE3, hE4, hE5, hE6, hE7, hE8, hE9, hE10⟩ := hA.ent $r hr
   have hVL := val_loaded (hA.ent $r hr) (hB.ent $r hr)
   simp only [loaded_iff] at hVL
   obtain ⟨hB1, hB2, hB3⟩ := hB.ent $r hr))

set_option hygiene false in
/-- layer B facts of the instance stored in entry `r` (needs `hval : (s.heap r).value = some i`) -/
local macro "ins_facts" i:ident : tactic => `(tactic|
  (have hvi := hB1 $i hval
   obtain ⟨hJ1, hJ2, hJ3⟩ := hB.ins $i hvi.1
   simp only [alive_iff] at hJ1))

set_option hygiene false in
local macro "with_after" hh:ident tac:tactic : tactic => `(tactic|
  (obtain ⟨th', cd, rfl, hAf, hcd⟩ := $hh
   obtain ⟨op', pc', todo', ret', sta', stale'⟩ := th'
   obtain ⟨hop', hst', hsd', hsub, hpc'⟩ := hAf
   simp only [markStarted_op, markStarted_todo] at hop' hst' hsd' hsub hpc' hcd
   try simp only [State.setE, State.setI, State.setThr, State.goto] at hcd
   rcases hpc' with ⟨hp, hx⟩ | ⟨hp, hx⟩ | ⟨hp, hx⟩ | ⟨r2, hm2, hp, hx⟩ | ⟨r2, hm2, hp, hx⟩ <;> subst hp <;> $tac))

set_option hygiene false in
local macro "vac" : tactic => `(tactic| (exfalso; simp at hr; done))

set_option hygiene false in
local macro "frameB" r0:term "," i0:term : tactic => `(tactic|
  (apply invB_frame (t := t) $r0 $i0 hA hB
   case hnThr => simp
   case hnHeap => simp
   case hnew => intro r hr; simp at hr ⊢; first | omega | grind
   case hnInst => simp
   case hnewI => intro i hi; simp at hi ⊢; first | omega | grind
   case hthr => intro t' ht'; simp [ht']
   case hheap => intro r hr; simp [hr]
   case hinst => intro i hi; simp [hi]
   case hmap => intro r hr hr2; simp [hr]; try grind
   case hid0 => intro hr; first | vac | (simp; done) | (simp <;> grind)
   case hrel => intro hr; first | vac | ((try simp at hr); grind)
   case hEB0 => intro hr; first | vac | ((try simp at hr); constructor <;> simp <;> grind)
   case hIB0 => intro hr; first | vac | ((try simp at hr); constructor <;> simp <;> grind)
   case hOwn => intro i hi hne hal hent hr0 hvp hm; simp at hal hvp hm ⊢ <;> grind
   case hLoaded => intro hr; first | vac | ((try simp at hr); simp <;> grind)
   case hValKeep => intro hr hv; first | vac | ((try simp at hr); simp at hv ⊢ <;> grind)
   case hPendKeep => intro hr hp hldr; first | vac | ((try simp at hr); simp at hp hldr ⊢ <;> grind)
   case hTB => constructor <;> simp <;> grind))

set_option hygiene false in
local macro "frameC" r0:term "," i0:term : tactic => `(tactic|
  (apply invC_frame (t := t) $r0 $i0 hA hC
   case hnThr => simp
   case hnInst => simp
   case hthr => intro t' ht'; simp [ht']
   case hheap => intro r hr; simp [hr]
   case hinst => intro i hi; simp [hi]
   case hClosedKeep => intro hr hcls; first | vac | ((try simp at hr); simp at hcls ⊢ <;> grind)
   case hValFresh => intro hr; first | vac | ((try simp at hr); intro i hv; simp at hv ⊢ <;> grind)
   case hTC => constructor <;> simp [markStarted_started] <;> grind))


set_option hygiene false in
local macro "frameD" r0:term "," i0:term : tactic => `(tactic|
  (apply invD_frame (t := t) hD
   case hnThr => simp
   case hthr => intro t' ht'; simp [ht']
   case hTD => intro hop; simp at hop; unfold CloseRun; simp <;> grind
   case hD3 => intro hc0 r hr hm; simp at hr hm ⊢ <;> grind
   case hD4 => intro hcd; simp at hcd ⊢ <;> grind
   case hD5 => intro hc0; simp [hc0] <;> grind))

theorem c_getLookup (s s' : State) (t : Tid) (hint : Option Id) 
    (hA : InvA s) (hB : InvB s) (hC : InvC s) (hD : InvD s) (ht : t < s.nThr) (hpc : (s.thr t).pc = .getLookup)
    (h : stepCore s t (markStarted s (s.thr t)) hint = some s') : InvC s' := by
  open_step
  split at h
  · cases h
    frameC s.nHeap, s.nInst
  · split at h
    · rename_i r hm
      cases h
      have hr := (hM _ _ hm).1
      have hid := (hM _ _ hm).2
      ent_facts r
      frameC s.nHeap, s.nInst
    · cases h
      frameC s.nHeap, s.nInst

theorem c_getWaitClose (s s' : State) (t : Tid) (hint : Option Id) (r : Ref) (l : Bool)
    (hA : InvA s) (hB : InvB s) (hC : InvC s) (hD : InvD s) (ht : t < s.nThr) (hpc : (s.thr t).pc = .getWaitClose r l)
    (h : stepCore s t (markStarted s (s.thr t)) hint = some s') : InvC s' := by
  cases l
  all_goals
    open_step
    have hr : r < s.nHeap := by first | exact hTt | exact hTt.1
    ent_facts r
    split at h
    · cases h; frameC s.nHeap, s.nInst
    · cases h; frameC s.nHeap, s.nInst
    · simp at h; cases h; frameC s.nHeap, s.nInst

theorem c_waitCloseWait (s s' : State) (t : Tid) (hint : Option Id) (r : Ref) (g : Nat)
    (hA : InvA s) (hB : InvB s) (hC : InvC s) (hD : InvD s) (ht : t < s.nThr) (hpc : (s.thr t).pc = .waitCloseWait r g)
    (h : stepCore s t (markStarted s (s.thr t)) hint = some s') : InvC s' := by
  open_step
  split at h
  · cases h; frameC s.nHeap, s.nInst
  · cases h

theorem c_loadBegin (s s' : State) (t : Tid) (hint : Option Id) (r : Ref)
    (hA : InvA s) (hB : InvB s) (hC : InvC s) (hD : InvD s) (ht : t < s.nThr) (hpc : (s.thr t).pc = .loadBegin r)
    (h : stepCore s t (markStarted s (s.thr t)) hint = some s') : InvC s' := by
  open_step
  have hr : r < s.nHeap := hTt.1
  ent_facts r
  cases h
  frameC r, s.nInst

theorem c_loadCommit (s s' : State) (t : Tid) (hint : Option Id) (r : Ref) (v : Option Inst) (ab : Bool)
    (hA : InvA s) (hB : InvB s) (hC : InvC s) (hD : InvD s) (ht : t < s.nThr) (hpc : (s.thr t).pc = .loadCommit r v ab)
    (h : stepCore s t (markStarted s (s.thr t)) hint = some s') : InvC s' := by
  open_step
  have hr : r < s.nHeap := hTt.1
  ent_facts r
  split at h
  · cases h; frameC r, s.nInst
  · cases h; frameC r, s.nInst

theorem c_loadSignal (s s' : State) (t : Tid) (hint : Option Id) (r : Ref)
    (hA : InvA s) (hB : InvB s) (hC : InvC s) (hD : InvD s) (ht : t < s.nThr) (hpc : (s.thr t).pc = .loadSignal r)
    (h : stepCore s t (markStarted s (s.thr t)) hint = some s') : InvC s' := by
  open_step
  have hr : r < s.nHeap := hTt.1
  ent_facts r
  cases h
  unfold getReturn
  simp only [markStarted_retries]
  split
  · split
    · frameC r, s.nInst
    · frameC r, s.nInst
  · split
    · frameC r, s.nInst
    · frameC r, s.nInst

theorem c_getWaitLoad (s s' : State) (t : Tid) (hint : Option Id) (r : Ref)
    (hA : InvA s) (hB : InvB s) (hC : InvC s) (hD : InvD s) (ht : t < s.nThr) (hpc : (s.thr t).pc = .getWaitLoad r)
    (h : stepCore s t (markStarted s (s.thr t)) hint = some s') : InvC s' := by
  open_step
  have hr : r < s.nHeap := hTt
  ent_facts r
  split at h
  · cases h
    unfold getReturn
    simp only [markStarted_retries]
    split
    · split
      · frameC s.nHeap, s.nInst
      · frameC s.nHeap, s.nInst
    · split
      · frameC s.nHeap, s.nInst
      · frameC s.nHeap, s.nInst
  · cases h

theorem c_pickLookup (s s' : State) (t : Tid) (hint : Option Id) 
    (hA : InvA s) (hB : InvB s) (hC : InvC s) (hD : InvD s) (ht : t < s.nThr) (hpc : (s.thr t).pc = .pickLookup)
    (h : stepCore s t (markStarted s (s.thr t)) hint = some s') : InvC s' := by
  open_step
  split at h
  · cases h; frameC s.nHeap, s.nInst
  · rename_i r hm
    have hr := (hM _ _ hm).1
    have hid := (hM _ _ hm).2
    ent_facts r
    split at h
    · cases h; frameC s.nHeap, s.nInst
    · cases h; frameC s.nHeap, s.nInst

theorem c_pickWaitLoad (s s' : State) (t : Tid) (hint : Option Id) (r : Ref)
    (hA : InvA s) (hB : InvB s) (hC : InvC s) (hD : InvD s) (ht : t < s.nThr) (hpc : (s.thr t).pc = .pickWaitLoad r)
    (h : stepCore s t (markStarted s (s.thr t)) hint = some s') : InvC s' := by
  open_step
  have hr : r < s.nHeap := hTt
  ent_facts r
  split at h
  · split at h
    · cases h; frameC s.nHeap, s.nInst
    · split at h
      · cases h; frameC s.nHeap, s.nInst
      · cases h; frameC s.nHeap, s.nInst
  · cases h

theorem c_addStart (s s' : State) (t : Tid) (hint : Option Id) 
    (hA : InvA s) (hB : InvB s) (hC : InvC s) (hD : InvD s) (ht : t < s.nThr) (hpc : (s.thr t).pc = .addStart)
    (h : stepCore s t (markStarted s (s.thr t)) hint = some s') : InvC s' := by
  open_step
  split at h
  · cases h; frameC s.nHeap, s.nInst
  · split at h
    · cases h; frameC s.nHeap, s.nInst
    · cases h; frameC s.nHeap, s.nInst

theorem c_removeLookup (s s' : State) (t : Tid) (hint : Option Id) 
    (hA : InvA s) (hB : InvB s) (hC : InvC s) (hD : InvD s) (ht : t < s.nThr) (hpc : (s.thr t).pc = .removeLookup)
    (h : stepCore s t (markStarted s (s.thr t)) hint = some s') : InvC s' := by
  open_step
  split at h
  · cases h; frameC s.nHeap, s.nInst
  · split at h
    · cases h; frameC s.nHeap, s.nInst
    · rename_i r hm
      have hr := (hM _ _ hm).1
      ent_facts r
      cases h; frameC s.nHeap, s.nInst

theorem c_removeSameLookup (s s' : State) (t : Tid) (hint : Option Id) 
    (hA : InvA s) (hB : InvB s) (hC : InvC s) (hD : InvD s) (ht : t < s.nThr) (hpc : (s.thr t).pc = .removeSameLookup)
    (h : stepCore s t (markStarted s (s.thr t)) hint = some s') : InvC s' := by
  open_step
  split at h
  · cases h; frameC s.nHeap, s.nInst
  · split at h
    · rename_i r _ _ hm _
      have hr := (hM _ _ hm).1
      ent_facts r
      split at h
      · cases h; frameC s.nHeap, s.nInst
      · cases h; frameC s.nHeap, s.nInst
    · cases h; frameC s.nHeap, s.nInst

theorem c_tryRemoveLookup (s s' : State) (t : Tid) (hint : Option Id) 
    (hA : InvA s) (hB : InvB s) (hC : InvC s) (hD : InvD s) (ht : t < s.nThr) (hpc : (s.thr t).pc = .tryRemoveLookup)
    (h : stepCore s t (markStarted s (s.thr t)) hint = some s') : InvC s' := by
  open_step
  split at h
  · cases h; frameC s.nHeap, s.nInst
  · split at h
    · cases h; frameC s.nHeap, s.nInst
    · rename_i r hm
      have hr := (hM _ _ hm).1
      ent_facts r
      split at h
      · cases h; frameC s.nHeap, s.nInst
      · cases h; frameC s.nHeap, s.nInst

theorem c_doLocked (s s' : State) (t : Tid) (hint : Option Id) 
    (hA : InvA s) (hB : InvB s) (hC : InvC s) (hD : InvD s) (ht : t < s.nThr) (hpc : (s.thr t).pc = .doLocked)
    (h : stepCore s t (markStarted s (s.thr t)) hint = some s') : InvC s' := by
  open_step
  split at h
  · cases h; frameC s.nHeap, s.nInst
  · split at h
    · cases h; frameC s.nHeap, s.nInst
    · cases h; frameC s.nHeap, s.nInst

theorem c_forEach (s s' : State) (t : Tid) (hint : Option Id) 
    (hA : InvA s) (hB : InvB s) (hC : InvC s) (hD : InvD s) (ht : t < s.nThr) (hpc : (s.thr t).pc = .forEach)
    (h : stepCore s t (markStarted s (s.thr t)) hint = some s') : InvC s' := by
  open_step
  have hfe : ∀ i, i ∈ (mapRefs s).filterMap (fun r => if ((s.heap r).loadDone && !(s.heap r).isClosing) = true then (s.heap r).value else none) →
      i < s.nInst ∧ ((s.inst i).st = .live ∨ (s.inst i).st = .closing ∨ (s.inst i).st = .closed) ∧ (s.inst i).st ≠ .closed := by
    intro i hi
    simp only [List.mem_filterMap, mem_mapRefs] at hi
    obtain ⟨r, ⟨hr, hm⟩, hv⟩ := hi
    split at hv
    · rename_i hc
      simp [Entry.isClosing] at hc
      have := val_loaded (hA.ent r hr) (hB.ent r hr) i hv
      exact ⟨this.1, (loaded_iff _).1 this.2.1, this.2.2.2 hc.2.2⟩
    · cases hv
  cases h; frameC s.nHeap, s.nInst

theorem c_rmWaitLoad (s s' : State) (t : Tid) (hint : Option Id) (r : Ref)
    (hA : InvA s) (hB : InvB s) (hC : InvC s) (hD : InvD s) (ht : t < s.nThr) (hpc : (s.thr t).pc = .rmWaitLoad r)
    (h : stepCore s t (markStarted s (s.thr t)) hint = some s') : InvC s' := by
  open_step
  have hr : r < s.nHeap := hTt
  ent_facts r
  split at h
  · split at h
    · have hh := afterRemove_shape h
      with_after hh (frameC s.nHeap, s.nInst)
    · cases h; frameC s.nHeap, s.nInst
  · cases h

theorem c_setClosingWait (s s' : State) (t : Tid) (hint : Option Id) (r : Ref)
    (hA : InvA s) (hB : InvB s) (hC : InvC s) (hD : InvD s) (ht : t < s.nThr)
    (hpc : (s.thr t).pc = .rmSetClosing r ∨ ∃ g, (s.thr t).pc = .rmClosingWait r g)
    (hr : r < s.nHeap) (hld1 : (s.heap r).loadDone = true) (hle : (s.heap r).loadErr = false)
    (h : setClosingWait s t (markStarted s (s.thr t)) r hint = some s') : InvC s' := by
  have hTd := (hA.thr t ht).1
  have hM := hA.map_ok
  have hcl : (s.thr t).pc.closerOf = none := by
    rcases hpc with h | ⟨g, h⟩ <;> rw [h] <;> rfl
  have hld : (s.thr t).pc.loaderOf = none := by
    rcases hpc with h | ⟨g, h⟩ <;> rw [h] <;> rfl
  have hhold : (s.thr t).pc.holds = none := by
    rcases hpc with h | ⟨g, h⟩ <;> rw [h] <;> rfl
  have hrm : (s.thr t).pc.rmRef = some r := by
    rcases hpc with h | ⟨g, h⟩ <;> rw [h] <;> rfl
  have hnd : ∀ res, (s.thr t).pc ≠ .done res := by
    intro res; rcases hpc with h | ⟨g, h⟩ <;> rw [h] <;> simp
  have hnc : ∀ r i ab, (s.thr t).pc ≠ .loadCommit r i ab := by
    intro r i ab; rcases hpc with h | ⟨g, h⟩ <;> rw [h] <;> simp
  have hcr : (s.thr t).op = .close →
      s.closed = true ∧ ∀ r', r' < s.nHeap → Entry.inMapOf s r' → r' = r ∨ r' ∈ (s.thr t).todo := by
    intro hop
    have hp := hD.thr t ht hop
    unfold CloseRun at hp
    rcases hpc with h | ⟨g, h⟩ <;> rw [h] at hp <;> exact hp
  thr_facts
  ent_facts r
  unfold setClosingWait at h
  simp only [markStarted_op, markStarted_todo] at h
  split at h
  · cases h; frameC s.nHeap, s.nInst
  · have hh := afterRemove_shape h
    with_after hh (frameC s.nHeap, s.nInst)
  · split at h
    · cases h
      exfalso; grind
    · cases h
      rename_i hncl hncd _ i hval
      have hact : (s.heap r).st = .active := by
        cases hst : (s.heap r).st <;> simp_all
      ins_facts i
      unfold markClosing startClose
      frameC r, i

theorem c_rmSetClosing (s s' : State) (t : Tid) (hint : Option Id) (r : Ref)
    (hA : InvA s) (hB : InvB s) (hC : InvC s) (hD : InvD s) (ht : t < s.nThr) (hpc : (s.thr t).pc = .rmSetClosing r)
    (h : stepCore s t (markStarted s (s.thr t)) hint = some s') : InvC s' := by
  have hTt := (hA.thr t ht).2
  rw [hpc] at hTt
  unfold stepCore at h
  rw [markStarted_pc, hpc] at h
  exact c_setClosingWait s s' t hint r hA hB hC hD ht (Or.inl hpc) hTt.1 hTt.2.1 hTt.2.2 h

theorem c_rmClosingWait (s s' : State) (t : Tid) (hint : Option Id) (r : Ref) (g : Nat)
    (hA : InvA s) (hB : InvB s) (hC : InvC s) (hD : InvD s) (ht : t < s.nThr) (hpc : (s.thr t).pc = .rmClosingWait r g)
    (h : stepCore s t (markStarted s (s.thr t)) hint = some s') : InvC s' := by
  have hTt := (hA.thr t ht).2
  rw [hpc] at hTt
  unfold stepCore at h
  rw [markStarted_pc, hpc] at h
  simp only at h
  split at h
  · exact c_setClosingWait s s' t hint r hA hB hC hD ht (Or.inr ⟨g, hpc⟩) hTt.1 hTt.2.1 hTt.2.2.1 h
  · cases h

theorem c_trySetClosing (s s' : State) (t : Tid) (hint : Option Id) (r : Ref)
    (hA : InvA s) (hB : InvB s) (hC : InvC s) (hD : InvD s) (ht : t < s.nThr) (hpc : (s.thr t).pc = .trySetClosing r)
    (h : stepCore s t (markStarted s (s.thr t)) hint = some s') : InvC s' := by
  open_step
  have hr : r < s.nHeap := hTt.1
  ent_facts r
  split at h
  · have hh := afterRemove_shape h
    with_after hh (frameC s.nHeap, s.nInst)
  · have hh := afterRemove_shape h
    with_after hh (frameC s.nHeap, s.nInst)
  · split at h
    · cases h
      exfalso; grind
    · cases h
      rename_i hncl hncd _ i hval
      have hact : (s.heap r).st = .active := by
        cases hst : (s.heap r).st <;> simp_all
      ins_facts i
      unfold markClosing startClose
      frameC r, i

theorem c_gcCollect (s s' : State) (t : Tid) (hint : Option Id) 
    (hA : InvA s) (hB : InvB s) (hC : InvC s) (hD : InvD s) (ht : t < s.nThr) (hpc : (s.thr t).pc = .gcCollect)
    (h : stepCore s t (markStarted s (s.thr t)) hint = some s') : InvC s' := by
  open_step
  split at h
  · cases h; frameC s.nHeap, s.nInst
  · have hh := nextTodo_shape false none h
    have hmr : ∀ r, r ∈ (mapRefs s).filter (fun r => (s.heap r).st == .active) →
        r < s.nHeap ∧ (s.heap r).st = .active := by
      intro r hr; simp [mem_mapRefs] at hr; exact ⟨hr.1.1, hr.2⟩
    with_after hh (frameC s.nHeap, s.nInst)

theorem c_closeCollect_core (s s' : State) (t : Tid) (hint : Option Id) (th0 : Thread)
    (hA : InvA s) (hB : InvB s) (hC : InvC s) (hD : InvD s) (ht : t < s.nThr) (hpc : (s.thr t).pc = .closeCollect) (hop0 : th0.op = (s.thr t).op)
    (hsta0 : th0.stale = (markStarted s (s.thr t)).stale) (hstd0 : th0.started = true)
    (hcl0 : s.closed = false)
    (htd : ∀ r, r ∈ th0.todo ↔ r ∈ mapRefs s)
    (h : nextTodo { s with closed := true } t th0 hint = some s') : InvC s' := by
  have hM := hA.map_ok
  have hTt := (hA.thr t ht).2
  rw [hpc] at hTt
  simp only at hTt
  have hcl : (s.thr t).pc.closerOf = none := by rw [hpc]; rfl
  have hld : (s.thr t).pc.loaderOf = none := by rw [hpc]; rfl
  have hhold : (s.thr t).pc.holds = none := by rw [hpc]; rfl
  have hrm : (s.thr t).pc.rmRef = none := by rw [hpc]; rfl
  thr_facts
  have hmr : ∀ r, r ∈ th0.todo ↔ (r < s.nHeap ∧ s.map (s.heap r).id = some r) := by
    intro r; rw [htd r]; exact mem_mapRefs
  have hh := nextTodo_shape false none h
  with_after hh (frameC s.nHeap, s.nInst)

theorem c_closeCollect (s s' : State) (t : Tid) (hint : Option Id)
    (hA : InvA s) (hB : InvB s) (hC : InvC s) (hD : InvD s) (ht : t < s.nThr) (hpc : (s.thr t).pc = .closeCollect)
    (h : stepCore s t (markStarted s (s.thr t)) hint = some s') : InvC s' := by
  open_step
  split at h
  · cases h; frameC s.nHeap, s.nInst
  · rename_i hncl
    let heap' : Ref → Entry := fun r =>
      if (mapRefs s).contains r && (s.heap r).cancelSet then { s.heap r with cancelled := true } else s.heap r
    have hce : ∀ r, CoreEq (heap' r) (s.heap r) := by
      intro r; simp only [heap']; split <;> constructor <;> rfl
    have hmrefs : ∀ r, r ∈ mapRefs s ↔ r ∈ mapRefs { s with heap := heap' } := by
      intro r; simp only [mem_mapRefs, (hce r).id]
    exact c_closeCollect_core { s with heap := heap' } s' t hint
      { op := (s.thr t).op, pc := .closeCollect, todo := mapRefs s, retries := (markStarted s (s.thr t)).retries,
        started := (markStarted s (s.thr t)).started, stale := (markStarted s (s.thr t)).stale }
      (invA_heap_congr hA hce) (invB_heap_congr hB hce) (invC_heap_congr hC hce) (invD_heap_congr hD hce)
      ht hpc rfl rfl (markStarted_started _ _) (by simpa using hncl) (fun r => hmrefs r) h

set_option hygiene false in
local macro "open_env" : tactic => `(tactic|
  (have hTd := (hA.thr t ht).1
   have hM := hA.map_ok
   have hTt := (hA.thr t ht).2
   have hcl0 := congrArg Pc.closerOf hpc
   have hld0 := congrArg Pc.loaderOf hpc
   have hhold0 := congrArg Pc.holds hpc
   have hrm0 := congrArg Pc.rmRef hpc
   generalize hrm : (s.thr t).pc.rmRef = rm at hrm0
   simp only [Pc.rmRef] at hrm0
   subst hrm0
   generalize hcl : (s.thr t).pc.closerOf = cl at hcl0
   generalize hld : (s.thr t).pc.loaderOf = ld at hld0
   generalize hhold : (s.thr t).pc.holds = hd at hhold0
   simp only [Pc.closerOf, Pc.loaderOf, Pc.holds] at hcl0 hld0 hhold0
   subst hcl0 hld0 hhold0
   thr_facts
   have hstd : (s.thr t).started = true := by
     rcases hc5 with h | h
     · exact h
     · exfalso; rw [hpc] at h; cases hop : (s.thr t).op <;> rw [hop] at h <;> simp [firstPc] at h
   have hcr := hD.thr t ht
   unfold CloseRun at hcr
   rw [hpc] at hcr
   simp only at hcr
   rw [hpc] at hTt
   simp only at hTt
   unfold envStep at h
   simp only [ht, if_true, hpc] at h))

theorem c_env_load (s s' : State) (t : Tid) (v : Verdict) (hint : Option Id) (r : Ref) (i : Inst)
    (hA : InvA s) (hB : InvB s) (hC : InvC s) (hD : InvD s) (ht : t < s.nThr) (hpc : (s.thr t).pc = .inLoad r i)
    (h : envStep s t v hint = some s') : InvC s' := by
  open_env
  have hr : r < s.nHeap := hTt.1
  ent_facts r
  have hpi := hB2 i hTt.2.2.2.1
  obtain ⟨hJ1, hJ2, hJ3⟩ := hB.ins i hpi.1
  simp only [alive_iff] at hJ1
  cases v <;> simp only at h
  · cases h; frameC r, i
  · cases h; frameC r, i
  all_goals cases h

set_option hygiene false in
local macro "closer_pre" : tactic => `(tactic|
  (have hTd := (hA.thr t ht).1
   have hM := hA.map_ok
   have hTt : r < s.nHeap ∧ (s.heap r).closer = some t ∧ (s.heap r).st = .closing ∧ (s.heap r).value = some i := by
     have := (hA.thr t ht).2
     rcases hpc with h | h <;> rw [h] at this <;> exact this
   have hcl : (s.thr t).pc.closerOf = some r := by rcases hpc with h | h <;> rw [h] <;> rfl
   have hld : (s.thr t).pc.loaderOf = none := by rcases hpc with h | h <;> rw [h] <;> rfl
   have hhold : (s.thr t).pc.holds = none := by rcases hpc with h | h <;> rw [h] <;> rfl
   have hrm : (s.thr t).pc.rmRef = some r ∨ (s.thr t).pc = .inTry r i := by
     rcases hpc with h | h
     · left; rw [h]; rfl
     · right; exact h
   have hnd : ∀ res, (s.thr t).pc ≠ .done res := by
     intro res; rcases hpc with h | h <;> rw [h] <;> simp
   have hnc : ∀ r i ab, (s.thr t).pc ≠ .loadCommit r i ab := by
     intro r i ab; rcases hpc with h | h <;> rw [h] <;> simp
   have hcr : (s.thr t).op = .close → (s.thr t).pc = .inClose r i ∧
       s.closed = true ∧ ∀ r', r' < s.nHeap → Entry.inMapOf s r' → r' = r ∨ r' ∈ (s.thr t).todo := by
     intro hop
     have hp := hD.thr t ht hop
     unfold CloseRun at hp
     rcases hpc with h | h
     · rw [h] at hp; exact ⟨h, hp⟩
     · rw [h] at hp; exact hp.elim
   thr_facts
   have hstd : (s.thr t).started = true := by
     rcases hc5 with h | h
     · exact h
     · exfalso; rcases hpc with h2 | h2 <;> rw [h2] at h <;> cases hop : (s.thr t).op <;> rw [hop] at h <;> simp [firstPc] at h
   have hr : r < s.nHeap := hTt.1
   ent_facts r
   have hval := hTt.2.2.2
   ins_facts i))

theorem c_closed_core (s s' : State) (t : Tid) (hint : Option Id) (r : Ref) (i : Inst)
    (ok : Bool) (err : Option Err)
    (hA : InvA s) (hB : InvB s) (hC : InvC s) (hD : InvD s) (ht : t < s.nThr) (hpc : (s.thr t).pc = .inClose r i ∨ (s.thr t).pc = .inTry r i)
    (h : afterRemove (closeAndDelete (s.setI i { s.inst i with st := .closed, closes := (s.inst i).closes + 1 }) r (s.heap r))
      t (s.thr t) ok err hint = some s') : InvC s' := by
  closer_pre
  have hh := afterRemove_shape h
  unfold closeAndDelete at hh
  with_after hh (frameC r, i)

theorem c_busy_core (s s' : State) (t : Tid) (hint : Option Id) (r : Ref) (i : Inst)
    (ok : Bool) (err : Option Err)
    (hA : InvA s) (hB : InvB s) (hC : InvC s) (hD : InvD s) (ht : t < s.nThr) (hpt : (s.thr t).pc = .inTry r i)
    (h : afterRemove ((s.setI i { s.inst i with st := if (s.inst i).st = .closing then .live else (s.inst i).st }).setE r
        { s.heap r with st := .active, chOpen := false, closer := none })
      t (s.thr t) ok err hint = some s') : InvC s' := by
  have hpc : (s.thr t).pc = .inClose r i ∨ (s.thr t).pc = .inTry r i := Or.inr hpt
  closer_pre
  have hnotclose : (s.thr t).op ≠ .close := by
    intro hop; have := (hcr hop).1; rw [hpt] at this; cases this
  have hh := afterRemove_shape h
  with_after hh (frameC r, i)

theorem c_env_close (s s' : State) (t : Tid) (v : Verdict) (hint : Option Id) (r : Ref) (i : Inst)
    (hA : InvA s) (hB : InvB s) (hC : InvC s) (hD : InvD s) (ht : t < s.nThr) (hpc : (s.thr t).pc = .inClose r i)
    (h : envStep s t v hint = some s') : InvC s' := by
  have hTt := (hA.thr t ht).2
  rw [hpc] at hTt
  simp only at hTt
  have hop : (s.heap r).chOpen = true := ((hA.ent r hTt.1).closing_open).1 hTt.2.2.1
  unfold envStep at h
  simp only [ht, if_true, hpc] at h
  cases v <;> simp only [hop, Bool.not_true, Bool.false_eq_true, if_false] at h
  case closeRet => exact c_closed_core s s' t hint r i _ _ hA hB hC hD ht (Or.inl hpc) h
  all_goals cases h

theorem c_env_try (s s' : State) (t : Tid) (v : Verdict) (hint : Option Id) (r : Ref) (i : Inst)
    (hA : InvA s) (hB : InvB s) (hC : InvC s) (hD : InvD s) (ht : t < s.nThr) (hpc : (s.thr t).pc = .inTry r i)
    (h : envStep s t v hint = some s') : InvC s' := by
  have hTt := (hA.thr t ht).2
  rw [hpc] at hTt
  simp only at hTt
  have hop : (s.heap r).chOpen = true := ((hA.ent r hTt.1).closing_open).1 hTt.2.2.1
  unfold envStep at h
  simp only [ht, if_true, hpc] at h
  cases v <;> simp only [hop, Bool.not_true, Bool.false_eq_true, if_false, if_true] at h
  case tryTrue => exact c_closed_core s s' t hint r i _ _ hA hB hC hD ht (Or.inr hpc) h
  case tryErrTrue => exact c_closed_core s s' t hint r i _ _ hA hB hC hD ht (Or.inr hpc) h
  case tryFalse => exact c_busy_core s s' t hint r i _ _ hA hB hC hD ht hpc h
  case tryErrFalse => exact c_busy_core s s' t hint r i _ _ hA hB hC hD ht hpc h
  all_goals cases h

theorem c_spawn (s : State) (op : Op) (hA : InvA s) (hB : InvB s) (hC : InvC s) (hD : InvD s) :
    InvC (spawn s op) := by
  unfold spawn
  constructor
  intro t ht
  by_cases e : t = s.nThr
  · subst e
    simp only [upd, if_true]
    constructor <;> intros <;> (cases op <;> simp_all [firstPc, Pc.holds])
  · have ht' : t < s.nThr := by
      have : t < s.nThr + 1 := ht
      omega
    simp only [upd, e, if_false]
    have b := hC.thr t ht'
    exact ⟨b.stale_closed, b.held_fresh, b.ret_val, b.ret_objs, b.started_first⟩


/-- every internal step preserves the layer -/
theorem invc_step {s s' : State} {t : Tid} {hint : Option Id}
    (hA : InvA s) (hB : InvB s) (hC : InvC s) (hD : InvD s) (h : step s t hint = some s') : InvC s' := by
  unfold step at h
  split at h
  · rename_i ht
    simp only at h
    cases hpc : (s.thr t).pc
    case getLookup => exact c_getLookup s s' t hint hA hB hC hD ht hpc h
    case getWaitClose r l => exact c_getWaitClose s s' t hint r l hA hB hC hD ht hpc h
    case waitCloseWait r g => exact c_waitCloseWait s s' t hint r g hA hB hC hD ht hpc h
    case loadBegin r => exact c_loadBegin s s' t hint r hA hB hC hD ht hpc h
    case loadCommit r v ab => exact c_loadCommit s s' t hint r v ab hA hB hC hD ht hpc h
    case loadSignal r => exact c_loadSignal s s' t hint r hA hB hC hD ht hpc h
    case getWaitLoad r => exact c_getWaitLoad s s' t hint r hA hB hC hD ht hpc h
    case pickLookup => exact c_pickLookup s s' t hint hA hB hC hD ht hpc h
    case pickWaitLoad r => exact c_pickWaitLoad s s' t hint r hA hB hC hD ht hpc h
    case addStart => exact c_addStart s s' t hint hA hB hC hD ht hpc h
    case removeLookup => exact c_removeLookup s s' t hint hA hB hC hD ht hpc h
    case removeSameLookup => exact c_removeSameLookup s s' t hint hA hB hC hD ht hpc h
    case tryRemoveLookup => exact c_tryRemoveLookup s s' t hint hA hB hC hD ht hpc h
    case rmWaitLoad r => exact c_rmWaitLoad s s' t hint r hA hB hC hD ht hpc h
    case rmSetClosing r => exact c_rmSetClosing s s' t hint r hA hB hC hD ht hpc h
    case rmClosingWait r g => exact c_rmClosingWait s s' t hint r g hA hB hC hD ht hpc h
    case trySetClosing r => exact c_trySetClosing s s' t hint r hA hB hC hD ht hpc h
    case gcCollect => exact c_gcCollect s s' t hint hA hB hC hD ht hpc h
    case closeCollect => exact c_closeCollect s s' t hint hA hB hC hD ht hpc h
    case doLocked => exact c_doLocked s s' t hint hA hB hC hD ht hpc h
    case forEach => exact c_forEach s s' t hint hA hB hC hD ht hpc h
    all_goals (unfold stepCore at h; rw [markStarted_pc, hpc] at h; cases h)
  · cases h

theorem invc_env {s s' : State} {t : Tid} {v : Verdict} {hint : Option Id}
    (hA : InvA s) (hB : InvB s) (hC : InvC s) (hD : InvD s)
    (h : envStep s t v hint = some s') : InvC s' := by
  by_cases ht : t < s.nThr
  · cases hpc : (s.thr t).pc
    case inLoad r i => exact c_env_load s s' t v hint r i hA hB hC hD ht hpc h
    case inClose r i => exact c_env_close s s' t v hint r i hA hB hC hD ht hpc h
    case inTry r i => exact c_env_try s s' t v hint r i hA hB hC hD ht hpc h
    all_goals (unfold envStep at h; simp only [ht, if_true, hpc] at h; cases h)
  · unfold envStep at h; simp only [ht, if_false] at h; cases h

theorem invc_next {s s' : State} {l : Label} (hI : Inv s) (h : next s l = some s') : InvC s' := by
  cases l with
  | spawn op => simp only [next] at h; cases h; exact c_spawn s op hI.a hI.b hI.c hI.d
  | step t hint => exact invc_step hI.a hI.b hI.c hI.d h
  | env t v hint => exact invc_env hI.a hI.b hI.c hI.d h

end AnySync.OCache
