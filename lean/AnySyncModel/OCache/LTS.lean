/-
Labelled transition system of `app/ocache` (`ocache.go`, `entry.go`) — property C16.

One atomic step of the model = one critical section of the Go code (code run under `c.mu` and/or
`e.mx`, or one channel operation), i.e. the code between two `verifYield`/`verifWait` hooks or
harness-owned blocking points (`LoadFunc`, `Object.Close`, `Object.TryClose`):

* program counters (`Pc`) are named after the hook the goroutine is parked at;
* `Label.step t hint` lets thread `t` run from its park to the next one; `hint` resolves the only
  internal nondeterminism (Go map iteration order in `GC`/`Close`: which entry is taken next);
* `Label.env t v hint` is an environment step: the `LoadFunc` call of `t` returns (ok / error), the
  `Close` call returns, the `TryClose` call answers; the thread then runs to its next park. The
  code after the return up to the next park is a critical section that touches only the entry the
  thread owns, so merging it with the environment step loses no interleaving;
* a Go panic (nil `value` dereference, double close of a channel) is the explicit sink
  `panicked := true`, thread result `Res.panic`.

State is kept as total functions with allocation counters (heap of entries, instance table, thread
table); `upd` is function update. Ghost fields (`pending`, `loader`, `closer`, `InstRec.ent`,
`InstRec.closes`, `InstRec.badClose`, `Thread.stale`, `State.closeDone`) record history needed to
state the property; they never influence control flow.

The model describes the code WITH the three `fix:` patches of repo_patches/ocache applied.
-/
namespace AnySync.OCache

abbrev Id := Nat
abbrev Ref := Nat
abbrev Inst := Nat
abbrev Tid := Nat

/-- function update -/
def upd {β : Type} (f : Nat → β) (a : Nat) (b : β) : Nat → β := fun x => if x = a then b else f x

inductive EState where
  | loading | active | closing | closed
deriving DecidableEq, Repr, Hashable, Inhabited

structure Entry where
  id        : Id := 0
  st        : EState := .loading
  /-- the `load` channel is closed -/
  loadDone  : Bool := false
  value     : Option Inst := none
  loadErr   : Bool := false
  aborted   : Bool := false
  /-- number of `close` channels made so far; the current one is number `gen` -/
  gen       : Nat := 0
  /-- the current `close` channel exists and is open -/
  chOpen    : Bool := false
  cancelSet : Bool := false
  cancelled : Bool := false
  /-- ghost: instance being produced by the running `LoadFunc` call -/
  pending   : Option Inst := none
  /-- ghost: thread that created the placeholder and runs the load -/
  loader    : Option Tid := none
  /-- ghost: thread that moved the entry to `closing` -/
  closer    : Option Tid := none
deriving Hashable, Inhabited, Repr

inductive IStatus where
  | loading | live | closing | closed | failed
deriving DecidableEq, Repr, Hashable, Inhabited

structure InstRec where
  id       : Id := 0
  st       : IStatus := .failed
  /-- ghost: entry the instance was created for -/
  ent      : Ref := 0
  /-- ghost: number of completed closes (`Close` returned / `TryClose` answered true) -/
  closes   : Nat := 0
  /-- ghost: a `Close`/`TryClose` call started while the instance was not live -/
  badClose : Bool := false
deriving Hashable, Inhabited, Repr

inductive Err where
  | closed | exists | notExists | load | tryerr
deriving DecidableEq, Repr, Hashable

inductive Res where
  | val (i : Inst) | nilVal | err (e : Err)
  | okErr (ok : Bool) (e : Option Err)
  | errOnly (e : Option Err)
  | unit
  | locked (e : Option Err) (called : Bool)
  | objs (l : List Inst)
  | panic
deriving DecidableEq, Repr, Hashable

inductive Op where
  | get (id : Id) | pick (id : Id) | add (id : Id) | remove (id : Id)
  | removeSame (id : Id) (target : Option Inst) | tryRemove (id : Id)
  | gc | close | doLocked (id : Id) | forEach
deriving DecidableEq, Repr, Hashable, Inhabited

def Op.id : Op → Id
  | .get i | .pick i | .add i | .remove i | .removeSame i _ | .tryRemove i | .doLocked i => i
  | _ => 0

inductive Pc where
  | getLookup
  | getWaitClose (r : Ref) (load : Bool)
  | waitCloseWait (r : Ref) (g : Nat)
  | loadBegin (r : Ref)
  | inLoad (r : Ref) (i : Inst)
  | loadCommit (r : Ref) (v : Option Inst) (ab : Bool)
  | loadSignal (r : Ref)
  | getWaitLoad (r : Ref)
  | pickLookup
  | pickWaitLoad (r : Ref)
  | addStart | removeLookup | removeSameLookup | tryRemoveLookup
  | rmWaitLoad (r : Ref)
  | rmSetClosing (r : Ref)
  | rmClosingWait (r : Ref) (g : Nat)
  | inClose (r : Ref) (i : Inst)
  | trySetClosing (r : Ref)
  | inTry (r : Ref) (i : Inst)
  | gcCollect | closeCollect | doLocked | forEach
  | done (res : Res)
deriving DecidableEq, Repr, Hashable, Inhabited

structure Thread where
  op      : Op := .gc
  pc      : Pc := .done .unit
  /-- `GC`/`Close`: entries still to be processed (`toClose`) -/
  todo    : List Ref := []
  retries : Nat := 0
  started : Bool := false
  /-- ghost: instances whose removal had completed when the thread took its first step -/
  stale   : List Inst := []
deriving Hashable, Inhabited, Repr

structure State where
  closed    : Bool := false
  map       : Id → Option Ref := fun _ => none
  heap      : Ref → Entry := fun _ => {}
  nHeap     : Nat := 0
  inst      : Inst → InstRec := fun _ => {}
  nInst     : Nat := 0
  thr       : Tid → Thread := fun _ => {}
  nThr      : Nat := 0
  panicked  : Bool := false
  /-- ghost: `Close()` has returned nil -/
  closeDone : Bool := false

def init : State := {}

inductive Verdict where
  | loadOk | loadErr | closeRet | tryTrue | tryFalse | tryErrTrue | tryErrFalse
deriving DecidableEq, Repr

inductive Label where
  | spawn (op : Op)
  | step (t : Tid) (hint : Option Id)
  | env (t : Tid) (v : Verdict) (hint : Option Id)
deriving Repr

/-! ### small state updaters -/

def State.setThr (s : State) (t : Tid) (th : Thread) : State := { s with thr := upd s.thr t th }
def State.setE (s : State) (r : Ref) (e : Entry) : State := { s with heap := upd s.heap r e }
def State.setI (s : State) (i : Inst) (x : InstRec) : State := { s with inst := upd s.inst i x }
def State.goto (s : State) (t : Tid) (th : Thread) (pc : Pc) : State := s.setThr t { th with pc := pc }
def State.finish (s : State) (t : Tid) (th : Thread) (r : Res) : State := s.goto t th (.done r)
def State.panic (s : State) (t : Tid) (th : Thread) : State :=
  { (s.finish t th .panic) with panicked := true }

def refs (s : State) : List Ref := List.range s.nHeap
/-- entries currently in the map -/
def inMap (s : State) (r : Ref) : Bool := s.map (s.heap r).id == some r
def mapRefs (s : State) : List Ref := (refs s).filter (inMap s)

def closedInsts (s : State) : List Inst := (List.range s.nInst).filter (fun i => (s.inst i).st == .closed)

/-- is `close` channel number `g` of `e` closed? -/
def chanClosed (e : Entry) (g : Nat) : Bool := g < e.gen || (g == e.gen && !e.chOpen)

def Entry.isClosing (e : Entry) : Bool := e.st == .closing || e.st == .closed

/-! ### continuations -/

/-- `GC`/`Close`: take the next entry of `todo` (the one with id `hint`) or return. -/
def nextTodo (s : State) (t : Tid) (th : Thread) (hint : Option Id) : Option State :=
  match th.todo with
  | [] =>
    match th.op with
    | .close => some { (s.finish t th (.errOnly none)) with closeDone := true }
    | _ => some (s.finish t th .unit)
  | _ =>
    match hint with
    | none => none
    | some id =>
      match th.todo.find? (fun r => (s.heap r).id == id) with
      | none => none
      | some r =>
        let th := { th with todo := th.todo.erase r }
        match th.op with
        | .close => some (s.goto t th (.rmWaitLoad r))
        | _ => some (s.goto t th (.trySetClosing r))

/-- `removeCtx` / one `TryClose` round returned `(ok, err)` -/
def afterRemove (s : State) (t : Tid) (th : Thread) (ok : Bool) (e : Option Err) (hint : Option Id) :
    Option State :=
  match th.op with
  | .close | .gc => nextTodo s t th hint
  | _ => some (s.finish t th (.okErr ok e))

/-- `Get` after the load channel is known closed: `(value, err) = (e.value, e.loadErr)` + retry rule -/
def getReturn (s : State) (t : Tid) (th : Thread) (e : Entry) : State :=
  if e.loadErr then
    if e.aborted && th.retries < 3 then s.goto t { th with retries := th.retries + 1 } .getLookup
    else s.finish t th (.err .load)
  else match e.value with
    | some i => s.finish t th (.val i)
    | none => s.finish t th .nilVal

/-- the locked part of `setClosing` for an entry that is not `closing`: returns the new entry -/
def markClosing (e : Entry) (t : Tid) : Entry :=
  { e with st := .closing, gen := e.gen + 1, chOpen := true, closer := some t }

/-- a `Close`/`TryClose` call starts on instance `i` -/
def startClose (x : InstRec) : InstRec :=
  if x.st = .live then { x with st := .closing } else { x with badClose := true }

/-- `setClosed` + `delete(c.data, e.id)` (`closeAndDelete`) -/
def closeAndDelete (s : State) (r : Ref) (e : Entry) : State :=
  { (s.setE r { e with st := .closed, chOpen := false, closer := none }) with map := upd s.map e.id none }

/-- `setClosing(ctx, wait=true)` (one locked round of its loop) followed by `value.Close()` entry -/
def setClosingWait (s : State) (t : Tid) (th : Thread) (r : Ref) (hint : Option Id) : Option State :=
  let e := s.heap r
  match e.st with
  | .closing => some (s.goto t th (.rmClosingWait r e.gen))
  | .closed => afterRemove s t th false none hint
  | _ =>
    match e.value with
    | none => some ((s.panic t th).setE r (markClosing e t))
    | some i =>
      some (((s.goto t th (.inClose r i)).setE r (markClosing e t)).setI i (startClose (s.inst i)))

/-! ### internal steps -/

def stepCore (s : State) (t : Tid) (th : Thread) (hint : Option Id) : Option State :=
  match th.pc with
  | .getLookup =>
    if s.closed then some (s.finish t th (.err .closed)) else
    match s.map th.op.id with
    | some r => some (s.goto t th (.getWaitClose r false))
    | none =>
      let r := s.nHeap
      let e : Entry := { id := th.op.id, st := .loading, loader := some t }
      some { (s.goto t th (.getWaitClose r true)) with
        heap := upd s.heap r e, nHeap := r + 1, map := upd s.map th.op.id (some r) }
  | .getWaitClose r load =>
    let e := s.heap r
    match e.st with
    | .closing => some (s.goto t th (.waitCloseWait r e.gen))
    | .closed => some (s.goto t th .getLookup)
    | _ => if load then some (s.goto t th (.loadBegin r)) else some (s.goto t th (.getWaitLoad r))
  | .waitCloseWait r g =>
    if chanClosed (s.heap r) g then some (s.goto t th .getLookup) else none
  | .loadBegin r =>
    let e := s.heap r
    let i := s.nInst
    some { ((s.goto t th (.inLoad r i)).setE r { e with cancelSet := true, pending := some i }) with
      inst := upd s.inst i { id := e.id, st := .loading, ent := r }, nInst := i + 1 }
  | .loadCommit r v ab =>
    let e := s.heap r
    match v with
    | none =>
      some { ((s.goto t th (.loadSignal r)).setE r { e with loadErr := true, aborted := ab, pending := none }) with
        map := upd s.map e.id none }
    | some i =>
      some ((s.goto t th (.loadSignal r)).setE r { e with value := some i, st := .active, pending := none })
  | .loadSignal r =>
    let e := { s.heap r with loadDone := true }
    some (getReturn (s.setE r e) t th e)
  | .getWaitLoad r =>
    let e := s.heap r
    if e.loadDone then some (getReturn s t th e) else none
  | .pickLookup =>
    match s.map th.op.id with
    | none => some (s.finish t th (.err .notExists))
    | some r =>
      if (s.heap r).isClosing then some (s.finish t th (.err .notExists))
      else some (s.goto t th (.pickWaitLoad r))
  | .pickWaitLoad r =>
    let e := s.heap r
    if e.loadDone then
      if e.loadErr then some (s.finish t th (.err .load)) else
      match e.value with
      | some i => some (s.finish t th (.val i))
      | none => some (s.finish t th .nilVal)
    else none
  | .addStart =>
    if s.closed then some (s.finish t th (.errOnly (some .closed))) else
    match s.map th.op.id with
    | some _ => some (s.finish t th (.errOnly (some .exists)))
    | none =>
      let r := s.nHeap
      let i := s.nInst
      let e : Entry := { id := th.op.id, st := .active, loadDone := true, value := some i }
      some { (s.finish t th (.errOnly none)) with
        heap := upd s.heap r e, nHeap := r + 1, map := upd s.map th.op.id (some r),
        inst := upd s.inst i { id := th.op.id, st := .live, ent := r }, nInst := i + 1 }
  | .removeLookup =>
    if s.closed then some (s.finish t th (.okErr false (some .closed))) else
    match s.map th.op.id with
    | none => some (s.finish t th (.okErr false (some .notExists)))
    | some r => some (s.goto t th (.rmWaitLoad r))
  | .removeSameLookup =>
    if s.closed then some (s.finish t th (.okErr false (some .closed))) else
    match s.map th.op.id, th.op with
    | some r, .removeSame _ target =>
      if (s.heap r).value = target then some (s.goto t th (.rmWaitLoad r))
      else some (s.finish t th (.okErr false (some .notExists)))
    | _, _ => some (s.finish t th (.okErr false (some .notExists)))
  | .tryRemoveLookup =>
    if s.closed then some (s.finish t th (.okErr false (some .closed))) else
    match s.map th.op.id with
    | none => some (s.finish t th (.okErr false (some .notExists)))
    | some r =>
      if (s.heap r).st = .active then some (s.goto t th (.trySetClosing r))
      else some (s.finish t th (.okErr false none))
  | .rmWaitLoad r =>
    let e := s.heap r
    if e.loadDone then
      if e.loadErr then afterRemove s t th false (some .load) hint
      else some (s.goto t th (.rmSetClosing r))
    else none
  | .rmSetClosing r => setClosingWait s t th r hint
  | .rmClosingWait r g =>
    if chanClosed (s.heap r) g then setClosingWait s t th r hint else none
  | .trySetClosing r =>
    let e := s.heap r
    match e.st with
    | .closing | .closed => afterRemove s t th false none hint
    | _ =>
      match e.value with
      | none => some ((s.panic t th).setE r (markClosing e t))
      | some i =>
        some (((s.goto t th (.inTry r i)).setE r (markClosing e t)).setI i (startClose (s.inst i)))
  | .gcCollect =>
    if s.closed then some (s.finish t th .unit) else
    nextTodo s t { th with todo := (mapRefs s).filter (fun r => (s.heap r).st == .active) } hint
  | .closeCollect =>
    if s.closed then some (s.finish t th (.errOnly (some .closed))) else
    let todo := mapRefs s
    let heap' : Ref → Entry := fun r =>
      let e := s.heap r
      if todo.contains r && e.cancelSet then { e with cancelled := true } else e
    nextTodo { s with closed := true, heap := heap' } t { th with todo := todo } hint
  | .doLocked =>
    if s.closed then some (s.finish t th (.locked (some .closed) false)) else
    match s.map th.op.id with
    | some _ => some (s.finish t th (.locked (some .exists) false))
    | none => some (s.finish t th (.locked none true))
  | .forEach =>
    let objs := (mapRefs s).filterMap (fun r =>
      let e := s.heap r
      if e.loadDone && !e.isClosing then e.value else none)
    some (s.finish t th (.objs objs))
  | .inLoad .. | .inClose .. | .inTry .. | .done _ => none

/-- the first step of a thread records which removals had completed before it started -/
def markStarted (s : State) (th : Thread) : Thread :=
  if th.started then th else { th with started := true, stale := closedInsts s }

def step (s : State) (t : Tid) (hint : Option Id) : Option State :=
  if t < s.nThr then
    let th := markStarted s (s.thr t)
    stepCore s t th hint
  else none

/-! ### environment steps -/

def envStep (s : State) (t : Tid) (v : Verdict) (hint : Option Id) : Option State :=
  if t < s.nThr then
    let th := s.thr t
    match th.pc, v with
    | .inLoad r i, .loadOk =>
      let e := s.heap r
      some ((s.goto t th (.loadCommit r (some i) e.cancelled)).setI i { s.inst i with st := .live })
    | .inLoad r i, .loadErr =>
      let e := s.heap r
      some (((s.goto t th (.loadCommit r none e.cancelled)).setE r { e with pending := none }).setI i
        { s.inst i with st := .failed })
    | .inClose r i, .closeRet =>
      let e := s.heap r
      let x := s.inst i
      let s1 := s.setI i { x with st := .closed, closes := x.closes + 1 }
      if !e.chOpen then some (s1.panic t th) else
      afterRemove (closeAndDelete s1 r e) t th true none hint
    | .inTry r i, v =>
      let e := s.heap r
      let x := s.inst i
      let (closedV, err) : Bool × Option Err := match v with
        | .tryTrue => (true, none) | .tryFalse => (false, none)
        | .tryErrTrue => (true, some .tryerr) | _ => (false, some .tryerr)
      match v with
      | .tryTrue | .tryFalse | .tryErrTrue | .tryErrFalse =>
        if !e.chOpen then some (s.panic t th) else
        if closedV then
          let s1 := s.setI i { x with st := .closed, closes := x.closes + 1 }
          afterRemove (closeAndDelete s1 r e) t th true err hint
        else
          let s1 := s.setI i { x with st := if x.st = .closing then .live else x.st }
          afterRemove (s1.setE r { e with st := .active, chOpen := false, closer := none }) t th false err hint
      | _ => none
    | _, _ => none
  else none

def firstPc : Op → Pc
  | .get _ => .getLookup | .pick _ => .pickLookup | .add _ => .addStart | .remove _ => .removeLookup
  | .removeSame .. => .removeSameLookup | .tryRemove _ => .tryRemoveLookup | .gc => .gcCollect
  | .close => .closeCollect | .doLocked _ => .doLocked | .forEach => .forEach

def spawn (s : State) (op : Op) : State :=
  { s with thr := upd s.thr s.nThr { op := op, pc := firstPc op }, nThr := s.nThr + 1 }

def next (s : State) : Label → Option State
  | .spawn op => some (spawn s op)
  | .step t hint => step s t hint
  | .env t v hint => envStep s t v hint

/-- states reachable from the empty cache under any schedule -/
inductive Reachable : State → Prop
  | init : Reachable init
  | next {s s' : State} (l : Label) : Reachable s → next s l = some s' → Reachable s'

/-- run a whole schedule -/
def run : State → List Label → Option State
  | s, [] => some s
  | s, l :: ls => match next s l with
    | some s' => run s' ls
    | none => none

/-! ### enabledness (what the scheduler may pick) -/

def threadEnabled (s : State) (t : Tid) : Bool :=
  let th := s.thr t
  match th.pc with
  | .done _ => false
  | .waitCloseWait r g | .rmClosingWait r g => chanClosed (s.heap r) g
  | .getWaitLoad r | .pickWaitLoad r | .rmWaitLoad r => (s.heap r).loadDone
  | _ => true

end AnySync.OCache
