import AnySyncModel.OCache.Frame
/-! shape lemmas: what the continuation helpers of the LTS (`nextTodo`, `afterRemove`, `markStarted`)
do to the state, in a form the preservation proofs can destructure -/
namespace AnySync.OCache

theorem markStarted_retries (s : State) (th : Thread) : (markStarted s th).retries = th.retries := by
  unfold markStarted; split <;> rfl

/-- relation between a thread record and its successor after `afterRemove` / `nextTodo` -/
structure After (th th' : Thread) (ok : Bool) (e : Option Err) : Prop where
  op : th'.op = th.op
  stale : th'.stale = th.stale
  started : th'.started = th.started
  todo_sub : ∀ r, r ∈ th'.todo → r ∈ th.todo
  pc : (th'.pc = .done (.okErr ok e) ∧ th.op ≠ .close ∧ th.op ≠ .gc ∧ th'.todo = th.todo) ∨
       (th'.pc = .done (.errOnly none) ∧ th.op = .close ∧ th.todo = []) ∨
       (th'.pc = .done .unit ∧ th.op ≠ .close ∧ th.todo = []) ∨
       (∃ r, r ∈ th.todo ∧ th'.pc = .rmWaitLoad r ∧ th.op = .close ∧ th'.todo = th.todo.erase r) ∨
       (∃ r, r ∈ th.todo ∧ th'.pc = .trySetClosing r ∧ th.op ≠ .close ∧ th'.todo = th.todo.erase r)

theorem mem_of_mem_erase' {r r0 : Ref} {l : List Ref} (h : r ∈ l.erase r0) : r ∈ l :=
  List.mem_of_mem_erase h

theorem nextTodo_shape {s : State} {t : Tid} {th : Thread} {hint : Option Id} {s' : State} (ok : Bool) (e : Option Err)
    (h : nextTodo s t th hint = some s') :
    ∃ th' cd, s' = { (s.setThr t th') with closeDone := cd } ∧ After th th' ok e ∧
      (cd = s.closeDone ∨ (cd = true ∧ th.op = .close ∧ th.todo = [] ∧ th'.pc = .done (.errOnly none))) := by
  unfold nextTodo at h
  split at h
  · rename_i htd
    split at h
    · rename_i hopc
      cases h
      refine ⟨{ th with pc := .done (.errOnly none) }, true, rfl, ⟨rfl, rfl, rfl, fun r hr => hr, ?_⟩, Or.inr ⟨rfl, hopc, htd, rfl⟩⟩
      exact Or.inr (Or.inl ⟨rfl, hopc, htd⟩)
    · rename_i hopc
      cases h
      refine ⟨{ th with pc := .done .unit }, s.closeDone, rfl, ⟨rfl, rfl, rfl, fun r hr => hr, ?_⟩, Or.inl rfl⟩
      exact Or.inr (Or.inr (Or.inl ⟨rfl, by intro hc; simp_all, htd⟩))
  · split at h
    · cases h
    · split at h
      · cases h
      · rename_i id r hfind
        have hmem : r ∈ th.todo := List.mem_of_find?_eq_some hfind
        simp only at h
        split at h
        · rename_i hopc
          cases h
          refine ⟨{ th with todo := th.todo.erase r, pc := .rmWaitLoad r }, s.closeDone, rfl,
            ⟨rfl, rfl, rfl, fun r' hr' => List.mem_of_mem_erase hr', ?_⟩, Or.inl rfl⟩
          exact Or.inr (Or.inr (Or.inr (Or.inl ⟨r, hmem, rfl, hopc, rfl⟩)))
        · rename_i hopc
          cases h
          refine ⟨{ th with todo := th.todo.erase r, pc := .trySetClosing r }, s.closeDone, rfl,
            ⟨rfl, rfl, rfl, fun r' hr' => List.mem_of_mem_erase hr', ?_⟩, Or.inl rfl⟩
          exact Or.inr (Or.inr (Or.inr (Or.inr ⟨r, hmem, rfl, by intro hc; simp_all, rfl⟩)))

theorem afterRemove_shape {s : State} {t : Tid} {th : Thread} {ok : Bool} {e : Option Err} {hint : Option Id}
    {s' : State} (h : afterRemove s t th ok e hint = some s') :
    ∃ th' cd, s' = { (s.setThr t th') with closeDone := cd } ∧ After th th' ok e ∧
      (cd = s.closeDone ∨ (cd = true ∧ th.op = .close ∧ th.todo = [] ∧ th'.pc = .done (.errOnly none))) := by
  unfold afterRemove at h
  split at h
  · rename_i hopc; exact nextTodo_shape ok e h
  · rename_i hopg; exact nextTodo_shape ok e h
  · rename_i hnc hng
    cases h
    refine ⟨{ th with pc := .done (.okErr ok e) }, s.closeDone, rfl, ⟨rfl, rfl, rfl, fun r hr => hr, ?_⟩, Or.inl rfl⟩
    exact Or.inl ⟨rfl, fun hc => hnc hc, fun hg => hng hg, rfl⟩

end AnySync.OCache
