import AnySyncModel.OCache.LTS
/-!
Specification vocabulary for C16 and the inductive invariant of the LTS, split in layers:

* `InvA` — control/entry consistency (enough for `no_panic`);
* `InvB` — entry ↔ instance ownership (one live instance per id, handed-out instances are loaded,
  no double close);
* `InvC` — staleness bookkeeping (a lookup started after a removal completed never returns the
  removed instance);
* `InvD` — progress of the `Close()` thread (nothing is open once `Close` has returned).
-/
namespace AnySync.OCache

/-- the entry a thread at this pc is loading -/
def Pc.loaderOf : Pc → Option Ref
  | .getWaitClose r true | .loadBegin r | .inLoad r _ | .loadCommit r _ _ | .loadSignal r => some r
  | _ => none

/-- the entry a thread at this pc holds in state `closing` -/
def Pc.closerOf : Pc → Option Ref
  | .inClose r _ | .inTry r _ => some r
  | _ => none

abbrev Entry.inMapOf (s : State) (r : Ref) : Prop := s.map (s.heap r).id = some r

/-- instance status: the load has returned successfully (or the object was added) -/
def IStatus.loaded : IStatus → Bool
  | .live | .closing | .closed => true
  | _ => false

/-- instance status: counts as a live instance of its id (load started / not yet closed) -/
def IStatus.alive : IStatus → Bool
  | .loading | .live | .closing => true
  | _ => false

/-! ### layer A -/

/-- facts about one entry, local to the entry (plus map membership) -/
structure EInvA (s : State) (r : Ref) : Prop where
  loading_iff : (s.heap r).st = .loading ↔ (s.heap r).value = none
  err_loading : (s.heap r).loadErr = true → (s.heap r).st = .loading ∧ ¬ Entry.inMapOf s r
  done_val : (s.heap r).loadDone = true → (s.heap r).loadErr = true ∨ (s.heap r).value ≠ none
  closing_open : (s.heap r).st = .closing ↔ (s.heap r).chOpen = true
  closing_closer : (s.heap r).st = .closing ↔ (s.heap r).closer ≠ none
  pending_loading : (s.heap r).pending ≠ none →
    (s.heap r).st = .loading ∧ (s.heap r).loadDone = false ∧ (s.heap r).loadErr = false
  live_inmap : (s.heap r).st = .active ∨ (s.heap r).st = .closing → Entry.inMapOf s r
  closed_notin : (s.heap r).st = .closed → ¬ Entry.inMapOf s r
  closer_thr : ∀ t, (s.heap r).closer = some t → t < s.nThr ∧ (s.thr t).pc.closerOf = some r
  loader_thr : (s.heap r).loadDone = false →
    ∃ t, (s.heap r).loader = some t ∧ t < s.nThr ∧ (s.thr t).pc.loaderOf = some r

/-- what a thread's program counter says about the entry it refers to -/
def TInvA (s : State) (t : Tid) (th : Thread) : Prop :=
  (∀ r ∈ th.todo, r < s.nHeap ∧ (th.op ≠ .close → (s.heap r).st ≠ .loading)) ∧
  match th.pc with
  | .getWaitClose r true | .loadBegin r =>
    r < s.nHeap ∧ (s.heap r).loader = some t ∧ (s.heap r).st = .loading ∧ (s.heap r).pending = none ∧
    (s.heap r).loadDone = false ∧ (s.heap r).loadErr = false ∧ Entry.inMapOf s r
  | .inLoad r i =>
    r < s.nHeap ∧ (s.heap r).loader = some t ∧ (s.heap r).st = .loading ∧ (s.heap r).pending = some i ∧
    (s.heap r).loadDone = false ∧ (s.heap r).loadErr = false ∧ Entry.inMapOf s r
  | .loadCommit r v _ =>
    r < s.nHeap ∧ (s.heap r).loader = some t ∧ (s.heap r).st = .loading ∧ (s.heap r).pending = v ∧
    (s.heap r).loadDone = false ∧ (s.heap r).loadErr = false ∧ Entry.inMapOf s r
  | .loadSignal r =>
    r < s.nHeap ∧ (s.heap r).loader = some t ∧ (s.heap r).pending = none ∧ (s.heap r).loadDone = false ∧
    ((s.heap r).loadErr = true ∨ (s.heap r).value ≠ none)
  | .getWaitClose r false | .getWaitLoad r | .pickWaitLoad r | .rmWaitLoad r => r < s.nHeap
  | .waitCloseWait r g => r < s.nHeap ∧ g ≤ (s.heap r).gen
  | .rmSetClosing r => r < s.nHeap ∧ (s.heap r).loadDone = true ∧ (s.heap r).loadErr = false
  | .rmClosingWait r g =>
    r < s.nHeap ∧ (s.heap r).loadDone = true ∧ (s.heap r).loadErr = false ∧ g ≤ (s.heap r).gen
  | .inClose r i | .inTry r i =>
    r < s.nHeap ∧ (s.heap r).closer = some t ∧ (s.heap r).st = .closing ∧ (s.heap r).value = some i
  | .trySetClosing r => r < s.nHeap ∧ (s.heap r).st ≠ .loading
  | .done res => res ≠ .panic
  | .closeCollect => th.op = .close
  | _ => True

structure InvA (s : State) : Prop where
  map_ok : ∀ id r, s.map id = some r → r < s.nHeap ∧ (s.heap r).id = id
  ent : ∀ r, r < s.nHeap → EInvA s r
  thr : ∀ t, t < s.nThr → TInvA s t (s.thr t)
  no_panic : s.panicked = false


/-! ### layer B: entries own instances -/

/-- the entry a lookup thread currently holds -/
def Pc.holds : Pc → Option Ref
  | .getWaitClose r _ | .waitCloseWait r _ | .loadBegin r | .inLoad r _ | .loadCommit r _ _ | .loadSignal r
  | .getWaitLoad r | .pickWaitLoad r => some r
  | _ => none


structure EInvB (s : State) (r : Ref) : Prop where
  val_inst : ∀ i, (s.heap r).value = some i →
    i < s.nInst ∧ (s.inst i).ent = r ∧ (s.inst i).id = (s.heap r).id ∧
    ((s.heap r).st = .active → (s.inst i).st = .live) ∧
    ((s.heap r).st = .closing → (s.inst i).st = .closing) ∧
    ((s.heap r).st = .closed → (s.inst i).st = .closed)
  pend_inst : ∀ i, (s.heap r).pending = some i →
    i < s.nInst ∧ (s.inst i).ent = r ∧ (s.inst i).id = (s.heap r).id ∧
    ((s.inst i).st = .loading ∨ (s.inst i).st = .live)
  val_pend : (s.heap r).value = none ∨ (s.heap r).pending = none

structure IInvB (s : State) (i : Inst) : Prop where
  owned : (s.inst i).st.alive = true →
    (s.inst i).ent < s.nHeap ∧ Entry.inMapOf s (s.inst i).ent ∧ (s.heap (s.inst i).ent).id = (s.inst i).id ∧
    ((s.heap (s.inst i).ent).value = some i ∨ (s.heap (s.inst i).ent).pending = some i)
  closes : (s.inst i).closes = if (s.inst i).st = .closed then 1 else 0
  no_bad : (s.inst i).badClose = false

/-- the entry a removing thread works on -/
def Pc.rmRef : Pc → Option Ref
  | .rmWaitLoad r | .rmSetClosing r | .rmClosingWait r _ | .inClose r _ => some r
  | _ => none

/-- what a thread's pc / result says about instances -/
structure TInvB (s : State) (th : Thread) : Prop where
  held_id : ∀ r, th.pc.holds = some r → (s.heap r).id = th.op.id
  ret_val : ∀ i, th.pc = .done (.val i) →
    i < s.nInst ∧ (s.inst i).st.loaded = true ∧ (s.inst i).id = th.op.id
  ret_objs : ∀ l i, th.pc = .done (.objs l) → i ∈ l → i < s.nInst ∧ (s.inst i).st.loaded = true
  commit_live : ∀ r i ab, th.pc = .loadCommit r (some i) ab → (s.inst i).st = .live
  same_target : ∀ id tgt r, th.op = .removeSame id (some tgt) → th.pc.rmRef = some r →
    (s.heap r).value = some tgt
  load_loading : ∀ r i, th.pc = .inLoad r i → (s.inst i).st = .loading
  remove_op : th.pc = .removeLookup → ∀ id tgt, th.op ≠ .removeSame id tgt

structure InvB (s : State) : Prop where
  ent : ∀ r, r < s.nHeap → EInvB s r
  ins : ∀ i, i < s.nInst → IInvB s i
  thr : ∀ t, t < s.nThr → TInvB s (s.thr t)

/-! ### layer C: staleness -/

structure TInvC (s : State) (th : Thread) : Prop where
  stale_closed : ∀ i, i ∈ th.stale → i < s.nInst ∧ (s.inst i).st = .closed
  held_fresh : ∀ r i, th.pc.holds = some r → (s.heap r).value = some i → i ∉ th.stale
  ret_val : ∀ i, th.pc = .done (.val i) → i ∉ th.stale
  ret_objs : ∀ l i, th.pc = .done (.objs l) → i ∈ l → i ∉ th.stale
  started_first : th.started = true ∨ th.pc = firstPc th.op

structure InvC (s : State) : Prop where
  thr : ∀ t, t < s.nThr → TInvC s (s.thr t)

/-! ### layer D: the thread that runs `Close()` -/

/-- where a thread whose operation is `Close()` can be, and what is then left in the map: only the
entry it is working on and the entries still on its `toClose` list -/
def CloseRun (s : State) (th : Thread) : Prop :=
  match th.pc with
  | .done (.errOnly none) => s.closed = true ∧ ∀ r, r < s.nHeap → ¬ Entry.inMapOf s r
  | .rmWaitLoad r | .rmSetClosing r | .rmClosingWait r _ | .inClose r _ =>
    s.closed = true ∧ ∀ r', r' < s.nHeap → Entry.inMapOf s r' → r' = r ∨ r' ∈ th.todo
  | .closeCollect | .done _ => True
  | _ => False

structure InvD (s : State) : Prop where
  thr : ∀ t, t < s.nThr → (s.thr t).op = .close → CloseRun s (s.thr t)
  close_done : s.closeDone = true → s.closed = true ∧ ∀ r, r < s.nHeap → ¬ Entry.inMapOf s r

/-- the whole invariant (evaluated clause by clause on every visited state by `Check.invFail`) -/
structure Inv (s : State) : Prop where
  a : InvA s
  b : InvB s
  c : InvC s
  d : InvD s

/-- the invariant is inductive: the hypothesis of the `_partial` theorems -/
def Inductive (P : State → Prop) : Prop :=
  P init ∧ ∀ s l s', P s → next s l = some s' → P s'

/-! ### the property, as statements about a state -/

/-- at most one live instance per id (an instance is live from the moment its load starts until its
close has returned) -/
def OneLive (s : State) : Prop :=
  ∀ i j, i < s.nInst → j < s.nInst → (s.inst i).st.alive = true → (s.inst j).st.alive = true →
    (s.inst i).id = (s.inst j).id → i = j

/-- every instance a lookup has returned had finished loading and belongs to the requested id -/
def HandedOutLoaded (s : State) : Prop :=
  ∀ t, t < s.nThr → ∀ i,
    ((s.thr t).pc = .done (.val i) → i < s.nInst ∧ (s.inst i).st.loaded = true ∧ (s.inst i).id = (s.thr t).op.id) ∧
    (∀ l, (s.thr t).pc = .done (.objs l) → i ∈ l → i < s.nInst ∧ (s.inst i).st.loaded = true)

/-- no instance is closed twice, and no Close/TryClose call ever starts on an instance that is not live -/
def NoDoubleClose (s : State) : Prop :=
  ∀ i, i < s.nInst → (s.inst i).closes ≤ 1 ∧ (s.inst i).badClose = false

/-- once `Close()` has returned nil nothing is live and the cache is empty -/
def NoneOpenAfterClose (s : State) : Prop :=
  s.closeDone = true → (∀ i, i < s.nInst → (s.inst i).st.alive = false) ∧ (∀ r, r < s.nHeap → ¬ Entry.inMapOf s r)

/-- a lookup never returns an instance whose removal had completed before the lookup's first step -/
def RemovedNotReturned (s : State) : Prop :=
  ∀ t, t < s.nThr → ∀ i,
    ((s.thr t).pc = .done (.val i) → i ∉ (s.thr t).stale) ∧
    (∀ l, (s.thr t).pc = .done (.objs l) → i ∈ l → i ∉ (s.thr t).stale)

/-- identity-checked removal: a `RemoveSame(id, v)` only ever closes `v` -/
def RemoveSameOnlyTarget (s : State) : Prop :=
  ∀ t, t < s.nThr → ∀ id tgt r i, (s.thr t).op = .removeSame id (some tgt) → (s.thr t).pc = .inClose r i → i = tgt

def NoPanic (s : State) : Prop :=
  s.panicked = false ∧ ∀ t, t < s.nThr → (s.thr t).pc ≠ .done .panic

/-- some thread has not returned -/
def Unfinished (s : State) : Prop := ∃ t, t < s.nThr ∧ ∀ r, (s.thr t).pc ≠ .done r

/-- some label is enabled (environment verdicts are always available) -/
def CanMove (s : State) : Prop :=
  ∃ t, t < s.nThr ∧ ((∃ h s', step s t h = some s') ∨ (∃ v h s', envStep s t v h = some s'))

def DeadlockFree (s : State) : Prop := Unfinished s → CanMove s

end AnySync.OCache
