import AnySyncModel.OCache.Inductive
import AnySyncModel.OCache.Lemmas
/-!
Caller-context expiry (round 3). `ctxCancel s t e` is the environment step "the context of the
operation of thread `t` is done while `t` is parked in front of a channel wait inside the cache
(`waitLoad`, `waitClose`, the wait of `setClosing`)": the select takes `ctx.Done()` and the operation
returns the context's error `e` WITHOUT touching the entry (that is what `entry.go` does: the
`ctx.Done()` branches only read `e.state`). The deadline of cache `Close()` (`closeTimeout`) is not
covered: when it fires `Close` returns although an entry is still held by another closer, which is
documented behaviour and outside `none_open_after_Close`.

`ctxCancel_preserves_inv`: the step preserves the whole invariant, so all parts of C16 (and deadlock
freedom: the remaining threads are unaffected) also hold for schedules in which callers give up.
-/
namespace AnySync.OCache

def ctxCancel (s : State) (t : Tid) (e : Err) : Option State :=
  if t < s.nThr then
    let th := s.thr t
    match th.op, th.pc with
    | .close, _ => none
    | _, .getWaitLoad _ | _, .waitCloseWait _ _ | _, .pickWaitLoad _ => some (s.finish t th (.err e))
    | _, .rmWaitLoad _ | _, .rmClosingWait _ _ => some (s.finish t th (.okErr false (some e)))
    | _, _ => none
  else none

attribute [local simp] upd State.setThr State.setE State.setI State.goto State.finish State.panic

/-- a thread-only change to a non-panic, non-`Close()`-success result from a pc that owns nothing -/
theorem inv_finish {s : State} {t : Tid} (hI : Inv s) (ht : t < s.nThr) (res : Res)
    (hres : res ≠ .panic) (hres2 : res ≠ .errOnly none)
    (hval : ∀ i, res ≠ .val i) (hobjs : ∀ l, res ≠ .objs l)
    (hl : (s.thr t).pc.loaderOf = none) (hc : (s.thr t).pc.closerOf = none)
    (hstd : (s.thr t).started = true) :
    Inv (s.finish t (s.thr t) res) := by
  have hTA : TInvA s t { (s.thr t) with pc := .done res } := ⟨(hI.a.thr t ht).1, hres⟩
  refine ⟨invA_thr_only hI.a _ hTA (by intro r; simp [hl, hc]), ?_, ?_, ?_⟩
  · apply invB_frame (t := t) s.nHeap s.nInst hI.a hI.b <;> (try simp)
    · intro r h; exact Or.inl h
    · intro i h; exact Or.inl h
    · intro t' h; simp [h]
    · constructor <;> simp [Pc.holds, Pc.rmRef]
      · intro i h; exact absurd h (hval i)
      · intro l i h; exact absurd h (hobjs l)
  · apply invC_frame (t := t) s.nHeap s.nInst hI.a hI.c <;> (try simp)
    · intro t' h; simp [h]
    · have c := hI.c.thr t ht
      constructor <;> simp [Pc.holds]
      · exact c.stale_closed
      · intro i h; exact absurd h (hval i)
      · intro l i h; exact absurd h (hobjs l)
      · exact Or.inl hstd
  · apply invD_frame (t := t) hI.d <;> (try simp)
    · intro t' h; simp [h]
    · intro _; unfold CloseRun; simp
      try (cases res <;> simp_all)
    · intro _ r hr hm; exact ⟨hr, hm⟩
    · intro h; exact Or.inl h

theorem ctxCancel_preserves_inv {s s' : State} {t : Tid} {e : Err} (hI : Inv s)
    (h : ctxCancel s t e = some s') : Inv s' := by
  unfold ctxCancel at h
  split at h
  · rename_i ht
    have hc5 := (hI.c.thr t ht).started_first
    have started : (∀ op, (s.thr t).pc ≠ firstPc op) → (s.thr t).started = true := by
      intro hne; rcases hc5 with h | h
      · exact h
      · exact absurd h (hne _)
    simp only at h
    split at h
    all_goals
      first
      | (simp at h; done)
      | (rename_i hpc hop
         cases h
         refine inv_finish hI ht _ (by simp) (by simp) (by simp) (by simp) (by rw [hpc]; rfl) (by rw [hpc]; rfl)
           (started ?_)
         intro op; rw [hpc]; cases op <;> simp [firstPc])
  · cases h

/-- states reachable when, in addition to the LTS labels, waiting callers may give up at any time -/
inductive ReachableC : State → Prop
  | init : ReachableC init
  | next {s s' : State} (l : Label) : ReachableC s → next s l = some s' → ReachableC s'
  | cancel {s s' : State} (t : Tid) (e : Err) : ReachableC s → ctxCancel s t e = some s' → ReachableC s'

theorem inv_reachableC {s : State} (h : ReachableC s) : Inv s := by
  induction h with
  | init => exact inv_init
  | next l _ hn ih => exact inv_next ih hn
  | cancel t e _ hc ih => exact ctxCancel_preserves_inv ih hc

end AnySync.OCache
