import AnySyncModel.OCache.StepA
import AnySyncModel.OCache.FrameB
/-! the invariant does not look at `cancelSet`, `cancelled`, `aborted`: rewriting those fields of any
number of entries (what `Close()` does to in-flight loads) preserves every layer -/
namespace AnySync.OCache

theorem invB_heap_congr {s : State} {heap' : Ref → Entry} (hI : InvB s)
    (hc : ∀ r, CoreEq (heap' r) (s.heap r)) : InvB { s with heap := heap' } := by
  have c1 := fun r => (hc r).id
  have c2 := fun r => (hc r).st
  have c4 := fun r => (hc r).value
  have c8 := fun r => (hc r).pending
  constructor
  · intro r hr
    have e := hI.ent r hr
    constructor <;> simp only [c1, c2, c4, c8]
    · exact e.val_inst
    · exact e.pend_inst
    · exact e.val_pend
  · intro i hi
    have e := hI.ins i hi
    constructor <;> simp only [Entry.inMapOf, c1, c2, c4, c8]
    · exact e.owned
    · exact e.closes
    · exact e.no_bad
  · intro t ht
    have e := hI.thr t ht
    constructor <;> simp only [c1, c4]
    · exact e.held_id
    · exact e.ret_val
    · exact e.ret_objs
    · exact e.commit_live
    · exact e.same_target
    · exact e.load_loading
    · exact e.remove_op

theorem invC_heap_congr {s : State} {heap' : Ref → Entry} (hI : InvC s)
    (hc : ∀ r, CoreEq (heap' r) (s.heap r)) : InvC { s with heap := heap' } := by
  have c4 := fun r => (hc r).value
  constructor
  intro t ht
  have e := hI.thr t ht
  constructor <;> simp only [c4]
  · exact e.stale_closed
  · exact e.held_fresh
  · exact e.ret_val
  · exact e.ret_objs
  · exact e.started_first

theorem invD_heap_congr {s : State} {heap' : Ref → Entry} (hI : InvD s)
    (hc : ∀ r, CoreEq (heap' r) (s.heap r)) : InvD { s with heap := heap' } := by
  have c1 := fun r => (hc r).id
  constructor
  · intro t ht hop
    have hp := hI.thr t ht hop
    unfold CloseRun at hp ⊢
    simp only [Entry.inMapOf, c1]
    exact hp
  · intro hcd
    have := hI.close_done hcd
    simp only [Entry.inMapOf, c1]
    exact this

end AnySync.OCache
