import AnySyncModel.OCache.Shape
/-! frame lemmas for layers B (entries own instances), C (staleness) and D (progress of `Close()`):
a step of thread `t` that rewrites at most one entry `r0` and at most one instance `i0` preserves the
layer provided the local obligations about `r0`, `i0` and `t` hold -/
namespace AnySync.OCache

theorem invB_frame {s s' : State} {t : Tid} (r0 : Ref) (i0 : Inst) (hA : InvA s) (hI : InvB s)
    (hnThr : s'.nThr = s.nThr)
    (hnHeap : s.nHeap ≤ s'.nHeap) (hnew : ∀ r, r < s'.nHeap → r < s.nHeap ∨ r = r0)
    (hnInst : s.nInst ≤ s'.nInst) (hnewI : ∀ i, i < s'.nInst → i < s.nInst ∨ i = i0)
    (hthr : ∀ t', t' ≠ t → s'.thr t' = s.thr t')
    (hheap : ∀ r, r ≠ r0 → s'.heap r = s.heap r)
    (hinst : ∀ i, i ≠ i0 → s'.inst i = s.inst i)
    (hmap : ∀ r, r ≠ r0 → r < s.nHeap → (Entry.inMapOf s' r ↔ Entry.inMapOf s r))
    (hid0 : r0 < s.nHeap → (s'.heap r0).id = (s.heap r0).id)
    (hrel : i0 < s.nInst → (s.inst i0).ent = r0 ∧ r0 < s.nHeap)
    (hEB0 : r0 < s'.nHeap → EInvB s' r0)
    (hIB0 : i0 < s'.nInst → IInvB s' i0)
    (hOwn : ∀ i, i < s.nInst → i ≠ i0 → (s.inst i).st.alive = true → (s.inst i).ent = r0 → r0 < s.nHeap →
      ((s.heap r0).value = some i ∨ (s.heap r0).pending = some i) → Entry.inMapOf s r0 →
      (Entry.inMapOf s' r0 ∧ ((s'.heap r0).value = some i ∨ (s'.heap r0).pending = some i)))
    (hLoaded : i0 < s.nInst → ((s.inst i0).st.loaded = true → (s'.inst i0).st.loaded = true) ∧
      (s'.inst i0).id = (s.inst i0).id)
    (hValKeep : r0 < s.nHeap → (s.heap r0).value ≠ none → (s'.heap r0).value = (s.heap r0).value)
    (hPendKeep : i0 < s.nInst → (s.heap r0).pending = some i0 →
      (s.heap r0).loader ≠ some t → (s'.inst i0).st = (s.inst i0).st)
    (hTB : TInvB s' (s'.thr t)) : InvB s' := by
  constructor
  · intro r hr
    by_cases e : r = r0
    · subst e; exact hEB0 hr
    · have hr' : r < s.nHeap := by rcases hnew r hr with h | h; exact h; exact absurd h e
      have b := hI.ent r hr'
      have hne : ∀ i, (s.inst i).ent = r → i < s.nInst → i ≠ i0 := by
        intro i he hi e2; subst e2; exact e (he.symm.trans (hrel hi).1)
      constructor
      · intro i hv; rw [hheap r e] at hv ⊢
        have v := b.val_inst i hv
        rw [hinst i (hne i v.2.1 v.1)]
        exact ⟨Nat.lt_of_lt_of_le v.1 hnInst, v.2⟩
      · intro i hv; rw [hheap r e] at hv ⊢
        have v := b.pend_inst i hv
        rw [hinst i (hne i v.2.1 v.1)]
        exact ⟨Nat.lt_of_lt_of_le v.1 hnInst, v.2⟩
      · rw [hheap r e]; exact b.val_pend
  · intro i hi
    by_cases e : i = i0
    · subst e; exact hIB0 hi
    · have hi' : i < s.nInst := by rcases hnewI i hi with h | h; exact h; exact absurd h e
      have b := hI.ins i hi'
      have hie := hinst i e
      refine ⟨?_, by rw [hie]; exact b.closes, by rw [hie]; exact b.no_bad⟩
      rw [hie]
      intro hal
      obtain ⟨o1, o2, o3, o4⟩ := b.owned hal
      by_cases er : (s.inst i).ent = r0
      · have hr0 : r0 < s.nHeap := er ▸ o1
        rw [er] at o2 o3 o4 ⊢
        have := hOwn i hi' e hal er hr0 o4 o2
        exact ⟨Nat.lt_of_lt_of_le hr0 hnHeap, this.1, by rw [hid0 hr0]; exact o3, this.2⟩
      · refine ⟨Nat.lt_of_lt_of_le o1 hnHeap, (hmap _ er o1).2 o2, ?_, ?_⟩
        · rw [hheap _ er]; exact o3
        · rw [hheap _ er]; exact o4
  · intro t' ht'
    by_cases e : t' = t
    · subst e; exact hTB
    · rw [hthr t' e]
      have ht0 : t' < s.nThr := hnThr ▸ ht'
      have b := hI.thr t' ht0
      have a := hA.thr t' ht0
      constructor
      · intro r hh
        by_cases er : r = r0
        · subst er
          have hr0 : r < s.nHeap := by
            have a2 := a.2
            cases hpc : (s.thr t').pc <;> rw [hpc] at hh a2 <;> simp [Pc.holds] at hh <;> subst hh
            case getWaitClose r' l => cases l <;> first | exact a2 | exact a2.1
            all_goals first | exact a2 | exact a2.1
          rw [hid0 hr0]; exact b.held_id r hh
        · rw [hheap r er]; exact b.held_id r hh
      · intro i hp
        have v := b.ret_val i hp
        refine ⟨Nat.lt_of_lt_of_le v.1 hnInst, ?_⟩
        by_cases ei : i = i0
        · subst ei; have l := hLoaded v.1; exact ⟨l.1 v.2.1, by rw [l.2]; exact v.2.2⟩
        · rw [hinst i ei]; exact v.2
      · intro l i hp hm
        have v := b.ret_objs l i hp hm
        refine ⟨Nat.lt_of_lt_of_le v.1 hnInst, ?_⟩
        by_cases ei : i = i0
        · subst ei; exact (hLoaded v.1).1 v.2
        · rw [hinst i ei]; exact v.2
      · intro r i ab hp
        have v := b.commit_live r i ab hp
        by_cases ei : i = i0
        · subst ei
          have a2 := a.2
          rw [hp] at a2
          simp only at a2
          have pi := (hI.ent r a2.1).pend_inst i a2.2.2.2.1
          have hr : r = r0 := by rw [← pi.2.1]; exact (hrel pi.1).1
          subst hr
          rw [hPendKeep pi.1 a2.2.2.2.1 (by rw [a2.2.1]; intro h; exact e (Option.some.inj h))]; exact v
        · rw [hinst i ei]; exact v
      · intro id tgt r hop hp
        have v := b.same_target id tgt r hop hp
        by_cases er : r = r0
        · subst er
          have hr0 : r < s.nHeap := by
            have a2 := a.2
            cases hpc : (s.thr t').pc <;> rw [hpc] at hp a2 <;> simp [Pc.rmRef] at hp <;> subst hp
            all_goals first | exact a2 | exact a2.1
          rw [hValKeep hr0 (by rw [v]; simp)]; exact v
        · rw [hheap r er]; exact v
      · intro r i hp
        have v := b.load_loading r i hp
        by_cases ei : i = i0
        · subst ei
          have a2 := a.2
          rw [hp] at a2
          simp only at a2
          have pi := (hI.ent r a2.1).pend_inst i a2.2.2.2.1
          have hr : r = r0 := by rw [← pi.2.1]; exact (hrel pi.1).1
          subst hr
          rw [hPendKeep pi.1 a2.2.2.2.1 (by rw [a2.2.1]; intro h; exact e (Option.some.inj h))]; exact v
        · rw [hinst i ei]; exact v
      · exact b.remove_op

/-- every pc that holds an entry refers to an allocated entry -/
theorem holds_lt {s : State} {t : Tid} (hA : InvA s) (ht : t < s.nThr) {r : Ref}
    (hh : (s.thr t).pc.holds = some r) : r < s.nHeap := by
  have a2 := (hA.thr t ht).2
  cases hpc : (s.thr t).pc <;> rw [hpc] at hh a2 <;> simp [Pc.holds] at hh <;> subst hh
  case getWaitClose r' l => cases l <;> first | exact a2 | exact a2.1
  all_goals first | exact a2 | exact a2.1

theorem invC_frame {s s' : State} {t : Tid} (r0 : Ref) (i0 : Inst) (hA : InvA s) (hI : InvC s)
    (hnThr : s'.nThr = s.nThr)
    (hnInst : s.nInst ≤ s'.nInst)
    (hthr : ∀ t', t' ≠ t → s'.thr t' = s.thr t')
    (hheap : ∀ r, r ≠ r0 → s'.heap r = s.heap r)
    (hinst : ∀ i, i ≠ i0 → s'.inst i = s.inst i)
    (hClosedKeep : i0 < s.nInst → (s.inst i0).st = .closed → (s'.inst i0).st = .closed)
    (hValFresh : r0 < s.nHeap → ∀ i, (s'.heap r0).value = some i →
      (s.heap r0).value = some i ∨ ¬ (i < s.nInst ∧ (s.inst i).st = .closed))
    (hTC : TInvC s' (s'.thr t)) : InvC s' := by
  constructor
  intro t' ht'
  by_cases e : t' = t
  · subst e; exact hTC
  · rw [hthr t' e]
    have ht0 : t' < s.nThr := hnThr ▸ ht'
    have c := hI.thr t' ht0
    constructor
    · intro i hi
      have v := c.stale_closed i hi
      refine ⟨Nat.lt_of_lt_of_le v.1 hnInst, ?_⟩
      by_cases ei : i = i0
      · subst ei; exact hClosedKeep v.1 v.2
      · rw [hinst i ei]; exact v.2
    · intro r i hh hv
      by_cases er : r = r0
      · subst er
        rcases hValFresh (holds_lt hA ht0 hh) i hv with h | h
        · exact c.held_fresh r i hh h
        · intro hm; exact h (c.stale_closed i hm)
      · rw [hheap r er] at hv; exact c.held_fresh r i hh hv
    · exact c.ret_val
    · exact c.ret_objs
    · exact c.started_first

theorem closeRun_frame {s s' : State} {th : Thread}
    (hD3 : s.closed = true → ∀ r, r < s'.nHeap → Entry.inMapOf s' r → r < s.nHeap ∧ Entry.inMapOf s r)
    (hD5 : s.closed = true → s'.closed = true)
    (h : CloseRun s th) : CloseRun s' th := by
  unfold CloseRun at h ⊢
  cases hpc : th.pc <;> rw [hpc] at h <;> (try simp only at h ⊢)
  case done res =>
    cases res <;> (try simp only at h ⊢)
    case errOnly e =>
      cases e <;> (try simp only at h ⊢)
      case none => exact ⟨hD5 h.1, fun r hr hm => h.2 r (hD3 h.1 r hr hm).1 (hD3 h.1 r hr hm).2⟩
  case rmWaitLoad r => exact ⟨hD5 h.1, fun r' hr hm => h.2 r' (hD3 h.1 r' hr hm).1 (hD3 h.1 r' hr hm).2⟩
  case rmSetClosing r => exact ⟨hD5 h.1, fun r' hr hm => h.2 r' (hD3 h.1 r' hr hm).1 (hD3 h.1 r' hr hm).2⟩
  case rmClosingWait r g => exact ⟨hD5 h.1, fun r' hr hm => h.2 r' (hD3 h.1 r' hr hm).1 (hD3 h.1 r' hr hm).2⟩
  case inClose r i => exact ⟨hD5 h.1, fun r' hr hm => h.2 r' (hD3 h.1 r' hr hm).1 (hD3 h.1 r' hr hm).2⟩
  all_goals first | exact h | exact h.elim | trivial

theorem invD_frame {s s' : State} {t : Tid} (hI : InvD s)
    (hnThr : s'.nThr = s.nThr)
    (hthr : ∀ t', t' ≠ t → s'.thr t' = s.thr t')
    (hTD : (s'.thr t).op = .close → CloseRun s' (s'.thr t))
    (hD3 : s.closed = true → ∀ r, r < s'.nHeap → Entry.inMapOf s' r → r < s.nHeap ∧ Entry.inMapOf s r)
    (hD4 : s'.closeDone = true → s.closeDone = true ∨
      (s'.closed = true ∧ ∀ r, r < s'.nHeap → ¬ Entry.inMapOf s' r))
    (hD5 : s.closed = true → s'.closed = true) : InvD s' := by
  constructor
  · intro t' ht' hop
    by_cases e : t' = t
    · subst e; exact hTD hop
    · rw [hthr t' e] at hop ⊢
      exact closeRun_frame hD3 hD5 (hI.thr t' (hnThr ▸ ht') hop)
  · intro hcd
    rcases hD4 hcd with h | h
    · have := hI.close_done h
      refine ⟨hD5 this.1, fun r hr hm => ?_⟩
      have h3 := hD3 this.1 r hr hm
      exact this.2 r h3.1 h3.2
    · exact h

end AnySync.OCache
