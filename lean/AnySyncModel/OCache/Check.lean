import AnySyncModel.OCache.Spec
/-!
Executable (Bool) rendering of the inductive invariant `InvA ∧ InvB ∧ InvC ∧ InvD` and of the
property predicates. The driver evaluates it on every state the correspondence run visits, so an
invariant clause that the real schedules falsify is reported long before a proof is attempted.
Returns the name of the first failing clause ("" = all hold).
-/
namespace AnySync.OCache

def inMapB (s : State) (r : Ref) : Bool := s.map (s.heap r).id == some r

def entClauses (s : State) (r : Ref) : List (String × Bool) :=
  let e := s.heap r
  let thrOk (t : Tid) (f : Pc → Option Ref) := decide (t < s.nThr) && f (s.thr t).pc == some r
  [ ("loading_iff", (e.st == .loading) == (e.value == none)),
    ("err_loading", !e.loadErr || (e.st == .loading && !inMapB s r)),
    ("done_val", !e.loadDone || e.loadErr || e.value != none),
    ("closing_open", (e.st == .closing) == e.chOpen),
    ("closing_closer", (e.st == .closing) == (e.closer != none)),
    ("pending_loading", e.pending == none || (e.st == .loading && !e.loadDone && !e.loadErr)),
    ("live_inmap", !(e.st == .active || e.st == .closing) || inMapB s r),
    ("closed_notin", !(e.st == .closed) || !inMapB s r),
    ("closer_thr", match e.closer with | none => true | some t => thrOk t Pc.closerOf),
    ("loader_thr", e.loadDone || (match e.loader with | none => false | some t => thrOk t Pc.loaderOf)),
    -- layer B
    ("val_inst", match e.value with
      | none => true
      | some i => decide (i < s.nInst) && (s.inst i).ent == r && (s.inst i).id == e.id &&
          (match e.st with
           | .active => (s.inst i).st == .live | .closing => (s.inst i).st == .closing
           | .closed => (s.inst i).st == .closed | .loading => false)),
    ("pend_inst", match e.pending with
      | none => true
      | some i => decide (i < s.nInst) && (s.inst i).ent == r && (s.inst i).id == e.id &&
          ((s.inst i).st == .loading || (s.inst i).st == .live)),
    ("val_pend", e.value == none || e.pending == none) ]

def instClauses (s : State) (i : Inst) : List (String × Bool) :=
  let x := s.inst i
  let e := s.heap x.ent
  [ ("owned", !x.st.alive || (decide (x.ent < s.nHeap) && inMapB s x.ent && e.id == x.id &&
      (e.value == some i || e.pending == some i))),
    ("closes", x.closes == (if x.st == .closed then 1 else 0)),
    ("badClose", !x.badClose) ]

def holdsRef (pc : Pc) : Option Ref :=
  match pc with
  | .getWaitClose r _ | .waitCloseWait r _ | .loadBegin r | .inLoad r _ | .loadCommit r _ _ | .loadSignal r
  | .getWaitLoad r | .pickWaitLoad r => some r
  | _ => none

def thrClauses (s : State) (t : Tid) : List (String × Bool) :=
  let th := s.thr t
  let e (r : Ref) := s.heap r
  let lt (r : Ref) := decide (r < s.nHeap)
  let isLookup := match th.op with | .get _ | .pick _ | .forEach => true | _ => false
  [ ("todo", th.todo.all (fun r => lt r && (th.op == .close || (e r).st != .loading))),
    ("pc", match th.pc with
      | .getWaitClose r true | .loadBegin r =>
        lt r && (e r).loader == some t && (e r).st == .loading && (e r).pending == none && !(e r).loadDone &&
          !(e r).loadErr && inMapB s r
      | .inLoad r i =>
        lt r && (e r).loader == some t && (e r).st == .loading && (e r).pending == some i && !(e r).loadDone &&
          !(e r).loadErr && inMapB s r && (s.inst i).st == .loading
      | .loadCommit r v _ =>
        lt r && (e r).loader == some t && (e r).st == .loading && (e r).pending == v && !(e r).loadDone &&
          !(e r).loadErr && inMapB s r && (match v with | some i => (s.inst i).st == .live | none => true)
      | .loadSignal r =>
        lt r && (e r).loader == some t && (e r).pending == none && !(e r).loadDone &&
          ((e r).loadErr || (e r).value != none)
      | .getWaitClose r false | .getWaitLoad r | .pickWaitLoad r | .rmWaitLoad r => lt r
      | .waitCloseWait r g => lt r && decide (g ≤ (e r).gen)
      | .rmSetClosing r => lt r && (e r).loadDone && !(e r).loadErr
      | .rmClosingWait r g => lt r && (e r).loadDone && !(e r).loadErr && decide (g ≤ (e r).gen)
      | .inClose r i | .inTry r i => lt r && (e r).closer == some t && (e r).st == .closing && (e r).value == some i
      | .trySetClosing r => lt r && (e r).st != .loading
      | .done res => res != .panic
      | .closeCollect => th.op == .close
      | _ => true),
    -- layer C
    ("stale_closed", th.stale.all (fun i => decide (i < s.nInst) && (s.inst i).st == .closed)),
    ("held_fresh", match holdsRef th.pc with
      | some r => (match (e r).value with | some i => !th.stale.contains i | none => true)
      | none => true),
    ("ret_fresh", (match th.pc with
      | .done (.val i) => !th.stale.contains i && decide (i < s.nInst) && (s.inst i).st.loaded && (s.inst i).id == th.op.id
      | .done (.objs l) => l.all (fun i => !th.stale.contains i && decide (i < s.nInst) && (s.inst i).st.loaded)
      | _ => true)),
    ("same_target", match th.op, (match th.pc with
        | .rmWaitLoad r | .rmSetClosing r | .rmClosingWait r _ | .inClose r _ => some r | _ => none) with
      | .removeSame _ (some tgt), some r => (e r).value == some tgt
      | _, _ => true),
    ("remove_op", th.pc != .removeLookup || (match th.op with | .removeSame .. => false | _ => true)),
    ("held_id", match holdsRef th.pc with | some r => (e r).id == th.op.id | none => true),
    ("started", th.started || th.pc == firstPc th.op) ]

/-- `CloseRun` for every thread whose operation is `Close()` -/
def closeProgress (s : State) : Bool :=
  (List.range s.nThr).all (fun t =>
    let th := s.thr t
    th.op != .close || (match th.pc with
      | .done (.errOnly none) => s.closed && (refs s).all (fun r => !inMapB s r)
      | .rmWaitLoad r | .rmSetClosing r | .rmClosingWait r _ | .inClose r _ =>
        s.closed && (refs s).all (fun r' => !inMapB s r' || r' == r || th.todo.contains r')
      | .closeCollect | .done _ => true
      | _ => false))

def stateClauses (s : State) : List (String × Bool) :=
  [ ("no_panic", !s.panicked),
    ("map_ok", 
      (List.range 8).all (fun id => match s.map id with | none => true | some r => decide (r < s.nHeap) && (s.heap r).id == id)),
    ("close_progress", closeProgress s),
    ("close_done", !s.closeDone || (s.closed && (refs s).all (fun r => !inMapB s r) &&
      (List.range s.nInst).all (fun i => !(s.inst i).st.alive))),
    ("one_live", (List.range s.nInst).all (fun i => (List.range s.nInst).all (fun j =>
      i == j || !(s.inst i).st.alive || !(s.inst j).st.alive || (s.inst i).id != (s.inst j).id))) ]

def firstFail (l : List (String × Bool)) : Option String := (l.find? (fun p => !p.2)).map (·.1)

/-- name of the first invariant clause violated in `s`, if any -/
def invFail (s : State) : Option String :=
  (firstFail (stateClauses s)).orElse fun _ =>
  ((refs s).findSome? (fun r => (firstFail (entClauses s r)).map (fun n => s!"entry{r}.{n}"))).orElse fun _ =>
  ((List.range s.nInst).findSome? (fun i => (firstFail (instClauses s i)).map (fun n => s!"inst{i}.{n}"))).orElse fun _ =>
  (List.range s.nThr).findSome? (fun t => (firstFail (thrClauses s t)).map (fun n => s!"thread{t}.{n}"))

end AnySync.OCache
