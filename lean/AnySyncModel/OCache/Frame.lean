import AnySyncModel.OCache.Lemmas
/-! rely/guarantee frame lemmas for the preservation of `InvA` -/
namespace AnySync.OCache

/-- what a step of thread `t` that rewrites entry `r0` guarantees to the other threads -/
structure Guar (s s' : State) (t : Tid) (r0 : Ref) : Prop where
  gen_le : (s.heap r0).gen ≤ (s'.heap r0).gen
  notloading : (s.heap r0).st ≠ .loading → (s'.heap r0).st ≠ .loading
  load_fields : (s.heap r0).loader ≠ some t ∨ (s.heap r0).loadDone = true →
    (s'.heap r0).loader = (s.heap r0).loader ∧ (s'.heap r0).pending = (s.heap r0).pending ∧
    (s'.heap r0).loadDone = (s.heap r0).loadDone ∧ (s'.heap r0).loadErr = (s.heap r0).loadErr
  loading_keep : (s.heap r0).st = .loading → (s.heap r0).loader ≠ some t →
    (s'.heap r0).st = .loading ∧ (Entry.inMapOf s r0 → Entry.inMapOf s' r0)
  closing_keep : (s.heap r0).st = .closing → (s.heap r0).closer ≠ some t →
    (s'.heap r0).st = .closing ∧ (s'.heap r0).closer = (s.heap r0).closer
  value_keep : (s.heap r0).value ≠ none → (s'.heap r0).value = (s.heap r0).value

set_option hygiene false in
local macro "fc" r:ident : tactic => `(tactic|
  (have h1 : $r < s.nHeap := by first | exact h2 | exact h2.1
   have h1' : $r < s'.nHeap := Nat.lt_of_lt_of_le h1 hnHeap
   by_cases hr0 : $r = r0
   · subst hr0; have g := hG h1; have e := hE _ h1
     have := g.load_fields; have := g.loading_keep; have := g.closing_keep; have := g.gen_le
     have := g.notloading; have := g.value_keep
     grind
   · have hh := hheap $r hr0; have := hmap $r hr0 h1; grind))

theorem tinvA_frame {s s' : State} {t t' : Tid} {r0 : Ref} (th : Thread)
    (htt : t' ≠ t)
    (hnHeap : s.nHeap ≤ s'.nHeap)
    (hheap : ∀ r, r ≠ r0 → s'.heap r = s.heap r)
    (hmap : ∀ r, r ≠ r0 → r < s.nHeap → (Entry.inMapOf s r → Entry.inMapOf s' r))
    (hG : r0 < s.nHeap → Guar s s' t r0)
    (hE : ∀ r, r < s.nHeap → EInvA s r)
    (h : TInvA s t' th) : TInvA s' t' th := by
  unfold TInvA at h ⊢
  refine ⟨fun r hr => ?_, ?_⟩
  · have := h.1 r hr
    have h1 := this.1
    by_cases hr0 : r = r0
    · subst hr0
      have g := hG this.1
      exact ⟨Nat.lt_of_lt_of_le h1 hnHeap, fun hop => g.notloading (this.2 hop)⟩
    · rw [hheap r hr0]; exact ⟨Nat.lt_of_lt_of_le h1 hnHeap, this.2⟩
  · have h2 := h.2
    clear h
    cases hpc : th.pc <;> rw [hpc] at h2 <;> (try simp only at h2 ⊢)
    case getWaitClose r l => cases l <;> simp only at h2 ⊢ <;> fc r
    case waitCloseWait r g => fc r
    case loadBegin r => fc r
    case inLoad r i => fc r
    case loadCommit r v ab => fc r
    case loadSignal r => fc r
    case getWaitLoad r => fc r
    case pickWaitLoad r => fc r
    case rmWaitLoad r => fc r
    case rmSetClosing r => fc r
    case rmClosingWait r g => fc r
    case inClose r i => fc r
    case trySetClosing r => fc r
    case inTry r i => fc r
    all_goals first | trivial | exact h2

theorem einvA_frame {s s' : State} {t : Tid} {r : Ref}
    (hnThr : s'.nThr = s.nThr)
    (hthr : ∀ t', t' ≠ t → s'.thr t' = s.thr t')
    (hheap : s'.heap r = s.heap r)
    (hmap : Entry.inMapOf s' r ↔ Entry.inMapOf s r)
    (hown : ((s.thr t).pc.loaderOf = some r → (s'.thr t).pc.loaderOf = some r) ∧
      ((s.thr t).pc.closerOf = some r → (s'.thr t).pc.closerOf = some r))
    (h : EInvA s r) : EInvA s' r := by
  have thr_l : ∀ t2, (s.thr t2).pc.loaderOf = some r → (s'.thr t2).pc.loaderOf = some r := by
    intro t2 h2
    by_cases e : t2 = t
    · subst e; exact hown.1 h2
    · rw [hthr t2 e]; exact h2
  have thr_c : ∀ t2, (s.thr t2).pc.closerOf = some r → (s'.thr t2).pc.closerOf = some r := by
    intro t2 h2
    by_cases e : t2 = t
    · subst e; exact hown.2 h2
    · rw [hthr t2 e]; exact h2
  constructor
  · rw [hheap]; exact h.loading_iff
  · rw [hheap]; intro h1; exact ⟨(h.err_loading h1).1, fun hm => (h.err_loading h1).2 (hmap.1 (by simpa [Entry.inMapOf, hheap] using hm))⟩
  · rw [hheap]; exact h.done_val
  · rw [hheap]; exact h.closing_open
  · rw [hheap]; exact h.closing_closer
  · rw [hheap]; exact h.pending_loading
  · intro h1; rw [hheap] at h1; exact hmap.2 (h.live_inmap h1)
  · intro h1 hm; rw [hheap] at h1; exact h.closed_notin h1 (hmap.1 hm)
  · intro t2 h2; rw [hheap] at h2
    have := h.closer_thr t2 h2
    exact ⟨hnThr ▸ this.1, thr_c t2 this.2⟩
  · intro h1; rw [hheap] at h1 ⊢
    obtain ⟨t2, a, b, c⟩ := h.loader_thr h1
    exact ⟨t2, a, hnThr ▸ b, thr_l t2 c⟩

theorem invA_frame {s s' : State} {t : Tid} (r0 : Ref) (hI : InvA s)
    (hnThr : s'.nThr = s.nThr)
    (hnHeap : s.nHeap ≤ s'.nHeap) (hnew : ∀ r, r < s'.nHeap → r < s.nHeap ∨ r = r0)
    (hthr : ∀ t', t' ≠ t → s'.thr t' = s.thr t')
    (hheap : ∀ r, r ≠ r0 → s'.heap r = s.heap r)
    (hmap : ∀ r, r ≠ r0 → r < s.nHeap → (Entry.inMapOf s' r ↔ Entry.inMapOf s r))
    (hmapok : ∀ id r, s'.map id = some r → r < s'.nHeap ∧ (s'.heap r).id = id)
    (hG : r0 < s.nHeap → Guar s s' t r0)
    (hE0 : r0 < s'.nHeap → EInvA s' r0)
    (hT : TInvA s' t (s'.thr t))
    (hown : ∀ r, r ≠ r0 → ((s.thr t).pc.loaderOf = some r → (s'.thr t).pc.loaderOf = some r) ∧
      ((s.thr t).pc.closerOf = some r → (s'.thr t).pc.closerOf = some r))
    (hP : s'.panicked = false) : InvA s' := by
  constructor
  · exact hmapok
  · intro r hr
    by_cases e : r = r0
    · subst e; exact hE0 hr
    · have hr' : r < s.nHeap := by rcases hnew r hr with h | h; exact h; exact absurd h e
      exact einvA_frame hnThr hthr (hheap r e) (hmap r e hr') (hown r e) (hI.ent r hr')
  · intro t' ht'
    by_cases e : t' = t
    · subst e; exact hT
    · rw [hthr t' e]
      exact tinvA_frame _ e hnHeap hheap (fun r a b => (hmap r a b).2) hG hI.ent (hI.thr t' (hnThr ▸ ht'))
  · exact hP

/-- the entry-local part of `EInvA` (everything but the two clauses that mention threads) -/
structure EInvL (s : State) (r : Ref) : Prop where
  loading_iff : (s.heap r).st = .loading ↔ (s.heap r).value = none
  err_loading : (s.heap r).loadErr = true → (s.heap r).st = .loading ∧ ¬ Entry.inMapOf s r
  done_val : (s.heap r).loadDone = true → (s.heap r).loadErr = true ∨ (s.heap r).value ≠ none
  closing_open : (s.heap r).st = .closing ↔ (s.heap r).chOpen = true
  closing_closer : (s.heap r).st = .closing ↔ (s.heap r).closer ≠ none
  pending_loading : (s.heap r).pending ≠ none →
    (s.heap r).st = .loading ∧ (s.heap r).loadDone = false ∧ (s.heap r).loadErr = false
  live_inmap : (s.heap r).st = .active ∨ (s.heap r).st = .closing → Entry.inMapOf s r
  closed_notin : (s.heap r).st = .closed → ¬ Entry.inMapOf s r

/-- `invA_frame` with the thread-mentioning clauses of the rewritten entry split off: the closer /
loader of `r0` is either the stepping thread (whose new pc is explicit) or unchanged -/
theorem invA_frame' {s s' : State} {t : Tid} (r0 : Ref) (hI : InvA s) (ht : t < s.nThr)
    (hnThr : s'.nThr = s.nThr)
    (hnHeap : s.nHeap ≤ s'.nHeap) (hnew : ∀ r, r < s'.nHeap → r < s.nHeap ∨ r = r0)
    (hthr : ∀ t', t' ≠ t → s'.thr t' = s.thr t')
    (hheap : ∀ r, r ≠ r0 → s'.heap r = s.heap r)
    (hmap : ∀ r, r ≠ r0 → r < s.nHeap → (Entry.inMapOf s' r ↔ Entry.inMapOf s r))
    (hmapok : ∀ id r, s'.map id = some r → r < s'.nHeap ∧ (s'.heap r).id = id)
    (hG : r0 < s.nHeap → Guar s s' t r0)
    (hE0 : r0 < s'.nHeap → EInvL s' r0)
    (hE0c : r0 < s'.nHeap → ∀ t2, (s'.heap r0).closer = some t2 →
      (t2 = t ∧ (s'.thr t).pc.closerOf = some r0) ∨
      (t2 ≠ t ∧ r0 < s.nHeap ∧ (s.heap r0).closer = some t2))
    (hE0l : r0 < s'.nHeap → (s'.heap r0).loadDone = false →
      ((s'.heap r0).loader = some t ∧ (s'.thr t).pc.loaderOf = some r0) ∨
      (r0 < s.nHeap ∧ (s.heap r0).loadDone = false ∧ (s'.heap r0).loader = (s.heap r0).loader ∧
        (s.heap r0).loader ≠ some t))
    (hT : TInvA s' t (s'.thr t))
    (hown : ∀ r, r ≠ r0 → ((s.thr t).pc.loaderOf = some r → (s'.thr t).pc.loaderOf = some r) ∧
      ((s.thr t).pc.closerOf = some r → (s'.thr t).pc.closerOf = some r))
    (hP : s'.panicked = false) : InvA s' := by
  apply invA_frame r0 hI hnThr hnHeap hnew hthr hheap hmap hmapok hG ?_ hT hown hP
  intro hr
  have l := hE0 hr
  refine ⟨l.loading_iff, l.err_loading, l.done_val, l.closing_open, l.closing_closer, l.pending_loading,
    l.live_inmap, l.closed_notin, ?_, ?_⟩
  · intro t2 h2
    rcases hE0c hr t2 h2 with ⟨e, hc⟩ | ⟨e, hr0, hc⟩
    · subst e; exact ⟨hnThr ▸ ht, hc⟩
    · have := (hI.ent r0 hr0).closer_thr t2 hc
      exact ⟨hnThr ▸ this.1, by rw [hthr t2 e]; exact this.2⟩
  · intro hd
    rcases hE0l hr hd with ⟨hl, hc⟩ | ⟨hr0, hd0, hl, hne⟩
    · exact ⟨t, hl, hnThr ▸ ht, hc⟩
    · obtain ⟨t2, a, b, c⟩ := (hI.ent r0 hr0).loader_thr hd0
      have e : t2 ≠ t := by intro e; subst e; exact hne a
      exact ⟨t2, hl ▸ a, hnThr ▸ b, by rw [hthr t2 e]; exact c⟩

attribute [local simp] upd State.setThr State.setE State.setI State.goto State.finish State.panic

theorem markStarted_op (s : State) (th : Thread) : (markStarted s th).op = th.op := by
  unfold markStarted; split <;> rfl
theorem markStarted_todo (s : State) (th : Thread) : (markStarted s th).todo = th.todo := by
  unfold markStarted; split <;> rfl

theorem tinvA_congr {s s' : State} {t : Tid} {th : Thread}
    (h1 : s'.heap = s.heap) (h2 : s'.nHeap = s.nHeap) (h3 : s'.map = s.map) :
    TInvA s' t th ↔ TInvA s t th := by
  unfold TInvA Entry.inMapOf; rw [h1, h2, h3]

/-- thread-only step: nothing but `thr t` changes -/
theorem invA_thr_only {s : State} {t : Tid} (hI : InvA s) (th' : Thread)
    (hT : TInvA s t th')
    (hown : ∀ r, ((s.thr t).pc.loaderOf = some r → th'.pc.loaderOf = some r) ∧
      ((s.thr t).pc.closerOf = some r → th'.pc.closerOf = some r)) :
    InvA (s.setThr t th') := by
  apply invA_frame (t := t) s.nHeap hI
  · rfl
  · exact Nat.le_refl _
  · intro r h; exact Or.inl h
  · intro t' h; simp [h]
  · intro r _; rfl
  · intro r _ _; exact Iff.rfl
  · exact hI.map_ok
  · intro h; exact absurd h (Nat.lt_irrefl _)
  · intro h; exact absurd h (Nat.lt_irrefl _)
  · simp only [State.setThr, upd, if_true]; exact (tinvA_congr rfl rfl rfl).2 hT
  · intro r _; simpa using hown r
  · exact hI.no_panic

end AnySync.OCache
