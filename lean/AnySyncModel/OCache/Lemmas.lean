import AnySyncModel.OCache.Spec
/-! helper lemmas for C16: the invariant implies each part of the property -/
namespace AnySync.OCache

theorem noPanic_of_invA {s : State} (h : InvA s) : NoPanic s := by
  refine ⟨h.no_panic, fun t ht hpc => ?_⟩
  have := (h.thr t ht).2
  rw [hpc] at this
  exact this rfl

theorem oneLive_of_invB {s : State} (h : InvB s) : OneLive s := by
  intro i j hi hj ai aj hid
  have oi := (h.ins i hi).owned ai
  have oj := (h.ins j hj).owned aj
  obtain ⟨hri, hmi, hidi, hvi⟩ := oi
  obtain ⟨hrj, hmj, hidj, hvj⟩ := oj
  have hr : (s.inst i).ent = (s.inst j).ent := by
    unfold Entry.inMapOf at hmi hmj
    rw [hidi] at hmi; rw [hidj, ← hid] at hmj
    rw [hmi] at hmj; exact Option.some.inj hmj
  have vp := (h.ent _ hri).val_pend
  rw [← hr] at hvj
  rcases hvi with hvi | hvi <;> rcases hvj with hvj | hvj
  · rw [hvi] at hvj; exact Option.some.inj hvj
  · rcases vp with vp | vp <;> simp_all
  · rcases vp with vp | vp <;> simp_all
  · rw [hvi] at hvj; exact Option.some.inj hvj

theorem handedOut_of_invB {s : State} (h : InvB s) : HandedOutLoaded s :=
  fun t ht i => ⟨(h.thr t ht).ret_val i, fun l => (h.thr t ht).ret_objs l i⟩

theorem noDoubleClose_of_invB {s : State} (h : InvB s) : NoDoubleClose s := by
  intro i hi
  have := h.ins i hi
  refine ⟨?_, this.no_bad⟩
  rw [this.closes]; split <;> omega

theorem noneOpen_of_inv {s : State} (hb : InvB s) (hd : InvD s) : NoneOpenAfterClose s := by
  intro hc
  have ⟨_, hm⟩ := hd.close_done hc
  refine ⟨fun i hi => ?_, hm⟩
  cases hal : (s.inst i).st.alive with
  | false => rfl
  | true =>
    have o := (hb.ins i hi).owned hal
    exact absurd o.2.1 (hm _ o.1)

theorem removeSameOnlyTarget_of_inv {s : State} (ha : InvA s) (hb : InvB s) : RemoveSameOnlyTarget s := by
  intro t ht id tgt r i hop hpc
  have v := (hb.thr t ht).same_target id tgt r hop (by rw [hpc]; rfl)
  have a := (ha.thr t ht).2
  rw [hpc] at a
  simp only at a
  rw [a.2.2.2] at v
  exact Option.some.inj v

theorem removedNotReturned_of_invC {s : State} (h : InvC s) : RemovedNotReturned s :=
  fun t ht i => ⟨(h.thr t ht).ret_val i, fun l => (h.thr t ht).ret_objs l i⟩

/-! ### enabledness and deadlock freedom -/

theorem nextTodo_some (s : State) (t : Tid) (th : Thread) : ∃ h s', nextTodo s t th h = some s' := by
  unfold nextTodo
  cases htd : th.todo with
  | nil => cases th.op <;> exact ⟨none, _, rfl⟩
  | cons r rest =>
    refine ⟨some (s.heap r).id, ?_⟩
    simp only [List.find?_cons, beq_self_eq_true]
    cases th.op <;> exact ⟨_, rfl⟩

theorem afterRemove_some (s : State) (t : Tid) (th : Thread) (ok : Bool) (e : Option Err) :
    ∃ h s', afterRemove s t th ok e h = some s' := by
  unfold afterRemove
  cases th.op <;> first | exact nextTodo_some s t th | exact ⟨none, _, rfl⟩

/-- the thread is parked at a hook (not inside a harness call, not returned) and is not blocked -/
def pcEnabled (s : State) (pc : Pc) : Prop :=
  match pc with
  | .done _ | .inLoad .. | .inClose .. | .inTry .. => False
  | .waitCloseWait r g | .rmClosingWait r g => chanClosed (s.heap r) g = true
  | .getWaitLoad r | .pickWaitLoad r | .rmWaitLoad r => (s.heap r).loadDone = true
  | _ => True

theorem setClosingWait_some (s : State) (t : Tid) (th : Thread) (r : Ref) :
    ∃ h s', setClosingWait s t th r h = some s' := by
  unfold setClosingWait
  simp only
  split
  · exact ⟨none, _, rfl⟩
  · exact afterRemove_some ..
  · split <;> exact ⟨none, _, rfl⟩

theorem stepCore_some (s : State) (t : Tid) (th : Thread) (hen : pcEnabled s th.pc) :
    ∃ h s', stepCore s t th h = some s' := by
  unfold stepCore
  cases hpc : th.pc <;> rw [hpc] at hen <;> simp only [pcEnabled] at hen <;> simp only
  all_goals (try simp only [hen, if_true])
  all_goals (repeat' split)
  all_goals first | exact ⟨none, _, rfl⟩ | exact afterRemove_some .. | exact nextTodo_some .. | exact setClosingWait_some .. | contradiction | skip

theorem markStarted_pc (s : State) (th : Thread) : (markStarted s th).pc = th.pc := by
  unfold markStarted; split <;> rfl

theorem step_some (s : State) (t : Tid) (ht : t < s.nThr) (hen : pcEnabled s (s.thr t).pc) :
    ∃ h s', step s t h = some s' := by
  unfold step
  simp only [ht, if_true]
  exact stepCore_some s t _ (by rw [markStarted_pc]; exact hen)

theorem envStep_some (s : State) (t : Tid) (ht : t < s.nThr)
    (hpc : (∃ r i, (s.thr t).pc = .inLoad r i) ∨ (∃ r i, (s.thr t).pc = .inClose r i) ∨ (∃ r i, (s.thr t).pc = .inTry r i)) :
    ∃ v h s', envStep s t v h = some s' := by
  unfold envStep
  simp only [ht, if_true]
  rcases hpc with ⟨r, i, h⟩ | ⟨r, i, h⟩ | ⟨r, i, h⟩ <;> rw [h]
  · exact ⟨.loadOk, none, _, rfl⟩
  · refine ⟨.closeRet, ?_⟩
    simp only
    split
    · exact ⟨none, _, rfl⟩
    · exact afterRemove_some ..
  · refine ⟨.tryFalse, ?_⟩
    simp only
    split
    · exact ⟨none, _, rfl⟩
    · simp only [Bool.false_eq_true, if_false]; exact afterRemove_some ..

/-- a thread that has not returned can move itself, or is parked in a harness call -/
theorem canMove_of_pc (s : State) (t : Tid) (ht : t < s.nThr)
    (h : pcEnabled s (s.thr t).pc ∨ (∃ r i, (s.thr t).pc = .inLoad r i) ∨ (∃ r i, (s.thr t).pc = .inClose r i) ∨
      (∃ r i, (s.thr t).pc = .inTry r i)) : CanMove s := by
  rcases h with h | h
  · exact ⟨t, ht, Or.inl (step_some s t ht h)⟩
  · exact ⟨t, ht, Or.inr (envStep_some s t ht h)⟩

theorem canMove_of_loader (s : State) (t : Tid) (ht : t < s.nThr) (r : Ref)
    (h : (s.thr t).pc.loaderOf = some r) : CanMove s := by
  apply canMove_of_pc s t ht
  cases hpc : (s.thr t).pc <;> rw [hpc] at h <;> simp [Pc.loaderOf, pcEnabled] at h ⊢

theorem canMove_of_closer (s : State) (t : Tid) (ht : t < s.nThr) (r : Ref)
    (h : (s.thr t).pc.closerOf = some r) : CanMove s := by
  apply canMove_of_pc s t ht
  cases hpc : (s.thr t).pc <;> rw [hpc] at h <;> simp [Pc.closerOf, pcEnabled] at h ⊢

theorem deadlockFree_of_invA {s : State} (hI : InvA s) : DeadlockFree s := by
  intro ⟨t, ht, hnd⟩
  have hT := hI.thr t ht
  -- a blocked wait on the load channel: its loader can move
  have waitLoad : ∀ r, r < s.nHeap → (s.heap r).loadDone = true ∨ CanMove s := by
    intro r hr
    cases hld : (s.heap r).loadDone with
    | true => exact Or.inl rfl
    | false =>
      obtain ⟨t2, _, ht2, hl⟩ := (hI.ent r hr).loader_thr hld
      exact Or.inr (canMove_of_loader s t2 ht2 r hl)
  -- a blocked wait on a close channel: the closer can move
  have waitClose : ∀ r g, r < s.nHeap → g ≤ (s.heap r).gen → chanClosed (s.heap r) g = true ∨ CanMove s := by
    intro r g hr hg
    cases hcc : chanClosed (s.heap r) g with
    | true => exact Or.inl rfl
    | false =>
      have hopen : (s.heap r).chOpen = true := by
        unfold chanClosed at hcc
        cases h : (s.heap r).chOpen with
        | true => rfl
        | false =>
          simp [h] at hcc
          omega
      have hcl := ((hI.ent r hr).closing_open).2 hopen
      have hne := ((hI.ent r hr).closing_closer).1 hcl
      cases hc : (s.heap r).closer with
      | none => exact absurd hc hne
      | some t2 =>
        obtain ⟨ht2, hpc2⟩ := (hI.ent r hr).closer_thr t2 hc
        exact Or.inr (canMove_of_closer s t2 ht2 r hpc2)
  unfold TInvA at hT
  cases hpc : (s.thr t).pc <;> rw [hpc] at hT
  case done r => exact absurd hpc (hnd r)
  case getWaitClose r l =>
    cases l <;> exact canMove_of_pc s t ht (Or.inl (by rw [hpc]; trivial))
  case waitCloseWait r g =>
    rcases waitClose r g hT.2.1 hT.2.2 with h | h
    · exact canMove_of_pc s t ht (Or.inl (by rw [hpc]; exact h))
    · exact h
  case rmClosingWait r g =>
    rcases waitClose r g hT.2.1 hT.2.2.2.2 with h | h
    · exact canMove_of_pc s t ht (Or.inl (by rw [hpc]; exact h))
    · exact h
  case getWaitLoad r =>
    rcases waitLoad r hT.2 with h | h
    · exact canMove_of_pc s t ht (Or.inl (by rw [hpc]; exact h))
    · exact h
  case pickWaitLoad r =>
    rcases waitLoad r hT.2 with h | h
    · exact canMove_of_pc s t ht (Or.inl (by rw [hpc]; exact h))
    · exact h
  case rmWaitLoad r =>
    rcases waitLoad r hT.2 with h | h
    · exact canMove_of_pc s t ht (Or.inl (by rw [hpc]; exact h))
    · exact h
  case inLoad r i => exact canMove_of_pc s t ht (Or.inr (Or.inl ⟨r, i, hpc⟩))
  case inClose r i => exact canMove_of_pc s t ht (Or.inr (Or.inr (Or.inl ⟨r, i, hpc⟩)))
  case inTry r i => exact canMove_of_pc s t ht (Or.inr (Or.inr (Or.inr ⟨r, i, hpc⟩)))
  all_goals exact canMove_of_pc s t ht (Or.inl (by rw [hpc]; trivial))

/-! ### from an inductive invariant to all reachable states -/

theorem reachable_of_inductive {P : State → Prop} (h : Inductive P) : ∀ s, Reachable s → P s := by
  intro s hr
  induction hr with
  | init => exact h.1
  | next l _ hn ih => exact h.2 _ l _ ih hn

theorem run_reachable : ∀ (ls : List Label) (s s' : State), Reachable s → run s ls = some s' → Reachable s'
  | [], s, s', hr, h => by simp [run] at h; exact h ▸ hr
  | l :: ls, s, s', hr, h => by
    simp only [run] at h
    cases hn : next s l with
    | none => simp [hn] at h
    | some s1 => rw [hn] at h; exact run_reachable ls s1 s' (Reachable.next l hr hn) h

theorem invA_init : InvA init := by
  constructor
  · intro id r h; simp [init] at h
  · intro r h; simp [init] at h
  · intro t h; simp [init] at h
  · rfl

theorem inv_init : Inv init := by
  refine ⟨invA_init, ⟨?_, ?_, ?_⟩, ⟨?_⟩, ⟨?_, ?_⟩⟩ <;> intros <;> simp_all [init]

end AnySync.OCache
