import AnySyncModel.OCache.StepB
import AnySyncModel.OCache.StepC
import AnySyncModel.OCache.StepD
/-! the invariant `Inv = InvA ∧ InvB ∧ InvC ∧ InvD` is inductive, hence holds in every reachable state -/
namespace AnySync.OCache

theorem inv_next {s s' : State} {l : Label} (hI : Inv s) (h : next s l = some s') : Inv s' :=
  ⟨invA_next hI.a h, invb_next hI h, invc_next hI h, invd_next hI h⟩

theorem inv_inductive : Inductive Inv := ⟨inv_init, fun _ _ _ hI h => inv_next hI h⟩

/-- by induction over the schedule -/
theorem inv_reachable {s : State} (h : Reachable s) : Inv s := reachable_of_inductive inv_inductive s h

end AnySync.OCache
