/-
Helper lemmas for C10 (transaction model). Property theorems live in Props/C10.lean.
-/
import AnySyncModel.Store.Spec

namespace AnySync.Store

theorem exec_append (d : Db) (a b : List Call) : exec d (a ++ b) = exec (exec d a) b := by
  simp [exec, List.foldl_append]

theorem exec_cons (d : Db) (c : Call) (l : List Call) : exec d (c :: l) = exec (step d c) l := rfl

theorem exec_nil (d : Db) : exec d [] = d := rfl

/-- a call that is not begin/commit/rollback, issued inside an open transaction, leaves `committed`
alone and the transaction open -/
theorem step_inTx (d : Db) (c : Call) (p : Store) (hp : d.pending = some p) (hc : c.isTxCtl = false) :
    (step d c).committed = d.committed ∧ ∃ p', (step d c).pending = some p' := by
  cases c <;> simp [Call.isTxCtl] at hc <;> simp only [step, hp] <;> (repeat' split) <;> simp_all

theorem exec_inTx (body : List Call) (hb : ∀ c ∈ body, c.isTxCtl = false) :
    ∀ (d : Db) (p : Store), d.pending = some p →
      (exec d body).committed = d.committed ∧ ∃ p', (exec d body).pending = some p' := by
  induction body with
  | nil => intro d p hp; exact ⟨rfl, p, hp⟩
  | cons c rest ih =>
    intro d p hp
    have h1 := step_inTx d c p hp (hb c (by simp))
    obtain ⟨hc, p', hp'⟩ := h1
    have h2 := ih (fun x hx => hb x (by simp [hx])) (step d c) p' hp'
    rw [exec_cons]
    exact ⟨h2.1.trans hc, h2.2⟩

theorem step_begin_idle (s : Store) : step (Db.idle s) .begin = { committed := s, pending := some s } := by
  simp [step, Db.idle]

/-- crash anywhere strictly inside `begin … commit` finds the committed store untouched -/
theorem crash_inside (s : Store) (body : List Call) (hb : ∀ c ∈ body, c.isTxCtl = false) (n : Nat) :
    (exec (Db.idle s) (Call.begin :: body.take n)).committed = s := by
  rw [exec_cons, step_begin_idle]
  have h := exec_inTx (body.take n) (fun c hc => hb c (List.mem_of_mem_take hc))
    { committed := s, pending := some s } s rfl
  exact h.1

theorem take_singleTx (body : List Call) (k : Nat) (hk : k < (Call.begin :: body ++ [Call.commit]).length) :
    (Call.begin :: body ++ [Call.commit]).take k = [] ∨
    ∃ n, (Call.begin :: body ++ [Call.commit]).take k = Call.begin :: body.take n := by
  cases k with
  | zero => left; rfl
  | succ m =>
    right
    refine ⟨m, ?_⟩
    have hm : m ≤ body.length := by simp at hk; omega
    simp [List.take_append_of_le_length hm]

/-- a fault at call `k` inside `begin … commit`: the error path rolls back; nothing is committed -/
theorem fault_inside (s : Store) (body : List Call) (hb : ∀ c ∈ body, c.isTxCtl = false) (n : Nat) :
    (execFault (Db.idle s) (Call.begin :: body ++ [Call.commit]) (n + 1)).committed = s ∨ body.length < n := by
  by_cases hn : n ≤ body.length
  · left
    have ht : (Call.begin :: body ++ [Call.commit]).take (n + 1) = Call.begin :: body.take n := by
      simp [List.take_append_of_le_length hn]
    have h := crash_inside s body hb n
    simp only [execFault, ht]
    split <;> simpa using h
  · right; omega

/-! ### store lookups -/


theorem find_filter_ne (l : List (Key × Val)) (k k' : Key) (h : k' ≠ k) :
    (l.filter (fun kv => kv.1 ≠ k)).find? (fun kv => kv.1 = k') = l.find? (fun kv => kv.1 = k') := by
  induction l with
  | nil => rfl
  | cons a l ih =>
    by_cases ha : a.1 = k
    · have hne : ¬ a.1 = k' := by rw [ha]; exact fun e => h e.symm
      rw [List.filter_cons_of_neg (by simpa using ha), List.find?_cons_of_neg (by simpa using hne)]
      exact ih
    · rw [List.filter_cons_of_pos (by simpa using ha)]
      by_cases hb : a.1 = k'
      · rw [List.find?_cons_of_pos (by simpa using hb), List.find?_cons_of_pos (by simpa using hb)]
      · rw [List.find?_cons_of_neg (by simpa using hb), List.find?_cons_of_neg (by simpa using hb)]
        exact ih

theorem Store.get_set (s : Store) (k : Key) (v : Val) (k' : Key) :
    (s.set k v).get k' = if k' = k then some v else s.get k' := by
  unfold Store.get Store.set
  by_cases h : k' = k
  · subst h; simp
  · have h' : ¬ (k = k') := fun e => h e.symm
    simp only [h, if_false]
    rw [List.find?_cons_of_neg (by simpa using h'), find_filter_ne _ _ _ h]

theorem Store.get_erase (s : Store) (k k' : Key) (h : k' ≠ k) : (s.erase k).get k' = s.get k' := by
  unfold Store.get Store.erase
  simp only
  rw [find_filter_ne _ _ _ h]

theorem Store.get_mkColl (s : Store) (c : Coll) (k : Key) : (s.mkColl c).get k = s.get k := by
  unfold Store.mkColl; split <;> rfl

theorem Store.get_addIndex (s : Store) (c : Coll) (k : Key) : (s.addIndex c).get k = s.get k := rfl

theorem Store.get_filterKeys (s : Store) (q : Key → Bool) (k : Key) :
    (s.filterKeys q).get k = if q k then s.get k else none := by
  unfold Store.get Store.filterKeys
  simp only
  induction s.docs with
  | nil => simp
  | cons a l ih =>
    by_cases hk : a.1 = k
    · subst hk
      by_cases hq : q a.1 = true
      · simp [hq]
      · simp only [Bool.not_eq_true] at hq
        simp only [List.filter_cons, hq, Bool.false_eq_true, if_false]
        rw [ih]; simp [hq]
    · by_cases hq : q a.1 = true
      · simp only [List.filter_cons, hq, if_true, List.find?_cons, hk, decide_false]
        exact ih
      · simp only [Bool.not_eq_true] at hq
        simp only [List.filter_cons, hq, Bool.false_eq_true, if_false, List.find?_cons, hk, decide_false]
        exact ih
/-! ### closed forms of the committed state after each operation -/

def insertAll (s : Store) (chs : List NewChange) : Store :=
  chs.foldl (fun s c => s.set ⟨.changes, c.id⟩ (.change c.v)) s

def postAddAll (s : Store) (t : Nat) (chs : List NewChange) (heads : List Nat) (cs : Nat) : Store :=
  (insertAll s chs).set ⟨.heads, t⟩ (.heads ⟨heads, some cs⟩)

/-- the ids of the batch are new to the store and pairwise different -/
def Fresh (s : Store) (chs : List NewChange) : Prop :=
  (∀ c ∈ chs, s.get ⟨.changes, c.id⟩ = none) ∧ (chs.map (·.id)).Nodup

theorem get_insertAll_other (chs : List NewChange) : ∀ (s : Store) (k : Key),
    (∀ c ∈ chs, (⟨.changes, c.id⟩ : Key) ≠ k) → (insertAll s chs).get k = s.get k := by
  induction chs with
  | nil => intro s k _; rfl
  | cons c rest ih =>
    intro s k h
    simp only [insertAll, List.foldl_cons]
    have := ih (s.set ⟨.changes, c.id⟩ (.change c.v)) k (fun x hx => h x (by simp [hx]))
    simp only [insertAll] at this
    rw [this, Store.get_set]
    have hne : k ≠ ⟨.changes, c.id⟩ := fun e => h c (by simp) e.symm
    simp [hne]

theorem get_insertAll_mem (chs : List NewChange) : ∀ (s : Store), (chs.map (·.id)).Nodup →
    ∀ c ∈ chs, (insertAll s chs).get ⟨.changes, c.id⟩ = some (.change c.v) := by
  induction chs with
  | nil => intro s _ c hc; simp at hc
  | cons a rest ih =>
    intro s hnd c hc
    simp only [List.map_cons, List.nodup_cons] at hnd
    simp only [insertAll, List.foldl_cons]
    rcases List.mem_cons.mp hc with rfl | hc'
    · have := get_insertAll_other rest (s.set ⟨.changes, c.id⟩ (.change c.v)) ⟨.changes, c.id⟩ (by
        intro x hx e
        have : x.id = c.id := by simpa using congrArg Key.id e
        exact hnd.1 (List.mem_map.mpr ⟨x, hx, this⟩))
      simp only [insertAll] at this
      rw [this, Store.get_set]; simp
    · have := ih (s.set ⟨.changes, a.id⟩ (.change a.v)) hnd.2 c hc'
      simpa only [insertAll] using this

/-- executing the inserts of a fresh batch inside an open transaction -/
theorem exec_inserts (chs : List NewChange) : ∀ (c p : Store) (sv : List Store) (f : Bool), Fresh p chs →
    exec { committed := c, pending := some p, saves := sv, failed := f }
      (chs.map (fun x => Call.insert ⟨.changes, x.id⟩ (.change x.v))) =
    { committed := c, pending := some (insertAll p chs), saves := sv, failed := f } := by
  induction chs with
  | nil => intro c p sv f _; rfl
  | cons a rest ih =>
    intro c p sv f hf
    obtain ⟨hfresh, hnd⟩ := hf
    simp only [List.map_cons, List.nodup_cons] at hnd
    simp only [List.map_cons, exec_cons]
    have ha : p.get ⟨.changes, a.id⟩ = none := hfresh a (by simp)
    have hstep : step { committed := c, pending := some p, saves := sv, failed := f }
        (Call.insert ⟨.changes, a.id⟩ (.change a.v)) =
        { committed := c, pending := some (p.set ⟨.changes, a.id⟩ (.change a.v)), saves := sv, failed := f } := by
      simp [step, applyWrite, ha]
    rw [hstep, ih]
    · simp [insertAll]
    · refine ⟨?_, hnd.2⟩
      intro x hx
      rw [Store.get_set]
      have hne : (⟨.changes, x.id⟩ : Key) ≠ ⟨.changes, a.id⟩ := by
        intro e
        have : x.id = a.id := by simpa using congrArg Key.id e
        exact hnd.1 (List.mem_map.mpr ⟨x, hx, this⟩)
      simp [hne, hfresh x (by simp [hx])]

theorem step_upsertHeads_some (c p : Store) (sv : List Store) (f : Bool) (t : Nat) (hs : List Nat) (cs : Nat) :
    step { committed := c, pending := some p, saves := sv, failed := f } (.upsertHeads t hs (some cs)) =
    { committed := c, pending := some (p.set ⟨.heads, t⟩ (.heads ⟨hs, some cs⟩)), saves := sv, failed := f } := by
  simp [step, applyWrite]

theorem exec_addAllBody (c p : Store) (sv : List Store) (f : Bool) (t : Nat) (chs : List NewChange)
    (heads : List Nat) (cs : Nat) (hf : Fresh p chs) :
    exec { committed := c, pending := some p, saves := sv, failed := f } (addAllBody t chs heads cs) =
    { committed := c, pending := some (postAddAll p t chs heads cs), saves := sv, failed := f } := by
  simp only [addAllBody, exec_append, exec_inserts chs c p sv f hf, exec_cons, exec_nil,
    step_upsertHeads_some, postAddAll]

theorem committed_addAll (s : Store) (t : Nat) (chs : List NewChange) (heads : List Nat) (cs : Nat)
    (hf : Fresh s chs) :
    exec (Db.idle s) (traceOf (.addAll t chs heads cs)) =
      { committed := postAddAll s t chs heads cs } := by
  simp only [traceOf, exec_append, exec_cons, exec_nil, step_begin_idle]
  rw [exec_addAllBody _ _ _ _ _ _ _ _ hf]
  simp [step]

/-! ### `Consistent` is preserved by a well-formed AddAll -/
section post
variable (s : Store) (t : Nat) (chs : List NewChange) (heads : List Nat) (cs : Nat)

theorem changeAt_postAddAll_mem (hnd : (chs.map (·.id)).Nodup) (c : NewChange) (hc : c ∈ chs) :
    changeAt (postAddAll s t chs heads cs) c.id = some c.v := by
  unfold changeAt postAddAll
  rw [Store.get_set]
  simp only [Key.mk.injEq, reduceCtorEq, false_and, if_false]
  rw [get_insertAll_mem chs s hnd c hc]

theorem changeAt_postAddAll_other (id : Nat) (h : ∀ c ∈ chs, c.id ≠ id) :
    changeAt (postAddAll s t chs heads cs) id = changeAt s id := by
  unfold changeAt postAddAll
  rw [Store.get_set]
  simp only [Key.mk.injEq, reduceCtorEq, false_and, if_false]
  rw [get_insertAll_other chs s _ (by intro c hc e; exact h c hc (by simpa using congrArg Key.id e))]

theorem headsAt_postAddAll_self : headsAt (postAddAll s t chs heads cs) t = some ⟨heads, some cs⟩ := by
  unfold headsAt postAddAll
  rw [Store.get_set]; simp

theorem headsAt_postAddAll_other (t' : Nat) (h : t' ≠ t) :
    headsAt (postAddAll s t chs heads cs) t' = headsAt s t' := by
  unfold headsAt postAddAll
  rw [Store.get_set]
  simp only [Key.mk.injEq, true_and, h, if_false]
  rw [get_insertAll_other chs s _ (by intro c _ e; simpa using congrArg Key.coll e)]

theorem recAt_postAddAll (r : Nat) : recAt (postAddAll s t chs heads cs) r = recAt s r := by
  unfold recAt postAddAll
  rw [Store.get_set]
  simp only [Key.mk.injEq, reduceCtorEq, false_and, if_false]
  rw [get_insertAll_other chs s _ (by intro c _ e; simpa using congrArg Key.coll e)]

theorem changeAt_postAddAll_cases (hnd : (chs.map (·.id)).Nodup) (id : Nat) (v : ChangeV)
    (h : changeAt (postAddAll s t chs heads cs) id = some v) :
    (∃ c ∈ chs, c.id = id ∧ c.v = v) ∨ ((∀ c ∈ chs, c.id ≠ id) ∧ changeAt s id = some v) := by
  by_cases hex : ∃ c ∈ chs, c.id = id
  · obtain ⟨c, hc, rfl⟩ := hex
    rw [changeAt_postAddAll_mem s t chs heads cs hnd c hc] at h
    exact Or.inl ⟨c, hc, rfl, by simpa using h⟩
  · have hall : ∀ c ∈ chs, c.id ≠ id := fun c hc e => hex ⟨c, hc, e⟩
    rw [changeAt_postAddAll_other s t chs heads cs id hall] at h
    exact Or.inr ⟨hall, h⟩

end post

/-- fresh ids in terms of `changeAt` -/
theorem fresh_changeAt {s : Store} {chs : List NewChange} (hf : Fresh s chs) (c : NewChange) (hc : c ∈ chs) :
    changeAt s c.id = none := by
  unfold changeAt; rw [hf.1 c hc]

theorem storedBefore_mono {s : Store} {t : Nat} {chs : List NewChange} {heads : List Nat} {cs : Nat}
    (hf : Fresh s chs) {tr o p : Nat} (h : StoredBefore s tr o p) :
    StoredBefore (postAddAll s t chs heads cs) tr o p := by
  obtain ⟨pc, hp, h1, h2⟩ := h
  refine ⟨pc, ?_, h1, h2⟩
  rw [changeAt_postAddAll_other]
  · exact hp
  · intro c hc e
    have := fresh_changeAt hf c hc
    rw [e, hp] at this; cases this

theorem storedIn_mono {s : Store} {t : Nat} {chs : List NewChange} {heads : List Nat} {cs : Nat}
    (hf : Fresh s chs) {tr x : Nat} (h : StoredIn s tr x) :
    StoredIn (postAddAll s t chs heads cs) tr x := by
  obtain ⟨c, hp, h1⟩ := h
  refine ⟨c, ?_, h1⟩
  rw [changeAt_postAddAll_other]
  · exact hp
  · intro c' hc e
    have := fresh_changeAt hf c' hc
    rw [e, hp] at this; cases this

/-- what the caller of `storage.AddAll` guarantees (C01/C06 invariants on the batch): the changes
belong to tree `t`; each one's parents and snapshot base are already stored or are in the batch, and
sort before it; the new heads and the common snapshot are stored or in the batch; the tree's root is
stored or in the batch; the new ids do not collide with ids that own a heads entry -/
structure BatchOk (s : Store) (t : Nat) (chs : List NewChange) (heads : List Nat) (cs : Nat) : Prop where
  fresh  : Fresh s chs
  tree   : ∀ c ∈ chs, c.v.tree = t
  prevs  : ∀ c ∈ chs, ∀ p ∈ c.v.prevs,
             StoredBefore s t c.v.order p ∨ ∃ c' ∈ chs, c'.id = p ∧ c'.v.order < c.v.order
  snap   : ∀ c ∈ chs, ∀ sn, c.v.snap = some sn →
             StoredBefore s t c.v.order sn ∨ ∃ c' ∈ chs, c'.id = sn ∧ c'.v.order < c.v.order
  headsNe : heads ≠ []
  headsIn : ∀ x ∈ heads, StoredIn s t x ∨ ∃ c ∈ chs, c.id = x
  csIn   : StoredIn s t cs ∨ ∃ c ∈ chs, c.id = cs
  root   : StoredIn s t t ∨ ∃ c ∈ chs, c.id = t
  noEntry : ∀ c ∈ chs, c.id ≠ t → headsAt s c.id = none

theorem batch_storedIn {s : Store} {t : Nat} {chs : List NewChange} {heads : List Nat} {cs : Nat}
    (hb : BatchOk s t chs heads cs) (x : Nat) (h : StoredIn s t x ∨ ∃ c ∈ chs, c.id = x) :
    StoredIn (postAddAll s t chs heads cs) t x := by
  rcases h with h | ⟨c, hc, rfl⟩
  · exact storedIn_mono hb.fresh h
  · exact ⟨c.v, changeAt_postAddAll_mem s t chs heads cs hb.fresh.2 c hc, hb.tree c hc⟩

theorem batch_storedBefore {s : Store} {t : Nat} {chs : List NewChange} {heads : List Nat} {cs : Nat}
    (hb : BatchOk s t chs heads cs) (o p : Nat)
    (h : StoredBefore s t o p ∨ ∃ c' ∈ chs, c'.id = p ∧ c'.v.order < o) :
    StoredBefore (postAddAll s t chs heads cs) t o p := by
  rcases h with h | ⟨c, hc, rfl, ho⟩
  · exact storedBefore_mono hb.fresh h
  · exact ⟨c.v, changeAt_postAddAll_mem s t chs heads cs hb.fresh.2 c hc, hb.tree c hc, ho⟩

theorem consistent_postAddAll (s : Store) (acl t : Nat) (chs : List NewChange) (heads : List Nat) (cs : Nat)
    (hacl : t ≠ acl) (hb : BatchOk s t chs heads cs) (hc : Consistent s acl) :
    Consistent (postAddAll s t chs heads cs) acl := by
  have hnd := hb.fresh.2
  refine ⟨?_, ?_, ?_⟩
  · -- every stored change
    intro id v hv
    rcases changeAt_postAddAll_cases s t chs heads cs hnd id v hv with ⟨c, hcm, rfl, rfl⟩ | ⟨_, hold⟩
    · have ht := hb.tree c hcm
      refine ⟨?_, ?_, ?_, ?_⟩
      · intro p hp; rw [ht]; exact batch_storedBefore hb _ _ (hb.prevs c hcm p hp)
      · intro sn hsn; rw [ht]; exact batch_storedBefore hb _ _ (hb.snap c hcm sn hsn)
      · rw [ht, headsAt_postAddAll_self]; rfl
      · rw [ht]; exact batch_storedIn hb t hb.root
    · obtain ⟨h1, h2, h3, h4⟩ := hc.changes id v hold
      refine ⟨fun p hp => storedBefore_mono hb.fresh (h1 p hp),
              fun sn hsn => storedBefore_mono hb.fresh (h2 sn hsn), ?_, storedIn_mono hb.fresh h4⟩
      by_cases hvt : v.tree = t
      · rw [hvt, headsAt_postAddAll_self]; rfl
      · rw [headsAt_postAddAll_other _ _ _ _ _ _ hvt]; exact h3
  · -- heads entries
    intro t' h hne hh hroot
    by_cases htt : t' = t
    · subst htt
      rw [headsAt_postAddAll_self] at hh
      cases hh
      exact ⟨hb.headsNe, fun x hx => batch_storedIn hb x (hb.headsIn x hx),
             fun x hx => by cases hx; exact batch_storedIn hb _ hb.csIn⟩
    · rw [headsAt_postAddAll_other _ _ _ _ _ _ htt] at hh
      obtain ⟨rc, hrc, hrt⟩ := hroot
      rcases changeAt_postAddAll_cases s t chs heads cs hnd t' rc hrc with ⟨c, hcm, hid, _⟩ | ⟨_, hold⟩
      · have := hb.noEntry c hcm (by rw [hid]; exact htt)
        rw [hid, hh] at this; cases this
      · obtain ⟨g1, g2, g3⟩ := hc.heads t' h hne hh ⟨rc, hold, hrt⟩
        exact ⟨g1, fun x hx => storedIn_mono hb.fresh (g2 x hx), fun x hx => storedIn_mono hb.fresh (g3 x hx)⟩
  · -- the ACL is untouched
    obtain ⟨h, r, rv, a1, a2, a3, a4, a5, a6⟩ := hc.acl
    refine ⟨h, r, rv, ?_, a2, ?_, ?_, ?_, ?_⟩
    · rw [headsAt_postAddAll_other _ _ _ _ _ _ (Ne.symm hacl)]; exact a1
    · rw [recAt_postAddAll]; exact a3
    · intro r' rv' hr; rw [recAt_postAddAll] at hr; exact a4 r' rv' hr
    · intro r' rv' hr; rw [recAt_postAddAll] at hr
      have := a5 r' rv' hr
      cases hp : rv'.prev with
      | none => simpa [hp] using this
      | some p =>
        simp only [hp] at this ⊢
        obtain ⟨pv, h1, h2⟩ := this
        exact ⟨pv, by rw [recAt_postAddAll]; exact h1, h2⟩
    · intro r1 r2 v1 v2 h1 h2; rw [recAt_postAddAll] at h1 h2; exact a6 r1 r2 v1 v2 h1 h2

/-! ### tree creation (eager and deferred) -/
def rootNew (t : Nat) : NewChange := ⟨t, ⟨t, [], none, 0⟩⟩

theorem createStorageCalls_eq (t : Nat) : createStorageCalls t = addAllBody t [rootNew t] [t] t := rfl

/-- state after CreateStorage(Tx) -/
def postTreeCreate (s : Store) (t : Nat) : Store := postAddAll s t [rootNew t] [t] t

theorem fresh_root {s : Store} {t : Nat} (h : s.get ⟨.changes, t⟩ = none) : Fresh s [rootNew t] :=
  ⟨by intro c hc; simp only [List.mem_singleton] at hc; subst hc; exact h, by simp⟩

theorem committed_treeCreate (s : Store) (t : Nat) (h : s.get ⟨.changes, t⟩ = none) :
    exec (Db.idle s) (traceOf (.treeCreate t)) = { committed := postTreeCreate s t } := by
  simp only [traceOf, exec_append, exec_cons, exec_nil, step_begin_idle, createStorageCalls_eq]
  rw [exec_addAllBody _ _ _ _ _ _ _ _ (fresh_root h)]
  simp [step, postTreeCreate]

theorem batchOk_root (s : Store) (t : Nat) (h : s.get ⟨.changes, t⟩ = none) :
    BatchOk s t [rootNew t] [t] t where
  fresh := fresh_root h
  tree := by intro c hc; simp only [List.mem_singleton] at hc; subst hc; rfl
  prevs := by intro c hc p hp; simp only [List.mem_singleton] at hc; subst hc; simp [rootNew] at hp
  snap := by intro c hc sn hsn; simp only [List.mem_singleton] at hc; subst hc; simp [rootNew] at hsn
  headsNe := by simp
  headsIn := by intro x hx; simp only [List.mem_singleton] at hx; subst hx; exact Or.inr ⟨rootNew x, by simp, rfl⟩
  csIn := Or.inr ⟨rootNew t, by simp, rfl⟩
  root := Or.inr ⟨rootNew t, by simp, rfl⟩
  noEntry := by intro c hc hne; simp only [List.mem_singleton] at hc; subst hc; exact absurd rfl hne

theorem committed_deferred (s : Store) (t : Nat) (chs : List NewChange) (heads : List Nat) (cs : Nat)
    (h : s.get ⟨.changes, t⟩ = none) (hf : Fresh (postTreeCreate s t) chs) :
    exec (Db.idle s) (traceOf (.deferredAddAll t chs heads cs)) =
      { committed := postAddAll (postTreeCreate s t) t chs heads cs } := by
  simp only [traceOf, exec_append, exec_cons, exec_nil, step_begin_idle, createStorageCalls_eq]
  rw [exec_addAllBody _ _ _ _ _ _ _ _ (fresh_root h)]
  have hsb : step { committed := s, pending := some (postAddAll s t [rootNew t] [t] t), saves := [], failed := false } .sbegin
      = { committed := s, pending := some (postTreeCreate s t), saves := [postTreeCreate s t], failed := false } := by
    simp [step, postTreeCreate]
  rw [hsb, exec_addAllBody _ _ _ _ _ _ _ _ hf]
  simp [step]

/-! ### ACL record add -/

def postAclAdd (s : Store) (acl r : Nat) (v : RecV) : Store :=
  let s1 := s.set ⟨.acl, r⟩ (.record v)
  s1.set ⟨.heads, acl⟩ (.heads ⟨[r], oldCs s1 acl⟩)

theorem committed_aclAdd (s : Store) (acl r : Nat) (v : RecV) (h : s.get ⟨.acl, r⟩ = none) :
    exec (Db.idle s) (traceOf (.aclAdd acl r v)) = { committed := postAclAdd s acl r v } := by
  simp only [traceOf, exec_cons, exec_nil, step_begin_idle]
  simp [step, applyWrite, h, postAclAdd]

theorem changeAt_postAclAdd (s : Store) (acl r : Nat) (v : RecV) (id : Nat) :
    changeAt (postAclAdd s acl r v) id = changeAt s id := by
  unfold changeAt postAclAdd
  simp only [Store.get_set, Key.mk.injEq, reduceCtorEq, false_and, if_false]

theorem headsAt_postAclAdd_other (s : Store) (acl r : Nat) (v : RecV) (t : Nat) (h : t ≠ acl) :
    headsAt (postAclAdd s acl r v) t = headsAt s t := by
  unfold headsAt postAclAdd
  simp only [Store.get_set, Key.mk.injEq, reduceCtorEq, false_and, if_false, true_and, h]

theorem headsAt_postAclAdd_self (s : Store) (acl r : Nat) (v : RecV) :
    ∃ h, headsAt (postAclAdd s acl r v) acl = some h ∧ h.heads = [r] := by
  unfold headsAt postAclAdd
  simp only [Store.get_set, if_true]
  exact ⟨_, rfl, rfl⟩

theorem recAt_postAclAdd (s : Store) (acl r : Nat) (v : RecV) (r' : Nat) :
    recAt (postAclAdd s acl r v) r' = if r' = r then some v else recAt s r' := by
  unfold recAt postAclAdd
  simp only [Store.get_set, Key.mk.injEq, reduceCtorEq, false_and, if_false, true_and]
  by_cases h : r' = r <;> simp [h]

theorem consistent_postAclAdd (s : Store) (acl r : Nat) (v : RecV) (h : HeadsV) (r0 : Nat) (rv0 : RecV)
    (hfresh : s.get ⟨.acl, r⟩ = none)
    (hh : headsAt s acl = some h) (hr : h.heads = [r0]) (hrv : recAt s r0 = some rv0)
    (hprev : v.prev = some r0) (hord : v.order = rv0.order + 1)
    (hc : Consistent s acl) : Consistent (postAclAdd s acl r v) acl := by
  have hrnone : recAt s r = none := by unfold recAt; rw [hfresh]
  obtain ⟨h', r1, rv1, a1, a2, a3, a4, a5, a6⟩ := hc.acl
  -- the head named by the hypothesis is the head of the invariant
  have e1 : h' = h := by rw [hh] at a1; cases a1; rfl
  subst e1
  have e2 : r1 = r0 := by rw [hr] at a2; cases a2; rfl
  subst e2
  have e3 : rv1 = rv0 := by rw [hrv] at a3; cases a3; rfl
  subst e3
  have hne : r1 ≠ r := by intro e; rw [e, hrnone] at hrv; cases hrv
  refine ⟨?_, ?_, ?_⟩
  · intro id c hcid
    rw [changeAt_postAclAdd] at hcid
    obtain ⟨h1, h2, h3, h4⟩ := hc.changes id c hcid
    refine ⟨?_, ?_, ?_, ?_⟩
    · intro p hp; obtain ⟨pc, q1, q2, q3⟩ := h1 p hp; exact ⟨pc, by rw [changeAt_postAclAdd]; exact q1, q2, q3⟩
    · intro sn hsn; obtain ⟨pc, q1, q2, q3⟩ := h2 sn hsn; exact ⟨pc, by rw [changeAt_postAclAdd]; exact q1, q2, q3⟩
    · by_cases hta : c.tree = acl
      · obtain ⟨hd, hd1, _⟩ := headsAt_postAclAdd_self s acl r v
        rw [hta, hd1]; rfl
      · rw [headsAt_postAclAdd_other _ _ _ _ _ hta]; exact h3
    · obtain ⟨rc, q1, q2⟩ := h4; exact ⟨rc, by rw [changeAt_postAclAdd]; exact q1, q2⟩
  · intro t ht hne' hht hroot
    rw [headsAt_postAclAdd_other _ _ _ _ _ hne'] at hht
    obtain ⟨rc, q1, q2⟩ := hroot
    rw [changeAt_postAclAdd] at q1
    obtain ⟨g1, g2, g3⟩ := hc.heads t ht hne' hht ⟨rc, q1, q2⟩
    refine ⟨g1, ?_, ?_⟩
    · intro x hx; obtain ⟨c, w1, w2⟩ := g2 x hx; exact ⟨c, by rw [changeAt_postAclAdd]; exact w1, w2⟩
    · intro x hx; obtain ⟨c, w1, w2⟩ := g3 x hx; exact ⟨c, by rw [changeAt_postAclAdd]; exact w1, w2⟩
  · obtain ⟨hd, hd1, hd2⟩ := headsAt_postAclAdd_self s acl r v
    refine ⟨hd, r, v, hd1, hd2, by rw [recAt_postAclAdd]; simp, ?_, ?_, ?_⟩
    · intro r' rv' hr'
      rw [recAt_postAclAdd] at hr'
      split at hr'
      · cases hr'; exact Nat.le_refl _
      · have := a4 r' rv' hr'; omega
    · intro r' rv' hr'
      rw [recAt_postAclAdd] at hr'
      split at hr'
      · cases hr'
        simp only [hprev]
        exact ⟨rv1, by rw [recAt_postAclAdd]; simp [hne, hrv], hord.symm⟩
      · have := a5 r' rv' hr'
        cases hp : rv'.prev with
        | none => simpa [hp] using this
        | some p =>
          simp only [hp] at this ⊢
          obtain ⟨pv, w1, w2⟩ := this
          have hpn : p ≠ r := by intro e; rw [e, hrnone] at w1; cases w1
          exact ⟨pv, by rw [recAt_postAclAdd]; simp [hpn, w1], w2⟩
    · intro x y vx vy hx hy hxy
      rw [recAt_postAclAdd] at hx hy
      split at hx <;> split at hy
      · rename_i ex ey; rw [ex, ey]
      · cases hx; have := a4 y vy hy; omega
      · cases hy; have := a4 x vx hx; omega
      · exact a6 x y vx vy hx hy hxy

/-! ### tree delete -/

theorem changeAt_eraseTree (s : Store) (t id : Nat) :
    changeAt (s.eraseTree t) id = match changeAt s id with
      | some c => if c.tree = t then none else some c
      | none => none := by
  unfold changeAt Store.eraseTree
  rw [Store.get_filterKeys]
  simp only [Store.inTree]
  cases hg : s.get ⟨.changes, id⟩ with
  | none => simp
  | some v =>
    cases v with
    | change c => by_cases hct : c.tree = t <;> simp [hct]
    | heads h => simp
    | record r => simp
    | space => simp

theorem headsAt_eraseTree (s : Store) (t id : Nat) : headsAt (s.eraseTree t) id = headsAt s id := by
  unfold headsAt Store.eraseTree
  rw [Store.get_filterKeys]; simp [Store.inTree]

theorem recAt_eraseTree (s : Store) (t id : Nat) : recAt (s.eraseTree t) id = recAt s id := by
  unfold recAt Store.eraseTree
  rw [Store.get_filterKeys]; simp [Store.inTree]

theorem committed_treeDelete (s : Store) (t : Nat) :
    exec (Db.idle s) (traceOf (.treeDelete t)) = { committed := s.eraseTree t } := by
  simp only [traceOf, exec_cons, exec_nil, step_begin_idle]
  simp [step, applyWrite]

theorem changeAt_eraseTree_keep {s : Store} {t id : Nat} {c : ChangeV} (h : changeAt s id = some c) (hne : c.tree ≠ t) :
    changeAt (s.eraseTree t) id = some c := by
  rw [changeAt_eraseTree, h]; simp [hne]

theorem changeAt_eraseTree_some {s : Store} {t id : Nat} {c : ChangeV} (h : changeAt (s.eraseTree t) id = some c) :
    changeAt s id = some c ∧ c.tree ≠ t := by
  rw [changeAt_eraseTree] at h
  cases hc : changeAt s id with
  | none => simp [hc] at h
  | some c' =>
    simp only [hc] at h
    split at h
    · cases h
    · cases h; exact ⟨rfl, by assumption⟩

theorem consistent_eraseTree (s : Store) (acl t : Nat) (hc : Consistent s acl) :
    Consistent (s.eraseTree t) acl := by
  refine ⟨?_, ?_, ?_⟩
  · intro id c hcid
    obtain ⟨hold, hne⟩ := changeAt_eraseTree_some hcid
    obtain ⟨h1, h2, h3, h4⟩ := hc.changes id c hold
    refine ⟨?_, ?_, ?_, ?_⟩
    · intro p hp; obtain ⟨pc, q1, q2, q3⟩ := h1 p hp
      exact ⟨pc, changeAt_eraseTree_keep q1 (by rw [q2]; exact hne), q2, q3⟩
    · intro sn hsn; obtain ⟨pc, q1, q2, q3⟩ := h2 sn hsn
      exact ⟨pc, changeAt_eraseTree_keep q1 (by rw [q2]; exact hne), q2, q3⟩
    · rw [headsAt_eraseTree]; exact h3
    · obtain ⟨rc, q1, q2⟩ := h4
      exact ⟨rc, changeAt_eraseTree_keep q1 (by rw [q2]; exact hne), q2⟩
  · intro t' h hne hh hroot
    rw [headsAt_eraseTree] at hh
    obtain ⟨rc, q1, q2⟩ := hroot
    obtain ⟨qold, qne⟩ := changeAt_eraseTree_some q1
    obtain ⟨g1, g2, g3⟩ := hc.heads t' h hne hh ⟨rc, qold, q2⟩
    have htt : t' ≠ t := by rw [← q2]; exact qne
    refine ⟨g1, ?_, ?_⟩
    · intro x hx; obtain ⟨c, w1, w2⟩ := g2 x hx
      exact ⟨c, changeAt_eraseTree_keep w1 (by rw [w2]; exact htt), w2⟩
    · intro x hx; obtain ⟨c, w1, w2⟩ := g3 x hx
      exact ⟨c, changeAt_eraseTree_keep w1 (by rw [w2]; exact htt), w2⟩
  · obtain ⟨h, r, rv, a1, a2, a3, a4, a5, a6⟩ := hc.acl
    refine ⟨h, r, rv, by rw [headsAt_eraseTree]; exact a1, a2, by rw [recAt_eraseTree]; exact a3, ?_, ?_, ?_⟩
    · intro r' rv' hr; rw [recAt_eraseTree] at hr; exact a4 r' rv' hr
    · intro r' rv' hr; rw [recAt_eraseTree] at hr
      have := a5 r' rv' hr
      cases hp : rv'.prev with
      | none => simpa [hp] using this
      | some p =>
        simp only [hp] at this ⊢
        obtain ⟨pv, w1, w2⟩ := this
        exact ⟨pv, by rw [recAt_eraseTree]; exact w1, w2⟩
    · intro r1 r2 v1 v2 h1 h2; rw [recAt_eraseTree] at h1 h2; exact a6 r1 r2 v1 v2 h1 h2

/-! ### space creation -/

/-- the store inside spacestorage.Create's transaction just before the settings tree is created -/
def spaceBase (space acl : Nat) : Store :=
  let s0 : Store := {}
  let s1 := ((s0.mkColl .changes).addIndex .changes).mkColl .state
  let s2 := s1.set ⟨.state, space⟩ .space
  let s3 := ((((s2.mkColl .heads).addIndex .heads).addIndex .heads).addIndex .heads).mkColl .acl
  let s4 := (s3.addIndex .acl).set ⟨.acl, acl⟩ (.record ⟨none, 1⟩)
  s4.set ⟨.heads, acl⟩ (.heads ⟨[acl], oldCs s4 acl⟩)

theorem Store.get_empty (k : Key) : ({} : Store).get k = none := rfl

theorem committed_spaceCreate (space acl settings : Nat) :
    exec (Db.idle {}) (traceOf (.spaceCreate space acl settings)) =
      { committed := postTreeCreate (spaceBase space acl) settings } := by
  have hfresh : (spaceBase space acl).get ⟨.changes, settings⟩ = none := by
    simp [spaceBase, Store.get_set, Store.get_mkColl, Store.get_addIndex, Store.get_empty]
  have h1 : exec { committed := ({} : Store), pending := some {} }
      [.mkcoll .changes, .idx .changes, .mkcoll .state, .insert ⟨.state, space⟩ .space,
       .mkcoll .heads, .idx .heads, .idx .heads, .idx .heads, .mkcoll .acl, .idx .acl,
       .insert ⟨.acl, acl⟩ (.record ⟨none, 1⟩), .upsertHeads acl [acl] none] =
      { committed := {}, pending := some (spaceBase space acl) } := by
    simp [exec, step, applyWrite, spaceBase, Store.get_set, Store.get_mkColl, Store.get_addIndex, Store.get_empty]
  have ht : traceOf (.spaceCreate space acl settings) = Call.begin ::
      ([.mkcoll .changes, .idx .changes, .mkcoll .state, .insert ⟨.state, space⟩ .space,
        .mkcoll .heads, .idx .heads, .idx .heads, .idx .heads, .mkcoll .acl, .idx .acl,
        .insert ⟨.acl, acl⟩ (.record ⟨none, 1⟩), .upsertHeads acl [acl] none]
        ++ createStorageCalls settings ++ [.commit]) := rfl
  rw [ht, exec_cons, step_begin_idle, exec_append, exec_append, h1, createStorageCalls_eq,
    exec_addAllBody _ _ _ _ _ _ _ _ (fresh_root hfresh)]
  simp [exec, step, postTreeCreate]

/-- the base state satisfies the predicate (no tree yet; the ACL consists of its root) -/
theorem consistent_spaceBase (space acl : Nat) : Consistent (spaceBase space acl) acl := by
  have hch : ∀ id, changeAt (spaceBase space acl) id = none := by
    intro id
    simp [changeAt, spaceBase, Store.get_set, Store.get_mkColl, Store.get_addIndex, Store.get_empty]
  have hrec : ∀ r, recAt (spaceBase space acl) r = if r = acl then some ⟨none, 1⟩ else none := by
    intro r
    by_cases h : r = acl <;>
      simp [recAt, spaceBase, Store.get_set, Store.get_mkColl, Store.get_addIndex, Store.get_empty, h]
  refine ⟨?_, ?_, ?_⟩
  · intro id c h; rw [hch] at h; cases h
  · intro t h _ _ hroot; obtain ⟨c, hc, _⟩ := hroot; rw [hch] at hc; cases hc
  · have hh : ∃ h, headsAt (spaceBase space acl) acl = some h ∧ h.heads = [acl] := by
      unfold headsAt spaceBase
      simp only [Store.get_set, if_true]
      exact ⟨_, rfl, rfl⟩
    obtain ⟨h, hh1, hh2⟩ := hh
    refine ⟨h, acl, ⟨none, 1⟩, hh1, hh2, by rw [hrec]; simp, ?_, ?_, ?_⟩
    · intro r' rv' h; rw [hrec] at h; split at h <;> cases h; exact Nat.le_refl _
    · intro r' rv' h; rw [hrec] at h; split at h <;> cases h; rfl
    · intro r1 r2 v1 v2 h1 h2 _; rw [hrec] at h1 h2
      split at h1 <;> split at h2 <;> simp_all

/-! ### the driver's boolean predicate is sound for `Consistent` -/

theorem get_mem {s : Store} {k : Key} {v : Val} (h : s.get k = some v) : (k, v) ∈ s.docs := by
  unfold Store.get at h
  split at h
  · rename_i kv hf
    cases h
    have hm := List.mem_of_find?_eq_some hf
    have hk := List.find?_some hf
    simp only [decide_eq_true_eq] at hk
    rw [← hk]; exact hm
  · cases h

theorem changeAt_get {s : Store} {id : Nat} {c : ChangeV} (h : changeAt s id = some c) :
    s.get ⟨.changes, id⟩ = some (.change c) := by
  unfold changeAt at h
  split at h
  · cases h; assumption
  · cases h

theorem headsAt_get {s : Store} {id : Nat} {hv : HeadsV} (h : headsAt s id = some hv) :
    s.get ⟨.heads, id⟩ = some (.heads hv) := by
  unfold headsAt at h
  split at h
  · cases h; assumption
  · cases h

theorem recAt_get {s : Store} {id : Nat} {r : RecV} (h : recAt s id = some r) :
    s.get ⟨.acl, id⟩ = some (.record r) := by
  unfold recAt at h
  split at h
  · cases h; assumption
  · cases h

theorem storedBeforeB_sound {s : Store} {t o p : Nat} (h : storedBeforeB s t o p = true) : StoredBefore s t o p := by
  unfold storedBeforeB at h
  split at h
  · rename_i pc hp
    simp only [decide_eq_true_eq] at h
    exact ⟨pc, hp, h.1, h.2⟩
  · cases h

theorem storedInB_sound {s : Store} {t x : Nat} (h : storedInB s t x = true) : StoredIn s t x := by
  unfold storedInB at h
  split at h
  · rename_i c hc
    simp only [decide_eq_true_eq] at h
    exact ⟨c, hc, h⟩
  · cases h

theorem storedInB_complete {s : Store} {t x : Nat} (h : StoredIn s t x) : storedInB s t x = true := by
  obtain ⟨c, hc, ht⟩ := h
  unfold storedInB; rw [hc]; simp [ht]

theorem changeOkB_sound {s : Store} {c : ChangeV} (h : changeOkB s c = true) : ChangeOk s c := by
  unfold changeOkB at h
  simp only [Bool.and_eq_true, List.all_eq_true] at h
  obtain ⟨⟨⟨h1, h2⟩, h3⟩, h4⟩ := h
  refine ⟨fun p hp => storedBeforeB_sound (h1 p hp), ?_, h3, storedInB_sound h4⟩
  intro sn hsn
  rw [hsn] at h2
  exact storedBeforeB_sound h2

theorem headsOkB_sound {s : Store} {t : Nat} {hv : HeadsV} (h : headsOkB s t hv = true) : HeadsOk s t hv := by
  unfold headsOkB at h
  simp only [Bool.and_eq_true, List.all_eq_true, Bool.not_eq_true', List.isEmpty_eq_false_iff] at h
  obtain ⟨⟨h1, h2⟩, h3⟩ := h
  refine ⟨h1, fun x hx => storedInB_sound (h2 x hx), ?_⟩
  intro x hx
  rw [hx] at h3
  exact storedInB_sound h3

theorem recsOf_mem {s : Store} {r : Nat} {rv : RecV} (h : recAt s r = some rv) : (r, rv) ∈ recsOf s := by
  have hm := get_mem (recAt_get h)
  unfold recsOf
  rw [List.mem_filterMap]
  exact ⟨(⟨.acl, r⟩, .record rv), hm, by simp [h]⟩

theorem aclOkB_sound {s : Store} {acl : Nat} (h : aclOkB s acl = true) : AclOk s acl := by
  unfold aclOkB at h
  split at h
  · rename_i hv hh
    split at h
    · rename_i r hr
      split at h
      · rename_i rv hrv
        simp only [Bool.and_eq_true, List.all_eq_true, decide_eq_true_eq] at h
        obtain ⟨⟨h1, h2⟩, h3⟩ := h
        refine ⟨hv, r, rv, hh, hr, hrv, ?_, ?_, ?_⟩
        · intro r' rv' hr'; exact h1 _ (recsOf_mem hr')
        · intro r' rv' hr'
          have := h2 _ (recsOf_mem hr')
          cases hp : rv'.prev with
          | none => simpa [hp] using this
          | some p =>
            simp only [hp] at this ⊢
            split at this
            · rename_i pv hpv
              simp only [decide_eq_true_eq] at this
              exact ⟨pv, hpv, this⟩
            · cases this
        · intro r1 r2 v1 v2 hr1 hr2 ho
          have := h3 _ (recsOf_mem hr1) _ (recsOf_mem hr2)
          rcases this with hne | he
          · exact absurd ho hne
          · exact he
      · cases h
    · cases h
  · cases h

/-! ### AddAllNoError and derived children -/

theorem exec_insertDups (ds : List Nat) : ∀ (c p : Store) (sv : List Store) (f : Bool),
    exec { committed := c, pending := some p, saves := sv, failed := f }
      (ds.map (fun d => Call.insertDup ⟨.changes, d⟩)) =
    { committed := c, pending := some p, saves := sv, failed := f } := by
  induction ds with
  | nil => intro c p sv f; rfl
  | cons d rest ih =>
    intro c p sv f
    simp only [List.map_cons, exec_cons]
    have : step { committed := c, pending := some p, saves := sv, failed := f } (Call.insertDup ⟨.changes, d⟩) =
        { committed := c, pending := some p, saves := sv, failed := f } := by
      simp [step, applyWrite]
    rw [this, ih]

theorem committed_addAllNoError (s : Store) (t : Nat) (dups : List Nat) (chs : List NewChange)
    (heads : List Nat) (cs : Nat) (hf : Fresh s chs) :
    exec (Db.idle s) (traceOf (.addAllNoError t dups chs heads cs)) =
      { committed := postAddAll s t chs heads cs } := by
  simp only [traceOf, exec_append, exec_cons, exec_nil, step_begin_idle]
  rw [exec_insertDups, exec_addAllBody _ _ _ _ _ _ _ _ hf]
  simp [step]

theorem committed_treeCreateChild (s : Store) (t : Nat) (q : Bool) (h : s.get ⟨.changes, t⟩ = none) :
    exec (Db.idle s) (traceOf (.treeCreateChild t q)) = { committed := postTreeCreate s t } := by
  simp only [traceOf, exec_append, exec_cons, exec_nil, step_begin_idle, createStorageCalls_eq]
  rw [exec_addAllBody _ _ _ _ _ _ _ _ (fresh_root h)]
  cases q <;> simp [exec, step, applyWrite, postTreeCreate]

end AnySync.Store
