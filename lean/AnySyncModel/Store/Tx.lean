/-
Model of the storage layer as any-sync uses it (C10).

any-store (SQLite) is modelled, per DESIGN §3, as a `committed` store plus an optional open write
transaction `pending` (with a stack of savepoints, which any-store creates for a `WriteTx` requested
inside a transaction). A write issued while no transaction is open goes straight to `committed`
(any-store wraps it in its own transaction and commits it). `crash` discards `pending`.
ATOMICITY OF A COMMIT AND DURABILITY (fsync) ARE ASSUMED HERE, NOT MODELLED: that is SQLite's job.

Each any-sync operation is the *sequence of storage calls the real code issues* (`traceOf`), mirroring
  spacestorage.Create                         (one tx: collections, indexes, state doc, ACL root, settings root)
  objecttree.CreateStorage                    (one tx: root insert + heads entry)
  storage.AddAll                              (one tx: inserts + heads entry)
  storageDeferredCreation.createStorageAndDoInTx (one tx: CreateStorageTx, then AddAll in a savepoint)
  acl storage.AddAll                          (one tx: insert + heads entry)
  storage.Delete                              (one tx: delete every change of the tree)
The harness records the real calls through a wrapping anystore.DB and compares them with `traceOf`
on every run.
-/
namespace AnySync.Store

inductive Coll where
  | changes | heads | acl | state
deriving DecidableEq, Repr, Inhabited

structure Key where
  coll : Coll
  id   : Nat
deriving DecidableEq, Repr, Inhabited

/-- a stored tree change (`changes` collection) -/
structure ChangeV where
  tree  : Nat
  prevs : List Nat
  snap  : Option Nat      -- snapshot base (none for the root)
  order : Nat             -- lexid order id, embedded order-preservingly into Nat by the harness
deriving DecidableEq, Repr, Inhabited

/-- a heads entry (`heads` collection): trees carry a common snapshot, the ACL does not -/
structure HeadsV where
  heads : List Nat
  cs    : Option Nat
deriving DecidableEq, Repr, Inhabited

/-- a stored ACL record -/
structure RecV where
  prev  : Option Nat
  order : Nat
deriving DecidableEq, Repr, Inhabited

inductive Val where
  | change (c : ChangeV)
  | heads  (h : HeadsV)
  | record (r : RecV)
  | space
deriving DecidableEq, Repr, Inhabited

/-- documents (association list; only `get` is used by the specification) plus the DDL state:
created collections and the number of indexes on each -/
structure Store where
  docs  : List (Key × Val) := []
  colls : List (Coll × Nat) := []
deriving DecidableEq, Repr, Inhabited

namespace Store

def get (s : Store) (k : Key) : Option Val :=
  match s.docs.find? (fun kv => kv.1 = k) with
  | some kv => some kv.2
  | none => none

def erase (s : Store) (k : Key) : Store :=
  { s with docs := s.docs.filter (fun kv => kv.1 ≠ k) }

/-- insert or replace -/
def set (s : Store) (k : Key) (v : Val) : Store :=
  { s with docs := (k, v) :: (s.docs.filter (fun kv => kv.1 ≠ k)) }

/-- the document under key `k` is a change of tree `t` -/
def inTree (s : Store) (t : Nat) (k : Key) : Bool :=
  k.coll = .changes && (match s.get k with
    | some (.change c) => c.tree = t
    | _ => false)

/-- keep the documents whose key satisfies `q` -/
def filterKeys (s : Store) (q : Key → Bool) : Store :=
  { s with docs := s.docs.filter (fun kv => q kv.1) }

/-- `Find(t == tree).Delete` on the changes collection -/
def eraseTree (s : Store) (t : Nat) : Store := s.filterKeys (fun k => !s.inTree t k)

def hasColl (s : Store) (c : Coll) : Bool := s.colls.any (fun x => x.1 = c)

def mkColl (s : Store) (c : Coll) : Store :=
  if s.hasColl c then s else { s with colls := s.colls ++ [(c, 0)] }

def addIndex (s : Store) (c : Coll) : Store :=
  { s with colls := s.colls.map (fun x => if x.1 = c then (x.1, x.2 + 1) else x) }

end Store

/-- one storage call as the wrapping anystore.DB records it -/
inductive Call where
  | begin | commit | rollback
  | sbegin | scommit | srollback
  | mkcoll (c : Coll)
  | idx (c : Coll)
  | insert (k : Key) (v : Val)
  /-- `UpsertId` with headstorage's modifier: heads replaced, common snapshot replaced if given -/
  | upsertHeads (id : Nat) (heads : List Nat) (cs : Option Nat)
  | qdelTree (t : Nat)
  /-- an insert the store answers with "document exists": no effect; `AddAllNoError` goes on -/
  | insertDup (k : Key)
  /-- `UpsertId` on an existing heads entry that changes only fields the model does not carry
  (deleted-status of a late-arriving child) -/
  | touchHeads (id : Nat)
deriving DecidableEq, Repr, Inhabited

def Call.isWrite : Call → Bool
  | .mkcoll _ | .idx _ | .insert _ _ | .upsertHeads _ _ _ | .qdelTree _ | .insertDup _ | .touchHeads _ => true
  | _ => false

/-- top-level transaction control -/
def Call.isTxCtl : Call → Bool
  | .begin | .commit | .rollback => true
  | _ => false

structure Db where
  committed : Store := {}
  pending   : Option Store := none
  saves     : List Store := []     -- savepoint stack (innermost first)
  /-- a call that any-store answers with an error (begin inside a tx is a savepoint, so: commit or
  rollback without tx, savepoint ops without tx, insert of an existing id) -/
  failed    : Bool := false
deriving DecidableEq, Repr, Inhabited

/-- the common snapshot recorded in an existing heads entry -/
def oldCs (s : Store) (id : Nat) : Option Nat :=
  match s.get ⟨.heads, id⟩ with
  | some (.heads h) => h.cs
  | _ => none

def applyWrite (s : Store) : Call → Option Store
  | .mkcoll c => some (s.mkColl c)
  | .idx c => some (s.addIndex c)
  | .insert k v => if (s.get k).isSome then none else some (s.set k v)
  | .upsertHeads id hs cs =>
      some (s.set ⟨.heads, id⟩ (.heads ⟨hs, match cs with | some c => some c | none => oldCs s id⟩))
  | .qdelTree t => some (s.eraseTree t)
  | _ => some s

def step (d : Db) (c : Call) : Db :=
  match c with
  | .begin =>
    match d.pending with
    | none => { d with pending := some d.committed, saves := [] }
    | some _ => { d with failed := true }
  | .commit =>
    match d.pending with
    | some p => { d with committed := p, pending := none, saves := [] }
    | none => { d with failed := true }
  | .rollback =>
    match d.pending with
    | some _ => { d with pending := none, saves := [] }
    | none => { d with failed := true }
  | .sbegin =>
    match d.pending with
    | some p => { d with saves := p :: d.saves }
    | none => { d with failed := true }
  | .scommit =>
    match d.pending, d.saves with
    | some _, _ :: rest => { d with saves := rest }
    | _, _ => { d with failed := true }
  | .srollback =>
    match d.pending, d.saves with
    | some _, p :: rest => { d with pending := some p, saves := rest }
    | _, _ => { d with failed := true }
  | w =>
    match d.pending with
    | some p =>
      match applyWrite p w with
      | some p' => { d with pending := some p' }
      | none => { d with failed := true }
    | none =>
      -- no transaction: any-store runs the write in its own transaction and commits it
      match applyWrite d.committed w with
      | some c' => { d with committed := c' }
      | none => { d with failed := true }

def exec (d : Db) (tr : List Call) : Db := tr.foldl step d

/-- the process dies: the open transaction is gone -/
def crash (d : Db) : Store := d.committed

/-- durable state found after a crash just before call `k` of `tr` (k = length: after the last call) -/
def crashAt (d : Db) (tr : List Call) (k : Nat) : Store := crash (exec d (tr.take k))

/-- a database with nothing in flight -/
def Db.idle (s : Store) : Db := { committed := s }

/-! ## operations and the storage calls they issue -/

structure NewChange where
  id : Nat
  v  : ChangeV
deriving DecidableEq, Repr, Inhabited

inductive Op where
  /-- spacestorage.Create -/
  | spaceCreate (space acl settings : Nat)
  /-- objecttree.CreateStorage (eager): root + heads entry -/
  | treeCreate (t : Nat)
  /-- storage.AddAll: local add, snapshot add, remote add (with or without rebuild) -/
  | addAll (t : Nat) (chs : List NewChange) (heads : List Nat) (cs : Nat)
  /-- storageDeferredCreation.AddAll on a tree that is not stored yet -/
  | deferredAddAll (t : Nat) (chs : List NewChange) (heads : List Nat) (cs : Nat)
  /-- acl storage.AddAll with one record -/
  | aclAdd (acl rec : Nat) (v : RecV)
  /-- storage.Delete -/
  | treeDelete (t : Nat)
  /-- storage.AddAllNoError: as AddAll, but changes that are stored already (`dups`) are skipped -/
  | addAllNoError (t : Nat) (dups : List Nat) (chs : List NewChange) (heads : List Nat) (cs : Nat)
  /-- CreateStorage of a derived tree bound to a parent; `queued`: the parent is already queued for
  deletion, so the child's entry is marked in the same transaction -/
  | treeCreateChild (t : Nat) (queued : Bool)
deriving Repr, Inhabited

def rootChange (t : Nat) : Val := .change ⟨t, [], none, 0⟩

/-- CreateStorageTx: insert the root, write the heads entry -/
def createStorageCalls (t : Nat) : List Call :=
  [.insert ⟨.changes, t⟩ (rootChange t), .upsertHeads t [t] (some t)]

/-- the body of storage.AddAll between begin and commit -/
def addAllBody (t : Nat) (chs : List NewChange) (heads : List Nat) (cs : Nat) : List Call :=
  chs.map (fun c => Call.insert ⟨.changes, c.id⟩ (.change c.v)) ++ [.upsertHeads t heads (some cs)]

def traceOf : Op → List Call
  | .spaceCreate space acl settings =>
    [.begin,
     .mkcoll .changes, .idx .changes,
     .mkcoll .state, .insert ⟨.state, space⟩ .space,
     .mkcoll .heads, .idx .heads, .idx .heads, .idx .heads,
     .mkcoll .acl, .idx .acl, .insert ⟨.acl, acl⟩ (.record ⟨none, 1⟩), .upsertHeads acl [acl] none]
    ++ createStorageCalls settings ++ [.commit]
  | .treeCreate t => [.begin] ++ createStorageCalls t ++ [.commit]
  | .addAll t chs heads cs => [.begin] ++ addAllBody t chs heads cs ++ [.commit]
  | .deferredAddAll t chs heads cs =>
    [.begin] ++ createStorageCalls t ++ [.sbegin] ++ addAllBody t chs heads cs ++ [.scommit, .commit]
  | .aclAdd acl r v => [.begin, .insert ⟨.acl, r⟩ (.record v), .upsertHeads acl [r] none, .commit]
  | .treeDelete t => [.begin, .qdelTree t, .commit]
  | .addAllNoError t dups chs heads cs =>
    [.begin] ++ dups.map (fun d => Call.insertDup ⟨.changes, d⟩) ++ addAllBody t chs heads cs ++ [.commit]
  | .treeCreateChild t queued =>
    [.begin] ++ createStorageCalls t ++ (if queued then [.touchHeads t] else []) ++ [.commit]

/-- the shape the property needs: exactly one top-level transaction that contains every write -/
def SingleTx (tr : List Call) : Prop :=
  ∃ body, tr = [.begin] ++ body ++ [.commit] ∧ ∀ c ∈ body, c.isTxCtl = false

def singleTxB (tr : List Call) : Bool :=
  match tr with
  | .begin :: rest =>
    match rest.reverse with
    | .commit :: revBody => revBody.all (fun c => !c.isTxCtl)
    | _ => false
  | _ => false

end AnySync.Store
