/-
Specification vocabulary for C10: the durable-state predicate `Consistent`, stated over `Store.get`
only, its executable counterpart `consistentB` (used by the driver; compared on every run with the
Go oracle's verdict on the real database), the abstract fault semantics and the live-object protocols.
-/
import AnySyncModel.Store.Tx

namespace AnySync.Store

def changeAt (s : Store) (id : Nat) : Option ChangeV :=
  match s.get ⟨.changes, id⟩ with
  | some (.change c) => some c
  | _ => none

def headsAt (s : Store) (id : Nat) : Option HeadsV :=
  match s.get ⟨.heads, id⟩ with
  | some (.heads h) => some h
  | _ => none

def recAt (s : Store) (id : Nat) : Option RecV :=
  match s.get ⟨.acl, id⟩ with
  | some (.record r) => some r
  | _ => none

/-- `p` is a stored change of tree `t` whose stored order is before `o` -/
def StoredBefore (s : Store) (t o p : Nat) : Prop :=
  ∃ pc, changeAt s p = some pc ∧ pc.tree = t ∧ pc.order < o

/-- `x` is a stored change of tree `t` -/
def StoredIn (s : Store) (t x : Nat) : Prop :=
  ∃ c, changeAt s x = some c ∧ c.tree = t

/-- every stored change: parents and snapshot base are stored in the same tree and sort before it
(stored order respects causality); its tree has a heads entry and a stored root -/
def ChangeOk (s : Store) (c : ChangeV) : Prop :=
  (∀ p ∈ c.prevs, StoredBefore s c.tree c.order p) ∧
  (∀ sn, c.snap = some sn → StoredBefore s c.tree c.order sn) ∧
  (headsAt s c.tree).isSome ∧ StoredIn s c.tree c.tree

/-- heads entry of a tree that still has its root (a deleted tree keeps its entry but no change): non-empty, names stored changes of that tree; the
recorded common snapshot is a stored change of that tree -/
def HeadsOk (s : Store) (t : Nat) (h : HeadsV) : Prop :=
  h.heads ≠ [] ∧ (∀ x ∈ h.heads, StoredIn s t x) ∧ (∀ x, h.cs = some x → StoredIn s t x)

/-- ACL: the heads entry names exactly one record, it is stored and no stored record has a higher
order (it is the last one); every stored record is the root (order 1) or follows its stored
predecessor; orders identify records -/
def AclOk (s : Store) (acl : Nat) : Prop :=
  ∃ h r rv, headsAt s acl = some h ∧ h.heads = [r] ∧ recAt s r = some rv ∧
    (∀ r' rv', recAt s r' = some rv' → rv'.order ≤ rv.order) ∧
    (∀ r' rv', recAt s r' = some rv' →
        match rv'.prev with
        | none => rv'.order = 1
        | some p => ∃ pv, recAt s p = some pv ∧ pv.order + 1 = rv'.order) ∧
    (∀ r1 r2 v1 v2, recAt s r1 = some v1 → recAt s r2 = some v2 → v1.order = v2.order → r1 = r2)

/-- the durable-state predicate of C10 (the four clauses of the property text) -/
structure Consistent (s : Store) (acl : Nat) : Prop where
  changes : ∀ id c, changeAt s id = some c → ChangeOk s c
  heads   : ∀ t h, t ≠ acl → headsAt s t = some h → StoredIn s t t → HeadsOk s t h
  acl     : AclOk s acl

/-! ### executable version (driver) -/

def storedBeforeB (s : Store) (t o p : Nat) : Bool :=
  match changeAt s p with
  | some pc => pc.tree = t ∧ pc.order < o
  | none => false

def storedInB (s : Store) (t x : Nat) : Bool :=
  match changeAt s x with
  | some c => c.tree = t
  | none => false

def changeOkB (s : Store) (c : ChangeV) : Bool :=
  c.prevs.all (storedBeforeB s c.tree c.order) &&
  (match c.snap with | some sn => storedBeforeB s c.tree c.order sn | none => true) &&
  (headsAt s c.tree).isSome && storedInB s c.tree c.tree

def headsOkB (s : Store) (t : Nat) (h : HeadsV) : Bool :=
  !h.heads.isEmpty && h.heads.all (storedInB s t) &&
  (match h.cs with | some x => storedInB s t x | none => true)

def recsOf (s : Store) : List (Nat × RecV) :=
  s.docs.filterMap (fun kv => match kv.1.coll, kv.2 with
    | .acl, .record r => if recAt s kv.1.id = some r then some (kv.1.id, r) else none
    | _, _ => none)

def aclOkB (s : Store) (acl : Nat) : Bool :=
  match headsAt s acl with
  | some h =>
    match h.heads with
    | [r] =>
      match recAt s r with
      | some rv =>
        let rs := recsOf s
        rs.all (fun x => x.2.order ≤ rv.order) &&
        rs.all (fun x => match x.2.prev with
          | none => x.2.order = 1
          | some p => match recAt s p with
            | some pv => pv.order + 1 = x.2.order
            | none => false) &&
        rs.all (fun x => rs.all (fun y => x.2.order ≠ y.2.order ∨ x.1 = y.1))
      | none => false
    | _ => false
  | none => false

def consistentB (s : Store) (acl : Nat) : Bool :=
  s.docs.all (fun kv => match kv.1.coll, kv.2 with
    | .changes, .change c => if changeAt s kv.1.id = some c then changeOkB s c else true
    | .heads, .heads h =>
      if kv.1.id ≠ acl ∧ headsAt s kv.1.id = some h ∧ storedInB s kv.1.id kv.1.id then headsOkB s kv.1.id h else true
    | _, _ => true) &&
  aclOkB s acl

/-- executable version of `BatchOk` (Store/Lemmas.lean), the input condition of `consistent_preserved_*`:
the driver evaluates it on every real AddAll input the harness sends -/
def batchOkB (s : Store) (t : Nat) (chs : List NewChange) (heads : List Nat) (cs : Nat) : Bool :=
  chs.all (fun c => (s.get ⟨.changes, c.id⟩).isNone) &&
  decide ((chs.map (·.id)).Nodup) &&
  chs.all (fun c => c.v.tree = t) &&
  chs.all (fun c => c.v.prevs.all (fun p =>
    storedBeforeB s t c.v.order p || chs.any (fun c' => c'.id = p && c'.v.order < c.v.order))) &&
  chs.all (fun c => match c.v.snap with
    | some sn => storedBeforeB s t c.v.order sn || chs.any (fun c' => c'.id = sn && c'.v.order < c.v.order)
    | none => true) &&
  !heads.isEmpty &&
  heads.all (fun x => storedInB s t x || chs.any (fun c => c.id = x)) &&
  (storedInB s t cs || chs.any (fun c => c.id = cs)) &&
  (storedInB s t t || chs.any (fun c => c.id = t)) &&
  chs.all (fun c => c.id = t || (headsAt s c.id).isNone)

/-! ### storage faults and live objects -/

/-- call `k` of `tr` returns an error instead of executing; the code's error path rolls the open
transaction back (`defer tx.Rollback()` / the deferred `if err != nil { tx.Rollback() }`) -/
def execFault (d : Db) (tr : List Call) (k : Nat) : Db :=
  let d' := exec d (tr.take k)
  match d'.pending with
  | some _ => { d' with pending := none, saves := [] }
  | none => d'

/-- what a live object (tree or ACL list) believes about storage: its heads -/
structure Live where
  heads : List Nat
deriving DecidableEq, Repr

/-- the live object agrees with storage: the heads entry of its id holds exactly its heads -/
def Agrees (s : Store) (id : Nat) (l : Live) : Prop :=
  ∃ h, headsAt s id = some h ∧ h.heads = l.heads

/-- outcome of a storage write attempt: `fault = none` runs `tr` to the end, `some k` fails call k -/
def attempt (s : Store) (tr : List Call) (fault : Option Nat) : Store × Bool :=
  match fault with
  | none => ((exec (Db.idle s) tr).committed, true)
  | some k => ((execFault (Db.idle s) tr k).committed, false)

/-- the protocol of the fixed `aclList.AddRawRecord` and of tree creation: write first, swap the
in-memory state only after the write succeeded -/
def writeThenSwap (s : Store) (old new : Live) (tr : List Call) (fault : Option Nat) : Store × Live :=
  let r := attempt s tr fault
  (r.1, if r.2 then new else old)

/-- the protocol of `objectTree` (remote add; local add after the fix): the in-memory tree is updated
first; when the write fails the tree is rebuilt from storage (`rebuildFromStorage`), i.e. its heads
are read back from the heads entry -/
def swapThenWriteRebuild (s : Store) (id : Nat) (new : Live) (tr : List Call) (fault : Option Nat) : Store × Live :=
  let r := attempt s tr fault
  (r.1, if r.2 then new else
    match headsAt r.1 id with
    | some h => ⟨h.heads⟩
    | none => new)

/-- the protocol of the unrepaired `AddRawRecord` / `AddContentWithValidator`: swap first, never undo -/
def swapThenWriteNoRollback (s : Store) (new : Live) (tr : List Call) (fault : Option Nat) : Store × Live :=
  ((attempt s tr fault).1, new)

end AnySync.Store
