/-
Helper lemmas for the stream-pool model (C19): object-local transitions and their invariants,
association-map facts, and preservation of the index invariant by every step.
-/
import AnySyncModel.StreamPool.Model
import AnySyncModel.StreamPool.Spec

namespace AnySync.StreamPool

/-! ## object-local view: every step changes stream objects only through a fixed family of
object transitions -/

inductive ObjStep : Stream → Stream → Prop
  | tryAdd (s : Stream) (m : Nat) : ObjStep s (s.tryAdd m).1
  | take (s : Stream) : ObjStep s s.takeStep
  | complete (s : Stream) : ObjStep s s.completeStep
  | ctxClose (s : Stream) : ObjStep s s.ctxCloseStep
  | writerExit (s : Stream) : ObjStep s s.writerExitStep
  | setClosed (s : Stream) : ObjStep s { s with closed := true }
  | setCancelled (s : Stream) : ObjStep s { s with cancelled := true }
  | setGated (s : Stream) (b : Bool) : ObjStep s { s with gated := b }
  | setRemoved (s : Stream) : ObjStep s { s with removed := true }
  | setTags (s : Stream) (t : List Nat) : ObjStep s { s with tags := t }
  | closeRemote (s : Stream) : ObjStep s s.closeRemoteStep
  | setCloseBlocks (s : Stream) (b : Bool) : ObjStep s { s with closeBlocks := b }

inductive ObjSteps : Stream → Stream → Prop
  | refl (s : Stream) : ObjSteps s s
  | tail {a b c : Stream} : ObjSteps a b → ObjStep b c → ObjSteps a c

theorem ObjSteps.trans {a b c : Stream} (h1 : ObjSteps a b) (h2 : ObjSteps b c) : ObjSteps a c := by
  induction h2 with
  | refl => exact h1
  | tail _ st ih => exact ObjSteps.tail ih st

theorem ObjSteps.single {a b : Stream} (h : ObjStep a b) : ObjSteps a b := ObjSteps.tail (ObjSteps.refl a) h

/-- a stream object as `addStream` creates it -/
def Fresh (s : Stream) : Prop :=
  s.queue = [] ∧ s.inflight = none ∧ s.delivered = [] ∧ s.accepted = [] ∧ 0 < s.cap ∧
  s.closed = false ∧ s.removed = false ∧ s.writerDone = false

/-- every object of `objs'` descends from an object of `objs` or from a fresh one -/
def Evolves (objs objs' : List Stream) : Prop :=
  ∀ s' ∈ objs', ∃ s0, (s0 ∈ objs ∨ Fresh s0) ∧ ObjSteps s0 s'

theorem Evolves.refl (objs : List Stream) : Evolves objs objs :=
  fun s hs => ⟨s, Or.inl hs, ObjSteps.refl s⟩

theorem Evolves.trans {a b c : List Stream} (h1 : Evolves a b) (h2 : Evolves b c) : Evolves a c := by
  intro s hs
  obtain ⟨s1, h, st⟩ := h2 s hs
  cases h with
  | inl hb =>
    obtain ⟨s0, h0, st0⟩ := h1 s1 hb
    exact ⟨s0, h0, st0.trans st⟩
  | inr hf => exact ⟨s1, Or.inr hf, st⟩

theorem mem_modObj {objs : List Stream} {id : Nat} {f : Stream → Stream} {x : Stream}
    (h : x ∈ modObj objs id f) : x ∈ objs ∨ ∃ y ∈ objs, x = f y := by
  unfold modObj at h
  rw [List.mem_map] at h
  obtain ⟨y, hy, rfl⟩ := h
  by_cases hc : y.id = id
  · right; exact ⟨y, hy, by simp [hc]⟩
  · left; simp [hc]; exact hy

theorem evolves_modObj (objs : List Stream) (id : Nat) (f : Stream → Stream)
    (hf : ∀ s, ObjStep s (f s)) : Evolves objs (modObj objs id f) := by
  intro s hs
  cases mem_modObj hs with
  | inl h => exact ⟨s, Or.inl h, ObjSteps.refl s⟩
  | inr h =>
    obtain ⟨y, hy, rfl⟩ := h
    exact ⟨y, Or.inl hy, ObjSteps.single (hf y)⟩

theorem effCap_pos (raw : Nat) : 0 < effCap raw := by
  unfold effCap defaultQueueSize; split <;> omega

theorem evolves_add (p : Pool) (peer c : Nat) (g : Bool) (f : Nat) (tags : List Nat) :
    Evolves p.objs (p.add peer c g f tags).1.objs := by
  intro s hs
  simp only [Pool.add, List.mem_append, List.mem_singleton] at hs
  cases hs with
  | inl h => exact ⟨s, Or.inl h, ObjSteps.refl s⟩
  | inr h =>
    subst h
    exact ⟨_, Or.inr ⟨rfl, rfl, rfl, rfl, effCap_pos c, rfl, rfl, rfl⟩, ObjSteps.refl _⟩

theorem evolves_writeTo (p : Pool) (sid m : Nat) : Evolves p.objs (p.writeTo sid m).1.objs := by
  unfold Pool.writeTo
  split
  · exact Evolves.refl _
  · exact evolves_modObj _ _ _ (fun s => ObjStep.tryAdd s m)

theorem evolves_writeFirst (m : Nat) (ids : List Nat) : ∀ p : Pool, Evolves p.objs (p.writeFirst m ids).objs := by
  induction ids with
  | nil => intro p; exact Evolves.refl _
  | cons sid rest ih =>
    intro p
    simp only [Pool.writeFirst]
    split
    · exact evolves_writeTo p sid m
    · exact (evolves_writeTo p sid m).trans (ih _)

theorem evolves_sendOne (p : Pool) (m peer : Nat) : Evolves p.objs (p.sendOne m peer).objs := by
  have h1 : Evolves p.objs (p.openIfMissing peer).objs := by
    unfold Pool.openIfMissing
    split
    · split
      · exact Evolves.refl _
      · exact evolves_add p _ _ _ _ _
    · exact Evolves.refl _
  exact h1.trans (evolves_writeFirst m _ _)

theorem evolves_foldl_sendOne (m : Nat) (peers : List Nat) :
    ∀ p : Pool, Evolves p.objs (peers.foldl (fun q peer => q.sendOne m peer) p).objs := by
  induction peers with
  | nil => intro p; exact Evolves.refl _
  | cons x rest ih => intro p; exact (evolves_sendOne p m x).trans (ih _)

theorem evolves_callWrite (p : Pool) (cid : Nat) : Evolves p.objs (p.callWrite cid).1.objs := by
  unfold Pool.callWrite
  split
  · exact Evolves.refl _
  · split
    · exact Evolves.refl _
    · exact evolves_writeTo p _ _

theorem step_evolves (p : Pool) (st : Step) : Evolves p.objs (step p st).1.objs := by
  cases st with
  | add peer c g f tags => exact evolves_add p peer c g f tags
  | addNoPeer => exact Evolves.refl _
  | snapBroadcast m tags => exact Evolves.refl _
  | snapSendById m peers => exact Evolves.refl _
  | callWrite cid => exact evolves_callWrite p cid
  | addTags sid tags =>
    simp only [step, Pool.addTags]
    split
    · split
      · exact Evolves.refl _
      · exact evolves_modObj _ _ _ (fun s => ObjStep.setTags s _)
    · exact Evolves.refl _
  | removeTags sid tags =>
    simp only [step, Pool.removeTags, Pool.removeTagsCore]
    split
    · split
      · exact Evolves.refl _
      · exact evolves_modObj _ _ _ (fun s => ObjStep.setTags s _)
    · exact Evolves.refl _
  | removeTagsById sid tags =>
    simp only [step, Pool.removeTagsById, Pool.removeTagsCore]
    split
    · split
      · exact Evolves.refl _
      · exact evolves_modObj _ _ _ (fun s => ObjStep.setTags s _)
    · exact Evolves.refl _
  | streamsQ tags => exact Evolves.refl _
  | send t =>
    simp only [step, Pool.send]
    split <;> exact Evolves.refl _
  | setPlan peer sp =>
    simp only [step, Pool.setPlan]
    split <;> exact Evolves.refl _
  | take sid =>
    simp only [step, Pool.take]
    split
    · exact Evolves.refl _
    · split
      · exact Evolves.refl _
      · exact evolves_modObj _ _ _ ObjStep.take
  | complete sid =>
    simp only [step, Pool.complete]
    split
    · exact Evolves.refl _
    · split
      · exact Evolves.refl _
      · exact evolves_modObj _ _ _ ObjStep.complete
  | ctxClose sid =>
    simp only [step, Pool.ctxClose]
    split
    · exact Evolves.refl _
    · split
      · exact Evolves.refl _
      · exact evolves_modObj _ _ _ ObjStep.ctxClose
  | writerExit sid =>
    simp only [step, Pool.writerExit]
    split
    · exact Evolves.refl _
    · split
      · exact Evolves.refl _
      · exact evolves_modObj _ _ _ ObjStep.writerExit
  | readClose sid =>
    simp only [step, Pool.readClose]
    split
    · exact Evolves.refl _
    · exact evolves_modObj _ _ _ ObjStep.setClosed
  | cancel sid =>
    simp only [step, Pool.cancel]
    split
    · exact Evolves.refl _
    · exact evolves_modObj _ _ _ ObjStep.setCancelled
  | setGated sid b =>
    simp only [step, Pool.setGated]
    split
    · exact Evolves.refl _
    · exact evolves_modObj _ _ _ (fun s => ObjStep.setGated s b)
  | setCloseBlocks sid b =>
    simp only [step, Pool.setCloseBlocks]
    split
    · exact Evolves.refl _
    · exact evolves_modObj _ _ _ (fun s => ObjStep.setCloseBlocks s b)
  | closeRemote sid =>
    simp only [step, Pool.closeRemote]
    split
    · exact Evolves.refl _
    · split
      · exact Evolves.refl _
      · exact evolves_modObj _ _ _ ObjStep.closeRemote
  | poolRemove sid =>
    simp only [step, Pool.poolRemove]
    split
    · exact Evolves.refl _
    · split
      · exact Evolves.refl _
      · split
        · exact evolves_modObj _ _ _ ObjStep.setRemoved
        · split
          · exact evolves_modObj _ _ _ ObjStep.setRemoved
          · exact evolves_modObj _ _ _ ObjStep.setRemoved
  | dialTake =>
    simp only [step, Pool.dialTake]
    split
    · exact Evolves.refl _
    · split <;> exact Evolves.refl _
  | dialRun tid =>
    simp only [step, Pool.dialRun]
    split
    · exact Evolves.refl _
    · split
      · exact Evolves.refl _
      · exact evolves_foldl_sendOne _ _ _

theorem run_evolves (steps : List Step) : ∀ p : Pool, Evolves p.objs (run p steps).objs := by
  induction steps with
  | nil => intro p; exact Evolves.refl _
  | cons st rest ih =>
    intro p
    exact (step_evolves p st).trans (ih _)

/-- an object-local invariant that holds for fresh objects and is preserved by every object
transition holds for every object of every reachable pool -/
theorem obj_invariant (P : Stream → Prop) (hfresh : ∀ s, Fresh s → P s)
    (hstep : ∀ s s', P s → ObjStep s s' → P s')
    (p : Pool) (hp : ∀ s ∈ p.objs, P s) (steps : List Step) :
    ∀ s ∈ (run p steps).objs, P s := by
  intro s hs
  obtain ⟨s0, h0, sts⟩ := run_evolves steps p s hs
  have hP0 : P s0 := by
    cases h0 with
    | inl h => exact hp s0 h
    | inr h => exact hfresh s0 h
  clear h0 hs
  induction sts with
  | refl => exact hP0
  | tail _ st ih => exact hstep _ _ ih st

end AnySync.StreamPool

namespace AnySync.StreamPool

/-! ## object-local invariants -/

def QueueOk (s : Stream) : Prop := s.queue.length ≤ s.cap

theorem queueOk_fresh (s : Stream) (h : Fresh s) : QueueOk s := by
  obtain ⟨hq, _⟩ := h
  simp [QueueOk, hq]

theorem queueOk_step (s s' : Stream) (h : QueueOk s) (st : ObjStep s s') : QueueOk s' := by
  unfold QueueOk at *
  cases st with
  | tryAdd m =>
    unfold Stream.tryAdd
    split
    · exact h
    · split
      · exact h
      · simp; omega
  | take =>
    unfold Stream.takeStep
    split
    · exact h
    · split
      · exact h
      · rename_i hq; simp [hq] at h ⊢; omega
  | complete =>
    unfold Stream.completeStep
    split
    · exact h
    · split <;> exact h
  | ctxClose => unfold Stream.ctxCloseStep; split <;> exact h
  | writerExit => unfold Stream.writerExitStep; split <;> exact h
  | setClosed => exact h
  | setCancelled => exact h
  | setGated b => exact h
  | setRemoved => exact h
  | setTags t => exact h
  | closeRemote => unfold Stream.closeRemoteStep; split <;> exact h
  | setCloseBlocks b => exact h

/-- delivered is a prefix of accepted; while the writer runs, accepted = delivered ++ in flight ++ buffer -/
def FifoOk (s : Stream) : Prop :=
  (s.writerDone = true → s.inflight = none) ∧ s.delivered <+: s.accepted ∧
  (s.writerDone = false → s.accepted = s.delivered ++ s.inflight.toList ++ s.queue)

theorem fifoOk_fresh (s : Stream) (h : Fresh s) : FifoOk s := by
  obtain ⟨hq, hi, hd, ha, _, _, _, hw⟩ := h
  refine ⟨fun _ => hi, ?_, fun _ => ?_⟩
  · simp [hd]
  · simp [hq, hi, hd, ha]

theorem fifoOk_step (s s' : Stream) (h : FifoOk s) (st : ObjStep s s') : FifoOk s' := by
  obtain ⟨h1, h2, h3⟩ := h
  cases st with
  | tryAdd m =>
    unfold Stream.tryAdd
    split
    · exact ⟨h1, h2, h3⟩
    · split
      · exact ⟨h1, h2, h3⟩
      · refine ⟨h1, ?_, ?_⟩
        · exact List.IsPrefix.trans h2 (List.prefix_append _ _)
        · intro hw; simp only; rw [h3 hw]; simp
  | take =>
    unfold Stream.takeStep
    split
    · exact ⟨h1, h2, h3⟩
    · rename_i hg
      split
      · exact ⟨h1, h2, h3⟩
      · rename_i m rest hq
        have hw : s.writerDone = false := by
          cases hwd : s.writerDone <;> simp_all
        have hi : s.inflight = none := by
          cases hin : s.inflight <;> simp_all
        refine ⟨?_, h2, ?_⟩
        · intro hc; simp only at hc; rw [hw] at hc; cases hc
        · intro _; simp only; rw [h3 hw, hi, hq]; simp
  | complete =>
    unfold Stream.completeStep
    split
    · exact ⟨h1, h2, h3⟩
    · rename_i m hin
      have hw : s.writerDone = false := by
        cases hwd : s.writerDone
        · rfl
        · rw [h1 hwd] at hin; cases hin
      split
      · refine ⟨fun _ => rfl, h2, ?_⟩
        intro hc; simp at hc
      · refine ⟨fun _ => rfl, ?_, ?_⟩
        · simp only; rw [h3 hw, hin]; simp
        · intro _; simp only; rw [h3 hw, hin]; simp
  | ctxClose =>
    unfold Stream.ctxCloseStep
    split
    · exact ⟨h1, h2, h3⟩
    · rename_i hg
      have hi : s.inflight = none := by
        cases hin : s.inflight <;> simp_all
      refine ⟨fun _ => hi, h2, ?_⟩
      intro hc; simp at hc
  | writerExit =>
    unfold Stream.writerExitStep
    split
    · exact ⟨h1, h2, h3⟩
    · rename_i hg
      have hi : s.inflight = none := by
        cases hin : s.inflight <;> simp_all
      refine ⟨fun _ => hi, h2, ?_⟩
      intro hc; simp at hc
  | setClosed => exact ⟨h1, h2, h3⟩
  | setCancelled => exact ⟨h1, h2, h3⟩
  | setGated b => exact ⟨h1, h2, h3⟩
  | setRemoved => exact ⟨h1, h2, h3⟩
  | setTags t => exact ⟨h1, h2, h3⟩
  | closeRemote => unfold Stream.closeRemoteStep; split <;> exact ⟨h1, h2, h3⟩
  | setCloseBlocks b => exact ⟨h1, h2, h3⟩

/-- once `closed` is set it stays set, nothing more is accepted and nothing more is delivered -/
theorem closed_frozen (s s' : Stream) (hc : s.closed = true) (st : ObjStep s s') :
    s'.closed = true ∧ s'.accepted = s.accepted ∧ s'.delivered = s.delivered := by
  cases st with
  | tryAdd m => unfold Stream.tryAdd; simp [hc]
  | take =>
    unfold Stream.takeStep
    split
    · exact ⟨hc, rfl, rfl⟩
    · split <;> exact ⟨hc, rfl, rfl⟩
  | complete =>
    unfold Stream.completeStep
    split
    · exact ⟨hc, rfl, rfl⟩
    · simp [Stream.sendFails, hc]
  | ctxClose => unfold Stream.ctxCloseStep; split <;> simp [hc]
  | writerExit => unfold Stream.writerExitStep; split <;> simp [hc]
  | setClosed => exact ⟨rfl, rfl, rfl⟩
  | setCancelled => exact ⟨hc, rfl, rfl⟩
  | setGated b => exact ⟨hc, rfl, rfl⟩
  | setRemoved => exact ⟨hc, rfl, rfl⟩
  | setTags t => exact ⟨hc, rfl, rfl⟩
  | closeRemote => unfold Stream.closeRemoteStep; split <;> exact ⟨hc, rfl, rfl⟩
  | setCloseBlocks b => exact ⟨hc, rfl, rfl⟩

/-- identity, peer and capacity of an object never change -/
theorem objStep_static (s s' : Stream) (st : ObjStep s s') :
    s'.id = s.id ∧ s'.peer = s.peer ∧ s'.cap = s.cap := by
  cases st with
  | tryAdd m => unfold Stream.tryAdd; split; · simp
                split <;> simp
  | take =>
    unfold Stream.takeStep
    split
    · simp
    · split <;> simp
  | complete =>
    unfold Stream.completeStep
    split
    · simp
    · split <;> simp
  | ctxClose => unfold Stream.ctxCloseStep; split <;> simp
  | writerExit => unfold Stream.writerExitStep; split <;> simp
  | setClosed => simp
  | setCancelled => simp
  | setGated b => simp
  | setRemoved => simp
  | setTags t => simp
  | closeRemote => unfold Stream.closeRemoteStep; split <;> simp
  | setCloseBlocks b => simp

end AnySync.StreamPool

namespace AnySync.StreamPool

/-! ## association maps -/
namespace AMap

theorem get_erase (m : AMap) (k k' : Nat) : (erase m k).get k' = if k' = k then [] else m.get k' := by
  induction m with
  | nil => simp [erase, get]
  | cons kv rest ih =>
    obtain ⟨a, v⟩ := kv
    by_cases h : a = k <;> by_cases h' : k' = k
    · subst h; subst h'; simp [erase, ih]
    · subst h
      have : ¬ a = k' := fun e => h' e.symm
      simp [erase, get, ih, h', this]
    · subst h'
      simp [erase, get, ih, h]
    · simp [erase, get, ih, h, h']

theorem get_set (m : AMap) (k k' : Nat) (v : List Nat) :
    (set m k v).get k' = if k' = k then v else m.get k' := by
  unfold set
  by_cases hv : v = []
  · simp only [hv, if_true, get_erase]
  · simp only [hv, if_false, get]
    by_cases h' : k' = k
    · simp [h']
    · have : ¬ k = k' := fun e => h' e.symm
      simp [h', this, get_erase]

end AMap

theorem get_idxAppend (m : AMap) (k id k' : Nat) :
    (idxAppend m k id).get k' = if k' = k then m.get k ++ [id] else m.get k' := by
  simp [idxAppend, AMap.get_set]

theorem count_idxAppend (m : AMap) (k id k' sid : Nat) :
    ((idxAppend m k id).get k').count sid =
      (m.get k').count sid + (if k' = k ∧ sid = id then 1 else 0) := by
  rw [get_idxAppend]
  by_cases h : k' = k
  · subst h
    by_cases h2 : sid = id
    · simp [h2, List.count_append]
    · have : ¬ id = sid := fun e => h2 e.symm
      simp [h2, List.count_append, List.count_singleton, this]
  · simp [h]

theorem count_idxAppendAll (ks : List Nat) (id k' sid : Nat) : ∀ m : AMap,
    ((idxAppendAll m ks id).get k').count sid =
      (m.get k').count sid + (if sid = id then ks.count k' else 0) := by
  induction ks with
  | nil => intro m; simp [idxAppendAll]
  | cons k rest ih =>
    intro m
    simp only [idxAppendAll, List.foldl_cons] at ih ⊢
    rw [ih, count_idxAppend]
    by_cases h2 : sid = id
    · by_cases h : k' = k
      · subst h; simp [h2, List.count_cons]; omega
      · have : ¬ k = k' := fun e => h e.symm
        simp [h2, h, List.count_cons, this]
    · simp [h2]

theorem idxRemove_some (m : AMap) (k id : Nat) (h : id ∈ m.get k) :
    idxRemove m k id = some (m.set k ((m.get k).erase id)) := by
  simp [idxRemove, h]

theorem count_idxRemove (m m' : AMap) (k id k' sid : Nat) (h : idxRemove m k id = some m') :
    (m'.get k').count sid = (m.get k').count sid - (if k' = k ∧ sid = id then 1 else 0) := by
  unfold idxRemove at h
  split at h
  · cases h
    rw [AMap.get_set]
    by_cases hk : k' = k
    · subst hk
      by_cases h2 : sid = id
      · subst h2; simp [List.count_erase_self]
      · simp [h2, List.count_erase_of_ne h2]
    · simp [hk]
  · cases h

/-- removing `id` under every key of `ks` succeeds when enough copies are indexed -/
theorem idxRemoveAll_ok (ks : List Nat) (id : Nat) : ∀ (m : AMap) (b : Bool),
    (∀ k, ks.count k ≤ (m.get k).count id) →
    (ks.foldl (fun (acc : AMap × Bool) k =>
        match idxRemove acc.1 k id with
        | some m' => (m', acc.2)
        | none => (acc.1, false)) (m, b)).2 = b ∧
    ∀ k' sid, ((ks.foldl (fun (acc : AMap × Bool) k =>
        match idxRemove acc.1 k id with
        | some m' => (m', acc.2)
        | none => (acc.1, false)) (m, b)).1.get k').count sid =
      (m.get k').count sid - (if sid = id then ks.count k' else 0) := by
  induction ks with
  | nil => intro m b _; simp
  | cons k rest ih =>
    intro m b hen
    have hmem : id ∈ m.get k := by
      have := hen k
      simp [List.count_cons] at this
      exact List.count_pos_iff.mp (by omega)
    simp only [List.foldl_cons, idxRemove_some m k id hmem]
    have hrem := fun k' sid => count_idxRemove m _ k id k' sid (idxRemove_some m k id hmem)
    have hen' : ∀ k'', rest.count k'' ≤ ((m.set k ((m.get k).erase id)).get k'').count id := by
      intro k''
      rw [hrem k'' id]
      have := hen k''
      simp only [List.count_cons] at this
      by_cases hk : k'' = k
      · subst hk; simp at this ⊢; omega
      · have : ¬ k = k'' := fun e => hk e.symm
        simp_all
    obtain ⟨h1, h2⟩ := ih _ b hen'
    refine ⟨h1, ?_⟩
    intro k' sid
    rw [h2 k' sid, hrem k' sid]
    by_cases hs : sid = id
    · by_cases hk : k' = k
      · subst hk; simp [hs, List.count_cons]; omega
      · have : ¬ k = k' := fun e => hk e.symm
        simp [hs, hk, List.count_cons, this]
    · simp [hs]

theorem idxRemoveAll_spec (m : AMap) (ks : List Nat) (id : Nat)
    (hen : ∀ k, ks.count k ≤ (m.get k).count id) :
    (idxRemoveAll m ks id).2 = true ∧
    ∀ k' sid, ((idxRemoveAll m ks id).1.get k').count sid =
      (m.get k').count sid - (if sid = id then ks.count k' else 0) :=
  idxRemoveAll_ok ks id m true hen

end AnySync.StreamPool

namespace AnySync.StreamPool

/-! ## the index invariant -/

def liveOf (objs : List Stream) (sid : Nat) : Bool :=
  match getObj objs sid with
  | some s => !s.removed
  | none => false

def peerOf (objs : List Stream) (sid : Nat) : Option Nat := (getObj objs sid).map (·.peer)

def tagsOf (objs : List Stream) (sid : Nat) : List Nat :=
  match getObj objs sid with
  | some s => s.tags
  | none => []

/-- `streams`, `streamIdsByPeer` and `streamIdsByTag` describe one relation: the live stream objects,
each indexed once under its peer and once per occurrence of a tag in `st.tags`; `log.Fatal` and
the nil dereference have not happened. -/
structure IdxInv (p : Pool) : Prop where
  ids_le : ∀ s ∈ p.objs, s.id ≤ p.lastId
  nodup : p.streams.Nodup
  live : ∀ sid, sid ∈ p.streams ↔ liveOf p.objs sid = true
  byPeer_ok : ∀ k sid, (p.byPeer.get k).count sid =
    if sid ∈ p.streams ∧ peerOf p.objs sid = some k then 1 else 0
  byTag_ok : ∀ t sid, (p.byTag.get t).count sid =
    if sid ∈ p.streams then (tagsOf p.objs sid).count t else 0
  no_fatal : p.fatal = false
  no_nil : p.nilDeref = false

theorem getObj_modObj (objs : List Stream) (id sid : Nat) (f : Stream → Stream)
    (hf : ∀ s, (f s).id = s.id) :
    getObj (modObj objs id f) sid = if sid = id then (getObj objs sid).map f else getObj objs sid := by
  induction objs with
  | nil => simp [getObj, modObj]
  | cons x rest ih =>
    simp only [getObj, modObj, List.map_cons, List.find?_cons] at ih ⊢
    by_cases hx : x.id = id
    · simp only [hx, if_true, hf]
      by_cases hs : sid = id
      · subst hs; simp [hx]
      · have : ¬ id = sid := fun e => hs e.symm
        simp only [hx, this, decide_false, hs, if_false]
        simpa [hs] using ih
    · simp only [hx, if_false]
      by_cases hxs : x.id = sid
      · have : ¬ sid = id := by rw [← hxs]; exact hx
        simp [hxs, this]
      · simp only [hxs, decide_false]
        exact ih

/-- the object function leaves identity, peer, tags and the removed flag alone -/
def Static (f : Stream → Stream) : Prop :=
  ∀ s, (f s).id = s.id ∧ (f s).peer = s.peer ∧ (f s).tags = s.tags ∧ (f s).removed = s.removed

theorem static_proj (objs : List Stream) (id : Nat) (f : Stream → Stream) (hf : Static f) (sid : Nat) :
    liveOf (modObj objs id f) sid = liveOf objs sid ∧
    peerOf (modObj objs id f) sid = peerOf objs sid ∧
    tagsOf (modObj objs id f) sid = tagsOf objs sid := by
  unfold liveOf peerOf tagsOf
  rw [getObj_modObj objs id sid f (fun s => (hf s).1)]
  by_cases hs : sid = id
  · simp only [hs, if_true]
    cases getObj objs id with
    | none => simp
    | some s => simp [(hf s).2.1, (hf s).2.2.1, (hf s).2.2.2]
  · simp [hs]

theorem ids_le_modObj (objs : List Stream) (id n : Nat) (f : Stream → Stream)
    (hf : ∀ s, (f s).id = s.id) (h : ∀ s ∈ objs, s.id ≤ n) : ∀ s ∈ modObj objs id f, s.id ≤ n := by
  intro s hs
  cases mem_modObj hs with
  | inl h' => exact h s h'
  | inr h' => obtain ⟨y, hy, rfl⟩ := h'; rw [hf]; exact h y hy

/-- `IdxInv` only reads the projections of the heap and the index fields -/
theorem IdxInv.congr {p p' : Pool} (h : IdxInv p)
    (hobjs : ∀ sid, liveOf p'.objs sid = liveOf p.objs sid ∧ peerOf p'.objs sid = peerOf p.objs sid ∧
      tagsOf p'.objs sid = tagsOf p.objs sid)
    (hle : ∀ s ∈ p'.objs, s.id ≤ p'.lastId)
    (hs : p'.streams = p.streams) (hp : p'.byPeer = p.byPeer) (ht : p'.byTag = p.byTag)
    (hf : p'.fatal = p.fatal) (hn : p'.nilDeref = p.nilDeref) : IdxInv p' := by
  refine ⟨hle, hs ▸ h.nodup, ?_, ?_, ?_, hf ▸ h.no_fatal, hn ▸ h.no_nil⟩
  · intro sid; rw [hs, (hobjs sid).1]; exact h.live sid
  · intro k sid; rw [hs, hp, (hobjs sid).2.1]; exact h.byPeer_ok k sid
  · intro t sid; rw [hs, ht, (hobjs sid).2.2]; exact h.byTag_ok t sid

theorem IdxInv.static {p : Pool} (h : IdxInv p) (id : Nat) (f : Stream → Stream) (hf : Static f)
    (p' : Pool) (ho : p'.objs = modObj p.objs id f) (hl : p'.lastId = p.lastId)
    (hs : p'.streams = p.streams) (hp : p'.byPeer = p.byPeer) (ht : p'.byTag = p.byTag)
    (hfa : p'.fatal = p.fatal) (hn : p'.nilDeref = p.nilDeref) : IdxInv p' := by
  apply h.congr _ _ hs hp ht hfa hn
  · intro sid; rw [ho]; exact static_proj p.objs id f hf sid
  · rw [ho, hl]; exact ids_le_modObj _ _ _ _ (fun s => (hf s).1) h.ids_le

theorem static_tryAdd (m : Nat) : Static (fun x => (x.tryAdd m).1) := by
  intro s; simp only [Stream.tryAdd]; split
  · simp
  · split <;> simp

theorem static_take : Static Stream.takeStep := by
  intro s; unfold Stream.takeStep; split
  · simp
  · split <;> simp

theorem static_complete : Static Stream.completeStep := by
  intro s; unfold Stream.completeStep; split
  · simp
  · split <;> simp

theorem static_ctxClose : Static Stream.ctxCloseStep := by
  intro s; unfold Stream.ctxCloseStep; split <;> simp

theorem static_writerExit : Static Stream.writerExitStep := by
  intro s; unfold Stream.writerExitStep; split <;> simp

theorem static_closeRemote : Static Stream.closeRemoteStep := by
  intro s; unfold Stream.closeRemoteStep; split <;> simp

/-- every id listed in an index belongs to `streams` -/
theorem IdxInv.byPeer_mem {p : Pool} (h : IdxInv p) {k sid : Nat} (hm : sid ∈ p.byPeer.get k) :
    sid ∈ p.streams ∧ peerOf p.objs sid = some k := by
  have hc := h.byPeer_ok k sid
  have : 0 < (p.byPeer.get k).count sid := List.count_pos_iff.mpr hm
  by_cases hcond : sid ∈ p.streams ∧ peerOf p.objs sid = some k
  · exact hcond
  · rw [if_neg hcond] at hc; omega

theorem IdxInv.byTag_mem {p : Pool} (h : IdxInv p) {t sid : Nat} (hm : sid ∈ p.byTag.get t) :
    sid ∈ p.streams ∧ t ∈ tagsOf p.objs sid := by
  have hc := h.byTag_ok t sid
  have : 0 < (p.byTag.get t).count sid := List.count_pos_iff.mpr hm
  by_cases hcond : sid ∈ p.streams
  · rw [if_pos hcond] at hc
    exact ⟨hcond, List.count_pos_iff.mp (by omega)⟩
  · rw [if_neg hcond] at hc; omega

end AnySync.StreamPool

namespace AnySync.StreamPool

theorem getObj_none_of_ids_le (objs : List Stream) (n sid : Nat) (h : ∀ s ∈ objs, s.id ≤ n) (hs : n < sid) :
    getObj objs sid = none := by
  unfold getObj
  rw [List.find?_eq_none]
  intro s hm
  have := h s hm
  simp; omega

theorem getObj_append (objs : List Stream) (st : Stream) (sid : Nat) :
    getObj (objs ++ [st]) sid =
      match getObj objs sid with
      | some s => some s
      | none => if st.id = sid then some st else none := by
  unfold getObj
  rw [List.find?_append]
  cases h : List.find? (fun s => decide (s.id = sid)) objs with
  | some s => simp
  | none =>
    simp only [List.find?_cons, Option.none_or, List.find?_nil]
    by_cases hh : st.id = sid <;> simp [hh]

theorem add_proj (p : Pool) (peer c : Nat) (g : Bool) (f : Nat) (tags : List Nat)
    (hle : ∀ s ∈ p.objs, s.id ≤ p.lastId) (sid : Nat) :
    liveOf (p.add peer c g f tags).1.objs sid = (if sid = p.lastId + 1 then true else liveOf p.objs sid) ∧
    peerOf (p.add peer c g f tags).1.objs sid = (if sid = p.lastId + 1 then some peer else peerOf p.objs sid) ∧
    tagsOf (p.add peer c g f tags).1.objs sid = (if sid = p.lastId + 1 then tags else tagsOf p.objs sid) := by
  simp only [Pool.add, liveOf, peerOf, tagsOf, getObj_append]
  by_cases hs : sid = p.lastId + 1
  · subst hs
    rw [getObj_none_of_ids_le p.objs p.lastId _ hle (by omega)]
    simp
  · have : ¬ p.lastId + 1 = sid := fun e => hs e.symm
    cases hg : getObj p.objs sid with
    | some s => simp [hs]
    | none => simp [hs, this]

theorem IdxInv.add {p : Pool} (h : IdxInv p) (peer c : Nat) (g : Bool) (f : Nat) (tags : List Nat) :
    IdxInv (p.add peer c g f tags).1 := by
  have hproj := add_proj p peer c g f tags h.ids_le
  have hnew : p.lastId + 1 ∉ p.streams := by
    intro hm
    have := (h.live _).mp hm
    simp [liveOf, getObj_none_of_ids_le p.objs p.lastId _ h.ids_le (Nat.lt_succ_self _)] at this
  refine ⟨?_, ?_, ?_, ?_, ?_, h.no_fatal, h.no_nil⟩
  · intro s hs
    simp only [Pool.add, List.mem_append, List.mem_singleton] at hs ⊢
    cases hs with
    | inl hm => have := h.ids_le s hm; omega
    | inr he => subst he; simp
  · simp only [Pool.add]
    exact List.nodup_append.mpr ⟨h.nodup, by simp, by
      intro a ha b hb; simp at hb; subst hb; intro e; subst e; exact hnew ha⟩
  · intro sid
    rw [(hproj sid).1]
    simp only [Pool.add, List.mem_append, List.mem_singleton]
    by_cases hs : sid = p.lastId + 1
    · simp [hs]
    · simp [hs, h.live sid]
  · intro k sid
    rw [(hproj sid).2.1]
    simp only [Pool.add, List.mem_append, List.mem_singleton]
    rw [count_idxAppend, h.byPeer_ok]
    by_cases hs : sid = p.lastId + 1
    · subst hs
      by_cases hk : k = peer
      · subst hk; simp [hnew]
      · have : ¬ peer = k := fun e => hk e.symm
        simp [hnew, hk, this]
    · simp [hs]
  · intro t sid
    rw [(hproj sid).2.2]
    simp only [Pool.add, List.mem_append, List.mem_singleton]
    rw [count_idxAppendAll, h.byTag_ok]
    by_cases hs : sid = p.lastId + 1
    · subst hs; simp [hnew]
    · simp [hs]

end AnySync.StreamPool

namespace AnySync.StreamPool

theorem count_filter_split (l : List Nat) (q : Nat → Bool) (t : Nat) :
    l.count t = (l.filter q).count t + (l.filter (fun x => !q x)).count t := by
  induction l with
  | nil => simp
  | cons x rest ih =>
    by_cases hq : q x = true
    · simp [List.filter_cons, hq, List.count_cons, ih]; omega
    · simp [List.filter_cons, hq, List.count_cons, ih]; omega

/-- projections after changing only the tags of object `sid` -/
theorem tagsmod_proj (objs : List Stream) (sid : Nat) (f : Stream → Stream) (s : Stream)
    (hg : getObj objs sid = some s)
    (hf : ∀ x, (f x).id = x.id ∧ (f x).peer = x.peer ∧ (f x).removed = x.removed) (x : Nat) :
    liveOf (modObj objs sid f) x = liveOf objs x ∧
    peerOf (modObj objs sid f) x = peerOf objs x ∧
    tagsOf (modObj objs sid f) x = (if x = sid then (f s).tags else tagsOf objs x) := by
  unfold liveOf peerOf tagsOf
  rw [getObj_modObj objs sid x f (fun y => (hf y).1)]
  by_cases hx : x = sid
  · subst hx; simp [hg, (hf s).2.1, (hf s).2.2]
  · simp [hx]

theorem IdxInv.addTags {p : Pool} (h : IdxInv p) (sid : Nat) (tags : List Nat) :
    IdxInv (p.addTags sid tags).1 := by
  unfold Pool.addTags
  split
  · rename_i hin
    split
    · rename_i hg
      have := (h.live sid).mp hin
      simp [liveOf, hg] at this
    · rename_i s hg
      have hproj := tagsmod_proj p.objs sid (fun x => { x with tags := x.tags ++ freshTags s.tags tags }) s hg
        (fun x => ⟨rfl, rfl, rfl⟩)
      refine ⟨?_, h.nodup, ?_, ?_, ?_, h.no_fatal, h.no_nil⟩
      · exact ids_le_modObj _ _ _ _ (fun _ => rfl) h.ids_le
      · intro x; simp only; rw [(hproj x).1]; exact h.live x
      · intro k x; simp only; rw [(hproj x).2.1]; exact h.byPeer_ok k x
      · intro t x
        simp only
        rw [(hproj x).2.2, count_idxAppendAll, h.byTag_ok]
        by_cases hx : x = sid
        · subst hx
          simp [hin, tagsOf, hg, List.count_append]
        · simp [hx]
  · exact h

theorem IdxInv.removeTagsCore {p : Pool} (h : IdxInv p) (sid : Nat) (tags : List Nat) (hin : sid ∈ p.streams) :
    IdxInv (p.removeTagsCore sid tags) := by
  unfold Pool.removeTagsCore
  split
  · rename_i hg
    have := (h.live sid).mp hin
    simp [liveOf, hg] at this
  · rename_i s hg
    have hproj := tagsmod_proj p.objs sid (fun x => { x with tags := x.tags.filter (fun t => t ∉ tags) }) s hg
      (fun x => ⟨rfl, rfl, rfl⟩)
    have hen : ∀ k, (s.tags.filter (fun t => t ∈ tags)).count k ≤ (p.byTag.get k).count sid := by
      intro k
      rw [h.byTag_ok, if_pos hin]
      simp only [tagsOf, hg]
      have := count_filter_split s.tags (fun t => decide (t ∈ tags)) k
      omega
    obtain ⟨hflag, hcount⟩ := idxRemoveAll_spec p.byTag (s.tags.filter (fun t => t ∈ tags)) sid hen
    refine ⟨?_, h.nodup, ?_, ?_, ?_, ?_, h.no_nil⟩
    · exact ids_le_modObj _ _ _ _ (fun _ => rfl) h.ids_le
    · intro x; simp only; rw [(hproj x).1]; exact h.live x
    · intro k x; simp only; rw [(hproj x).2.1]; exact h.byPeer_ok k x
    · intro t x
      simp only
      rw [(hproj x).2.2, hcount, h.byTag_ok]
      by_cases hx : x = sid
      · subst hx
        simp only [hin, if_true, tagsOf, hg]
        have := count_filter_split s.tags (fun t => decide (t ∈ tags)) t
        simp only [decide_not] at this ⊢
        omega
      · simp [hx]
    · simp [hflag, h.no_fatal]

theorem removed_proj (objs : List Stream) (sid : Nat) (s : Stream) (hg : getObj objs sid = some s) (x : Nat) :
    liveOf (modObj objs sid (fun s => { s with removed := true })) x = (if x = sid then false else liveOf objs x) ∧
    peerOf (modObj objs sid (fun s => { s with removed := true })) x = peerOf objs x ∧
    tagsOf (modObj objs sid (fun s => { s with removed := true })) x = tagsOf objs x := by
  unfold liveOf peerOf tagsOf
  rw [getObj_modObj objs sid x (fun s => { s with removed := true }) (fun y => rfl)]
  by_cases hx : x = sid
  · subst hx; simp [hg]
  · simp [hx]

theorem IdxInv.poolRemove {p : Pool} (h : IdxInv p) (sid : Nat) : IdxInv (p.poolRemove sid).1 := by
  unfold Pool.poolRemove
  split
  · exact h
  · rename_i s hg
    split
    · exact h
    · rename_i hguard
      have hrem : s.removed = false := by
        cases hr : s.removed <;> simp_all
      have hin : sid ∈ p.streams := (h.live sid).mpr (by simp [liveOf, hg, hrem])
      have hpeer : peerOf p.objs sid = some s.peer := by simp [peerOf, hg]
      have hmem : sid ∈ p.byPeer.get s.peer := by
        have := h.byPeer_ok s.peer sid
        rw [if_pos ⟨hin, hpeer⟩] at this
        exact List.count_pos_iff.mp (by omega)
      rw [if_neg (by simpa using hin)]
      rw [idxRemove_some _ _ _ hmem]
      simp only
      have hen : ∀ k, s.tags.count k ≤ (p.byTag.get k).count sid := by
        intro k; rw [h.byTag_ok, if_pos hin]; simp [tagsOf, hg]
      obtain ⟨hflag, hcount⟩ := idxRemoveAll_spec p.byTag s.tags sid hen
      have hproj := removed_proj p.objs sid s hg
      have hmemerase : ∀ x, x ∈ p.streams.erase sid ↔ (x ∈ p.streams ∧ x ≠ sid) := by
        intro x; rw [h.nodup.mem_erase_iff]; exact And.comm
      refine ⟨?_, h.nodup.erase _, ?_, ?_, ?_, ?_, h.no_nil⟩
      · exact ids_le_modObj _ _ _ _ (fun _ => rfl) h.ids_le
      · intro x
        simp only [(hproj x).1, hmemerase]
        by_cases hx : x = sid
        · simp [hx]
        · simp [hx, h.live x]
      · intro k x
        simp only [(hproj x).2.1, hmemerase]
        rw [count_idxRemove p.byPeer _ s.peer sid k x (idxRemove_some _ _ _ hmem), h.byPeer_ok]
        by_cases hx : x = sid
        · subst hx
          by_cases hk : k = s.peer
          · subst hk; simp [hin, hpeer]
          · simp [hk]
            intro _ hpk; rw [hpeer] at hpk; injection hpk with e; exact hk e.symm
        · simp [hx]
      · intro t x
        simp only [(hproj x).2.2, hmemerase]
        rw [hcount, h.byTag_ok]
        by_cases hx : x = sid
        · subst hx; simp [hin, tagsOf, hg]
        · simp [hx]
      · simp [hflag, h.no_fatal]

end AnySync.StreamPool

namespace AnySync.StreamPool

theorem mem_dedup (l : List Nat) : ∀ (seen : List Nat) (x : Nat), x ∈ dedup seen l → x ∈ l := by
  induction l with
  | nil => intro seen x h; simp [dedup] at h
  | cons y rest ih =>
    intro seen x h
    simp only [dedup] at h
    split at h
    · exact List.mem_cons_of_mem _ (ih _ _ h)
    · cases List.mem_cons.mp h with
      | inl e => rw [e]; exact List.mem_cons_self
      | inr h' => exact List.mem_cons_of_mem _ (ih _ _ h')

theorem IdxInv.snapshot {p : Pool} (h : IdxInv p) (m : Nat) (groups : List (List Nat))
    (hg : ∀ id ∈ groups.flatten, id ∈ p.streams) : IdxInv (p.snapshot m groups) := by
  have hmiss : (groups.flatten.any (fun id => !(p.streams.contains id))) = false := by
    rw [List.any_eq_false]
    intro id hid
    simp [hg id hid]
  apply h.congr (p' := p.snapshot m groups) (fun sid => ⟨rfl, rfl, rfl⟩) h.ids_le rfl rfl rfl rfl
  show (p.nilDeref || _) = p.nilDeref
  rw [hmiss, Bool.or_false]

theorem IdxInv.broadcastIds_mem {p : Pool} (h : IdxInv p) (tags : List Nat) :
    ∀ id ∈ p.broadcastIds tags, id ∈ p.streams := by
  intro id hid
  have hall : id ∈ (tags.map p.byTag.get).flatten := by
    unfold Pool.broadcastIds at hid
    simp only at hid
    split at hid
    · exact mem_dedup _ _ _ hid
    · exact hid
  rw [List.mem_flatten] at hall
  obtain ⟨l, hl, hidl⟩ := hall
  rw [List.mem_map] at hl
  obtain ⟨t, _, rfl⟩ := hl
  exact (h.byTag_mem hidl).1

theorem IdxInv.sendByIdGroups_mem {p : Pool} (h : IdxInv p) (peers : List Nat) :
    ∀ id ∈ (p.sendByIdGroups peers).flatten, id ∈ p.streams := by
  intro id hid
  rw [List.mem_flatten] at hid
  obtain ⟨l, hl, hidl⟩ := hid
  unfold Pool.sendByIdGroups at hl
  rw [List.mem_filter, List.mem_map] at hl
  obtain ⟨⟨k, _, rfl⟩, _⟩ := hl
  exact (h.byPeer_mem hidl).1

theorem IdxInv.writeTo {p : Pool} (h : IdxInv p) (sid m : Nat) : IdxInv (p.writeTo sid m).1 := by
  unfold Pool.writeTo
  split
  · exact h
  · exact h.static sid _ (static_tryAdd m) _ rfl rfl rfl rfl rfl rfl rfl

theorem IdxInv.writeFirst (m : Nat) (ids : List Nat) : ∀ {p : Pool}, IdxInv p → IdxInv (p.writeFirst m ids) := by
  induction ids with
  | nil => intro p h; exact h
  | cons sid rest ih =>
    intro p h
    simp only [Pool.writeFirst]
    split
    · exact h.writeTo sid m
    · exact ih (h.writeTo sid m)

/-- the pool-level fields of `writeFirst` other than `objs` are untouched -/
theorem writeFirst_fields (m : Nat) (ids : List Nat) : ∀ p : Pool,
    (p.writeFirst m ids).streams = p.streams ∧ (p.writeFirst m ids).nilDeref = p.nilDeref := by
  induction ids with
  | nil => intro p; exact ⟨rfl, rfl⟩
  | cons sid rest ih =>
    intro p
    have hw : (p.writeTo sid m).1.streams = p.streams ∧ (p.writeTo sid m).1.nilDeref = p.nilDeref := by
      unfold Pool.writeTo; split <;> exact ⟨rfl, rfl⟩
    simp only [Pool.writeFirst]
    split
    · exact hw
    · obtain ⟨a, b⟩ := ih (p.writeTo sid m).1
      exact ⟨a.trans hw.1, b.trans hw.2⟩

theorem IdxInv.sendOne {p : Pool} (h : IdxInv p) (m peer : Nat) : IdxInv (p.sendOne m peer) := by
  have h1 : IdxInv (p.openIfMissing peer) := by
    unfold Pool.openIfMissing
    split
    · split
      · exact h
      · exact h.add _ _ _ _ _
    · exact h
  show IdxInv ((p.openIfMissing peer).sendOneWrite m peer)
  generalize p.openIfMissing peer = p1 at h1 ⊢
  have hw := h1.writeFirst m (p1.byPeer.get peer)
  have hmiss : ((p1.byPeer.get peer).any (fun id => !(p1.streams.contains id))) = false := by
    rw [List.any_eq_false]
    intro id hid
    simp [(h1.byPeer_mem hid).1]
  apply hw.congr (p' := p1.sendOneWrite m peer) (fun sid => ⟨rfl, rfl, rfl⟩) hw.ids_le rfl rfl rfl rfl
  show ((p1.writeFirst m (p1.byPeer.get peer)).nilDeref || _) = _
  rw [hmiss, Bool.or_false]

theorem IdxInv.foldl_sendOne (m : Nat) (peers : List Nat) : ∀ {p : Pool}, IdxInv p →
    IdxInv (peers.foldl (fun q peer => q.sendOne m peer) p) := by
  induction peers with
  | nil => intro p h; exact h
  | cons x rest ih => intro p h; exact ih (h.sendOne m x)

theorem IdxInv.callWrite {p : Pool} (h : IdxInv p) (cid : Nat) : IdxInv (p.callWrite cid).1 := by
  unfold Pool.callWrite
  split
  · exact h
  next c _ =>
    split
    · exact h.congr (fun sid => ⟨rfl, rfl, rfl⟩) h.ids_le rfl rfl rfl rfl rfl
    next sid _ =>
      have hw := h.writeTo sid c.msg
      exact hw.congr (fun sid => ⟨rfl, rfl, rfl⟩) hw.ids_le rfl rfl rfl rfl rfl

theorem flatten_map_singleton (l : List Nat) : (l.map (fun id => [id])).flatten = l := by
  induction l with
  | nil => rfl
  | cons x rest ih => simp [ih]

/-- **the index invariant is preserved by every step** -/
theorem IdxInv.step {p : Pool} (h : IdxInv p) (st : Step) : IdxInv (step p st).1 := by
  cases st with
  | add peer c g f tags => exact h.add peer c g f tags
  | addNoPeer => exact h
  | snapBroadcast m tags =>
    simp only [AnySync.StreamPool.step, Pool.snapBroadcast]
    apply h.snapshot
    intro id hid
    rw [flatten_map_singleton] at hid
    exact h.broadcastIds_mem tags id hid
  | snapSendById m peers =>
    simp only [AnySync.StreamPool.step, Pool.snapSendById]
    exact h.snapshot m _ (h.sendByIdGroups_mem peers)
  | callWrite cid => exact h.callWrite cid
  | addTags sid tags => exact h.addTags sid tags
  | removeTags sid tags =>
    simp only [AnySync.StreamPool.step, Pool.removeTags]
    split
    · rename_i hin; exact h.removeTagsCore sid tags hin
    · exact h
  | removeTagsById sid tags =>
    simp only [AnySync.StreamPool.step, Pool.removeTagsById]
    split
    · rename_i hin; exact h.removeTagsCore sid tags hin
    · exact h
  | streamsQ tags => exact h
  | send t =>
    simp only [AnySync.StreamPool.step, Pool.send]
    split
    · exact h
    · exact h.congr (fun sid => ⟨rfl, rfl, rfl⟩) h.ids_le rfl rfl rfl rfl rfl
  | setPlan peer sp =>
    simp only [AnySync.StreamPool.step, Pool.setPlan]
    split <;> exact h.congr (fun sid => ⟨rfl, rfl, rfl⟩) h.ids_le rfl rfl rfl rfl rfl
  | take sid =>
    simp only [AnySync.StreamPool.step, Pool.take]
    split
    · exact h
    · split
      · exact h
      · exact h.static sid _ static_take _ rfl rfl rfl rfl rfl rfl rfl
  | complete sid =>
    simp only [AnySync.StreamPool.step, Pool.complete]
    split
    · exact h
    · split
      · exact h
      · exact h.static sid _ static_complete _ rfl rfl rfl rfl rfl rfl rfl
  | ctxClose sid =>
    simp only [AnySync.StreamPool.step, Pool.ctxClose]
    split
    · exact h
    · split
      · exact h
      · exact h.static sid _ static_ctxClose _ rfl rfl rfl rfl rfl rfl rfl
  | writerExit sid =>
    simp only [AnySync.StreamPool.step, Pool.writerExit]
    split
    · exact h
    · split
      · exact h
      · exact h.static sid _ static_writerExit _ rfl rfl rfl rfl rfl rfl rfl
  | readClose sid =>
    simp only [AnySync.StreamPool.step, Pool.readClose]
    split
    · exact h
    · exact h.static sid (fun s => { s with closed := true }) (fun s => ⟨rfl, rfl, rfl, rfl⟩) _ rfl rfl rfl rfl rfl rfl rfl
  | cancel sid =>
    simp only [AnySync.StreamPool.step, Pool.cancel]
    split
    · exact h
    · exact h.static sid (fun s => { s with cancelled := true }) (fun s => ⟨rfl, rfl, rfl, rfl⟩) _ rfl rfl rfl rfl rfl rfl rfl
  | setGated sid b =>
    simp only [AnySync.StreamPool.step, Pool.setGated]
    split
    · exact h
    · exact h.static sid (fun s => { s with gated := b }) (fun s => ⟨rfl, rfl, rfl, rfl⟩) _ rfl rfl rfl rfl rfl rfl rfl
  | setCloseBlocks sid b =>
    simp only [AnySync.StreamPool.step, Pool.setCloseBlocks]
    split
    · exact h
    · exact h.static sid (fun s => { s with closeBlocks := b }) (fun s => ⟨rfl, rfl, rfl, rfl⟩) _ rfl rfl rfl rfl rfl rfl rfl
  | closeRemote sid =>
    simp only [AnySync.StreamPool.step, Pool.closeRemote]
    split
    · exact h
    · split
      · exact h
      · exact h.static sid _ static_closeRemote _ rfl rfl rfl rfl rfl rfl rfl
  | poolRemove sid => exact h.poolRemove sid
  | dialTake =>
    simp only [AnySync.StreamPool.step, Pool.dialTake]
    split
    · exact h
    · split
      · exact h.congr (fun sid => ⟨rfl, rfl, rfl⟩) h.ids_le rfl rfl rfl rfl rfl
      · exact h
  | dialRun tid =>
    simp only [AnySync.StreamPool.step, Pool.dialRun]
    split
    · exact h
    · have h0 : IdxInv { p with running := p.running.filter (fun t => t.id ≠ tid) } :=
        h.congr (fun sid => ⟨rfl, rfl, rfl⟩) h.ids_le rfl rfl rfl rfl rfl
      split
      · exact h0
      · exact IdxInv.foldl_sendOne _ _ h0

theorem IdxInv.init (w q : Nat) : IdxInv (init w q) := by
  refine ⟨?_, ?_, ?_, ?_, ?_, rfl, rfl⟩ <;> simp [AnySync.StreamPool.init, liveOf, getObj, AMap.get]

theorem IdxInv.run (steps : List Step) : ∀ {p : Pool}, IdxInv p → IdxInv (run p steps) := by
  induction steps with
  | nil => intro p h; exact h
  | cons st rest ih => intro p h; exact ih (h.step st)

end AnySync.StreamPool

namespace AnySync.StreamPool

theorem advance_todo (groups : List (List Nat)) (ok : Bool) (h : groups ≠ []) :
    (advance groups ok).flatten.length + (advance groups ok).length < groups.flatten.length + groups.length := by
  match groups, h with
  | [] :: gs, _ => simp [advance]
  | (x :: rest) :: gs, _ =>
    simp only [advance]
    split
    · simp; omega
    · split
      · simp; omega
      · simp

theorem find_filter_ne (calls : List Call) (cid : Nat) :
    (calls.filter (fun c => c.id ≠ cid)).find? (fun c => c.id = cid) = none := by
  rw [List.find?_eq_none]
  intro x hx
  simp at hx ⊢
  exact hx.2

theorem find_map_update (calls : List Call) (cid : Nat) (c : Call) (gs : List (List Nat))
    (hfind : calls.find? (fun c => c.id = cid) = some c) :
    (calls.map (fun c' => if c'.id = cid then { c' with groups := gs } else c')).find?
      (fun c => c.id = cid) = some { c with groups := gs } := by
  induction calls with
  | nil => simp at hfind
  | cons x rest ih =>
    simp only [List.find?_cons] at hfind
    by_cases hx : x.id = cid
    · simp only [hx, decide_true] at hfind
      cases hfind
      simp [hx]
    · simp only [hx, decide_false] at hfind
      simp [hx, ih hfind]

end AnySync.StreamPool


namespace AnySync.StreamPool

/-! ## isolation: frame conditions -/

/-- updating object `b` leaves every other object alone -/
theorem getObj_modObj_other (objs : List Stream) (a b : Nat) (f : Stream → Stream)
    (hf : ∀ s, (f s).id = s.id) (hab : a ≠ b) : getObj (modObj objs b f) a = getObj objs a := by
  rw [getObj_modObj objs b a f hf]; simp [hab]

theorem id_tryAdd (m : Nat) (s : Stream) : ((s.tryAdd m).1).id = s.id := (static_tryAdd m s).1

/-- a write addressed to `b` changes no other object; its outcome is a function of `b`'s own object -/
theorem writeTo_frame (p : Pool) (a b m : Nat) (hab : a ≠ b) :
    getObj (p.writeTo b m).1.objs a = getObj p.objs a := by
  unfold Pool.writeTo
  split
  · rfl
  · exact getObj_modObj_other _ _ _ _ (id_tryAdd m) hab

theorem writeTo_local (p : Pool) (b m : Nat) :
    getObj (p.writeTo b m).1.objs b = (getObj p.objs b).map (fun s => (s.tryAdd m).1) ∧
    (p.writeTo b m).2 = match getObj p.objs b with
      | some s => (s.tryAdd m).2
      | none => false := by
  unfold Pool.writeTo
  cases h : getObj p.objs b with
  | none => simp [h]
  | some s =>
    refine ⟨?_, ?_⟩
    · simp only [h]
      rw [getObj_modObj _ _ _ _ (id_tryAdd m)]
      simp [h]
    · simp [h]

/-- A writer / remote / close step of stream `b` changes no other stream object. -/
theorem foreign_step_frame (p : Pool) (st : Step) (a b : Nat) (hs : st.subject = some b) (hab : a ≠ b) :
    getObj (step p st).1.objs a = getObj p.objs a := by
  cases st <;> simp [Step.subject] at hs <;> subst hs
  case take =>
    simp only [step, Pool.take]; split; · rfl
    split; · rfl
    exact getObj_modObj_other _ _ _ _ (fun s => (static_take s).1) hab
  case complete =>
    simp only [step, Pool.complete]; split; · rfl
    split; · rfl
    exact getObj_modObj_other _ _ _ _ (fun s => (static_complete s).1) hab
  case ctxClose =>
    simp only [step, Pool.ctxClose]; split; · rfl
    split; · rfl
    exact getObj_modObj_other _ _ _ _ (fun s => (static_ctxClose s).1) hab
  case writerExit =>
    simp only [step, Pool.writerExit]; split; · rfl
    split; · rfl
    exact getObj_modObj_other _ _ _ _ (fun s => (static_writerExit s).1) hab
  case cancel =>
    simp only [step, Pool.cancel]; split; · rfl
    exact getObj_modObj_other _ _ _ (fun s => { s with cancelled := true }) (fun s => rfl) hab
  case setGated v =>
    simp only [step, Pool.setGated]; split; · rfl
    exact getObj_modObj_other _ _ _ (fun s => { s with gated := v }) (fun s => rfl) hab
  case setCloseBlocks v =>
    simp only [step, Pool.setCloseBlocks]; split; · rfl
    exact getObj_modObj_other _ _ _ (fun s => { s with closeBlocks := v }) (fun s => rfl) hab
  case closeRemote =>
    simp only [step, Pool.closeRemote]; split; · rfl
    split; · rfl
    exact getObj_modObj_other _ _ _ _ (fun s => (static_closeRemote s).1) hab
  case readClose =>
    simp only [step, Pool.readClose]; split; · rfl
    exact getObj_modObj_other _ _ _ (fun s => { s with closed := true }) (fun s => rfl) hab
  case poolRemove =>
    simp only [step, Pool.poolRemove]; split; · rfl
    split; · rfl
    split; · exact getObj_modObj_other _ _ _ (fun s => { s with removed := true }) (fun s => rfl) hab
    split <;> exact getObj_modObj_other _ _ _ (fun s => { s with removed := true }) (fun s => rfl) hab

/-- The writer of a stream (however slow, blocked or failing) never touches an index, a pending call
or the dial pool: snapshots taken by callers read the same lists whatever any writer does. -/
theorem writer_step_keeps_pool (p : Pool) (st : Step) (b : Nat) (hw : st.isWriterOf b = true) :
    let p' := (step p st).1
    p'.streams = p.streams ∧ p'.byPeer = p.byPeer ∧ p'.byTag = p.byTag ∧ p'.calls = p.calls ∧
    p'.dialBuf = p.dialBuf ∧ p'.running = p.running ∧ p'.lastId = p.lastId := by
  cases st <;> simp [Step.isWriterOf] at hw
  case take => simp only [step, Pool.take]; split; · simp
               split <;> simp
  case complete => simp only [step, Pool.complete]; split; · simp
                   split <;> simp
  case ctxClose => simp only [step, Pool.ctxClose]; split; · simp
                   split <;> simp
  case writerExit => simp only [step, Pool.writerExit]; split; · simp
                     split <;> simp
  case cancel => simp only [step, Pool.cancel]; split <;> simp
  case setGated => simp only [step, Pool.setGated]; split <;> simp
  case setCloseBlocks => simp only [step, Pool.setCloseBlocks]; split <;> simp
  case closeRemote => simp only [step, Pool.closeRemote]; split; · simp
                      split <;> simp

/-- Fallback between streams (write to the next one when the previous is full) only happens inside
one peer: every group snapshotted by `SendById` consists of streams of a single peer, and `Broadcast`
groups are singletons. So the state of `b`'s queue can only redirect a message to another stream of
`b`'s own peer. -/
theorem groups_single_peer (p : Pool) (h : IdxInv p) (peers : List Nat) :
    ∀ g ∈ p.sendByIdGroups peers, ∃ k, ∀ id ∈ g, peerOf p.objs id = some k := by
  intro g hg
  unfold Pool.sendByIdGroups at hg
  rw [List.mem_filter, List.mem_map] at hg
  obtain ⟨⟨k, _, rfl⟩, _⟩ := hg
  exact ⟨k, fun id hid => (h.byPeer_mem hid).2⟩

end AnySync.StreamPool
