/-
Specification vocabulary for the stream pool (C19).
-/
import AnySyncModel.StreamPool.Model

namespace AnySync.StreamPool

/-- the steps executed by a goroutine that called a public method of the pool -/
def Step.isCaller : Step → Bool
  | .add .. | .addNoPeer | .snapBroadcast .. | .snapSendById .. | .callWrite .. | .addTags ..
  | .removeTags .. | .removeTagsById .. | .streamsQ .. | .send .. => true
  | _ => false

/-- steps of the writer goroutine of stream `b` and of its remote (how fast / whether `MsgSend`
returns, whether it fails, whether the peer context is cancelled) -/
def Step.isWriterOf (b : Nat) : Step → Bool
  | .take sid | .complete sid | .ctxClose sid | .writerExit sid | .cancel sid | .setGated sid _ => sid = b
  | _ => false

/-- the stream a step is about -/
def Step.subject : Step → Option Nat
  | .take sid | .complete sid | .ctxClose sid | .writerExit sid | .cancel sid | .setGated sid _
  | .readClose sid | .poolRemove sid => some sid
  | _ => none

/-- work left in a snapshotted call -/
def Call.todo (c : Call) : Nat := c.groups.flatten.length + c.groups.length

end AnySync.StreamPool
