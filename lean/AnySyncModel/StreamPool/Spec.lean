/-
Specification vocabulary for the stream pool (C19).
-/
import AnySyncModel.StreamPool.Model

namespace AnySync.StreamPool

/-- the steps executed by a goroutine that called a public method of the pool -/
def Step.isCaller : Step → Bool
  | .add .. | .addNoPeer | .snapBroadcast .. | .snapSendById .. | .callWrite .. | .addTags ..
  | .removeTags .. | .removeTagsById .. | .streamsQ .. | .send .. => true
  | _ => false

/-- steps of the writer goroutine of stream `b` and of its remote (how fast / whether `MsgSend`
returns, whether it fails, whether the peer context is cancelled, how long `Close()` takes) -/
def Step.isWriterOf (b : Nat) : Step → Bool
  | .take sid | .complete sid | .ctxClose sid | .writerExit sid | .cancel sid | .setGated sid _
  | .closeRemote sid | .setCloseBlocks sid _ => sid = b
  | _ => false

/-- the stream a step is about -/
def Step.subject : Step → Option Nat
  | .take sid | .complete sid | .ctxClose sid | .writerExit sid | .cancel sid | .setGated sid _
  | .closeRemote sid | .setCloseBlocks sid _ | .readClose sid | .poolRemove sid => some sid
  | _ => none

/-- work left in a snapshotted call -/
def Call.todo (c : Call) : Nat := c.groups.flatten.length + c.groups.length

/-- macro schedules used for isolation: calls are not split into snapshot + writes, and the handler
opens no stream -/
def MStep.ok : MStep → Bool
  | .atom (.snapBroadcast ..) | .atom (.snapSendById ..) | .atom (.callWrite ..) => false
  | .atom (.setPlan _ (some _)) => false
  | _ => true

def MStep.isWriterOf (b : Nat) : MStep → Bool
  | .atom st => st.isWriterOf b
  | _ => false


end AnySync.StreamPool
