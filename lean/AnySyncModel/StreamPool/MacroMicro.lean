/-
Macro steps versus the fine-grained transition system (C19): running `Broadcast` / `SendById` as one
macro step equals the snapshot step followed by all single `callWrite` steps of that call, in list
order, with nothing interleaved (`finishCall_spec`, `broadcast_eq_now`, `sendById_eq_now`,
`macro_eq_micro_*_any`); call ids stay fresh along every schedule (`CallsFresh`).
-/
import AnySyncModel.StreamPool.Macro

namespace AnySync.StreamPool

/-! ## a macro step = its snapshot followed by all its single `callWrite` steps -/

/-- change only the bookkeeping fields that no write reads -/
def Pool.withBook (p : Pool) (calls : List Call) (nextCall : Nat) (nil : Bool) : Pool :=
  { p with calls := calls, nextCall := nextCall, nilDeref := nil }

theorem writeTo_withBook (p : Pool) (c : List Call) (n : Nat) (d : Bool) (x m : Nat) :
    (p.withBook c n d).writeTo x m = (((p.writeTo x m).1).withBook c n d, (p.writeTo x m).2) := by
  unfold Pool.writeTo Pool.withBook
  cases getObj p.objs x <;> rfl

theorem writeFirst_withBook (c : List Call) (n : Nat) (d : Bool) (m : Nat) (ids : List Nat) : ∀ p : Pool,
    (p.withBook c n d).writeFirst m ids = (p.writeFirst m ids).withBook c n d := by
  induction ids with
  | nil => intro p; rfl
  | cons x rest ih =>
    intro p
    simp only [Pool.writeFirst, writeTo_withBook]
    split
    · rfl
    · exact ih _

theorem writeGroups_withBook (c : List Call) (n : Nat) (d : Bool) (m : Nat) (gs : List (List Nat)) : ∀ p : Pool,
    (p.withBook c n d).writeGroups m gs = (p.writeGroups m gs).withBook c n d := by
  induction gs with
  | nil => intro p; rfl
  | cons g rest ih => intro p; simp only [Pool.writeGroups, writeFirst_withBook]; exact ih _

theorem writeGroups_singletons (m : Nat) (ids : List Nat) : ∀ p : Pool,
    p.writeGroups m (ids.map (fun id => [id])) = p.writeAll m ids := by
  induction ids with
  | nil => intro p; rfl
  | cons x rest ih =>
    intro p
    simp only [List.map_cons, Pool.writeGroups, Pool.writeAll, Pool.writeFirst]
    split <;> exact ih _

theorem writeTo_calls (p : Pool) (x m : Nat) :
    (p.writeTo x m).1.calls = p.calls ∧ (p.writeTo x m).1.nextCall = p.nextCall ∧
    (p.writeTo x m).1.nilDeref = p.nilDeref := by
  unfold Pool.writeTo; split <;> exact ⟨rfl, rfl, rfl⟩

theorem withBook_self (p : Pool) : p.withBook p.calls p.nextCall p.nilDeref = p := rfl

theorem withBook_withBook (p : Pool) (c c' : List Call) (n n' : Nat) (d d' : Bool) :
    (p.withBook c n d).withBook c' n' d' = p.withBook c' n' d' := rfl

/-- all groups of a call are non-empty (true for every snapshot: `Broadcast` groups are singletons,
`SendById` drops empty groups, `advance` never leaves an empty group) -/
def NonEmptyGroups (gs : List (List Nat)) : Prop := ∀ g ∈ gs, g ≠ []

theorem find_base_append (base : List Call) (c : Call) (cid : Nat) (hb : ∀ c' ∈ base, c'.id ≠ cid)
    (hc : c.id = cid) : (base ++ [c]).find? (fun c => c.id = cid) = some c := by
  rw [List.find?_append]
  have : base.find? (fun c => decide (c.id = cid)) = none := by
    rw [List.find?_eq_none]; intro x hx; simpa using hb x hx
  rw [this]; simp [hc]

theorem filter_base_append (base : List Call) (c : Call) (cid : Nat) (hb : ∀ c' ∈ base, c'.id ≠ cid)
    (hc : c.id = cid) : (base ++ [c]).filter (fun c => c.id ≠ cid) = base := by
  rw [List.filter_append]
  have h1 : base.filter (fun c => decide (c.id ≠ cid)) = base := by
    rw [List.filter_eq_self]; intro x hx; simpa using hb x hx
  rw [h1]; simp [hc]

theorem map_base_append (base : List Call) (c : Call) (cid : Nat) (gs : List (List Nat))
    (hb : ∀ c' ∈ base, c'.id ≠ cid) (hc : c.id = cid) :
    (base ++ [c]).map (fun c' => if c'.id = cid then { c' with groups := gs } else c') =
      base ++ [{ c with groups := gs }] := by
  rw [List.map_append]
  have h1 : base.map (fun c' => if c'.id = cid then { c' with groups := gs } else c') = base := by
    conv => rhs; rw [← List.map_id base]
    apply List.map_congr_left
    intro x hx; simp [hb x hx]
  rw [h1]; simp [hc]

/-- one `callWrite` of the call that sits at the end of `calls` -/
theorem callWrite_form (p : Pool) (base : List Call) (cid m x : Nat) (rest : List Nat) (gs : List (List Nat))
    (hcalls : p.calls = base ++ [⟨cid, m, (x :: rest) :: gs⟩]) (hb : ∀ c' ∈ base, c'.id ≠ cid) :
    (p.callWrite cid).1 =
      ((p.writeTo x m).1).withBook
        (if advance ((x :: rest) :: gs) (p.writeTo x m).2 = [] then base
         else base ++ [⟨cid, m, advance ((x :: rest) :: gs) (p.writeTo x m).2⟩])
        p.nextCall p.nilDeref ∧
    (p.callWrite cid).2 = .wrote x (p.writeTo x m).2 := by
  have hfind := find_base_append base ⟨cid, m, (x :: rest) :: gs⟩ cid hb rfl
  obtain ⟨hc1, hc2, hc3⟩ := writeTo_calls p x m
  have hc1' : (p.writeTo x m).1.calls = base ++ [⟨cid, m, (x :: rest) :: gs⟩] := hc1.trans hcalls
  unfold Pool.callWrite
  rw [hcalls, hfind]
  simp only [nextTarget]
  refine ⟨?_, by first | rfl | trivial⟩
  by_cases h : advance ((x :: rest) :: gs) (p.writeTo x m).2 = []
  · simp only [if_pos h]
    rw [hc1', filter_base_append base _ cid hb rfl]
    unfold Pool.withBook; rw [hc2, hc3]
  · simp only [if_neg h]
    rw [hc1', map_base_append base _ cid _ hb rfl]
    unfold Pool.withBook; rw [hc2, hc3]

theorem advance_nonEmpty (gs : List (List Nat)) (ok : Bool) (h : NonEmptyGroups gs) :
    NonEmptyGroups (advance gs ok) := by
  match gs with
  | [] => intro g hg; simp [advance] at hg
  | [] :: gs' => exact absurd rfl (h [] List.mem_cons_self)
  | (x :: rest) :: gs' =>
    have hgs' : NonEmptyGroups gs' := fun g hg => h g (List.mem_cons_of_mem _ hg)
    simp only [advance]
    split
    · exact hgs'
    · split
      · exact hgs'
      · rename_i hr
        intro g hg
        cases List.mem_cons.mp hg with
        | inl e => rw [e]; exact hr
        | inr h' => exact hgs' g h'

/-- **core**: running all `callWrite`s of the call at the end of `calls` = `writeGroups`, and the call
is gone afterwards -/
theorem finishCall_spec (cid m : Nat) (base : List Call) (hb : ∀ c' ∈ base, c'.id ≠ cid) :
    ∀ (fuel : Nat) (gs : List (List Nat)) (p : Pool), NonEmptyGroups gs →
      gs.flatten.length + gs.length < fuel → p.calls = base ++ [⟨cid, m, gs⟩] →
      p.finishCall cid fuel = (p.writeGroups m gs).withBook base p.nextCall p.nilDeref := by
  intro fuel
  induction fuel with
  | zero => intro gs p _ hf _; omega
  | succ fuel ih =>
    intro gs p hne hf hcalls
    have hfind := find_base_append base ⟨cid, m, gs⟩ cid hb rfl
    have hnone : ∀ q : Pool, q.calls = base → ∀ k, q.finishCall cid k = q := by
      intro q hq k
      cases k with
      | zero => rfl
      | succ k =>
        simp only [Pool.finishCall]
        have : q.calls.find? (fun c => c.id = cid) = none := by
          rw [hq, List.find?_eq_none]; intro x hx; simpa using hb x hx
        rw [this]
    simp only [Pool.finishCall]
    rw [hcalls, hfind]
    simp only
    match gs, hne, hf, hcalls with
    | [], _, _, hcalls =>
      have : (p.callWrite cid).1 = p.withBook base p.nextCall p.nilDeref := by
        unfold Pool.callWrite
        rw [hcalls, hfind]
        simp only [nextTarget]
        rw [filter_base_append base _ cid hb rfl]
        rfl
      rw [this, hnone _ rfl]
      rfl
    | [] :: gs', hne, _, _ => exact absurd rfl (hne [] List.mem_cons_self)
    | (x :: rest) :: gs', hne, hf, hcalls =>
      obtain ⟨hform, _⟩ := callWrite_form p base cid m x rest gs' hcalls hb
      rw [hform]
      have hadv_ne := advance_nonEmpty _ (p.writeTo x m).2 hne
      have hadv_lt := advance_todo ((x :: rest) :: gs') (p.writeTo x m).2 (by simp)
      by_cases hadv : advance ((x :: rest) :: gs') (p.writeTo x m).2 = []
      · rw [if_pos hadv, hnone _ rfl]
        -- nothing left: the remaining groups are empty
        simp only [Pool.writeGroups, Pool.writeFirst]
        simp only [advance] at hadv
        split at hadv
        · rename_i hok
          rw [hadv, hok]; simp [Pool.writeGroups]
        · rename_i hok
          split at hadv
          · rename_i hr
            subst hr
            rw [hadv]
            have : (p.writeTo x m).2 = false := by simpa using hok
            simp [this, Pool.writeGroups, Pool.writeFirst]
          · cases hadv
      · rw [if_neg hadv]
        have hq := ih (advance ((x :: rest) :: gs') (p.writeTo x m).2)
          (((p.writeTo x m).1).withBook (base ++ [⟨cid, m, advance ((x :: rest) :: gs') (p.writeTo x m).2⟩])
            p.nextCall p.nilDeref) hadv_ne (Nat.lt_of_lt_of_le hadv_lt (Nat.lt_succ_iff.mp hf)) rfl
        rw [hq, writeGroups_withBook]
        simp only [withBook_withBook]
        -- identify the two write sequences
        simp only [Pool.writeGroups, Pool.writeFirst, advance]
        cases hok : (p.writeTo x m).2 with
        | true => simp [Pool.withBook]
        | false =>
          by_cases hr : rest = []
          · subst hr; simp [Pool.writeFirst, Pool.withBook]
          · simp [hr, Pool.writeGroups, Pool.withBook]

end AnySync.StreamPool

namespace AnySync.StreamPool

theorem run_append (p : Pool) (a b : List Step) : run p (a ++ b) = run (run p a) b := by
  unfold run; rw [List.foldl_append]

/-- `finishCall` is nothing but `callWrite cid` repeated, with no other step in between -/
theorem finishCall_is_run (cid : Nat) : ∀ (fuel : Nat) (p : Pool),
    ∃ k, k ≤ fuel ∧ p.finishCall cid fuel = run p (List.replicate k (.callWrite cid)) := by
  intro fuel
  induction fuel with
  | zero => intro p; exact ⟨0, Nat.le_refl _, rfl⟩
  | succ fuel ih =>
    intro p
    simp only [Pool.finishCall]
    cases p.calls.find? (fun c => c.id = cid) with
    | none => exact ⟨0, Nat.zero_le _, rfl⟩
    | some c =>
      obtain ⟨k, hk, he⟩ := ih (p.callWrite cid).1
      refine ⟨k + 1, Nat.succ_le_succ hk, ?_⟩
      simp only [he, List.replicate_succ, run, List.foldl_cons, step]

/-- ids of pending calls are below the next id to be handed out -/
def CallsFresh (p : Pool) : Prop := ∀ c ∈ p.calls, c.id < p.nextCall

theorem snapshot_eq (p : Pool) (m : Nat) (groups : List (List Nat)) :
    p.snapshot m groups = p.withBook (p.calls ++ [⟨p.nextCall, m, groups⟩]) (p.nextCall + 1)
      (p.nilDeref || groups.flatten.any (fun id => !(p.streams.contains id))) := rfl

theorem writeAll_withBook (c : List Call) (n : Nat) (d : Bool) (m : Nat) (ids : List Nat) (p : Pool) :
    (p.withBook c n d).writeAll m ids = (p.writeAll m ids).withBook c n d := by
  rw [← writeGroups_singletons, ← writeGroups_singletons, writeGroups_withBook]

theorem nonEmpty_singletons (ids : List Nat) : NonEmptyGroups (ids.map (fun id => [id])) := by
  intro g hg; rw [List.mem_map] at hg; obtain ⟨x, _, rfl⟩ := hg; simp

theorem nonEmpty_sendByIdGroups (p : Pool) (peers : List Nat) : NonEmptyGroups (p.sendByIdGroups peers) := by
  intro g hg; unfold Pool.sendByIdGroups at hg; rw [List.mem_filter] at hg; simpa using hg.2

/-- `Broadcast` as snapshot + all its single writes = the macro step, up to the call-id counter and the
nil-dereference flag of the snapshot -/
theorem broadcast_eq_now (p : Pool) (hf : CallsFresh p) (m : Nat) (tags : List Nat) :
    p.broadcast m tags = (p.broadcastNow m tags).withBook p.calls (p.nextCall + 1)
      (p.nilDeref || (((p.broadcastIds tags).map (fun id => [id])).flatten.any (fun id => !(p.streams.contains id)))) := by
  unfold Pool.broadcast Pool.snapBroadcast Pool.broadcastNow
  simp only
  rw [snapshot_eq]
  have hb : ∀ c' ∈ p.calls, c'.id ≠ p.nextCall := fun c' hc => Nat.ne_of_lt (hf c' hc)
  rw [finishCall_spec p.nextCall m p.calls hb _ _ _ (nonEmpty_singletons _) (by unfold callFuel; omega) rfl]
  rw [writeGroups_withBook, writeGroups_singletons]
  rfl

/-- the same for `SendById`, including the caller-visible result -/
theorem sendById_eq_now (p : Pool) (hf : CallsFresh p) (m : Nat) (peers : List Nat) :
    (p.sendById m peers).1 = ((p.sendByIdNow m peers).1).withBook p.calls (p.nextCall + 1)
      (p.nilDeref || ((p.sendByIdGroups peers).flatten.any (fun id => !(p.streams.contains id)))) ∧
    (p.sendById m peers).2 = (p.sendByIdNow m peers).2 := by
  unfold Pool.sendById Pool.snapSendById Pool.sendByIdNow
  simp only
  refine ⟨?_, by first | rfl | trivial⟩
  rw [snapshot_eq]
  have hb : ∀ c' ∈ p.calls, c'.id ≠ p.nextCall := fun c' hc => Nat.ne_of_lt (hf c' hc)
  rw [finishCall_spec p.nextCall m p.calls hb _ _ _ (nonEmpty_sendByIdGroups p peers) (by unfold callFuel; omega) rfl]
  rw [writeGroups_withBook]
  rfl

end AnySync.StreamPool

namespace AnySync.StreamPool

/-- the two bookkeeping fields of the call table -/
def book (p : Pool) : List Call × Nat := (p.calls, p.nextCall)

theorem book_writeTo (p : Pool) (x m : Nat) : book (p.writeTo x m).1 = book p := by
  unfold book; rw [(writeTo_calls p x m).1, (writeTo_calls p x m).2.1]

theorem book_writeFirst (m : Nat) (ids : List Nat) : ∀ p : Pool, book (p.writeFirst m ids) = book p := by
  induction ids with
  | nil => intro p; rfl
  | cons x rest ih =>
    intro p
    simp only [Pool.writeFirst]
    split
    · exact book_writeTo p x m
    · exact (ih _).trans (book_writeTo p x m)

theorem book_sendOne (p : Pool) (m k : Nat) : book (p.sendOne m k) = book p := by
  have h1 : book (p.openIfMissing k) = book p := by
    unfold Pool.openIfMissing
    split
    · split <;> rfl
    · rfl
  unfold Pool.sendOne Pool.sendOneWrite
  exact (book_writeFirst m _ (p.openIfMissing k)).trans h1

theorem book_foldl_sendOne (m : Nat) (peers : List Nat) : ∀ p : Pool,
    book (peers.foldl (fun q k => q.sendOne m k) p) = book p := by
  induction peers with
  | nil => intro p; rfl
  | cons k ks ih => intro p; exact (ih _).trans (book_sendOne p m k)

/-- every step other than a snapshot or a `callWrite` leaves the call table alone -/
theorem book_step (p : Pool) (st : Step)
    (h1 : ∀ m tags, st ≠ .snapBroadcast m tags) (h2 : ∀ m peers, st ≠ .snapSendById m peers)
    (h3 : ∀ cid, st ≠ .callWrite cid) : book (step p st).1 = book p := by
  cases st with
  | add peer c g f tags => rfl
  | addNoPeer => rfl
  | snapBroadcast m tags => exact absurd rfl (h1 m tags)
  | snapSendById m peers => exact absurd rfl (h2 m peers)
  | callWrite cid => exact absurd rfl (h3 cid)
  | addTags x tags =>
    simp only [step, Pool.addTags]; split
    · split <;> rfl
    · rfl
  | removeTags x tags =>
    simp only [step, Pool.removeTags, Pool.removeTagsCore]; split
    · split <;> rfl
    · rfl
  | removeTagsById x tags =>
    simp only [step, Pool.removeTagsById, Pool.removeTagsCore]; split
    · split <;> rfl
    · rfl
  | streamsQ tags => rfl
  | send t => simp only [step, Pool.send]; split <;> rfl
  | setPlan peer sp => simp only [step, Pool.setPlan]; split <;> rfl
  | take x => simp only [step, Pool.take]; split; · rfl
              split <;> rfl
  | complete x => simp only [step, Pool.complete]; split; · rfl
                  split <;> rfl
  | ctxClose x => simp only [step, Pool.ctxClose]; split; · rfl
                  split <;> rfl
  | writerExit x => simp only [step, Pool.writerExit]; split; · rfl
                    split <;> rfl
  | readClose x => simp only [step, Pool.readClose]; split <;> rfl
  | cancel x => simp only [step, Pool.cancel]; split <;> rfl
  | setGated x b => simp only [step, Pool.setGated]; split <;> rfl
  | setCloseBlocks x b => simp only [step, Pool.setCloseBlocks]; split <;> rfl
  | closeRemote x => simp only [step, Pool.closeRemote]; split; · rfl
                     split <;> rfl
  | poolRemove x =>
    simp only [step, Pool.poolRemove]; split; · rfl
    split; · rfl
    split; · rfl
    split <;> rfl
  | dialTake => simp only [step, Pool.dialTake]; split; · rfl
                split <;> rfl
  | dialRun tid =>
    simp only [step, Pool.dialRun]; split; · rfl
    split; · rfl
    exact book_foldl_sendOne _ _ _

theorem CallsFresh.step {p : Pool} (h : CallsFresh p) (st : Step) : CallsFresh (step p st).1 := by
  by_cases h1 : ∃ m tags, st = .snapBroadcast m tags
  · obtain ⟨m, tags, rfl⟩ := h1
    intro c hc
    simp only [AnySync.StreamPool.step, Pool.snapBroadcast, Pool.snapshot, List.mem_append, List.mem_singleton] at hc ⊢
    cases hc with
    | inl hc => exact Nat.lt_succ_of_lt (h c hc)
    | inr hc => rw [hc]; exact Nat.lt_succ_self _
  by_cases h2 : ∃ m peers, st = .snapSendById m peers
  · obtain ⟨m, peers, rfl⟩ := h2
    intro c hc
    simp only [AnySync.StreamPool.step, Pool.snapSendById, Pool.snapshot, List.mem_append, List.mem_singleton] at hc ⊢
    cases hc with
    | inl hc => exact Nat.lt_succ_of_lt (h c hc)
    | inr hc => rw [hc]; exact Nat.lt_succ_self _
  by_cases h3 : ∃ cid, st = .callWrite cid
  · obtain ⟨cid, rfl⟩ := h3
    simp only [AnySync.StreamPool.step, Pool.callWrite]
    split
    · exact h
    · rename_i c0 _
      split
      · intro c hc; exact h c (List.mem_filter.mp hc).1
      · rename_i x _
        obtain ⟨hc1, hc2, _⟩ := writeTo_calls p x c0.msg
        intro c hc
        simp only at hc ⊢
        rw [hc2]
        split at hc
        · rw [hc1] at hc; exact h c (List.mem_filter.mp hc).1
        · rw [hc1, List.mem_map] at hc
          obtain ⟨c', hc', rfl⟩ := hc
          split
          · exact h c' hc'
          · exact h c' hc'
  · have hb := book_step p st (fun m tags e => h1 ⟨m, tags, e⟩) (fun m peers e => h2 ⟨m, peers, e⟩)
      (fun cid e => h3 ⟨cid, e⟩)
    unfold book at hb
    injection hb with hb1 hb2
    intro c hc
    rw [hb1] at hc; rw [hb2]; exact h c hc

theorem CallsFresh.run (steps : List Step) : ∀ {p : Pool}, CallsFresh p → CallsFresh (run p steps) := by
  induction steps with
  | nil => intro p h; exact h
  | cons st rest ih => intro p h; exact ih (h.step st)

theorem CallsFresh.init (w q : Nat) : CallsFresh (init w q) := by
  intro c hc; simp [AnySync.StreamPool.init] at hc

end AnySync.StreamPool

namespace AnySync.StreamPool

/-- **macro = micro (Broadcast).** In every state with fresh call ids, the macro step equals the snapshot
step followed by `k` single `callWrite` steps of that call, in list order, nothing interleaved — up to
the call-id counter (the macro step does not allocate a call id) and the snapshot's nil-dereference flag. -/
theorem macro_eq_micro_broadcast_any (p : Pool) (hf : CallsFresh p) (m : Nat) (tags : List Nat) :
    ∃ k, run p (.snapBroadcast m tags :: List.replicate k (.callWrite p.nextCall)) =
      (mstep p (.broadcast m tags)).withBook p.calls (p.nextCall + 1)
        (p.nilDeref || (((p.broadcastIds tags).map (fun id => [id])).flatten.any (fun id => !(p.streams.contains id)))) := by
  obtain ⟨k, _, hk⟩ := finishCall_is_run p.nextCall
    (callFuel ((p.broadcastIds tags).map (fun id => [id]))) (p.snapBroadcast m tags)
  refine ⟨k, ?_⟩
  have : run p (.snapBroadcast m tags :: List.replicate k (.callWrite p.nextCall)) =
      run (p.snapBroadcast m tags) (List.replicate k (.callWrite p.nextCall)) := rfl
  rw [this, ← hk]
  exact broadcast_eq_now p hf m tags

/-- **macro = micro (SendById)**, including the caller-visible result of the call -/
theorem macro_eq_micro_sendById_any (p : Pool) (hf : CallsFresh p) (m : Nat) (peers : List Nat) :
    (∃ k, run p (.snapSendById m peers :: List.replicate k (.callWrite p.nextCall)) =
      (mstep p (.sendById m peers)).withBook p.calls (p.nextCall + 1)
        (p.nilDeref || ((p.sendByIdGroups peers).flatten.any (fun id => !(p.streams.contains id))))) ∧
    (step p (.snapSendById m peers)).2 = (p.sendByIdNow m peers).2 := by
  refine ⟨?_, rfl⟩
  obtain ⟨k, _, hk⟩ := finishCall_is_run p.nextCall (callFuel (p.sendByIdGroups peers)) (p.snapSendById m peers).1
  refine ⟨k, ?_⟩
  have : run p (.snapSendById m peers :: List.replicate k (.callWrite p.nextCall)) =
      run (p.snapSendById m peers).1 (List.replicate k (.callWrite p.nextCall)) := rfl
  rw [this, ← hk]
  exact (sendById_eq_now p hf m peers).1

theorem IdxInv.missing_false {p : Pool} (h : IdxInv p) (groups : List (List Nat))
    (hg : ∀ id ∈ groups.flatten, id ∈ p.streams) :
    (groups.flatten.any (fun id => !(p.streams.contains id))) = false := by
  rw [List.any_eq_false]
  intro id hid
  simp [hg id hid]

end AnySync.StreamPool
