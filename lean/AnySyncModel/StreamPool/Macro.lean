/-
Macro schedules for the stream pool (C19): a public call (`Broadcast`, `SendById`) runs to completion
as one step. Lemmas only: the object-local and index invariants along macro schedules, and the
stability of (id, peer) pairs (objects are only updated in place or appended).
-/
import AnySyncModel.StreamPool.Lemmas

namespace AnySync.StreamPool

/-! ### the invariants also hold along macro schedules -/

theorem evolves_writeAll (m : Nat) (ids : List Nat) : ∀ p : Pool, Evolves p.objs (p.writeAll m ids).objs := by
  induction ids with
  | nil => intro p; exact Evolves.refl _
  | cons x rest ih => intro p; exact (evolves_writeTo p x m).trans (ih _)

theorem evolves_writeGroups (m : Nat) (gs : List (List Nat)) : ∀ p : Pool, Evolves p.objs (p.writeGroups m gs).objs := by
  induction gs with
  | nil => intro p; exact Evolves.refl _
  | cons g rest ih => intro p; exact (evolves_writeFirst m g p).trans (ih _)

theorem mstep_evolves (p : Pool) (ms : MStep) : Evolves p.objs (mstep p ms).objs := by
  cases ms with
  | atom st => exact step_evolves p st
  | broadcast m tags => exact evolves_writeAll m _ p
  | sendById m peers => exact evolves_writeGroups m _ p

theorem mrun_evolves (σ : List MStep) : ∀ p : Pool, Evolves p.objs (mrun p σ).objs := by
  induction σ with
  | nil => intro p; exact Evolves.refl _
  | cons ms rest ih => intro p; exact (mstep_evolves p ms).trans (ih _)

theorem obj_invariant_m (P : Stream → Prop) (hfresh : ∀ s, Fresh s → P s)
    (hstep : ∀ s s', P s → ObjStep s s' → P s')
    (p : Pool) (hp : ∀ s ∈ p.objs, P s) (σ : List MStep) :
    ∀ s ∈ (mrun p σ).objs, P s := by
  intro s hs
  obtain ⟨s0, h0, sts⟩ := mrun_evolves σ p s hs
  have hP0 : P s0 := by
    cases h0 with
    | inl h => exact hp s0 h
    | inr h => exact hfresh s0 h
  clear h0 hs
  induction sts with
  | refl => exact hP0
  | tail _ st ih => exact hstep _ _ ih st

theorem IdxInv.writeAll (m : Nat) (ids : List Nat) : ∀ {p : Pool}, IdxInv p → IdxInv (p.writeAll m ids) := by
  induction ids with
  | nil => intro p h; exact h
  | cons x rest ih => intro p h; exact ih (h.writeTo x m)

theorem IdxInv.writeGroups (m : Nat) (gs : List (List Nat)) : ∀ {p : Pool}, IdxInv p → IdxInv (p.writeGroups m gs) := by
  induction gs with
  | nil => intro p h; exact h
  | cons g rest ih => intro p h; exact ih (h.writeFirst m g)

theorem IdxInv.mstep {p : Pool} (h : IdxInv p) (ms : MStep) : IdxInv (mstep p ms) := by
  cases ms with
  | atom st => exact h.step st
  | broadcast m tags => exact h.writeAll m _
  | sendById m peers => exact h.writeGroups m _

theorem IdxInv.mrun (σ : List MStep) : ∀ {p : Pool}, IdxInv p → IdxInv (mrun p σ) := by
  induction σ with
  | nil => intro p h; exact h
  | cons ms rest ih => intro p h; exact ih (h.mstep ms)
/-! ## peers of existing ids never change (objects are only updated in place or appended) -/

def keys (objs : List Stream) : List (Nat × Nat) := objs.map (fun s => (s.id, s.peer))

/-- the (id, peer) list only grows at the end -/
def Ext (objs objs' : List Stream) : Prop := keys objs <+: keys objs'

theorem Ext.refl (objs : List Stream) : Ext objs objs := List.prefix_refl _
theorem Ext.trans {a b c : List Stream} (h1 : Ext a b) (h2 : Ext b c) : Ext a c := List.IsPrefix.trans h1 h2

theorem keys_modObj (objs : List Stream) (id : Nat) (f : Stream → Stream) (hf : ∀ s, ObjStep s (f s)) :
    keys (modObj objs id f) = keys objs := by
  unfold keys modObj
  rw [List.map_map]
  apply List.map_congr_left
  intro s _
  simp only [Function.comp]
  split
  · have := objStep_static s (f s) (hf s); simp [this.1, this.2.1]
  · rfl

theorem ext_modObj (objs : List Stream) (id : Nat) (f : Stream → Stream) (hf : ∀ s, ObjStep s (f s)) :
    Ext objs (modObj objs id f) := by
  unfold Ext; rw [keys_modObj objs id f hf]; exact List.prefix_refl _

theorem ext_add (p : Pool) (peer c : Nat) (g : Bool) (f : Nat) (tags : List Nat) :
    Ext p.objs (p.add peer c g f tags).1.objs := by
  unfold Ext keys
  simp only [Pool.add, List.map_append]
  exact List.prefix_append _ _

theorem ext_writeTo (p : Pool) (sid m : Nat) : Ext p.objs (p.writeTo sid m).1.objs := by
  unfold Pool.writeTo
  split
  · exact Ext.refl _
  · exact ext_modObj _ _ _ (fun s => ObjStep.tryAdd s m)

theorem ext_writeFirst (m : Nat) (ids : List Nat) : ∀ p : Pool, Ext p.objs (p.writeFirst m ids).objs := by
  induction ids with
  | nil => intro p; exact Ext.refl _
  | cons sid rest ih =>
    intro p
    simp only [Pool.writeFirst]
    split
    · exact ext_writeTo p sid m
    · exact (ext_writeTo p sid m).trans (ih _)

theorem ext_sendOne (p : Pool) (m peer : Nat) : Ext p.objs (p.sendOne m peer).objs := by
  have h1 : Ext p.objs (p.openIfMissing peer).objs := by
    unfold Pool.openIfMissing
    split
    · split
      · exact Ext.refl _
      · exact ext_add p _ _ _ _ _
    · exact Ext.refl _
  exact h1.trans (ext_writeFirst m _ _)

theorem ext_foldl_sendOne (m : Nat) (peers : List Nat) :
    ∀ p : Pool, Ext p.objs (peers.foldl (fun q peer => q.sendOne m peer) p).objs := by
  induction peers with
  | nil => intro p; exact Ext.refl _
  | cons x rest ih => intro p; exact (ext_sendOne p m x).trans (ih _)

theorem ext_callWrite (p : Pool) (cid : Nat) : Ext p.objs (p.callWrite cid).1.objs := by
  unfold Pool.callWrite
  split
  · exact Ext.refl _
  · split
    · exact Ext.refl _
    · exact ext_writeTo p _ _

theorem step_ext (p : Pool) (st : Step) : Ext p.objs (step p st).1.objs := by
  cases st with
  | add peer c g f tags => exact ext_add p peer c g f tags
  | addNoPeer => exact Ext.refl _
  | snapBroadcast m tags => exact Ext.refl _
  | snapSendById m peers => exact Ext.refl _
  | callWrite cid => exact ext_callWrite p cid
  | addTags sid tags =>
    simp only [step, Pool.addTags]
    split
    · split
      · exact Ext.refl _
      · exact ext_modObj _ _ _ (fun s => ObjStep.setTags s _)
    · exact Ext.refl _
  | removeTags sid tags =>
    simp only [step, Pool.removeTags, Pool.removeTagsCore]
    split
    · split
      · exact Ext.refl _
      · exact ext_modObj _ _ _ (fun s => ObjStep.setTags s _)
    · exact Ext.refl _
  | removeTagsById sid tags =>
    simp only [step, Pool.removeTagsById, Pool.removeTagsCore]
    split
    · split
      · exact Ext.refl _
      · exact ext_modObj _ _ _ (fun s => ObjStep.setTags s _)
    · exact Ext.refl _
  | streamsQ tags => exact Ext.refl _
  | send t =>
    simp only [step, Pool.send]
    split <;> exact Ext.refl _
  | setPlan peer sp =>
    simp only [step, Pool.setPlan]
    split <;> exact Ext.refl _
  | take sid =>
    simp only [step, Pool.take]
    split
    · exact Ext.refl _
    · split
      · exact Ext.refl _
      · exact ext_modObj _ _ _ ObjStep.take
  | complete sid =>
    simp only [step, Pool.complete]
    split
    · exact Ext.refl _
    · split
      · exact Ext.refl _
      · exact ext_modObj _ _ _ ObjStep.complete
  | ctxClose sid =>
    simp only [step, Pool.ctxClose]
    split
    · exact Ext.refl _
    · split
      · exact Ext.refl _
      · exact ext_modObj _ _ _ ObjStep.ctxClose
  | writerExit sid =>
    simp only [step, Pool.writerExit]
    split
    · exact Ext.refl _
    · split
      · exact Ext.refl _
      · exact ext_modObj _ _ _ ObjStep.writerExit
  | readClose sid =>
    simp only [step, Pool.readClose]
    split
    · exact Ext.refl _
    · exact ext_modObj _ _ _ ObjStep.setClosed
  | cancel sid =>
    simp only [step, Pool.cancel]
    split
    · exact Ext.refl _
    · exact ext_modObj _ _ _ ObjStep.setCancelled
  | setGated sid b =>
    simp only [step, Pool.setGated]
    split
    · exact Ext.refl _
    · exact ext_modObj _ _ _ (fun s => ObjStep.setGated s b)
  | setCloseBlocks sid b =>
    simp only [step, Pool.setCloseBlocks]
    split
    · exact Ext.refl _
    · exact ext_modObj _ _ _ (fun s => ObjStep.setCloseBlocks s b)
  | closeRemote sid =>
    simp only [step, Pool.closeRemote]
    split
    · exact Ext.refl _
    · split
      · exact Ext.refl _
      · exact ext_modObj _ _ _ ObjStep.closeRemote
  | poolRemove sid =>
    simp only [step, Pool.poolRemove]
    split
    · exact Ext.refl _
    · split
      · exact Ext.refl _
      · split
        · exact ext_modObj _ _ _ ObjStep.setRemoved
        · split
          · exact ext_modObj _ _ _ ObjStep.setRemoved
          · exact ext_modObj _ _ _ ObjStep.setRemoved
  | dialTake =>
    simp only [step, Pool.dialTake]
    split
    · exact Ext.refl _
    · split <;> exact Ext.refl _
  | dialRun tid =>
    simp only [step, Pool.dialRun]
    split
    · exact Ext.refl _
    · split
      · exact Ext.refl _
      · exact ext_foldl_sendOne _ _ { p with running := p.running.filter (fun t => t.id ≠ tid) }


theorem peerOf_keys (objs : List Stream) (y : Nat) :
    peerOf objs y = ((keys objs).find? (fun kv => kv.1 = y)).map (·.2) := by
  unfold peerOf getObj keys
  induction objs with
  | nil => simp
  | cons s rest ih =>
    simp only [List.map_cons, List.find?_cons]
    by_cases h : s.id = y
    · simp [h]
    · simp [h]; simpa using ih

theorem Ext.peer_stable {objs objs' : List Stream} (h : Ext objs objs') (y k : Nat)
    (hp : peerOf objs y = some k) : peerOf objs' y = some k := by
  rw [peerOf_keys] at hp ⊢
  obtain ⟨extra, he⟩ := h
  rw [← he, List.find?_append]
  cases hf : (keys objs).find? (fun kv => kv.1 = y) with
  | none => rw [hf] at hp; simp at hp
  | some kv => rw [hf] at hp; simpa using hp

end AnySync.StreamPool
