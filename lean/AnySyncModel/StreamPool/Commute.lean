/-
Commutation of a pending single write with foreign object-only steps (C19): the partial transfer
result from macro schedules to fine-grained interleavings.
-/
import AnySyncModel.StreamPool.Isolation
import AnySyncModel.StreamPool.MacroMicro

namespace AnySync.StreamPool

/-! ## a pending single write commutes with foreign object-only steps -/

theorem objFn_not_call (st : Step) (yf : Nat × (Stream → Stream)) (h : st.objFn = some yf) :
    (∀ m tags, st ≠ .snapBroadcast m tags) ∧ (∀ m peers, st ≠ .snapSendById m peers) ∧
    (∀ cid, st ≠ .callWrite cid) := by
  cases st <;> simp [Step.objFn] at h <;>
    exact ⟨fun _ _ e => Step.noConfusion e, ⟨fun _ _ e => Step.noConfusion e, fun _ e => Step.noConfusion e⟩⟩

/-- the effect of one `callWrite` whose next target is `x` -/
theorem callWrite_proj (p : Pool) (cid : Nat) (c : Call) (x : Nat)
    (hfind : p.calls.find? (fun c => c.id = cid) = some c) (hx : nextTarget c.groups = some x) :
    (p.callWrite cid).1.objs = (p.writeTo x c.msg).1.objs ∧
    (p.callWrite cid).1.calls =
      (if advance c.groups (p.writeTo x c.msg).2 = [] then p.calls.filter (fun c => c.id ≠ cid)
       else p.calls.map (fun c' => if c'.id = cid then { c' with groups := advance c.groups (p.writeTo x c.msg).2 } else c')) ∧
    SameIdx (p.callWrite cid).1 p := by
  obtain ⟨hc1, _, _⟩ := writeTo_calls p x c.msg
  have hs : SameIdx (p.writeTo x c.msg).1 p := (objUpd_writeTo p x c.msg).1
  unfold Pool.callWrite
  rw [hfind]
  simp only [hx]
  refine ⟨by first | rfl | trivial, ?_, hs⟩
  rw [hc1]

/-- **commutation (partial transfer result).** Let call `cid` be pending with next target `x`, and let
`st` be any step that only touches one stream object `y ≠ x` (a writer / remote / close step of
another stream). Executing the write before or after `st` gives the same stream objects, the same
pending calls and the same indexes. -/
theorem callWrite_commutes_foreign (p : Pool) (cid : Nat) (c : Call) (x y : Nat) (f : Stream → Stream) (st : Step)
    (hfind : p.calls.find? (fun c => c.id = cid) = some c) (hx : nextTarget c.groups = some x)
    (hst : st.objFn = some (y, f)) (hxy : y ≠ x) :
    let A := (step (p.callWrite cid).1 st).1
    let B := ((step p st).1.callWrite cid).1
    (∀ z, getObj A.objs z = getObj B.objs z) ∧ A.calls = B.calls ∧ A.streams = B.streams ∧
    A.byPeer = B.byPeer ∧ A.byTag = B.byTag ∧ A.lastId = B.lastId := by
  intro A B
  obtain ⟨hn1, hn2, hn3⟩ := objFn_not_call st (y, f) hst
  -- order A: write, then st
  obtain ⟨hAo, hAc, hAs⟩ := callWrite_proj p cid c x hfind hx
  have hAst := (step_objUpd (p.callWrite cid).1 st y f hst).1
  have hAbook := book_step (p.callWrite cid).1 st hn1 hn2 hn3
  -- order B: st, then write
  have hBst := (step_objUpd p st y f hst).1
  have hBbook := book_step p st hn1 hn2 hn3
  have hBcalls : (step p st).1.calls = p.calls := by
    unfold book at hBbook; injection hBbook
  have hfindB : (step p st).1.calls.find? (fun c => c.id = cid) = some c := by rw [hBcalls]; exact hfind
  obtain ⟨hBo, hBc, hBs⟩ := callWrite_proj (step p st).1 cid c x hfindB hx
  -- the write has the same outcome in both orders
  have hxobj : getObj (step p st).1.objs x = getObj p.objs x := by
    rw [hBst.2 x]; simp [Ne.symm hxy]
  have hres : ((step p st).1.writeTo x c.msg).2 = (p.writeTo x c.msg).2 := by
    rw [(writeTo_local _ x c.msg).2, (writeTo_local p x c.msg).2, hxobj]
  have hwA := (objUpd_writeTo p x c.msg).2
  have hwB := (objUpd_writeTo (step p st).1 x c.msg).2
  refine ⟨?_, ?_, ?_, ?_, ?_, ?_⟩
  · intro z
    show getObj (step (p.callWrite cid).1 st).1.objs z = getObj ((step p st).1.callWrite cid).1.objs z
    rw [hAst.2 z, hAo, hBo, hwB z, hwA y, hwA z, hBst.2 x, hBst.2 z]
    by_cases hzy : z = y
    · subst hzy; simp [hxy]
    · by_cases hzx : z = x
      · subst hzx; simp [Ne.symm hxy]
      · simp [hzy, hzx]
  · show (step (p.callWrite cid).1 st).1.calls = ((step p st).1.callWrite cid).1.calls
    have : (step (p.callWrite cid).1 st).1.calls = (p.callWrite cid).1.calls := by
      unfold book at hAbook; injection hAbook
    rw [this, hAc, hBc, hres, hBcalls]
  · exact (hAst.1.2.1.trans hAs.2.1).trans (hBs.2.1.trans hBst.1.2.1).symm
  · exact (hAst.1.2.2.1.trans hAs.2.2.1).trans (hBs.2.2.1.trans hBst.1.2.2.1).symm
  · exact (hAst.1.2.2.2.1.trans hAs.2.2.2.1).trans (hBs.2.2.2.1.trans hBst.1.2.2.2.1).symm
  · exact (hAst.1.1.trans hAs.1).trans (hBs.1.trans hBst.1.1).symm

end AnySync.StreamPool
