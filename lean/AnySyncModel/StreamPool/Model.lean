/-
Model of the outbound stream pool `net/streampool/{streampool,stream,sendpool}.go` (property C19).

The pool is a labelled transition system whose atomic steps are the critical sections of the Go code
(DESIGN.md §3 "Concurrency"):

* caller steps   — `AddStream` (`addStream` under `s.mu`), the *snapshot* half of `Broadcast` /
  `SendById` (stream lists are collected under `s.mu`), one `stream.write` (= one `mb.TryAdd`, atomic
  under the queue's own mutex) of a snapshotted call, `AddTagsCtx` / `RemoveTagsCtx` /
  `RemoveTagsById`, `Streams`, `Send` (= `dial.TryAdd`);
* writer steps   — `take` (`queue.WaitOne` returns the head of the buffer), `complete` (`MsgSend`
  returns, with nil or an error), `ctxClose` (`WaitOne` observes the cancelled peer context);
* environment    — `readClose` (the read loop ends → `streamClose`), `cancel`, `setGated`,
  `closeRemote` (the `stream.Close()` call of `streamClose` returns — it may take arbitrarily long
  or never happen; it is made by the goroutine that won `closed.Swap(true)` and holds NO pool
  lock), `poolRemove` (`streamPool.removeStream`, the critical section under `s.mu` that cleans the
  three indexes; it runs after `Close()` returned), dial-pool worker steps.

The three indexes `streams`, `streamIdsByPeer`, `streamIdsByTag` are three *independent* data
structures exactly as in Go; that they describe one relation is a theorem (Props/C19), not a
construction.  `log.Fatal` (index inconsistency) and the nil dereference of `s.streams[id]` are
explicit flags (`fatal`, `nilDeref`) proved unreachable.

Trusted / abstracted (see notes/areas/streampool.md): the `mb` queue is modelled as a bounded FIFO
whose `TryAdd` fails when `len(buf)+1 > size` or the queue is closed, and whose `WaitOne` checks
the context before the buffer; `drpc.Stream.MsgSend` after `Close` returns an error; `sendOne`
(open-if-missing + snapshot + first-success write, run by a dial worker) is one atomic step.
-/
namespace AnySync.StreamPool

/-! ## association maps (`map[string][]uint32`) -/

abbrev AMap := List (Nat × List Nat)

namespace AMap

/-- `m[k]` (nil slice when absent) -/
def get : AMap → Nat → List Nat
  | [], _ => []
  | (k', v) :: rest, k => if k' = k then v else get rest k

/-- `delete(m, k)` -/
def erase : AMap → Nat → AMap
  | [], _ => []
  | (k', v) :: rest, k => if k' = k then erase rest k else (k', v) :: erase rest k

/-- `m[k] = v`, with the Go code's habit of deleting the key when the slice becomes empty -/
def set (m : AMap) (k : Nat) (v : List Nat) : AMap :=
  if v = [] then erase m k else (k, v) :: erase m k

end AMap

/-! ## stream objects -/

/-- one `*stream` object together with its `mb` queue, its writer goroutine and the fake remote -/
structure Stream where
  id        : Nat
  peer      : Nat
  cap       : Nat                 -- effective queue size (after the `queueSize <= 0 → default` rule)
  tags      : List Nat            -- `st.tags`, in slice order
  queue     : List Nat            -- `mb` buffer
  inflight  : Option Nat := none  -- message handed to `MsgSend` which has not returned yet
  delivered : List Nat := []      -- messages for which `MsgSend` returned nil, chronological
  accepted  : List Nat := []      -- ghost: every message `TryAdd` accepted, chronological
  gated     : Bool := false       -- remote behaviour: `MsgSend` parks until released
  sendCalls : Nat := 0            -- number of `MsgSend` calls started
  failAt    : Nat := 0            -- the `failAt`-th `MsgSend` returns an error (0 = never)
  cancelled : Bool := false       -- peer context cancelled
  closed    : Bool := false       -- `closed.Swap(true)` happened (queue closed, remote closed)
  removed   : Bool := false       -- `removeStream` finished
  closeBlocks : Bool := false     -- remote behaviour: `stream.Close()` parks until released
  remoteClosed : Bool := false    -- `stream.Close()` (called by `streamClose`, outside the pool lock) returned
  writerDone : Bool := false      -- `writeLoop` returned
deriving Repr, DecidableEq, Inhabited

/-- default used by `addStream` when `queueSize <= 0` -/
def defaultQueueSize : Nat := 100

def effCap (raw : Nat) : Nat := if raw = 0 then defaultQueueSize else raw

/-- `stream.write` = `queue.TryAdd(msg)`: never blocks; fails on a closed or full queue -/
def Stream.tryAdd (s : Stream) (m : Nat) : Stream × Bool :=
  if s.closed then (s, false)
  else if s.queue.length + 1 > s.cap then (s, false)
  else ({ s with queue := s.queue ++ [m], accepted := s.accepted ++ [m] }, true)


/-! ### writer / environment transitions of one stream object (self-guarded) -/

/-- `queue.WaitOne` hands the head of the buffer to `MsgSend` -/
def Stream.takeStep (s : Stream) : Stream :=
  if s.writerDone ∨ s.inflight.isSome ∨ s.cancelled then s
  else match s.queue with
    | [] => s
    | m :: rest => { s with queue := rest, inflight := some m, sendCalls := s.sendCalls + 1 }

/-- does the pending `MsgSend` return an error? (remote closed, or the scripted failing write) -/
def Stream.sendFails (s : Stream) : Bool := s.closed || (s.failAt != 0 && s.sendCalls == s.failAt)

/-- `MsgSend` returns: nil (delivered) or an error (→ `streamClose`, writer exits) -/
def Stream.completeStep (s : Stream) : Stream :=
  match s.inflight with
  | none => s
  | some m =>
    if s.sendFails then { s with inflight := none, writerDone := true, closed := true }
    else { s with inflight := none, delivered := s.delivered ++ [m] }

/-- the writer's `WaitOne(peerCtx)` returns the context error → `streamClose`, writer exits -/
def Stream.ctxCloseStep (s : Stream) : Stream :=
  if s.writerDone ∨ s.inflight.isSome ∨ !s.cancelled then s
  else { s with writerDone := true, closed := true }

/-- the writer's `WaitOne` returns `ErrClosed` (closed and empty queue) → writer exits -/
def Stream.writerExitStep (s : Stream) : Stream :=
  if s.writerDone ∨ s.inflight.isSome ∨ s.cancelled ∨ !s.closed ∨ s.queue ≠ [] then s
  else { s with writerDone := true }

/-- `stream.Close()` returns to the goroutine running `streamClose` -/
def Stream.closeRemoteStep (s : Stream) : Stream :=
  if s.closed ∧ !s.remoteClosed then { s with remoteClosed := true } else s

/-! ## pool -/

structure Task where
  id        : Nat
  msg       : Nat
  peers     : List Nat
  getterErr : Bool
deriving Repr, DecidableEq, Inhabited

structure OpenSpec where
  capRaw : Nat
  gated  : Bool
  failAt : Nat
  tags   : List Nat
deriving Repr, DecidableEq, Inhabited

/-- a `Broadcast` / `SendById` call after its snapshot: for every group, write to the group's
streams in order until the first success -/
structure Call where
  id     : Nat
  msg    : Nat
  groups : List (List Nat)
deriving Repr, DecidableEq, Inhabited

structure Pool where
  objs     : List Stream := []        -- heap: every stream object ever created
  streams  : List Nat := []           -- key set of `s.streams`
  byPeer   : AMap := []               -- `streamIdsByPeer`
  byTag    : AMap := []               -- `streamIdsByTag`
  lastId   : Nat := 0
  calls    : List Call := []
  nextCall : Nat := 0
  hookLog  : List (Nat × Nat × List Nat) := []   -- `closeHook(streamId, peerId, tags)` invocations
  fatal    : Bool := false            -- `log.Fatal` reached
  nilDeref : Bool := false            -- `s.streams[id]` was nil and got dereferenced
  dialW    : Nat := 1
  dialQ    : Nat := 1
  dialBuf  : List Task := []
  running  : List Task := []
  openPlan : List (Nat × OpenSpec) := []
deriving Repr, Inhabited

def getObj (objs : List Stream) (id : Nat) : Option Stream := objs.find? (fun s => s.id = id)

def modObj (objs : List Stream) (id : Nat) (f : Stream → Stream) : List Stream :=
  objs.map (fun s => if s.id = id then f s else s)

/-- package-level `removeStream(m, key, streamId)`; `none` = `log.Fatal` -/
def idxRemove (m : AMap) (k id : Nat) : Option AMap :=
  if id ∈ m.get k then some (m.set k ((m.get k).erase id)) else none

def idxAppend (m : AMap) (k id : Nat) : AMap := m.set k (m.get k ++ [id])

def idxAppendAll (m : AMap) (ks : List Nat) (id : Nat) : AMap :=
  ks.foldl (fun m k => idxAppend m k id) m

/-- remove `id` under every key of `ks`; the flag is false when some removal hit `log.Fatal` -/
def idxRemoveAll (m : AMap) (ks : List Nat) (id : Nat) : AMap × Bool :=
  ks.foldl (fun (acc : AMap × Bool) k =>
    match idxRemove acc.1 k id with
    | some m' => (m', acc.2)
    | none => (acc.1, false)) (m, true)

inductive Res where
  | ok
  | added (id : Nat)
  | errNoPeer
  | errUnable
  | errNotFound
  | errOverflow
  | ids (l : List Nat)
  | wrote (sid : Nat) (ok : Bool)
  | disabled                    -- the step's guard is false: nothing happens
deriving Repr, DecidableEq

/-! ### caller steps -/

/-- `addStream` -/
def Pool.add (p : Pool) (peer capRaw : Nat) (gated : Bool) (failAt : Nat) (tags : List Nat) : Pool × Nat :=
  let id := p.lastId + 1
  let st : Stream := { id := id, peer := peer, cap := effCap capRaw, tags := tags, queue := [],
                       gated := gated, failAt := failAt }
  ({ p with lastId := id, objs := p.objs ++ [st], streams := p.streams ++ [id],
            byPeer := idxAppend p.byPeer peer id, byTag := idxAppendAll p.byTag tags id }, id)

/-- the `seen` map of `Broadcast`: keep the first occurrence of every id -/
def dedup : List Nat → List Nat → List Nat
  | _, [] => []
  | seen, x :: rest => if x ∈ seen then dedup seen rest else x :: dedup (x :: seen) rest

/-- ids collected by `Broadcast` under the lock (`seen` only exists when `len(tags) > 1`) -/
def Pool.broadcastIds (p : Pool) (tags : List Nat) : List Nat :=
  let all := (tags.map p.byTag.get).flatten
  if tags.length > 1 then dedup [] all else all

def Pool.snapshot (p : Pool) (m : Nat) (groups : List (List Nat)) : Pool :=
  let missing := groups.flatten.any (fun id => !(p.streams.contains id))
  { p with calls := p.calls ++ [{ id := p.nextCall, msg := m, groups := groups }],
           nextCall := p.nextCall + 1, nilDeref := p.nilDeref || missing }

def Pool.snapBroadcast (p : Pool) (m : Nat) (tags : List Nat) : Pool :=
  p.snapshot m ((p.broadcastIds tags).map (fun id => [id]))

def Pool.sendByIdGroups (p : Pool) (peers : List Nat) : List (List Nat) :=
  (peers.map p.byPeer.get).filter (fun l => l ≠ [])

def Pool.snapSendById (p : Pool) (m : Nat) (peers : List Nat) : Pool × Res :=
  let groups := p.sendByIdGroups peers
  (p.snapshot m groups, if groups = [] then .errUnable else .ok)

/-- perform `TryAdd` of `m` on object `sid` -/
def Pool.writeTo (p : Pool) (sid m : Nat) : Pool × Bool :=
  match getObj p.objs sid with
  | none => (p, false)
  | some s => ({ p with objs := modObj p.objs sid (fun x => (x.tryAdd m).1) }, (s.tryAdd m).2)

/-- what remains of a call's groups after one write to the head target with outcome `ok` -/
def advance (groups : List (List Nat)) (ok : Bool) : List (List Nat) :=
  match groups with
  | [] => []
  | [] :: gs => gs
  | (_ :: rest) :: gs => if ok then gs else (if rest = [] then gs else rest :: gs)

def nextTarget : List (List Nat) → Option Nat
  | [] => none
  | [] :: _ => none
  | (sid :: _) :: _ => some sid

/-- one `st.write(msg)` of the pending call `cid` -/
def Pool.callWrite (p : Pool) (cid : Nat) : Pool × Res :=
  match p.calls.find? (fun c => c.id = cid) with
  | none => (p, .disabled)
  | some c =>
    match nextTarget c.groups with
    | none => ({ p with calls := p.calls.filter (fun c => c.id ≠ cid) }, .ok)
    | some sid =>
      let r := p.writeTo sid c.msg
      let gs := advance c.groups r.2
      let calls := if gs = [] then r.1.calls.filter (fun c => c.id ≠ cid)
                   else r.1.calls.map (fun c' => if c'.id = cid then { c' with groups := gs } else c')
      ({ r.1 with calls := calls }, .wrote sid r.2)

/-- tags of `new` not yet on the stream, in order, without repetition (the `AddTagsCtx` loop) -/
def freshTags (have_ : List Nat) : List Nat → List Nat
  | [] => []
  | t :: rest => if t ∈ have_ then freshTags have_ rest else t :: freshTags (have_ ++ [t]) rest

def Pool.addTags (p : Pool) (sid : Nat) (tags : List Nat) : Pool × Res :=
  if sid ∈ p.streams then
    match getObj p.objs sid with
    | none => ({ p with nilDeref := true }, .ok)
    | some s =>
      let nt := freshTags s.tags tags
      ({ p with objs := modObj p.objs sid (fun s => { s with tags := s.tags ++ nt }),
                byTag := idxAppendAll p.byTag nt sid }, .ok)
  else (p, .errNotFound)

def Pool.removeTagsCore (p : Pool) (sid : Nat) (tags : List Nat) : Pool :=
  match getObj p.objs sid with
  | none => { p with nilDeref := true }
  | some s =>
    let toRemove := s.tags.filter (fun t => t ∈ tags)
    let r := idxRemoveAll p.byTag toRemove sid
    { p with objs := modObj p.objs sid (fun s => { s with tags := s.tags.filter (fun t => t ∉ tags) }),
             byTag := r.1, fatal := p.fatal || !r.2 }

def Pool.removeTags (p : Pool) (sid : Nat) (tags : List Nat) : Pool × Res :=
  if sid ∈ p.streams then (p.removeTagsCore sid tags, .ok) else (p, .errNotFound)

def Pool.removeTagsById (p : Pool) (sid : Nat) (tags : List Nat) : Pool × Res :=
  if sid ∈ p.streams then (p.removeTagsCore sid tags, .ok) else (p, .ok)

/-- `Streams(tags...)`: no deduplication -/
def Pool.streamsOf (p : Pool) (tags : List Nat) : List Nat := (tags.map p.byTag.get).flatten

/-- `Send` = `dial.TryAdd(closure)` -/
def Pool.send (p : Pool) (t : Task) : Pool × Res :=
  if p.dialQ > 0 ∧ p.dialBuf.length + 1 > p.dialQ then (p, .errOverflow)
  else ({ p with dialBuf := p.dialBuf ++ [t] }, .ok)

/-! ### writer and environment steps -/

def Pool.take (p : Pool) (sid : Nat) : Pool × Res :=
  match getObj p.objs sid with
  | none => (p, .disabled)
  | some s =>
    if s.takeStep = s then (p, .disabled)
    else ({ p with objs := modObj p.objs sid Stream.takeStep }, .ok)

/-- `MsgSend` returns: nil (delivered) or an error (→ `streamClose`, writer exits) -/
def Pool.complete (p : Pool) (sid : Nat) : Pool × Res :=
  match getObj p.objs sid with
  | none => (p, .disabled)
  | some s =>
    match s.inflight with
    | none => (p, .disabled)
    | some _ => ({ p with objs := modObj p.objs sid Stream.completeStep }, .wrote sid (!s.sendFails))

/-- the writer's `WaitOne(peerCtx)` returns the context error → `streamClose`, writer exits -/
def Pool.ctxClose (p : Pool) (sid : Nat) : Pool × Res :=
  match getObj p.objs sid with
  | none => (p, .disabled)
  | some s =>
    if s.ctxCloseStep = s then (p, .disabled)
    else ({ p with objs := modObj p.objs sid Stream.ctxCloseStep }, .ok)

/-- the writer's `WaitOne` returns `ErrClosed` (closed and empty queue) → writer exits -/
def Pool.writerExit (p : Pool) (sid : Nat) : Pool × Res :=
  match getObj p.objs sid with
  | none => (p, .disabled)
  | some s =>
    if s.writerExitStep = s then (p, .disabled)
    else ({ p with objs := modObj p.objs sid Stream.writerExitStep }, .ok)

/-- the read loop ends (remote closed / handler error) → `streamClose` -/
def Pool.readClose (p : Pool) (sid : Nat) : Pool × Res :=
  match getObj p.objs sid with
  | none => (p, .disabled)
  | some _ => ({ p with objs := modObj p.objs sid (fun s => { s with closed := true }) }, .ok)

def Pool.cancel (p : Pool) (sid : Nat) : Pool × Res :=
  match getObj p.objs sid with
  | none => (p, .disabled)
  | some _ => ({ p with objs := modObj p.objs sid (fun s => { s with cancelled := true }) }, .ok)

def Pool.setGated (p : Pool) (sid : Nat) (b : Bool) : Pool × Res :=
  match getObj p.objs sid with
  | none => (p, .disabled)
  | some _ => ({ p with objs := modObj p.objs sid (fun s => { s with gated := b }) }, .ok)

def Pool.setCloseBlocks (p : Pool) (sid : Nat) (b : Bool) : Pool × Res :=
  match getObj p.objs sid with
  | none => (p, .disabled)
  | some _ => ({ p with objs := modObj p.objs sid (fun s => { s with closeBlocks := b }) }, .ok)

/-- `stream.Close()` returns (possibly much later than it was called, possibly never) -/
def Pool.closeRemote (p : Pool) (sid : Nat) : Pool × Res :=
  match getObj p.objs sid with
  | none => (p, .disabled)
  | some s =>
    if s.closeRemoteStep = s then (p, .disabled)
    else ({ p with objs := modObj p.objs sid Stream.closeRemoteStep }, .ok)

/-- `streamPool.removeStream(streamId)`: called by `streamClose` after `stream.Close()` returned -/
def Pool.poolRemove (p : Pool) (sid : Nat) : Pool × Res :=
  match getObj p.objs sid with
  | none => (p, .disabled)
  | some s =>
    if !s.closed ∨ !s.remoteClosed ∨ s.removed then (p, .disabled)
    else if sid ∉ p.streams then
      ({ p with fatal := true, objs := modObj p.objs sid (fun s => { s with removed := true }) }, .ok)
    else
      match idxRemove p.byPeer s.peer sid with
      | none => ({ p with fatal := true, objs := modObj p.objs sid (fun s => { s with removed := true }) }, .ok)
      | some bp =>
        let r := idxRemoveAll p.byTag s.tags sid
        ({ p with byPeer := bp, byTag := r.1, fatal := p.fatal || !r.2,
                  streams := p.streams.erase sid,
                  objs := modObj p.objs sid (fun s => { s with removed := true }),
                  hookLog := p.hookLog ++ [(sid, s.peer, s.tags)] }, .ok)

/-! ### dial pool -/

def Pool.dialTake (p : Pool) : Pool × Res :=
  match p.dialBuf with
  | [] => (p, .disabled)
  | t :: rest =>
    if p.running.length < p.dialW then ({ p with dialBuf := rest, running := p.running ++ [t] }, .ok)
    else (p, .disabled)

def lookupPlan : List (Nat × OpenSpec) → Nat → Option OpenSpec
  | [], _ => none
  | (k, v) :: rest, p => if k = p then some v else lookupPlan rest p

/-- write `m` to the streams `ids` in order until the first success -/
def Pool.writeFirst (p : Pool) (m : Nat) : List Nat → Pool
  | [] => p
  | sid :: rest =>
    let r := p.writeTo sid m
    if r.2 then r.1 else Pool.writeFirst r.1 m rest

/-- `getStreams` of `sendOne`: when the peer has no stream, one is opened through the handler -/
def Pool.openIfMissing (p : Pool) (peer : Nat) : Pool :=
  if p.byPeer.get peer = [] then
    match lookupPlan p.openPlan peer with
    | none => p
    | some sp => (p.add peer sp.capRaw sp.gated sp.failAt sp.tags).1
  else p

/-- the write loop of `sendOne` over the streams of the peer -/
def Pool.sendOneWrite (p : Pool) (m peer : Nat) : Pool :=
  let q := p.writeFirst m (p.byPeer.get peer)
  { q with nilDeref := q.nilDeref || (p.byPeer.get peer).any (fun id => !(p.streams.contains id)) }

/-- `sendOne`: streams of the peer, opening one through the handler when there is none -/
def Pool.sendOne (p : Pool) (m peer : Nat) : Pool := (p.openIfMissing peer).sendOneWrite m peer

/-- the peer getter of running task `tid` returns and the closure runs to its end -/
def Pool.dialRun (p : Pool) (tid : Nat) : Pool × Res :=
  match p.running.find? (fun t => t.id = tid) with
  | none => (p, .disabled)
  | some t =>
    let p0 := { p with running := p.running.filter (fun t => t.id ≠ tid) }
    if t.getterErr then (p0, .ok)
    else (t.peers.foldl (fun q peer => q.sendOne t.msg peer) p0, .ok)

def Pool.setPlan (p : Pool) (peer : Nat) (sp : Option OpenSpec) : Pool :=
  let rest := p.openPlan.filter (fun kv => kv.1 ≠ peer)
  match sp with
  | none => { p with openPlan := rest }
  | some s => { p with openPlan := (peer, s) :: rest }

/-! ## the transition system -/

inductive Step where
  | add (peer capRaw : Nat) (gated : Bool) (failAt : Nat) (tags : List Nat)
  | addNoPeer
  | snapBroadcast (m : Nat) (tags : List Nat)
  | snapSendById (m : Nat) (peers : List Nat)
  | callWrite (cid : Nat)
  | addTags (sid : Nat) (tags : List Nat)
  | removeTags (sid : Nat) (tags : List Nat)
  | removeTagsById (sid : Nat) (tags : List Nat)
  | streamsQ (tags : List Nat)
  | send (t : Task)
  | setPlan (peer : Nat) (sp : Option OpenSpec)
  | take (sid : Nat)
  | complete (sid : Nat)
  | ctxClose (sid : Nat)
  | writerExit (sid : Nat)
  | readClose (sid : Nat)
  | cancel (sid : Nat)
  | setGated (sid : Nat) (b : Bool)
  | setCloseBlocks (sid : Nat) (b : Bool)
  | closeRemote (sid : Nat)
  | poolRemove (sid : Nat)
  | dialTake
  | dialRun (tid : Nat)
deriving Repr, DecidableEq

def step (p : Pool) : Step → Pool × Res
  | .add peer c g f tags => let r := p.add peer c g f tags; (r.1, .added r.2)
  | .addNoPeer => (p, .errNoPeer)
  | .snapBroadcast m tags => (p.snapBroadcast m tags, .ok)
  | .snapSendById m peers => p.snapSendById m peers
  | .callWrite cid => p.callWrite cid
  | .addTags sid tags => p.addTags sid tags
  | .removeTags sid tags => p.removeTags sid tags
  | .removeTagsById sid tags => p.removeTagsById sid tags
  | .streamsQ tags => (p, .ids (p.streamsOf tags))
  | .send t => p.send t
  | .setPlan peer sp => (p.setPlan peer sp, .ok)
  | .take sid => p.take sid
  | .complete sid => p.complete sid
  | .ctxClose sid => p.ctxClose sid
  | .writerExit sid => p.writerExit sid
  | .readClose sid => p.readClose sid
  | .cancel sid => p.cancel sid
  | .setGated sid b => p.setGated sid b
  | .setCloseBlocks sid b => p.setCloseBlocks sid b
  | .closeRemote sid => p.closeRemote sid
  | .poolRemove sid => p.poolRemove sid
  | .dialTake => p.dialTake
  | .dialRun tid => p.dialRun tid

/-- state after a schedule -/
def run (p : Pool) (steps : List Step) : Pool := steps.foldl (fun q st => (step q st).1) p

def init (w q : Nat) : Pool := { dialW := w, dialQ := q }

/-! ## composite operations used by the correspondence driver

The harness executes one public call at a time and waits for quiescence; the driver therefore runs a
snapshot followed by all of its writes, then lets every enabled internal step fire (`settle`). -/

/-- run all writes of call `cid` (fuel = number of targets + 1) -/
def Pool.finishCall (p : Pool) (cid : Nat) : Nat → Pool
  | 0 => p
  | fuel + 1 =>
    match p.calls.find? (fun c => c.id = cid) with
    | none => p
    | some _ => Pool.finishCall (p.callWrite cid).1 cid fuel

def callFuel (groups : List (List Nat)) : Nat := groups.flatten.length + groups.length + 1

def Pool.broadcast (p : Pool) (m : Nat) (tags : List Nat) : Pool :=
  let cid := p.nextCall
  let p1 := p.snapBroadcast m tags
  p1.finishCall cid (callFuel ((p.broadcastIds tags).map (fun id => [id])))

def Pool.sendById (p : Pool) (m : Nat) (peers : List Nat) : Pool × Res :=
  let cid := p.nextCall
  let r := p.snapSendById m peers
  (r.1.finishCall cid (callFuel (p.sendByIdGroups peers)), r.2)

/-- the internal step (if any) that object `s` can take at quiescence-seeking time -/
def settleStepOf (s : Stream) : Option Step :=
  if s.closed ∧ !s.remoteClosed ∧ !s.closeBlocks then some (.closeRemote s.id)
  else if s.closed ∧ s.remoteClosed ∧ !s.removed then some (.poolRemove s.id)
  else if s.inflight.isSome then
    (if !s.gated ∨ s.closed then some (.complete s.id) else none)
  else if s.writerDone then none
  else if s.cancelled then some (.ctxClose s.id)
  else if s.queue ≠ [] then some (.take s.id)
  else if s.closed then some (.writerExit s.id)
  else none

def Pool.settleStep (p : Pool) : Option Step :=
  match p.objs.findSome? settleStepOf with
  | some st => some st
  | none =>
    match p.dialBuf with
    | [] => none
    | _ :: _ => if p.running.length < p.dialW then some .dialTake else none

def Pool.settle (p : Pool) : Nat → Pool
  | 0 => p
  | fuel + 1 =>
    match p.settleStep with
    | none => p
    | some st => Pool.settle (step p st).1 fuel

def Pool.settleFuel (p : Pool) : Nat :=
  4 * ((p.objs.map (fun s => s.queue.length + 4)).sum + p.dialBuf.length + 4)

/-! ## macro steps: a public call runs to completion -/

/-- write `m` to every id in order (`Broadcast` after its snapshot) -/
def Pool.writeAll (p : Pool) (m : Nat) : List Nat → Pool
  | [] => p
  | id :: rest => Pool.writeAll (p.writeTo id m).1 m rest

/-- for every group, write to its streams in order until the first success (`SendById` after its snapshot) -/
def Pool.writeGroups (p : Pool) (m : Nat) : List (List Nat) → Pool
  | [] => p
  | g :: gs => Pool.writeGroups (p.writeFirst m g) m gs

/-- `Broadcast` run to completion without interleaving -/
def Pool.broadcastNow (p : Pool) (m : Nat) (tags : List Nat) : Pool := p.writeAll m (p.broadcastIds tags)

/-- `SendById` run to completion without interleaving -/
def Pool.sendByIdNow (p : Pool) (m : Nat) (peers : List Nat) : Pool × Res :=
  (p.writeGroups m (p.sendByIdGroups peers), if p.sendByIdGroups peers = [] then .errUnable else .ok)

inductive MStep where
  | atom (st : Step)
  | broadcast (m : Nat) (tags : List Nat)
  | sendById (m : Nat) (peers : List Nat)
deriving Repr, DecidableEq

def mstep (p : Pool) : MStep → Pool
  | .atom st => (step p st).1
  | .broadcast m tags => p.broadcastNow m tags
  | .sendById m peers => (p.sendByIdNow m peers).1

def mrun (p : Pool) (σ : List MStep) : Pool := σ.foldl mstep p


end AnySync.StreamPool
