/-
Non-interference for the stream pool (C19): the unwinding argument.
`Rel isB pb p p'` relates two pools that agree on everything outside the streams of peer `pb`;
every macro step taken by both sides preserves it (`sim_step`), every step of the writer / remote of a
stream of peer `pb` taken by one side only preserves it (`sim_writer`); `unwind` lifts this to traces.
-/
import AnySyncModel.StreamPool.Macro

namespace AnySync.StreamPool

/-! ## non-interference: the simulation relation -/

/-- `p` and `p'` agree on everything that concerns streams outside the set `isB` (the streams of
peer `pb`): the objects, their membership in `streams`, the `byPeer` lists of other peers, and the
`byTag` lists after erasing the `isB` ids; plus the dial pool. -/
structure Rel (isB : Nat → Bool) (pb : Nat) (p p' : Pool) : Prop where
  lastId : p.lastId = p'.lastId
  peers : ∀ y, peerOf p.objs y = peerOf p'.objs y
  objs : ∀ y, isB y = false → getObj p.objs y = getObj p'.objs y
  streams : ∀ y, isB y = false → (y ∈ p.streams ↔ y ∈ p'.streams)
  byPeer : ∀ k, k ≠ pb → p.byPeer.get k = p'.byPeer.get k
  byTag : ∀ t, (p.byTag.get t).filter (fun y => !isB y) = (p'.byTag.get t).filter (fun y => !isB y)
  dialBuf : p.dialBuf = p'.dialBuf
  running : p.running = p'.running
  dialW : p.dialW = p'.dialW
  dialQ : p.dialQ = p'.dialQ
  plan : p.openPlan = []
  plan' : p'.openPlan = []

variable {isB : Nat → Bool} {pb : Nat}

theorem Rel.refl (p : Pool) (h : p.openPlan = []) : Rel isB pb p p :=
  ⟨rfl, fun _ => rfl, fun _ _ => rfl, fun _ _ => Iff.rfl, fun _ _ => rfl, fun _ => rfl, rfl, rfl, rfl, rfl, h, h⟩

theorem Rel.symm {p p' : Pool} (h : Rel isB pb p p') : Rel isB pb p' p :=
  ⟨h.lastId.symm, fun y => (h.peers y).symm, fun y hy => (h.objs y hy).symm, fun y hy => (h.streams y hy).symm,
   fun k hk => (h.byPeer k hk).symm, fun t => (h.byTag t).symm, h.dialBuf.symm, h.running.symm, h.dialW.symm,
   h.dialQ.symm, h.plan', h.plan⟩

theorem Rel.trans {p q r : Pool} (h1 : Rel isB pb p q) (h2 : Rel isB pb q r) : Rel isB pb p r :=
  ⟨h1.lastId.trans h2.lastId, fun y => (h1.peers y).trans (h2.peers y),
   fun y hy => (h1.objs y hy).trans (h2.objs y hy), fun y hy => (h1.streams y hy).trans (h2.streams y hy),
   fun k hk => (h1.byPeer k hk).trans (h2.byPeer k hk), fun t => (h1.byTag t).trans (h2.byTag t),
   h1.dialBuf.trans h2.dialBuf, h1.running.trans h2.running, h1.dialW.trans h2.dialW, h1.dialQ.trans h2.dialQ,
   h1.plan, h2.plan'⟩

/-- if each side moves to a pool related to itself, the two results are related -/
theorem Rel.both {p p' q q' : Pool} (h : Rel isB pb p p') (hl : Rel isB pb p q) (hr : Rel isB pb p' q') :
    Rel isB pb q q' := (hl.symm.trans h).trans hr

/-- the ids in `isB` are exactly the existing streams of peer `pb` -/
def Cons (isB : Nat → Bool) (pb : Nat) (p : Pool) : Prop :=
  ∀ y k, peerOf p.objs y = some k → (isB y = true ↔ k = pb)

/-- all pool-level fields other than `objs` (and the bookkeeping ones) coincide -/
def SameIdx (q p : Pool) : Prop :=
  q.lastId = p.lastId ∧ q.streams = p.streams ∧ q.byPeer = p.byPeer ∧ q.byTag = p.byTag ∧
  q.dialBuf = p.dialBuf ∧ q.running = p.running ∧ q.dialW = p.dialW ∧ q.dialQ = p.dialQ ∧
  q.openPlan = p.openPlan

/-- `q` is `p` with the object function `f` applied to stream `x` (if it exists) -/
def ObjUpd (q p : Pool) (x : Nat) (f : Stream → Stream) : Prop :=
  SameIdx q p ∧ ∀ y, getObj q.objs y = if y = x then (getObj p.objs x).map f else getObj p.objs y

theorem ObjUpd.peerOf {q p : Pool} {x : Nat} {f : Stream → Stream} (h : ObjUpd q p x f)
    (hf : ∀ s, (f s).peer = s.peer) (y : Nat) : peerOf q.objs y = peerOf p.objs y := by
  unfold AnySync.StreamPool.peerOf
  rw [h.2 y]
  by_cases hy : y = x
  · subst hy
    cases getObj p.objs y with
    | none => simp
    | some s => simp [hf]
  · simp [hy]

/-- a change confined to an `isB` object (or to nothing) keeps the pool related to itself -/
theorem rel_objUpd_self {q p : Pool} {x : Nat} {f : Stream → Stream} (h : ObjUpd q p x f)
    (hf : ∀ s, (f s).peer = s.peer) (hx : getObj p.objs x = none ∨ isB x = true) (hplan : p.openPlan = []) :
    Rel isB pb p q := by
  obtain ⟨⟨h1, h2, h3, h4, h5, h6, h7, h8, h9⟩, hobj⟩ := h
  refine ⟨h1.symm, fun y => (ObjUpd.peerOf ⟨⟨h1, h2, h3, h4, h5, h6, h7, h8, h9⟩, hobj⟩ hf y).symm, ?_, ?_, ?_, ?_,
    h5.symm, h6.symm, h7.symm, h8.symm, hplan, h9.trans hplan⟩
  · intro y hy
    rw [hobj y]
    by_cases hyx : y = x
    · subst hyx
      cases hx with
      | inl hn => simp [hn]
      | inr hb => rw [hb] at hy; cases hy
    · simp [hyx]
  · intro y _; rw [h2]
  · intro k _; rw [h3]
  · intro t; rw [h4]

/-- the same object function applied to the same stream on both sides -/
theorem rel_objUpd_both {p p' q q' : Pool} {x : Nat} {f : Stream → Stream} (h : Rel isB pb p p')
    (hq : ObjUpd q p x f) (hq' : ObjUpd q' p' x f) (hf : ∀ s, (f s).peer = s.peer) : Rel isB pb q q' := by
  by_cases hx : isB x = true
  · exact h.both (rel_objUpd_self hq hf (Or.inr hx) h.plan) (rel_objUpd_self hq' hf (Or.inr hx) h.plan')
  · have hxf : isB x = false := by simpa using hx
    obtain ⟨⟨h1, h2, h3, h4, h5, h6, h7, h8, h9⟩, hobj⟩ := hq
    obtain ⟨⟨h1', h2', h3', h4', h5', h6', h7', h8', h9'⟩, hobj'⟩ := hq'
    refine ⟨by rw [h1, h1']; exact h.lastId, ?_, ?_, ?_, ?_, ?_, by rw [h5, h5']; exact h.dialBuf,
      by rw [h6, h6']; exact h.running, by rw [h7, h7']; exact h.dialW, by rw [h8, h8']; exact h.dialQ,
      h9.trans h.plan, h9'.trans h.plan'⟩
    · intro y
      rw [ObjUpd.peerOf ⟨⟨h1, h2, h3, h4, h5, h6, h7, h8, h9⟩, hobj⟩ hf y,
          ObjUpd.peerOf ⟨⟨h1', h2', h3', h4', h5', h6', h7', h8', h9'⟩, hobj'⟩ hf y]
      exact h.peers y
    · intro y hy
      rw [hobj y, hobj' y]
      by_cases hyx : y = x
      · simp [hyx, h.objs x hxf]
      · simp [hyx, h.objs y hy]
    · intro y hy; rw [h2, h2']; exact h.streams y hy
    · intro k hk; rw [h3, h3']; exact h.byPeer k hk
    · intro t; rw [h4, h4']; exact h.byTag t

end AnySync.StreamPool

namespace AnySync.StreamPool
variable {isB : Nat → Bool} {pb : Nat}

theorem SameIdx.refl (p : Pool) : SameIdx p p := ⟨rfl, rfl, rfl, rfl, rfl, rfl, rfl, rfl, rfl⟩

theorem objUpd_modObj (p q : Pool) (x : Nat) (f : Stream → Stream) (hf : ∀ s, (f s).id = s.id)
    (hs : SameIdx q p) (ho : q.objs = modObj p.objs x f) : ObjUpd q p x f := by
  refine ⟨hs, fun y => ?_⟩
  rw [ho, getObj_modObj p.objs x y f hf]
  by_cases hy : y = x
  · subst hy; simp
  · simp [hy]

theorem objUpd_noop (p : Pool) (x : Nat) (f : Stream → Stream)
    (h : (getObj p.objs x).map f = getObj p.objs x) : ObjUpd p p x f := by
  refine ⟨SameIdx.refl p, fun y => ?_⟩
  by_cases hy : y = x
  · subst hy; simp [h]
  · simp [hy]

theorem objUpd_writeTo (p : Pool) (x m : Nat) : ObjUpd (p.writeTo x m).1 p x (fun s => (s.tryAdd m).1) := by
  unfold Pool.writeTo
  split
  · rename_i hg; exact objUpd_noop p x _ (by simp [hg])
  · exact objUpd_modObj p _ x _ (fun s => (static_tryAdd m s).1) (SameIdx.refl p) rfl

/-- the object function of the steps that only touch one stream object -/
def Step.objFn : Step → Option (Nat × (Stream → Stream))
  | .take x => some (x, Stream.takeStep)
  | .complete x => some (x, Stream.completeStep)
  | .ctxClose x => some (x, Stream.ctxCloseStep)
  | .writerExit x => some (x, Stream.writerExitStep)
  | .closeRemote x => some (x, Stream.closeRemoteStep)
  | .readClose x => some (x, fun s => { s with closed := true })
  | .cancel x => some (x, fun s => { s with cancelled := true })
  | .setGated x b => some (x, fun s => { s with gated := b })
  | .setCloseBlocks x b => some (x, fun s => { s with closeBlocks := b })
  | _ => none

theorem step_objUpd (p : Pool) (st : Step) (x : Nat) (f : Stream → Stream) (h : st.objFn = some (x, f)) :
    ObjUpd (step p st).1 p x f ∧ (∀ s, (f s).peer = s.peer) := by
  cases st <;> simp [Step.objFn] at h <;> obtain ⟨rfl, rfl⟩ := h
  case take =>
    refine ⟨?_, fun s => (static_take s).2.1⟩
    simp only [step, Pool.take]
    split
    · rename_i hg; exact objUpd_noop p _ _ (by simp [hg])
    · rename_i s hg
      split
      · rename_i he; exact objUpd_noop p _ _ (by simp [hg, he])
      · exact objUpd_modObj p _ _ _ (fun s => (static_take s).1) (SameIdx.refl p) rfl
  case complete =>
    refine ⟨?_, fun s => (static_complete s).2.1⟩
    simp only [step, Pool.complete]
    split
    · rename_i hg; exact objUpd_noop p _ _ (by simp [hg])
    · rename_i s hg
      split
      · rename_i he; exact objUpd_noop p _ _ (by simp [hg, Stream.completeStep, he])
      · exact objUpd_modObj p _ _ _ (fun s => (static_complete s).1) (SameIdx.refl p) rfl
  case ctxClose =>
    refine ⟨?_, fun s => (static_ctxClose s).2.1⟩
    simp only [step, Pool.ctxClose]
    split
    · rename_i hg; exact objUpd_noop p _ _ (by simp [hg])
    · rename_i s hg
      split
      · rename_i he; exact objUpd_noop p _ _ (by simp [hg, he])
      · exact objUpd_modObj p _ _ _ (fun s => (static_ctxClose s).1) (SameIdx.refl p) rfl
  case writerExit =>
    refine ⟨?_, fun s => (static_writerExit s).2.1⟩
    simp only [step, Pool.writerExit]
    split
    · rename_i hg; exact objUpd_noop p _ _ (by simp [hg])
    · rename_i s hg
      split
      · rename_i he; exact objUpd_noop p _ _ (by simp [hg, he])
      · exact objUpd_modObj p _ _ _ (fun s => (static_writerExit s).1) (SameIdx.refl p) rfl
  case closeRemote =>
    refine ⟨?_, fun s => (static_closeRemote s).2.1⟩
    simp only [step, Pool.closeRemote]
    split
    · rename_i hg; exact objUpd_noop p _ _ (by simp [hg])
    · rename_i s hg
      split
      · rename_i he; exact objUpd_noop p _ _ (by simp [hg, he])
      · exact objUpd_modObj p _ _ _ (fun s => (static_closeRemote s).1) (SameIdx.refl p) rfl
  case readClose =>
    refine ⟨?_, fun s => rfl⟩
    simp only [step, Pool.readClose]
    split
    · rename_i hg; exact objUpd_noop p _ _ (by simp [hg])
    · exact objUpd_modObj p _ _ (fun s => { s with closed := true }) (fun s => rfl) (SameIdx.refl p) rfl
  case cancel =>
    refine ⟨?_, fun s => rfl⟩
    simp only [step, Pool.cancel]
    split
    · rename_i hg; exact objUpd_noop p _ _ (by simp [hg])
    · exact objUpd_modObj p _ _ (fun s => { s with cancelled := true }) (fun s => rfl) (SameIdx.refl p) rfl
  case setGated b =>
    refine ⟨?_, fun s => rfl⟩
    simp only [step, Pool.setGated]
    split
    · rename_i hg; exact objUpd_noop p _ _ (by simp [hg])
    · exact objUpd_modObj p _ _ (fun s => { s with gated := b }) (fun s => rfl) (SameIdx.refl p) rfl
  case setCloseBlocks b =>
    refine ⟨?_, fun s => rfl⟩
    simp only [step, Pool.setCloseBlocks]
    split
    · rename_i hg; exact objUpd_noop p _ _ (by simp [hg])
    · exact objUpd_modObj p _ _ (fun s => { s with closeBlocks := b }) (fun s => rfl) (SameIdx.refl p) rfl

/-- every step of `b`'s writer / remote is an object-only step on `b` -/
theorem writer_objFn (st : Step) (b : Nat) (h : st.isWriterOf b = true) : ∃ f, st.objFn = some (b, f) := by
  cases st <;> simp [Step.isWriterOf] at h <;> subst h <;> exact ⟨_, rfl⟩

end AnySync.StreamPool

namespace AnySync.StreamPool
variable {isB : Nat → Bool} {pb : Nat}

/-! ### list facts -/

theorem filter_erase_of_not (q : Nat → Bool) (x : Nat) (hx : q x = false) (l : List Nat) :
    (l.erase x).filter q = l.filter q := by
  induction l with
  | nil => rfl
  | cons y rest ih =>
    by_cases hy : y = x
    · subst hy; simp [hx]
    · rw [List.erase_cons_tail (by simpa using hy)]
      simp [List.filter_cons, ih]

theorem filter_erase_of_pos (q : Nat → Bool) (x : Nat) (hx : q x = true) (l : List Nat) :
    (l.erase x).filter q = (l.filter q).erase x := by
  induction l with
  | nil => rfl
  | cons y rest ih =>
    by_cases hy : y = x
    · subst hy; simp [hx]
    · rw [List.erase_cons_tail (by simpa using hy)]
      by_cases hq : q y = true
      · simp only [List.filter_cons, hq, if_true]
        rw [List.erase_cons_tail (by simpa using hy), ih]
      · simp only [List.filter_cons, hq]
        exact ih

/-- `get` after `idxAppendAll`: `id` is appended once per occurrence of the key -/
theorem get_idxAppendAll (ks : List Nat) (id t : Nat) : ∀ m : AMap,
    (idxAppendAll m ks id).get t = m.get t ++ List.replicate (ks.count t) id := by
  induction ks with
  | nil => intro m; simp [idxAppendAll]
  | cons k rest ih =>
    intro m
    simp only [idxAppendAll, List.foldl_cons] at ih ⊢
    rw [ih, get_idxAppend]
    by_cases h : t = k
    · subst h; simp [List.count_cons, List.replicate_succ']
      rw [← List.replicate_succ, List.replicate_succ']
    · have : ¬ k = t := fun e => h e.symm
      simp [h, List.count_cons, this]

/-- erase `x` from `l`, `n` times -/
def eraseTimes (x : Nat) : Nat → List Nat → List Nat
  | 0, l => l
  | n + 1, l => eraseTimes x n (l.erase x)

theorem get_idxRemove_fst (m : AMap) (k id t : Nat) :
    (match idxRemove m k id with | some m' => m' | none => m).get t =
      if t = k then (m.get k).erase id else m.get t := by
  unfold idxRemove
  by_cases h : id ∈ m.get k
  · simp only [h, if_true, AMap.get_set]
  · simp only [h, if_false]
    by_cases ht : t = k
    · subst ht; simp [List.erase_of_not_mem h]
    · simp [ht]

theorem get_idxRemoveAll (ks : List Nat) (id t : Nat) : ∀ (m : AMap) (b : Bool),
    ((ks.foldl (fun (acc : AMap × Bool) k =>
        match idxRemove acc.1 k id with
        | some m' => (m', acc.2)
        | none => (acc.1, false)) (m, b)).1).get t = eraseTimes id (ks.count t) (m.get t) := by
  induction ks with
  | nil => intro m b; simp [eraseTimes]
  | cons k rest ih =>
    intro m b
    simp only [List.foldl_cons]
    have key : ∀ b', (match idxRemove m k id with
        | some m' => (m', b)
        | none => (m, b')) = ((match idxRemove m k id with | some m' => m' | none => m),
          (match idxRemove m k id with | some _ => b | none => b')) := by
      intro b'; cases idxRemove m k id <;> rfl
    rw [key, ih, get_idxRemove_fst]
    by_cases ht : t = k
    · subst ht; simp [List.count_cons, eraseTimes]
    · have : ¬ k = t := fun e => ht e.symm
      simp [ht, List.count_cons, this]

theorem filter_eraseTimes_of_not (q : Nat → Bool) (x : Nat) (hx : q x = false) (n : Nat) : ∀ l : List Nat,
    (eraseTimes x n l).filter q = l.filter q := by
  induction n with
  | zero => intro l; rfl
  | succ n ih => intro l; simp only [eraseTimes]; rw [ih, filter_erase_of_not q x hx]

theorem filter_eraseTimes_of_pos (q : Nat → Bool) (x : Nat) (hx : q x = true) (n : Nat) : ∀ l : List Nat,
    (eraseTimes x n l).filter q = eraseTimes x n (l.filter q) := by
  induction n with
  | zero => intro l; rfl
  | succ n ih => intro l; simp only [eraseTimes]; rw [ih, filter_erase_of_pos q x hx]

end AnySync.StreamPool

namespace AnySync.StreamPool
variable {isB : Nat → Bool} {pb : Nat}

/-- `q` is `p` after an operation on stream `x`: object function `f`, the `byPeer` lists transformed by
`gp`, the `byTag` lists by `gt`, `streams` changed at most at `x` -/
structure Upd (q p : Pool) (x : Nat) (f : Stream → Stream) (gp gt : Nat → List Nat → List Nat) : Prop where
  lastId : q.lastId = p.lastId
  objs : ∀ y, getObj q.objs y = if y = x then (getObj p.objs x).map f else getObj p.objs y
  streams : ∀ y, y ≠ x → (y ∈ q.streams ↔ y ∈ p.streams)
  byPeer : ∀ k, q.byPeer.get k = gp k (p.byPeer.get k)
  byTag : ∀ t, q.byTag.get t = gt t (p.byTag.get t)
  dialBuf : q.dialBuf = p.dialBuf
  running : q.running = p.running
  dialW : q.dialW = p.dialW
  dialQ : q.dialQ = p.dialQ
  plan : q.openPlan = p.openPlan

theorem Upd.peerOf {q p : Pool} {x : Nat} {f : Stream → Stream} {gp gt : Nat → List Nat → List Nat}
    (h : Upd q p x f gp gt) (hf : ∀ s, (f s).peer = s.peer) (y : Nat) : peerOf q.objs y = peerOf p.objs y := by
  unfold AnySync.StreamPool.peerOf
  rw [h.objs y]
  by_cases hy : y = x
  · subst hy
    cases getObj p.objs y with
    | none => simp
    | some s => simp [hf]
  · simp [hy]

theorem upd_self {q p : Pool} {x : Nat} {f : Stream → Stream} {gp gt : Nat → List Nat → List Nat}
    (h : Upd q p x f gp gt) (hf : ∀ s, (f s).peer = s.peer) (hx : isB x = true)
    (hgp : ∀ k, k ≠ pb → ∀ l, gp k l = l)
    (hgt : ∀ t l, (gt t l).filter (fun y => !isB y) = l.filter (fun y => !isB y))
    (hplan : p.openPlan = []) : Rel isB pb p q := by
  refine ⟨h.lastId.symm, fun y => (h.peerOf hf y).symm, ?_, ?_, ?_, ?_, h.dialBuf.symm, h.running.symm,
    h.dialW.symm, h.dialQ.symm, hplan, h.plan.trans hplan⟩
  · intro y hy
    rw [h.objs y]
    have : y ≠ x := by intro e; rw [e, hx] at hy; cases hy
    simp [this]
  · intro y hy
    have : y ≠ x := by intro e; rw [e, hx] at hy; cases hy
    exact (h.streams y this).symm
  · intro k hk; rw [h.byPeer k, hgp k hk]
  · intro t; rw [h.byTag t, hgt]

theorem upd_both {p p' q q' : Pool} {x : Nat} {f : Stream → Stream} {gp gt : Nat → List Nat → List Nat}
    (hr : Rel isB pb p p') (h : Upd q p x f gp gt) (h' : Upd q' p' x f gp gt)
    (hf : ∀ s, (f s).peer = s.peer) (hx : isB x = false) (hxs : x ∈ q.streams ↔ x ∈ q'.streams)
    (hgt : ∀ t l l', l.filter (fun y => !isB y) = l'.filter (fun y => !isB y) →
      (gt t l).filter (fun y => !isB y) = (gt t l').filter (fun y => !isB y)) : Rel isB pb q q' := by
  refine ⟨by rw [h.lastId, h'.lastId]; exact hr.lastId, ?_, ?_, ?_, ?_, ?_,
    by rw [h.dialBuf, h'.dialBuf]; exact hr.dialBuf, by rw [h.running, h'.running]; exact hr.running,
    by rw [h.dialW, h'.dialW]; exact hr.dialW, by rw [h.dialQ, h'.dialQ]; exact hr.dialQ,
    h.plan.trans hr.plan, h'.plan.trans hr.plan'⟩
  · intro y; rw [h.peerOf hf y, h'.peerOf hf y]; exact hr.peers y
  · intro y hy
    rw [h.objs y, h'.objs y]
    by_cases hyx : y = x
    · simp [hyx, hr.objs x hx]
    · simp [hyx, hr.objs y hy]
  · intro y hy
    by_cases hyx : y = x
    · subst hyx; exact hxs
    · rw [h.streams y hyx, h'.streams y hyx]; exact hr.streams y hy
  · intro k hk; rw [h.byPeer k, h'.byPeer k, hr.byPeer k hk]
  · intro t; rw [h.byTag t, h'.byTag t]; exact hgt t _ _ (hr.byTag t)

/-- pools that differ only in bookkeeping fields (calls, hook log, flags) are related -/
theorem rel_of_fields {p q : Pool} (ho : q.objs = p.objs) (hl : q.lastId = p.lastId) (hs : q.streams = p.streams)
    (hp : q.byPeer = p.byPeer) (ht : q.byTag = p.byTag) (h1 : q.dialBuf = p.dialBuf) (h2 : q.running = p.running)
    (h3 : q.dialW = p.dialW) (h4 : q.dialQ = p.dialQ) (h5 : q.openPlan = p.openPlan) (hplan : p.openPlan = []) :
    Rel isB pb p q :=
  ⟨hl.symm, fun _ => by rw [ho], fun _ _ => by rw [ho], fun _ _ => by rw [hs], fun _ _ => by rw [hp],
   fun _ => by rw [ht], h1.symm, h2.symm, h3.symm, h4.symm, hplan, h5.trans hplan⟩

/-! ### tag operations -/

theorem upd_addTags (p : Pool) (x : Nat) (tags : List Nat) (s : Stream) (hin : x ∈ p.streams)
    (hg : getObj p.objs x = some s) :
    Upd (p.addTags x tags).1 p x (fun y => { y with tags := y.tags ++ freshTags s.tags tags })
      (fun _ l => l) (fun t l => l ++ List.replicate ((freshTags s.tags tags).count t) x) := by
  unfold Pool.addTags
  simp only [hin, if_true, hg]
  refine ⟨rfl, ?_, fun _ _ => Iff.rfl, fun _ => rfl, fun t => get_idxAppendAll _ _ _ _, rfl, rfl, rfl, rfl, rfl⟩
  intro y
  show getObj (modObj p.objs x (fun y => { y with tags := y.tags ++ freshTags s.tags tags })) y = _
  rw [getObj_modObj p.objs x y (fun y => { y with tags := y.tags ++ freshTags s.tags tags }) (fun _ => rfl)]
  by_cases hy : y = x
  · subst hy; simp
  · simp [hy]

theorem upd_removeTagsCore (p : Pool) (x : Nat) (tags : List Nat) (s : Stream)
    (hg : getObj p.objs x = some s) :
    Upd (p.removeTagsCore x tags) p x (fun y => { y with tags := y.tags.filter (fun t => t ∉ tags) })
      (fun _ l => l) (fun t l => eraseTimes x ((s.tags.filter (fun t => t ∈ tags)).count t) l) := by
  unfold Pool.removeTagsCore
  simp only [hg]
  refine ⟨rfl, ?_, fun _ _ => Iff.rfl, fun _ => rfl, fun t => ?_, rfl, rfl, rfl, rfl, rfl⟩
  · intro y
    show getObj (modObj p.objs x (fun y => { y with tags := y.tags.filter (fun t => t ∉ tags) })) y = _
    rw [getObj_modObj p.objs x y (fun y => { y with tags := y.tags.filter (fun t => t ∉ tags) }) (fun _ => rfl)]
    by_cases hy : y = x
    · subst hy; simp
    · simp [hy]
  · exact get_idxRemoveAll _ x t p.byTag true

theorem filter_append_replicate_B (x n : Nat) (hx : isB x = true) (l : List Nat) :
    (l ++ List.replicate n x).filter (fun y => !isB y) = l.filter (fun y => !isB y) := by
  rw [List.filter_append]
  have : (List.replicate n x).filter (fun y => !isB y) = [] := by
    rw [List.filter_eq_nil_iff]; intro a ha; rw [List.eq_of_mem_replicate ha]; simp [hx]
  simp [this]

end AnySync.StreamPool

namespace AnySync.StreamPool
variable {isB : Nat → Bool} {pb : Nat}

theorem IdxInv.getObj_of_mem {p : Pool} (h : IdxInv p) {x : Nat} (hin : x ∈ p.streams) :
    ∃ s, getObj p.objs x = some s ∧ s.removed = false := by
  have hl := (h.live x).mp hin
  unfold liveOf at hl
  cases hg : getObj p.objs x with
  | none => rw [hg] at hl; cases hl
  | some s => rw [hg] at hl; exact ⟨s, rfl, by simpa using hl⟩

theorem addTags_streams (p : Pool) (x : Nat) (tags : List Nat) : (p.addTags x tags).1.streams = p.streams := by
  unfold Pool.addTags; split
  · split <;> rfl
  · rfl

theorem removeTagsCore_streams (p : Pool) (x : Nat) (tags : List Nat) : (p.removeTagsCore x tags).streams = p.streams := by
  unfold Pool.removeTagsCore; split <;> rfl

theorem rel_addTags {p p' : Pool} (hr : Rel isB pb p p') (hi : IdxInv p) (hi' : IdxInv p') (x : Nat) (tags : List Nat) :
    Rel isB pb (p.addTags x tags).1 (p'.addTags x tags).1 := by
  have self : ∀ q : Pool, IdxInv q → q.openPlan = [] → isB x = true → Rel isB pb q (q.addTags x tags).1 := by
    intro q hq hplan hx
    by_cases hin : x ∈ q.streams
    · obtain ⟨s, hg, _⟩ := hq.getObj_of_mem hin
      exact upd_self (upd_addTags q x tags s hin hg) (fun _ => rfl) hx (fun _ _ _ => rfl)
        (fun t l => filter_append_replicate_B x _ hx l) hplan
    · have : (q.addTags x tags).1 = q := by unfold Pool.addTags; simp [hin]
      rw [this]; exact Rel.refl q hplan
  by_cases hx : isB x = true
  · exact hr.both (self p hi hr.plan hx) (self p' hi' hr.plan' hx)
  · have hxf : isB x = false := by simpa using hx
    by_cases hin : x ∈ p.streams
    · have hin' : x ∈ p'.streams := (hr.streams x hxf).mp hin
      obtain ⟨s, hg, _⟩ := hi.getObj_of_mem hin
      have hg' : getObj p'.objs x = some s := by rw [← hr.objs x hxf]; exact hg
      refine upd_both hr (upd_addTags p x tags s hin hg) (upd_addTags p' x tags s hin' hg') (fun _ => rfl) hxf ?_ ?_
      · rw [addTags_streams, addTags_streams]; exact hr.streams x hxf
      · intro t l l' hll; rw [List.filter_append, List.filter_append, hll]
    · have hin' : x ∉ p'.streams := fun h => hin ((hr.streams x hxf).mpr h)
      have e1 : (p.addTags x tags).1 = p := by unfold Pool.addTags; simp [hin]
      have e2 : (p'.addTags x tags).1 = p' := by unfold Pool.addTags; simp [hin']
      rw [e1, e2]; exact hr

theorem rel_removeTagsCore {p p' : Pool} (hr : Rel isB pb p p') (hi : IdxInv p) (hi' : IdxInv p')
    (x : Nat) (tags : List Nat) (hin : x ∈ p.streams ∨ isB x = true) (hin' : x ∈ p'.streams ∨ isB x = true)
    (hself : isB x = true → (x ∈ p.streams → True)) :
    isB x = false → Rel isB pb (p.removeTagsCore x tags) (p'.removeTagsCore x tags) := by
  intro hxf
  have h1 : x ∈ p.streams := by cases hin with | inl h => exact h | inr h => rw [hxf] at h; cases h
  have h1' : x ∈ p'.streams := by cases hin' with | inl h => exact h | inr h => rw [hxf] at h; cases h
  obtain ⟨s, hg, _⟩ := hi.getObj_of_mem h1
  have hg' : getObj p'.objs x = some s := by rw [← hr.objs x hxf]; exact hg
  refine upd_both hr (upd_removeTagsCore p x tags s hg) (upd_removeTagsCore p' x tags s hg') (fun _ => rfl) hxf ?_ ?_
  · rw [removeTagsCore_streams, removeTagsCore_streams]; exact hr.streams x hxf
  · intro t l l' hll
    rw [filter_eraseTimes_of_pos _ x (by simp [hxf]), filter_eraseTimes_of_pos _ x (by simp [hxf]), hll]

theorem self_removeTagsCore {q : Pool} (hq : IdxInv q) (hplan : q.openPlan = []) (x : Nat) (tags : List Nat)
    (hin : x ∈ q.streams) (hx : isB x = true) : Rel isB pb q (q.removeTagsCore x tags) := by
  obtain ⟨s, hg, _⟩ := hq.getObj_of_mem hin
  exact upd_self (upd_removeTagsCore q x tags s hg) (fun _ => rfl) hx (fun _ _ _ => rfl)
    (fun t l => filter_eraseTimes_of_not _ x (by simp [hx]) _ l) hplan

/-- `RemoveTagsCtx` and `RemoveTagsById` share their state change -/
theorem rel_removeTags {p p' : Pool} (hr : Rel isB pb p p') (hi : IdxInv p) (hi' : IdxInv p') (x : Nat) (tags : List Nat) :
    Rel isB pb (p.removeTags x tags).1 (p'.removeTags x tags).1 ∧
    Rel isB pb (p.removeTagsById x tags).1 (p'.removeTagsById x tags).1 := by
  have self : ∀ q : Pool, IdxInv q → q.openPlan = [] → isB x = true →
      Rel isB pb q (if x ∈ q.streams then q.removeTagsCore x tags else q) := by
    intro q hq hplan hx
    split
    · rename_i hin; exact self_removeTagsCore hq hplan x tags hin hx
    · exact Rel.refl q hplan
  have e : ∀ q : Pool, (q.removeTags x tags).1 = (if x ∈ q.streams then q.removeTagsCore x tags else q) ∧
      (q.removeTagsById x tags).1 = (if x ∈ q.streams then q.removeTagsCore x tags else q) := by
    intro q; unfold Pool.removeTags Pool.removeTagsById; split <;> exact ⟨rfl, rfl⟩
  rw [(e p).1, (e p').1, (e p).2, (e p').2]
  have main : Rel isB pb (if x ∈ p.streams then p.removeTagsCore x tags else p)
      (if x ∈ p'.streams then p'.removeTagsCore x tags else p') := by
    by_cases hx : isB x = true
    · exact hr.both (self p hi hr.plan hx) (self p' hi' hr.plan' hx)
    · have hxf : isB x = false := by simpa using hx
      by_cases hin : x ∈ p.streams
      · have hin' : x ∈ p'.streams := (hr.streams x hxf).mp hin
        simp only [hin, hin', if_true]
        exact rel_removeTagsCore hr hi hi' x tags (Or.inl hin) (Or.inl hin') (fun _ _ => trivial) hxf
      · have hin' : x ∉ p'.streams := fun h => hin ((hr.streams x hxf).mpr h)
        simp only [hin, hin', if_false]; exact hr
  exact ⟨main, main⟩

end AnySync.StreamPool

namespace AnySync.StreamPool
variable {isB : Nat → Bool} {pb : Nat}

theorem poolRemove_noop (p : Pool) (x : Nat)
    (h : ∀ s, getObj p.objs x = some s → (s.closed = false ∨ s.remoteClosed = false ∨ s.removed = true)) :
    (p.poolRemove x).1 = p := by
  unfold Pool.poolRemove
  cases hg : getObj p.objs x with
  | none => rfl
  | some s =>
    have := h s hg
    simp only
    split
    · rfl
    · rename_i hn; exfalso; apply hn
      rcases this with h1 | h1 | h1 <;> simp [h1]

theorem upd_poolRemove {p : Pool} (hi : IdxInv p) (x : Nat) (s : Stream) (hg : getObj p.objs x = some s)
    (hc : s.closed = true) (hrc : s.remoteClosed = true) (hr : s.removed = false) :
    Upd (p.poolRemove x).1 p x (fun y => { y with removed := true })
      (fun k l => if k = s.peer then l.erase x else l) (fun t l => eraseTimes x (s.tags.count t) l) ∧
    x ∉ (p.poolRemove x).1.streams := by
  have hin : x ∈ p.streams := (hi.live x).mpr (by simp [liveOf, hg, hr])
  have hpeer : peerOf p.objs x = some s.peer := by simp [peerOf, hg]
  have hmem : x ∈ p.byPeer.get s.peer := by
    have := hi.byPeer_ok s.peer x
    rw [if_pos ⟨hin, hpeer⟩] at this
    exact List.count_pos_iff.mp (by omega)
  unfold Pool.poolRemove
  simp only [hg, hc, hrc, hr]
  simp only [Bool.not_true, Bool.false_eq_true, or_self, if_false]
  rw [if_neg (by simpa using hin), idxRemove_some _ _ _ hmem]
  refine ⟨⟨rfl, ?_, ?_, ?_, ?_, rfl, rfl, rfl, rfl, rfl⟩, ?_⟩
  · intro y
    show getObj (modObj p.objs x (fun y => { y with removed := true })) y = _
    rw [getObj_modObj p.objs x y (fun y => { y with removed := true }) (fun _ => rfl)]
    by_cases hy : y = x
    · subst hy; simp
    · simp [hy]
  · intro y hy
    show y ∈ p.streams.erase x ↔ y ∈ p.streams
    exact ⟨List.mem_of_mem_erase, fun h => (List.mem_erase_of_ne hy).mpr h⟩
  · intro k
    show (p.byPeer.set s.peer ((p.byPeer.get s.peer).erase x)).get k = _
    rw [AMap.get_set]
    by_cases hk : k = s.peer
    · subst hk; simp
    · simp [hk]
  · intro t
    exact get_idxRemoveAll _ x t p.byTag true
  · show x ∉ p.streams.erase x
    exact fun h => (hi.nodup.mem_erase_iff.mp h).1 rfl

theorem rel_poolRemove {p p' : Pool} (hr : Rel isB pb p p') (hi : IdxInv p) (hi' : IdxInv p')
    (hc : Cons isB pb p) (hc' : Cons isB pb p') (x : Nat) :
    Rel isB pb (p.poolRemove x).1 (p'.poolRemove x).1 := by
  have fires : ∀ (q : Pool) (s : Stream), getObj q.objs x = some s →
      (s.closed = true ∧ s.remoteClosed = true ∧ s.removed = false) ∨
      (s.closed = false ∨ s.remoteClosed = false ∨ s.removed = true) := by
    intro q s _
    cases s.closed <;> cases s.remoteClosed <;> cases s.removed <;> simp
  have self : ∀ q : Pool, IdxInv q → Cons isB pb q → q.openPlan = [] → isB x = true →
      Rel isB pb q (q.poolRemove x).1 := by
    intro q hq hcq hplan hx
    cases hg : getObj q.objs x with
    | none => rw [poolRemove_noop q x (fun s h => by rw [hg] at h; cases h)]; exact Rel.refl q hplan
    | some s =>
      cases fires q s hg with
      | inr hno => rw [poolRemove_noop q x (fun s' h => by rw [hg] at h; cases h; exact hno)]; exact Rel.refl q hplan
      | inl hyes =>
        have hu := (upd_poolRemove hq x s hg hyes.1 hyes.2.1 hyes.2.2).1
        have hsp : s.peer = pb := (hcq x s.peer (by simp [peerOf, hg])).mp hx
        refine upd_self hu (fun _ => rfl) hx ?_ (fun t l => filter_eraseTimes_of_not _ x (by simp [hx]) _ l) hplan
        intro k hk l
        have : k ≠ s.peer := by rw [hsp]; exact hk
        simp [this]
  by_cases hx : isB x = true
  · exact hr.both (self p hi hc hr.plan hx) (self p' hi' hc' hr.plan' hx)
  · have hxf : isB x = false := by simpa using hx
    have hobj := hr.objs x hxf
    cases hg : getObj p.objs x with
    | none =>
      have hg' : getObj p'.objs x = none := by rw [← hobj]; exact hg
      rw [poolRemove_noop p x (fun s h => by rw [hg] at h; cases h),
          poolRemove_noop p' x (fun s h => by rw [hg'] at h; cases h)]
      exact hr
    | some s =>
      have hg' : getObj p'.objs x = some s := by rw [← hobj]; exact hg
      cases fires p s hg with
      | inr hno =>
        rw [poolRemove_noop p x (fun s' h => by rw [hg] at h; cases h; exact hno),
            poolRemove_noop p' x (fun s' h => by rw [hg'] at h; cases h; exact hno)]
        exact hr
      | inl hyes =>
        obtain ⟨hu, hnx⟩ := upd_poolRemove hi x s hg hyes.1 hyes.2.1 hyes.2.2
        obtain ⟨hu', hnx'⟩ := upd_poolRemove hi' x s hg' hyes.1 hyes.2.1 hyes.2.2
        refine upd_both hr hu hu' (fun _ => rfl) hxf ⟨fun h => absurd h hnx, fun h => absurd h hnx'⟩ ?_
        intro t l l' hll
        rw [filter_eraseTimes_of_pos _ x (by simp [hxf]), filter_eraseTimes_of_pos _ x (by simp [hxf]), hll]

/-! ### AddStream -/

theorem getObj_add (p : Pool) (peer c : Nat) (g : Bool) (f : Nat) (tags : List Nat)
    (hle : ∀ s ∈ p.objs, s.id ≤ p.lastId) (y : Nat) :
    getObj (p.add peer c g f tags).1.objs y =
      if y = p.lastId + 1 then
        some { id := p.lastId + 1, peer := peer, cap := effCap c, tags := tags, queue := [], gated := g, failAt := f }
      else getObj p.objs y := by
  simp only [Pool.add, getObj_append]
  by_cases hs : y = p.lastId + 1
  · subst hs
    rw [getObj_none_of_ids_le p.objs p.lastId _ hle (by omega)]
  · have : ¬ p.lastId + 1 = y := fun e => hs e.symm
    cases hg : getObj p.objs y with
    | some s => simp [hs]
    | none => simp [hs, this]

theorem rel_add {p p' : Pool} (hr : Rel isB pb p p') (hi : IdxInv p) (hi' : IdxInv p')
    (peer c : Nat) (g : Bool) (f : Nat) (tags : List Nat) :
    Rel isB pb (p.add peer c g f tags).1 (p'.add peer c g f tags).1 := by
  have hp := add_proj p peer c g f tags hi.ids_le
  have hp' := add_proj p' peer c g f tags hi'.ids_le
  refine ⟨by simp [Pool.add, hr.lastId], ?_, ?_, ?_, ?_, ?_, by simp [Pool.add, hr.dialBuf],
    by simp [Pool.add, hr.running], by simp [Pool.add, hr.dialW], by simp [Pool.add, hr.dialQ],
    by simp [Pool.add, hr.plan], by simp [Pool.add, hr.plan']⟩
  · intro y; rw [(hp y).2.1, (hp' y).2.1, hr.lastId, hr.peers y]
  · intro y hy
    rw [getObj_add p peer c g f tags hi.ids_le, getObj_add p' peer c g f tags hi'.ids_le, hr.lastId, hr.objs y hy]
  · intro y hy
    simp only [Pool.add, List.mem_append, List.mem_singleton, hr.lastId]
    rw [hr.streams y hy]
  · intro k hk
    simp only [Pool.add]
    rw [get_idxAppend, get_idxAppend, hr.byPeer k hk, hr.lastId]
    by_cases hkp : k = peer
    · subst hkp; simp [hr.byPeer k hk]
    · simp [hkp]
  · intro t
    simp only [Pool.add]
    rw [get_idxAppendAll, get_idxAppendAll, List.filter_append, List.filter_append, hr.byTag t, hr.lastId]

end AnySync.StreamPool

namespace AnySync.StreamPool
variable {isB : Nat → Bool} {pb : Nat}

/-! ### writes -/

theorem tryAdd_peer (m : Nat) (s : Stream) : ((s.tryAdd m).1).peer = s.peer := (static_tryAdd m s).2.1

theorem writeTo_plan (p : Pool) (x m : Nat) : (p.writeTo x m).1.openPlan = p.openPlan := by
  unfold Pool.writeTo; split <;> rfl

theorem rel_writeTo_B (p : Pool) (x m : Nat) (hx : isB x = true) (hplan : p.openPlan = []) :
    Rel isB pb p (p.writeTo x m).1 :=
  rel_objUpd_self (objUpd_writeTo p x m) (tryAdd_peer m) (Or.inr hx) hplan

theorem rel_writeTo_both {p p' : Pool} (hr : Rel isB pb p p') (x m : Nat) :
    Rel isB pb (p.writeTo x m).1 (p'.writeTo x m).1 :=
  rel_objUpd_both hr (objUpd_writeTo p x m) (objUpd_writeTo p' x m) (tryAdd_peer m)

theorem writeTo_res_eq {p p' : Pool} (hr : Rel isB pb p p') (x m : Nat) (hx : isB x = false) :
    (p.writeTo x m).2 = (p'.writeTo x m).2 := by
  rw [(writeTo_local p x m).2, (writeTo_local p' x m).2, hr.objs x hx]

theorem rel_writeFirst_B (m : Nat) (ids : List Nat) : ∀ (p : Pool), (∀ id ∈ ids, isB id = true) →
    p.openPlan = [] → Rel isB pb p (p.writeFirst m ids) := by
  induction ids with
  | nil => intro p _ hplan; exact Rel.refl p hplan
  | cons x rest ih =>
    intro p hall hplan
    have h1 := rel_writeTo_B (isB := isB) (pb := pb) p x m (hall x List.mem_cons_self) hplan
    simp only [Pool.writeFirst]
    split
    · exact h1
    · exact h1.trans (ih _ (fun id hid => hall id (List.mem_cons_of_mem _ hid)) ((writeTo_plan p x m).trans hplan))

theorem rel_writeFirst_both (m : Nat) (ids : List Nat) : ∀ {p p' : Pool}, Rel isB pb p p' →
    (∀ id ∈ ids, isB id = false) → Rel isB pb (p.writeFirst m ids) (p'.writeFirst m ids) := by
  induction ids with
  | nil => intro p p' hr _; exact hr
  | cons x rest ih =>
    intro p p' hr hall
    have hres := writeTo_res_eq hr x m (hall x List.mem_cons_self)
    simp only [Pool.writeFirst, hres]
    split
    · exact rel_writeTo_both hr x m
    · exact ih (rel_writeTo_both hr x m) (fun id hid => hall id (List.mem_cons_of_mem _ hid))

theorem rel_writeAll (m : Nat) (L : List Nat) : ∀ (p : Pool) (L' : List Nat) (p' : Pool), Rel isB pb p p' →
    L.filter (fun y => !isB y) = L'.filter (fun y => !isB y) →
    Rel isB pb (p.writeAll m L) (p'.writeAll m L') := by
  induction L with
  | nil =>
    intro p L'
    induction L' with
    | nil => intro p' hr _; exact hr
    | cons x' r' ih' =>
      intro p' hr hf
      have hx' : isB x' = true := by
        cases hb : isB x' with
        | true => rfl
        | false => simp [List.filter_cons, hb] at hf
      have hf' : ([] : List Nat).filter (fun y => !isB y) = r'.filter (fun y => !isB y) := by
        simpa [List.filter_cons, hx'] using hf
      simp only [Pool.writeAll]
      exact ih' _ (hr.trans (rel_writeTo_B p' x' m hx' hr.plan')) hf'
  | cons x r ih =>
    intro p L'
    by_cases hx : isB x = true
    · intro p' hr hf
      have hf' : r.filter (fun y => !isB y) = L'.filter (fun y => !isB y) := by
        simpa [List.filter_cons, hx] using hf
      simp only [Pool.writeAll]
      exact ih _ L' p' ((rel_writeTo_B p x m hx hr.plan).symm.trans hr) hf'
    · have hxf : isB x = false := by simpa using hx
      induction L' with
      | nil => intro p' hr hf; simp [List.filter_cons, hxf] at hf
      | cons x' r' ih' =>
        intro p' hr hf
        by_cases hx' : isB x' = true
        · have hf' : (x :: r).filter (fun y => !isB y) = r'.filter (fun y => !isB y) := by
            simpa [List.filter_cons, hx'] using hf
          have := ih' (p'.writeTo x' m).1 (hr.trans (rel_writeTo_B p' x' m hx' hr.plan')) hf'
          simpa [Pool.writeAll] using this
        · have hxf' : isB x' = false := by simpa using hx'
          simp only [List.filter_cons, hxf, hxf', Bool.not_false, if_true, List.cons.injEq] at hf
          obtain ⟨rfl, hf'⟩ := hf
          simp only [Pool.writeAll]
          exact ih _ r' _ (rel_writeTo_both hr x m) hf'

theorem filter_dedup (q : Nat → Bool) (l : List Nat) : ∀ seen : List Nat,
    (dedup seen l).filter q = dedup (seen.filter q) (l.filter q) := by
  induction l with
  | nil => intro seen; simp [dedup]
  | cons x rest ih =>
    intro seen
    by_cases hq : q x = true
    · by_cases hs : x ∈ seen
      · have : x ∈ seen.filter q := List.mem_filter.mpr ⟨hs, hq⟩
        simp [dedup, hs, List.filter_cons, hq, this, ih]
      · have : x ∉ seen.filter q := fun h => hs (List.mem_filter.mp h).1
        simp [dedup, hs, List.filter_cons, hq, this, ih]
    · by_cases hs : x ∈ seen
      · simp [dedup, hs, List.filter_cons, hq, ih]
      · simp [dedup, hs, List.filter_cons, hq, ih]

theorem rel_broadcastIds {p p' : Pool} (hr : Rel isB pb p p') (tags : List Nat) :
    (p.broadcastIds tags).filter (fun y => !isB y) = (p'.broadcastIds tags).filter (fun y => !isB y) := by
  have hall : ((tags.map p.byTag.get).flatten).filter (fun y => !isB y) =
      ((tags.map p'.byTag.get).flatten).filter (fun y => !isB y) := by
    rw [List.filter_flatten, List.filter_flatten, List.map_map, List.map_map]
    congr 1
    apply List.map_congr_left
    intro t _
    exact hr.byTag t
  unfold Pool.broadcastIds
  simp only
  split
  · rw [filter_dedup, filter_dedup, hall]
  · exact hall

theorem rel_broadcastNow {p p' : Pool} (hr : Rel isB pb p p') (m : Nat) (tags : List Nat) :
    Rel isB pb (p.broadcastNow m tags) (p'.broadcastNow m tags) :=
  rel_writeAll m _ p _ p' hr (rel_broadcastIds hr tags)

end AnySync.StreamPool

namespace AnySync.StreamPool
variable {isB : Nat → Bool} {pb : Nat}

/-! ### SendById and the dial worker -/

/-- the groups `SendById` builds from a `byPeer` map -/
def groupsOf (bp : AMap) (peers : List Nat) : List (List Nat) := (peers.map bp.get).filter (fun l => l ≠ [])

theorem writeFirst_nil (p : Pool) (m : Nat) : p.writeFirst m [] = p := rfl

theorem writeFirst_plan (m : Nat) (ids : List Nat) : ∀ p : Pool, (p.writeFirst m ids).openPlan = p.openPlan := by
  induction ids with
  | nil => intro p; rfl
  | cons x rest ih =>
    intro p
    simp only [Pool.writeFirst]
    split
    · exact writeTo_plan p x m
    · exact (ih _).trans (writeTo_plan p x m)

/-- `writeGroups` over the groups of a peer list = one `writeFirst` per peer (empty groups do nothing) -/
theorem writeGroups_groupsOf (bp : AMap) (m : Nat) (peers : List Nat) : ∀ p : Pool,
    p.writeGroups m (groupsOf bp peers) = peers.foldl (fun q k => q.writeFirst m (bp.get k)) p := by
  induction peers with
  | nil => intro p; rfl
  | cons k ks ih =>
    intro p
    unfold groupsOf at ih ⊢
    simp only [List.map_cons, List.filter_cons, List.foldl_cons]
    by_cases hk : bp.get k = []
    · simp only [hk, ne_eq, not_true_eq_false, decide_false, Bool.false_eq_true, if_false, writeFirst_nil]
      exact ih p
    · simp only [hk, ne_eq, not_false_eq_true, decide_true, if_true, Pool.writeGroups]
      exact ih _

/-- facts about two `byPeer` maps that are related outside peer `pb` -/
structure BPRel (isB : Nat → Bool) (pb : Nat) (bp bp' : AMap) : Prop where
  same : ∀ k, k ≠ pb → bp.get k = bp'.get k
  nonB : ∀ k, k ≠ pb → ∀ id ∈ bp.get k, isB id = false
  allB : ∀ id ∈ bp.get pb, isB id = true
  allB' : ∀ id ∈ bp'.get pb, isB id = true

theorem rel_foldl_writeFirst {bp bp' : AMap} (hb : BPRel isB pb bp bp') (m : Nat) (peers : List Nat) :
    ∀ {p p' : Pool}, Rel isB pb p p' →
    Rel isB pb (peers.foldl (fun q k => q.writeFirst m (bp.get k)) p)
               (peers.foldl (fun q k => q.writeFirst m (bp'.get k)) p') := by
  induction peers with
  | nil => intro p p' hr; exact hr
  | cons k ks ih =>
    intro p p' hr
    simp only [List.foldl_cons]
    apply ih
    by_cases hk : k = pb
    · subst hk
      exact hr.both (rel_writeFirst_B m _ p hb.allB hr.plan) (rel_writeFirst_B m _ p' hb.allB' hr.plan')
    · rw [← hb.same k hk]
      exact rel_writeFirst_both m _ hr (hb.nonB k hk)

theorem bpRel_of {p p' : Pool} (hr : Rel isB pb p p') (hi : IdxInv p) (hi' : IdxInv p')
    (hc : Cons isB pb p) (hc' : Cons isB pb p') : BPRel isB pb p.byPeer p'.byPeer := by
  refine ⟨hr.byPeer, ?_, ?_, ?_⟩
  · intro k hk id hid
    have := (hc id k (hi.byPeer_mem hid).2)
    cases hb : isB id with
    | false => rfl
    | true => exact absurd (this.mp hb) hk
  · intro id hid; exact (hc id pb (hi.byPeer_mem hid).2).mpr rfl
  · intro id hid; exact (hc' id pb (hi'.byPeer_mem hid).2).mpr rfl

theorem rel_sendByIdNow {p p' : Pool} (hr : Rel isB pb p p') (hi : IdxInv p) (hi' : IdxInv p')
    (hc : Cons isB pb p) (hc' : Cons isB pb p') (m : Nat) (peers : List Nat) :
    Rel isB pb (p.sendByIdNow m peers).1 (p'.sendByIdNow m peers).1 := by
  show Rel isB pb (p.writeGroups m (groupsOf p.byPeer peers)) (p'.writeGroups m (groupsOf p'.byPeer peers))
  rw [writeGroups_groupsOf, writeGroups_groupsOf]
  exact rel_foldl_writeFirst (bpRel_of hr hi hi' hc hc') m peers hr

theorem lookupPlan_nil (k : Nat) : lookupPlan [] k = none := rfl

theorem openIfMissing_noPlan (p : Pool) (k : Nat) (h : p.openPlan = []) : p.openIfMissing k = p := by
  unfold Pool.openIfMissing
  rw [h]
  split <;> rfl

theorem writeFirst_byPeer (m : Nat) (ids : List Nat) : ∀ p : Pool, (p.writeFirst m ids).byPeer = p.byPeer := by
  induction ids with
  | nil => intro p; rfl
  | cons x rest ih =>
    intro p
    have hw : (p.writeTo x m).1.byPeer = p.byPeer := by unfold Pool.writeTo; split <;> rfl
    simp only [Pool.writeFirst]
    split
    · exact hw
    · exact (ih _).trans hw

/-- with an empty open plan `sendOne` is a `writeFirst` plus a flag -/
theorem rel_sendOne_eq (p : Pool) (m k : Nat) (h : p.openPlan = []) :
    Rel isB pb (p.writeFirst m (p.byPeer.get k)) (p.sendOne m k) ∧ (p.sendOne m k).byPeer = p.byPeer := by
  unfold Pool.sendOne
  rw [openIfMissing_noPlan p k h]
  unfold Pool.sendOneWrite
  exact ⟨rel_of_fields rfl rfl rfl rfl rfl rfl rfl rfl rfl rfl ((writeFirst_plan m _ p).trans h),
    writeFirst_byPeer m _ p⟩

theorem rel_foldl_sendOne (m : Nat) (peers : List Nat) : ∀ {bp bp' : AMap} {p p' : Pool},
    BPRel isB pb bp bp' → p.byPeer = bp → p'.byPeer = bp' → Rel isB pb p p' →
    Rel isB pb (peers.foldl (fun q k => q.sendOne m k) p) (peers.foldl (fun q k => q.sendOne m k) p') := by
  induction peers with
  | nil => intro _ _ p p' _ _ _ hr; exact hr
  | cons k ks ih =>
    intro bp bp' p p' hb e e' hr
    simp only [List.foldl_cons]
    have h1 := rel_sendOne_eq (isB := isB) (pb := pb) p m k hr.plan
    have h1' := rel_sendOne_eq (isB := isB) (pb := pb) p' m k hr.plan'
    apply ih hb (h1.2.trans e) (h1'.2.trans e')
    have hw : Rel isB pb (p.writeFirst m (p.byPeer.get k)) (p'.writeFirst m (p'.byPeer.get k)) := by
      rw [e, e']
      by_cases hk : k = pb
      · subst hk
        exact hr.both (rel_writeFirst_B m _ p hb.allB hr.plan) (rel_writeFirst_B m _ p' hb.allB' hr.plan')
      · rw [← hb.same k hk]
        exact rel_writeFirst_both m _ hr (hb.nonB k hk)
    exact (h1.1.symm.trans hw).trans h1'.1

theorem rel_dialRun {p p' : Pool} (hr : Rel isB pb p p') (hi : IdxInv p) (hi' : IdxInv p')
    (hc : Cons isB pb p) (hc' : Cons isB pb p') (tid : Nat) :
    Rel isB pb (p.dialRun tid).1 (p'.dialRun tid).1 := by
  unfold Pool.dialRun
  rw [← hr.running]
  cases hfind : p.running.find? (fun t => t.id = tid) with
  | none => exact hr
  | some t =>
    simp only
    have h0 : Rel isB pb { p with running := p.running.filter (fun t => t.id ≠ tid) }
        { p' with running := p.running.filter (fun t => t.id ≠ tid) } :=
      ⟨hr.lastId, hr.peers, hr.objs, hr.streams, hr.byPeer, hr.byTag, hr.dialBuf, rfl, hr.dialW, hr.dialQ,
       hr.plan, hr.plan'⟩
    split
    · exact h0
    · exact rel_foldl_sendOne t.msg t.peers (bpRel_of hr hi hi' hc hc') rfl rfl h0

end AnySync.StreamPool

namespace AnySync.StreamPool
variable {isB : Nat → Bool} {pb : Nat}

/-! ### one macro step on both sides -/

theorem sim_step {p p' : Pool} (hr : Rel isB pb p p') (hi : IdxInv p) (hi' : IdxInv p')
    (hc : Cons isB pb p) (hc' : Cons isB pb p') (ms : MStep) (hok : ms.ok = true) :
    Rel isB pb (mstep p ms) (mstep p' ms) := by
  cases ms with
  | broadcast m tags => exact rel_broadcastNow hr m tags
  | sendById m peers => exact rel_sendByIdNow hr hi hi' hc hc' m peers
  | atom st =>
    have objOnly : ∀ x f, st.objFn = some (x, f) → Rel isB pb (step p st).1 (step p' st).1 := by
      intro x f h
      exact rel_objUpd_both hr (step_objUpd p st x f h).1 (step_objUpd p' st x f h).1 (step_objUpd p st x f h).2
    cases st with
    | add peer c g f tags => exact rel_add hr hi hi' peer c g f tags
    | addNoPeer => exact hr
    | snapBroadcast m tags => simp [MStep.ok] at hok
    | snapSendById m peers => simp [MStep.ok] at hok
    | callWrite cid => simp [MStep.ok] at hok
    | addTags x tags => exact rel_addTags hr hi hi' x tags
    | removeTags x tags => exact (rel_removeTags hr hi hi' x tags).1
    | removeTagsById x tags => exact (rel_removeTags hr hi hi' x tags).2
    | streamsQ tags => exact hr
    | send t =>
      simp only [mstep, step, Pool.send]
      rw [← hr.dialQ, ← hr.dialBuf]
      split
      · exact hr
      · exact ⟨hr.lastId, hr.peers, hr.objs, hr.streams, hr.byPeer, hr.byTag, rfl, hr.running, hr.dialW,
          rfl, hr.plan, hr.plan'⟩
    | setPlan peer sp =>
      cases sp with
      | some s => simp [MStep.ok] at hok
      | none =>
        simp only [mstep, step, Pool.setPlan]
        exact ⟨hr.lastId, hr.peers, hr.objs, hr.streams, hr.byPeer, hr.byTag, hr.dialBuf, hr.running, hr.dialW,
          hr.dialQ, by simp [hr.plan], by simp [hr.plan']⟩
    | take x => exact objOnly _ _ rfl
    | complete x => exact objOnly _ _ rfl
    | ctxClose x => exact objOnly _ _ rfl
    | writerExit x => exact objOnly _ _ rfl
    | readClose x => exact objOnly _ _ rfl
    | cancel x => exact objOnly _ _ rfl
    | setGated x b => exact objOnly _ _ rfl
    | setCloseBlocks x b => exact objOnly _ _ rfl
    | closeRemote x => exact objOnly _ _ rfl
    | poolRemove x => exact rel_poolRemove hr hi hi' hc hc' x
    | dialTake =>
      simp only [mstep, step, Pool.dialTake]
      rw [← hr.dialBuf, ← hr.running, ← hr.dialW]
      split
      · exact hr
      · split
        · exact ⟨hr.lastId, hr.peers, hr.objs, hr.streams, hr.byPeer, hr.byTag, rfl, rfl, rfl,
            hr.dialQ, hr.plan, hr.plan'⟩
        · exact hr
    | dialRun tid => exact rel_dialRun hr hi hi' hc hc' tid

/-- a step of `b`'s writer / remote, taken by one side only -/
theorem sim_writer {p : Pool} (ms : MStep) (b : Nat) (hw : ms.isWriterOf b = true)
    (hb : getObj p.objs b = none ∨ isB b = true) (hplan : p.openPlan = []) :
    Rel isB pb p (mstep p ms) := by
  cases ms with
  | broadcast => simp [MStep.isWriterOf] at hw
  | sendById => simp [MStep.isWriterOf] at hw
  | atom st =>
    obtain ⟨f, hf⟩ := writer_objFn st b hw
    exact rel_objUpd_self (step_objUpd p st b f hf).1 (step_objUpd p st b f hf).2 hb hplan

/-! ### peers of existing streams are stable along macro schedules -/

theorem ext_writeAll (m : Nat) (ids : List Nat) : ∀ p : Pool, Ext p.objs (p.writeAll m ids).objs := by
  induction ids with
  | nil => intro p; exact Ext.refl _
  | cons x rest ih => intro p; exact (ext_writeTo p x m).trans (ih _)

theorem ext_writeGroups (m : Nat) (gs : List (List Nat)) : ∀ p : Pool, Ext p.objs (p.writeGroups m gs).objs := by
  induction gs with
  | nil => intro p; exact Ext.refl _
  | cons g rest ih => intro p; exact (ext_writeFirst m g p).trans (ih _)

theorem mstep_ext (p : Pool) (ms : MStep) : Ext p.objs (mstep p ms).objs := by
  cases ms with
  | atom st => exact step_ext p st
  | broadcast m tags => exact ext_writeAll m _ p
  | sendById m peers => exact ext_writeGroups m _ p

theorem mrun_ext (σ : List MStep) : ∀ p : Pool, Ext p.objs (mrun p σ).objs := by
  induction σ with
  | nil => intro p; exact Ext.refl _
  | cons ms rest ih => intro p; exact (mstep_ext p ms).trans (ih _)

/-! ### the unwinding theorem -/

theorem unwind (b : Nat) (fin : List Stream)
    (hdef : ∀ y, isB y = true ↔ peerOf fin y = some pb)
    (hbfin : ∀ k, peerOf fin b = some k → k = pb) :
    ∀ (σ : List MStep) (p : Pool) (σ' : List MStep) (p' : Pool),
      Rel isB pb p p' → IdxInv p → IdxInv p' → Ext (mrun p σ).objs fin →
      (∀ ms ∈ σ, ms.ok = true) → (∀ ms ∈ σ', ms.ok = true) →
      σ.filter (fun ms => !ms.isWriterOf b) = σ'.filter (fun ms => !ms.isWriterOf b) →
      Rel isB pb (mrun p σ) (mrun p' σ') := by
  -- facts available at every point of the simulation
  have consOf : ∀ (σ : List MStep) (p : Pool), Ext (mrun p σ).objs fin → Cons isB pb p := by
    intro σ p he y k hk
    have := he.peer_stable y k ((mrun_ext σ p).peer_stable y k hk)
    rw [hdef y, this]
    exact ⟨fun h => by injection h, fun h => by rw [h]⟩
  have consOf' : ∀ {p p' : Pool}, Rel isB pb p p' → Cons isB pb p → Cons isB pb p' := by
    intro p p' hr hc y k hk
    exact hc y k (by rw [hr.peers y]; exact hk)
  have bOf : ∀ (σ : List MStep) (p : Pool), Ext (mrun p σ).objs fin → (getObj p.objs b = none ∨ isB b = true) := by
    intro σ p he
    cases hg : getObj p.objs b with
    | none => exact Or.inl rfl
    | some s =>
      right
      have hp : peerOf p.objs b = some s.peer := by simp [peerOf, hg]
      have := he.peer_stable b s.peer ((mrun_ext σ p).peer_stable b s.peer hp)
      rw [hdef b, this, hbfin s.peer this]
  have bOf' : ∀ {p p' : Pool}, Rel isB pb p p' → (getObj p.objs b = none ∨ isB b = true) →
      (getObj p'.objs b = none ∨ isB b = true) := by
    intro p p' hr h
    cases h with
    | inr h => exact Or.inr h
    | inl h =>
      left
      have : peerOf p'.objs b = none := by rw [← hr.peers b]; simp [peerOf, h]
      cases hg : getObj p'.objs b with
      | none => rfl
      | some s => simp [peerOf, hg] at this
  intro σ
  induction σ with
  | nil =>
    intro p σ'
    induction σ' with
    | nil => intro p' hr _ _ _ _ _ _; exact hr
    | cons ms' r' ih' =>
      intro p' hr hi hi' he hok hok' hf
      have hw' : ms'.isWriterOf b = true := by
        cases hb : ms'.isWriterOf b with
        | true => rfl
        | false => simp [List.filter_cons, hb] at hf
      have hf' : ([] : List MStep).filter (fun ms => !ms.isWriterOf b) = r'.filter (fun ms => !ms.isWriterOf b) := by
        simpa [List.filter_cons, hw'] using hf
      have hstep := sim_writer (isB := isB) (pb := pb) ms' b hw' (bOf' hr (bOf [] p he)) hr.plan'
      exact ih' (mstep p' ms') (hr.trans hstep) hi (hi'.mstep ms') he hok
        (fun ms h => hok' ms (List.mem_cons_of_mem _ h)) hf'
  | cons ms r ih =>
    intro p σ'
    by_cases hw : ms.isWriterOf b = true
    · intro p' hr hi hi' he hok hok' hf
      have hf' : r.filter (fun ms => !ms.isWriterOf b) = σ'.filter (fun ms => !ms.isWriterOf b) := by
        simpa [List.filter_cons, hw] using hf
      have hstep := sim_writer (isB := isB) (pb := pb) ms b hw (bOf (ms :: r) p he) hr.plan
      exact ih (mstep p ms) σ' p' (hstep.symm.trans hr) (hi.mstep ms) hi' he
        (fun ms h => hok ms (List.mem_cons_of_mem _ h)) hok' hf'
    · have hwf : ms.isWriterOf b = false := by simpa using hw
      induction σ' with
      | nil => intro p' _ _ _ _ _ _ hf; simp [List.filter_cons, hwf] at hf
      | cons ms' r' ih' =>
        intro p' hr hi hi' he hok hok' hf
        by_cases hw' : ms'.isWriterOf b = true
        · have hf' : (ms :: r).filter (fun ms => !ms.isWriterOf b) = r'.filter (fun ms => !ms.isWriterOf b) := by
            simpa [List.filter_cons, hw'] using hf
          have hstep := sim_writer (isB := isB) (pb := pb) ms' b hw' (bOf' hr (bOf (ms :: r) p he)) hr.plan'
          exact ih' (mstep p' ms') (hr.trans hstep) hi (hi'.mstep ms') he hok
            (fun ms h => hok' ms (List.mem_cons_of_mem _ h)) hf'
        · have hwf' : ms'.isWriterOf b = false := by simpa using hw'
          simp only [List.filter_cons, hwf, hwf', Bool.not_false, if_true, List.cons.injEq] at hf
          obtain ⟨rfl, hf'⟩ := hf
          have hc := consOf (ms :: r) p he
          have hs := sim_step hr hi hi' hc (consOf' hr hc) ms (hok ms List.mem_cons_self)
          exact ih (mstep p ms) r' (mstep p' ms) hs (hi.mstep ms) (hi'.mstep ms) he
            (fun ms h => hok ms (List.mem_cons_of_mem _ h)) (fun ms h => hok' ms (List.mem_cons_of_mem _ h)) hf'

end AnySync.StreamPool
