/-
C04 — ACL privilege rules cannot be bypassed by any constructible record.

Model: `Acl/State.lean` (every `apply*` / `Validate*` of aclstate.go / validator.go, guard by guard),
with `v = true` (fully validating list). Rules: `Acl/Spec.lean` (`StepRules`).

Granularity. A record is a list of contents applied in order on one copy of the state, and the
author's permission is re-read by every `Validate*`; an outsider may therefore join through an
owner-made Admin invite with the first content and act as an admin with the second. The rules are
hence stated per *step* (one content, the author's permission read in the state just before it;
`AclAccountPermissionChanges` counts as the sequence of its changes — `pcs_is_sequence`), an
accepted record is shown to be a chain of such steps (`record_is_chain`), and everything that is
true of whole records is stated for whole records (`*_record`) and for every reachable state.

All theorems are for every configuration in which the three repairs are present (`cfg.Fixed`;
`fixes_present` ties that to the source) and for both values of `cfg.pcRejectsNone`. With a repair
switched off the corresponding rule is refuted by a concrete witness (`*_unfixed_refuted`) — these
are the defects F-acl-accept-remove, F-acl-accept-stale-join and F-acl-owner-guest, replayed on the
real code by the harness.
-/
import AnySyncModel.Acl.Chain
import AnySyncModel.Generated.AclFacts

namespace AnySync.Acl
open Generated.AclPerm

/-! ## obligations on the regenerated fragments -/

/-- the extractor recognised every permission predicate of models.go and the validator functions -/
theorem shape_ok : Generated.AclPerm.shapeOk = true ∧ Generated.AclFacts.shapeOk = true := by decide

/-- the three repairs are present in the source the check runs against -/
theorem fixes_present :
    Cfg.Fixed ⟨Generated.AclFacts.pcRejectsNone, Generated.AclFacts.acceptRequiresJoin,
      Generated.AclFacts.acceptRequiresNoPerm, Generated.AclFacts.ownerNotGuest,
      Generated.AclFacts.oneRotationPerRecord⟩ :=
  ⟨by decide, by decide, by decide⟩

/-- the permission table of models.go, as regenerated: who manages accounts, who may ask to leave,
and the order used for invite joins -/
theorem perm_table :
    (∀ p, canManageAccounts p = true ↔ p = permAdmin ∨ p = permOwner) ∧
    (∀ p, canRequestRemove p = false ↔ p = permGuest) ∧
    (∀ p q, isLessOrEqual p q = true →
       p = permNone ∨ (p = permReader ∧ q ≠ permNone) ∨
       (p = permWriter ∧ (q = permWriter ∨ q = permAdmin)) ∨ (p = permAdmin ∧ q = permAdmin)) := by
  refine ⟨canManage_iff, ?_, ?_⟩
  · intro p; simp only [canRequestRemove]; split <;> simp_all
  · intro p q h
    simp only [isLessOrEqual] at h
    repeat' (split at h)
    all_goals simp_all

/-! ## the rules, per step -/

section step
variable (cfg : Cfg) (hfix : cfg.Fixed) (s s' : State) (author rec : Nat) (c : Content)
  (hc : c.atomic = true) (hs : InvitesSane s) (h : applyContent cfg true s author rec c = .ok s')
include hfix hc hs h

/-- exactly one owner after, if exactly one before -/
theorem one_owner_preserved (h1 : OneOwner s) : OneOwner s' :=
  (step_rules cfg hfix s s' author rec c hc hs h).one_owner h1

/-- Admin is granted / revoked (by any content kind) only by the owner — or acquired by an
outsider joining through a live invite that grants Admin, and such invites are made by the owner
only (`admin_invite_owner_only`) -/
theorem admin_role_owner_only (a : Nat) (hch : ¬(s.perm a = permAdmin ↔ s'.perm a = permAdmin)) :
    s.perm author = permOwner ∨ (a = author ∧ JoinsVia s s' a) :=
  (step_rules cfg hfix s s' author rec c hc hs h).admin a hch

theorem admin_invite_owner_only (i : Nat) (h1 : GrantsAdmin s' i) (h0 : ¬ GrantsAdmin s i) :
    s.perm author = permOwner :=
  (step_rules cfg hfix s s' author rec c hc hs h).admin_invite i h1 h0

/-- the owner is never demoted or removed by anybody else -/
theorem owner_untouchable_by_others (a : Nat) (ha : s.perm a = permOwner) (hne : a ≠ author) :
    s'.perm a = permOwner :=
  (step_rules cfg hfix s s' author rec c hc hs h).owner_untouchable a ha hne

/-- the Owner role moves only by the owner's own record -/
theorem ownership_transfer_owner_only (a : Nat) (hch : ¬(s.perm a = permOwner ↔ s'.perm a = permOwner)) :
    s.perm author = permOwner :=
  (step_rules cfg hfix s s' author rec c hc hs h).transfer a hch

/-- space options change only by the owner's record -/
theorem options_owner_only (hch : s'.opts ≠ s.opts) : s.perm author = permOwner :=
  (step_rules cfg hfix s s' author rec c hc hs h).options hch

/-- adding / removing / approving / declining / re-permissioning ANOTHER account, and creating /
changing / revoking invites, need an owner or admin -/
theorem membership_ops_need_manager :
    (∀ a, a ≠ author → s'.entry a ≠ s.entry a → canManageAccounts (s.perm author) = true) ∧
    (s'.invites ≠ s.invites → canManageAccounts (s.perm author) = true) :=
  ⟨(step_rules cfg hfix s s' author rec c hc hs h).membership,
   (step_rules cfg hfix s s' author rec c hc hs h).invites⟩

/-- a guest keeps its permission or loses it entirely -/
theorem guest_never_repermissioned (a : Nat) (ha : s.perm a = permGuest) :
    s'.perm a = permGuest ∨ s'.perm a = permNone :=
  (step_rules cfg hfix s s' author rec c hc hs h).guest a ha

/-- an account without permission gains one only by a manager's record, or by its own record
through a live AnyoneCanJoin invite, with at most that invite's permission -/
theorem outsider_needs_live_invite (a : Nat) (h0 : s.perm a = permNone) (h1 : s'.perm a ≠ permNone) :
    canManageAccounts (s.perm author) = true ∨ (a = author ∧ JoinsVia s s' a) :=
  (step_rules cfg hfix s s' author rec c hc hs h).outsider a h0 h1

/-- a non-manager changes no other account's entry, no invite, no option, and (if it is a member)
not its own permission: what is left is its own status / request -/
theorem member_affects_only_self (hnm : canManageAccounts (s.perm author) = false) :
    (∀ a, a ≠ author → s'.entry a = s.entry a) ∧ s'.invites = s.invites ∧ s'.opts = s.opts ∧
    (s.perm author ≠ permNone → s'.perm author = s.perm author) := by
  have r := step_rules cfg hfix s s' author rec c hc hs h
  have hno : s.perm author ≠ permOwner := by intro hh; rw [hh] at hnm; revert hnm; decide
  refine ⟨?_, ?_, ?_, r.self_perm hnm⟩
  · intro a ha
    by_cases hh : s'.entry a = s.entry a
    · exact hh
    · have := r.membership a ha hh; rw [hnm] at this; cases this
  · by_cases hh : s'.invites = s.invites
    · exact hh
    · have := r.invites hh; rw [hnm] at this; cases this
  · by_cases hh : s'.opts = s.opts
    · exact hh
    · exact absurd (r.options hh) hno

end step

/-- `AclAccountPermissionChanges` is literally the sequence of its single changes -/
theorem pcs_is_sequence (cfg : Cfg) (v : Bool) (s : State) (author rec : Nat) (l : List (Nat × Nat)) :
    applyContent cfg v s author rec (.pcs l)
      = applyContents cfg v s author rec (l.map fun x => Content.pc x.1 x.2) :=
  pcs_eq_contents cfg v author rec l s

/-! ## whole records, whole logs -/

/-- an accepted record is a chain of rule-abiding steps by its author -/
theorem record_is_chain (cfg : Cfg) (hfix : cfg.Fixed) (s s' : State) (rec : Nat) (r : Record)
    (hs : InvitesSane s) (h : applyRecord cfg true s rec r = .ok s') :
    ∃ s'', Chain r.author s s'' ∧ s' = { s'' with last := rec } :=
  chain_of_record cfg hfix s s' rec r hs h

/-- a rejected record is reported as an error and yields no state at all (the caller keeps `s`) -/
theorem reject_yields_no_state (cfg : Cfg) (s : State) (rec : Nat) (r : Record) (e : Err)
    (h : applyRecord cfg true s rec r = .error e) : ∀ s', applyRecord cfg true s rec r ≠ .ok s' := by
  intro s' h'; rw [h] at h'; cases h'

/-- every record — any author, any content list — preserves "exactly one owner" -/
theorem one_owner_preserved_record (cfg : Cfg) (hfix : cfg.Fixed) (s s' : State) (rec : Nat) (r : Record)
    (hs : InvitesSane s) (h1 : OneOwner s) (h : applyRecord cfg true s rec r = .ok s') :
    OneOwner s' ∧ InvitesSane s' := by
  obtain ⟨s'', hc, rfl⟩ := chain_of_record cfg hfix s s' rec r hs h
  exact ⟨hc.one_owner h1, hc.sane hs⟩

/-- in every state reachable by a validating list (root, then accepted records) exactly one
account is the owner -/
theorem one_owner_reachable (cfg : Cfg) (hfix : cfg.Fixed) (s : State) (h : Reachable cfg s) :
    OneOwner s :=
  (reachable_inv cfg hfix s h).1

/-- all step rules at once, for every state a validating list can reach (the side condition
`InvitesSane` of the step theorems is an invariant of reachable states) -/
theorem rules_in_reachable_states (cfg : Cfg) (hfix : cfg.Fixed) (s s' : State) (hr : Reachable cfg s)
    (author rec : Nat) (c : Content) (hc : c.atomic = true)
    (h : applyContent cfg true s author rec c = .ok s') : StepRules s author s' :=
  step_rules cfg hfix s s' author rec c hc (reachable_inv cfg hfix s hr).2 h

/-- no record of anybody else touches the owner's permission -/
theorem owner_untouchable_record (cfg : Cfg) (hfix : cfg.Fixed) (s s' : State) (rec : Nat) (r : Record)
    (hs : InvitesSane s) (h : applyRecord cfg true s rec r = .ok s')
    (a : Nat) (ha : s.perm a = permOwner) (hne : a ≠ r.author) : s'.perm a = permOwner := by
  obtain ⟨s'', hc, rfl⟩ := chain_of_record cfg hfix s s' rec r hs h
  exact hc.owner_untouchable a ha hne

/-- a record whose author is not the owner moves no Owner bit, changes no option and changes
nobody else's Admin bit — whatever it contains -/
theorem nonowner_record (cfg : Cfg) (hfix : cfg.Fixed) (s s' : State) (rec : Nat) (r : Record)
    (hs : InvitesSane s) (h : applyRecord cfg true s rec r = .ok s')
    (hno : s.perm r.author ≠ permOwner) :
    (∀ a, s.perm a = permOwner ↔ s'.perm a = permOwner) ∧ s'.opts = s.opts ∧
    (∀ a, a ≠ r.author → (s.perm a = permAdmin ↔ s'.perm a = permAdmin)) := by
  obtain ⟨s'', hc, rfl⟩ := chain_of_record cfg hfix s s' rec r hs h
  exact hc.nonowner hno

/-- a record of an ordinary member (reader / writer / guest / out-of-enum value) changes no other
account's entry, no invite, no option and not its own permission — whatever it contains -/
theorem member_affects_only_self_record (cfg : Cfg) (hfix : cfg.Fixed) (s s' : State) (rec : Nat)
    (r : Record) (hs : InvitesSane s) (h : applyRecord cfg true s rec r = .ok s')
    (hnm : canManageAccounts (s.perm r.author) = false) (hmem : s.perm r.author ≠ permNone) :
    (∀ a, a ≠ r.author → s'.entry a = s.entry a) ∧ s'.invites = s.invites ∧ s'.opts = s.opts ∧
    s'.perm r.author = s.perm r.author := by
  obtain ⟨s'', hc, rfl⟩ := chain_of_record cfg hfix s s' rec r hs h
  exact hc.ordinary_member hnm hmem

/-! ## the rules are false without the repairs (witnesses replayed on the real code) -/

/-- owner 0, admins 1 and 2; 2 has asked to be removed (request record 2) -/
def witRemove : State :=
  { accounts := [(0, ⟨permOwner, stActive, some 0, [(0, permOwner)]⟩),
                 (1, ⟨permAdmin, stActive, some 0, [(1, permAdmin)]⟩),
                 (2, ⟨permAdmin, stRemoving, some 0, [(1, permAdmin)]⟩)],
    invites := [], requests := [(2, ⟨2, rtRemove, none⟩)], pending := [(2, 2)],
    keys := [0], opts := [], last := 2 }

def outcome (r : Res) (dflt : State) : State := match r with | .ok s => s | .error _ => dflt

def afterRemove : State :=
  outcome (applyContent ⟨false, false, false, true, true⟩ true witRemove 1 3 (.acc 2 2 permReader)) witRemove

/-- F-acl-accept-remove (the code as found: neither check in `ValidateRequestAccept`): admin 1 (not the owner) "accepts" the
remove request of admin 2 with Reader and thereby revokes Admin -/
theorem admin_role_owner_only_unfixed_refuted :
    ¬ (∀ (s s' : State) (author rec : Nat) (c : Content), c.atomic = true → InvitesSane s →
        applyContent ⟨false, false, false, true, true⟩ true s author rec c = .ok s' →
        ∀ a, ¬(s.perm a = permAdmin ↔ s'.perm a = permAdmin) →
          s.perm author = permOwner ∨ (a = author ∧ JoinsVia s s' a)) := by
  intro hall
  have hsane : InvitesSane witRemove := by intro i inv hf; simp [witRemove] at hf
  have := hall witRemove afterRemove 1 3 (.acc 2 2 permReader) rfl hsane rfl 2 (by decide)
  rcases this with h | ⟨h, _⟩
  · revert h; decide
  · cases h

/-- owner 0, admin 1, admin 3 whose join request (record 2) is still pending although the owner
added it directly -/
def witStale : State :=
  { accounts := [(0, ⟨permOwner, stActive, some 0, [(0, permOwner)]⟩),
                 (1, ⟨permAdmin, stActive, some 0, [(1, permAdmin)]⟩),
                 (3, ⟨permAdmin, stActive, some 0, [(3, permAdmin)]⟩)],
    invites := [], requests := [(2, ⟨3, rtJoin, some 0⟩)], pending := [(3, 2)],
    keys := [0], opts := [], last := 3 }

def afterStale : State :=
  outcome (applyContent ⟨false, true, false, true, true⟩ true witStale 1 4 (.acc 3 2 permReader)) witStale

/-- F-acl-accept-stale-join: with only the request-type check, admin 1 accepts the stale join
request of admin 3 with Reader -/
theorem admin_role_owner_only_stale_refuted :
    ¬ (∀ (s s' : State) (author rec : Nat) (c : Content), c.atomic = true → InvitesSane s →
        applyContent ⟨false, true, false, true, true⟩ true s author rec c = .ok s' →
        ∀ a, ¬(s.perm a = permAdmin ↔ s'.perm a = permAdmin) →
          s.perm author = permOwner ∨ (a = author ∧ JoinsVia s s' a)) := by
  intro hall
  have hsane : InvitesSane witStale := by intro i inv hf; simp [witStale] at hf
  have := hall witStale afterStale 1 4 (.acc 3 2 permReader) rfl hsane rfl 3 (by decide)
  rcases this with h | ⟨h, _⟩
  · revert h; decide
  · cases h

/-- owner 0 and guest 5 -/
def witGuest : State :=
  { accounts := [(0, ⟨permOwner, stActive, some 0, [(0, permOwner)]⟩),
                 (5, ⟨permGuest, stActive, some 0, [(1, permGuest)]⟩)],
    invites := [], requests := [], pending := [], keys := [0], opts := [], last := 1 }

def afterGuest : State :=
  outcome (applyContent ⟨false, true, true, false, true⟩ true witGuest 0 2 (.own 5 permWriter)) witGuest

/-- F-acl-owner-guest: without the guest check the owner hands ownership to a guest -/
theorem guest_never_repermissioned_unfixed_refuted :
    ¬ (∀ (s s' : State) (author rec : Nat) (c : Content), c.atomic = true → InvitesSane s →
        applyContent ⟨false, true, true, false, true⟩ true s author rec c = .ok s' →
        ∀ a, s.perm a = permGuest → s'.perm a = permGuest ∨ s'.perm a = permNone) := by
  intro hall
  have hsane : InvitesSane witGuest := by intro i inv hf; simp [witGuest] at hf
  have := hall witGuest afterGuest 0 2 (.own 5 permWriter) rfl hsane rfl 5 (by decide)
  revert this; decide

/-! ## non-vacuity -/

def cfgFixed : Cfg := ⟨false, true, true, true, true⟩

/-- with the repairs the three witnesses above are rejected -/
example : applyContent cfgFixed true witRemove 1 3 (.acc 2 2 permReader) = .error .nosuchreq := rfl
example : applyContent cfgFixed true witStale 1 4 (.acc 3 2 permReader) = .error .perm := rfl
example : applyContent cfgFixed true witGuest 0 2 (.own 5 permWriter) = .error .perm := rfl

/-- a reachable state with an owner, an admin, a guest, an Admin invite and a pending request -/
def demo : Except Err State := do
  let s0 := applyRoot 0 none
  let s1 ← applyRecord cfgFixed true s0 1 ⟨0, 0, [.add [(1, permAdmin), (5, permGuest)]]⟩
  let s2 ← applyRecord cfgFixed true s1 2 ⟨0, 1, [.inv itAnyoneCanJoin permAdmin 0 true, .opt 1]⟩
  let s3 ← applyRecord cfgFixed true s2 3 ⟨6, 2, [.ijn 6 2 permNone 0 6 false true, .add [(7, permWriter)]]⟩
  applyRecord cfgFixed true s3 4 ⟨7, 3, [.rrm]⟩

example : (demo.toOption.map fun s => (s.perm 6, s.perm 7, s.last)) = some (permAdmin, permWriter, 4) := by decide

/-- hypotheses of the step theorems are satisfiable by non-trivial steps: an admin demoting a writer … -/
example : ∃ s', applyContent cfgFixed true witStale 1 4 (.pc 0 permWriter) = .error .perm ∧
    applyContent cfgFixed true witRemove 0 3 (.pc 2 permWriter) = .ok s' ∧ s'.perm 2 = permWriter := by
  exact ⟨_, rfl, rfl, by decide⟩

/-- … and `Cfg.Fixed`, `OneOwner`, `InvitesSane`, `Reachable` are inhabited -/
example : cfgFixed.Fixed ∧ OneOwner (applyRoot 0 none) ∧ InvitesSane (applyRoot 0 none) ∧
    Reachable cfgFixed (applyRoot 0 none) :=
  ⟨⟨rfl, rfl, rfl⟩, oneOwner_root 0 none, sane_root 0 none, Reachable.root 0 none⟩

end AnySync.Acl
