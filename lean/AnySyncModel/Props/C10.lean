/-
C10 — tree and ACL persistence is all-or-nothing under crashes and storage faults.

Only property theorems and their non-vacuity examples. Model: Store/Tx.lean (committed store +
pending write transaction + savepoints; crash = discard pending). ASSUMED, NOT MODELLED: a SQLite /
any-store commit is atomic and durable (fsync); see notes/areas/store.md.
-/
import AnySyncModel.Store.Lemmas
import AnySyncModel.Generated.StoreShape

namespace AnySync.Store

/-! ## the source still has the shape the model mirrors -/

/-- obligation on the regenerated fragment (harness/areas/store/extract.go reads the persistence
functions of /repo with go/ast): `storage.AddAll`, `AddAllNoError`, ACL `AddAll`, `CreateStorage`,
`storage.Delete`, `spacestorage.Create` and `createStorageAndDoInTx` each open one write transaction,
pass `tx.Context()` to every storage call, and decide commit/rollback on their (named) error result;
the deferred storage is forgotten when its creating transaction fails; `AddRawRecord` persists before
it swaps; `ObjectTree.Delete` flags after it deleted; local and remote add realign with storage after
a failed write. `traceOf` and the live-object protocols below are the model of exactly this shape. -/
theorem shape_ok : Generated.Store.allOk = true := by decide

/-! ## the transaction layer -/

/-- A crash at ANY call boundary `k` of a trace whose writes all lie inside one `begin … commit`
leaves exactly the state before the operation or the state after it. -/
theorem tx_atomic (s : Store) (tr : List Call) (h : SingleTx tr) (k : Nat) :
    crashAt (Db.idle s) tr k = s ∨ crashAt (Db.idle s) tr k = (exec (Db.idle s) tr).committed := by
  obtain ⟨body, rfl, hb⟩ := h
  by_cases hk : k < ([Call.begin] ++ body ++ [Call.commit]).length
  · left
    rcases take_singleTx body k (by simpa using hk) with h0 | ⟨n, hn⟩
    · simp only [crashAt, crash, List.singleton_append] at *
      rw [h0]; rfl
    · simp only [crashAt, crash, List.singleton_append] at *
      rw [hn]; exact crash_inside s body hb n
  · right
    simp only [crashAt, crash]
    rw [List.take_of_length_le (by omega)]

/-- sharper: before the commit has been executed the state is the old one. -/
theorem tx_atomic_before_commit (s : Store) (body : List Call) (hb : ∀ c ∈ body, c.isTxCtl = false)
    (k : Nat) (hk : k ≤ body.length + 1) :
    crashAt (Db.idle s) ([Call.begin] ++ body ++ [Call.commit]) k = s := by
  rcases take_singleTx body k (by simp; omega) with h0 | ⟨n, hn⟩
  · simp only [crashAt, crash, List.singleton_append] at *
    rw [h0]; rfl
  · simp only [crashAt, crash, List.singleton_append] at *
    rw [hn]; exact crash_inside s body hb n

/-- the statement is not vacuous and not trivial: a two-insert transaction, crashed after the first
insert, shows the old store although the pending transaction already holds the document -/
example :
    let tr := [Call.begin, .insert ⟨.changes, 1⟩ (rootChange 1), .upsertHeads 1 [1] (some 1), .commit]
    SingleTx tr ∧ crashAt (Db.idle {}) tr 2 = {} ∧
      ((exec (Db.idle {}) (tr.take 2)).pending.map (·.get ⟨.changes, 1⟩)) = some (some (rootChange 1)) ∧
      (exec (Db.idle {}) tr).committed ≠ {} := by
  refine ⟨⟨[.insert ⟨.changes, 1⟩ (rootChange 1), .upsertHeads 1 [1] (some 1)], rfl, by decide⟩, by decide, by decide, by decide⟩

/-- and it is FALSE without the single-transaction shape: the same writes with the heads entry
written after the commit leave a state that is neither (what mutation "heads outside the tx" does) -/
theorem tx_atomic_needs_single_tx :
    ∃ (tr : List Call) (k : Nat), ¬ SingleTx tr ∧
      crashAt (Db.idle {}) tr k ≠ {} ∧ crashAt (Db.idle {}) tr k ≠ (exec (Db.idle {}) tr).committed := by
  refine ⟨[Call.begin, .insert ⟨.changes, 1⟩ (rootChange 1), .commit, .upsertHeads 1 [1] (some 1)], 3, ?_, by decide, by decide⟩
  rintro ⟨body, hb, -⟩
  have := congrArg List.getLast? hb
  rw [List.getLast?_append] at this
  simp at this

/-- A storage fault at any call inside the transaction (the code's error path rolls back) leaves
the state before the operation. -/
theorem tx_fault_atomic (s : Store) (body : List Call) (hb : ∀ c ∈ body, c.isTxCtl = false)
    (k : Nat) (hk : 1 ≤ k) (hk' : k ≤ body.length + 1) :
    (execFault (Db.idle s) ([Call.begin] ++ body ++ [Call.commit]) k).committed = s := by
  obtain ⟨n, rfl⟩ : ∃ n, k = n + 1 := ⟨k - 1, by omega⟩
  rcases fault_inside s body hb n with h | h
  · simpa using h
  · omega

/-- a fault at `begin` itself (k = 0): nothing was started -/
theorem tx_fault_at_begin (s : Store) (tr : List Call) :
    (execFault (Db.idle s) tr 0).committed = s := by
  simp [execFault, exec, Db.idle]

/-! ## every operation issues exactly one transaction containing all its writes -/

theorem singleTxB_sound (tr : List Call) (h : singleTxB tr = true) : SingleTx tr := by
  unfold singleTxB at h
  split at h
  · rename_i rest
    split at h
    · rename_i revBody hr
      refine ⟨revBody.reverse, ?_, ?_⟩
      · have : rest = (Call.commit :: revBody).reverse := by rw [← hr, List.reverse_reverse]
        simp [this]
      · intro c hc
        have := List.all_eq_true.mp h c (by simpa using hc)
        simpa using this
    · simp at h
  · simp at h

/-- `traceOf` mirrors spacestorage.Create, CreateStorage, storage.AddAll, deferred creation, ACL
AddAll and storage.Delete; each is one `begin … commit` with every write inside (for every input:
any tree id, any list of changes, any heads). Checked against the recorded real traces on every run. -/
theorem op_single_tx (op : Op) : SingleTx (traceOf op) := by
  cases op with
  | spaceCreate sp acl st =>
    exact singleTxB_sound _ (by simp [singleTxB, traceOf, createStorageCalls, Call.isTxCtl])
  | treeCreate t => exact singleTxB_sound _ (by simp [singleTxB, traceOf, createStorageCalls, Call.isTxCtl])
  | addAll t chs heads cs =>
    exact ⟨addAllBody t chs heads cs, rfl, by
      intro c hc
      simp only [addAllBody, List.mem_append, List.mem_map, List.mem_singleton] at hc
      rcases hc with ⟨x, -, rfl⟩ | rfl <;> rfl⟩
  | deferredAddAll t chs heads cs =>
    refine ⟨createStorageCalls t ++ [.sbegin] ++ addAllBody t chs heads cs ++ [.scommit], by simp [traceOf], ?_⟩
    intro c hc
    simp only [createStorageCalls, addAllBody, List.mem_append, List.mem_map,
      List.mem_cons, List.not_mem_nil, or_false] at hc
    rcases hc with ((((rfl | rfl) | rfl) | (⟨x, -, rfl⟩ | rfl)) | rfl) <;> rfl
  | aclAdd acl r v => exact singleTxB_sound _ (by simp [singleTxB, traceOf, Call.isTxCtl])
  | treeDelete t => exact singleTxB_sound _ (by simp [singleTxB, traceOf, Call.isTxCtl])
  | addAllNoError t dups chs heads cs =>
    refine ⟨dups.map (fun d => Call.insertDup ⟨.changes, d⟩) ++ addAllBody t chs heads cs, by simp [traceOf], ?_⟩
    intro c hc
    simp only [addAllBody, List.mem_append, List.mem_map, List.mem_cons, List.not_mem_nil, or_false] at hc
    rcases hc with ⟨x, -, rfl⟩ | ⟨x, -, rfl⟩ | rfl <;> rfl
  | treeCreateChild t q =>
    cases q <;> exact singleTxB_sound _ (by simp [singleTxB, traceOf, createStorageCalls, Call.isTxCtl])

/-- consequence: every operation of the workload is all-or-nothing under a crash at any boundary -/
theorem op_crash_atomic (s : Store) (op : Op) (k : Nat) :
    crashAt (Db.idle s) (traceOf op) k = s ∨
    crashAt (Db.idle s) (traceOf op) k = (exec (Db.idle s) (traceOf op)).committed :=
  tx_atomic s (traceOf op) (op_single_tx op) k

example : traceOf (.addAll 2 [⟨3, ⟨2, [2], some 2, 7⟩⟩] [3] 2) =
    [.begin, .insert ⟨.changes, 3⟩ (.change ⟨2, [2], some 2, 7⟩), .upsertHeads 2 [3] (some 2), .commit] := rfl

/-! ## `Consistent` (the durable-state predicate) is preserved by every operation

`Consistent s acl` = recorded heads name stored changes of their tree · every stored change's parents
and snapshot base are stored (same tree) · stored order respects causality · the ACL head is the last
stored record of a gap-free chain. Input conditions are what the callers guarantee (C01/C06):
`BatchOk` = ancestor-closed batch with fresh ids. -/

/-- storage.AddAll — local add, snapshot add, remote add, remote add with rebuild -/
theorem consistent_preserved_addAll (s : Store) (acl t : Nat) (chs : List NewChange) (heads : List Nat)
    (cs : Nat) (hacl : t ≠ acl) (hb : BatchOk s t chs heads cs) (hc : Consistent s acl) :
    Consistent (exec (Db.idle s) (traceOf (.addAll t chs heads cs))).committed acl := by
  rw [committed_addAll s t chs heads cs hb.fresh]
  exact consistent_postAddAll s acl t chs heads cs hacl hb hc

/-- objecttree.CreateStorage (eager tree creation): the id must be new -/
theorem consistent_preserved_treeCreate (s : Store) (acl t : Nat) (hacl : t ≠ acl)
    (hnew : s.get ⟨.changes, t⟩ = none) (hc : Consistent s acl) :
    Consistent (exec (Db.idle s) (traceOf (.treeCreate t))).committed acl := by
  rw [committed_treeCreate s t hnew]
  exact consistent_postAddAll s acl t _ _ _ hacl (batchOk_root s t hnew) hc

/-- deferred creation: storage creation and the first AddAll in one transaction; the batch is
well-formed relative to the store that holds the root -/
theorem consistent_preserved_deferred (s : Store) (acl t : Nat) (chs : List NewChange) (heads : List Nat)
    (cs : Nat) (hacl : t ≠ acl) (hnew : s.get ⟨.changes, t⟩ = none)
    (hb : BatchOk (postTreeCreate s t) t chs heads cs) (hc : Consistent s acl) :
    Consistent (exec (Db.idle s) (traceOf (.deferredAddAll t chs heads cs))).committed acl := by
  rw [committed_deferred s t chs heads cs hnew hb.fresh]
  exact consistent_postAddAll _ acl t chs heads cs hacl hb
    (consistent_postAddAll s acl t _ _ _ hacl (batchOk_root s t hnew) hc)

/-- ACL storage.AddAll with the record `AddRawRecord` builds: new id, predecessor = current head,
order = head's order + 1 -/
theorem consistent_preserved_aclAdd (s : Store) (acl r : Nat) (v : RecV) (h : HeadsV) (r0 : Nat) (rv0 : RecV)
    (hnew : s.get ⟨.acl, r⟩ = none)
    (hh : headsAt s acl = some h) (hr : h.heads = [r0]) (hrv : recAt s r0 = some rv0)
    (hprev : v.prev = some r0) (hord : v.order = rv0.order + 1) (hc : Consistent s acl) :
    Consistent (exec (Db.idle s) (traceOf (.aclAdd acl r v))).committed acl := by
  rw [committed_aclAdd s acl r v hnew]
  exact consistent_postAclAdd s acl r v h r0 rv0 hnew hh hr hrv hprev hord hc

/-- storage.Delete: every change of the tree goes, the heads entry stays (a deleted tree) -/
theorem consistent_preserved_treeDelete (s : Store) (acl t : Nat) (hc : Consistent s acl) :
    Consistent (exec (Db.idle s) (traceOf (.treeDelete t))).committed acl := by
  rw [committed_treeDelete]
  exact consistent_eraseTree s acl t hc

/-- storage.AddAllNoError: changes that are stored already are skipped, the rest is one AddAll -/
theorem consistent_preserved_addAllNoError (s : Store) (acl t : Nat) (dups : List Nat) (chs : List NewChange)
    (heads : List Nat) (cs : Nat) (hacl : t ≠ acl) (hb : BatchOk s t chs heads cs) (hc : Consistent s acl) :
    Consistent (exec (Db.idle s) (traceOf (.addAllNoError t dups chs heads cs))).committed acl := by
  rw [committed_addAllNoError s t dups chs heads cs hb.fresh]
  exact consistent_postAddAll s acl t chs heads cs hacl hb hc

/-- CreateStorage of a derived tree bound to a parent (with or without the late-arriving-child mark) -/
theorem consistent_preserved_treeCreateChild (s : Store) (acl t : Nat) (q : Bool) (hacl : t ≠ acl)
    (hnew : s.get ⟨.changes, t⟩ = none) (hc : Consistent s acl) :
    Consistent (exec (Db.idle s) (traceOf (.treeCreateChild t q))).committed acl := by
  rw [committed_treeCreateChild s t q hnew]
  exact consistent_postAddAll s acl t _ _ _ hacl (batchOk_root s t hnew) hc

/-- spacestorage.Create on an empty database establishes the predicate -/
theorem consistent_established_spaceCreate (space acl settings : Nat) (hne : settings ≠ acl) :
    Consistent (exec (Db.idle {}) (traceOf (.spaceCreate space acl settings))).committed acl := by
  rw [committed_spaceCreate]
  exact consistent_postAddAll _ acl settings _ _ _ hne
    (batchOk_root _ settings (by
      simp [spaceBase, Store.get_set, Store.get_mkColl, Store.get_addIndex, Store.get_empty]))
    (consistent_spaceBase space acl)

/-- the boolean predicate the driver evaluates on the model's store after every operation (and that
the harness compares with the Go oracle's verdict on the real database) implies `Consistent` -/
theorem consistentB_sound (s : Store) (acl : Nat) (h : consistentB s acl = true) : Consistent s acl := by
  unfold consistentB at h
  simp only [Bool.and_eq_true, List.all_eq_true] at h
  obtain ⟨hd, ha⟩ := h
  refine ⟨?_, ?_, aclOkB_sound ha⟩
  · intro id c hc
    have := hd _ (get_mem (changeAt_get hc))
    simp only [hc, if_true] at this
    exact changeOkB_sound this
  · intro t hv hne hh hroot
    have := hd _ (get_mem (headsAt_get hh))
    simp only [hh, storedInB_complete hroot, hne, ne_eq, not_false_eq_true, and_self, if_true] at this
    exact headsOkB_sound this

/-- the boolean input check the driver evaluates on every AddAll input recorded from the real code
implies the hypothesis `BatchOk` of `consistent_preserved_addAll` / `_deferred` (so on every explored
real input those theorems apply) -/
theorem batchOkB_sound (s : Store) (t : Nat) (chs : List NewChange) (heads : List Nat) (cs : Nat)
    (h : batchOkB s t chs heads cs = true) : BatchOk s t chs heads cs := by
  unfold batchOkB at h
  simp only [Bool.and_eq_true, List.all_eq_true, Bool.or_eq_true, List.any_eq_true, decide_eq_true_eq,
    Bool.not_eq_true', List.isEmpty_eq_false_iff, Option.isNone_iff_eq_none] at h
  obtain ⟨⟨⟨⟨⟨⟨⟨⟨⟨h1, h2⟩, h3⟩, h4⟩, h5⟩, h6⟩, h7⟩, h8⟩, h9⟩, h10⟩ := h
  refine ⟨⟨h1, h2⟩, h3, ?_, ?_, h6, ?_, ?_, ?_, ?_⟩
  · intro c hc p hp
    rcases h4 c hc p hp with hb | ⟨c', hc', hid, ho⟩
    · exact Or.inl (storedBeforeB_sound hb)
    · exact Or.inr ⟨c', hc', hid, ho⟩
  · intro c hc sn hsn
    have := h5 c hc
    rw [hsn] at this
    simp only [Bool.or_eq_true, List.any_eq_true, Bool.and_eq_true, decide_eq_true_eq] at this
    rcases this with hb | ⟨c', hc', hid, ho⟩
    · exact Or.inl (storedBeforeB_sound hb)
    · exact Or.inr ⟨c', hc', hid, ho⟩
  · intro x hx
    rcases h7 x hx with hb | ⟨c, hc, hid⟩
    · exact Or.inl (storedInB_sound hb)
    · exact Or.inr ⟨c, hc, hid⟩
  · rcases h8 with hb | ⟨c, hc, hid⟩
    · exact Or.inl (storedInB_sound hb)
    · exact Or.inr ⟨c, hc, hid⟩
  · rcases h9 with hb | ⟨c, hc, hid⟩
    · exact Or.inl (storedInB_sound hb)
    · exact Or.inr ⟨c, hc, hid⟩
  · intro c hc hne
    rcases h10 c hc with he | hn
    · exact absurd he hne
    · exact hn

/-- together with `op_crash_atomic`: whatever boundary the process dies at, what is found on disk
satisfies the predicate (given it did before and the input is well-formed) -/
theorem crash_consistent_addAll (s : Store) (acl t : Nat) (chs : List NewChange) (heads : List Nat)
    (cs : Nat) (hacl : t ≠ acl) (hb : BatchOk s t chs heads cs) (hc : Consistent s acl) (k : Nat) :
    Consistent (crashAt (Db.idle s) (traceOf (.addAll t chs heads cs)) k) acl := by
  rcases op_crash_atomic s (.addAll t chs heads cs) k with h | h
  · rw [h]; exact hc
  · rw [h]; exact consistent_preserved_addAll s acl t chs heads cs hacl hb hc

/-- non-vacuity: a concrete store after space creation, one local change added -/
example :
    let s := (exec (Db.idle {}) (traceOf (.spaceCreate 0 1 2))).committed
    Consistent s 1 ∧
    BatchOk s 2 [⟨3, ⟨2, [2], some 2, 7⟩⟩] [3] 2 ∧
    consistentB (exec (Db.idle s) (traceOf (.addAll 2 [⟨3, ⟨2, [2], some 2, 7⟩⟩] [3] 2))).committed 1 = true := by
  refine ⟨consistent_established_spaceCreate 0 1 2 (by decide), ?_, by decide⟩
  have hroot : StoredIn (exec (Db.idle {}) (traceOf (.spaceCreate 0 1 2))).committed 2 2 :=
    ⟨⟨2, [], none, 0⟩, by decide, rfl⟩
  exact {
    fresh := ⟨by intro c hc; simp only [List.mem_singleton] at hc; subst hc; decide, by simp⟩
    tree := by intro c hc; simp only [List.mem_singleton] at hc; subst hc; rfl
    prevs := by
      intro c hc p hp; simp only [List.mem_singleton] at hc; subst hc
      simp only [List.mem_singleton] at hp; subst hp
      exact Or.inl ⟨⟨2, [], none, 0⟩, by decide, rfl, by decide⟩
    snap := by
      intro c hc sn hsn; simp only [List.mem_singleton] at hc; subst hc
      cases hsn
      exact Or.inl ⟨⟨2, [], none, 0⟩, by decide, rfl, by decide⟩
    headsNe := by simp
    headsIn := by
      intro x hx; simp only [List.mem_singleton] at hx; subst hx
      exact Or.inr ⟨⟨3, ⟨2, [2], some 2, 7⟩⟩, by simp, rfl⟩
    csIn := Or.inl hroot
    root := Or.inl hroot
    noEntry := by intro c hc _; simp only [List.mem_singleton] at hc; subst hc; decide }

/-! ## after a failed write the live object agrees with storage and the same input succeeds

The live object is abstracted to what the property compares: its heads (`Live`), against the heads
entry in storage (`Agrees`). Three protocols (Store/Spec.lean):
* `writeThenSwap`           — repaired `aclList.AddRawRecord`, tree creation;
* `swapThenWriteRebuild`    — `objectTree` remote add, and local add after the repair;
* `swapThenWriteNoRollback` — what `AddRawRecord` and `AddContentWithValidator` did before the repair. -/

/-- a fault at any call of a single-transaction trace leaves the store as it was -/
theorem fault_leaves_pre (s : Store) (body : List Call) (hb : ∀ c ∈ body, c.isTxCtl = false)
    (k : Nat) (hk : k ≤ body.length + 1) :
    (execFault (Db.idle s) ([Call.begin] ++ body ++ [Call.commit]) k).committed = s := by
  cases k with
  | zero => exact tx_fault_at_begin s _
  | succ n => exact tx_fault_atomic s body hb (n + 1) (by omega) hk

/-- … so the same input, applied again, does exactly what it would have done (it succeeds and reaches
the post-state) -/
theorem retry_after_fault (s : Store) (body : List Call) (hb : ∀ c ∈ body, c.isTxCtl = false)
    (k : Nat) (hk : k ≤ body.length + 1) :
    let tr := [Call.begin] ++ body ++ [Call.commit]
    exec (Db.idle (execFault (Db.idle s) tr k).committed) tr = exec (Db.idle s) tr := by
  simp only
  rw [fault_leaves_pre s body hb k hk]

/-- write-then-swap keeps the live object in agreement with storage for every fault position and for
the fault-free run (repaired F-acl-order) -/
theorem live_agrees_after_fault_writeThenSwap (s : Store) (id : Nat) (old new : Live)
    (body : List Call) (hb : ∀ c ∈ body, c.isTxCtl = false)
    (fault : Option Nat) (hk : ∀ k, fault = some k → k ≤ body.length + 1)
    (hold : Agrees s id old)
    (hnew : Agrees (exec (Db.idle s) ([Call.begin] ++ body ++ [Call.commit])).committed id new) :
    let r := writeThenSwap s old new ([Call.begin] ++ body ++ [Call.commit]) fault
    Agrees r.1 id r.2 := by
  cases fault with
  | none => simpa [writeThenSwap, attempt] using hnew
  | some k =>
    simp only [writeThenSwap, attempt, Bool.false_eq_true, if_false]
    rw [fault_leaves_pre s body hb k (hk k rfl)]
    exact hold

/-- swap-then-write with rebuild-from-storage on failure keeps agreement as well (remote add; local
add after the repair of F-tree-local-norollback) -/
theorem live_agrees_after_fault_rebuild (s : Store) (id : Nat) (old new : Live)
    (body : List Call) (hb : ∀ c ∈ body, c.isTxCtl = false)
    (fault : Option Nat) (hk : ∀ k, fault = some k → k ≤ body.length + 1)
    (hold : Agrees s id old)
    (hnew : Agrees (exec (Db.idle s) ([Call.begin] ++ body ++ [Call.commit])).committed id new) :
    let r := swapThenWriteRebuild s id new ([Call.begin] ++ body ++ [Call.commit]) fault
    Agrees r.1 id r.2 ∧ (fault ≠ none → r.2 = old) := by
  cases fault with
  | none => exact ⟨by simpa [swapThenWriteRebuild, attempt] using hnew, by simp⟩
  | some k =>
    simp only [swapThenWriteRebuild, attempt, Bool.false_eq_true, if_false]
    rw [fault_leaves_pre s body hb k (hk k rfl)]
    obtain ⟨h, h1, h2⟩ := hold
    simp only [h1]
    exact ⟨⟨h, h1, rfl⟩, fun _ => by cases old; simp_all⟩

/-- the full statement for an arbitrary protocol `P` -/
def C10_live_agrees_full (P : Store → Nat → Live → Live → List Call → Option Nat → Store × Live) : Prop :=
  ∀ (s : Store) (id : Nat) (old new : Live) (body : List Call), (∀ c ∈ body, c.isTxCtl = false) →
    ∀ (fault : Option Nat), (∀ k, fault = some k → k ≤ body.length + 1) →
      Agrees s id old →
      Agrees (exec (Db.idle s) ([Call.begin] ++ body ++ [Call.commit])).committed id new →
      Agrees (P s id old new ([Call.begin] ++ body ++ [Call.commit]) fault).1 id
             (P s id old new ([Call.begin] ++ body ++ [Call.commit]) fault).2

/-- it holds for the two protocols of the repaired code … -/
theorem live_agrees_full_holds :
    C10_live_agrees_full (fun s _ old new tr f => writeThenSwap s old new tr f) ∧
    C10_live_agrees_full (fun s id _ new tr f => swapThenWriteRebuild s id new tr f) :=
  ⟨fun s id old new body hb fault hk hold hnew =>
      live_agrees_after_fault_writeThenSwap s id old new body hb fault hk hold hnew,
   fun s id old new body hb fault hk hold hnew =>
      (live_agrees_after_fault_rebuild s id old new body hb fault hk hold hnew).1⟩

/-- … and is FALSE for swap-then-write without rollback — the protocol of the unrepaired
`AddRawRecord` (F-acl-order) and `AddContentWithValidator` (F-tree-local-norollback). Witness
(replayed on the real code by the harness): ACL with head 1, record 4 to add, `begin` fails. -/
theorem live_agrees_unrepaired_refuted :
    ¬ C10_live_agrees_full (fun s _ _ new tr f => swapThenWriteNoRollback s new tr f) := by
  intro h
  let s : Store := (exec (Db.idle {}) (traceOf (.spaceCreate 0 1 2))).committed
  have := h s 1 ⟨[1]⟩ ⟨[4]⟩ [.insert ⟨.acl, 4⟩ (.record ⟨some 1, 2⟩), .upsertHeads 1 [4] none]
    (by decide) (some 0) (by intro k hk; cases hk; decide)
    ⟨⟨[1], none⟩, by decide, rfl⟩ ⟨⟨[4], none⟩, by decide, rfl⟩
  obtain ⟨hv, h1, h2⟩ := this
  have e : headsAt (swapThenWriteNoRollback s ⟨[4]⟩
      ([Call.begin] ++ [.insert ⟨.acl, 4⟩ (.record ⟨some 1, 2⟩), .upsertHeads 1 [4] none] ++ [Call.commit])
      (some 0)).1 1 = some ⟨[1], none⟩ := by decide
  rw [e] at h1
  cases h1
  exact absurd h2 (by decide)

end AnySync.Store
