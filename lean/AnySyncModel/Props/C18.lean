/-
C18 — All participants agree on which nodes are responsible for a space.

Only property theorems (and their non-vacuity examples) live here. The consistent-hash ring
(go-chash) is a parameter `r : Ring`; what is assumed about it is `RingOK r rf` (Spec.lean), checked
on every harness sample. Everything any-sync itself does — choosing the key (`ReplKey`), choosing the
ring members from the configuration, filtering self — is modelled as coded and proved for all inputs.
-/
import AnySyncModel.NodeConf.Lemmas

namespace AnySync.NodeConf
open AnySync.Generated.NodeConf

/-- obligation on the regenerated fragment: the extractor recognised the shapes of `ReplKey`,
`NodeIds`, `IsResponsible`, `Partition` and of the ring construction in `nodeconf.go` -/
theorem shape_ok : shapeOk = true := by decide

/-- the sync ring is created with the declared constants, over the tree-type nodes, and the constants
are accepted by `chash.Config.Validate` (replication factor ≥ 1, partition count ≥ 10), so the
construction cannot fail and the ring's replication factor is `ReplicationFactor`. -/
theorem ring_params_valid :
    ringReplicationFactor = replicationFactor ∧ ringPartitionCount = partitionCount ∧
    1 ≤ replicationFactor ∧ 10 ≤ partitionCount ∧ syncType = NodeType.tree := by decide

/-! ## ReplKey -/

/-- the slice expression in `ReplKey` never panics, for any id -/
theorem replKey_slice_in_bounds (l : List Char) : replKeyChecked l = some (replKeyL l) := by
  unfold replKeyChecked replKeyL
  split
  · rename_i i h
    simp only [dotIndex, replKeyLastDot, if_true] at h
    have := lastIndexOf_lt h
    simp only [sliceFrom, replKeySkip]
    exact if_pos (by omega)
  · rfl

/-- `ReplKey(cid + "." + k) = k` when `k` has no dot (`cid` may contain dots, be empty, …) -/
theorem replKey_suffix (cid k : String) (hk : '.' ∉ k.toList) : replKey (cid ++ "." ++ k) = k := by
  have h1 : (cid ++ "." ++ k).toList = cid.toList ++ '.' :: k.toList := by
    simp [String.toList_append]
  simp only [replKey, replKeyL, dotIndex, replKeyLastDot, if_true, h1, lastIndexOf_append_cons _ _ hk, replKeySkip]
  simp [String.ofList_toList]

/-- an id without a dot is its own replication key -/
theorem replKey_no_dot (s : String) (h : '.' ∉ s.toList) : replKey s = s := by
  simp only [replKey, replKeyL, dotIndex, replKeyLastDot, if_true, lastIndexOf_none h, String.ofList_toList]

/-- full characterisation, for every id: the key is dot-free and it is the part after the last dot
(or the whole id when there is none). -/
theorem replKey_is_last_suffix (s : String) :
    '.' ∉ (replKey s).toList ∧
    (replKey s = s ∨ ∃ cid : String, s = cid ++ "." ++ replKey s) := by
  simp only [replKey, replKeyL, dotIndex, replKeyLastDot, if_true, replKeySkip]
  cases h : lastIndexOf '.' s.toList with
  | none =>
    simp only [String.ofList_toList, true_or, and_true]
    intro hm
    have : ∀ (l : List Char), '.' ∈ l → lastIndexOf '.' l ≠ none := by
      intro l; induction l with
      | nil => simp
      | cons y ys ih =>
        intro hm; simp only [lastIndexOf]; split
        · simp
        · rename_i hn; by_cases hy : y = '.'
          · simp [hy]
          · simp only [List.mem_cons] at hm
            rcases hm with hm | hm
            · exact absurd hm.symm hy
            · exact absurd hn (ih hm)
    exact this _ hm h
  | some i =>
    obtain ⟨hno, hat⟩ := lastIndexOf_drop h
    simp only [String.toList_ofList]
    refine ⟨hno, Or.inr ⟨String.ofList (s.toList.take i), ?_⟩⟩
    apply String.toList_injective
    simp only [String.toList_append, String.toList_ofList]
    have hi := lastIndexOf_lt h
    have hc : s.toList[i] = '.' := by
      have := List.getElem?_eq_getElem hi; rw [this] at hat; exact Option.some.inj hat
    have : ".".toList = ['.'] := by simp
    rw [this, List.append_assoc, List.singleton_append, ← hc, List.getElem_cons_drop, List.take_append_drop]

/-- consequence: two ids with the same suffix get the same key, whatever precedes it -/
theorem replKey_same_suffix (c₁ c₂ k : String) (hk : '.' ∉ k.toList) :
    replKey (c₁ ++ "." ++ k) = replKey (c₂ ++ "." ++ k) ∧ replKey (c₁ ++ "." ++ k) = replKey k := by
  rw [replKey_suffix _ _ hk, replKey_suffix _ _ hk, replKey_no_dot _ hk]; exact ⟨rfl, rfl⟩

example : replKey "bafy.re.i.1a2b" = "1a2b" ∧ replKey "bafy." = "" ∧ replKey "" = "" ∧ replKey "x" = "x" := by decide

/-! ## the three queries -/

/-- A participant reports itself responsible exactly when it is in the responsible set. -/
theorem responsible_iff_member (r : Ring) (v : View) (spaceId : String) :
    isResponsible r v spaceId = true ↔ v.self ∈ responsible r v.cfg spaceId := by
  simp [isResponsible, hasSelf_iff]

/-- The peer list a participant uses is the responsible set minus itself: same members in the same
order with self removed; for a participant outside the set (a client, a non-responsible node) it is the
whole set. -/
theorem nodeIds_eq_members_minus_self (r : Ring) (v : View) (spaceId : String) :
    nodeIds r v spaceId = (responsible r v.cfg spaceId).filter (· ≠ v.self) ∧
    (∀ m, m ∈ nodeIds r v spaceId ↔ m ∈ responsible r v.cfg spaceId ∧ m ≠ v.self) ∧
    (v.self ∉ responsible r v.cfg spaceId → nodeIds r v spaceId = responsible r v.cfg spaceId) := by
  refine ⟨dropSelf_eq_filter _ _, ?_, ?_⟩
  · intro m; simp [nodeIds, dropSelf_eq_filter]
  · intro h
    simp only [nodeIds, dropSelf_eq_filter, List.filter_eq_self]
    intro m hm; simp; rintro rfl; exact h hm

/-- the participant-relative observations determine the set: `NodeIds` plus self-if-responsible has
exactly the members of the responsible set -/
theorem view_reconstructs_set (r : Ring) (v : View) (spaceId : String) (m : Nat) :
    (m ∈ nodeIds r v spaceId ∨ (m = v.self ∧ isResponsible r v spaceId = true)) ↔
      m ∈ responsible r v.cfg spaceId := by
  rw [(nodeIds_eq_members_minus_self r v spaceId).2.1, responsible_iff_member]
  constructor
  · rintro (⟨h, _⟩ | ⟨rfl, h⟩) <;> exact h
  · intro h
    by_cases hm : m = v.self
    · exact Or.inr ⟨hm, hm ▸ h⟩
    · exact Or.inl ⟨h, hm⟩

/-- **Agreement.** Two participants whose configurations have the same sync-node *set* (node order
permuted, nodes without the tree type added or removed, other fields different) compute the same
responsible list for ids with the same replication-key suffix — whoever they are. -/
theorem views_agree (r : Ring) (rf : Nat) (hr : RingOK r rf) (v₁ v₂ : View) (id₁ id₂ : String)
    (hnd : (syncNodes v₁.cfg).Nodup) (hcfg : (syncNodes v₁.cfg).Perm (syncNodes v₂.cfg))
    (hkey : replKey id₁ = replKey id₂) :
    responsible r v₁.cfg id₁ = responsible r v₂.cfg id₂ ∧
    (isResponsible r v₁ id₁ = true ↔ v₁.self ∈ responsible r v₂.cfg id₂) ∧
    (∀ m, m ∈ nodeIds r v₁ id₁ ↔ m ∈ responsible r v₂.cfg id₂ ∧ m ≠ v₁.self) := by
  have h : responsible r v₁.cfg id₁ = responsible r v₂.cfg id₂ := by
    simp only [responsible, hkey]; exact hr.setFun _ _ _ hnd hcfg
  refine ⟨h, ?_, ?_⟩
  · rw [responsible_iff_member, h]
  · intro m; rw [(nodeIds_eq_members_minus_self r v₁ id₁).2.1, h]

/-- the hypothesis of `views_agree` holds when one configuration is a permutation of the other plus
nodes that do not have the tree type -/
theorem syncNodes_perm_of_extra (c₁ c₂ extra : Config) (hp : c₂.Perm (c₁ ++ extra))
    (hx : ∀ n ∈ extra, n.hasType syncType = false) : (syncNodes c₁).Perm (syncNodes c₂) := by
  have := syncNodes_perm hp
  rw [syncNodes_append, syncNodes_of_none hx, List.append_nil] at this
  exact this.symm

/-- **Count and distinctness.** The responsible set has `min(ReplicationFactor, #sync nodes)` members,
all distinct, each of them a node of the configuration that has the tree type. -/
theorem count_and_distinct (r : Ring) (hr : RingOK r ringReplicationFactor) (cfg : Config) (spaceId : String)
    (hnd : (syncNodes cfg).Nodup) :
    (responsible r cfg spaceId).length = min replicationFactor (syncNodes cfg).length ∧
    (responsible r cfg spaceId).Nodup ∧
    ∀ m ∈ responsible r cfg spaceId, ∃ n ∈ cfg, n.hasType NodeType.tree = true ∧ n.id = m := by
  refine ⟨?_, hr.nodup _ _ hnd, ?_⟩
  · rw [responsible, hr.length _ _ hnd]; rfl
  · intro m hm
    have := mem_syncNodes.mp (hr.subset _ _ _ hm)
    simpa [syncType, syncRingTypeIsTree] using this

/-- exactly `min(rf, #sync)` participants among the sync nodes report themselves responsible, and no
participant outside the sync-node set ever does -/
theorem only_sync_nodes_responsible (r : Ring) (hr : RingOK r ringReplicationFactor) (v : View) (spaceId : String)
    (h : isResponsible r v spaceId = true) : v.self ∈ syncNodes v.cfg :=
  hr.subset _ _ _ ((responsible_iff_member r v spaceId).mp h)

/-- `Partition` depends on the suffix only -/
theorem partition_by_suffix (r : Ring) (id₁ id₂ : String) (h : replKey id₁ = replKey id₂) :
    partition r id₁ = partition r id₂ := by simp [partition, h]

/-! ## non-vacuity: the assumptions are satisfiable and the statements are not trivially true -/

/-- a ring with the assumed properties exists (for every replication factor) -/
theorem ringOK_satisfiable : ∃ r, RingOK r ringReplicationFactor := ⟨toyRing _, toyRing_ok _⟩

private def cfgA : Config :=
  [⟨1, [.tree]⟩, ⟨2, [.file, .tree]⟩, ⟨3, [.coordinator]⟩, ⟨4, [.tree, .consensus]⟩, ⟨5, [.tree]⟩, ⟨6, []⟩]
private def cfgB : Config :=
  [⟨9, [.fileV2]⟩, ⟨5, [.tree]⟩, ⟨4, [.consensus, .tree]⟩, ⟨3, [.coordinator]⟩, ⟨2, [.tree]⟩, ⟨1, [.tree, .tree]⟩]

example : syncNodes cfgA = [1, 2, 4, 5] ∧ syncNodes cfgB = [5, 4, 2, 1] := by decide
example : responsible (toyRing 3) cfgA "bafy.ab" = [4, 5, 1] ∧ responsible (toyRing 3) cfgB "zzz.q.cd" = [4, 5, 1] := by decide
example : nodeIds (toyRing 3) ⟨4, cfgA⟩ "bafy.ab" = [5, 1] ∧ isResponsible (toyRing 3) ⟨4, cfgA⟩ "bafy.ab" = true ∧
    nodeIds (toyRing 3) ⟨2, cfgB⟩ "bafy.ab" = [4, 5, 1] ∧ isResponsible (toyRing 3) ⟨2, cfgB⟩ "bafy.ab" = false := by decide

end AnySync.NodeConf
