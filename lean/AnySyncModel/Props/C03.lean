/-
C03 — the ACL log is a tamper-evident chain with deterministic, atomically updated state.

Model: `Acl/List.lean` (`AddRawRecord`, `AddRawRecords`, `build` over the state machine of
`Acl/State.lean`), symbolic hashes and signatures (see the header of `Acl/List.lean`).
-/
import AnySyncModel.Acl.ListLemmas
import AnySyncModel.Acl.Chain
import AnySyncModel.Acl.Requests
import AnySyncModel.Acl.KeepLemmas
import AnySyncModel.Acl.KeepEq
import AnySyncModel.Generated.AclFacts

namespace AnySync.Acl

/-- the extractor found `storage.AddAll` before `setState` in `AddRawRecord` (fix F-acl-order) -/
theorem write_before_swap_present : Generated.AclFacts.writeBeforeSwap = true ∧
    Generated.AclFacts.oneRotationPerRecord = true ∧ Generated.AclFacts.shapeOk = true := by
  decide

def lcFixed : LCfg := ⟨true⟩

/-! ## acceptance -/

/-- A record is accepted **iff** it is new, the acceptor signature is the network key's (where the
verifier requires one), the author signature is the author's own over these bytes, the id is the
hash of the bytes, the state machine accepts the content on top of the current state, and the
storage took it. -/
theorem accept_iff_chain (cfg : Cfg) (lc : LCfg) (m : Mode) (ok : Bool) (l : AclList) (raw : Raw) :
    (addRaw cfg lc m ok l raw).2 = none ↔
      raw.id ∉ l.ids ∧
      (m.validate = false → raw.accBy = some m.network) ∧
      raw.sigBy = some raw.body.author ∧
      raw.id = raw.cid ∧
      (∃ s', applyRecord cfg m.validate l.state raw.id raw.body = .ok s') ∧
      ok = true := by
  constructor
  · intro h
    rcases addRaw_cases cfg lc m ok l raw with ⟨e, he⟩ | ⟨s', hs, hn, hu, hr⟩
    · rw [he] at h; cases h
    · rcases hr with ⟨hok, _⟩ | ⟨_, _, he⟩
      · refine ⟨hn, ?_, ?_, ?_, ⟨s', hs⟩, hok⟩
        all_goals
          unfold unmarshal at hu
          repeat' (split at hu <;> try contradiction)
          simp_all
      · rw [he] at h; cases h
  · rintro ⟨h1, h2, h3, h4, ⟨s', h5⟩, h6⟩
    have hu : unmarshal m raw = none := by
      have hp : parses raw.body.author = true := by
        unfold applyRecord at h5
        split at h5
        · cases h5
        · simp_all
      unfold unmarshal
      cases hv : m.validate <;> simp_all
    subst h6
    unfold addRaw
    simp only [List.contains_iff_mem, h1, if_false, hu, h5]
    cases lc.writeBeforeSwap <;> simp

/-- an accepted record extends the current head: its prev-id is the id of the last accepted record -/
theorem accept_extends_head (cfg : Cfg) (lc : LCfg) (m : Mode) (ok : Bool) (l : AclList) (raw : Raw)
    (h : (addRaw cfg lc m ok l raw).2 = none) : raw.body.prev = l.state.last := by
  obtain ⟨_, _, _, _, ⟨s', hs⟩, _⟩ := (accept_iff_chain cfg lc m ok l raw).1 h
  unfold applyRecord at hs
  repeat' (split at hs <;> try contradiction)
  simp_all

/-- tampering with id, bytes (hash), author signature, or — for lists that check it — the acceptor
signature makes the record unacceptable, whatever else it contains -/
theorem tampered_rejected (cfg : Cfg) (lc : LCfg) (m : Mode) (ok : Bool) (l : AclList) (raw : Raw)
    (h : raw.id ≠ raw.cid ∨ raw.sigBy ≠ some raw.body.author ∨
         (m.validate = false ∧ raw.accBy ≠ some m.network) ∨ raw.body.prev ≠ l.state.last) :
    (addRaw cfg lc m ok l raw).2 ≠ none := by
  intro hacc
  have hp := accept_extends_head cfg lc m ok l raw hacc
  obtain ⟨_, h2, h3, h4, _, _⟩ := (accept_iff_chain cfg lc m ok l raw).1 hacc
  rcases h with h | h | ⟨hv, h⟩ | h
  · exact h h4
  · exact h h3
  · exact h (h2 hv)
  · exact h hp

/-! ## a rejected record changes nothing -/

/-- Full statement: whatever the reason of the rejection — duplicate, signatures, id, chain,
content validation of any of the contents, or a failing storage write — list, state, storage and
log are exactly what they were. -/
def C03_reject_is_noop_full (lc : LCfg) : Prop :=
  ∀ (cfg : Cfg) (m : Mode) (ok : Bool) (l : AclList) (raw : Raw) (e : LErr),
    (addRaw cfg lc m ok l raw).2 = some e → (addRaw cfg lc m ok l raw).1 = l

theorem reject_is_noop : C03_reject_is_noop_full lcFixed := by
  intro cfg m ok l raw e h
  rcases addRaw_cases cfg lcFixed m ok l raw with ⟨e', he⟩ | ⟨s', _, _, _, hr⟩
  · rw [he]
  · rcases hr with ⟨_, he⟩ | ⟨_, hw, _⟩
    · rw [he] at h; cases h
    · cases hw

/-- F-acl-order: with the state swapped before the storage write, a failing write leaves the live
list ahead of its storage although the caller was told the record was rejected -/
theorem reject_is_noop_unfixed_refuted : ¬ C03_reject_is_noop_full ⟨false⟩ := by
  intro h
  have := h ⟨false, true, true, true, true⟩ ⟨true, 7⟩ false (rootList 0 none)
    ⟨1, 1, some 0, none, ⟨0, 0, [.opt 1]⟩⟩ .storage rfl
  revert this; decide

/-- a record whose k-th content is refused leaves no effect of the contents before it -/
theorem multi_content_atomic (cfg : Cfg) (m : Mode) (ok : Bool) (l : AclList) (raw : Raw)
    (pre post : List Content) (c : Content) (s1 : State) (e : Err)
    (hc : raw.body.contents = pre ++ c :: post)
    (hpre : applyContents cfg m.validate l.state raw.body.author raw.id pre = .ok s1)
    (hbad : applyContent cfg m.validate s1 raw.body.author raw.id c = .error e) :
    (addRaw cfg lcFixed m ok l raw).1 = l := by
  rcases addRaw_cases cfg lcFixed m ok l raw with ⟨e', he⟩ | ⟨s', hs, _, _, _⟩
  · rw [he]
  · exfalso
    unfold applyRecord at hs
    repeat' (split at hs <;> try contradiction)
    rename_i s'' happ
    rw [hc, applyContents_append, hpre] at happ
    simp only [applyContents, hbad] at happ
    cases happ

/-! ## the state is a function of the accepted record sequence -/

/-- `Consistent`: state = fold of `ApplyRecord` over the accepted records from the root state,
storage = accepted ids, ids = root :: log ids. It holds of a fresh list and is preserved by
`AddRawRecord`, accepted or not. -/
theorem consistent_root (cfg : Cfg) (m : Mode) (owner : Nat) (opts : Option Nat) :
    Consistent cfg m (applyRoot owner opts) (rootList owner opts) :=
  ⟨rfl, rfl, rfl⟩

theorem consistent_addRaw (cfg : Cfg) (m : Mode) (ok : Bool) (root : State) (l : AclList) (raw : Raw)
    (h : Consistent cfg m root l) : Consistent cfg m root (addRaw cfg lcFixed m ok l raw).1 := by
  rcases addRaw_cases cfg lcFixed m ok l raw with ⟨e', he⟩ | ⟨s', hs, _, _, hr⟩
  · rw [he]; exact h
  · rcases hr with ⟨_, he⟩ | ⟨_, hw, _⟩
    · rw [he]
      refine ⟨?_, ?_, ?_⟩
      · simp only [replay_append, h.fold, Option.bind, replay, hs]
      · simp [h.stored]
      · simp [h.idsLog]
    · cases hw

theorem consistent_addRaws (cfg : Cfg) (m : Mode) (root : State) (rs : List Raw) : ∀ (l : AclList),
    Consistent cfg m root l → Consistent cfg m root (addRaws cfg lcFixed m l rs).1 := by
  induction rs with
  | nil => intro l h; exact h
  | cons r rest ih =>
    intro l h
    have h1 := consistent_addRaw cfg m true root l r h
    unfold addRaws
    split
    · rename_i l' heq; rw [heq] at h1; exact ih l' h1
    · rename_i l' heq; rw [heq] at h1; exact ih l' h1
    · rename_i l' e _ heq; rw [heq] at h1; exact h1

/-- **state_is_fold**: however a list got where it is — records one at a time, in batches, with
rejected records in between — its state is the fold of `ApplyRecord` over its accepted records, and
rebuilding from its storage (`build` = the same fold over the stored records) gives the same
state. Two lists (same verifier kind) with the same accepted records are in the same state. -/
theorem state_is_fold (cfg : Cfg) (m : Mode) (owner : Nat) (opts : Option Nat)
    (batches : List (List Raw)) :
    let l := batches.foldl (fun l rs => (addRaws cfg lcFixed m l rs).1) (rootList owner opts)
    replay cfg m.validate (applyRoot owner opts) l.log = some l.state ∧ l.stored = l.ids := by
  have : ∀ (l0 : AclList), Consistent cfg m (applyRoot owner opts) l0 →
      Consistent cfg m (applyRoot owner opts)
        (batches.foldl (fun l rs => (addRaws cfg lcFixed m l rs).1) l0) := by
    induction batches with
    | nil => intro l0 h; exact h
    | cons b t ih => intro l0 h; exact ih _ (consistent_addRaws cfg m _ b l0 h)
  have h := this _ (consistent_root cfg m owner opts)
  exact ⟨h.fold, h.stored⟩

theorem same_log_same_state (cfg : Cfg) (m : Mode) (root : State) (l1 l2 : AclList)
    (h1 : Consistent cfg m root l1) (h2 : Consistent cfg m root l2) (hl : l1.log = l2.log) :
    l1.state = l2.state ∧ l1.ids = l2.ids ∧ l1.stored = l2.stored := by
  have := h1.fold; rw [hl, h2.fold] at this
  refine ⟨(Option.some.inj this).symm, ?_, ?_⟩
  · rw [h1.idsLog, h2.idsLog, hl]
  · rw [h1.stored, h2.stored, h1.idsLog, h2.idsLog, hl]

/-- batches compose: feeding `a ++ b` is feeding `a` then `b` (when `a` goes through) -/
theorem batch_eq_one_at_a_time (cfg : Cfg) (lc : LCfg) (m : Mode) (a b : List Raw) : ∀ (l : AclList),
    (addRaws cfg lc m l a).2 = none →
    addRaws cfg lc m l (a ++ b) = addRaws cfg lc m (addRaws cfg lc m l a).1 b := by
  induction a with
  | nil => intro l _; rfl
  | cons r rest ih =>
    intro l h
    have e1 : ∀ xs, addRaws cfg lc m l (r :: xs) =
        (match addRaw cfg lc m true l r with
         | (l', none) => addRaws cfg lc m l' xs
         | (l', some .exists_) => addRaws cfg lc m l' xs
         | (l', some e) => (l', some e)) := fun xs => by rw [addRaws]; rfl
    simp only [List.cons_append]
    rw [e1 (rest ++ b)]
    rw [e1 rest] at h ⊢
    generalize addRaw cfg lc m true l r = res at h ⊢
    obtain ⟨l', oe⟩ := res
    cases oe with
    | none => exact ih l' h
    | some e =>
      cases e with
      | exists_ => exact ih l' h
      | _ => cases h

/-- catching up: records the list already has are skipped without any effect, so a served range
that starts early (as `RecordsAfter` does) is as good as the exact missing suffix -/
theorem catch_up_skips_known (cfg : Cfg) (lc : LCfg) (m : Mode) (known rest : List Raw) : ∀ (l : AclList),
    (∀ r ∈ known, r.id ∈ l.ids) →
    addRaws cfg lc m l (known ++ rest) = addRaws cfg lc m l rest := by
  induction known with
  | nil => intro l _; rfl
  | cons r t ih =>
    intro l h
    have hr : addRaw cfg lc m true l r = (l, some .exists_) := by
      unfold addRaw; simp [h r List.mem_cons_self]
    simp only [List.cons_append]
    rw [addRaws, hr]
    exact ih l (fun x hx => h x (List.mem_cons_of_mem _ hx))

/-! ## rebuilding from storage does not depend on the order index -/

/-- an order-index scan that fails (unreadable leftover document, broken index) sends `loadRecords`
to the authoritative head→root PrevId walk — it does not fail the build -/
theorem load_records_scan_error_falls_back (walk : Option (List Item)) (rootId head : Nat) :
    loadRecords none walk rootId head = walk := rfl

/-- whatever the order-index scan returns — an error, leftover or foreign documents, gaps,
duplicates, a wrong order, nothing — `loadRecords` yields exactly the PrevId chain from the head,
provided the head entry and the chain are intact (the walk succeeds), every scanned item passed
verification and is the document `Get` returns for its id, and the root has no PrevId -/
theorem load_records_scan_irrelevant (get : Nat → Option Item) (scan : Option (List Item))
    (rootId head fuel : Nat) (chain : List Item)
    (hwalk : walkUp get fuel head = some chain)
    (hver : ∀ l, scan = some l → ∀ it ∈ l, get it.id = some it)
    (hroot : ∀ it, get rootId = some it → it.prev = none)
    (hfuel : ∀ l, scan = some l → l.length ≤ fuel) :
    loadRecords scan (walkUp get fuel head) rootId head = some chain :=
  loadRecords_eq_walk get scan rootId head fuel chain hwalk hver hroot hfuel

/-! ## no dependence on Go map iteration order -/

/-- requestRecords and pendingRequests stay in bijection across every accepted record (the record
id being fresh, as a hash is), from the root on -/
theorem requests_pending_bijection (cfg : Cfg) (hone : cfg.oneRotationPerRecord = true)
    (s s' : State) (rec : Nat) (r : Record)
    (hi : ReqInv s) (hs : AMap.Sorted s.requests) (hk : s.keys.Nodup)
    (hfresh : s.requests.find? rec = none)
    (happ : applyRecord cfg true s rec r = .ok s') :
    ReqInv s' ∧ AMap.Sorted s'.requests ∧ s'.keys.Nodup :=
  reqInv_record cfg hone s s' rec r hi hs hk hfresh happ

/-- … and, with fix F-acl-double-rotation, `readKeyChanges` never lists a record twice (the keys
map is indexed by record id, so a duplicate would mean an overwritten key set) -/
theorem requests_pending_bijection_root (owner : Nat) (opts : Option Nat) :
    ReqInv (applyRoot owner opts) ∧ AMap.Sorted (applyRoot owner opts).requests ∧
    (applyRoot owner opts).keys.Nodup :=
  reqInv_root owner opts

/-- hence at most one request per account: the only place where the code picks "the first"
element of a Go map by a predicate (`applyInviteJoinWithoutApprove` over `requestRecords`) has at
most one candidate, so the resulting state does not depend on map iteration order -/
theorem one_request_per_account (s : State) (h : ReqInv s) (r1 r2 : Nat) (q1 q2 : Request)
    (h1 : s.requests.find? r1 = some q1) (h2 : s.requests.find? r2 = some q2)
    (ha : q1.acc = q2.acc) : r1 = r2 :=
  h.unique r1 r2 q1 q2 h1 h2 ha

/-! ## validating and non-validating lists agree on accepted records -/

/-- what the consensus node (full validation) accepted, a client that only checks the acceptor
signature applies with the same result -/
theorem novalidate_agrees (cfg : Cfg) (s s' : State) (rec : Nat) (r : Record)
    (h : applyRecord cfg true s rec r = .ok s') : applyRecord cfg false s rec r = .ok s' :=
  applyRecord_novalidate cfg s s' rec r h

/-- **shrink_invariant**: the memory-saving partial decode (`unmarshalAclDataKeepIdentity`: inside
every read key change, standalone or nested in an AccountRemove, only the observer's own
`AclEncryptedReadKey` is kept) does not change what a non-validating list does with the record —
neither the verdict nor the state. (The byte-level fast path of keepidentity.go is trusted to equal
`fullDecodeFilter`; the repo fuzzes that.) -/
theorem shrink_invariant (cfg : Cfg) (s : State) (rec me : Nat) (r : Record) :
    applyRecord cfg false s rec (shrinkRecord me r) = applyRecord cfg false s rec r :=
  applyRecord_shrink cfg s rec me r

/-- what consensus accepted (full decode, full validation) yields, on a client that decodes
partially and does not validate, the same state -/
theorem client_view_agrees (cfg : Cfg) (s s' : State) (rec me : Nat) (r : Record)
    (h : applyRecord cfg true s rec r = .ok s') :
    applyRecord cfg false s rec (shrinkRecord me r) = .ok s' := by
  rw [shrink_invariant]; exact novalidate_agrees cfg s s' rec r h

/-! ## the byte-level fast path of the partial decode (keepidentity.go) -/

/-- **totality**: on every byte string, for every `isOurs` predicate and every element decoder, the
strict fast path `keepIdentityFast` neither panics (every `d[i:]` it evaluates is in bounds) nor
loops forever (every iteration consumes at least one byte): it returns a message or defers to the
full decode. -/
theorem keep_fast_total (dec : Keep.Fast.ErkDecoder) (isOurs : Keep.Bytes → Bool) (d : Keep.Bytes) :
    Keep.Fast.keepIdentityFast dec isOurs d ≠ .panic ∧ Keep.Fast.keepIdentityFast dec isOurs d ≠ .hang :=
  Keep.keepIdentityFast_safe dec isOurs d

/-- a successful tag / payload read moves strictly forward and stays inside the buffer (this is what
a dropped `n < 0` check in `readBytes` breaks) -/
theorem keep_reads_progress (d : Keep.Bytes) (i : Int) (h0 : 0 ≤ i) (h1 : i ≤ d.length) :
    (∀ f wt ni, Keep.Fast.readTag d i = .ok (f, wt, ni) → i < ni ∧ ni ≤ d.length) ∧
    (∀ p ni, Keep.Fast.readBytes d i = .ok (p, ni) → i < ni ∧ ni ≤ d.length) :=
  ⟨(Keep.readTag_spec d i h0 h1).2, (Keep.readBytes_spec d i h0 h1).2⟩

/-- Full statement of the equivalence the partial decode relies on: whenever the strict fast path
does not bail out, the generated decoders followed by `filterAccountKeys` succeed with the same
message. (`other` = the fourteen generated decoders of the content variants without read keys;
well-formed bytes: every element below 256, buffer shorter than 2^63.) -/
def C03_keep_fast_eq_full : Prop :=
  ∀ (other : Int → Keep.Bytes → Bool) (isOurs : Keep.Bytes → Bool) (d : Keep.Bytes) (out : List Keep.Cnt),
    (∀ x ∈ d, x < 256) → d.length < 2 ^ 63 →
    Keep.fast isOurs d = .ok out → Keep.fullDecodeFilter other isOurs d = some out

/-- **keepIdentityFast = fullDecodeFilter wherever the fast path does not bail out** — proved over the
protobuf wire grammar: protowire and the generated varint loops read the same tags and lengths on
every input protowire accepts, and each strict loop of the fast path is simulated by the generated
message loop of the same level (element, read key change, account remove, content value, data). -/
theorem keep_fast_eq_full : C03_keep_fast_eq_full :=
  fun other isOurs d out hd hlen h => Keep.fast_eq_full other isOurs d out hd hlen h

/-! ## non-vacuity -/

/-- root 0, records 1 and 2; a scan with a leftover item, a scan in the wrong order and a failing
scan all load the same chain as the clean scan -/
def demoGet : Nat → Option Item
  | 0 => some ⟨0, none, none⟩
  | 1 => some ⟨1, some 0, some ⟨0, 0, [.opt 1]⟩⟩
  | 2 => some ⟨2, some 1, some ⟨0, 1, [.nop]⟩⟩
  | _ => none

example :
    let chain := [⟨0, none, none⟩, ⟨1, some 0, some ⟨0, 0, [.opt 1]⟩⟩, ⟨2, some 1, some ⟨0, 1, [.nop]⟩⟩]
    walkUp demoGet 5 2 = some chain ∧
    loadRecords (some chain) (walkUp demoGet 5 2) 0 2 = some chain ∧
    loadRecords (some (chain ++ [⟨9, none, none⟩])) (walkUp demoGet 5 2) 0 2 = some chain ∧
    loadRecords (some chain.reverse) (walkUp demoGet 5 2) 0 2 = some chain ∧
    loadRecords none (walkUp demoGet 5 2) 0 2 = some chain := by decide

/-- a canonical read key change with two account keys, the second one ours -/
example : Keep.fast (fun b => b == [0x0b])
    [0x0a, 0x14, 0x3a, 0x12, 0x0a, 0x06, 0x0a, 0x01, 0x0a, 0x12, 0x01, 0x01, 0x0a, 0x06, 0x0a, 0x01, 0x0b, 0x12, 0x01, 0x02, 0x12, 0x00]
    = .ok [.rkc ⟨[⟨[0x0b], [0x02]⟩], [], [], [], []⟩] := by decide

/-- … the full decode + filter agrees on it, and a trailing unknown field makes the fast path defer -/
example : Keep.fullDecodeFilter (fun _ _ => true) (fun b => b == [0x0b])
    [0x0a, 0x14, 0x3a, 0x12, 0x0a, 0x06, 0x0a, 0x01, 0x0a, 0x12, 0x01, 0x01, 0x0a, 0x06, 0x0a, 0x01, 0x0b, 0x12, 0x01, 0x02, 0x12, 0x00]
    = some [.rkc ⟨[⟨[0x0b], [0x02]⟩], [], [], [], []⟩] := by decide

example : Keep.fast (fun b => b == [0x0b]) [0x0a, 0x02, 0x3a, 0x00, 0x40, 0x01] = .bail := by decide


example : shrinkRecord 3 ⟨0, 0, [.rkc ⟨true, true, true, [0, 3, 4], [1]⟩, .add [(5, 3)]]⟩
    = ⟨0, 0, [.rkc ⟨true, true, true, [3], [1]⟩, .add [(5, 3)]]⟩ := by decide


example : (addRaw ⟨false, true, true, true, true⟩ lcFixed ⟨false, 7⟩ true (rootList 0 none)
    ⟨1, 1, some 0, some 7, ⟨0, 0, [.add [(1, 3)], .inv 1 4 0 true]⟩⟩).2 = none := by decide

example : (addRaw ⟨false, true, true, true, true⟩ lcFixed ⟨false, 7⟩ true (rootList 0 none)
    ⟨1, 1, some 0, some 8, ⟨0, 0, [.add [(1, 3)]]⟩⟩).2 = some .acceptor := by decide

example : (addRaw ⟨false, true, true, true, true⟩ lcFixed ⟨true, 7⟩ true (rootList 0 none)
    ⟨1, 1, some 0, none, ⟨0, 0, [.add [(1, 3)], .pc 1 1]⟩⟩) = (rootList 0 none, some (.apply .perm)) := by decide

end AnySync.Acl
