/-
C12 — key-value store: last-writer-wins convergence and authentic entries only.
Property theorems + non-vacuity examples only; helper lemmas live in `KV/Lemmas.lean`.
The model (`KV/Model.lean`) describes the code AFTER fix-kv-relabel, fix-kv-noperm, fix-kv-tsrange.
-/
import AnySyncModel.KV.Lemmas

namespace AnySync.KV.C12
open AnySync.KV

/-! ## 1. LWW is a semilattice; contents are independent of order, grouping, repetition -/

/-- `merge` (pointwise max-by-timestamp) is commutative, associative, idempotent -/
theorem lww_semilattice :
    (∀ a b : SMap, merge a b = merge b a) ∧
    (∀ a b c : SMap, merge (merge a b) c = merge a (merge b c)) ∧
    (∀ a : SMap, merge a a = a) :=
  ⟨merge_comm, merge_assoc, merge_idem⟩

example : merge (single ⟨1, 7, 7, 5, true, true, true, true, true⟩) (single ⟨2, 7, 7, 9, true, true, true, true, true⟩) 7
    = some (9, 2) := by decide

/-- After ANY history of pushed / pulled batches and local writes, with ANY storage faults, the
contents are the LWW merge of the values received (acceptable values of the writes that did not
fail). Hypotheses: distinct timestamps per slot (`TsDistinct`), local clock inside the exact range. -/
theorem contents_eq_lww_of_received (U : List Val) (hd : TsDistinct U) (ops : List Op)
    (hU : ∀ o ∈ ops, ∀ v ∈ opVals o, v ∈ U) (hr : LocalRange ops) :
    view (run State.init ops).store = ofList (received State.init ops) := by
  have := (run_view U hd ops State.init (good_init U) hU hr).1
  rw [this, view_init, merge_empty_left]

/-- Any two fault-free sequences of batches carrying the same SET of values (any permutation, any
batching, any repetition) leave the same contents, namely the merge of the acceptable ones. -/
theorem setRaw_any_order (U : List Val) (hd : TsDistinct U) (bs1 bs2 : List (List Val))
    (h1 : ∀ b ∈ bs1, ∀ v ∈ b, v ∈ U) (h2 : ∀ b ∈ bs2, ∀ v ∈ b, v ∈ U)
    (hsame : ∀ v, v ∈ bs1.flatten ↔ v ∈ bs2.flatten) :
    view (bs1.foldl (fun s b => (setRaw .none b s).1) State.init).store =
      view (bs2.foldl (fun s b => (setRaw .none b s).1) State.init).store ∧
    view (bs1.foldl (fun s b => (setRaw .none b s).1) State.init).store =
      ofList (bs1.flatten.filter acceptable) := by
  have e1 := (foldl_setRaw_view U hd bs1 State.init (good_init U) h1).1
  have e2 := (foldl_setRaw_view U hd bs2 State.init (good_init U) h2).1
  rw [e1, e2, view_init, merge_empty_left, merge_empty_left]
  refine ⟨ofList_congr _ _ ?_, rfl⟩
  intro v; simp only [List.mem_filter]; rw [hsame v]

example : TsDistinct [⟨1, 7, 7, 5, true, true, true, true, true⟩, ⟨2, 7, 7, 9, true, true, true, true, true⟩] := by
  intro v hv w hw hs ht
  simp only [List.mem_cons, List.mem_nil_iff, or_false] at hv hw
  rcases hv with rfl | rfl <;> rcases hw with rfl | rfl <;> simp_all

/-- the hypothesis "distinct timestamps per slot" cannot be dropped: with a tie the survivor is the
first arrival (the model mirrors the code's `>=`), so two orders disagree -/
theorem tie_is_order_dependent :
    ∃ v w : Val, v.slot = w.slot ∧ v.ts = w.ts ∧ acceptable v = true ∧ acceptable w = true ∧
      view ((setRaw .none [w] (setRaw .none [v] State.init).1).1).store ≠
      view ((setRaw .none [v] (setRaw .none [w] State.init).1).1).store := by
  refine ⟨⟨1, 7, 7, 5, true, true, true, true, true⟩, ⟨2, 7, 7, 5, true, true, true, true, true⟩, rfl, rfl, by decide, by decide, ?_⟩
  intro h
  have := congrFun h 7
  revert this; decide

/-! ## 2. one exchange equalises -/

/-- the index is a function of the contents (so equal contents advertise equal indexes / hashes) -/
theorem index_determined_by_contents (s t : State) (hs : Consistent s) (ht : Consistent t)
    (h : view s.store = view t.store) : ∀ k, lookup s.index k = lookup t.index k := by
  intro k
  rw [hs.1 k, ht.1 k]
  have := congrFun h k
  unfold view at this; unfold indexOf
  cases h1 : lookup s.store k <;> cases h2 : lookup t.store k <;> simp [h1, h2, entryOf] at this ⊢
  exact congrArg headOf this.1

/-- One `syncWithPeer` between two consistent stores holding authentic rows: afterwards both hold
the merge of what either held, hence they are equal, and so are their indexes.
(The id classification computed by the ldiff recursion is taken as exact — that is C07.) -/
theorem one_exchange_equalises (U : List Val) (hd : TsDistinct U) (a b : State)
    (ha : Good U a) (hb : Good U b) (haa : Authentic a.store) (hab : Authentic b.store) :
    view (exchange a b).1.store = merge (view a.store) (view b.store) ∧
    view (exchange a b).2.store = merge (view a.store) (view b.store) ∧
    Consistent (exchange a b).1 ∧ Consistent (exchange a b).2 ∧
    (∀ k, lookup (exchange a b).1.index k = lookup (exchange a b).2.index k) := by
  have hpushU : ∀ v ∈ valuesAt a.store (pushIds a.index b.index), v ∈ U := by
    intro v hv; obtain ⟨k, hk⟩ := valuesAt_mem _ _ v hv; exact ha.rows k v hk
  have hpullU : ∀ v ∈ valuesAt b.store (pullIds a.index b.index), v ∈ U := by
    intro v hv; obtain ⟨k, hk⟩ := valuesAt_mem _ _ v hv; exact hb.rows k v hk
  -- server side
  have hB : view (exchange a b).2.store = merge (view a.store) (view b.store) ∧ Good U (exchange a b).2 := by
    simp only [exchange]
    refine ⟨?_, setRaw_good U .none _ b hb hpushU⟩
    rcases setRaw_view U hd .none _ b hb hpushU with ⟨h1, _⟩ | ⟨_, h2⟩
    · exact absurd h1 (setRaw_none_ne_err _ b)
    · rw [h2, filter_acceptable_of_authentic a.store haa, merge_pushed U hd a b ha hb, merge_comm]
  -- client side
  have hA : view (exchange a b).1.store = merge (view a.store) (view b.store) ∧ Good U (exchange a b).1 := by
    simp only [exchange]
    have hch : ∀ c ∈ chunks (applyBatchSize - 1) (valuesAt b.store (pullIds a.index b.index)).length
        (valuesAt b.store (pullIds a.index b.index)), ∀ v ∈ c, v ∈ U :=
      fun c hc v hv => hpullU v (chunks_mem _ _ _ (Nat.le_refl _) c hc v hv)
    have := foldl_setRaw_view U hd _ a ha hch
    refine ⟨?_, this.2⟩
    rw [this.1, chunks_flatten _ _ _ (Nat.le_refl _), filter_acceptable_of_authentic b.store hab]
    exact merge_pushed U hd b a hb ha
  refine ⟨hA.1, hB.1, hA.2.cons, hB.2.cons, ?_⟩
  exact index_determined_by_contents _ _ hA.2.cons hB.2.cons (hA.1.trans hB.1.symm)

/-! ## 3. advertised index == index rebuilt from the store, always -/

/-- After every operation of any history — including writes hit by a storage fault at any point of
the transaction — the in-memory index and the persisted heads entry both equal the index rebuilt
from the collection. No hypothesis on timestamps or on the values. -/
theorem index_eq_store_always (ops : List Op) : Consistent (run State.init ops) :=
  run_consistent ops State.init (good_init []).cons

/-- the single-step form, from any consistent state, for every fault position -/
theorem index_eq_store_step (f : Fault) (batch : List Val) (s : State) (h : Consistent s) :
    Consistent (setRaw f batch s).1 ∧ ∀ own v, Consistent (localSet f own v s).1 :=
  ⟨setRaw_consistent f batch s h, fun own v => localSet_consistent f own v s h⟩

/-- a failed write changes neither the collection nor the index nor the heads entry (extensionally) -/
theorem failed_write_changes_nothing (f : Fault) (batch : List Val) (s : State) (h : Consistent s)
    (herr : (setRaw f batch s).2 = .err) :
    (setRaw f batch s).1.store = s.store ∧
    (∀ k, lookup (setRaw f batch s).1.index k = lookup s.index k) ∧
    (∀ k, lookup (setRaw f batch s).1.adv k = lookup s.adv k) := by
  have hc := setRaw_consistent f batch s h
  have hs : (setRaw f batch s).1.store = s.store := by
    rw [setRaw_eq] at herr ⊢
    split at herr
    · simp at herr
    · rename_i hne
      simp only [hne]
      rcases innerSet_cases f (kvsOf s.index batch) s with ⟨hf, hs, _, _⟩ | ⟨o, ho, ht, _⟩
      · simp [hf, hs]
      · simp [ht] at herr
  exact ⟨hs, fun k => by rw [hc.1 k, hs, h.1 k], fun k => by rw [hc.2 k, hs, h.2 k]⟩

example : (setRaw .commit [⟨1, 7, 7, 5, true, true, true, true, true⟩] State.init).2 = .err := by decide

/-! ## 4. stored ⇒ authentic -/

/-- Every row ever stored — by any history, under any faults — is acceptable: it decoded, BOTH
signatures verify over its bytes, it is filed under the slot named inside the signed bytes, the
cited ACL record is known and the signing account could write there, and its timestamp is in the
exact range. (Locally written values are acceptable by `LocalAuthentic`: the store signs them itself.) -/
theorem stored_implies_authentic (ops : List Op) (hl : LocalAuthentic ops) :
    ∀ k v, lookup (run State.init ops).store k = some v →
      v.decodes = true ∧ v.idSigOk = true ∧ v.peerSigOk = true ∧ k = v.innerSlot ∧
      v.aclKnown = true ∧ v.canWrite = true ∧ 0 ≤ v.ts ∧ v.ts < tsLimit := by
  intro k v hv
  have h := run_authentic ops State.init (fun k v h => by simp [State.init, lookup] at h) hl k v hv
  obtain ⟨⟨a, b, c, d, e, f, g, i⟩, hk⟩ := h
  exact ⟨a, b, c, by rw [← hk, d], e, f, g, i⟩

/-- each conjunct is load-bearing: dropping any one flag makes `SetRaw` skip the value -/
theorem each_check_is_enforced (v : Val) (s : State) (f : Fault)
    (h : v.decodes = false ∨ v.idSigOk = false ∨ v.peerSigOk = false ∨ v.slot ≠ v.innerSlot ∨
         v.aclKnown = false ∨ v.canWrite = false ∨ v.ts < 0 ∨ tsLimit ≤ v.ts) :
    setRaw f [v] s = (s, .ok []) := by
  have : kvsOf s.index [v] = [] := by
    unfold kvsOf
    have hp : (fromProto v && passes s.index v) = false := by
      unfold fromProto passes
      rcases h with h | h | h | h | h | h | h | h
      · simp [h]
      · simp [h]
      · simp [h]
      · simp [h]
      · simp [h]
      · simp [h]
      · have : ¬ (0 ≤ v.ts) := by omega
        simp [this]
      · have : ¬ (v.ts < tsLimit) := by omega
        simp [this]
    simp only [List.filter_cons, List.filter_nil]
    cases h1 : fromProto v
    · simp
    · simp only [if_true, List.filter_cons, List.filter_nil]
      rw [h1] at hp; simp at hp; simp [hp]
  rw [setRaw_eq, this]; simp

example : ∃ v, lookup (run State.init [.raw .none [⟨1, 7, 7, 5, true, true, true, true, true⟩]]).store 7 = some v := by
  exact ⟨⟨1, 7, 7, 5, true, true, true, true, true⟩, by decide⟩

end AnySync.KV.C12
