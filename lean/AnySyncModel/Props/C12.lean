/-
C12 — key-value store: last-writer-wins convergence and authentic entries only.
Property theorems only; helper lemmas live in `KV/Lemmas.lean`.
-/
import AnySyncModel.KV.Lemmas

namespace AnySync.KV.C12
open AnySync.KV

/-- `merge` (pointwise max-by-timestamp) is a semilattice: commutative, associative, idempotent -/
theorem lww_semilattice :
    (∀ a b : SMap, merge a b = merge b a) ∧
    (∀ a b c : SMap, merge (merge a b) c = merge a (merge b c)) ∧
    (∀ a : SMap, merge a a = a) := by
  refine ⟨?_, ?_, ?_⟩
  · intro a b; funext k; exact maxO_comm _ _
  · intro a b c; funext k; exact maxO_assoc _ _ _
  · intro a; funext k; exact maxO_idem _

example : merge (single ⟨1, 7, 7, 5, true, true, true, true, true⟩) (single ⟨2, 7, 7, 9, true, true, true, true, true⟩) 7
    = some (9, 2) := by decide

end AnySync.KV.C12
