import AnySyncModel.OCache.LTS
/-! C16 — object cache: at most one live instance per id under any interleaving (stage-1 stub) -/
namespace AnySync.Props.C16
open AnySync.OCache

theorem init_reachable : Reachable init := Reachable.init

end AnySync.Props.C16
