import AnySyncModel.OCache.Lemmas
import AnySyncModel.OCache.Check
/-!
C16 — object cache: at most one live instance per id under any interleaving.

All statements quantify over every state reachable in the LTS of `OCache/LTS.lean`, i.e. over all
schedules (`List Label`) of any number of threads, ids and operations, with every environment
verdict (load ok / error, TryClose true / false / error) at every point.

Status of the single inductive invariant `Inv = InvA ∧ InvB ∧ InvC ∧ InvD` (`OCache/Spec.lean`):
* `Inv init` is proved; `Inv s → <each part of the property at s>` is proved (the `*_of_inv`
  theorems, no extra hypothesis);
* preservation of `Inv` by every transition is NOT proved in Lean (named gap `Inductive Inv`); it
  is evaluated clause by clause on every state visited by the correspondence run (`inv=ok` in the
  model's answers, `Check.invFail`). The `*_partial` theorems spell that hypothesis out; the `C16_*_full`
  definitions are the statements without it.
-/
namespace AnySync.Props.C16
open AnySync.OCache

/-! ### full-strength statements -/

def C16_one_live_instance_full : Prop := ∀ s, Reachable s → OneLive s
def C16_handed_out_are_loaded_full : Prop := ∀ s, Reachable s → HandedOutLoaded s
def C16_no_double_close_full : Prop := ∀ s, Reachable s → NoDoubleClose s
def C16_none_open_after_Close_full : Prop := ∀ s, Reachable s → NoneOpenAfterClose s
def C16_removed_not_returned_later_full : Prop := ∀ s, Reachable s → RemovedNotReturned s
def C16_no_panic_full : Prop := ∀ s, Reachable s → NoPanic s
def C16_deadlock_free_full : Prop := ∀ s, Reachable s → DeadlockFree s

/-! ### the invariant implies every part of the property (no extra hypothesis) -/

/-- at most one live instance per id; in particular a load for an id starts (a `loading` instance
appears) only when no other instance of that id is loading, live or closing -/
theorem one_live_instance_of_inv {s : State} (h : Inv s) : OneLive s := oneLive_of_invB h.b

theorem handed_out_are_loaded_of_inv {s : State} (h : Inv s) : HandedOutLoaded s := handedOut_of_invB h.b

theorem no_double_close_of_inv {s : State} (h : Inv s) : NoDoubleClose s := noDoubleClose_of_invB h.b

theorem none_open_after_Close_of_inv {s : State} (h : Inv s) : NoneOpenAfterClose s := noneOpen_of_inv h.b h.d

theorem removed_not_returned_later_of_inv {s : State} (h : Inv s) : RemovedNotReturned s :=
  removedNotReturned_of_invC h.c

theorem no_panic_of_inv {s : State} (h : Inv s) : NoPanic s := noPanic_of_invA h.a

/-- with every environment step available, some thread can move unless all threads have returned -/
theorem deadlock_free_of_inv {s : State} (h : Inv s) : DeadlockFree s := deadlockFree_of_invA h.a

/-- base case of the induction -/
theorem inv_holds_initially : Inv init := inv_init

/-! ### partial theorems: everything under the one named gap `Inductive Inv` -/

theorem one_live_instance_partial (hind : Inductive Inv) : C16_one_live_instance_full :=
  fun s hr => one_live_instance_of_inv (reachable_of_inductive hind s hr)

theorem handed_out_are_loaded_partial (hind : Inductive Inv) : C16_handed_out_are_loaded_full :=
  fun s hr => handed_out_are_loaded_of_inv (reachable_of_inductive hind s hr)

theorem no_double_close_partial (hind : Inductive Inv) : C16_no_double_close_full :=
  fun s hr => no_double_close_of_inv (reachable_of_inductive hind s hr)

theorem none_open_after_Close_partial (hind : Inductive Inv) : C16_none_open_after_Close_full :=
  fun s hr => none_open_after_Close_of_inv (reachable_of_inductive hind s hr)

theorem removed_not_returned_later_partial (hind : Inductive Inv) : C16_removed_not_returned_later_full :=
  fun s hr => removed_not_returned_later_of_inv (reachable_of_inductive hind s hr)

theorem no_panic_partial (hind : Inductive Inv) : C16_no_panic_full :=
  fun s hr => no_panic_of_inv (reachable_of_inductive hind s hr)

theorem deadlock_free_partial (hind : Inductive Inv) : C16_deadlock_free_full :=
  fun s hr => deadlock_free_of_inv (reachable_of_inductive hind s hr)

/-! ### non-vacuity: a concrete schedule (Get loads id 0 while Remove and a second Get race) -/

def demoSchedule : List Label :=
  [.spawn (.get 0), .spawn (.remove 0), .spawn (.get 0),
   .step 0 none, .step 0 none, .step 0 none, .env 0 .loadOk none, .step 0 none, .step 1 none,
   .step 0 none, .step 1 none, .step 1 none, .step 2 none, .step 2 none, .env 1 .closeRet none,
   .step 2 none, .step 2 none, .step 2 none, .step 2 none]

/-- the schedule runs: thread 1 closed instance 0, thread 2 then waited for the close and is inside
its own `LoadFunc` call for the fresh instance 1 -/
example : ((run init demoSchedule).map fun s => ((s.thr 1).pc, (s.thr 2).pc, (s.inst 0).st, (s.inst 1).st)) =
    some (.done (.okErr true none), .inLoad 1 1, .closed, .loading) := by decide

/-- the reached state satisfies every clause of the (executable rendering of the) invariant -/
example : ((run init demoSchedule).map invFail) = some none := by decide

example : ∃ s, Reachable s ∧ s.nInst = 2 ∧ Unfinished s :=
  match h : run init demoSchedule with
  | some s => ⟨s, run_reachable _ _ _ Reachable.init h, by
      have : (run init demoSchedule).map (fun s => (s.nInst, (s.thr 2).pc, s.nThr)) = some (2, .inLoad 1 1, 3) := by decide
      rw [h] at this
      simp at this
      exact ⟨this.1, 2, by omega, fun r => by rw [this.2.1]; simp⟩⟩
  | none => absurd h (by decide)

end AnySync.Props.C16
