import AnySyncModel.OCache.Inductive
import AnySyncModel.OCache.Cancel
import AnySyncModel.OCache.Check
/-!
C16 — object cache: at most one live instance per id under any interleaving.

All statements quantify over every state reachable in the LTS of `OCache/LTS.lean`, i.e. over all
schedules (`List Label`) of any number of threads, ids and operations, with every environment
verdict (load ok / error, TryClose true / false / error) at every point.

One inductive invariant `Inv = InvA ∧ InvB ∧ InvC ∧ InvD` (`OCache/Spec.lean`) carries everything:
* `inv_holds_initially : Inv init`;
* `inv_preserved : Inv s → next s l = some s' → Inv s'` — every transition label (the per-label lemmas
  live in `OCache/StepA..StepD.lean`, built on the rely/guarantee frame lemmas of `Frame*.lean`);
* `inv_reachable : Reachable s → Inv s` by induction over the schedule;
* `Inv s → <each part of the property at s>` (the `*_of_inv` theorems).
The seven parts are therefore proved at full strength (no extra hypothesis). The same invariant is
also evaluated clause by clause on every state visited by the correspondence run (`Check.invFail`).
-/
namespace AnySync.Props.C16
open AnySync.OCache

/-! ### full-strength statements -/

def C16_one_live_instance_full : Prop := ∀ s, Reachable s → OneLive s
def C16_handed_out_are_loaded_full : Prop := ∀ s, Reachable s → HandedOutLoaded s
def C16_no_double_close_full : Prop := ∀ s, Reachable s → NoDoubleClose s
def C16_none_open_after_Close_full : Prop := ∀ s, Reachable s → NoneOpenAfterClose s
def C16_removed_not_returned_later_full : Prop := ∀ s, Reachable s → RemovedNotReturned s
def C16_removeSame_closes_only_target_full : Prop := ∀ s, Reachable s → RemoveSameOnlyTarget s
def C16_no_panic_full : Prop := ∀ s, Reachable s → NoPanic s
def C16_deadlock_free_full : Prop := ∀ s, Reachable s → DeadlockFree s

/-! ### the invariant implies every part of the property (no extra hypothesis) -/

/-- at most one live instance per id; in particular a load for an id starts (a `loading` instance
appears) only when no other instance of that id is loading, live or closing -/
theorem one_live_instance_of_inv {s : State} (h : Inv s) : OneLive s := oneLive_of_invB h.b

theorem handed_out_are_loaded_of_inv {s : State} (h : Inv s) : HandedOutLoaded s := handedOut_of_invB h.b

theorem no_double_close_of_inv {s : State} (h : Inv s) : NoDoubleClose s := noDoubleClose_of_invB h.b

theorem none_open_after_Close_of_inv {s : State} (h : Inv s) : NoneOpenAfterClose s := noneOpen_of_inv h.b h.d

theorem removed_not_returned_later_of_inv {s : State} (h : Inv s) : RemovedNotReturned s :=
  removedNotReturned_of_invC h.c

theorem no_panic_of_inv {s : State} (h : Inv s) : NoPanic s := noPanic_of_invA h.a

/-- with every environment step available, some thread can move unless all threads have returned -/
theorem deadlock_free_of_inv {s : State} (h : Inv s) : DeadlockFree s := deadlockFree_of_invA h.a

/-- base case of the induction -/
theorem inv_holds_initially : Inv init := inv_init

/-! ### the invariant is inductive -/

/-- every transition (spawn, internal step of any thread, any environment verdict) preserves `Inv` -/
theorem inv_preserved {s s' : State} {l : Label} (h : Inv s) (hn : next s l = some s') : Inv s' :=
  inv_next h hn

/-- induction over the schedule -/
theorem inv_reachable {s : State} (h : Reachable s) : Inv s := AnySync.OCache.inv_reachable h

/-! ### the seven parts of C16, over all schedules -/

/-- at most one live instance per id at any time; a load for an id starts only after the previous
instance's close has returned -/
theorem one_live_instance : C16_one_live_instance_full :=
  fun _ hr => one_live_instance_of_inv (inv_reachable hr)

/-- every instance handed to a caller had finished loading (and belongs to the id asked for) -/
theorem handed_out_are_loaded : C16_handed_out_are_loaded_full :=
  fun _ hr => handed_out_are_loaded_of_inv (inv_reachable hr)

/-- no instance is closed twice; no Close/TryClose call starts on an instance that is not live -/
theorem no_double_close : C16_no_double_close_full :=
  fun _ hr => no_double_close_of_inv (inv_reachable hr)

/-- nothing is left open (and the cache is empty) once `Close()` has returned -/
theorem none_open_after_Close : C16_none_open_after_Close_full :=
  fun _ hr => none_open_after_Close_of_inv (inv_reachable hr)

/-- a lookup that starts after a removal completed never returns the removed instance -/
theorem removed_not_returned_later : C16_removed_not_returned_later_full :=
  fun _ hr => removed_not_returned_later_of_inv (inv_reachable hr)

/-- identity-checked removal (the mechanism behind "conditional removal"): whatever happens between
its identity check and its close, `RemoveSame(id, v)` never closes an instance other than `v` -/
theorem removeSame_closes_only_target : C16_removeSame_closes_only_target_full :=
  fun _ hr => removeSameOnlyTarget_of_inv (inv_reachable hr).a (inv_reachable hr).b

/-- no operation panics -/
theorem no_panic : C16_no_panic_full :=
  fun _ hr => no_panic_of_inv (inv_reachable hr)

/-- no operation blocks forever: while some thread has not returned, some label is enabled
(environment verdicts — load finish, close return, TryClose answer — being always available) -/
theorem deadlock_free : C16_deadlock_free_full :=
  fun _ hr => deadlock_free_of_inv (inv_reachable hr)

/-! ### callers that give up while waiting (context expiry) -/

/-- a waiting caller whose context expires returns without touching the entry: the step preserves `Inv` -/
theorem ctx_cancel_preserves_inv {s s' : State} {t : Tid} {e : Err} (h : Inv s)
    (hc : ctxCancel s t e = some s') : Inv s' := ctxCancel_preserves_inv h hc

/-- all parts of C16 for schedules that also contain context expiries of waiting Get / Pick / Remove /
RemoveSame callers (the internal deadline of cache `Close()` is not included) -/
theorem c16_with_cancellation {s : State} (h : ReachableC s) :
    OneLive s ∧ HandedOutLoaded s ∧ NoDoubleClose s ∧ NoneOpenAfterClose s ∧ RemovedNotReturned s ∧
    NoPanic s ∧ DeadlockFree s :=
  let i := inv_reachableC h
  ⟨one_live_instance_of_inv i, handed_out_are_loaded_of_inv i, no_double_close_of_inv i,
   none_open_after_Close_of_inv i, removed_not_returned_later_of_inv i, no_panic_of_inv i, deadlock_free_of_inv i⟩

/-- the step is enabled for a blocked remover: thread 1 (`Remove`) waits for the load of thread 0 -/
example : ((run init [.spawn (.get 0), .spawn (.remove 0), .step 0 none, .step 1 none]).bind
    fun s => (ctxCancel s 1 .closed).map fun s' => (s'.thr 1).pc) =
    some (.done (.okErr false (some .closed))) := by decide

/-! ### non-vacuity: a concrete schedule (Get loads id 0 while Remove and a second Get race) -/

def demoSchedule : List Label :=
  [.spawn (.get 0), .spawn (.remove 0), .spawn (.get 0),
   .step 0 none, .step 0 none, .step 0 none, .env 0 .loadOk none, .step 0 none, .step 1 none,
   .step 0 none, .step 1 none, .step 1 none, .step 2 none, .step 2 none, .env 1 .closeRet none,
   .step 2 none, .step 2 none, .step 2 none, .step 2 none]

/-- the schedule runs: thread 1 closed instance 0, thread 2 then waited for the close and is inside
its own `LoadFunc` call for the fresh instance 1 -/
example : ((run init demoSchedule).map fun s => ((s.thr 1).pc, (s.thr 2).pc, (s.inst 0).st, (s.inst 1).st)) =
    some (.done (.okErr true none), .inLoad 1 1, .closed, .loading) := by decide

/-- the reached state satisfies every clause of the (executable rendering of the) invariant -/
example : ((run init demoSchedule).map invFail) = some none := by decide

example : ∃ s, Reachable s ∧ s.nInst = 2 ∧ Unfinished s :=
  match h : run init demoSchedule with
  | some s => ⟨s, run_reachable _ _ _ Reachable.init h, by
      have : (run init demoSchedule).map (fun s => (s.nInst, (s.thr 2).pc, s.nThr)) = some (2, .inLoad 1 1, 3) := by decide
      rw [h] at this
      simp at this
      exact ⟨this.1, 2, by omega, fun r => by rw [this.2.1]; simp⟩⟩
  | none => absurd h (by decide)

end AnySync.Props.C16
