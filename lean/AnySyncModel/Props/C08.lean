import AnySyncModel.Ldiff.Shape
/-!
# C08 — advertised range hashes depend only on current contents

Model: `AnySyncModel/Ldiff/Model.lean` (the fixed code: fix-update, fix-merge, fix-bottomrange).
`canon A S p sl` is what `New(df,thr)` + ONE `Set(all…)` builds: its tree `buildTop` is a function of
the sorted element list only. The headline theorem `step_refines_canon` says that the index
maintained incrementally by ANY history of `Set` (new or existing ids) and `RemoveId` (present or
absent ids) IS the canonical index of its current skip list — shape, counts and digests.

Hypotheses, all explicit: ids determine hashes and hashes are 64-bit (`Op.Wf`); the splitter is
good (`SplitterOk`: every range that can be divided splits properly and the depth budget suffices)
— proved for the Go arithmetic (`splitterOk_go`), so the `_go` theorems carry no width hypothesis
(fix-width: a range narrower than `df` is never divided). The digest algebra `A` is arbitrary.
-/
namespace AnySync.Ldiff

/-- the skip-list invariant is preserved by every operation -/
theorem slWf_step (hf : Nat → Nat) (sl : List Elem) (op : Op) (h : SlWf hf sl) (hop : op.Wf hf) :
    SlWf hf (slStep sl op) := by
  cases op with
  | set1 e =>
    have hp := slInsert_perm e (slRemove e.id sl)
    constructor
    · intro e' he'
      rcases List.mem_cons.mp (hp.mem_iff.mp he') with h1 | h1
      · rw [h1]; exact hop
      · exact h.hash e' (mem_slRemove.mp h1).1
    · have hp' := hp.map (·.id)
      show (List.map (·.id) (slInsert e (slRemove e.id sl))).Nodup
      rw [hp'.nodup_iff]
      simp only [List.map_cons, List.nodup_cons]
      constructor
      · intro hm
        obtain ⟨e', he', hid⟩ := List.mem_map.mp hm
        exact (mem_slRemove.mp he').2 hid
      · exact List.Nodup.sublist ((slRemove_sub e.id sl).map _) h.nodup
  | remove id hh =>
    constructor
    · intro e' he'; exact h.hash e' (mem_slRemove.mp he').1
    · exact List.Nodup.sublist ((slRemove_sub id sl).map _) h.nodup

/-- **one step of refinement**: applying an operation to the canonical index of `sl` gives the
canonical index of the new skip list. -/
theorem step_canon {D} (A : DigAlg D) (S : Splitter) (hf : Nat → Nat) (p : Params)
    (sl : List Elem) (op : Op) (hwf : SlWf hf sl) (hop : op.Wf hf)
    (hok : TopOk S p sl) (hok' : TopOk S p (slStep sl op)) :
    (canon A S p sl).step A S op = canon A S p (slStep sl op) := by
  cases op with
  | set1 e =>
    obtain ⟨heh, hlt⟩ := hop
    simp only [Index.step, Index.set1, canon, slStep] at hok' ⊢
    by_cases hhas : slHas e.id sl = true
    · -- existing id: updEl
      obtain ⟨e0, he0, hid⟩ := slHas_iff.mp hhas
      have hw : ∀ e', e' ∈ sl → e'.hash = hf e'.id := fun e' he' => (hwf.hash e' he').1
      have ho1 : OnlyAt e.hash sl (slRemove e.id sl) := by
        rw [heh]; exact remove_onlyAt hf sl e.id hw
      have hout : OnlyAt e.hash sl (slInsert e (slRemove e.id sl)) := by
        intro a b hx
        rw [slRange_insert_out e _ a b hx, ho1 a b hx]
      have hlen : ∀ a b, (slRange (slInsert e (slRemove e.id sl)) a b).length
          = (slRange sl a b).length := by
        intro a b
        by_cases hx : a ≤ e.hash ∧ e.hash ≤ b
        · rw [slRange_insert_len e _ a b hx]
          have := remove_count hf sl e0 he0 hw hwf.nodup a b (by rw [hid, ← heh]; exact hx.1)
            (by rw [hid, ← heh]; exact hx.2)
          rw [hid] at this
          exact this
        · rw [hout a b hx]
      have hl : (slInsert e (slRemove e.id sl)).length = sl.length := by
        have h1 := (slInsert_perm e (slRemove e.id sl)).length_eq
        have h2 := slRemove_len sl e0 hwf.nodup he0
        rw [hid] at h2
        simp only [List.length_cons] at h1
        omega
      simp only [hhas, if_true]
      congr 1
      exact top_step A S p sl _ e.hash id _ hout hlt hok' (by simpa using hl.symm)
        (fun i hi h1 h2 => updEl_build A S p sl _ e.hash hout hlen depthFuel _ _ h1 h2 (hok'.2 i hi))
    · -- new id: addEl
      have hno : ∀ e', e' ∈ sl → e'.id ≠ e.id := by
        intro e' he' hid
        exact hhas (slHas_iff.mpr ⟨e', he', hid⟩)
      have hrm : slRemove e.id sl = sl := slRemove_eq_self e.id sl hno
      have hfalse : slHas e.id sl = false := by simpa using hhas
      rw [hrm] at hok' ⊢
      simp only [hfalse, Bool.false_eq_true, if_false]
      congr 1
      have hl : (slInsert e sl).length = sl.length + 1 := by
        have := (slInsert_perm e sl).length_eq
        simpa using this
      exact top_step A S p sl _ e.hash (· + 1) _ (fun a b hx => slRange_insert_out e sl a b hx) hlt hok'
        hl.symm
        (fun i hi h1 h2 => addEl_build A S p sl _ e.hash (fun a b hx => slRange_insert_out e sl a b hx)
          (fun a b ha hb => slRange_insert_len e sl a b ⟨ha, hb⟩) depthFuel _ _ h1 h2 (hok'.2 i hi))
  | remove id hh =>
    obtain ⟨heh, hlt⟩ := hop
    have hw : ∀ e', e' ∈ sl → e'.hash = hf e'.id := fun e' he' => (hwf.hash e' he').1
    simp only [Index.step, Index.remove, canon, slStep] at hok' ⊢
    by_cases hhas : slHas id sl = true
    · obtain ⟨e0, he0, hid⟩ := slHas_iff.mp hhas
      simp only [hhas, if_true, Option.getD_some]
      congr 1
      have hout : OnlyAt hh sl (slRemove id sl) := by rw [heh]; exact remove_onlyAt hf sl id hw
      have hl := slRemove_len sl e0 hwf.nodup he0
      rw [hid] at hl
      exact top_step A S p sl _ hh (· - 1) _ hout hlt hok' (by show sl.length - 1 = (slRemove id sl).length; omega)
        (fun i hi h1 h2 => by
          have hcnt : ∀ a b, a ≤ hh → hh ≤ b →
              (slRange (slRemove id sl) a b).length + 1 = (slRange sl a b).length := by
            intro a b ha hb
            have := remove_count hf sl e0 he0 hw hwf.nodup a b (by rw [hid, ← heh]; exact ha)
              (by rw [hid, ← heh]; exact hb)
            rw [hid] at this
            exact this
          have := rmEl_build A S p sl _ hh hout hcnt (remove_le id sl) depthFuel _ _ h1 h2 (hok.2 i hi)
          rw [this])
    · have hno : ∀ e', e' ∈ sl → e'.id ≠ id := by
        intro e' he' hid
        exact hhas (slHas_iff.mpr ⟨e', he', hid⟩)
      have hfalse : slHas id sl = false := by simpa using hhas
      simp only [hfalse, Bool.false_eq_true, if_false, Option.getD_none]
      rw [slRemove_eq_self id sl hno]

/-- the same for a whole history, from any canonical starting point -/
theorem run_canon {D} (A : DigAlg D) (S : Splitter) (hf : Nat → Nat) (p : Params) (ops : List Op) :
    ∀ sl, SlWf hf sl → (∀ op, op ∈ ops → op.Wf hf) →
      (∀ k, k ≤ ops.length → TopOk S p (slRun sl (ops.take k))) →
      (canon A S p sl).run A S ops = canon A S p (slRun sl ops) := by
  induction ops with
  | nil => intro sl _ _ _; rfl
  | cons op rest ih =>
    intro sl hwf hops hok
    have hop := hops op (by simp)
    have h0 : TopOk S p sl := by simpa [slRun] using hok 0 (by simp)
    have h1 : TopOk S p (slStep sl op) := by simpa [slRun] using hok 1 (by simp)
    simp only [Index.run, slRun, List.foldl_cons]
    rw [step_canon A S hf p sl op hwf hop h0 h1]
    apply ih (slStep sl op) (slWf_step hf sl op hwf hop) (fun o ho => hops o (by simp [ho]))
    intro k hk
    have := hok (k + 1) (by simp; omega)
    simpa [slRun] using this

/-- **step_refines_canon (history independence).** For every history from `New(df,thr)` the
operational index equals the canonical index of its current contents. -/
theorem step_refines_canon {D} (A : DigAlg D) (S : Splitter) (hf : Nat → Nat) (df thr : Nat)
    (ops : List Op) (hops : ∀ op, op ∈ ops → op.Wf hf)
    (hS : SplitterOk S (Params.clamp df thr).df) :
    (Index.new A S df thr).run A S ops = canon A S (Params.clamp df thr) (slRun [] ops) :=
  run_canon A S hf (Params.clamp df thr) ops [] ⟨by simp, by simp⟩ hops
    (fun _ _ => topOk_of_splitterOk S _ _ hS)

/-- **hash_history_independent / equal_contents_equal_top_hash.** Two histories ending in the same
skip list advertise the same top hash (what `DiffTypeCheck` compares) … -/
theorem hash_history_independent {D} (A : DigAlg D) (S : Splitter) (hf : Nat → Nat) (df thr : Nat)
    (ops₁ ops₂ : List Op) (h₁ : ∀ op, op ∈ ops₁ → op.Wf hf) (h₂ : ∀ op, op ∈ ops₂ → op.Wf hf)
    (hS : SplitterOk S (Params.clamp df thr).df)
    (hsame : slRun [] ops₁ = slRun [] ops₂) :
    ((Index.new A S df thr).run A S ops₁).hash = ((Index.new A S df thr).run A S ops₂).hash := by
  rw [step_refines_canon A S hf df thr ops₁ h₁ hS, step_refines_canon A S hf df thr ops₂ h₂ hS, hsame]

/-- **ranges_history_independent.** … and answer every range query identically (hash, count,
elements), with or without elements. -/
theorem ranges_history_independent {D} (A : DigAlg D) (S : Splitter) (hf : Nat → Nat) (df thr : Nat)
    (ops₁ ops₂ : List Op) (h₁ : ∀ op, op ∈ ops₁ → op.Wf hf) (h₂ : ∀ op, op ∈ ops₂ → op.Wf hf)
    (hS : SplitterOk S (Params.clamp df thr).df)
    (hsame : slRun [] ops₁ = slRun [] ops₂) (lo hi : Nat) (w : Bool) :
    ((Index.new A S df thr).run A S ops₁).getRange A S lo hi w
      = ((Index.new A S df thr).run A S ops₂).getRange A S lo hi w := by
  rw [step_refines_canon A S hf df thr ops₁ h₁ hS, step_refines_canon A S hf df thr ops₂ h₂ hS, hsame]

/-- the incrementally maintained index equals the one rebuilt at start-up by ONE `Set(all…)`
(the oracle of the harness): a single multi-element `Set` is the history of its elements. -/
theorem rebuilt_equals_incremental {D} (A : DigAlg D) (S : Splitter) (hf : Nat → Nat) (df thr : Nat)
    (ops : List Op) (es : List Elem)
    (h₁ : ∀ op, op ∈ ops → op.Wf hf) (h₂ : ∀ op, op ∈ es.map Op.set1 → op.Wf hf)
    (hS : SplitterOk S (Params.clamp df thr).df)
    (hsame : slRun [] ops = slRun [] (es.map Op.set1)) :
    (Index.new A S df thr).run A S ops = (Index.new A S df thr).set A S es := by
  have hset : (Index.new A S df thr).set A S es = (Index.new A S df thr).run A S (es.map Op.set1) := by
    simp only [Index.set, Index.run, List.foldl_map]
    rfl
  rw [hset, step_refines_canon A S hf df thr ops h₁ hS,
    step_refines_canon A S hf df thr _ h₂ hS, hsame]

/-- the skip list stays sorted by `(hash, id)` -/
theorem slStep_sorted (hf : Nat → Nat) (sl : List Elem) (op : Op) (hs : Sorted sl) :
    Sorted (slStep sl op) := by
  cases op with
  | set1 e =>
    apply slInsert_sorted e _ (slRemove_sorted e.id sl hs)
    intro x hx; exact (mem_slRemove.mp hx).2
  | remove id hh => exact slRemove_sorted id sl hs

theorem slRun_inv (hf : Nat → Nat) (ops : List Op) : ∀ sl, SlWf hf sl → Sorted sl →
    (∀ op, op ∈ ops → op.Wf hf) → SlWf hf (slRun sl ops) ∧ Sorted (slRun sl ops) := by
  induction ops with
  | nil => intro sl h1 h2 _; exact ⟨h1, h2⟩
  | cons op rest ih =>
    intro sl h1 h2 hops
    simp only [slRun, List.foldl_cons]
    exact ih _ (slWf_step hf sl op h1 (hops op (by simp))) (slStep_sorted hf sl op h2)
      (fun o ho => hops o (by simp [ho]))

/-- **canon_deterministic**: the skip list — hence the canonical index — is determined by the SET
of current entries: two histories ending with the same entries end with the same list. -/
theorem canon_deterministic (hf : Nat → Nat) (ops₁ ops₂ : List Op)
    (h₁ : ∀ op, op ∈ ops₁ → op.Wf hf) (h₂ : ∀ op, op ∈ ops₂ → op.Wf hf)
    (hsame : ∀ e, e ∈ slRun [] ops₁ ↔ e ∈ slRun [] ops₂) : slRun [] ops₁ = slRun [] ops₂ := by
  have e1 := slRun_inv hf ops₁ [] ⟨by simp, by simp⟩ (by simp [Sorted]) h₁
  have e2 := slRun_inv hf ops₂ [] ⟨by simp, by simp⟩ (by simp [Sorted]) h₂
  exact sorted_ext _ _ e1.2 e2.2 (nodup_of_map_id _ e1.1.nodup) (nodup_of_map_id _ e2.1.nodup) hsame

/-- **C08, assembled**: two histories (any interleaving of inserts, updates, removals) that end
with the same set of entries produce the SAME index: same tree, same `Hash()`, same answer to
every range query. -/
theorem equal_contents_equal_index {D} (A : DigAlg D) (S : Splitter) (hf : Nat → Nat) (df thr : Nat)
    (ops₁ ops₂ : List Op) (h₁ : ∀ op, op ∈ ops₁ → op.Wf hf) (h₂ : ∀ op, op ∈ ops₂ → op.Wf hf)
    (hS : SplitterOk S (Params.clamp df thr).df)
    (hsame : ∀ e, e ∈ slRun [] ops₁ ↔ e ∈ slRun [] ops₂) :
    (Index.new A S df thr).run A S ops₁ = (Index.new A S df thr).run A S ops₂ := by
  rw [step_refines_canon A S hf df thr ops₁ h₁ hS, step_refines_canon A S hf df thr ops₂ h₂ hS,
    canon_deterministic hf ops₁ ops₂ h₁ h₂ hsame]

/-- the clamped divide factor is at least 2 and, for `df ≤ 2^64`, a good splitter -/
theorem clamp_splitterOk (df thr : Nat) (hM : df ≤ M) : SplitterOk goSplit (Params.clamp df thr).df := by
  have hdf : 2 ≤ (Params.clamp df thr).df := by simp only [Params.clamp]; split <;> omega
  have hM' : (Params.clamp df thr).df ≤ M := by
    simp only [Params.clamp]; split
    · simp [M]
    · exact hM
  exact splitterOk_go _ hdf hM'

/-- **step_refines_canon for the Go arithmetic** (`goSplit` = `genTupleRanges` / `getBottomRange`
with fix-bottomrange / `canDivide` of fix-width): NO width hypothesis is left — a range narrower
than `df` is never divided, every divided range splits properly (`goSplit_ok`), and the depth
budget always suffices (`splitterOk_go`). -/
theorem step_refines_canon_go {D} (A : DigAlg D) (hf : Nat → Nat) (df thr : Nat) (hM : df ≤ M)
    (ops : List Op) (hops : ∀ op, op ∈ ops → op.Wf hf) :
    (Index.new A goSplit df thr).run A goSplit ops
      = canon A goSplit (Params.clamp df thr) (slRun [] ops) :=
  step_refines_canon A goSplit hf df thr ops hops (clamp_splitterOk df thr hM)

/-- **C08 for the Go arithmetic, assembled and unconditional**: any two histories of `Set` /
`RemoveId` ending with the same set of entries give the same index — same `Hash()`, same answer
to every range query. -/
theorem equal_contents_equal_index_go {D} (A : DigAlg D) (hf : Nat → Nat) (df thr : Nat) (hM : df ≤ M)
    (ops₁ ops₂ : List Op) (h₁ : ∀ op, op ∈ ops₁ → op.Wf hf) (h₂ : ∀ op, op ∈ ops₂ → op.Wf hf)
    (hsame : ∀ e, e ∈ slRun [] ops₁ ↔ e ∈ slRun [] ops₂) :
    (Index.new A goSplit df thr).run A goSplit ops₁ = (Index.new A goSplit df thr).run A goSplit ops₂ :=
  equal_contents_equal_index A goSplit hf df thr ops₁ ops₂ h₁ h₂ (clamp_splitterOk df thr hM) hsame

/-- **genTupleRanges_partition** (re-exported from `Ldiff/Arith.lean`): for `lo ≤ hi < 2^64`,
`df ≥ 2` and width ≥ `df` the Go loop returns `df` parts that lie inside `[lo,hi]`, and
`getBottomRange` returns the unique part containing the hash. -/
theorem genTupleRanges_partition (lo hi df : Nat) (w : Wide lo hi df) :
    genTupleRanges lo hi df = (List.range df).map (childRange lo hi df) ∧ SplitOk goSplit df lo hi :=
  ⟨genTupleRanges_eq lo hi df w, goSplit_ok lo hi df w⟩

/-- … the parts are consecutive and non-empty, the first starts at `lo`, the last ends at `hi` -/
theorem genTupleRanges_consecutive (lo hi df i : Nat) (w : Wide lo hi df) (hi' : i + 1 < df) :
    (childRange lo hi df (i + 1)).1 = (childRange lo hi df i).2 + 1 ∧
    (childRange lo hi df 0).1 = lo ∧ (childRange lo hi df (df - 1)).2 = hi :=
  parts_consecutive lo hi df i w hi'

/-- the range arithmetic of the model is the arithmetic regenerated from `hashrange.go` -/
theorem arith_shape_ok : type_of% ldiffShape_ok := ldiffShape_ok

/-- the canonical tree away from the changed hash is untouched (locality) -/
theorem canon_local {D} (A : DigAlg D) (S : Splitter) (p : Params) (sl sl' : List Elem) (x : Nat)
    (hout : OnlyAt x sl sl') (fuel lo hi : Nat) (hx : ¬ (lo ≤ x ∧ x ≤ hi))
    (hw : WidthOk S p sl' fuel lo hi) :
    build A S p sl' fuel lo hi = build A S p sl fuel lo hi :=
  build_out A S p sl sl' x hout fuel lo hi hx hw

/-- a fresh index is canonical (base case) -/
theorem new_is_canon {D} (A : DigAlg D) (S : Splitter) (df thr : Nat) :
    Index.new A S df thr = canon A S (Params.clamp df thr) [] := rfl

/-- non-vacuity: a concrete history with an update and a removal from a divided chain -/
example : slRun [] [.set1 ⟨0, 1, 0⟩, .set1 ⟨1, 2, 0⟩, .set1 ⟨0, 1, 5⟩, .remove 1 2]
    = [⟨0, 1, 5⟩] := by decide

end AnySync.Ldiff
