import AnySyncModel.Ldiff.Lemmas
/-!
# C08 — advertised range hashes depend only on current contents

Model: `AnySyncModel/Ldiff/Model.lean` (the fixed code: fix-update, fix-merge, fix-bottomrange).
The canonical index `canon A p sl` is what `New(df,thr)` + ONE `Set(all…)` builds: the tree
`buildTop` is a function of the sorted element list only.  The property is
`step_refines_canon_full` below; what is proved here is listed in `notes/areas/ldiff.md`.
-/
namespace AnySync.Ldiff

/-- **Full statement (history independence).**  For every history of single-element `Set`s
(new or existing ids) and `RemoveId`s whose intermediate contents satisfy the width hypothesis,
the operational index equals the canonical index of its current skip list: tree shape, counts and
digests — hence `Hash()` and every `Ranges` answer are functions of the contents. -/
def C08_step_refines_canon_full : Prop :=
  ∀ (D : Type) (A : DigAlg D) (df thr : Nat) (ops : List Op),
    (∀ k, k ≤ ops.length →
      let ix := (Index.new A df thr).run A (ops.take k)
      SplitOk ix.p.df 0 (M - 1) ∧ ∀ i, i < ix.p.df →
        WidthOk ix.p ix.sl depthFuel (childRange 0 (M - 1) ix.p.df i).1 (childRange 0 (M - 1) ix.p.df i).2) →
    (Index.new A df thr).run A ops = canon A (Params.clamp df thr) ((Index.new A df thr).run A ops).sl

/-- a fresh index is canonical (base case of the refinement) -/
theorem new_is_canon {D} (A : DigAlg D) (df thr : Nat) :
    Index.new A df thr = canon A (Params.clamp df thr) [] := rfl

/-- the canonical tree away from the changed hash is untouched: a sub-range that does not contain
`x` has the same subtree (shape, counts, digests) before and after any change at `x`. This is the
locality half of `step_refines_canon` (siblings of the walked path keep their digests). -/
theorem canon_local {D} (A : DigAlg D) (p : Params) (sl sl' : List Elem) (x : Nat)
    (hout : OnlyAt x sl sl') (fuel lo hi : Nat) (hx : ¬ (lo ≤ x ∧ x ≤ hi))
    (hw : WidthOk p sl' fuel lo hi) :
    build A p sl' fuel lo hi = build A p sl fuel lo hi :=
  build_out A p sl sl' x hout fuel lo hi hx hw

/-- inserting an element changes the skip list only at its hash … -/
theorem insert_onlyAt (e : Elem) (sl : List Elem) : OnlyAt e.hash sl (slInsert e sl) :=
  fun a b h => slRange_insert_out e sl a b h

/-- … and adds exactly one element to every range containing it -/
theorem insert_count (e : Elem) (sl : List Elem) (a b : Nat) (h1 : a ≤ e.hash) (h2 : e.hash ≤ b) :
    (slRange (slInsert e sl) a b).length = (slRange sl a b).length + 1 :=
  slRange_insert_len e sl a b ⟨h1, h2⟩

/-- `calcDividedHash` over the computed child list and over the child function agree -/
theorem divided_hash_agrees {D} (A : DigAlg D) (df : Nat) (f : Nat → Tree D) :
    kidsHash A df (ofList ((List.range df).map f)) = listHash A ((List.range df).map f) :=
  kidsHash_ofList A df f

/-- the answer to a range query is a function of `(p, sl, top)`; for a canonical index therefore a
function of the contents alone (`ranges_history_independent` given `step_refines_canon`). -/
theorem ranges_of_canon {D} (A : DigAlg D) (ix : Index D) (h : ix = canon A ix.p ix.sl)
    (lo hi : Nat) (w : Bool) :
    ix.getRange A lo hi w = (canon A ix.p ix.sl).getRange A lo hi w := by
  rw [← h]

/-- non-vacuity: a three-level divided canonical tree (df = 2, thr = 1, three elements sharing
the two top bits of their hashes) -/
example : (buildTop (D := Nat) ⟨fun _ => 0, fun _ => 1⟩ ⟨2, 1⟩
    [⟨0, 1, 0⟩, ⟨1, 2, 0⟩, ⟨2, 2 ^ 61, 0⟩]).cnt = 3 := by decide

end AnySync.Ldiff
