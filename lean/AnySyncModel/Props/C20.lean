/-
C20 — Component container: ordered start, reverse-ordered stop, no use-before-init.

Only property theorems (and their non-vacuity examples) live here.
-/
import AnySyncModel.App.Lemmas

namespace AnySync.App
open Generated.App

/-- obligation on the regenerated fragment: the extractor recognised every loop shape of
`app/app.go` it reads (otherwise the constants below say nothing about the code) -/
theorem shape_ok : shapeOk = true := by decide

/-- `App.Close` closes exactly the runnable components, in reverse registration order. -/
theorem close_reverse (cs : List Comp) :
    close cs = (((cs.filter (·.runnable)).reverse).map (fun c => Ev.close c.id)) := by
  simp only [close, closeDescending, if_true]
  rw [closeLoopDesc_eq cs cs.length (Nat.le_refl _)]
  simp [closesOfPrefix]

/-- consequence: a runnable registered later is closed earlier (positions in the close log). -/
theorem close_never_before_later (cs : List Comp) (i j : Nat) (hij : i < j) (hj : j < cs.length)
    (hri : (cs[i]'(Nat.lt_trans hij hj)).runnable = true) (hrj : cs[j].runnable = true) :
    ∃ pre mid post, close cs = pre ++ [Ev.close cs[j].id] ++ mid ++ [Ev.close (cs[i]'(Nat.lt_trans hij hj)).id] ++ post := by
  have hi : i < cs.length := Nat.lt_trans hij hj
  rw [close_reverse]
  -- split cs = A ++ [ci] ++ B ++ [cj] ++ C
  have h1 : cs = cs.take i ++ cs[i] :: cs.drop (i+1) := by
    rw [List.getElem_cons_drop_succ_eq_drop hi, List.take_append_drop]
  have hj' : j - (i+1) < (cs.drop (i+1)).length := by simp; omega
  have h2 : cs.drop (i+1) = (cs.drop (i+1)).take (j-(i+1)) ++ (cs.drop (i+1))[j-(i+1)] :: (cs.drop (i+1)).drop (j-(i+1)+1) := by
    rw [List.getElem_cons_drop_succ_eq_drop hj', List.take_append_drop]
  have h3 : (cs.drop (i+1))[j-(i+1)] = cs[j] := by
    simp only [List.getElem_drop]; congr 1; omega
  rw [h3] at h2
  generalize cs.take i = A at h1
  generalize (cs.drop (i+1)).take (j-(i+1)) = B at h2
  generalize (cs.drop (i+1)).drop (j-(i+1)+1) = C at h2
  generalize hci : cs[i] = ci at *
  generalize hcj : cs[j] = cj at *
  refine ⟨((C.filter (·.runnable)).reverse).map (fun c => Ev.close c.id),
          ((B.filter (·.runnable)).reverse).map (fun c => Ev.close c.id),
          ((A.filter (·.runnable)).reverse).map (fun c => Ev.close c.id), ?_⟩
  rw [h1, h2]
  simp [List.filter_append, List.filter_cons, hri, hrj]

/-- a failing `Close` of one component does not stop the shutdown: the close log does not depend on
which components' `Close` fail (they are closed all the same), and the error is reported. -/
theorem close_continues_past_errors (cs : List Comp) :
    close cs = close (cs.map (fun c => { c with failClose := false })) ∧
    (closeErr cs = true ↔ ∃ c ∈ cs, c.runnable = true ∧ c.failClose = true) := by
  constructor
  · rw [close_reverse, close_reverse]
    simp [List.filter_map, Function.comp_def]
  · simp [closeErr]

/-! ## Start -/

/-- No failure: every component is initialised, in registration order, before any is run; the
runnable ones are then run in registration order; nothing is closed. -/
theorem start_ok_shape (cs : List Comp)
    (hi : ∀ c ∈ cs, c.failInit = false) (hr : ∀ c ∈ cs, c.runnable = true → c.failRun = false) :
    start cs = (inits cs ++ runs cs, Outcome.ok) := by
  simp [start, initPass_none cs 0 hi, runPass_none cs 0 hr, startInitBeforeRun]

/-- Init of component `i` fails (and no earlier one does): the error is reported, nothing is run,
no later component is initialised, and exactly the runnable components among the first `i+1`
are closed, in reverse order. -/
theorem init_failure_at (pre : List Comp) (c : Comp) (post : List Comp)
    (hpre : ∀ x ∈ pre, x.failInit = false) (hc : c.failInit = true) :
    start (pre ++ c :: post) =
      (inits (pre ++ [c]) ++ closesOfPrefix (pre ++ c :: post) (pre.length + 1),
       Outcome.initFailed pre.length) := by
  have h := initPass_fail pre c post 0 hpre hc
  simp only [Nat.zero_add] at h
  simp only [start, h]
  rw [closeServices_eq _ _ (by simp)]

/-- Run of component `i` fails (no init fails, no earlier run fails): every component was
initialised first, the runnables up to and including `i` were run in order, nothing after `i` is
run, and exactly the runnable components among the first `i+1` are closed in reverse order. -/
theorem run_failure_at (pre : List Comp) (c : Comp) (post : List Comp)
    (hinit : ∀ x ∈ pre ++ c :: post, x.failInit = false)
    (hpre : ∀ x ∈ pre, x.runnable = true → x.failRun = false)
    (hcr : c.runnable = true) (hc : c.failRun = true) :
    start (pre ++ c :: post) =
      (inits (pre ++ c :: post) ++ runs (pre ++ [c]) ++
         closesOfPrefix (pre ++ c :: post) (pre.length + 1),
       Outcome.runFailed pre.length) := by
  have h := runPass_fail pre c post 0 hpre hcr hc
  simp only [Nat.zero_add] at h
  simp only [start, initPass_none _ 0 hinit, startInitBeforeRun, if_true, h]
  rw [closeServices_eq _ _ (by simp)]

/-- "no use before init": in every start log (failing or not) each `run` event is preceded by the
`init` events of *all* components that get initialised at all, i.e. the log is `inits ++ rest` with
no `init` in `rest`. -/
theorem start_inits_first (cs : List Comp) :
    ∃ k rest, (start cs).1 = inits (cs.take k) ++ rest ∧ ∀ e ∈ rest, ∀ n, e ≠ Ev.init n := by
  obtain ⟨k, hk⟩ := initPass_prefix cs 0
  have hcl : ∀ idx, ∀ e ∈ closeServices cs idx, ∀ n, e ≠ Ev.init n := by
    intro idx e he n
    simp only [closeServices, closeServicesDescending, if_true] at he
    exact closeLoopDesc_noinit cs _ e he n
  simp only [start, startInitBeforeRun, if_true]
  cases h2 : (initPass cs 0).2 with
  | some i =>
    refine ⟨k, closeServices cs i, ?_, hcl i⟩
    simp [hk]
  | none =>
    cases h3 : (runPass cs 0).2 with
    | some i =>
      refine ⟨k, (runPass cs 0).1 ++ closeServices cs i, ?_, ?_⟩
      · simp [hk, List.append_assoc]
      · intro e he n
        rcases List.mem_append.mp he with h | h
        · exact runPass_noinit cs 0 e h n
        · exact hcl i e h n
    | none =>
      refine ⟨k, (runPass cs 0).1, ?_, ?_⟩
      · simp [hk]
      · intro e he n; exact runPass_noinit cs 0 e he n

/-! ## lookup -/

/-- a name registered in the child container resolves locally (shadowing the parents) -/
theorem lookup_local_first (cs : List Named) (parents : List (List Named)) (name tag : Nat)
    (h : findIn cs name = some tag) : lookup (cs :: parents) name = some tag := by
  simp [lookup, h]

/-- a name absent from the child resolves through the parents -/
theorem lookup_parent_fallback (cs : List Named) (parents : List (List Named)) (name : Nat)
    (h : findIn cs name = none) : lookup (cs :: parents) name = lookup parents name := by
  simp [lookup, h, lookupWalksParents]

/-- `findIn` returns the first registered component with that name, and `register` keeps names
unique, so it is *the* component with that name -/
theorem findIn_spec (cs : List Named) (name : Nat) :
    (findIn cs name = none ↔ ∀ c ∈ cs, c.name ≠ name) ∧
    (∀ t, findIn cs name = some t → ∃ c ∈ cs, c.name = name ∧ c.tag = t) := by
  constructor
  · unfold findIn
    cases h : cs.find? (·.name = name) with
    | none => simpa using h
    | some c =>
      have := List.find?_some h
      have hm := List.mem_of_find?_eq_some h
      simp at this
      simp; exact ⟨c, hm, this⟩
  · intro t ht
    unfold findIn at ht
    cases h : cs.find? (·.name = name) with
    | none => simp [h] at ht
    | some c =>
      simp [h] at ht
      have := List.find?_some h
      simp at this
      exact ⟨c, List.mem_of_find?_eq_some h, this, ht⟩

/-- lookup by interface (`GetComponent[T]`) resolves locally first … -/
theorem lookupT_local_first (cs : List Typed) (parents : List (List Typed)) (t tag : Nat)
    (h : findTypeIn cs t = some tag) : lookupT (cs :: parents) t = some tag := by
  simp [lookupT, h]

/-- … and then through the parents -/
theorem lookupT_parent_fallback (cs : List Typed) (parents : List (List Typed)) (t : Nat)
    (h : findTypeIn cs t = none) : lookupT (cs :: parents) t = lookupT parents t := by
  simp [lookupT, h, getComponentWalksParents]

/-! ## non-vacuity -/

example :
    start [⟨0, true, false, false, false⟩, ⟨1, false, false, false, false⟩, ⟨2, true, false, true, false⟩, ⟨3, true, false, false, false⟩]
      = ([.init 0, .init 1, .init 2, .init 3, .run 0, .run 2, .close 2, .close 0], .runFailed 2) := by
  decide

example :
    start [⟨0, true, false, false, false⟩, ⟨1, false, true, false, false⟩, ⟨2, true, false, false, false⟩]
      = ([.init 0, .init 1, .close 0], .initFailed 1) := by
  decide

example : close [⟨0, true, false, false, false⟩, ⟨1, false, false, false, false⟩, ⟨2, true, false, false, false⟩]
      = [.close 2, .close 0] := by decide

example : lookup [[⟨1, 10⟩], [⟨1, 20⟩, ⟨2, 21⟩]] 1 = some 10 ∧
          lookup [[⟨1, 10⟩], [⟨1, 20⟩, ⟨2, 21⟩]] 2 = some 21 ∧
          lookup [[⟨1, 10⟩], [⟨1, 20⟩, ⟨2, 21⟩]] 3 = none := by decide

example : lookupT [[⟨[1], 10⟩], [⟨[1, 2], 20⟩]] 1 = some 10 ∧ lookupT [[⟨[1], 10⟩], [⟨[1, 2], 20⟩]] 2 = some 20 ∧
          lookupT [[⟨[1], 10⟩], [⟨[1, 2], 20⟩]] 3 = none := by decide

end AnySync.App
