/-
C13 — Space id binds header, ACL root and settings root; one-to-one derivation is symmetric.

Only property theorems (and their non-vacuity examples) live here. `W : World B C` are the primitives
(hash, protobuf decoders, key decoder, signature verification) as parameters; `Laws W` (collision-free,
dot-free hash) and `Crypto W` (encode/decode round trips, sign/verify law) are explicit hypotheses.
`validate` is `ValidateSpaceStorageCreatePayload` as coded (Space/Model.lean).
-/
import AnySyncModel.Space.Lemmas
import AnySyncModel.Space.TermModel
import AnySyncModel.Space.OneToOne

namespace AnySync.Space
open AnySync.Generated.Space

variable {B C : Type} [DecidableEq B] [DecidableEq C]

/-- obligation on the regenerated fragment (`IsOneToOneType`, the id split, suffix and version tests of
`ValidateSpaceHeader`, the two 1-1 type strings, the enum value of header version 1) -/
theorem shape_ok : shapeOk = true ∧ headerVersion1 ≠ 0 ∧ spaceTypeOneToOne ≠ spaceTypeOneToOneAny := by decide

/-! ## acceptance = every hash and signature verifies and all parts name the same space -/

/-- **id_commits.** A payload is accepted exactly when (`Accepted`, Spec.lean): the id is
`CID(raw header) "." base36(replication key of the header)`; the raw header decodes to a header signed by
its own identity; a v1 header embeds byte-for-byte the supplied ACL root and settings root; for v0 the
ACL root and the settings root both embed the space id; the settings root names the ACL root's id; the
ids of both roots are the CIDs of their bytes; both are signed by the identity they state and the ACL
root carries the master key's signature over that identity. -/
theorem id_commits {W : World B C} (L : Laws W) (p : Payload B C) :
    validate W p = .ok () ↔ Accepted W p :=
  ⟨validate_ok, validate_of_accepted L⟩

/-- readable corollary: the accepted id is determined by the raw header alone, and its suffix is the
replication key stated inside the signed header -/
theorem id_determined_by_header {W : World B C} (p : Payload B C) (hv : validate W p = .ok ()) :
    ∃ hd hb sg header, p.header = some hd ∧ W.decRaw hd.raw = some (hb, sg) ∧ W.decHeader hb = some header ∧
      hd.id = mkId W hd.raw header.replKey := by
  obtain ⟨hd, hb, hsg, header, hk, _, _, _, _, _, _, _, _, _, hp, hacc, _⟩ := validate_ok hv
  exact ⟨hd, hb, hsg, header, hp, hacc.2.1, hacc.2.2.1, hacc.1⟩

/-! ## constructors -/

/-- every v0 constructor output (create v0, derive v0) validates -/
theorem constructors_validate_v0 {W : World B C} (L : Laws W) (K : Crypto W) (i : CreateIn B)
    (hty : isOneToOneType i.ty = true → W.decO2O i.hpayload = true) :
    validate W (buildV0 K i) = .ok () := by
  apply validate_of_accepted L
  have h0 : (0 : Nat) ≠ headerVersion1 := by decide
  refine ⟨_, _, _, _, _, _, _, _, _, _, _, _, _, _, rfl,
    ⟨rfl, K.dec_encRaw _ _, K.dec_encHeader _, K.dec_encKey _, (K.verify_iff _ _ _).mpr rfl, ?_, hty⟩,
    ⟨rfl, K.dec_encRaw _ _, K.dec_encAclRoot _, K.dec_encKey _, (K.verify_iff _ _ _).mpr rfl, K.dec_encKey _,
      (K.verify_iff _ _ _).mpr rfl⟩,
    ⟨rfl, K.dec_encRaw _ _, K.dec_encRoot _, K.dec_encKey _, (K.verify_iff _ _ _).mpr rfl⟩, ?_, rfl⟩
  · intro h; exact absurd h h0
  · intro _; exact ⟨rfl, rfl⟩

/-- every v1 constructor output (create v1, derive v1, one-to-one) validates -/
theorem constructors_validate_v1 {W : World B C} (L : Laws W) (K : Crypto W) (i : CreateIn B)
    (hty : isOneToOneType i.ty = true → W.decO2O i.hpayload = true) :
    validate W (buildV1 K i) = .ok () := by
  apply validate_of_accepted L
  refine ⟨_, _, _, _, _, _, _, _, _, _, _, _, _, _, rfl,
    ⟨rfl, K.dec_encRaw _ _, K.dec_encHeader _, K.dec_encKey _, (K.verify_iff _ _ _).mpr rfl, ?_, hty⟩,
    ⟨rfl, K.dec_encRaw _ _, K.dec_encAclRoot _, K.dec_encKey _, (K.verify_iff _ _ _).mpr rfl, K.dec_encKey _,
      (K.verify_iff _ _ _).mpr rfl⟩,
    ⟨rfl, K.dec_encRaw _ _, K.dec_encRoot _, K.dec_encKey _, (K.verify_iff _ _ _).mpr rfl⟩, ?_, rfl⟩
  · intro _; simp [buildV1, checkEmbedded]
  · intro h; exact absurd rfl h

/-- all six constructors: create v0/v1 (any inputs with a non-1-1 type), derive v0/v1, one-to-one of
both types -/
theorem constructors_validate {W : World B C} (L : Laws W) (K : Crypto W) (D : DH) :
    (∀ i : CreateIn B, isOneToOneType i.ty = false → validate W (buildV0 K i) = .ok () ∧ validate W (buildV1 K i) = .ok ()) ∧
    (∀ sk master ty hp fp, isOneToOneType ty = false →
      validate W (buildV0 K (deriveIn K sk master ty hp fp)) = .ok () ∧
      validate W (buildV1 K (deriveIn K sk master ty hp fp)) = .ok ()) ∧
    (∀ aSk bPk ty, validate W (oneToOne K D aSk bPk ty) = .ok ()) := by
  refine ⟨fun i h => ⟨constructors_validate_v0 L K i (by simp [h]), constructors_validate_v1 L K i (by simp [h])⟩,
    fun sk master ty hp fp h => ⟨constructors_validate_v0 L K _ (by simp [deriveIn, h]),
      constructors_validate_v1 L K _ (by simp [deriveIn, h])⟩, ?_⟩
  intro aSk bPk ty
  exact constructors_validate_v1 L K _ (fun _ => K.dec_encO2O _ _)

/-! ## modifying any part causes rejection -/

/-- each (id, bytes) pair of an accepted payload is rigid: two accepted payloads that agree on the id
OR on the bytes of a part agree on the whole part. -/
theorem pair_binding {W : World B C} (L : Laws W) (p p' : Payload B C)
    (hv : validate W p = .ok ()) (hv' : validate W p' = .ok ()) :
    (∀ hd hd', p.header = some hd → p'.header = some hd' → (hd'.id = hd.id ∨ hd'.raw = hd.raw) → hd' = hd) ∧
    ((p'.acl.id = p.acl.id ∨ p'.acl.payload = p.acl.payload) → p'.acl = p.acl) ∧
    ((p'.settings.id = p.settings.id ∨ p'.settings.payload = p.settings.payload) → p'.settings = p.settings) := by
  obtain ⟨hd, hb, hsg, header, hk, arb, asg, aroot, ak, amk, srb, ssg, sroot, sk, hp, hacc, haacc, hsacc, _, _⟩ := validate_ok hv
  obtain ⟨hd', hb', hsg', header', hk', arb', asg', aroot', ak', amk', srb', ssg', sroot', sk', hp', hacc', haacc', hsacc', _, _⟩ := validate_ok hv'
  refine ⟨?_, ?_, ?_⟩
  · intro x x' hx hx' h
    rw [hp] at hx; rw [hp'] at hx'; cases hx; cases hx'
    have hraw : hd'.raw = hd.raw := by
      rcases h with h | h
      · have e := hacc'.1; rw [h, hacc.1] at e
        exact L.hash_inj _ _ (split_unique (L.hash_nodot _) (L.hash_nodot _) e).1.symm
      · exact h
    have hid : hd'.id = hd.id := by
      have e1 := hacc'.2.1; rw [hraw, hacc.2.1] at e1; cases e1
      have e2 := hacc'.2.2.1; rw [hacc.2.2.1] at e2; cases e2
      rw [hacc'.1, hacc.1, hraw]
    cases hd; cases hd'; simp_all
  · intro h
    have hpl : p'.acl.payload = p.acl.payload := by
      rcases h with h | h
      · apply L.hash_inj; rw [← haacc'.1, ← haacc.1, h]
      · exact h
    have hid : p'.acl.id = p.acl.id := by rw [haacc'.1, haacc.1, hpl]
    cases h1 : p.acl; cases h2 : p'.acl; simp_all
  · intro h
    have hpl : p'.settings.payload = p.settings.payload := by
      rcases h with h | h
      · apply L.hash_inj; rw [← hsacc'.1, ← hsacc.1, h]
      · exact h
    have hid : p'.settings.id = p.settings.id := by rw [hsacc'.1, hsacc.1, hpl]
    cases h1 : p.settings; cases h2 : p'.settings; simp_all

/-- the six parts of a payload -/
inductive Part where
  | headerId | rawHeader | aclId | aclBytes | settingsId | settingsBytes
  deriving DecidableEq, Repr

/-- `p'` equals `p` except possibly in part `x` (the nil flags of the slices are those of `p`) -/
def AgreeExcept (x : Part) (p p' : Payload B C) : Prop :=
  p'.aclNil = p.aclNil ∧ p'.setNil = p.setNil ∧
  (∃ hd hd', p.header = some hd ∧ p'.header = some hd' ∧
    (x ≠ .headerId → hd'.id = hd.id) ∧ (x ≠ .rawHeader → hd'.raw = hd.raw)) ∧
  (x ≠ .aclId → p'.acl.id = p.acl.id) ∧ (x ≠ .aclBytes → p'.acl.payload = p.acl.payload) ∧
  (x ≠ .settingsId → p'.settings.id = p.settings.id) ∧ (x ≠ .settingsBytes → p'.settings.payload = p.settings.payload)

/-- **single_part_mutation_rejected.** Replace any ONE of the six parts of an accepted payload (space
id, raw header, ACL id, ACL root bytes, settings id, settings root bytes) by anything different — a
flipped byte, a re-encoded field edit, another space's part, a dropped or rewritten suffix: the result
is rejected. Holds for v0 and v1, from collision-freedom of the hash alone. -/
theorem single_part_mutation_rejected {W : World B C} (L : Laws W) (x : Part) (p p' : Payload B C)
    (hv : validate W p = .ok ()) (hagree : AgreeExcept x p p') (hne : p' ≠ p) :
    validate W p' ≠ .ok () := by
  intro hv'
  obtain ⟨hh, ha, hs⟩ := pair_binding L p p' hv hv'
  obtain ⟨hf1, hf2, ⟨hd, hd', hp, hp', hhid, hhraw⟩, haid, hapl, hsid, hspl⟩ := hagree
  apply hne
  have e1 : hd' = hd := by
    apply hh hd hd' hp hp'
    by_cases hx : x = .headerId
    · exact Or.inr (hhraw (by rw [hx]; decide))
    · exact Or.inl (hhid hx)
  have e2 : p'.acl = p.acl := by
    apply ha
    by_cases hx : x = .aclId
    · exact Or.inr (hapl (by rw [hx]; decide))
    · exact Or.inl (haid hx)
  have e3 : p'.settings = p.settings := by
    apply hs
    by_cases hx : x = .settingsId
    · exact Or.inr (hspl (by rw [hx]; decide))
    · exact Or.inl (hsid hx)
  cases p; cases p'; simp_all

/-- a dropped header is rejected, whatever the rest -/
theorem missing_header_rejected {W : World B C} (p : Payload B C) (h : p.header = none) :
    validate W p ≠ .ok () := by
  intro hv
  obtain ⟨hd, _, _, _, _, _, _, _, _, _, _, _, _, _, hp, _⟩ := validate_ok hv
  rw [h] at hp; cases hp

/-! ## cross-combination of parts from two valid spaces -/

/-- the three-part splice: header of `p`; ACL root from `q` iff `a`; settings root from `q` iff `s` -/
def splice (p q : Payload B C) (a s : Bool) : Payload B C :=
  ⟨p.header, if a then q.acl else p.acl, if a then q.aclNil else p.aclNil,
   if s then q.settings else p.settings, if s then q.setNil else p.setNil⟩

/-- the header version found in an accepted payload -/
def HeaderVersionIs (W : World B C) (p : Payload B C) (v : Nat → Prop) : Prop :=
  ∀ hd hb sg header, p.header = some hd → W.decRaw hd.raw = some (hb, sg) → W.decHeader hb = some header → v header.version

/-- **v1: the header commits to exactly one ACL root and one settings root.** Keep the header of an
accepted v1 payload and supply ANY other roots (from another valid space, forged, re-signed …, slices
non-nil): accepted only if they are byte-for-byte the original ones. -/
theorem cross_splice_rejected_v1 {W : World B C} (L : Laws W) (p p' : Payload B C)
    (hv : validate W p = .ok ()) (hv1 : HeaderVersionIs W p (· = headerVersion1))
    (hwf : p.aclNil = false ∧ p.setNil = false) (hwf' : p'.aclNil = false ∧ p'.setNil = false)
    (hh : p'.header = p.header) (hv' : validate W p' = .ok ()) : p' = p := by
  obtain ⟨hd, hb, hsg, header, hk, arb, asg, aroot, ak, amk, srb, ssg, sroot, sk, hp, hacc, haacc, hsacc, _, _⟩ := validate_ok hv
  obtain ⟨hd', hb', hsg', header', hk', arb', asg', aroot', ak', amk', srb', ssg', sroot', sk', hp', hacc', haacc', hsacc', _, _⟩ := validate_ok hv'
  rw [hh, hp] at hp'; cases hp'
  have e1 := hacc'.2.1; rw [hacc.2.1] at e1; cases e1
  have e2 := hacc'.2.2.1; rw [hacc.2.2.1] at e2; cases e2
  have hver := hv1 hd hb hsg header hp hacc.2.1 hacc.2.2.1
  have c := hacc.2.2.2.2.2.1 hver
  have c' := hacc'.2.2.2.2.2.1 hver
  simp only [hwf.1, hwf.2, hwf'.1, hwf'.2, checkEmbedded, Bool.false_eq_true, if_false, decide_eq_true_eq] at c c'
  obtain ⟨_, ha, hs⟩ := pair_binding L p p' hv hv'
  have ea := ha (Or.inr (c'.1.trans c.1.symm))
  have es := hs (Or.inr (c'.2.trans c.2.symm))
  cases p; cases p'; simp_all

/-- **v0 × v0.** Any combination of the parts of two accepted v0 payloads is accepted only if it is one
of the two originals. -/
theorem cross_splice_rejected_v0 {W : World B C} (L : Laws W) (p q : Payload B C) (a s : Bool)
    (hvp : validate W p = .ok ()) (hvq : validate W q = .ok ())
    (hp0 : HeaderVersionIs W p (· ≠ headerVersion1)) (hq0 : HeaderVersionIs W q (· ≠ headerVersion1))
    (hwf : p.aclNil = q.aclNil ∧ p.setNil = q.setNil)
    (hv : validate W (splice p q a s) = .ok ()) : splice p q a s = p ∨ splice p q a s = q := by
  obtain ⟨hd, hb, hsg, header, hk, arb, asg, aroot, ak, amk, srb, ssg, sroot, sk, hp, hacc, haacc, hsacc, hids, hhead⟩ := validate_ok hvp
  obtain ⟨qd, qb, qsg, qheader, qk, qarb, qasg, qaroot, qak, qamk, qsrb, qssg, qsroot, qsk, hq, qacc, qaacc, qsacc, qids, qhead⟩ := validate_ok hvq
  obtain ⟨md, mb, msg, mheader, mk, marb, masg, maroot, mak, mamk, msrb, mssg, msroot, msk, hm, macc, maacc, msacc, mids, mhead⟩ := validate_ok hv
  have hmd : md = hd := by simp only [splice] at hm; rw [hp] at hm; cases hm; rfl
  subst hmd
  have e1 := macc.2.1; rw [hacc.2.1] at e1; cases e1
  have e2 := macc.2.2.1; rw [hacc.2.2.1] at e2; cases e2
  have hpv := hp0 md hb hsg header hp hacc.2.1 hacc.2.2.1
  have hqv := hq0 qd qb qsg qheader hq qacc.2.1 qacc.2.2.1
  obtain ⟨hpa, hps⟩ := hids hpv
  obtain ⟨hqa, hqs⟩ := qids hqv
  obtain ⟨hma, hms⟩ := mids hpv
  -- decoding is functional: roots of the splice are the roots of the part they came from
  cases a <;> cases s
  · left; cases p; simp [splice]
  · -- ACL of p, settings of q
    right
    simp only [splice, Bool.false_eq_true, if_false, if_true] at maacc msacc mhead hms hma
    have r1 := msacc.2.1; rw [qsacc.2.1] at r1; cases r1
    have r2 := msacc.2.2.1; rw [qsacc.2.2.1] at r2; cases r2
    -- settings of q names q's ACL id and q's space id
    have hacl : q.acl = p.acl := (pair_binding L p q hvp hvq).2.1 (Or.inl (qhead.symm.trans mhead))
    have hid : qd.id = md.id := hqs.symm.trans hms
    have hhd : qd = md := (pair_binding L p q hvp hvq).1 md qd hp hq (Or.inl hid)
    cases p; cases q; simp_all [splice]
  · -- ACL of q, settings of p
    left
    simp only [splice, Bool.false_eq_true, if_false, if_true] at maacc msacc mhead hms hma
    have r1 := msacc.2.1; rw [hsacc.2.1] at r1; cases r1
    have r2 := msacc.2.2.1; rw [hsacc.2.2.1] at r2; cases r2
    have hacl : q.acl = p.acl := (pair_binding L p q hvp hvq).2.1 (Or.inl (mhead.symm.trans hhead))
    cases p; cases q; simp_all [splice]
  · -- both roots of q
    right
    simp only [splice, if_true] at maacc msacc mhead hms hma
    have r1 := maacc.2.1; rw [qaacc.2.1] at r1; cases r1
    have r2 := maacc.2.2.1; rw [qaacc.2.2.1] at r2; cases r2
    have hid : qd.id = md.id := hqa.symm.trans hma
    have hhd : qd = md := (pair_binding L p q hvp hvq).1 md qd hp hq (Or.inl hid)
    cases p; cases q; simp_all [splice]

/-- **v0 header × roots of a v1 space.** The roots every v1 constructor builds name no space, so
offering one or both of them under an accepted v0 header is always rejected. -/
theorem cross_splice_rejected_v0_v1 {W : World B C} (K : Crypto W) (p : Payload B C) (i : CreateIn B) (a s : Bool)
    (hvp : validate W p = .ok ()) (hp0 : HeaderVersionIs W p (· ≠ headerVersion1)) (has : a = true ∨ s = true) :
    validate W (splice p (buildV1 K i) a s) ≠ .ok () := by
  intro hv
  obtain ⟨hd, hb, hsg, header, hk, _, _, _, _, _, _, _, _, _, hp, hacc, _, _, _, _⟩ := validate_ok hvp
  obtain ⟨md, mb, msg, mheader, mk, marb, masg, maroot, mak, mamk, msrb, mssg, msroot, msk, hm, macc, maacc, msacc, mids, mhead⟩ := validate_ok hv
  have hmd : md = hd := by simp only [splice] at hm; rw [hp] at hm; cases hm; rfl
  subst hmd
  have e1 := macc.2.1; rw [hacc.2.1] at e1; cases e1
  have e2 := macc.2.2.1; rw [hacc.2.2.1] at e2; cases e2
  obtain ⟨hma, hms⟩ := mids (hp0 md hb hsg header hp hacc.2.1 hacc.2.2.1)
  have hne : md.id ≠ [] := by rw [hacc.1]; simp
  rcases has with h | h
  · subst h
    simp only [splice, if_true, buildV1] at maacc
    have r1 := maacc.2.1; rw [K.dec_encRaw] at r1; cases r1
    have r2 := maacc.2.2.1; rw [K.dec_encAclRoot] at r2; cases r2
    exact hne hma.symm
  · subst h
    simp only [splice, if_true, buildV1] at msacc
    have r1 := msacc.2.1; rw [K.dec_encRaw] at r1; cases r1
    have r2 := msacc.2.2.1; rw [K.dec_encRoot] at r2; cases r2
    exact hne hms.symm

/-- six-part splices reduce to three-part ones: in an accepted payload assembled from the parts of two
accepted payloads, each (id, bytes) pair comes entirely from one of them. -/
theorem cross_splice_parts {W : World B C} (L : Laws W) (p q m : Payload B C)
    (hvp : validate W p = .ok ()) (hvq : validate W q = .ok ()) (hvm : validate W m = .ok ())
    (hacl : (m.acl.id = p.acl.id ∨ m.acl.id = q.acl.id))
    (hset : (m.settings.id = p.settings.id ∨ m.settings.id = q.settings.id)) :
    (m.acl = p.acl ∨ m.acl = q.acl) ∧ (m.settings = p.settings ∨ m.settings = q.settings) ∧
    (∀ md pd qd, m.header = some md → p.header = some pd → q.header = some qd →
      (md.id = pd.id ∨ md.id = qd.id ∨ md.raw = pd.raw ∨ md.raw = qd.raw) → md = pd ∨ md = qd) := by
  have bp := pair_binding L p m hvp hvm
  have bq := pair_binding L q m hvq hvm
  refine ⟨?_, ?_, ?_⟩
  · rcases hacl with h | h
    · exact Or.inl (bp.2.1 (Or.inl h))
    · exact Or.inr (bq.2.1 (Or.inl h))
  · rcases hset with h | h
    · exact Or.inl (bp.2.2 (Or.inl h))
    · exact Or.inr (bq.2.2 (Or.inl h))
  · intro md pd qd hm hp hq h
    rcases h with h | h | h | h
    · exact Or.inl (bp.1 pd md hp hm (Or.inl h))
    · exact Or.inr (bq.1 qd md hq hm (Or.inl h))
    · exact Or.inl (bp.1 pd md hp hm (Or.inr h))
    · exact Or.inr (bq.1 qd md hq hm (Or.inr h))

/-! ## the v0 limitation, stated exactly -/

/-- full-strength reading of "the header commits to exactly one ACL root and one settings root" for a
header of version `v`: whoever keeps the header of an accepted payload cannot get different roots accepted -/
def HeaderCommitsToRoots (W : World B C) (p : Payload B C) : Prop :=
  ∀ p' : Payload B C, p'.header = p.header → p'.aclNil = p.aclNil → p'.setNil = p.setNil →
    validate W p' = .ok () → p' = p

/-- for v1 it holds (this is `cross_splice_rejected_v1`) -/
theorem header_commits_to_roots_v1 {W : World B C} (L : Laws W) (K : Crypto W) (i : CreateIn B)
    (hty : isOneToOneType i.ty = true → W.decO2O i.hpayload = true) :
    HeaderCommitsToRoots W (buildV1 K i) := by
  intro p' hh hn1 hn2 hv'
  refine cross_splice_rejected_v1 L (buildV1 K i) p' (constructors_validate_v1 L K i hty) ?_ ⟨rfl, rfl⟩ ⟨hn1, hn2⟩ hh hv'
  intro hd hb sg header hp hr hdec
  simp only [buildV1, Option.some.injEq] at hp
  subst hp
  rw [K.dec_encRaw] at hr; cases hr
  rw [K.dec_encHeader] at hdec; cases hdec
  rfl

/-- **for v0 it is refuted**: a v0 header commits to its roots only through the space id they embed and
the ACL head named by the settings root. Anyone (keys `sk'`, `master'` unrelated to the owner) can issue
an ACL root and a settings root that name the space id; with the original header they form an accepted
payload different from the original. This is the documented v0 limitation (a property of the format,
closed by header version 1), not a defect of the validator's implementation of it. -/
theorem header_commits_to_roots_v0_refuted {W : World B C} (L : Laws W) (K : Crypto W) (i : CreateIn B)
    (hty : isOneToOneType i.ty = true → W.decO2O i.hpayload = true)
    (sk' master' : Nat) (hsk : K.pub sk' ≠ K.pub i.sk) :
    ¬ HeaderCommitsToRoots W (buildV0 K i) := by
  intro hc
  have h0 : (0 : Nat) ≠ headerVersion1 := by decide
  have hv : validate W (forgeRootsV0 K i sk' master') = .ok () := by
    apply validate_of_accepted L
    refine ⟨_, _, _, _, _, _, _, _, _, _, _, _, _, _, rfl,
      ⟨rfl, K.dec_encRaw _ _, K.dec_encHeader _, K.dec_encKey _, (K.verify_iff _ _ _).mpr rfl, ?_, hty⟩,
      ⟨rfl, K.dec_encRaw _ _, K.dec_encAclRoot _, K.dec_encKey _, (K.verify_iff _ _ _).mpr rfl, K.dec_encKey _,
        (K.verify_iff _ _ _).mpr rfl⟩,
      ⟨rfl, K.dec_encRaw _ _, K.dec_encRoot _, K.dec_encKey _, (K.verify_iff _ _ _).mpr rfl⟩, ?_, rfl⟩
    · intro h; exact absurd h h0
    · intro _; exact ⟨rfl, rfl⟩
  have heq := hc (forgeRootsV0 K i sk' master') rfl rfl rfl hv
  -- but the forged ACL root states another identity
  have hacl := congrArg (fun p => W.decRaw p.acl.payload) heq
  simp only [forgeRootsV0, buildV0, K.dec_encRaw, Option.some.injEq, Prod.mk.injEq] at hacl
  have d2 := congrArg W.decAclRoot hacl.1
  simp only [K.dec_encAclRoot, Option.some.injEq, AclRoot.mk.injEq] at d2
  have d3 := congrArg W.decKey d2.1
  simp only [K.dec_encKey, Option.some.injEq] at d3
  exact hsk d3

/-! ## one-to-one derivation -/

/-- obligation on the regenerated fragment of `util/crypto/x25519.go` / `makeOneToOneInfo`: the HKDF
context of `GenerateSharedKey` is built from the two Ed25519 IDENTITIES (not from their X25519 images),
it is sorted, and the writers are sorted -/
theorem context_from_identities :
    kdfContextFromIdentities = true ∧ kdfContextSorted = true ∧ writersSorted = true := by decide

/-- **oneToOne_symmetric.** From the Diffie–Hellman law `X25519(a, mont(pub b)) = X25519(b, mont(pub a))`:
party `a` with `b`'s identity and party `b` with `a`'s identity derive the identical payload — space id,
raw header, ACL root, settings root — and the identical joint key (from which read and metadata keys
are derived). No timestamp or seed enters the constructor. -/
theorem oneToOne_symmetric {W : World B C} (K : Crypto W) (D : DH)
    (hdh : ∀ a b, D.dh a (D.mont (D.pub b)) = D.dh b (D.mont (D.pub a))) (a b ty : Nat) :
    oneToOne K D a (D.pub b) ty = oneToOne K D b (D.pub a) ty ∧
    sharedKey D a (D.pub b) = sharedKey D b (D.pub a) := by
  have hs : ∀ x y : Nat, sortPair x y = sortPair y x := by
    intro x y; simp only [sortPair]; split <;> split <;> simp_all <;> omega
  have hk : sharedKey D a (D.pub b) = sharedKey D b (D.pub a) := by
    simp only [sharedKey, sharedKeyWith, kdfContext, hdh a b, hs (D.pub a) (D.pub b),
      hs (D.mont (D.pub a)) (D.mont (D.pub b))]
  exact ⟨by simp only [oneToOne, oneToOneCore, hk, hs (D.pub a) (D.pub b)], hk⟩

/-- with the context built from the identities, the joint key determines the unordered pair of
IDENTITIES, provided the KDF output determines its context (HKDF collision-freedom in `info`) -/
theorem sharedKey_determines_identities (D : DH)
    (hkdf : ∀ s c s' c', D.kdf s c = D.kdf s' c' → c = c') (a bId a' bId' : Nat)
    (h : sharedKey D a bId = sharedKey D a' bId') :
    sortPair (D.pub a) bId = sortPair (D.pub a') bId' := by
  have := hkdf _ _ _ _ h
  simpa [kdfContext, kdfContextFromIdentities] using this

/-- **oneToOne_injective.** Hypotheses (stated, cryptographic): the KDF output determines its context
argument; `pub`, the encoders and the hash are injective (the latter two are part of `Crypto`/`Laws`).
Then equal space ids — or equal ACL roots — can only come from the same unordered pair of IDENTITIES
(and, for the id, the same type): no other key pair derives them — in particular not an identity and
its Edwards negation, which share their X25519 key. Uses `kdfContextFromIdentities = true`
(regenerated from the source): with a context built from the X25519 keys the statement is false, see
`montgomery_context_collides`. -/
theorem oneToOne_injective {W : World B C} (L : Laws W) (K : Crypto W) (D : DH)
    (hpub : ∀ x y, K.pub x = K.pub y → x = y)
    (hkdf : ∀ s c s' c', D.kdf s c = D.kdf s' c' → c = c')
    (a bId ty a' bId' ty' : Nat) :
    ((oneToOne K D a bId ty).headerId = (oneToOne K D a' bId' ty').headerId →
      sortPair (D.pub a) bId = sortPair (D.pub a') bId' ∧ ty = ty') ∧
    ((oneToOne K D a bId ty).acl.id = (oneToOne K D a' bId' ty').acl.id →
      sortPair (D.pub a) bId = sortPair (D.pub a') bId') := by
  refine ⟨?_, ?_⟩
  · intro h
    simp only [oneToOne, buildV1, Payload.headerId, mkId] at h
    have h1 := L.hash_inj _ _ (split_unique (L.hash_nodot _) (L.hash_nodot _) h).1
    have d1 := congrArg W.decRaw h1
    simp only [K.dec_encRaw, Option.some.injEq, Prod.mk.injEq] at d1
    have d2 := congrArg W.decHeader d1.1
    simp only [K.dec_encHeader, Option.some.injEq, Header.mk.injEq, oneToOneIn, oneToOneCore] at d2
    have d3 := congrArg W.decKey d2.1
    simp only [K.dec_encKey, Option.some.injEq] at d3
    exact ⟨sharedKey_determines_identities D hkdf _ _ _ _ (hpub _ _ d3), d2.2.2.2.2.2.2.2⟩
  · intro h
    simp only [oneToOne, buildV1] at h
    have h1 := L.hash_inj _ _ h
    have d1 := congrArg W.decRaw h1
    simp only [K.dec_encRaw, Option.some.injEq, Prod.mk.injEq] at d1
    have d2 := congrArg W.decAclRoot d1.1
    simp only [K.dec_encAclRoot, Option.some.injEq, AclRoot.mk.injEq, oneToOneIn, oneToOneCore] at d2
    have d3 := congrArg W.decKey d2.1
    simp only [K.dec_encKey, Option.some.injEq] at d3
    exact sharedKey_determines_identities D hkdf _ _ _ _ (hpub _ _ d3)

/-- the counter-model: were the HKDF context built from the X25519 public keys, two different
identities with the same X25519 image (a point and its negation) would derive the same joint key with
any partner — "no other key pair derives them" would fail while the symmetry still held. -/
theorem montgomery_context_collides (D : DH) (a bId bId' : Nat) (hm : D.mont bId = D.mont bId') :
    sharedKeyWith D false a bId = sharedKeyWith D false a bId' := by
  simp [sharedKeyWith, kdfContext, hm]

/-! ## non-vacuity: the hypotheses are satisfiable, the conclusions are not trivially true -/

/-- the symbolic laws (`Laws`, `Crypto`, the DH law) hold in the free term algebra of
Space/TermModel.lean: every hypothesis used above is jointly satisfiable -/
theorem laws_satisfiable :
    ∃ (W : World Term Term) (K : Crypto W) (D : DH), Laws W ∧
      (∀ a b, D.dh a (D.mont (D.pub b)) = D.dh b (D.mont (D.pub a))) ∧
      (∀ s c s' c', D.kdf s c = D.kdf s' c' → c = c') ∧ (∀ x y, K.pub x = K.pub y → x = y) :=
  ⟨Term.world, Term.crypto, Term.dhToy, Term.laws, Term.dhToy_comm, Term.dhToy_kdf_inj, fun _ _ h => h⟩

-- identities 4 and 5 are "negations" of each other in the toy (same X25519 image): with the identity
-- context their joint keys with partner 1 differ, with a Montgomery context they would coincide
example : sharedKeyWith Term.dhToy true 1 4 ≠ sharedKeyWith Term.dhToy true 1 5 ∧
    sharedKeyWith Term.dhToy false 1 4 = sharedKeyWith Term.dhToy false 1 5 ∧
    Term.dhToy.mont 4 = Term.dhToy.mont 5 := by decide

private def exIn : CreateIn Term := ⟨1, 2, "anytype.space".toList, 4001199, .atom 5, 7, 8, 9⟩
private def exIn' : CreateIn Term := ⟨3, 4, "anytype.space".toList, 35, .atom 6, 7, 8, 9⟩

-- constructor outputs validate (evaluated, not only by the theorem)
example : accepts Term.world (buildV0 Term.crypto exIn) = true := by decide
example : accepts Term.world (buildV1 Term.crypto exIn) = true := by decide
example : accepts Term.world (oneToOne Term.crypto Term.dhToy 1 2 0) = true := by decide
example : oneToOne Term.crypto Term.dhToy 1 2 1 = oneToOne Term.crypto Term.dhToy 2 1 1 := by decide
-- a wrong suffix, a foreign ACL root, a foreign settings root, a stranger's signature: rejected, with the
-- error class of the Go code
example : rejectsWith Term.world { buildV0 Term.crypto exIn with
    header := some ⟨mkId Term.world (Term.raw (.atom 1) (.atom 2)) 5, Term.raw (.atom 1) (.atom 2)⟩ } .malformed = true := by decide
example : rejectsWith Term.world (splice (buildV0 Term.crypto exIn) (buildV0 Term.crypto exIn') true false) .incorrectHeader = true := by decide
example : rejectsWith Term.world (splice (buildV1 Term.crypto exIn) (buildV1 Term.crypto exIn') false true) .incorrectHeader = true := by decide
example : rejectsWith Term.world (splice (buildV0 Term.crypto exIn) (buildV1 Term.crypto exIn') true true) .incorrectHeader = true := by decide
-- the v0 limitation, evaluated: forged roots naming the space id are accepted under a v0 header
example : accepts Term.world (forgeRootsV0 Term.crypto exIn 3 4) = true ∧
    forgeRootsV0 Term.crypto exIn 3 4 ≠ buildV0 Term.crypto exIn := by decide

/-! ## the one-to-one root as the ACL state reads it (`setOneToOneAcl`, onetoone.go)

"no other key pair derives them", at the point where an account turns a root into keys: whatever the
payload validator let through, building the ACL state yields keys only to an account that is one of
exactly two listed writers AND whose own derivation with the other listed writer reproduces the owner
key of the root. -/

/-- **o2o_state_shape.** Whoever builds the state: acceptance needs exactly two writers and an owner. -/
theorem o2o_state_shape (P : O2OPrims) (me : Nat) (i : O2OInfo) (s : O2OState)
    (h : setOneToOne P me i = .ok s) : i.writers.length = 2 ∧ i.owner.isSome = true := by
  obtain ⟨w0, w1, o, hw, ho, _⟩ := setOneToOne_ok h
  simp [hw, ho]

/-- **o2o_state_found_me_agrees**: `findMeAndValidateOneToOne` rejects exactly the malformed lists
`setOneToOneAcl` rejects first, and the state records whether I am listed. -/
theorem o2o_state_found_me_agrees (P : O2OPrims) (me : Nat) (i : O2OInfo) (s : O2OState)
    (h : setOneToOne P me i = .ok s) : findMe P me i = .ok s.foundMe := by
  obtain ⟨w0, w1, o, hw, ho, h2⟩ := setOneToOne_ok h
  obtain ⟨_, _, _, _, _, _, _, hf, _⟩ := setTwo_ok h2
  simp [findMe, hw, ho, hf]

/-- **o2o_keys_only_for_listed_genuine_party.** If building the state leaves keys `k` in it, then I am
one of the two listed writers, the OTHER listed entry decodes to a key `bob`, my own
`GenerateSharedKey(me, bob)` succeeded with result `k`, and the root's owner is exactly the public key
of `k`. Nothing in the root is trusted for the keys: they are re-derived. -/
theorem o2o_keys_only_for_listed_genuine_party (P : O2OPrims) (me : Nat) (i : O2OInfo) (s : O2OState) (k : Nat)
    (h : setOneToOne P me i = .ok s) (hk : s.keys = some k) :
    ∃ w0 w1 bob, i.writers = [w0, w1] ∧
      (w0 = P.marshal (P.pub me) ∨ w1 = P.marshal (P.pub me)) ∧
      P.decKey (if w0 = P.marshal (P.pub me) then w1 else w0) = some bob ∧
      P.shared me bob = some k ∧ i.owner = some (P.marshal (P.pub k)) := by
  obtain ⟨w0, w1, o, hw, ho, h2⟩ := setOneToOne_ok h
  obtain ⟨_, _, _, _, _, _, _, _, hcase⟩ := setTwo_ok h2
  rcases hcase with ⟨hl, k', hd, hk'⟩ | ⟨_, hn⟩
  · rw [hk] at hk'; cases hk'
    obtain ⟨bob, hb, hs, hoo⟩ := deriveKeys_ok hd
    refine ⟨w0, w1, bob, hw, ?_, hb, hs, by rw [ho, hoo]⟩
    simpa [listed] using hl
  · rw [hk] at hn; cases hn

/-- **o2o_outsider_gets_no_keys.** An account that is not listed (a node, a stranger) may build the
state — it stores the space — but never obtains keys from it. -/
theorem o2o_outsider_gets_no_keys (P : O2OPrims) (me : Nat) (i : O2OInfo) (s : O2OState)
    (h : setOneToOne P me i = .ok s) (hme : P.marshal (P.pub me) ∉ i.writers) : s.keys = none := by
  cases hk : s.keys with
  | none => rfl
  | some k =>
    obtain ⟨w0, w1, _, hw, hor, _⟩ := o2o_keys_only_for_listed_genuine_party P me i s k h hk
    rw [hw] at hme
    rcases hor with h0 | h1
    · exact absurd (by simp [h0]) hme
    · exact absurd (by simp [h1]) hme

/-- **o2o_listed_party_gets_keys.** Conversely a listed account never ends with a key-less state:
either it re-derives the owner key (and holds the keys) or building the state fails. -/
theorem o2o_listed_party_gets_keys (P : O2OPrims) (me : Nat) (i : O2OInfo) (s : O2OState)
    (h : setOneToOne P me i = .ok s) (hme : P.marshal (P.pub me) ∈ i.writers) : s.keys.isSome = true := by
  obtain ⟨w0, w1, o, hw, ho, h2⟩ := setOneToOne_ok h
  obtain ⟨_, _, _, _, _, _, _, _, hcase⟩ := setTwo_ok h2
  rcases hcase with ⟨_, k', _, hk'⟩ | ⟨hl, _⟩
  · simp [hk']
  · rw [hw] at hme
    simp only [List.mem_cons, List.not_mem_nil, or_false] at hme
    rcases hme with e | e <;> simp [listed, ← e] at hl

/-- **o2o_accounts_exact.** The account table of an accepted one-to-one root: the decoded writers are
writers, the decoded owner key is the owner (unless it is also listed as a writer: the later map write
wins), and NO other key has any permission. -/
theorem o2o_accounts_exact (P : O2OPrims) (me : Nat) (i : O2OInfo) (s : O2OState)
    (h : setOneToOne P me i = .ok s) :
    ∃ w0 w1 o k0 k1 ko, i.writers = [w0, w1] ∧ i.owner = some o ∧
      P.decKey w0 = some k0 ∧ P.decKey w1 = some k1 ∧ P.decKey o = some ko ∧
      ∀ k, lookupAcc s.accounts k =
        if k = k1 ∨ k = k0 then some .writer else if k = ko then some .owner else none := by
  obtain ⟨w0, w1, o, hw, ho, h2⟩ := setOneToOne_ok h
  obtain ⟨ko, k0, k1, hko, hk0, hk1, hacc, _, _⟩ := setTwo_ok h2
  refine ⟨w0, w1, o, k0, k1, ko, hw, ho, hk0, hk1, hko, ?_⟩
  intro k
  rw [hacc]
  simp only [lookupAcc, List.find?]
  by_cases h1 : k1 = k
  · simp [h1]
  · have h1' : ¬ k = k1 := fun e => h1 e.symm
    by_cases h0 : k0 = k
    · simp [h1, h0]
    · have h0' : ¬ k = k0 := fun e => h0 e.symm
      by_cases hk : ko = k
      · simp [h1, h0, h1', h0', hk]
      · have hk' : ¬ k = ko := fun e => hk e.symm
        simp [h1, h0, hk, h1', h0', hk']

/-- **o2o_genuine_root_usable_by_both.** The root `makeOneToOneInfo` builds for identities `pub a`,
`pub b` (owner = public joint key, writers sorted) is accepted by party `a` and by party `b`, and both
end in the SAME state — same account table, same keys: the joint key of `oneToOne_symmetric`.
Hypotheses: X25519 commutativity, `decKey (marshal k) = some k`, `marshal` injective. -/
theorem o2o_genuine_root_usable_by_both (D : DH) (marshal : Nat → Nat) (dec : Nat → Option Nat)
    (hdh : ∀ a b, D.dh a (D.mont (D.pub b)) = D.dh b (D.mont (D.pub a)))
    (hrt : ∀ k, dec (marshal k) = some k) (hinj : ∀ x y, marshal x = marshal y → x = y) (a b : Nat) :
    let P : O2OPrims := ⟨dec, marshal, D.pub, fun x y => some (sharedKey D x y)⟩
    let j := sharedKey D a (D.pub b)
    ∃ s, setOneToOne P a (genuineInfo P j (D.pub a) (D.pub b)) = .ok s ∧
      setOneToOne P b (genuineInfo P j (D.pub a) (D.pub b)) = .ok s ∧ s.keys = some j := by
  intro P j
  have hsym : sharedKey D b (D.pub a) = sharedKey D a (D.pub b) :=
    ((oneToOne_symmetric Term.crypto D hdh a b 0).2).symm
  by_cases hab : marshal (D.pub a) = marshal (D.pub b)
  · have hpub : D.pub a = D.pub b := hinj _ _ hab
    have hsym' : sharedKey D b (D.pub b) = sharedKey D a (D.pub b) := by
      have h := hsym; rw [hpub] at h; exact h
    refine ⟨⟨[(D.pub b, .writer), (D.pub b, .writer), (D.pub j, .owner)], some j, true⟩, ?_, ?_, rfl⟩ <;>
      simp [setOneToOne, setTwo, listed, genuineInfo, sortPair, deriveKeys, hrt, Except.map, hpub, P, j, hsym']
  · have hba : ¬ marshal (D.pub b) = marshal (D.pub a) := fun e => hab e.symm
    by_cases hle : marshal (D.pub a) ≤ marshal (D.pub b)
    · refine ⟨⟨[(D.pub b, .writer), (D.pub a, .writer), (D.pub j, .owner)], some j, true⟩, ?_, ?_, rfl⟩ <;>
        simp [setOneToOne, setTwo, listed, genuineInfo, sortPair, hle, deriveKeys, hrt, Except.map, hab, hba, P, j, hsym]
    · refine ⟨⟨[(D.pub a, .writer), (D.pub b, .writer), (D.pub j, .owner)], some j, true⟩, ?_, ?_, rfl⟩ <;>
        simp [setOneToOne, setTwo, listed, genuineInfo, sortPair, hle, deriveKeys, hrt, Except.map, hab, hba, P, j, hsym]

/-- **o2o_replaced_partner_rejected.** A root that carries the genuine A–B joint key as owner but lists
A next to an entry that decodes to X ≠ B is rejected by party A: the owner key A re-derives with X
differs from the A–B key, because the KDF context is built from the identities. Hypotheses: KDF output
determines its context; `pub` and `marshal` injective. -/
theorem o2o_replaced_partner_rejected (D : DH) (marshal : Nat → Nat) (dec : Nat → Option Nat)
    (hkdf : ∀ s c s' c', D.kdf s c = D.kdf s' c' → c = c')
    (hpub : ∀ x y, D.pub x = D.pub y → x = y) (hinj : ∀ x y, marshal x = marshal y → x = y)
    (a bId xId w0 w1 : Nat) (hx : xId ≠ bId)
    (hlisted : w0 = marshal (D.pub a) ∨ w1 = marshal (D.pub a))
    (hother : dec (if w0 = marshal (D.pub a) then w1 else w0) = some xId) :
    let P : O2OPrims := ⟨dec, marshal, D.pub, fun x y => some (sharedKey D x y)⟩
    ∀ s, setOneToOne P a ⟨some (marshal (D.pub (sharedKey D a bId))), [w0, w1]⟩ ≠ .ok s := by
  intro P s h
  have hmem : P.marshal (P.pub a) ∈ ([w0, w1] : List Nat) := by
    rcases hlisted with h0 | h1
    · simp [P, h0]
    · simp [P, h1]
  have hsome := o2o_listed_party_gets_keys P a _ s h hmem
  cases hk : s.keys with
  | none => simp [hk] at hsome
  | some k =>
    obtain ⟨w0', w1', bob, hw, _, hb, hs, ho⟩ := o2o_keys_only_for_listed_genuine_party P a _ s k h hk
    simp only [List.cons.injEq, and_true] at hw
    obtain ⟨rfl, rfl⟩ := hw
    have hbob : bob = xId := by
      have hb' : dec (if w0 = marshal (D.pub a) then w1 else w0) = some bob := hb
      rw [hother] at hb'; exact (Option.some.inj hb').symm
    subst hbob
    have hk' : sharedKey D a bob = k := Option.some.inj hs
    have ho' : marshal (D.pub (sharedKey D a bId)) = marshal (D.pub k) := Option.some.inj ho
    have hkk : sharedKey D a bId = sharedKey D a bob := by rw [hk']; exact hpub _ _ (hinj _ _ ho')
    have hsp := sharedKey_determines_identities D hkdf a bId a bob hkk
    simp only [sortPair] at hsp
    split at hsp <;> split at hsp <;> simp only [Prod.mk.injEq] at hsp <;> omega

/-- **o2o_constructor_info_is_genuine.** The one-to-one info the payload constructor encodes into header
and ACL root (`oneToOneIn`: `encO2O (pub shared) writers` of `oneToOneCore`) is exactly the root
`genuineInfo` the ACL-state theorems speak about (marshalling taken as the identity on symbols): the
constructor side (`oneToOne_symmetric`) and the reader side (`o2o_genuine_root_usable_by_both`) meet. -/
theorem o2o_constructor_info_is_genuine (D : DH) (dec : Nat → Option Nat) (a b ty : Nat) :
    let c := oneToOneCore D a (D.pub b) ty
    genuineInfo ⟨dec, id, D.pub, fun x y => some (sharedKey D x y)⟩ c.shared (D.pub a) (D.pub b) =
      ⟨some (D.pub c.shared), [c.writers.1, c.writers.2]⟩ := rfl

-- non-vacuity, evaluated in the toy instance: the genuine root of (1, 2) is usable by 1 and by 2 with
-- the same keys, not by 3; with a third writer, a dropped writer or 2 replaced by 3 nobody gets a state
private def toyP : O2OPrims := ⟨some, id, Term.dhToy.pub, fun x y => some (sharedKey Term.dhToy x y)⟩
private def toyJ : Nat := sharedKey Term.dhToy 1 (Term.dhToy.pub 2)
private def toyI : O2OInfo := genuineInfo toyP toyJ (Term.dhToy.pub 1) (Term.dhToy.pub 2)
private def keysOf (r : Except O2OErr O2OState) : Option (Option Nat) :=
  match r with | .ok s => some s.keys | .error _ => none
private def errOf (r : Except O2OErr O2OState) : Option O2OErr :=
  match r with | .ok _ => none | .error e => some e
example : keysOf (setOneToOne toyP 1 toyI) = some (some toyJ) ∧
    keysOf (setOneToOne toyP 2 toyI) = some (some toyJ) ∧
    keysOf (setOneToOne toyP 3 toyI) = some none := by decide
example : errOf (setOneToOne toyP 1 ⟨toyI.owner, toyI.writers ++ [Term.dhToy.pub 3]⟩) = some .count ∧
    errOf (setOneToOne toyP 1 ⟨toyI.owner, [Term.dhToy.pub 1]⟩) = some .count ∧
    errOf (setOneToOne toyP 1 ⟨none, toyI.writers⟩) = some .ownerEmpty ∧
    errOf (setOneToOne toyP 1 ⟨toyI.owner, [Term.dhToy.pub 1, Term.dhToy.pub 3]⟩) = some .ownerMismatch ∧
    errOf (setOneToOne toyP 3 ⟨toyI.owner, [Term.dhToy.pub 1, Term.dhToy.pub 3]⟩) = some .ownerMismatch := by decide

end AnySync.Space
