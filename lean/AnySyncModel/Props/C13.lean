import AnySyncModel.Space.Model
namespace AnySync.Space
open AnySync.Generated.Space
theorem shape_ok : shapeOk = true := by decide
end AnySync.Space
