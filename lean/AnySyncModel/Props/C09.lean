import AnySyncModel.Tree.Loader
import AnySyncModel.Tree.LoaderLemmas
import AnySyncModel.Tree.ApplyLemmas
import AnySyncModel.Tree.ObjectTreeLemmas
import AnySyncModel.Tree.RecvLemmas
/-!
C09 - full-sync responses are complete, causally ordered and size-bounded.

Model: `AnySync.Tree` (`Tree/Loader.lean`): `commonSnapshot` (= `commonSnapshotForTwoPaths`), `removedSet`
(= the marking DFS of `loadIterator.load`), `nextBatch`/`batches`/`respond` (= `NextBatch` and the
`HandleStreamRequest` loop).  `cache` is the responder's stored sequence from the common snapshot on.

Vocabulary (`Tree/LoaderLemmas.lean`): `flat bs` all changes of all batches in the order sent; `keep rm l`
the sub-sequence of `l` not marked removed; `Edge`/`Reach cache` the ancestor relation along stored
`PrevIds`; `LinExt cache` "a cached parent of a cached change is stored earlier" (this is what C06
establishes for the stored order).

Only property theorems and their non-vacuity examples in this file.
-/
namespace AnySync.Props.C09
open AnySync.Tree

/-! ### common snapshot -/

/-- **commonSnapshot_spec**: for two snapshot paths (newest first) of one tree - i.e. two lists that end in
the same chain `s` and differ right before it - the result is the most recent common snapshot, the head of
`s`. -/
theorem commonSnapshot_spec (a b s : List Nat) (hs : s ≠ [])
    (hmax : ∀ x y, a.getLast? = some x → b.getLast? = some y → x ≠ y) :
    commonSnapshot (a ++ s) (b ++ s) = s.head? :=
  commonSnapshot_suffix a b s hs hmax

/-- … and `ErrNoCommonSnapshot` is returned exactly when the two paths share no element. -/
theorem commonSnapshot_error_iff (ours theirs : List Nat) :
    commonSnapshot ours theirs = none ↔ ∀ x ∈ ours, x ∉ theirs :=
  commonSnapshot_none

example : commonSnapshot [9, 7, 4, 1] [8, 6, 4, 1] = some 4 ∧ commonSnapshot [9, 7] [8, 6] = none ∧
    commonSnapshot [4, 1] [8, 6, 4, 1] = some 4 := by decide

/-! ### size bound -/

/-- **batch_size_bound**: every batch of an answer stays below the limit, except that a batch may consist
of one single (oversized) change. No batch is empty. -/
theorem batch_size_bound (cache : List SChange) (theirHeads : List Nat) (max : Nat) :
    ∀ b ∈ respond cache theirHeads max, b.size < max ∨ b.changes.length = 1 := by
  intro b hb
  have := batches_bound _ max _ cache b hb
  simpa [Batch.size, sizeSum] using this

example : (respond [⟨1, [], 6⟩, ⟨2, [1], 6⟩, ⟨3, [2], 60⟩, ⟨4, [3], 1⟩] [] 13).map (·.ids) = [[1, 2], [3], [4]] := by
  decide

/-! ### nothing twice, nothing skipped, everything sent -/

/-- **batches_disjoint_and_resume** / **batches_complete**: the concatenation of all batches is *exactly* the
stored sequence from the common snapshot on without the changes marked removed, in stored order: no change
is lost or repeated at a batch boundary, whatever the limit. -/
theorem batches_exact (cache : List SChange) (theirHeads : List Nat) (max : Nat) :
    flat (respond cache theirHeads max) = keep (fun x => (removedSet cache theirHeads).contains x) cache :=
  batches_flat _ max _ cache (Nat.lt_succ_self _)

/-- complete: a stored change that is not an ancestor-or-equal of a head announced by the requester is sent -/
theorem batches_complete (cache : List SChange) (theirHeads : List Nat) (max : Nat) (c : SChange)
    (hc : c ∈ cache) (hnot : ¬ ∃ h ∈ theirHeads, Reach cache h c.id) :
    c ∈ flat (respond cache theirHeads max) := by
  rw [batches_exact]
  refine List.mem_filter.mpr ⟨hc, ?_⟩
  have : c.id ∉ removedSet cache theirHeads := fun h => hnot (removedSet_sound cache theirHeads _ h)
  simpa using this

/-- duplicate-free: if stored ids are unique, no id is sent twice -/
theorem batches_disjoint (cache : List SChange) (theirHeads : List Nat) (max : Nat)
    (hnd : (cache.map (·.id)).Nodup) : ((flat (respond cache theirHeads max)).map (·.id)).Nodup := by
  rw [batches_exact]
  exact List.Nodup.sublist (List.Sublist.map _ List.filter_sublist) hnd

/-- an empty-heads request returns the whole stored sequence (from the root when the path is empty too) -/
theorem empty_request_whole (cache : List SChange) (max : Nat) :
    flat (respond cache [] max) = cache := by
  rw [batches_exact]
  have : removedSet cache [] = [] := by
    unfold removedSet; cases h : loadFuel cache [] <;> simp [markRemoved]
  simp [this, keep]

/-- what is withheld is known to the requester: only ancestors-or-equal of the heads it announced -/
theorem removed_only_known (cache : List SChange) (theirHeads : List Nat) :
    ∀ x ∈ removedSet cache theirHeads, ∃ h ∈ theirHeads, Reach cache h x :=
  removedSet_sound cache theirHeads

example : (respond [⟨1, [], 5⟩, ⟨2, [1], 5⟩, ⟨3, [1], 5⟩, ⟨4, [2, 3], 5⟩] [2] 11).map (·.ids) = [[3, 4]] ∧
    removedSet [⟨1, [], 5⟩, ⟨2, [1], 5⟩, ⟨3, [1], 5⟩, ⟨4, [2, 3], 5⟩] [2] = [1, 2] := by decide

/-! ### causal order -/

/-- **batches_causal**: when the stored order is a linear extension (C06), every sent change comes after each
of its parents, unless that parent is withheld as known to the requester (`removed_only_known`) or lies
before the common snapshot. -/
theorem batches_causal (cache : List SChange) (theirHeads : List Nat) (max : Nat) (hlin : LinExt cache)
    (s1 : List SChange) (c : SChange) (s2 : List SChange)
    (h : flat (respond cache theirHeads max) = s1 ++ c :: s2) :
    ∀ p ∈ c.prevs, p ∈ s1.map (·.id) ∨ p ∈ removedSet cache theirHeads ∨ p ∉ cache.map (·.id) := by
  intro p hp
  rw [batches_exact] at h
  rcases keep_causal _ cache hlin s1 c s2 h p hp with h1 | h1 | h1
  · exact Or.inl h1
  · exact Or.inr (Or.inl (by simpa using h1))
  · exact Or.inr (Or.inr h1)

example : LinExt [⟨1, [], 5⟩, ⟨2, [1], 5⟩, ⟨3, [1], 5⟩, ⟨4, [2, 3], 5⟩] := by
  intro l1 c l2 h p hp hin
  match l1, h with
  | [], h => simp at h; obtain ⟨rfl, _⟩ := h; simp at hp
  | [_], h => simp at h; obtain ⟨rfl, rfl, _⟩ := h; simpa using hp
  | [_, _], h => simp at h; obtain ⟨rfl, rfl, rfl, _⟩ := h; simp at hp; simp [hp]
  | [_, _, _], h => simp at h; obtain ⟨rfl, rfl, rfl, rfl, _⟩ := h; simp at hp; rcases hp with rfl | rfl <;> simp
  | _ :: _ :: _ :: _ :: _ :: _, h => simp at h

/-! ### announced heads -/

/-- **heads_consistent**: for one `NextBatch` over the not yet consumed stored sequence `l`, with `looked` the
part of `l` the call consumed: the batch is exactly the non-removed part of `looked`; every announced head
is a change of `looked` (hence sent in this batch, or withheld as known to the requester); and every change
of `looked` - in particular every change of the batch - is an ancestor-or-equal of an announced head. -/
theorem heads_consistent (rm : Nat → Bool) (max : Nat) (cache l : List SChange) (hsub : ∀ d ∈ l, d ∈ cache) :
    ∃ looked : List SChange, looked ++ (nextBatch rm max l).2 = l ∧
      (nextBatch rm max l).1.changes = keep rm looked ∧
      (∀ x ∈ (nextBatch rm max l).1.heads, ∃ d ∈ looked, d.id = x ∧ (rm x = true ∨ d ∈ (nextBatch rm max l).1.changes)) ∧
      (∀ d ∈ (nextBatch rm max l).1.changes, ∃ y ∈ (nextBatch rm max l).1.heads, Reach cache y d.id) := by
  obtain ⟨looked, h1, h2, h3, h4⟩ := nextBatch_heads rm max cache l hsub
  refine ⟨looked, h1, h2, ?_, ?_⟩
  · intro x hx
    obtain ⟨d, hd, hdx⟩ := List.mem_map.mp (h3 x hx)
    refine ⟨d, hd, hdx, ?_⟩
    by_cases hr : rm x = true
    · exact Or.inl hr
    · right; rw [h2]; exact List.mem_filter.mpr ⟨hd, by simp [hdx, hr]⟩
  · intro d hd
    rw [h2] at hd
    exact h4 d (List.mem_filter.mp hd).1

/-- **skip_is_safe**: a receiver that holds all announced heads of a batch and whose held set is closed under
parents (as far as they are in `cache`) holds every change of that batch - so `AddRawChangesFromPeer` may
skip it. -/
theorem skip_is_safe (rm : Nat → Bool) (max : Nat) (cache l : List SChange) (hsub : ∀ d ∈ l, d ∈ cache)
    (held : Nat → Prop) (hclosed : ∀ x p, held x → Edge cache x p → held p)
    (hheads : ∀ x ∈ (nextBatch rm max l).1.heads, held x) :
    ∀ d ∈ (nextBatch rm max l).1.changes, held d.id := by
  intro d hd
  obtain ⟨_, _, _, _, h4⟩ := heads_consistent rm max cache l hsub
  obtain ⟨y, hy, hr⟩ := h4 d hd
  have : ∀ a b, Reach cache a b → held a → held b := by
    intro a b hab
    induction hab with
    | refl => exact id
    | step e _ ih => exact fun ha => ih (hclosed _ _ ha e)
  exact this y d.id hr (hheads y hy)

example : (nextBatch (fun x => x == 1 || x == 2) 11 [⟨1, [], 5⟩, ⟨2, [1], 5⟩, ⟨3, [1], 5⟩, ⟨4, [2, 3], 5⟩]).1
    = ⟨[⟨3, [1], 5⟩, ⟨4, [2, 3], 5⟩], [4]⟩ := by decide

/-! ### a responder that keeps changing while it streams

`batchesI inCache removed max ins` is the `NewResponse` loop over the responder's CURRENT stored sequence, an
adversary `ins` storing further changes (not in the iterator's cache) before every `NextBatch` call. -/

/-- **interleaving_invisible**: changes the responder stores after the loader was built - before or between the
`NextBatch` calls - never show: the batches (changes and announced heads) are exactly those of the quiescent loader on
the cached sequence.  In particular they are never announced as heads (`heads_consistent` keeps holding), never sent,
and do not shift a batch boundary. -/
theorem interleaving_invisible (inCache removed : Nat → Bool) (max : Nat) (ins : Nat → List SChange → List SChange)
    (hins : ∀ i l, (ins i l).filter (fun c => inCache c.id) = l.filter (fun c => inCache c.id))
    (fuel : Nat) (l : List SChange) :
    batchesI inCache removed max ins fuel 0 l = batches removed max fuel (l.filter (fun c => inCache c.id)) :=
  batchesI_eq inCache removed max ins hins fuel 0 l

/-- a new head `9` stored before the first call and `8` before the second one: same batches as without them -/
example :
    batchesI (fun x => x ≤ 4) (fun _ => false) 11 (fun i l => if i = 0 then l ++ [⟨9, [4], 5⟩] else ⟨8, [9], 5⟩ :: l) 5 0
      [⟨1, [], 5⟩, ⟨2, [1], 5⟩, ⟨3, [1], 5⟩, ⟨4, [2, 3], 5⟩]
    = batches (fun _ => false) 11 5 [⟨1, [], 5⟩, ⟨2, [1], 5⟩, ⟨3, [1], 5⟩, ⟨4, [2, 3], 5⟩] := by decide

/-! ### applying the batches

`cs` lists the responder's stored changes from the common snapshot on, each with its size; `toS` is its stored
record (what the loader works on), `toC cs` gives the change back (what the receiver unmarshals). -/

/-- **apply_attaches_all**, full strength: a receiver tree (`AnySync.Tree.T`, nothing pending) that holds what the
loader withholds, what lies before the common snapshot, and for every stored change its snapshot unless that is
stored earlier (a snapshot is an ancestor) - every stored change it does not hold having previous ids (only the
root has none) - is fed the batches of `respond` in order through `add` (= `Tree.Add`);
afterwards it holds every sent change. -/
def C09_apply_attaches_all_full : Prop :=
  ∀ (cs : List (Change × Nat)) (theirHeads : List Nat) (max : Nat) (t : T),
    LinExt (cs.map toS) → ((cs.map toS).map (·.id)).Nodup → t.root.isSome = true → t.unatt = [] →
    (∀ x ∈ removedSet (cs.map toS) theirHeads, t.has x = true) →
    (∀ c ∈ cs.map toS, ∀ p ∈ c.prevs, p ∉ (cs.map toS).map (·.id) → t.has p = true) →
    (∀ l1 p l2, cs = l1 ++ p :: l2 → t.has p.1.snap = true ∨ p.1.snap ∈ l1.map (·.1.id)) →
    (∀ p ∈ cs, p.1.prevs ≠ [] ∨ t.has p.1.id = true) →
    ∀ c ∈ flat (respond (cs.map toS) theirHeads max),
      ((respond (cs.map toS) theirHeads max).foldl (fun t b => (add t (b.changes.map (toC cs))).tree) t).has c.id = true

theorem apply_attaches_all : C09_apply_attaches_all_full :=
  fun cs theirHeads max t hlin hnd hroot hun hrm hbefore hsnap hpar =>
    apply_attaches cs theirHeads max t hlin hnd hroot hun hrm hbefore hsnap hpar

/-- non-vacuity: a receiver holding only the root is sent the diamond in batches of two and ends up with all of it -/
example :
    let cs : List (Change × Nat) := [(⟨1, [], 0, true⟩, 5), (⟨2, [1], 1, false⟩, 5), (⟨3, [1], 1, false⟩, 5), (⟨4, [2, 3], 1, false⟩, 5)]
    let t : T := { root := some 1, att := [⟨1, [], 0, true⟩], lastIter := 1 }
    ((respond (cs.map toS) [1] 11).map (·.ids) = [[2, 3], [4]]) ∧
    (((respond (cs.map toS) [1] 11).foldl (fun t b => (add t (b.changes.map (toC cs))).tree) t).att.map (·.id) = [1, 2, 3, 4]) := by
  decide

/-! ### the receiver on the real path (`ObjectTree.AddRawChanges`)

`addRaw` (`Tree/ObjectTree.lean`) models `addChangesToTree`: skip what is attached in memory; if some new change cites
a snapshot that is neither the in-memory root nor arriving in the same batch, rebuild from storage at the common
snapshot of the two snapshot paths and re-add (stored sequence from there, then the not yet stored changes, through
`AddFast` into an empty tree); otherwise `Tree.Add` into the in-memory tree.  `Recv`/`RecvStep`/`RecvRun` make the
receiver a state machine (storage update after each step, in-memory root free to move to a snapshot of the new tree). -/

/-- **the receiver half on the real path**, full strength: a receiver whose state is consistent (`recvOk`: for every
snapshot `cs` of its path the storage from `cs` on satisfies `StoredFor` for some attached set, the in-memory tree
being the one at the head of the path) runs over the batches of an answer that is causal for it (`senderOk`: every
previous id / snapshot base of a sent change is stored by the receiver or sent earlier; only stored changes lack
previous ids); afterwards it stores every sent change. -/
def C09_apply_real_path_full : Prop :=
  ∀ (q0 q : Recv) (theirPath : List Nat) (batches : List (List Change)),
    -- recvOk
    q0.tree.unatt = [] → q0.tree.root = q0.path.head? → q0.tree.root.isSome = true →
    (∀ cs ∈ q0.path, ∃ csC rest A, q0.stored.dropWhile (·.id != cs) = csC :: rest ∧ StoredFor A cs csC rest ∧
      (q0.tree.root = some cs → A.Perm q0.tree.att)) →
    -- senderOk
    (∀ l1 c l2, batches.flatten = l1 ++ c :: l2 →
      (∀ p ∈ c.prevs, q0.holds p = true ∨ p ∈ l1.map (·.id)) ∧ (q0.holds c.snap = true ∨ c.snap ∈ l1.map (·.id)) ∧
      (c.prevs ≠ [] ∨ q0.holds c.id = true)) →
    (∃ cs, commonSnapshot q0.path theirPath = some cs) →
    RecvRun theirPath q0 batches q →
    ∀ c ∈ batches.flatten, q.holds c.id = true

/-- **apply_real_path_partial**: one `AddRawChanges` step, both branches.
* in-memory branch: a batch that is causal for the in-memory tree is attached completely;
* rebuild branch: with `A` what the storage attaches from the common snapshot `cs`, if the not yet stored changes of
  the batch extend it (`StoredFor (A ++ E) cs csC (rest ++ E)`), the rebuilt tree is rooted at `cs`, holds exactly
  `A` and those changes, and reports exactly them as added (so they are written to storage).
Exact gap to `C09_apply_real_path_full`: that the hypotheses are re-established after every step - i.e. that the
storage update (`StorageUpdate`, proved order-wise by C06 `storage_order`) and the root move keep, for every snapshot
of the new path, the storage *closed under attachability* and every change stored after its snapshot base.  This
is the receiver-side snapshot invariant (Inv-S of the sync area, `Sync.SnapInv`/`RootOk`, proved there for the
abstract protocol); it is not derived here for the concrete `Recv` machine.  The harness exercises exactly this
path (`apply.attach`, `apply.complete`, `settle` oracles; `objecttree.addraw` and `tree.rebuild` streams). -/
theorem apply_real_path_partial (stored : List Change) (ourPath theirPath : List Nat) (t : T) (batch : List Change)
    (t' : T) (added : List Nat) :
    (t.unatt = [] → t.root.isSome = true → CausalFor t (newOf t batch) →
      addRaw stored ourPath theirPath t batch = .plain t' added →
      t'.root = t.root ∧ ∀ c ∈ batch, t'.has c.id = true) ∧
    (∀ (cs : Nat) (csC : Change) (rest A : List Change),
      commonSnapshot ourPath theirPath = some cs → stored.dropWhile (·.id != cs) = csC :: rest →
      StoredFor (A ++ extraOf stored t batch) cs csC (rest ++ extraOf stored t batch) →
      addRaw stored ourPath theirPath t batch = .rebuilt t' added →
      t'.root = some cs ∧ t'.unatt = [] ∧ (∀ d, d ∈ t'.att ↔ d ∈ A ∨ d ∈ extraOf stored t batch) ∧
      (∀ x, x ∈ added ↔ x ∈ (extraOf stored t batch).map (·.id)) ∧
      (∀ c ∈ batch, t.has c.id = false → stored.any (·.id == c.id) = false → t'.has c.id = true)) :=
  ⟨fun hun hroot hcaus hres => addRaw_plain stored ourPath theirPath t batch t' added hun hroot hcaus hres,
   fun cs csC rest A hcs hload hst hres =>
     addRaw_rebuilt stored ourPath theirPath t batch cs csC rest A t' added hcs hload hst hres⟩

/-! #### towards the full run (round 5)

`SInv stored`: unique ids, every stored change other than the first (the tree root) stored after all its previous ids
and its snapshot base (ancestor-closed storage, stored order a linear extension incl. the snapshot edge).
`StepHyp q theirPath b`: what one step needs - memory ⊆ storage; in-memory branch: the new changes are causal for the
tree; rebuild branch: a causal enumeration from the common snapshot containing the new changes + `SnapOK` + unique ids.
-/

/-- the storage invariant survives every admissible storage update (`updateHeads` + `AddAll`, cf. C06 `storage_order`) -/
theorem storage_update_keeps_sinv (old new added : List Change) (hu : StorageUpdate old new added) (hs : SInv old) :
    SInv new :=
  storageUpdate_sinv hu hs

/-- the rebuild branch for an honest DAG: if the storage followed by the not yet stored changes of the batch is a linear
extension, and below the common snapshot `cs` the DAG is entered only through `cs` (`D` marks what is strictly below;
C06 `honest_entry` derives this from `Honest`), then the rebuilt tree is rooted at `cs`, holds every new change and
reports each of them as added. -/
theorem rebuild_branch_from_entry (pre rest : List Change) (ourPath theirPath : List Nat) (t : T) (batch : List Change)
    (cs : Nat) (csC : Change) (t' : T) (added : List Nat) (D : Nat → Bool)
    (hcs : commonSnapshot ourPath theirPath = some cs)
    (hload : (pre ++ csC :: rest).dropWhile (·.id != cs) = csC :: rest)
    (hid : csC.id = cs) (hself : cs ∉ csC.prevs)
    (hF : SInv ((pre ++ csC :: rest) ++ extraOf (pre ++ csC :: rest) t batch))
    (hrootprev : ∀ p ∈ csC.prevs, ∀ c ∈ rest ++ extraOf (pre ++ csC :: rest) t batch, c.id ≠ p)
    (hs : SnapOK (rest ++ extraOf (pre ++ csC :: rest) t batch) (baseTree cs csC))
    (D0 : D cs = false) (Dpre : ∀ c ∈ pre, D c.id = false)
    (D1 : ∀ c ∈ rest ++ extraOf (pre ++ csC :: rest) t batch, D c.id = true →
      c.prevs ≠ [] ∧ (∀ p ∈ c.prevs, p = cs ∨ D p = true) ∧ (c.snap = cs ∨ D c.snap = true))
    (D2 : ∀ c ∈ extraOf (pre ++ csC :: rest) t batch, D c.id = true)
    (hres : addRaw (pre ++ csC :: rest) ourPath theirPath t batch = .rebuilt t' added) :
    t'.root = some cs ∧ t'.unatt = [] ∧
    ∀ c ∈ extraOf (pre ++ csC :: rest) t batch, t'.has c.id = true ∧ c.id ∈ added :=
  addRaw_rebuilt_entry pre rest ourPath theirPath t batch cs csC t' added D hcs hload hid hself hF hrootprev hs
    D0 Dpre D1 D2 hres

/-- **one step stores the batch**: under `StepHyp`, after `RecvStep` the receiver stores everything it stored before
and every change of the batch (whichever branch `addRaw` takes). -/
theorem apply_real_step_stores (q q' : Recv) (theirPath : List Nat) (b : List Change)
    (hh : StepHyp q theirPath b) (hstep : RecvStep q theirPath b q') :
    (∀ x, q.holds x = true → q'.holds x = true) ∧ ∀ c ∈ b, q'.holds c.id = true :=
  recvStep_holds q q' theirPath b hh hstep

/-- **the run stores every sent change, by the invariant rule**: for ANY invariant `I` of the receiver (and the batches
still to come) that is preserved by `RecvStep` and implies `StepHyp`, a `RecvRun` from an `I`-state ends storing every
change of every batch.  The exact remaining obligation for `C09_apply_real_path_full` is therefore
`∃ I` with `I q0 batches` for a consistent receiver and the batches of `respond` of an honest responder: i.e. that
`StepHyp` is re-established after every storage update and root move.  `SInv` is re-established
(`storage_update_keeps_sinv`); what is not derived for the concrete machine is (a) the entry property below the common
snapshot of every later step (C06 `honest_entry` gives it from `Honest` of the global DAG; `Honest` itself is the sync
area's Inv-S, proved there for the abstract protocol), (b) `SnapOK` at the common snapshot (the snapshot base of a change
is attached whenever its previous ids are: it is an ancestor of one of them *below the common snapshot* - needs that no
sent change cites a snapshot older than the common snapshot), (c) that the in-memory tree holds every stored change
descending from its root after a root move (closure under attachability). -/
theorem apply_real_path_of_invariant (theirPath : List Nat) (I : Recv → List (List Change) → Prop)
    (hpres : ∀ q b bs q', I q (b :: bs) → RecvStep q theirPath b q' → I q' bs)
    (hok : ∀ q b bs, I q (b :: bs) → StepHyp q theirPath b)
    (q0 q : Recv) (batches : List (List Change)) (hI : I q0 batches) (hrun : RecvRun theirPath q0 batches q) :
    ∀ c ∈ batches.flatten, q.holds c.id = true :=
  (recvRun_holds theirPath I hpres hok q0 q batches hI hrun).2

/-- an instance of the rebuild branch: the receiver is reduced to snapshot `2` (path `2,1`) and stores `1,2,3`; a
sender still rooted at `1` (path `1`) delivers `5` (child of `1`, snapshot base `1`): the tree is rebuilt at `1` and
holds `1,2,3,5`; `5` is reported as added -/
example :
    let stored : List Change := [⟨1, [], 0, true⟩, ⟨2, [1], 1, true⟩, ⟨3, [2], 2, false⟩]
    let t : T := { root := some 2, att := [⟨2, [1], 1, true⟩, ⟨3, [2], 2, false⟩], lastIter := 3 }
    (addRaw stored [2, 1] [1] t [⟨5, [1], 1, false⟩]).kind = "rebuilt" ∧
    (addRaw stored [2, 1] [1] t [⟨5, [1], 1, false⟩]).added = [5] ∧
    ((addRaw stored [2, 1] [1] t [⟨5, [1], 1, false⟩]).tree?.map (fun t' => (t'.root, iter 1 t'.att)))
      = some (some 1, [1, 2, 3, 5]) := by decide

/-- the loader half, stated on its own -/
def C09_apply_loader_half : Prop :=
  ∀ (cache : List SChange) (theirHeads : List Nat) (max : Nat) (held : Nat → Prop),
    LinExt cache →
    (∀ x ∈ removedSet cache theirHeads, held x) →
    (∀ c ∈ cache, ∀ p ∈ c.prevs, p ∉ cache.map (·.id) → held p) →
    ∀ s1 c s2, flat (respond cache theirHeads max) = s1 ++ c :: s2 →
      ∀ p ∈ c.prevs, held p ∨ p ∈ s1.map (·.id)

/-- the loader half on its own: every parent of a sent change is already held by the receiver or was sent earlier -/
theorem apply_attaches_all_partial : C09_apply_loader_half := by
  intro cache theirHeads max held hlin hrm hbefore s1 c s2 h p hp
  rcases batches_causal cache theirHeads max hlin s1 c s2 h p hp with h1 | h1 | h1
  · exact Or.inr h1
  · exact Or.inl (hrm p h1)
  · left
    have hc : c ∈ cache := by
      have : c ∈ flat (respond cache theirHeads max) := by rw [h]; simp
      rw [batches_exact] at this
      exact (List.mem_filter.mp this).1
    exact hbefore c hc p hp h1

end AnySync.Props.C09
