import AnySyncModel.Tree.Loader
import AnySyncModel.Tree.LoaderLemmas
/-!
C09 - full-sync responses are complete, causally ordered and size-bounded.
Model: `AnySync.Tree` (`Tree/Loader.lean`). Only property theorems and their non-vacuity examples here.
-/
namespace AnySync.Props.C09
open AnySync.Tree

/-- **batch_size_bound**: a batch stays below the limit unless it consists of a single change. -/
theorem batch_size_bound (removed : Nat → Bool) (max : Nat) (rest : List SChange) (hmax : 0 < max) :
    (nextBatch removed max rest).1.size < max ∨ (nextBatch removed max rest).1.changes.length ≤ 1 := by
  have := scan_bound removed max rest 0 [] [] rfl (Or.inl hmax)
  simpa [nextBatch, Batch.size, sizeSum] using this

example : (nextBatch (fun _ => false) 10 [⟨1, [], 6⟩, ⟨2, [1], 6⟩]).1.changes.length = 1 ∧
          (nextBatch (fun _ => false) 10 [⟨1, [], 60⟩, ⟨2, [1], 6⟩]).1.size = 60 := by decide

end AnySync.Props.C09
