/-
C14 — Handshake: mutual version gating, proven identity, same verdict on both sides.

Model: `Handshake/Model.lean` (mirrors `handshake.go`, `credential.go`, the two checkers; constants,
whitelists and the set of pooled fields cleared by `release()` are regenerated from the source).
Spec vocabulary: `Handshake/Spec.lean`. Helper lemmas: `Handshake/Lemmas.lean`.

Quantification: all configurations of the two ends (versions, accepted lists, verification modes,
accounts, peer ids as each end was given them), all byte streams and both end conditions (peer
closes / peer goes silent), all decoders, all well-formed encoders, all pool histories.
-/
import AnySyncModel.Handshake.Lemmas

namespace AnySync.Props.C14
open AnySync.Handshake AnySync.Generated.Handshake

/-- the extractor recognised every source shape it reads (constants, guard, whitelists, release) -/
theorem shape_ok : shapeOk = true := by decide

/-! ### 1. both ends reach the same verdict; success ⇔ mutual version gating + identity proofs -/

/-- **same verdict**: over a reliable stream with well-encoded frames, for every configuration of
the two ends, both report success or both report failure. -/
theorem same_verdict {dec : Decoder} {enc : Encoder} {oc ic : Cfg} (W : WellEncoded dec enc oc ic) :
    (connect dec enc oc ic .fresh .fresh).out.verdict.isOk =
    (connect dec enc oc ic .fresh .fresh).inc.verdict.isOk := by
  have h := connect_eval W
  simp only at h
  cases hA : inChecksOut oc ic <;> cases hB : outChecksIn oc ic <;> rw [hA, hB] at h <;> simp only at h
  · rw [h.1, h.2]
  · rw [h.1, h.2]
  · rw [h.1, h.2]
  · rw [h.1, h.2]; rfl

/-- **success_iff**: the connection succeeds exactly when each side's version is in the other's
accepted list (and is not the hot-fixed client build) and every side that verifies identities was
shown a signature over exactly (prover's peer id ++ verifier's peer id) — and then the identity,
version and client attached on each side are the peer's. -/
theorem success_iff {dec : Decoder} {enc : Encoder} {oc ic : Cfg} (W : WellEncoded dec enc oc ic) :
    ((connect dec enc oc ic .fresh .fresh).out.verdict.isOk = true ↔ Admits ic oc ∧ Admits oc ic) ∧
    (Admits ic oc ∧ Admits oc ic →
      (connect dec enc oc ic .fresh .fresh).out.verdict = .ok (admitted oc ic) ∧
      (connect dec enc oc ic .fresh .fresh).inc.verdict = .ok (admitted ic oc)) := by
  have h := connect_eval W
  simp only at h
  have hA := check_honest_iff ic oc
  have hB := check_honest_iff oc ic
  cases hA' : inChecksOut oc ic with
  | error ca =>
    have hno : ¬ Admits ic oc := fun ha => by
      have := (hA (admitted ic oc)).2 ⟨ha, rfl⟩
      unfold inChecksOut at hA'; rw [hA'] at this; cases this
    rw [hA'] at h
    have h' : (connect dec enc oc ic .fresh .fresh).out.verdict.isOk = false := by
      cases hB' : outChecksIn oc ic <;> rw [hB'] at h <;> exact h.1
    exact ⟨⟨fun hk => (by rw [h'] at hk; cases hk), fun hk => absurd hk.1 hno⟩, fun hk => absurd hk.1 hno⟩
  | ok ri =>
    have hri := (hA ri).1 (by unfold inChecksOut at hA'; exact hA')
    cases hB' : outChecksIn oc ic with
    | error cb =>
      have hno : ¬ Admits oc ic := fun ha => by
        have := (hB (admitted oc ic)).2 ⟨ha, rfl⟩
        unfold outChecksIn at hB'; rw [hB'] at this; cases this
      rw [hA', hB'] at h
      exact ⟨⟨fun hk => (by rw [h.1] at hk; cases hk), fun hk => absurd hk.2 hno⟩, fun hk => absurd hk.2 hno⟩
    | ok ro =>
      have hro := (hB ro).1 (by unfold outChecksIn at hB'; exact hB')
      rw [hA', hB'] at h
      simp only at h
      refine ⟨⟨fun _ => ⟨hri.1, hro.1⟩, fun _ => by rw [h.1]; rfl⟩, fun _ => ?_⟩
      rw [h.1, h.2, hri.2, hro.2]; exact ⟨rfl, rfl⟩

/-- the identity attached by a verifying side is the key whose signature over
(remote peer id ++ own peer id) verified; a non-verifying side attaches none -/
theorem attached_identity_is_proven {cfg : Cfg} {o : PoolObj} {res : Result} (h : check cfg o = .ok res) :
    o.credVersion ∈ cfg.compat ∧ res.version = o.credVersion ∧ res.client = o.credClient ∧
    (cfg.verify = false → res.identity = none) ∧
    (cfg.verify = true → ∃ k, res.identity = some k ∧ o.credType = 1 ∧
        o.credPayload = .signed (.key k) (.sign k (cfg.rp ++ cfg.lp))) := by
  unfold check at h
  repeat' (split at h)
  all_goals (try (simp at h))
  all_goals (subst h)
  · rename_i hc hv _; simp at hc hv; simp [hc, hv]
  · rename_i hc hv ht _ k sig _ hs _
    simp at hc hv ht
    subst hs
    simp_all

/-! ### 2. credentials are bound to the endpoints -/

/-- credentials recorded on the connection (prover `p`, verifier `q`) — i.e. carrying a signature
over `p ++ q` — are refused by any verifying side whose endpoints (transport id of the presenter,
own id) differ, peer ids having their fixed length. -/
theorem credential_bound_to_endpoints {cfg : Cfg} {o : PoolObj} {k signer : Nat} {p q : List Char}
    (hv : cfg.verify = true)
    (hrec : o.credPayload = .signed (.key k) (.sign signer (p ++ q)))
    (hlen : cfg.rp.length = p.length)
    (hdiff : (cfg.rp, cfg.lp) ≠ (p, q)) :
    ∀ res, check cfg o ≠ .ok res := by
  intro res h
  obtain ⟨_, _, _, _, hver⟩ := attached_identity_is_proven h
  obtain ⟨k', _, _, hp⟩ := hver hv
  rw [hrec] at hp
  injection hp with _ hs
  injection hs with _ hm
  have := List.append_inj hm hlen.symm
  exact hdiff (by rw [this.1, this.2])

/-! ### 3. garbage never succeeds, reads are bounded -/

/-- **garbage_never_succeeds**: whatever bytes arrive (truncated, oversized, wrong type, out of
order, arbitrary), on a fresh or any pooled object, a side reports success only if the stream is a
complete whitelisted credentials frame within the size limit whose decoded content passes the
checker, followed by a complete ack frame carrying Null. -/
theorem garbage_never_succeeds {dec : Decoder} {role : Role} {cfg : Cfg} {pool : PoolObj} {s : Bytes} {e : End}
    {res : Result} (h : (runSide dec role cfg pool s e).verdict = .ok res) :
    AcceptedStream dec cfg pool s e res := by
  cases role
  · exact outgoing_ok h
  · exact incoming_ok h

/-- **no error path encodes as Null**: on every input, a side that puts ack(Null) on the wire has
received a complete credentials frame that its checker accepted. (A rejecting side therefore never
makes its peer read a success: this is what `same_verdict` rests on under hostile credentials.) -/
theorem null_ack_only_after_acceptance {dec : Decoder} {role : Role} {cfg : Cfg} {pool : PoolObj} {s : Bytes} {e : End}
    (h : WFrame.ack 0 ∈ (runSide dec role cfg pool s e).wrote) : AcceptedCreds dec cfg pool s e := by
  cases role
  · exact outgoing_null_ack h
  · exact incoming_null_ack h

/-- the wire codes of every rejection path of the two real checkers (regenerated from
`net/secureservice/credential.go` + the `Err*` table of `handshake.go`) are the ones the model uses … -/
theorem checker_error_codes_match :
    noVerifyErrCodes = [6, 6] ∧ verifierErrCodes = [6, 4, 3, 2, 2, 6] ∧
    errUnexpectedCode = 1 ∧ errUnexpectedPayloadCode = 3 := by decide

/-- the credential checkers of the source carry configuration only — no cache, pool or other field
that survives a `CheckCredential` call (regenerated from the struct declarations): this is what
licenses modelling `check` as a function of (configuration, credentials) alone, i.e. a verdict and an
attached identity that cannot depend on, or be changed by, other connections of the same node -/
theorem checkers_are_stateless : checkersStateless = true := by decide

/-- … and none of them is Error_Null (a `HandshakeError{Err: …}` without a code would be) -/
theorem no_error_path_encodes_null : ∀ c ∈ noVerifyErrCodes ++ verifierErrCodes, c ≠ 0 := by decide

/-- a side that is still waiting when the input ends is only released by its context: never a
success (cancellation / deadline at any point of the exchange) -/
theorem stalled_side_never_succeeds (dec : Decoder) (role : Role) (cfg : Cfg) (pool : PoolObj) (s : Bytes)
    (h : (runSide dec role cfg pool s .stall).verdict = .ctx) :
    (runSide dec role cfg pool s .stall).verdict.isOk = false := by rw [h]; rfl

/-- **chunking is irrelevant**: reading `n` bytes from any chunking of a stream gives exactly what
`readFull` gives on the concatenation -/
theorem chunking_irrelevant (n : Nat) (chunks : List Bytes) (e : End) :
    (match gather chunks n [] with
     | some (bs, rest) => readFull n chunks.flatten e = .ok bs rest.flatten
     | none => ∀ bs rest, readFull n chunks.flatten e ≠ .ok bs rest) := by
  cases h : gather chunks n [] with
  | some p =>
    obtain ⟨bs, rest⟩ := p
    obtain ⟨h1, h2, h3⟩ := gather_some h
    simp only
    unfold readFull
    by_cases h0 : n = 0
    · subst h0; simp at h1 h2 ⊢; exact ⟨h1, h2.symm⟩
    · simp only [h0, h3, if_false, if_true]; rw [h1, h2]; simp
  | none =>
    have hl := gather_none h
    simp only
    intro bs rest
    unfold readFull
    have h0 : n ≠ 0 := by omega
    have hle : ¬ n ≤ chunks.flatten.length := by omega
    simp only [h0, hle, if_false]
    split <;> simp
    split <;> simp


/-- `readMsg` is total: no input makes the header slicing / size decoding panic -/
theorem readMsg_total (allowed : List Nat) (s : Bytes) (e : End) (req : Nat) :
    readRaw allowed s e ≠ .fail .panic req := readRaw_no_panic allowed s e req

/-- `readMsg` never asks for (allocates) more than `sizeLimit` bytes and accepts only whitelisted types -/
theorem readMsg_alloc_le {dec : Decoder} {allowed : List Nat} {pool : PoolObj} {s : Bytes} {e : End} :
    (∀ r, readMsg dec allowed pool s e = .ok r → allowed.contains r.tp = true ∧ r.len ≤ sizeLimit) ∧
    (∀ v req fr, readMsg dec allowed pool s e = .fail v req fr → req ≤ sizeLimit) :=
  ⟨fun _ h => readMsg_kind h, fun _ _ _ h => (readMsg_fail h).1⟩

/-- every session, on every input: no panic, no single read above `sizeLimit`, at most two frames
decoded, and the pooled object goes back cleared -/
theorem side_total (dec : Decoder) (role : Role) (cfg : Cfg) (pool : PoolObj) (s : Bytes) (e : End) :
    SideFacts (runSide dec role cfg pool s e) := by
  cases role
  · exact outgoing_facts dec cfg pool s e
  · exact incoming_facts dec cfg pool s e

/-! ### 3b. a corrupted frame 1..3 ends in an error on BOTH sides

The two roles composed: the receiver of the corrupted frame runs on `corrupted bytes ++ whatever its
peer sends later`, and its peer runs on exactly what that receiver wrote (`encAll`), each with an
arbitrary end condition — every interleaving of the real exchange is an instance (the protocol
strictly alternates). "Corrupted" = not the beginning of a frame the receiver accepts, whatever
follows: not a whitelisted, complete, size-bounded credentials frame passing the checker (frames 1, 2),
not an ack carrying Null (frame 3). Frame 4 is excluded on purpose: the responder has returned
before it is read (no protocol can do better after the last message). -/

/-- frame 1 (initiator's credentials) replaced: the responder fails, and the initiator — reading what
the responder wrote — fails too; reads are bounded on both sides; once the responder has closed, the
initiator does not keep waiting -/
theorem corrupted_frame1_fails_both {dec : Decoder} {enc : Encoder} {oc ic : Cfg} (W : WellEncoded dec enc oc ic)
    (g : Bytes) (hg : NotAcceptable dec ic g) (rest : Bytes) (e e' : End) :
    let i := incoming dec ic .fresh (g ++ rest) e
    let o := outgoing dec oc .fresh (encAll enc .inc i.wrote) e'
    i.verdict.isOk = false ∧ o.verdict.isOk = false ∧ SideFacts i ∧ SideFacts o ∧
      (e' = .eof → o.verdict ≠ .ctx) := by
  intro i o
  obtain ⟨hi, ht⟩ := incoming_not_accepted (hg rest e)
  refine ⟨hi, ?_, incoming_facts _ _ _ _ _, outgoing_facts _ _ _ _ _, ?_⟩
  · have := out_fails_on_failed_in W [] i.wrote (Or.inl rfl) ht e'
    simpa using this
  · intro he; subst he; exact side_eof_no_ctx dec .out oc .fresh _

/-- frame 2 (responder's credentials) replaced: the initiator fails, and the responder — reading the
initiator's credentials followed by what the failing initiator wrote — fails too -/
theorem corrupted_frame2_fails_both {dec : Decoder} {enc : Encoder} {oc ic : Cfg} (W : WellEncoded dec enc oc ic)
    (g : Bytes) (hg : NotAcceptable dec oc g) (rest : Bytes) (e e' : End) :
    let o := outgoing dec oc .fresh (g ++ rest) e
    let i := incoming dec ic .fresh (encAll enc .out o.wrote) e'
    o.verdict.isOk = false ∧ i.verdict.isOk = false ∧ SideFacts o ∧ SideFacts i ∧
      (e' = .eof → i.verdict ≠ .ctx) := by
  intro o i
  obtain ⟨ho, t, hw, ht⟩ := outgoing_not_accepted (hg rest e)
  refine ⟨ho, ?_, outgoing_facts _ _ _ _ _, incoming_facts _ _ _ _ _, ?_⟩
  · show (incoming dec ic .fresh (encAll enc .out o.wrote) e').verdict.isOk = false
    rw [hw]
    have := in_fails_on_failed_out W t ht e'
    simpa [encAll] using this
  · intro he; subst he; exact side_eof_no_ctx dec .inc ic .fresh _

/-- frame 3 (initiator's final ack) replaced by anything that is not an ack(Null): the responder
fails, and the initiator — reading what the failing responder wrote — fails too -/
theorem corrupted_frame3_fails_both {dec : Decoder} {enc : Encoder} {oc ic : Cfg} (W : WellEncoded dec enc oc ic)
    (g : Bytes) (hg : NotNullAck dec g) (rest : Bytes) (e e' : End) :
    let i := incoming dec ic .fresh (enc .out .cred ++ (g ++ rest)) e
    let o := outgoing dec oc .fresh (encAll enc .inc i.wrote) e'
    i.verdict.isOk = false ∧ o.verdict.isOk = false ∧ SideFacts i ∧ SideFacts o ∧
      (e' = .eof → o.verdict ≠ .ctx) := by
  intro i o
  have hi := in_fails_on_bad_final_ack W g hg rest e
  obtain ⟨pre, t, hw, hpre, ht⟩ := incoming_fail_shape hi
  refine ⟨hi, ?_, incoming_facts _ _ _ _ _, outgoing_facts _ _ _ _ _, ?_⟩
  · show (outgoing dec oc .fresh (encAll enc .inc i.wrote) e').verdict.isOk = false
    rw [hw]
    exact out_fails_on_failed_in W pre t hpre ht e'
  · intro he; subst he; exact side_eof_no_ctx dec .out oc .fresh _

/-- non-vacuity: a frame of a non-whitelisted type is "corrupted" for every decoder and checker -/
example (dec : Decoder) (cfg : Cfg) : NotAcceptable dec cfg [3, 0, 0, 0, 0] := by
  intro rest e ⟨p1, rest1, f, res, hr, _⟩
  simp [readRaw, readFull, parseHeader, headerSize, msgTypeCred] at hr

/-! ### 4. the shared pool -/

/-- **session_independent_of_pool_history**: whatever sessions ran before on the pooled object, a
session's verdict is the one it gets on a fresh object. (Holds because `release()` clears every
pooled field — the generated `releaseResets_*` facts; before the fix of F-handshake-pool
`releaseResets_credVersion` / `releaseResets_credClient` were false and this theorem failed.) -/
theorem session_independent_of_pool_history (dec : Decoder) (hist : List Session) (s : Session) :
    (runPool dec .fresh (hist ++ [s])).getLast? = some (runSide dec s.role s.cfg .fresh s.data s.fin).verdict := by
  suffices h : ∀ pool, pool = PoolObj.fresh →
      (runPool dec pool (hist ++ [s])).getLast? = some (runSide dec s.role s.cfg .fresh s.data s.fin).verdict from h _ rfl
  induction hist with
  | nil => intro pool hp; subst hp; simp [runPool]
  | cons a rest ih =>
    intro pool hp
    have hnext := (side_total dec a.role a.cfg pool a.data a.fin).pool
    simp only [List.cons_append, runPool]
    have := ih _ hnext
    cases hr : runPool dec (runSide dec a.role a.cfg pool a.data a.fin).pool (rest ++ [s]) with
    | nil => rw [hr] at this; simp at this
    | cons x xs => rw [hr] at this; simpa [List.getLast?_cons_cons] using this

/-- why the fix is needed: on an object whose version was NOT cleared, credentials without a version
field inherit it and pass the version gate of a NoVerify checker -/
theorem stale_version_would_pass (cfg : Cfg) (v : Nat) (hv : v ∈ cfg.compat) (hnv : cfg.verify = false) :
    check cfg (mergeCred { credVersion := v } {}) = .ok ⟨none, v, .empty⟩ := by
  simp [check, mergeCred, hv, hnv, Client.empty]

/-! ### non-vacuity -/

def exOut : Cfg := ⟨true, 0, "pA".toList, "pB".toList, 13, [12, 13, 14], ⟨1, false⟩⟩
def exIn : Cfg := ⟨true, 1, "pB".toList, "pA".toList, 12, [12, 13], ⟨2, false⟩⟩

/-- the toy encoding of the driver satisfies `WellEncoded` -/
theorem toy_well_encoded (oc ic : Cfg) : WellEncoded (toyDec oc ic) toyEnc oc ic := by
  constructor
  · intro who allowed pool rest e hall
    cases who <;>
      simp [toyEnc, toyDec, readMsg, readRaw, readFull, parseHeader, le32, headerSize, sizeRejected, sizeGuardStrict,
        sizeLimit, msgTypeCred, msgTypeAck, msgTypeProto] at hall ⊢ <;> simp [hall]
  · intro who c hc allowed pool rest e hall h0
    cases who <;>
      simp [toyEnc, toyDec, readMsg, readRaw, readFull, parseHeader, le32, headerSize, sizeRejected, sizeGuardStrict,
        sizeLimit, msgTypeCred, msgTypeAck, msgTypeProto, mergeAck] at hall ⊢ <;> simp [hall] <;> omega

example : Admits exIn exOut ∧ Admits exOut exIn := by unfold Admits; decide
example : (connect (toyDec exOut exIn) toyEnc exOut exIn .fresh .fresh).out.verdict = .ok ⟨some 1, 12, ⟨2, false⟩⟩ := by rfl
example : (connect (toyDec exOut exIn) toyEnc exOut { exIn with compat := [12] } .fresh .fresh).inc.verdict = .he 6 := by rfl
/-- credentials signed for (pA ++ pB) presented on (pC, pB): refused -/
example : check { exIn with rp := "pC".toList } (mergeCred .fresh (makeCred exOut)) = .error 2 := by rfl

end AnySync.Props.C14
