import AnySyncModel.Tree.Model
import AnySyncModel.Tree.Lemmas
import AnySyncModel.Tree.WaitLemmas
import AnySyncModel.Tree.ReduceLemmas
import AnySyncModel.Tree.ReopenLemmas
/-!
C06 - change order is a function of the change set; incremental equals rebuilt.

Model: `AnySync.Tree` (`Tree/Model.lean`): `children` (= `Change.Next`, sorted by id), `iter` (= `topSort` +
reversed walk), `add` (= `Tree.Add` with wait list and Append/Rebuild verdict), `reduce`, `storeInsert`.

Vocabulary (`Tree/Lemmas.lean`): `WFAtt att` - `att` is an attachment list (unique ids, no change names a
later-attached change as previous id; this is what `Tree.attach` maintains); `Desc ch x y` - `y` is reachable
from `x` along `Next`.

Only property theorems and their non-vacuity examples in this file.
-/
namespace AnySync.Props.C06
open AnySync.Tree

/-- **iter_det**: the presented sequence is a function of the root and the *set* of attached changes -
whatever the order (or batching, or duplication on the way) in which they were attached. -/
theorem iter_det (root : Nat) (a₁ a₂ : List Change) (h : a₁.Perm a₂) : iter root a₁ = iter root a₂ :=
  iter_perm h root

/-- non-vacuity: a diamond attached in two different orders -/
example : iter 1 [⟨1, [], 0, true⟩, ⟨2, [1], 1, false⟩, ⟨3, [1], 1, false⟩, ⟨4, [2, 3], 1, false⟩]
        = iter 1 [⟨4, [2, 3], 1, false⟩, ⟨3, [1], 1, false⟩, ⟨1, [], 0, true⟩, ⟨2, [1], 1, false⟩] ∧
          iter 1 [⟨1, [], 0, true⟩, ⟨2, [1], 1, false⟩, ⟨3, [1], 1, false⟩, ⟨4, [2, 3], 1, false⟩] = [1, 2, 3, 4] := by
  decide

/-- **iter_topological**: in the presented sequence of a well-formed tree there are no repetitions and every
change comes after each of its parents that is presented (equivalently: after all its attached parents
above the root). -/
theorem iter_topological (root : Nat) (att : List Change) (hwf : WFAtt att) :
    (iter root att).Nodup ∧
    ∀ c ∈ att, ∀ p ∈ c.prevs, ∀ l1 l2, iter root att = l1 ++ p :: l2 → c.id ∈ l2 := by
  obtain ⟨rk, h1, h2, _⟩ := wf_rank hwf
  have hx := visit_ext (children att) rk h1 (att.length + 1) root [] (by have := h2 root; omega) (good_nil _)
  refine ⟨hx.good.1, ?_⟩
  intro c hc p hp l1 l2 hdec
  exact hx.good.2 l1 p l2 hdec c.id (mem_children.mpr ⟨c, hc, rfl, hp⟩)

/-- … and it presents exactly the root and what is reachable from it along `Next` -/
theorem iter_reachable (root : Nat) (att : List Change) (hwf : WFAtt att) :
    root ∈ iter root att ∧ (∀ y ∈ iter root att, Desc (children att) root y) ∧
    (∀ x ∈ iter root att, ∀ c ∈ children att x, c ∈ iter root att) := by
  obtain ⟨rk, h1, h2, _⟩ := wf_rank hwf
  have hx := visit_ext (children att) rk h1 (att.length + 1) root [] (by have := h2 root; omega) (good_nil _)
  refine ⟨hx.mem root (by simp), ?_, hx.good.closed⟩
  intro y hy
  obtain ⟨pre, hp, hd⟩ := hx.pre
  have : y ∈ pre := by
    have : iter root att = pre := by simpa [iter, rpo] using hp
    rw [← this]; exact hy
  obtain ⟨x, hx1, hx2⟩ := hd y this
  have : x = root := by simpa using hx1
  exact this ▸ hx2

/-- non-vacuity: the diamond is a well-formed attachment list -/
example : WFAtt [⟨1, [], 0, true⟩, ⟨2, [1], 1, false⟩, ⟨3, [1], 1, false⟩, ⟨4, [2, 3], 1, false⟩] := by
  have h0 := WFAtt.nil
  have h1 := @WFAtt.snoc [] ⟨1, [], 0, true⟩ h0 (by simp) (by simp) (by simp)
  have h2 := @WFAtt.snoc _ ⟨2, [1], 1, false⟩ h1 (by simp) (by simp) (by simp)
  have h3 := @WFAtt.snoc _ ⟨3, [1], 1, false⟩ h2 (by simp) (by simp) (by simp)
  have h4 := @WFAtt.snoc _ ⟨4, [2, 3], 1, false⟩ h3 (by simp) (by simp) (by simp)
  simpa using h4


/-! ### incremental = rebuilt: growth never reorders -/

/-- **iter_stable_under_growth** (the key lemma): attaching further changes to a well-formed tree leaves the
relative order of what was already presented untouched - the new sequence restricted to the old changes is
the old sequence. (Every later-attached change is an upper element: nothing attached earlier names it.) -/
theorem iter_stable_under_growth (root : Nat) (att news : List Change) (hwf : WFAtt (att ++ news))
    (hroot : root ∈ att.map (·.id)) :
    (iter root (att ++ news)).filter (fun x => (att.map (·.id)).contains x) = iter root att :=
  iter_growth root att news hwf hroot

example : (iter 1 ([⟨1, [], 0, true⟩, ⟨3, [1], 1, false⟩] ++ [⟨2, [1], 1, false⟩, ⟨4, [2, 3], 1, false⟩])).filter
    (fun x => ([1, 3] : List Nat).contains x) = iter 1 [⟨1, [], 0, true⟩, ⟨3, [1], 1, false⟩] := by decide

/-- **append_graph**: if every newly attached change descends from the last presented change, the previously
presented sequence is a *prefix* of the new one (the new changes all come after it). -/
theorem append_graph (root : Nat) (att news : List Change) (hwf : WFAtt (att ++ news))
    (hroot : root ∈ att.map (·.id)) (last : Nat) (hlast : (iter root att).getLast? = some last)
    (hdesc : ∀ n ∈ news, Desc (children (att ++ news)) last n.id) :
    ∃ tail, iter root (att ++ news) = iter root att ++ tail :=
  ⟨_, iter_append root att news hwf hroot last hlast hdesc⟩

/-- **append_sound**, full strength: whenever `Tree.Add` answers `Append`, the sequence presented before is a
prefix of the sequence presented after. -/
def C06_append_sound_full : Prop :=
  ∀ (t0 : T) (batch : List Change) (r : Nat),
    t0.root = some r → r ∈ t0.att.map (·.id) → WFAtt t0.att → t0.unatt = [] →
    -- previous ids of attached changes are attached, or (below a reduced root) gone for good
    (∀ d ∈ t0.att, ∀ p ∈ d.prevs, t0.has p = true ∨ ∀ c ∈ batch, c.id ≠ p) →
    (iter r t0.att).getLast? = some t0.lastIter →
    (add t0 batch).mode = .append →
    ∃ tail, iter r (add t0 batch).tree.att = iter r t0.att ++ tail

/-- **append_sound_partial**: proved from the verdict logic of `add` (`appendOk`: every attached batch element
was reached by the walk from the previous last iterated head) and `append_graph`.
The hypotheses `hatt`, `hnews`, `hwf` (the wait-list `addAll`/`attach` only *appends* batch members and keeps
the attachment list well-formed) are discharged by `add_appends` in `append_sound` below. -/
theorem append_sound_partial (t0 : T) (batch news : List Change) (r : Nat)
    (hr : r ∈ t0.att.map (·.id))
    (hatt : (addTree t0 batch).att = t0.att ++ news) (hnews : ∀ n ∈ news, n ∈ batch)
    (hwf : WFAtt (t0.att ++ news))
    (hlast : (iter r t0.att).getLast? = some t0.lastIter)
    (hmode : (add t0 batch).mode = .append) :
    ∃ tail, iter r (add t0 batch).tree.att = iter r t0.att ++ tail := by
  rw [(add_tree_att t0 batch).1, hatt]
  apply append_graph r t0.att news hwf hr t0.lastIter hlast
  intro n hn
  have hok := (add_append_ok t0 batch hmode).1
  have hhas : (addTree t0 batch).has n.id = true := by
    unfold T.has; rw [hatt]
    simp only [List.any_eq_true]
    exact ⟨n, List.mem_append.mpr (Or.inr hn), by simp⟩
  have hseen := appendOk_seen t0 _ batch hok n (hnews n hn) hhas
  rw [hatt] at hseen
  obtain ⟨rk, k1, k2, _⟩ := wf_rank hwf
  have hext := visit_ext (children (t0.att ++ news)) rk k1 ((t0.att ++ news).length + 1) t0.lastIter []
    (by have := k2 t0.lastIter; omega) (good_nil _)
  obtain ⟨pre, hp, hd⟩ := hext.pre
  have : n.id ∈ pre := by
    have e : reach (children (t0.att ++ news)) ((t0.att ++ news).length + 1) t0.lastIter = pre := by
      simpa [reach] using hp
    rw [← e]; exact hseen
  obtain ⟨x, hx1, hx2⟩ := hd _ this
  have : x = t0.lastIter := by simpa using hx1
  exact this ▸ hx2

/-- **append_sound**: the full statement holds. -/
theorem append_sound : C06_append_sound_full := by
  intro t0 batch r hroot hr hwf hun hclosed hlast hmode
  obtain ⟨news, hatt, hnews, hwf'⟩ := add_appends t0 batch hwf hun (by simp [hroot]) hclosed
  exact append_sound_partial t0 batch news r hr hatt hnews hwf' hlast hmode

/-- non-vacuity of the verdict: an `Append` and a `Rebuild` on the same tree -/
example :
    (add { root := some 1, att := [⟨1, [], 0, true⟩, ⟨2, [1], 1, false⟩, ⟨3, [1], 1, false⟩], lastIter := 3 }
      [⟨4, [2, 3], 1, false⟩]).mode = .append ∧
    (add { root := some 1, att := [⟨1, [], 0, true⟩, ⟨2, [1], 1, false⟩, ⟨3, [1], 1, false⟩], lastIter := 3 }
      [⟨5, [2], 1, false⟩]).mode = .rebuild := by decide

/-! ### confluence of `add` on the attached set

`addSeq t L` feeds the batches `L` one after another through `add`.  `CausalFor t l`: every previous id and the
snapshot of each element of `l` is attached in `t` or is the id of an earlier element of `l`. -/

/-- **add_confluent_causal**: two deliveries of the same changes - any batching, any duplication, any two orders
that respect causality - end with the same attached set (a permutation of the same attachment list) and hence
present the same sequence.  (Ids are unique: `huniq`, content hashes.) -/
theorem add_confluent_causal (t : T) (L1 L2 : List (List Change)) (r : Nat)
    (hun : t.unatt = []) (hroot : t.root = some r) (hnd : (t.att.map (·.id)).Nodup)
    (huniq : ∀ c ∈ t.att ++ L1.flatten ++ L2.flatten, ∀ d ∈ t.att ++ L1.flatten ++ L2.flatten, c.id = d.id → c = d)
    (h1 : CausalFor t L1.flatten) (h2 : CausalFor t L2.flatten)
    (hsame : ∀ c, c ∈ L1.flatten ↔ c ∈ L2.flatten) :
    (addSeq t L1).att.Perm (addSeq t L2).att ∧ iter r (addSeq t L1).att = iter r (addSeq t L2).att :=
  addSeq_confluent t L1 L2 hun r hroot hnd huniq h1 h2 hsame

/-- … and a causal delivery attaches everything it delivers, directly (the wait list is never needed). -/
theorem add_causal_attaches_all (t : T) (L : List (List Change)) (hun : t.unatt = []) (hroot : t.root.isSome = true)
    (h : CausalFor t L.flatten) : ∀ c ∈ L.flatten, (addSeq t L).has c.id = true :=
  (addSeq_causal L t hun hroot h).2.2.2.1

/-- confluence at full strength: ANY two deliveries of the same changes `U` - arbitrary order inside every batch
(so the wait list is exercised), any batching in which each batch is closed relative to the tree it arrives at
(`SeqClosed`: some causal order of the batch exists; a change whose parent only arrives in a *later* addition is
dropped by `clearUnattached` in the real code, so this is needed), any duplication - provided the snapshot of a
change is attached whenever all its previous ids are (`SnapOK`: it is one of their ancestors) and ids are unique:
all of `U` gets attached, the attachment lists are permutations of each other, the presented sequences are equal. -/
def C06_add_confluent_full : Prop :=
  ∀ (U : List Change) (t : T) (L1 L2 : List (List Change)) (r : Nat),
    SnapOK U t → Inv U t → t.unatt = [] → t.root = some r →
    (∀ a ∈ t.att ++ U, ∀ b ∈ t.att ++ U, a.id = b.id → a = b) →
    (∀ c, c ∈ L1.flatten ↔ c ∈ U) → (∀ c, c ∈ L2.flatten ↔ c ∈ U) →
    SeqClosed t L1 → SeqClosed t L2 →
    (∀ c ∈ U, (addSeq t L1).has c.id = true) ∧ (addSeq t L1).att.Perm (addSeq t L2).att ∧
    iter r (addSeq t L1).att = iter r (addSeq t L2).att

/-- **add_confluent**: the full statement holds (`Tree/WaitLemmas.lean`: the wait-list invariant - every parked
change has a missing previous id registered in the wait list - is maintained through the cascade, so nothing
attachable is left parked). -/
theorem add_confluent : C06_add_confluent_full :=
  fun U t L1 L2 r hs hinv hun hroot huniq hm1 hm2 hc1 hc2 =>
    addSeq_confluent_any U t L1 L2 r hs hinv hun hroot huniq hm1 hm2 hc1 hc2

/-- **add_confluent_partial** (kept): deliveries that are themselves causally ordered need none of `SnapOK`,
`Inv`: everything attaches directly. -/
theorem add_confluent_partial (t : T) (L1 L2 : List (List Change)) (r : Nat)
    (hun : t.unatt = []) (hroot : t.root = some r) (hwf : WFAtt t.att)
    (huniq : ∀ c ∈ t.att ++ L1.flatten ++ L2.flatten, ∀ d ∈ t.att ++ L1.flatten ++ L2.flatten, c.id = d.id → c = d)
    (h1 : CausalFor t L1.flatten) (h2 : CausalFor t L2.flatten)
    (hsame : ∀ c, c ∈ L1.flatten ↔ c ∈ L2.flatten) :
    (∀ c ∈ L1.flatten, (addSeq t L1).has c.id = true) ∧ (addSeq t L1).att.Perm (addSeq t L2).att :=
  ⟨add_causal_attaches_all t L1 hun (by simp [hroot]) h1,
   (addSeq_confluent t L1 L2 hun r hroot (hwf.split t.att [] (by simp)).2.1 huniq h1 h2 hsame).1⟩

/-- non-vacuity of `add_confluent`: the diamond on top of root `1`, delivered child-first -/
example : SnapOK [⟨4, [2, 3], 1, false⟩, ⟨3, [1], 1, false⟩, ⟨2, [1], 1, false⟩]
    { root := some 1, att := [⟨1, [], 0, true⟩], lastIter := 1 } := by
  refine ⟨by intro c hc; simp at hc; rcases hc with rfl | rfl | rfl <;> simp, ?_⟩
  intro t' _ hm c hc _
  have : c.snap = 1 := by
    simp at hc; rcases hc with rfl | rfl | rfl <;> rfl
  rw [this]; exact hm 1 (by decide)

example : CausalFor { root := some 1, att := [⟨1, [], 0, true⟩], lastIter := 1 }
    [⟨2, [1], 1, false⟩, ⟨3, [1], 1, false⟩, ⟨4, [2, 3], 1, false⟩] := by
  intro l1 c l2 h
  match l1, h with
  | [], h => simp at h; obtain ⟨rfl, _⟩ := h; exact ⟨by intro p hp; simp at hp; subst hp; left; decide, by left; decide, by left; simp⟩
  | [_], h => simp at h; obtain ⟨rfl, rfl, _⟩ := h; exact ⟨by intro p hp; simp at hp; subst hp; left; decide, by left; decide, by left; simp⟩
  | [_, _], h =>
    simp at h; obtain ⟨rfl, rfl, rfl, _⟩ := h
    exact ⟨by intro p hp; simp at hp; rcases hp with rfl | rfl <;> (right; simp), by left; decide, by left; simp⟩
  | _ :: _ :: _ :: _ :: _, h => simp at h

example :
    let t : T := { root := some 1, att := [⟨1, [], 0, true⟩], lastIter := 1 }
    iter 1 (addSeq t [[⟨4, [2, 3], 1, false⟩, ⟨3, [1], 1, false⟩, ⟨2, [1], 1, false⟩]]).att = [1, 2, 3, 4] ∧
    iter 1 (addSeq t [[⟨3, [1], 1, false⟩], [⟨4, [2, 3], 1, false⟩, ⟨2, [1], 1, false⟩, ⟨4, [2, 3], 1, false⟩]]).att
      = [1, 2, 3, 4] := by decide

/-- non-vacuity: the diamond delivered as `[2],[3,4]` and as `[3],[2],[4,4]` -/
example :
    let t : T := { root := some 1, att := [⟨1, [], 0, true⟩], lastIter := 1 }
    iter 1 (addSeq t [[⟨2, [1], 1, false⟩], [⟨3, [1], 1, false⟩, ⟨4, [2, 3], 1, false⟩]]).att = [1, 2, 3, 4] ∧
    iter 1 (addSeq t [[⟨3, [1], 1, false⟩], [⟨2, [1], 1, false⟩], [⟨4, [2, 3], 1, false⟩, ⟨4, [2, 3], 1, false⟩]]).att
      = [1, 2, 3, 4] := by decide

/-! ### stored order and reduced views

`storeInsert` places a change that lacks an order id right after its predecessor in the iteration. -/

/-- **storage order** (= `orderid_matches_iter`), full strength: `stored` is the stored sequence before the
addition (unique entries; restricted to the in-memory changes it is the iteration; none of the new changes is
stored yet).  After `storeInsert` (= `updateHeads` giving every change that lacks an order id one strictly
between its neighbours in the iteration, then `AddAll`):
* the stored sequence restricted to the in-memory changes is exactly the new iteration,
* the entries stored before keep their relative order (order ids are never rewritten),
* nothing is stored twice. -/
def C06_storage_order_full : Prop :=
  ∀ (stored : List Nat) (root : Nat) (att news : List Change),
    WFAtt (att ++ news) → root ∈ att.map (·.id) → stored.Nodup →
    stored.filter (fun x => (att.map (·.id)).contains x) = iter root att →
    (∀ n ∈ news, n.id ∉ stored) →
    (storeInsert stored (iter root (att ++ news))).filter (fun x => ((att ++ news).map (·.id)).contains x)
        = iter root (att ++ news) ∧
    (storeInsert stored (iter root (att ++ news))).filter (fun x => stored.contains x) = stored ∧
    (storeInsert stored (iter root (att ++ news))).Nodup

theorem storage_order : C06_storage_order_full :=
  fun stored root att news hwf hroot hnd hst hfresh => storeInsert_spec stored root att news hwf hroot hnd hst hfresh

/-- **storage order is a linear extension**: in the stored sequence after the addition every presented change
comes after each of its presented parents. -/
theorem storage_order_causal (stored : List Nat) (root : Nat) (att news : List Change)
    (hwf : WFAtt (att ++ news)) (hroot : root ∈ att.map (·.id)) (hnd : stored.Nodup)
    (hst : stored.filter (fun x => (att.map (·.id)).contains x) = iter root att)
    (hfresh : ∀ n ∈ news, n.id ∉ stored) :
    ∀ c ∈ att ++ news, ∀ p ∈ c.prevs, p ∈ iter root (att ++ news) →
      pos (storeInsert stored (iter root (att ++ news))) p < pos (storeInsert stored (iter root (att ++ news))) c.id := by
  intro c hc p hp hpi
  obtain ⟨h1, _, _⟩ := storeInsert_spec stored root att news hwf hroot hnd hst hfresh
  have hgood := iter_good root (att ++ news) hwf
  have hchild : c.id ∈ children (att ++ news) p := mem_children.mpr ⟨c, hc, rfl, hp⟩
  have hci : c.id ∈ iter root (att ++ news) := hgood.closed p hpi c.id hchild
  have hlt := hgood.pos_lt p hpi c.id hchild
  have hroot' : root ∈ (att ++ news).map (·.id) := by
    rw [List.map_append]; exact List.mem_append.mpr (Or.inl hroot)
  have hmem := iter_mem_ids root (att ++ news) hwf hroot'
  rw [← h1] at hlt hci
  exact pos_filter_lt_rev _ _ p c.id (List.contains_iff_mem.mpr (hmem p hpi))
    (List.contains_iff_mem.mpr (hmem c.id (by rw [h1] at hci; exact hci))) (List.mem_filter.mp hci).1 hlt

example : storeInsert [1, 3] (iter 1 [⟨1, [], 0, true⟩, ⟨3, [1], 1, false⟩, ⟨2, [1], 1, false⟩, ⟨4, [2, 3], 1, false⟩])
    = [1, 2, 3, 4] := by decide

/-- **reduced view**, full strength.  `Honest att root s` (`Tree/ReduceLemmas.lean`) is the honest-history proviso
(DESIGN §3 Inv-S; same shape as `Sync.SnapInv` + `Sync.RootOk` of the abstract protocol, C01 `invS_always`):
the snapshot base of a change is an ancestor-or-equal of it; every ancestor-or-equal of a change is comparable
with its base; the previous ids of a change form an antichain (a local add names the current heads); and `s` lies
on the snapshot chain of every head (what `reduceTree` computes).  Then the tree reduced to `s` - the changes at
or below `s` - presents exactly the full sequence restricted to that view. -/
def C06_reduced_view_full : Prop :=
  ∀ (root s : Nat) (att : List Change), WFAtt att → Desc (children att) root s → Honest att root s →
    ∀ below : Nat → Bool, (∀ y, below y = true ↔ Desc (children att) s y) →
      iter s (att.filter (fun c => below c.id)) = (iter root att).filter below

/-- the structural core: it suffices that the part of the tree below `s` is entered only through `s` -/
theorem reduced_view_of_entry (root s : Nat) (att : List Change) (hwf : WFAtt att)
    (hs : Desc (children att) root s) (below : Nat → Bool)
    (hbelow : ∀ y, below y = true ↔ Desc (children att) s y)
    (hentry : ∀ c ∈ att, below c.id = true → c.id ≠ s → ∀ p ∈ c.prevs, below p = true) :
    iter s (att.filter (fun c => below c.id)) = (iter root att).filter below :=
  reduced_view_struct root s att hwf hs below hbelow hentry

/-- **reduced_view**: the full statement holds. -/
theorem reduced_view : C06_reduced_view_full := by
  intro root s att hwf hs hon below hbelow
  apply reduced_view_struct root s att hwf hs below hbelow
  intro c hc hb hne p hp
  exact (hbelow p).mpr (honest_entry att root s hwf hs hon c hc ((hbelow c.id).mp hb) hne p hp)

/-- non-vacuity of the proviso: `honestChain` (root `1`, snapshot `2` on top of it, a change `3` made after
reducing to `2`) is honest for the reduction to `2` -/
example : Honest honestChain 1 2 := by
  have d12 : Desc (children honestChain) 1 2 := Desc.step (by decide) (Desc.refl _)
  have d23 : Desc (children honestChain) 2 3 := Desc.step (by decide) (Desc.refl _)
  have prevs : ∀ a, (∃ d ∈ honestChain, a ∈ d.prevs) → a = 1 ∨ a = 2 := by
    rintro a ⟨d, hd, ha⟩
    simp [honestChain] at hd
    rcases hd with rfl | rfl | rfl <;> simp at ha <;> simp [ha]
  refine ⟨?_, ?_, ?_, ?_⟩
  · intro c hc hne
    simp [honestChain] at hc
    rcases hc with rfl | rfl | rfl
    · exact absurd rfl hne
    · exact d12
    · exact d23
  · intro c hc hne a ha
    simp [honestChain] at hc
    rcases hc with rfl | rfl | rfl
    · exact absurd rfl hne
    · rcases desc_is_prev ha with e | h
      · right; rw [e]; exact d12
      · rcases prevs a h with rfl | rfl
        · left; exact Desc.refl _
        · right; exact d12
    · rcases desc_is_prev ha with e | h
      · right; rw [e]; exact d23
      · rcases prevs a h with rfl | rfl
        · left; exact d12
        · left; exact Desc.refl _
  · intro c hc p hp q hq _
    simp [honestChain] at hc
    rcases hc with rfl | rfl | rfl <;> simp at hp hq <;> simp [hp, hq]
  · intro h hd hh
    have h3 : h = 3 := by
      rcases desc_inv hd with e | ⟨c, hc, hr⟩
      · rw [← e] at hh; exact absurd hh (by decide)
      · have : c = 2 := by
          have : children honestChain 1 = [2] := by decide
          rw [this] at hc; simpa using hc
        subst this
        rcases desc_inv hr with e | ⟨c, hc, hr⟩
        · rw [← e] at hh; exact absurd hh (by decide)
        · have : c = 3 := by
            have : children honestChain 2 = [3] := by decide
            rw [this] at hc; simpa using hc
          subst this
          rcases desc_inv hr with e | ⟨c, hc, _⟩
          · exact e.symm
          · have : children honestChain 3 = [] := by decide
            rw [this] at hc; simp at hc
    subst h3
    exact OnChainA.next (c := ⟨3, [2], 2, false⟩) (by simp [honestChain]) (by decide) OnChainA.here

/-- an instance: root `1`, snapshot `2`, two branches below it; reduced to `2` -/
example :
    iter 2 ([⟨1, [], 0, true⟩, ⟨2, [1], 1, true⟩, ⟨3, [2], 1, false⟩, ⟨4, [2], 2, false⟩, ⟨5, [3, 4], 2, false⟩].filter
      (fun c => c.id != 1))
    = (iter 1 [⟨1, [], 0, true⟩, ⟨2, [1], 1, true⟩, ⟨3, [2], 1, false⟩, ⟨4, [2], 2, false⟩, ⟨5, [3, 4], 2, false⟩]).filter
      (fun y => y != 1) := by decide

/-- why the proviso is needed (1): with a change (`4`) that has one parent below the later root `2` and one
parent (`3`) outside, the order from `2` is not the restriction of the order from `1`. Such a change cannot
arise in an honest history (its creator's root would be `1`, so nobody holding it reduces to `2`): `rootOk`/`comp`
fail. -/
example :
    iter 1 [⟨1, [], 0, true⟩, ⟨2, [1], 1, true⟩, ⟨3, [1], 1, false⟩, ⟨5, [2], 2, false⟩, ⟨4, [2, 3], 2, false⟩]
      = [1, 2, 5, 3, 4] ∧
    iter 2 [⟨2, [1], 1, true⟩, ⟨5, [2], 2, false⟩, ⟨4, [2, 3], 2, false⟩] = [2, 4, 5] := by decide

/-- why the proviso is needed (2): the antichain condition. `2` names the snapshot `1` and also `1`'s ancestor,
the root `3` (a redundant edge; found on the real `Tree` in round 1): Inv-S as worded in DESIGN §3 holds, yet
from `3` the order is `3,1,4,2` and from `1` it is `1,2,4` - not the restriction `1,4,2`. -/
example :
    iter 3 [⟨3, [], 0, true⟩, ⟨1, [3], 3, true⟩, ⟨2, [1, 3], 1, false⟩, ⟨4, [1], 1, false⟩] = [3, 1, 4, 2] ∧
    iter 1 [⟨1, [3], 3, true⟩, ⟨2, [1, 3], 1, false⟩, ⟨4, [1], 1, false⟩] = [1, 2, 4] := by decide

/-! ### reopen = before close

`buildFromStorage stored r` (= `treeBuilder.build`: load the stored sequence from the root snapshot on, `AddFast` it
into an empty tree).  `StoredFor A r rootC rest` (`Tree/ReopenLemmas.lean`) says what the storage holds for an
in-memory tree with attached changes `A` and root `r`: the loaded sequence `rootC :: rest` has unique ids, contains
every in-memory change after its previous ids and its snapshot base (the stored order is a linear extension -
`storage_order_causal` - and `attach` requires the snapshot base), and a stored change that is not in memory is not
attachable to what is in memory. -/

/-- **reopen**, full strength: the tree built from storage has the root, the attached set, the presented sequence,
the heads and the last iterated head of the in-memory tree that produced the storage. -/
def C06_reopen_full : Prop :=
  ∀ (A : List Change) (r : Nat) (stored : List Change) (rootC : Change) (rest : List Change),
    stored.dropWhile (·.id != r) = rootC :: rest → StoredFor A r rootC rest →
    (buildFromStorage stored r).root = some r ∧ (buildFromStorage stored r).att.Perm A ∧
    (buildFromStorage stored r).unatt = [] ∧
    iter r (buildFromStorage stored r).att = iter r A ∧
    headsOf (buildFromStorage stored r).att (iter r (buildFromStorage stored r).att) = headsOf A (iter r A) ∧
    (buildFromStorage stored r).lastIter = lastOf (headsOf A (iter r A)) r

theorem reopen_eq : C06_reopen_full :=
  fun A r stored rootC rest hload h => reopen_same A r stored rootC rest hload h

/-- an instance: the storage holds root `1`, snapshot `2`, a concurrent branch `5` off the root and `3` below the
snapshot; the tree reduced to `2` is rebuilt as `2,3` - the stored change `5` is loaded but not attachable -/
example :
    let stored : List Change := [⟨1, [], 0, true⟩, ⟨2, [1], 1, true⟩, ⟨5, [1], 1, false⟩, ⟨3, [2], 2, false⟩]
    (buildFromStorage stored 2).root = some 2 ∧ (buildFromStorage stored 2).att.map (·.id) = [2, 3] ∧
    iter 2 (buildFromStorage stored 2).att = [2, 3] ∧ (buildFromStorage stored 2).lastIter = 3 ∧
    iter 1 (buildFromStorage stored 1).att = [1, 2, 3, 5] := by decide

end AnySync.Props.C06
