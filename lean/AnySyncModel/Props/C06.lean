import AnySyncModel.Tree.Model
import AnySyncModel.Tree.Lemmas
/-!
C06 - change order is a function of the change set; incremental equals rebuilt.

Model: `AnySync.Tree` (`Tree/Model.lean`): `children` (= `Change.Next`, sorted by id), `iter` (= `topSort` +
reversed walk), `add` (= `Tree.Add` with wait list and Append/Rebuild verdict), `reduce`, `storeInsert`.

Vocabulary (`Tree/Lemmas.lean`): `WFAtt att` - `att` is an attachment list (unique ids, no change names a
later-attached change as previous id; this is what `Tree.attach` maintains); `Desc ch x y` - `y` is reachable
from `x` along `Next`.

Only property theorems and their non-vacuity examples in this file.
-/
namespace AnySync.Props.C06
open AnySync.Tree

/-- **iter_det**: the presented sequence is a function of the root and the *set* of attached changes -
whatever the order (or batching, or duplication on the way) in which they were attached. -/
theorem iter_det (root : Nat) (a₁ a₂ : List Change) (h : a₁.Perm a₂) : iter root a₁ = iter root a₂ :=
  iter_perm h root

/-- non-vacuity: a diamond attached in two different orders -/
example : iter 1 [⟨1, [], 0, true⟩, ⟨2, [1], 1, false⟩, ⟨3, [1], 1, false⟩, ⟨4, [2, 3], 1, false⟩]
        = iter 1 [⟨4, [2, 3], 1, false⟩, ⟨3, [1], 1, false⟩, ⟨1, [], 0, true⟩, ⟨2, [1], 1, false⟩] ∧
          iter 1 [⟨1, [], 0, true⟩, ⟨2, [1], 1, false⟩, ⟨3, [1], 1, false⟩, ⟨4, [2, 3], 1, false⟩] = [1, 2, 3, 4] := by
  decide

/-- **iter_topological**: in the presented sequence of a well-formed tree there are no repetitions and every
change comes after each of its parents that is presented (equivalently: after all its attached parents
above the root). -/
theorem iter_topological (root : Nat) (att : List Change) (hwf : WFAtt att) :
    (iter root att).Nodup ∧
    ∀ c ∈ att, ∀ p ∈ c.prevs, ∀ l1 l2, iter root att = l1 ++ p :: l2 → c.id ∈ l2 := by
  obtain ⟨rk, h1, h2, _⟩ := wf_rank hwf
  have hx := visit_ext (children att) rk h1 (att.length + 1) root [] (by have := h2 root; omega) (good_nil _)
  refine ⟨hx.good.1, ?_⟩
  intro c hc p hp l1 l2 hdec
  exact hx.good.2 l1 p l2 hdec c.id (mem_children.mpr ⟨c, hc, rfl, hp⟩)

/-- … and it presents exactly the root and what is reachable from it along `Next` -/
theorem iter_reachable (root : Nat) (att : List Change) (hwf : WFAtt att) :
    root ∈ iter root att ∧ (∀ y ∈ iter root att, Desc (children att) root y) ∧
    (∀ x ∈ iter root att, ∀ c ∈ children att x, c ∈ iter root att) := by
  obtain ⟨rk, h1, h2, _⟩ := wf_rank hwf
  have hx := visit_ext (children att) rk h1 (att.length + 1) root [] (by have := h2 root; omega) (good_nil _)
  refine ⟨hx.mem root (by simp), ?_, hx.good.closed⟩
  intro y hy
  obtain ⟨pre, hp, hd⟩ := hx.pre
  have : y ∈ pre := by
    have : iter root att = pre := by simpa [iter, rpo] using hp
    rw [← this]; exact hy
  obtain ⟨x, hx1, hx2⟩ := hd y this
  have : x = root := by simpa using hx1
  exact this ▸ hx2

/-- non-vacuity: the diamond is a well-formed attachment list -/
example : WFAtt [⟨1, [], 0, true⟩, ⟨2, [1], 1, false⟩, ⟨3, [1], 1, false⟩, ⟨4, [2, 3], 1, false⟩] := by
  have h0 := WFAtt.nil
  have h1 := @WFAtt.snoc [] ⟨1, [], 0, true⟩ h0 (by simp) (by simp) (by simp)
  have h2 := @WFAtt.snoc _ ⟨2, [1], 1, false⟩ h1 (by simp) (by simp) (by simp)
  have h3 := @WFAtt.snoc _ ⟨3, [1], 1, false⟩ h2 (by simp) (by simp) (by simp)
  have h4 := @WFAtt.snoc _ ⟨4, [2, 3], 1, false⟩ h3 (by simp) (by simp) (by simp)
  simpa using h4

end AnySync.Props.C06
