import AnySyncModel.Tree.Model
import AnySyncModel.Tree.Lemmas
/-!
C06 - change order is a function of the change set; incremental equals rebuilt.
Model: `AnySync.Tree` (`Tree/Model.lean`). Only property theorems and their non-vacuity examples here.
-/
namespace AnySync.Props.C06
open AnySync.Tree

/-- **iter_det**: the presented sequence is a function of the root and the *set* of attached changes -
whatever the order (or batching, or duplication on the way) in which they were attached. -/
theorem iter_det (root : Nat) (a₁ a₂ : List Change) (h : a₁.Perm a₂) : iter root a₁ = iter root a₂ :=
  iter_perm h root

/-- non-vacuity: a diamond attached in two different orders -/
example : iter 1 [⟨1, [], 0, true⟩, ⟨2, [1], 1, false⟩, ⟨3, [1], 1, false⟩, ⟨4, [2, 3], 1, false⟩]
        = iter 1 [⟨4, [2, 3], 1, false⟩, ⟨3, [1], 1, false⟩, ⟨1, [], 0, true⟩, ⟨2, [1], 1, false⟩] ∧
          iter 1 [⟨1, [], 0, true⟩, ⟨2, [1], 1, false⟩, ⟨3, [1], 1, false⟩, ⟨4, [2, 3], 1, false⟩] = [1, 2, 3, 4] := by
  decide

end AnySync.Props.C06
