import AnySyncModel.Ldiff.Exact
import AnySyncModel.Ldiff.Shape
/-!
# C07 — the range-hash diff reports exactly the differing ids

Model: `AnySyncModel/Ldiff/Model.lean` (`getRange` with fix-nilhash, `compareResults`,
`cmpEqual`/`cmpGreater`, the round loop `rounds`). Specification: `specK` (per list: ids only
remote / on both sides with different heads, split by which head is greater in the comparing
variant / only local), stated over the two `(id, head)` lists.

Headline: `diff_exact` — for two canonical indexes (by C08 `step_refines_canon` every index reached
by any history is canonical) with the same parameters, injective digests (`DigOk`), a good splitter
(`SplitterOk`, proved for the Go arithmetic: no width hypothesis since fix-width), and counts below
2^32 on the wire: whenever the
round loop ends, every one of the four lists contains exactly the specified ids, each once — for
both variants, in process and through the wire adapters; `diff_terminates`: it ends within its 80
rounds; `diff_total_exact` assembles both.
-/
namespace AnySync.Ldiff

/-- the range arithmetic of the model is the arithmetic regenerated from `hashrange.go` -/
theorem shape_ok : type_of% ldiffShape_ok := ldiffShape_ok

/-- **what the specification lists mean** (for `(id, head)` lists with distinct ids): `new` = ids
present only remotely, `rm` = ids present only locally, `ch` = ids on both sides with different
heads (in the comparing variant: … and the remote head is not greater), `th` = … and the remote
head is greater (empty in the plain variant). -/
theorem spec_meaning (my other : List (Nat × Nat)) (hno : (other.map (·.1)).Nodup) (id : Nat) :
    (∀ g, id ∈ specK g .new my other ↔ (∃ h, (id, h) ∈ other) ∧ ∀ h, (id, h) ∉ my) ∧
    (∀ g, id ∈ specK g .rm my other ↔ (∃ h, (id, h) ∈ my) ∧ ∀ h, (id, h) ∉ other) ∧
    (id ∈ specK false .ch my other ↔ ∃ h h', (id, h) ∈ my ∧ (id, h') ∈ other ∧ h' ≠ h) ∧
    (id ∈ specK true .ch my other ↔ ∃ h h', (id, h) ∈ my ∧ (id, h') ∈ other ∧ h' ≠ h ∧ ¬ h' > h) ∧
    (id ∈ specK true .th my other ↔ ∃ h h', (id, h) ∈ my ∧ (id, h') ∈ other ∧ h' ≠ h ∧ h' > h) ∧
    specK false .th my other = [] := by
  refine ⟨fun g => ?_, fun g => ?_, ?_, ?_, ?_, rfl⟩
  · cases g <;> exact mem_specNew
  · cases g <;> exact mem_specRemoved
  · simp only [specK, Bool.false_eq_true, if_false, specChanged]
    rw [mem_specFilter hno]
    simp [relNe]
  · simp only [specK, if_true, specOurChanged]
    rw [mem_specFilter hno]
    simp [relOur]
  · simp only [specK, if_true, specTheirChanged]
    rw [mem_specFilter hno]
    simp [relTheir]

/-- every id the specification mentions has a 64-bit hash -/
theorem spec_id_lt (hf : Nat → Nat) (a b : List Elem) (hwa : SlWf hf a) (hwb : SlWf hf b)
    (g : Bool) (k : Kind) (id : Nat) (h : id ∈ specK g k (pairs a) (pairs b)) : hf id < M := by
  have hnb : ((pairs b).map (·.1)).Nodup := by rw [pairs_fst]; exact hwb.nodup
  have ofA : ∀ hd, (id, hd) ∈ pairs a → hf id < M := by
    intro hd hm
    simp only [pairs, List.mem_map, Prod.mk.injEq] at hm
    obtain ⟨e, he, rfl, _⟩ := hm
    have := hwa.hash e he
    omega
  have ofB : ∀ hd, (id, hd) ∈ pairs b → hf id < M := by
    intro hd hm
    simp only [pairs, List.mem_map, Prod.mk.injEq] at hm
    obtain ⟨e, he, rfl, _⟩ := hm
    have := hwb.hash e he
    omega
  cases k with
  | new =>
    obtain ⟨⟨hd, hm⟩, _⟩ := mem_specNew.mp h
    exact ofB hd hm
  | rm =>
    obtain ⟨⟨hd, hm⟩, _⟩ := mem_specRemoved.mp h
    exact ofA hd hm
  | ch =>
    cases g
    · simp only [specK, Bool.false_eq_true, if_false, specChanged] at h
      obtain ⟨hd, _, hm, _, _⟩ := (mem_specFilter hnb _).mp h
      exact ofA hd hm
    · simp only [specK, if_true, specOurChanged] at h
      obtain ⟨hd, _, hm, _, _⟩ := (mem_specFilter hnb _).mp h
      exact ofA hd hm
  | th =>
    cases g
    · simp [specK] at h
    · simp only [specK, if_true, specTheirChanged] at h
      obtain ⟨hd, _, hm, _, _⟩ := (mem_specFilter hnb _).mp h
      exact ofA hd hm

/-- **diff_exact.** `Diff` (`greater = false`) and `CompareDiff` (`greater = true`), in process
(`wire = false`) and through the head-sync / key-value wire adapters (`wire = true`): if the round
loop ends with result `c`, then each of the four lists `newIds`, `changed`, `theirChanged`,
`removed` has no duplicates and contains exactly the ids the specification names. -/
theorem diff_exact {D} [DecidableEq D] (A : DigAlg D) (S : Splitter) (p : Params) (hf : Nat → Nat)
    (a b : List Elem) (greater wire : Bool)
    (hA : DigOk A) (hwa : SlWf hf a) (hwb : SlWf hf b) (hS : SplitterOk S p.df)
    (hsmall : wire = true → b.length < 4294967296)
    (c : DCtx) (hd : diff A S greater wire (canon A S p a) (canon A S p b) = some c) :
    ∀ k, (c.get k).Nodup ∧ ∀ id, id ∈ c.get k ↔ id ∈ specK greater k (pairs a) (pairs b) := by
  have h0 : Inv hf a b greater {} [⟨0, M - 1, false⟩] := by
    refine ⟨?_, ?_, List.pairwise_singleton _ _⟩
    · intro k id
      constructor
      · intro h; cases k <;> cases h
      · rintro ⟨hs, hc⟩
        exfalso; apply hc
        have := spec_id_lt hf a b hwa hwb greater k id hs
        exact ⟨_, List.mem_singleton.mpr rfl, Nat.zero_le _, by show hf id ≤ M - 1; omega⟩
    · intro k; cases k <;> exact List.nodup_nil
  have hfin := rounds_inv A S p hf a b greater wire hA hwa hwb (topOk_of_splitterOk S p a hS) (topOk_of_splitterOk S p b hS) hsmall 80 {} _ h0 c hd
  intro k
  refine ⟨hfin.nodup k, fun id => ?_⟩
  rw [hfin.mem k id]
  constructor
  · exact fun h => h.1
  · exact fun h => ⟨h, fun ⟨r, hr, _⟩ => by cases hr⟩

/-- **diff_exact for the Go arithmetic** (`goSplit`): no width hypothesis (fix-width). -/
theorem diff_exact_go {D} [DecidableEq D] (A : DigAlg D) (p : Params) (hf : Nat → Nat)
    (a b : List Elem) (greater wire : Bool) (hdf : 2 ≤ p.df) (hM : p.df ≤ M)
    (hA : DigOk A) (hwa : SlWf hf a) (hwb : SlWf hf b)
    (hsmall : wire = true → b.length < 4294967296)
    (c : DCtx) (hd : diff A goSplit greater wire (canon A goSplit p a) (canon A goSplit p b) = some c) :
    ∀ k, (c.get k).Nodup ∧ ∀ id, id ∈ c.get k ↔ id ∈ specK greater k (pairs a) (pairs b) :=
  diff_exact A goSplit p hf a b greater wire hA hwa hwb (splitterOk_go p.df hdf hM) hsmall c hd

/-- **diff_terminates.** Under the width hypothesis the round loop ends within its 80 rounds: a
pending range whose remote subtree has depth budget `g` has level `g + 2`, an element request
level 1, the top range level `depthFuel + 3 = 73`; every round lowers all levels by one. -/
theorem diff_terminates {D} [DecidableEq D] (A : DigAlg D) (S : Splitter) (p : Params) (hf : Nat → Nat)
    (a b : List Elem) (greater wire : Bool)
    (hA : DigOk A) (hwa : SlWf hf a) (hwb : SlWf hf b) (hS : SplitterOk S p.df)
    (hsmall : wire = true → b.length < 4294967296) :
    ∃ c, diff A S greater wire (canon A S p a) (canon A S p b) = some c := by
  unfold diff
  apply rounds_terminate A S p hf a b greater wire hA hwa hwb (topOk_of_splitterOk S p a hS) (topOk_of_splitterOk S p b hS) hsmall (depthFuel + 3) 80
  · intro r hr
    rw [List.mem_singleton.mp hr]
    exact Or.inr (Or.inr ⟨rfl, Nat.le_refl _⟩)
  · decide

/-- **C07, assembled**: the diff terminates and reports exactly the specified ids, each once. -/
theorem diff_total_exact {D} [DecidableEq D] (A : DigAlg D) (S : Splitter) (p : Params) (hf : Nat → Nat)
    (a b : List Elem) (greater wire : Bool)
    (hA : DigOk A) (hwa : SlWf hf a) (hwb : SlWf hf b) (hS : SplitterOk S p.df)
    (hsmall : wire = true → b.length < 4294967296) :
    ∃ c, diff A S greater wire (canon A S p a) (canon A S p b) = some c ∧
      ∀ k, (c.get k).Nodup ∧ ∀ id, id ∈ c.get k ↔ id ∈ specK greater k (pairs a) (pairs b) := by
  obtain ⟨c, hc⟩ := diff_terminates A S p hf a b greater wire hA hwa hwb hS hsmall
  exact ⟨c, hc, diff_exact A S p hf a b greater wire hA hwa hwb hS hsmall c hc⟩

/-- **C07 for the Go arithmetic, unconditional in the contents**: for ANY two element sets (ids
determine 64-bit hashes), any `df ≥ 2`, `thr`, both variants, in process and on the wire (counts
below 2^32): the diff terminates and reports exactly the specified ids, each once. -/
theorem diff_total_exact_go {D} [DecidableEq D] (A : DigAlg D) (p : Params) (hf : Nat → Nat)
    (a b : List Elem) (greater wire : Bool) (hdf : 2 ≤ p.df) (hM : p.df ≤ M)
    (hA : DigOk A) (hwa : SlWf hf a) (hwb : SlWf hf b)
    (hsmall : wire = true → b.length < 4294967296) :
    ∃ c, diff A goSplit greater wire (canon A goSplit p a) (canon A goSplit p b) = some c ∧
      ∀ k, (c.get k).Nodup ∧ ∀ id, id ∈ c.get k ↔ id ∈ specK greater k (pairs a) (pairs b) :=
  diff_total_exact A goSplit p hf a b greater wire hA hwa hwb (splitterOk_go p.df hdf hM) hsmall

/-- `compareElementsEqual` / `compareElementsGreater` append exactly the specified ids (re-exported) -/
theorem compareElements_exact (g : Bool) (c : DCtx) (my other : List (Nat × Nat)) (k : Kind) :
    (cmpEls g c my other).get k = c.get k ++ specK g k my other := (cmpEls_get g c my other k).1

/-- equal answer hashes mean equal contents of the range: branch 1 of `compareResults` is sound in
all node / no-node combinations (this is what fix-nilhash repairs) -/
theorem equal_hash_equal_contents {D} (A : DigAlg D) (S : Splitter) (p : Params) (hA : DigOk A)
    (a b : List Elem) (lo hi : Nat) (h : Option D)
    (ha : IsDigest A S p a lo hi h) (hb : IsDigest A S p b lo hi h) :
    ∀ x, x ∈ pairs (slRange a lo hi) ↔ x ∈ pairs (slRange b lo hi) :=
  digest_inj A S p hA a b lo hi h ha hb

/-- the ranges of a subdivision cover their parent exactly and are pairwise disjoint
(round-structure lemma) -/
theorem subdivision_partitions (S : Splitter) (df : Nat) (r : Range) (hs : SplitOk S df r.lo r.hi) :
    (∀ x, covers ((genTupleRanges r.lo r.hi df).map fun t => (⟨t.1, t.2, false⟩ : Range)) x ↔ r.has x) ∧
    ((genTupleRanges r.lo r.hi df).map fun t => (⟨t.1, t.2, false⟩ : Range)).Pairwise Disj :=
  children_cover S df r hs

/-- the wire adapters do not change an answer whose count is below 2^32 -/
theorem wire_adapters_id {D} (r : RangeRes D) (h : r.count < 4294967296) : r.wire = r := wire_id r h

/-- non-vacuity: one element-list comparison with a removed, a changed and a new id -/
example : cmpEqual {} [(0, 1), (1, 2)] [(1, 3), (2, 1)] =
    { newIds := [2], changed := [1], removed := [0] } := by decide

example : cmpGreater {} [(0, 1), (1, 2), (3, 5)] [(1, 3), (2, 1), (3, 4)] =
    { newIds := [2], changed := [3], theirChanged := [1], removed := [0] } := by decide

end AnySync.Ldiff
