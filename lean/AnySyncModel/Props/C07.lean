import AnySyncModel.Ldiff.Shape
/-!
# C07 — the range-hash diff reports exactly the differing ids

Model: `AnySyncModel/Ldiff/Model.lean` (`getRange` with fix-nilhash, `compareResults`,
`cmpEqual`/`cmpGreater`, `rounds`).  Specification: `AnySyncModel/Ldiff/Spec.lean`.
-/
namespace AnySync.Ldiff

/-- digests are collision free and the two kinds never collide (blake3; trusted) -/
structure DigOk {D} (A : DigAlg D) : Prop where
  hE_inj : Function.Injective A.hE
  hN_inj : Function.Injective A.hN
  sep : ∀ l l', A.hE l ≠ A.hN l'

/-- **Full statement.**  For two canonical indexes with the same parameters satisfying the width
hypothesis, injective digests and counts below 2^32, both diff variants, in process and through
the wire adapters, terminate and report exactly the set difference, each id once. -/
def C07_diff_exact_full : Prop :=
  ∀ (D : Type) [DecidableEq D] (A : DigAlg D), DigOk A →
  ∀ (p : Params) (a b : List Elem) (greater wire : Bool),
    2 ≤ p.df → 1 ≤ p.thr → a.length < 4294967296 → b.length < 4294967296 →
    (a.map (·.id)).Nodup → (b.map (·.id)).Nodup →
    TopOk goSplit p a → TopOk goSplit p b →
    ∃ c, diff A goSplit greater wire (canon A goSplit p a) (canon A goSplit p b) = some c ∧
      c.newIds.Perm (specNew (pairs a) (pairs b)) ∧
      c.removed.Perm (specRemoved (pairs a) (pairs b)) ∧
      (greater = false → c.changed.Perm (specChanged (pairs a) (pairs b)) ∧ c.theirChanged = []) ∧
      (greater = true → c.changed.Perm (specOurChanged (pairs a) (pairs b)) ∧
        c.theirChanged.Perm (specTheirChanged (pairs a) (pairs b)))

/-- the range arithmetic of the model is the arithmetic regenerated from `hashrange.go` -/
theorem shape_ok : type_of% ldiffShape_ok := ldiffShape_ok

/-- the wire adapters do not change an answer whose count is below 2^32 -/
theorem wire_id {D} (r : RangeRes D) (h : r.count < 4294967296) : r.wire = r := by
  cases r; simp [RangeRes.wire, Nat.mod_eq_of_lt h]

/-- a range that has no node is answered with the hash of its elements: nil iff it is empty
(fix-nilhash; on the unrepaired code this hash was always nil and local-only ids were skipped) -/
theorem elemsHash_none_iff {D} (A : DigAlg D) (els : List Elem) :
    elemsHash A els = none ↔ els = [] := by
  unfold elemsHash; cases els <;> simp

/-- equal element digests mean equal `(id, head)` lists (branch 1 of `compareResults` is sound on
undivided ranges) -/
theorem elemsHash_inj {D} (A : DigAlg D) (h : DigOk A) (l l' : List Elem)
    (he : elemsHash A l = elemsHash A l') : pairs l = pairs l' := by
  unfold elemsHash at he
  cases l <;> cases l' <;> simp_all [pairs]
  simpa using h.hE_inj he

/-- an element digest never equals a divided digest: a divided range is never skipped against an
undivided one -/
theorem elems_ne_divided {D} (A : DigAlg D) (h : DigOk A) (l : List Elem) (ts : List (Tree D)) :
    elemsHash A l ≠ kidsHash A ts := by
  unfold elemsHash kidsHash
  split
  · simp
  · intro he; exact h.sep _ _ (Option.some.inj he)

/-- equal hashes: nothing is reported and nothing is scheduled -/
theorem compareResults_equal {D} [DecidableEq D] (A : DigAlg D) (S : Splitter) (g : Bool) (my : Index D) (c : DCtx)
    (r : Range) (m o : RangeRes D) (h : m.hash = o.hash) : compareResults A S g my c r m o = c := by
  simp [compareResults, h]

/-- non-vacuity: one element-list comparison with a removed, a changed and a new id -/
example : cmpEqual {} [(0, 1), (1, 2)] [(1, 3), (2, 1)] =
    { newIds := [2], changed := [1], removed := [0] } := by decide

example : cmpGreater {} [(0, 1), (1, 2), (3, 5)] [(1, 3), (2, 1), (3, 4)] =
    { newIds := [2], changed := [3], theirChanged := [1], removed := [0] } := by decide

end AnySync.Ldiff
