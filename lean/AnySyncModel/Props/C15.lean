import AnySyncModel.Deletion.Lemmas
/-!
# C15 — deletion is permanent: a deleted object is never resurrected or re-advertised

All theorems are about `run (St.init n parent) ops` for **every** catalogue `n, parent` and **every**
step sequence `ops` over the alphabet {put, fetch, fstart, ffin, edit, head, run (deletion worker),
restart, deliver / del (settings log views), record}: induction over `ops` through the invariant
`Inv` / the step relation `Mono` of `Deletion/Lemmas.lean`.  The model describes the code with the
repair of F-delete-fetch-race (tombstone re-check inside `CreateStorageTx`); without that re-check
`no_resurrection` is false (witness `no_resurrection_needs_recheck` below).
-/
namespace AnySync.Props.C15
open AnySync.Deletion

/-- a state reachable from an empty space by any step sequence -/
def reach (n : Nat) (parent : Nat → Option Nat) (ops : List Op) : St := run (St.init n parent) ops

theorem reach_inv (n parent ops) : Inv (reach n parent ops) := (good_run _ ops (inv_init n parent)).1

theorem reach_append (n parent) (ops ops' : List Op) : reach n parent (ops ++ ops') = run (reach n parent ops) ops' := by
  simp [reach, run, List.foldl_append]

/-! ## status is monotone: NotDeleted ≤ Queued ≤ Deleted, across every step incl. restart -/

theorem status_monotone (n parent) (ops ops' : List Op) (k : Nat) :
    (reach n parent ops).status k ≤ (reach n parent (ops ++ ops')).status k ∧
    ((reach n parent ops).entry k = true → (reach n parent (ops ++ ops')).entry k = true) ∧
    (reach n parent (ops ++ ops')).status k ≤ 2 := by
  rw [reach_append]
  have g := good_run (reach n parent ops) ops' (reach_inv n parent ops)
  exact ⟨(g.2 k).1, (g.2 k).2, g.1.le2 k⟩

/-- in particular a tombstone is never lifted -/
theorem tombstone_permanent (n parent) (ops ops' : List Op) (k : Nat)
    (h : (reach n parent ops).tomb k = true) : (reach n parent (ops ++ ops')).tomb k = true := by
  have m := status_monotone n parent ops ops' k
  simp only [St.tomb, Bool.and_eq_true, decide_eq_true_eq] at h ⊢
  exact ⟨m.2.1 h.1, Nat.le_trans h.2 m.1⟩

example : (reach 2 (fun _ => none) [.record ⟨[0], none⟩, .deliver (some ⟨false, 0, 0, [0, 1]⟩)]).status 0 = 1 := by decide
example : (reach 2 (fun _ => none) [.record ⟨[0], none⟩, .deliver (some ⟨false, 0, 0, [0, 1]⟩), .run, .restart (some ⟨true, 0, 0, [0, 1]⟩)]).status 0 = 2 := by decide

/-! ## a tombstoned id is not in the advertised head index, and never returns to it -/

theorem tombstoned_not_advertised (n parent) (ops ops' : List Op) (k : Nat)
    (h : (reach n parent ops).tomb k = true) : (reach n parent (ops ++ ops')).adv k = false := by
  have t := tombstone_permanent n parent ops ops' k h
  simp only [St.tomb, Bool.and_eq_true, decide_eq_true_eq] at t
  exact (reach_inv n parent (ops ++ ops')).adv k t.1 t.2

-- non-vacuous: an advertised id leaves the index when its deletion record arrives, edits and head updates do not bring it back
example : (reach 1 (fun _ => none) [.put 0, .edit 0]).adv 0 = true := by decide
example : (reach 1 (fun _ => none) [.put 0, .edit 0, .record ⟨[0], none⟩, .deliver (some ⟨false, 0, 0, [0, 1]⟩), .edit 0, .head 0]).adv 0 = false := by decide

/-! ## create / put / fetch of a tombstoned id fail as already deleted -/

theorem put_fails (n parent ops) (k : Nat) (h : (reach n parent ops).tomb k = true) :
    (step (reach n parent ops) (.put k)).2 = .deleted := by
  simp [step, stepPut, h]

theorem fetch_fails (n parent ops) (k : Nat) (h : (reach n parent ops).tomb k = true)
    (hs : (reach n parent ops).stored k = false) :
    (step (reach n parent ops) (.fetch k)).2 = .deleted ∧ (step (reach n parent ops) (.fstart k)).2 = .deleted := by
  simp [step, stepFetch, stepFStart, getLocal, h, hs]

/-- once the status is Deleted the tree is not stored any more (`no_resurrection`), so every fetch fails -/
theorem fetch_deleted_fails (n parent ops) (k : Nat) (he : (reach n parent ops).entry k = true)
    (h : (reach n parent ops).status k = 2) :
    (step (reach n parent ops) (.fetch k)).2 = .deleted ∧ (step (reach n parent ops) (.fstart k)).2 = .deleted := by
  have hs := (reach_inv n parent ops).unstored k he h
  exact fetch_fails n parent ops k (by simp [St.tomb, he, h]) hs

/-- a remote response for a tombstoned id creates nothing: the request that was in flight when the
deletion arrived fails as well (this is the repaired F-delete-fetch-race) -/
theorem fetch_finish_fails (n parent ops) (k : Nat) (hf : (reach n parent ops).fetching = some k)
    (h : (reach n parent ops).tomb k = true) :
    (step (reach n parent ops) .ffin).2 ≠ .ok ∧
    (step (reach n parent ops) .ffin).1.stored k = (reach n parent ops).stored k := by
  have h0 : ({ reach n parent ops with fetching := none } : St).tomb k = true := h
  have c := createFetched_tomb _ k h0
  simp only [step, stepFFin, hf]
  exact ⟨c.1, by rw [c.2]⟩

/-- an incoming head update for a tombstoned id that is not held locally fails and creates nothing -/
theorem head_update_fails (n parent ops) (k : Nat) (h : (reach n parent ops).tomb k = true)
    (hs : (reach n parent ops).stored k = false) :
    (step (reach n parent ops) (.head k)).2 = .deleted ∧ (step (reach n parent ops) (.head k)).1.stored k = false := by
  have hl : (reach n parent ops).live k = false := by
    cases hl : (reach n parent ops).live k
    · rfl
    · have := (reach_inv n parent ops).live k hl; simp_all
  simp [step, stepHead, getCached, getLocal, h, hs, hl]

example : (step (reach 1 (fun _ => none) [.record ⟨[0], none⟩, .deliver (some ⟨false, 0, 0, [0, 1]⟩)]) (.put 0)).2 = .deleted := by decide
example : (step (reach 1 (fun _ => none) [.fstart 0, .record ⟨[0], none⟩, .deliver (some ⟨false, 0, 0, [0, 1]⟩), .run]) .ffin).2 = .deleted := by decide

/-! ## no resurrection: a Deleted id has no stored tree and no live object, in every reachable state -/

theorem no_resurrection (n parent ops) (k : Nat) (he : (reach n parent ops).entry k = true)
    (h : (reach n parent ops).status k = 2) :
    (reach n parent ops).stored k = false ∧ (reach n parent ops).live k = false := by
  have i := reach_inv n parent ops
  have hs := i.unstored k he h
  refine ⟨hs, ?_⟩
  cases hl : (reach n parent ops).live k
  · rfl
  · have := i.live k hl; simp_all

/-- and this stays so for ever -/
theorem no_resurrection_forever (n parent) (ops ops' : List Op) (k : Nat)
    (he : (reach n parent ops).entry k = true) (h : (reach n parent ops).status k = 2) :
    (reach n parent (ops ++ ops')).status k = 2 ∧ (reach n parent (ops ++ ops')).stored k = false ∧
    (reach n parent (ops ++ ops')).live k = false := by
  have m := status_monotone n parent ops ops' k
  have h2 : (reach n parent (ops ++ ops')).status k = 2 := by omega
  exact ⟨h2, no_resurrection n parent (ops ++ ops') k (m.2.1 he) h2⟩

example : (reach 1 (fun _ => none) [.put 0, .record ⟨[0], none⟩, .deliver (some ⟨false, 0, 0, [0, 1]⟩), .run]).status 0 = 2 := by decide

/-- The re-check inside the storage-creating transaction is what makes `no_resurrection` true. The
same step without it (`createTx` applied to the parked id directly, as the code did before the
repair) yields, on the schedule `fstart 0; deletion record; worker run; response`, a state whose
status is Deleted and whose tree is stored and live. -/
theorem no_resurrection_needs_recheck :
    let s := reach 1 (fun _ => none) [.fstart 0, .record ⟨[0], none⟩, .deliver (some ⟨false, 0, 0, [0, 1]⟩), .run]
    let s' := headsUpdate (createTx s 0) 0
    s.fetching = some 0 ∧ s'.status 0 = 2 ∧ s'.stored 0 = true := by decide

/-- the state invariant (tombstoned ⇒ not advertised, Deleted ⇒ neither stored nor live, statuses
monotone) also survives a crash inside a worker pass followed by a restart -/
theorem crash_preserves (s : St) (k : Nat) (v : Option View) (h : Inv s) :
    Inv (stepCrash s k v).1 ∧ Mono s (stepCrash s k v).1 := good_stepCrash s k v h

/-! ## children follow their parent -/

/-- a child created (put, fetched, or arriving with a head update) while its parent is tombstoned
is queued in the same transaction -/
theorem child_queued_at_creation (s : St) (c p : Nat) (hp : s.parent c = some p) (hne : p ≠ c)
    (ht : s.tomb p = true) : (createTx s c).tomb c = true := by
  have : (createBase s c).tomb p = true := by
    simp only [St.tomb, createBase, upd, hne, if_false] at ht ⊢; exact ht
  simp only [createTx, hp]
  rw [if_pos this]
  simp [St.tomb, setStatus, upd]

theorem put_child_of_tombstoned_parent (s : St) (c p : Nat) (hp : s.parent c = some p) (hne : p ≠ c)
    (ht : s.tomb p = true) (hok : (step s (.put c)).2 = .ok) : (step s (.put c)).1.tomb c = true := by
  have e := stepPut_ok s c hok
  have q := child_queued_at_creation s c p hp hne ht
  simp only [step]
  rw [e]
  simpa [St.tomb] using q

example : (reach 2 (fun k => if k = 1 then some 0 else none)
    [.put 0, .del 0 false (some ⟨false, 0, 0, [0, 1]⟩), .run, .put 1]).status 1 = 1 := by decide

/-- restart: the orphan scan queues a bound child of a Deleted parent that is still NotDeleted -/
theorem orphan_queued (s : St) (c : Nat) (h : orphanCond s c = true) : (orphanOne s c).tomb c = true := by
  simp [orphanOne, h, St.tomb, setStatus, upd]

/-- the deletion worker deletes the bound children of every id it deletes -/
theorem worker_deletes_child (s : St) (c : Nat) (h : ¬ 2 ≤ s.status c) : (deleteOne s c).status c = 2 ∧ (deleteOne s c).entry c = true := by
  simp [deleteOne, setStatus, upd]

/-- catalogues the code admits: the parent of a bound child is never itself a bound child
(`CreateStorageTx` refuses a derived parent with `ErrDerivedParent`) -/
def WF (parent : Nat → Option Nat) : Prop := ∀ a b, parent a = some b → parent b = none

theorem reach_both (n parent ops) (hw : WF parent) : Both (reach n parent ops) :=
  both_run _ ops ⟨inv_init n parent, invC_init n parent hw⟩

/-- in every reachable state a bound child of a Deleted parent is tombstoned (at creation, by the
worker, or by the orphan scan on restart). `s.n`, `s.parent` are the catalogue, which no step changes. -/
theorem children_follow_deleted_parent (n parent ops) (hw : WF parent) (c p : Nat)
    (hc : c < (reach n parent ops).n) (hpar : (reach n parent ops).parent c = some p)
    (he : (reach n parent ops).entry c = true) (hb : (reach n parent ops).bound c = true)
    (hpe : (reach n parent ops).entry p = true) (hps : (reach n parent ops).status p = 2) :
    (reach n parent ops).tomb c = true := by
  have b := reach_both n parent ops hw
  have := b.2.J c p hc hpar he hb hpe hps
  simp [St.tomb, he, this]

/-- after a run of the deletion worker every bound child of a tombstoned (Queued or Deleted) parent is
tombstoned -/
theorem children_follow_after_run (n parent ops) (hw : WF parent) (c p : Nat)
    (hc : c < (reach n parent ops).n) (hp : p < (reach n parent ops).n)
    (hpar : (reach n parent ops).parent c = some p)
    (he : (stepRun (reach n parent ops)).entry c = true) (hb : (stepRun (reach n parent ops)).bound c = true)
    (ht : (stepRun (reach n parent ops)).tomb p = true) :
    (stepRun (reach n parent ops)).tomb c = true :=
  children_after_run _ (reach_both n parent ops hw) c p hc hp hpar he hb ht

example : (reach 2 (fun k => if k = 1 then some 0 else none)
    [.put 0, .put 1, .record ⟨[0], none⟩, .deliver (some ⟨false, 0, 0, [0, 1]⟩), .run]).status 1 = 2 := by decide

/-! ## the deleted-ids set derived from the settings log -/

/-- the state builder computes exactly the union of the delete ids of the changes it iterates -/
theorem deletedIds_is_union (recs : List Rec) (root : Nat) (seq : List Nat) (st : SState)
    (h : PlainSeq root st.last seq) :
    ∃ st', processAll recs root (some st) seq = some st' ∧
      ∀ x, x ∈ st'.deleted ↔ x ∈ st.deleted ∨ ∃ c ∈ seq, x ∈ idsOf recs c := by
  obtain ⟨st', e1, e2, _⟩ := mem_processAll recs root seq st h
  exact ⟨st', e1, e2⟩

/-- grow-only: whatever arrives, no id leaves the set -/
theorem deletedIds_monotone (recs : List Rec) (root : Nat) (seq : List Nat) (st : SState)
    (h : PlainSeq root st.last seq) :
    ∃ st', processAll recs root (some st) seq = some st' ∧ ∀ x, x ∈ st.deleted → x ∈ st'.deleted := by
  obtain ⟨st', e1, e2, _⟩ := mem_processAll recs root seq st h
  exact ⟨st', e1, fun x hx => (e2 x).2 (Or.inl hx)⟩

/-- order independence: two arrival orders of the same changes give the same set -/
theorem deletedIds_order_independent (recs : List Rec) (root : Nat) (seq₁ seq₂ : List Nat) (st : SState)
    (h₁ : PlainSeq root st.last seq₁) (h₂ : PlainSeq root st.last seq₂) (hp : seq₁.Perm seq₂) :
    ∃ a b, processAll recs root (some st) seq₁ = some a ∧ processAll recs root (some st) seq₂ = some b ∧
      ∀ x, x ∈ a.deleted ↔ x ∈ b.deleted := by
  obtain ⟨a, a1, a2, _⟩ := mem_processAll recs root seq₁ st h₁
  obtain ⟨b, b1, b2, _⟩ := mem_processAll recs root seq₂ st h₂
  refine ⟨a, b, a1, b1, fun x => ?_⟩
  rw [a2 x, b2 x]
  constructor <;> rintro (h | ⟨c, hc, hx⟩)
  · exact Or.inl h
  · exact Or.inr ⟨c, hp.mem_iff.1 hc, hx⟩
  · exact Or.inl h
  · exact Or.inr ⟨c, hp.mem_iff.2 hc, hx⟩

/-- incremental = from scratch: continuing from the state reached after `l₁` (the builder restarts at
`LastIteratedId`, which it skips) is the same as one pass over `l₁ ++ l₂` -/
theorem deletedIds_incremental_eq_scratch (recs : List Rec) (root : Nat) (st st₁ : SState) (l₁ l₂ : List Nat)
    (h : processAll recs root (some st) l₁ = some st₁) :
    processAll recs root (some st₁) (st₁.last :: l₂) = processAll recs root (some st) (l₁ ++ l₂) := by
  rw [processAll_append, h]
  simp [processAll, processChange_last]

/-- a snapshot root is safe: if the snapshot carries the union of the deletes of its causal past
(`past`, which every honest author's snapshot does: `del_snapshot_is_union`), building from the
snapshot gives the same set as building from the full history -/
theorem deletedIds_snapshot_safe (recs : List Rec) (r : Nat) (sn : List Nat) (past seq : List Nat)
    (hr : (recs.getD r ⟨[], none⟩).snap = some sn) (hr0 : r ≠ 0)
    (hsn : ∀ x, x ∈ sn ↔ ∃ c ∈ past ++ [r], x ∈ idsOf recs c)
    (hfull : PlainSeq 0 0 (past ++ [r] ++ seq)) (hseq : PlainSeq r r seq) :
    ∃ a b, processAll recs r (some ⟨[], 0⟩) (r :: seq) = some a ∧
           processAll recs 0 (some ⟨[], 0⟩) (0 :: (past ++ [r] ++ seq)) = some b ∧
           ∀ x, x ∈ a.deleted ↔ x ∈ b.deleted := by
  have e0 : processChange recs r ⟨[], 0⟩ r = some ⟨unionIds sn [], r⟩ := by
    unfold processChange
    rw [if_neg (by intro h; rcases h with h | h; exact hr0 h; exact hr0 h.symm), if_pos rfl, hr]
  obtain ⟨a, a1, a2, _⟩ := mem_processAll recs r seq ⟨unionIds sn [], r⟩ hseq
  obtain ⟨b, b1, b2, _⟩ := mem_processAll recs 0 (past ++ [r] ++ seq) ⟨[], 0⟩ hfull
  refine ⟨a, b, by simp [processAll, e0, a1], by simp only [processAll, processChange, true_or, if_true]; exact b1, fun x => ?_⟩
  rw [a2 x, b2 x]
  simp only [mem_unionIds, hsn x, List.mem_append, List.not_mem_nil, or_false, false_or]
  constructor
  · rintro (⟨c, hc, hx⟩ | ⟨c, hc, hx⟩)
    · exact ⟨c, Or.inl (by simpa using hc), hx⟩
    · exact ⟨c, Or.inr hc, hx⟩
  · rintro ⟨c, (hc | hc), hx⟩
    · exact Or.inl ⟨c, by simpa using hc, hx⟩
    · exact Or.inr ⟨c, hc, hx⟩

/-- the snapshot written by a local delete is the union of the new ids and everything deleted so far -/
theorem del_snapshot_is_union (s : St) (k : Nat) (v : Option View) (st : SState) (hs : s.ss = some st)
    (hok : (stepDel s k true v).2.1 = .ok ∨ (stepDel s k true v).2.2.snap.isSome) :
    ∃ sn, (stepDel s k true v).2.2.snap = some sn ∧
      ∀ x, x ∈ sn ↔ x ∈ (stepDel s k true v).2.2.ids ∨ x ∈ st.deleted := by
  simp only [stepDel, hs] at hok ⊢
  split at hok <;> rename_i h1 <;> simp only [h1] at * <;> try (simp at hok)
  split at hok <;> rename_i h2 <;> simp only [h2] at * <;> try (simp at hok)
  split at hok <;> rename_i h3 <;> simp only [h3] at * <;> try (simp at hok)
  exact ⟨_, rfl, fun x => mem_unionIds x _ _⟩

/-- every id of the deleted set is tombstoned in the heads table right after the settings update -/
theorem deleted_ids_are_tombstoned (s : St) (ids : List Nat) (h : Inv s) (k : Nat) (hk : k ∈ ids) :
    (addAll s ids).tomb k = true := by
  unfold addAll
  induction ids generalizing s with
  | nil => cases hk
  | cons a l ih =>
    simp only [List.foldl]
    have g := good_addOne s a h
    rcases List.mem_cons.1 hk with e | hm
    · subst e
      have t : (addOne s k).tomb k = true := by
        unfold addOne
        split
        · rename_i hm
          have hm' : s.mirror k ≠ 0 := by simpa using hm
          have := h.mirrorTomb k hm'
          simp [St.tomb, this.1, this.2]
        · simp [St.tomb, setStatus, upd]
      have m := (good_foldl addOne good_addOne l _ g.1).2 k
      simp only [St.tomb, Bool.and_eq_true, decide_eq_true_eq] at t ⊢
      exact ⟨m.2 t.1, Nat.le_trans t.2 m.1⟩
    · exact ih _ g.1 hm

example : (processAll [⟨[], none⟩, ⟨[3], none⟩, ⟨[1, 3], some [1, 3]⟩, ⟨[2], none⟩] 0 (some ⟨[], 0⟩) [0, 1, 2, 3]).map (·.deleted) = some [1, 2, 3] := by decide
example : (processAll [⟨[], none⟩, ⟨[3], none⟩, ⟨[1, 3], some [1, 3]⟩, ⟨[2], none⟩] 2 (some ⟨[], 0⟩) [2, 3]).map (·.deleted) = some [1, 2, 3] := by decide

end AnySync.Props.C15
