import AnySyncModel.Deletion.Model
/-! # C15 — deletion is permanent (stage 1 placeholder: the theorems are added in stage 2) -/
namespace AnySync.Props.C15
open AnySync.Deletion

/-- put of a tombstoned id fails as already deleted -/
theorem put_tombstoned_fails (s : St) (k : Nat) (h : s.tomb k = true) : (stepPut s k).2 = .deleted := by
  simp [stepPut, h]

end AnySync.Props.C15
