/-
C17 — Pub/sub delivers exactly to matching member subscriptions and leaks no state.

Only property theorems (and their non-vacuity examples) live here.
-/
import AnySyncModel.Generated.PubSubConsts

namespace AnySync.PubSub
open Generated.PubSub

/-- obligation on the regenerated fragment: the extractor recognised the constant block and the
guard shapes of `commonspace/pubsub/topic.go` -/
theorem shape_ok : shapeOk = true := by decide

end AnySync.PubSub
