/-
C17 — Pub/sub delivers exactly to matching member subscriptions and leaks no state.

Only property theorems (and their non-vacuity examples) live here; helper lemmas are in
`PubSub/Lemmas.lean`, the specification vocabulary in `PubSub/Spec.lean` and `PubSub/Rule.lean`.
-/
import AnySyncModel.PubSub.ServiceLemmas

namespace AnySync.PubSub
open Generated.PubSub

/-- obligation on the regenerated fragment: the extractor recognised the constant block and the
guard shapes of `commonspace/pubsub/topic.go` -/
theorem shape_ok : shapeOk = true := by decide

/-! ## topic / pattern syntax -/

/-- `splitTopic` is never empty (so `Add` never dereferences a nil node) and is inverted by joining
the segments with `/`; it yields at most `maxSegments + 1` segments. -/
theorem split_join (s : String) :
    splitTopic s ≠ [] ∧ joinTopic (splitTopic s) = s ∧ (splitTopic s).length ≤ maxSegments + 1 :=
  ⟨splitTopic_ne_nil s, joinTopic_splitTopic s, length_splitN _ _ _⟩

/-- on strings within the segment bound the capped split is the plain `/`-split -/
theorem split_eq_splitAll (s : String) (h : (splitAll s).length ≤ maxSegments + 1) :
    splitTopic s = splitAll s := splitN_eq_splitAll _ _ _ h

/-- **validate_topic_spec.** `ValidateTopic` accepts exactly the topic grammar: non-empty, at most
`maxTopicLen` bytes, at most `maxSegments` segments, no empty segment, no `*` / `>` character. -/
theorem validate_topic_spec (s : String) : validateTopic s = true ↔ TopicGrammar s := by
  simp only [validateTopic, validTopicSegs, Bool.and_eq_true, validateSegments_iff, TopicGrammar]
  constructor
  · rintro ⟨hs, ha⟩
    refine ⟨hs, ?_⟩
    rw [← split_eq_splitAll s (by have := hs.few; omega)]
    simpa using ha
  · rintro ⟨hs, ha⟩
    refine ⟨hs, ?_⟩
    rw [split_eq_splitAll s (by have := hs.few; omega)]
    simpa using ha

/-- **validate_pattern_spec.** `ValidatePattern` accepts exactly the pattern grammar: the same shape;
wildcards only as whole segments, `>` only in the last position. -/
theorem validate_pattern_spec (s : String) : validatePattern s = true ↔ PatternGrammar s := by
  simp only [validatePattern, validPatternSegs, Bool.and_eq_true, validateSegments_iff, PatternGrammar]
  constructor
  · rintro ⟨hs, ha⟩
    refine ⟨hs, ?_⟩
    have he := split_eq_splitAll s (by have := hs.few; omega)
    rw [he] at ha
    exact (patternSegsOk_iff _).mp ha
  · rintro ⟨hs, ha⟩
    refine ⟨hs, ?_⟩
    rw [split_eq_splitAll s (by have := hs.few; omega)]
    exact (patternSegsOk_iff _).mpr ha

example : validateTopic "acc/online/A0" = true ∧ validateTopic "a//b" = false ∧ validateTopic "a/*" = false := by decide
example : validatePattern "a/*/>" = true ∧ validatePattern "a/>/b" = false ∧ validatePattern "a*" = false := by decide

/-- **owner_spec.** `TopicOwner` is the last segment of a topic whose first segment is the `acc`
namespace and which has at least two segments, and empty otherwise. -/
theorem owner_spec (s : String) :
    topicOwner s = (if 2 ≤ (splitTopic s).length ∧ (splitTopic s).head? = some accNamespace
                    then (splitTopic s).getLast?.getD "" else "") := by
  simp only [topicOwner, ownerOfSegs]
  cases h : splitTopic s with
  | nil => simp
  | cons a r =>
    cases r with
    | nil => simp
    | cons b r' =>
      by_cases ha : a = accNamespace <;> simp [ha]

example : topicOwner "acc/online/A0" = "A0" ∧ topicOwner "acc" = "" ∧ topicOwner "chat/acc/A0" = "" := by decide

/-! ## the trie against the matching rule -/

/-- **match_exact.** For every trie built by `Add`/`Remove` (of arbitrary strings) and every topic
string, `Match` returns exactly the registered patterns (refcount > 0) whose segments match the
topic's segments under the rule (`*` one segment, trailing `>` one or more), each exactly once. -/
theorem match_exact (t : Trie) (h : t.Reachable) (topic : String) :
    (t.matchTopic topic).Nodup ∧
    ∀ p, p ∈ t.matchTopic topic ↔ (t.count p > 0 ∧ segMatches (splitTopic p) (splitTopic topic) = true) :=
  match_exact_aux t h topic

example : (((Trie.empty.add "a/*").1.add "a/>").1.add "b").1.matchTopic "a/b" = ["a/>", "a/*"] := by decide
example : segMatches ["a", ">"] ["a"] = false ∧ segMatches ["a", ">"] ["a", "b", "c"] = true := by decide

/-- **trie_abs (insert).** `Add` raises the refcount of exactly its own pattern by one. -/
theorem trie_abs_add (t : Trie) (p q : String) :
    (t.add p).1.count q = t.count q + (if q = p then 1 else 0) := by
  simp only [Trie.add, Trie.count, refsAt_addLevel _ _ (splitTopic_ne_nil p)]
  by_cases h : q = p
  · simp [h]
  · have : splitTopic q ≠ splitTopic p := fun h' => h (splitTopic_injective h')
    simp [h, this]

/-- **trie_abs (erase).** `Remove` lowers the refcount of exactly its own pattern by one
(truncated at zero: removing an absent pattern changes nothing). -/
theorem trie_abs_remove (t : Trie) (p q : String) :
    (t.remove p).1.count q = t.count q - (if q = p then 1 else 0) := by
  simp only [Trie.remove, Trie.count, refsAt_removeLevel]
  by_cases h : q = p
  · simp [h]
  · have : splitTopic q ≠ splitTopic p := fun h' => h (splitTopic_injective h')
    simp [h, this]

/-- **trie_abs (return values).** `Add` reports "new" exactly on the 0 → 1 transition. -/
theorem trie_add_new_iff (t : Trie) (p : String) : (t.add p).2 = true ↔ t.count p = 0 := by
  simp only [Trie.add, Trie.count]
  exact addLevel_new_iff p (splitTopic p) (splitTopic_ne_nil p) t.root

/-- **trie_abs (Len).** `Len()` (a counter bumped on 0 → 1 and 1 → 0 transitions) equals the number of
referenced nodes of the tree, i.e. of distinct registered patterns (a referenced node stores the
pattern spelling its own path, `match_exact` / `WF`). -/
theorem trie_len (t : Trie) (h : t.Reachable) : t.size = liveLevel t.root := h.size_eq

example : (((Trie.empty.add "a/b").1.add "a/b").1.add "a/*").1.size = 2 := by decide

/-- **trie_abs (pruning).** In a reachable trie no unreferenced childless node survives: if no
pattern is registered any more, the trie is structurally empty. -/
theorem trie_pruned (t : Trie) (h : t.Reachable) (hz : ∀ q : List String, refsAt t.root q = 0) :
    t.root = [] := by
  apply Classical.byContradiction
  intro hne
  obtain ⟨q, hq⟩ := exists_ref_of_ne_nil h.wf hne
  have := hz q
  omega

example : ((Trie.empty.add "a/b/c").1.remove "a/b/c").1.root = [] := by decide

/-! ## serving side: delivery -/

/-- the full-strength statement of exact delivery for one publish frame handled in state `s` -/
def C17_delivery_exact_full : Prop :=
  ∀ (s : NodeSt), s.Agree → ∀ (peer ident space topic msgIdent : String) (relayed idLenOk big : Bool),
    let o := (s.handlePublish peer ident space topic msgIdent relayed idLenOk big).2
    -- at most one copy per stream
    o.delivered.Nodup ∧
    -- a stream gets the message iff the publisher conditions hold, the stream is (still) in the pool
    -- and one of ITS registered patterns of that space matches the topic segment by segment
    (∀ sid, sid ∈ o.delivered ↔
      (s.publishAccepted peer ident space topic msgIdent relayed idLenOk big = true ∧
        (∃ st, st ∈ s.pool ∧ st.sid = sid) ∧
        ∃ p, s.Reg sid space p ∧ segMatches (splitTopic p) (splitTopic topic) = true)) ∧
    -- forwarded to the other responsible nodes exactly once, marked relayed, iff accepted and not
    -- itself relayed: a relayed message is never forwarded again
    o.forwards = (if s.publishAccepted peer ident space topic msgIdent relayed idLenOk big && !relayed
                  then [true] else [])

/-- **delivery_exact.** Holds in every state in which the three bookkeeping views agree
(`NodeSt.Agree`); `views_agree` below shows that every reachable state is such a state, and
`delivery_exact_reachable` combines the two. -/
theorem delivery_exact : C17_delivery_exact_full := by
  intro s h peer ident space topic msgIdent relayed idLenOk big
  obtain ⟨hd, hf⟩ := handlePublish_obs s peer ident space topic msgIdent relayed idLenOk big
  obtain ⟨hn, hm⟩ := fanout_spec s h space topic
  refine ⟨?_, ?_, hf⟩
  · simp only [hd]; split
    · exact hn
    · simp
  · intro sid
    simp only [hd]
    split
    · rename_i ha; simp [ha, hm sid]
    · rename_i ha; simp [ha]

/-- relayed input is fanned out but never forwarded -/
theorem relayed_never_forwarded (s : NodeSt) (peer ident space topic msgIdent : String) (idLenOk big : Bool) :
    (s.handlePublish peer ident space topic msgIdent true idLenOk big).2.forwards = [] := by
  rw [(handlePublish_obs s peer ident space topic msgIdent true idLenOk big).2]; simp

/-- publishing changes no interest bookkeeping -/
theorem publish_keeps_views (s : NodeSt) (peer ident space topic msgIdent : String) (relayed idLenOk big : Bool) :
    let s' := (s.handlePublish peer ident space topic msgIdent relayed idLenOk big).1
    s'.remote = s.remote ∧ s'.streams = s.streams ∧ s'.pool = s.pool :=
  handlePublish_state s peer ident space topic msgIdent relayed idLenOk big

/-! ## serving side: the three views, teardown -/

/-- an operation keeps the serving-side invariant `NodeSt.Agree` (the views agree, records are well
formed, no empty record or trie is kept) -/
def KeepsInv (op : NodeOp) : Prop := ∀ s : NodeSt, s.Agree → (s.step op).Agree

/-- **views_agree, full strength**: after every step of every operation sequence (subscribe /
unsubscribe / publish / open / close / evict / revalidate / close-space / membership change) from an
empty service, the space tries, the per-stream records and the stream tags describe one relation:
trie refcount of a pattern = number of streams that registered it, a stream's tags = its registered
`(space, pattern)` pairs, `total` = number of patterns, and no empty record or trie is kept. -/
def C17_views_agree_full : Prop :=
  ∀ (a b c : Nat) (ops : List NodeOp),
    (({ capSpace := a, capStream := b, burst := c } : NodeSt).run ops).Agree

/-- the invariant holds initially -/
theorem views_agree_init (a b c : Nat) : ({ capSpace := a, capStream := b, burst := c } : NodeSt).Agree :=
  Agree_empty a b c

theorem views_agree_open (sid : Nat) (peer ident : String) : KeepsInv (.openStream sid peer ident) := by
  intro s h
  simp only [NodeSt.step]
  split
  · exact h
  · rename_i hf
    simp only [Bool.or_eq_true, not_or, Bool.not_eq_true, Option.isSome_eq_false_iff, Option.isNone_iff_eq_none] at hf
    exact Agree_openStream h sid peer ident hf.1 hf.2

theorem views_agree_publish (peer ident space topic msgIdent : String) (relayed idLenOk big : Bool) :
    KeepsInv (.publish peer ident space topic msgIdent relayed idLenOk big) := by
  intro s h
  obtain ⟨h1, h2, h3⟩ := handlePublish_state s peer ident space topic msgIdent relayed idLenOk big
  exact Agree_congr h1 h2 h3 h

theorem views_agree_setMember (space acct : String) (v : Bool) : KeepsInv (.setMember space acct v) := by
  intro s h
  exact Agree_congr (s := s) rfl rfl rfl h

/-- `EvictMember` keeps the invariant -/
theorem views_agree_evict (space acct : String) : KeepsInv (.evict space acct) :=
  fun _ h => Agree_evictMember h space acct

/-- `RevalidateMembers` keeps the invariant -/
theorem views_agree_revalidate (space : String) : KeepsInv (.revalidate space) :=
  fun _ h => Agree_revalidate h space

/-- `CloseSpace` keeps the invariant -/
theorem views_agree_closeSpace (space : String) : KeepsInv (.closeSpace space) :=
  fun _ h => Agree_closeSpace h space

/-- stream close (`removeStream` + `onStreamClose`) keeps the invariant -/
theorem views_agree_closeStream (sid : Nat) : KeepsInv (.closeStream sid) :=
  fun _ h => Agree_closeStream h sid

/-- the pool's removal of a closing stream — which may fall anywhere, also inside a handler that
is calling into the pool — keeps the invariant (the stream's record stays until its hook runs) -/
theorem views_agree_poolRemove (sid : Nat) : KeepsInv (.poolRemove sid) :=
  fun _ h => Agree_poolRemove h sid

/-- the close hook of a stream the pool has dropped keeps the invariant -/
theorem views_agree_closeHook (sid : Nat) : KeepsInv (.closeHook sid) := by
  intro s h
  simp only [NodeSt.step]
  split
  · exact h
  · rename_i hf
    have hf' : s.poolStream sid = none := by simpa using hf
    exact Agree_onStreamClose h sid ((poolStream_none_iff s sid).mp hf')

/-- `handleUnsubscribe` keeps the invariant -/
theorem views_agree_unsubscribe (sid : Nat) (space : String) (topics : List String) :
    KeepsInv (.unsubscribe sid space topics) :=
  fun _ h => Agree_handleUnsubscribe h sid space topics

/-- `handleSubscribe` keeps the invariant: every rejection branch, the accept loop with both caps,
tag registration, the rollback when the stream has vanished, and the (repaired) zero-accept case -/
theorem views_agree_subscribe (sid : Nat) (peer ident space : String) (topics : List String) :
    KeepsInv (.subscribe sid peer ident space topics) :=
  fun _ h => Agree_handleSubscribe h sid peer ident space topics

/-- every operation keeps the invariant -/
theorem views_agree_step (op : NodeOp) : KeepsInv op := by
  cases op with
  | openStream sid peer ident => exact views_agree_open sid peer ident
  | subscribe sid peer ident space topics => exact views_agree_subscribe sid peer ident space topics
  | unsubscribe sid space topics => exact views_agree_unsubscribe sid space topics
  | publish peer ident space topic msgIdent relayed idLenOk big =>
    exact views_agree_publish peer ident space topic msgIdent relayed idLenOk big
  | closeStream sid => exact views_agree_closeStream sid
  | poolRemove sid => exact views_agree_poolRemove sid
  | closeHook sid => exact views_agree_closeHook sid
  | evict space acct => exact views_agree_evict space acct
  | revalidate space => exact views_agree_revalidate space
  | closeSpace space => exact views_agree_closeSpace space
  | setMember space acct v => exact views_agree_setMember space acct v

/-- **views_agree.** The full statement, for every history, by induction over the operation list. -/
theorem views_agree : C17_views_agree_full := by
  intro a b c ops
  have : ∀ (ops : List NodeOp) (s : NodeSt), s.Agree → (s.run ops).Agree := by
    intro ops
    induction ops with
    | nil => intro s h; exact h
    | cons op rest ih => intro s h; exact ih _ (views_agree_step op s h)
  exact this ops _ (views_agree_init a b c)

/-- **teardown_empties, full strength**: in every reachable state in which no interest is registered
any more — everything was unsubscribed, evicted, its space closed or its stream closed, in any
order — all three views are empty. -/
def C17_teardown_full : Prop :=
  ∀ (a b c : Nat) (ops : List NodeOp),
    let s := ({ capSpace := a, capStream := b, burst := c } : NodeSt).run ops
    (∀ sid sp p, ¬ s.Reg sid sp p) → s.Clean

/-- in any state satisfying the invariant, "nothing registered" implies "all bookkeeping empty" -/
theorem teardown_of_invariant (s : NodeSt) (h : s.Agree) :
    (∀ sid sp p, ¬ s.Reg sid sp p) → s.Clean := clean_of_no_reg h

/-- **teardown_empties.** For every history: once nothing is registered any more, the space tries,
the per-stream records and the stream tags are all empty. -/
theorem teardown_empties : C17_teardown_full := by
  intro a b c ops
  exact teardown_of_invariant _ (views_agree a b c ops)

/-- a stream's close hook (hence a complete stream close) leaves nothing registered for it -/
theorem close_removes_interest (s : NodeSt) (sid : Nat) (sp p : String) :
    ¬ (s.onStreamClose sid).Reg sid sp p ∧ ¬ (s.closeStream sid).Reg sid sp p := by
  have key : ∀ s' : NodeSt, ¬ (s'.onStreamClose sid).Reg sid sp p := by
    intro s'
    rintro ⟨r, hl, _⟩
    cases ho : alookup sid s'.streams with
    | none => simp [NodeSt.onStreamClose, ho] at hl
    | some r0 =>
      rw [onStreamClose_unfold s' sid r0 ho] at hl
      simp [alookup_aerase_same] at hl
  exact ⟨key s, key _⟩

/-- **the close-inside-subscribe schedule.** The pool drops stream `sid` while its own Subscribe
frame is inside `handleSubscribe` (which, holding `remoteMu`, finishes first — tagging fails, the
accepted interest is rolled back), then the close hook runs. The invariant holds afterwards and
nothing stays registered for the stream; this is the history `[poolRemove, subscribe, closeHook]`,
an instance of `views_agree`. The lock discipline itself (the hook cannot run inside the handler)
is an assumption about the code, checked by the harness's schedule points. -/
theorem subscribe_close_race (s : NodeSt) (h : s.Agree) (sid : Nat) (peer ident space : String)
    (topics : List String) :
    let s' := ((s.step (.poolRemove sid)).step (.subscribe sid peer ident space topics)).step (.closeHook sid)
    s'.Agree ∧ ∀ sp p, ¬ s'.Reg sid sp p := by
  refine ⟨views_agree_step _ _ (views_agree_step _ _ (views_agree_step _ _ h)), fun sp p => ?_⟩
  simp only [NodeSt.step]
  have hnp : (((s.poolRemove sid).handleSubscribe sid peer ident space topics).1.poolStream sid) = none := by
    rw [poolStream_none_iff]
    intro st hst heq
    have hm : sid ∈ ((s.poolRemove sid).handleSubscribe sid peer ident space topics).1.pool.map (·.sid) :=
      List.mem_map.mpr ⟨st, hst, heq⟩
    rw [handleSubscribe_pool_sids] at hm
    obtain ⟨st0, hst0, h0⟩ := List.mem_map.mp hm
    exact not_mem_pool_poolRemove s sid st0 hst0 h0
  simp only [hnp, Option.isSome_none, Bool.false_eq_true, if_false]
  exact (close_removes_interest _ sid sp p).1

/-- **delivery_exact over histories.** In every state reached from an empty service by any operation
sequence, a publish frame is delivered exactly as the property says (no hypothesis left: the
invariant is `views_agree`). -/
theorem delivery_exact_reachable (a b c : Nat) (ops : List NodeOp)
    (peer ident space topic msgIdent : String) (relayed idLenOk big : Bool) :
    let s := ({ capSpace := a, capStream := b, burst := c } : NodeSt).run ops
    let o := (s.handlePublish peer ident space topic msgIdent relayed idLenOk big).2
    o.delivered.Nodup ∧
    (∀ sid, sid ∈ o.delivered ↔
      (s.publishAccepted peer ident space topic msgIdent relayed idLenOk big = true ∧
        (∃ st, st ∈ s.pool ∧ st.sid = sid) ∧
        ∃ p, s.Reg sid space p ∧ segMatches (splitTopic p) (splitTopic topic) = true)) ∧
    o.forwards = (if s.publishAccepted peer ident space topic msgIdent relayed idLenOk big && !relayed
                  then [true] else []) :=
  delivery_exact _ (views_agree a b c ops) peer ident space topic msgIdent relayed idLenOk big

/-- the three witness histories of F-pubsub-empty-sub end clean in the model of the repaired code
(on the unrepaired code the first leaves `remote[s2]`, the second `streams[1]`, see the notes) -/
def witnessW1 : List NodeOp :=
  [.setMember "s1" "A0" true, .setMember "s2" "A0" true, .openStream 1 "P0" "A0",
   .subscribe 1 "P0" "A0" "s1" ["a"], .subscribe 1 "P0" "A0" "s2" [], .unsubscribe 1 "s1" ["a"],
   .closeStream 1]
def witnessW2 : List NodeOp :=
  [.setMember "s1" "A1" true, .openStream 1 "P1" "A1", .closeStream 1, .subscribe 1 "P1" "A1" "s1" []]
def witnessW3 : List NodeOp :=
  [.setMember "s1" "A2" true, .setMember "s2" "A2" true, .openStream 1 "P2" "A2",
   .subscribe 1 "P2" "A2" "s1" ["a", "b", "a/b"], .subscribe 1 "P2" "A2" "s2" ["a"],
   .subscribe 1 "P2" "A2" "s2" ["b"], .unsubscribe 1 "s2" ["a"], .subscribe 1 "P2" "A2" "s2" [],
   .closeSpace "s1", .evict "s2" "A2"]

theorem witnesses_end_clean :
    (({ capSpace := 3, capStream := 4, burst := 4 } : NodeSt).run witnessW1).cleanB = true ∧
    (({ capSpace := 3, capStream := 4, burst := 4 } : NodeSt).run witnessW2).cleanB = true ∧
    (({ capSpace := 3, capStream := 4, burst := 4 } : NodeSt).run witnessW3).cleanB = true := by
  decide

/-! ## client receive path -/

/-- **client_filters.** A received publish runs handlers exactly when the acceptance condition holds
(well-formed topic, claimed identity is a parsable key of a space member, owner-namespace rule for
that identity, timestamp not stale, signature verifies under the claimed identity, id not among the
recorded ones, payload readable), and then exactly the handlers subscribed under the locally
matching patterns; otherwise none. Stated limits of the code, visible in the model:
`stale .zero = false` (a zero timestamp is never stale) and the ring forgets an id after
`dedupSize` newer ones. -/
theorem client_filters (s : ClientSt) (space topic claimed : String) (sigOk : Bool) (ts : TsClass)
    (id : Nat) (keyId : Bool) :
    (s.receive space topic claimed sigOk ts id keyId).2 =
      if s.accepts space topic claimed sigOk ts id keyId
      then (s.seen id).1.handlersFor space (s.localMatch space topic) else [] :=
  receive_snd s space topic claimed sigOk ts id keyId

/-- forged (signature does not verify under the claimed identity), stale, or replayed (id recorded)
frames never reach a handler -/
theorem client_rejects (s : ClientSt) (space topic claimed : String) (sigOk : Bool) (ts : TsClass)
    (id : Nat) (keyId : Bool) (h : sigOk = false ∨ ClientSt.stale ts = true ∨ id ∈ s.ring) :
    (s.receive space topic claimed sigOk ts id keyId).2 = [] := by
  rw [client_filters]
  have : s.accepts space topic claimed sigOk ts id keyId = false := by
    simp only [ClientSt.accepts]
    rcases h with h | h | h
    · simp [h]
    · simp [h]
    · simp [h]
  simp [this]

/-- **replay.** Once an id has been recorded (ring size ≥ 1) the same id reaches no handler,
whatever else the frame says. -/
theorem client_replay_refused (s : ClientSt) (hd : s.dedupSize ≥ 1) (id : Nat)
    (space topic claimed : String) (sigOk : Bool) (ts : TsClass) (keyId : Bool) :
    ((s.seen id).1.receive space topic claimed sigOk ts id keyId).2 = [] :=
  client_rejects _ _ _ _ _ _ _ _ (Or.inr (Or.inr (mem_ring_seen s hd id)))

example :
    let s : ClientSt := { dedupSize := 4, cap := 3, self := "A0", members := [("s1", "A1")] }
    let s := (s.subscribe 0 "s1" "chat/>").1
    (s.receive "s1" "chat/x" "A1" true .fresh 7 false).2 = [0] ∧
    (s.receive "s1" "chat/x" "A1" false .fresh 7 false).2 = [] ∧
    (s.receive "s1" "chat/x" "A1" true .past 7 false).2 = [] ∧
    (s.receive "s1" "chat/x" "A2" true .fresh 7 false).2 = [] := by decide

end AnySync.PubSub
