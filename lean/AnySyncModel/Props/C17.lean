/-
C17 — Pub/sub delivers exactly to matching member subscriptions and leaks no state.

Only property theorems (and their non-vacuity examples) live here; helper lemmas are in
`PubSub/Lemmas.lean`, the specification vocabulary in `PubSub/Spec.lean` and `PubSub/Rule.lean`.
-/
import AnySyncModel.PubSub.Lemmas

namespace AnySync.PubSub
open Generated.PubSub

/-- obligation on the regenerated fragment: the extractor recognised the constant block and the
guard shapes of `commonspace/pubsub/topic.go` -/
theorem shape_ok : shapeOk = true := by decide

/-! ## topic / pattern syntax -/

/-- `splitTopic` is never empty (so `Add` never dereferences a nil node) and is inverted by joining
the segments with `/`; it yields at most `maxSegments + 1` segments. -/
theorem split_join (s : String) :
    splitTopic s ≠ [] ∧ joinTopic (splitTopic s) = s ∧ (splitTopic s).length ≤ maxSegments + 1 :=
  ⟨splitTopic_ne_nil s, joinTopic_splitTopic s, length_splitN _ _ _⟩

/-- on strings within the segment bound the capped split is the plain `/`-split -/
theorem split_eq_splitAll (s : String) (h : (splitAll s).length ≤ maxSegments + 1) :
    splitTopic s = splitAll s := splitN_eq_splitAll _ _ _ h

/-- **validate_topic_spec.** `ValidateTopic` accepts exactly the topic grammar: non-empty, at most
`maxTopicLen` bytes, at most `maxSegments` segments, no empty segment, no `*` / `>` character. -/
theorem validate_topic_spec (s : String) : validateTopic s = true ↔ TopicGrammar s := by
  simp only [validateTopic, validTopicSegs, Bool.and_eq_true, validateSegments_iff, TopicGrammar]
  constructor
  · rintro ⟨hs, ha⟩
    refine ⟨hs, ?_⟩
    rw [← split_eq_splitAll s (by have := hs.few; omega)]
    simpa using ha
  · rintro ⟨hs, ha⟩
    refine ⟨hs, ?_⟩
    rw [split_eq_splitAll s (by have := hs.few; omega)]
    simpa using ha

/-- **validate_pattern_spec.** `ValidatePattern` accepts exactly the pattern grammar: the same shape;
wildcards only as whole segments, `>` only in the last position. -/
theorem validate_pattern_spec (s : String) : validatePattern s = true ↔ PatternGrammar s := by
  simp only [validatePattern, validPatternSegs, Bool.and_eq_true, validateSegments_iff, PatternGrammar]
  constructor
  · rintro ⟨hs, ha⟩
    refine ⟨hs, ?_⟩
    have he := split_eq_splitAll s (by have := hs.few; omega)
    rw [he] at ha
    exact (patternSegsOk_iff _).mp ha
  · rintro ⟨hs, ha⟩
    refine ⟨hs, ?_⟩
    rw [split_eq_splitAll s (by have := hs.few; omega)]
    exact (patternSegsOk_iff _).mpr ha

example : validateTopic "acc/online/A0" = true ∧ validateTopic "a//b" = false ∧ validateTopic "a/*" = false := by decide
example : validatePattern "a/*/>" = true ∧ validatePattern "a/>/b" = false ∧ validatePattern "a*" = false := by decide

/-- **owner_spec.** `TopicOwner` is the last segment of a topic whose first segment is the `acc`
namespace and which has at least two segments, and empty otherwise. -/
theorem owner_spec (s : String) :
    topicOwner s = (if 2 ≤ (splitTopic s).length ∧ (splitTopic s).head? = some accNamespace
                    then (splitTopic s).getLast?.getD "" else "") := by
  simp only [topicOwner, ownerOfSegs]
  cases h : splitTopic s with
  | nil => simp
  | cons a r =>
    cases r with
    | nil => simp
    | cons b r' =>
      by_cases ha : a = accNamespace <;> simp [ha]

example : topicOwner "acc/online/A0" = "A0" ∧ topicOwner "acc" = "" ∧ topicOwner "chat/acc/A0" = "" := by decide

/-! ## the trie against the matching rule -/

/-- **match_exact.** For every trie built by `Add`/`Remove` (of arbitrary strings) and every topic
string, `Match` returns exactly the registered patterns (refcount > 0) whose segments match the
topic's segments under the rule (`*` one segment, trailing `>` one or more), each exactly once. -/
theorem match_exact (t : Trie) (h : t.Reachable) (topic : String) :
    (t.matchTopic topic).Nodup ∧
    ∀ p, p ∈ t.matchTopic topic ↔ (t.count p > 0 ∧ segMatches (splitTopic p) (splitTopic topic) = true) := by
  refine ⟨nodup_matchLevel _ [] _ h.wf, fun p => ?_⟩
  simp only [Trie.matchTopic, Trie.count, mem_matchLevel, refsAt_pos_iff]
  constructor
  · rintro ⟨q, n, hq, hr, hp, hm⟩
    have hs : splitTopic p = q := by simpa [hp] using pat_of_nodeAt h.wf hq hr
    exact ⟨⟨n, by rw [hs]; exact hq, hr⟩, by rw [hs]; exact hm⟩
  · rintro ⟨⟨n, hq, hr⟩, hm⟩
    have hs : splitTopic n.pat = splitTopic p := by simpa using pat_of_nodeAt h.wf hq hr
    exact ⟨splitTopic p, n, hq, hr, splitTopic_injective hs, hm⟩

example : (((Trie.empty.add "a/*").1.add "a/>").1.add "b").1.matchTopic "a/b" = ["a/>", "a/*"] := by decide
example : segMatches ["a", ">"] ["a"] = false ∧ segMatches ["a", ">"] ["a", "b", "c"] = true := by decide

/-- **trie_abs (insert).** `Add` raises the refcount of exactly its own pattern by one. -/
theorem trie_abs_add (t : Trie) (p q : String) :
    (t.add p).1.count q = t.count q + (if q = p then 1 else 0) := by
  simp only [Trie.add, Trie.count, refsAt_addLevel _ _ (splitTopic_ne_nil p)]
  by_cases h : q = p
  · simp [h]
  · have : splitTopic q ≠ splitTopic p := fun h' => h (splitTopic_injective h')
    simp [h, this]

/-- **trie_abs (erase).** `Remove` lowers the refcount of exactly its own pattern by one
(truncated at zero: removing an absent pattern changes nothing). -/
theorem trie_abs_remove (t : Trie) (p q : String) :
    (t.remove p).1.count q = t.count q - (if q = p then 1 else 0) := by
  simp only [Trie.remove, Trie.count, refsAt_removeLevel]
  by_cases h : q = p
  · simp [h]
  · have : splitTopic q ≠ splitTopic p := fun h' => h (splitTopic_injective h')
    simp [h, this]

/-- **trie_abs (return values).** `Add` reports "new" exactly on the 0 → 1 transition. -/
theorem trie_add_new_iff (t : Trie) (p : String) : (t.add p).2 = true ↔ t.count p = 0 := by
  simp only [Trie.add, Trie.count]
  exact addLevel_new_iff p (splitTopic p) (splitTopic_ne_nil p) t.root

/-- **trie_abs (pruning).** In a reachable trie no unreferenced childless node survives: if no
pattern is registered any more, the trie is structurally empty. -/
theorem trie_pruned (t : Trie) (h : t.Reachable) (hz : ∀ q : List String, refsAt t.root q = 0) :
    t.root = [] := by
  apply Classical.byContradiction
  intro hne
  obtain ⟨q, hq⟩ := exists_ref_of_ne_nil h.wf hne
  have := hz q
  omega

example : ((Trie.empty.add "a/b/c").1.remove "a/b/c").1.root = [] := by decide

end AnySync.PubSub
