/-
C05 — Read keys: members can always decrypt, removed accounts never can.

Only property theorems and non-vacuity examples. All theorems quantify over EVERY log `log` of
key-relevant record contents following the root of `owner` such that `WF owner log`, i.e.

  (caveat i)   every content passed the full validator (`wfItem` mirrors `validateReadKeyChange`,
               `ValidateAccountsAdd`, `ValidatePermissionChange` with fix F-keys-permchange-readmit), and
  (caveat ii)  payloads are honest: each ciphertext contains the key the real builder puts there (no
               validator can check this; a member with `CanManageAccounts` can always publish garbage
               or leak keys out of band). The correspondence harness evaluates `wfItem` on the
               decrypted content of every record the real builder produced and the real acceptor took.
  (caveat iii) a permission change to None does NOT rotate (`Item.drop`): the dropped account keeps
               every generation that existed when it was dropped; only later generations are denied.
  (caveat iv)  knowledge of a principal = its own private key + the raw log ("from the record log and
               its own private key alone"): an account that also holds the private key of a live
               anyone-can-join invite is that invite, too.
  (caveat v)   symbolic crypto (DESIGN.md §3).
-/
import AnySyncModel.Keys.Lemmas

namespace AnySync.Keys

/-! ## the characterisation everything else follows from -/

/-- For every principal (account or invite key) and every accepted honest log: a read-key generation
is derivable from the raw log and the principal's private key iff it existed when the principal last
was live. -/
theorem derives_iff_front (p : Prin) (owner : Nat) (log : List Item) (h : WF owner log) (g : Nat) :
    Derives p owner log (.rk g) ↔ g < front p owner log := by
  have hg := good_of_wf p owner log h
  have := knows_rk_iff hg g
  rw [sem_pub, sem_front] at this
  exact this

/-- the frontier of a principal that is live now is the current number of generations -/
theorem front_of_live (p : Prin) (owner : Nat) (log : List Item) (h : WF owner log)
    (hl : live p (gstate owner log) = true) : front p owner log = (gstate owner log).ngen := by
  have hg := good_of_wf p owner log h
  have := hg.liveEq (by rw [sem_g]; exact hl)
  rw [sem_front, sem_g] at this
  exact this

/-! ## members -/

/-- Every account's view can be built from the raw log (no `ApplyRecord` error), for members and
non-members alike. -/
theorem every_view_builds (me owner : Nat) (log : List Item) (h : WF owner log) :
    ∃ hasRev, view me owner log = some hasRev :=
  ⟨_, view_eq me owner log h⟩

/-- **member_has_all_keys**: after any accepted honest log, the view of every account holding a
permission has the read key of every generation `0 … current`. -/
theorem member_has_all_keys (me owner : Nat) (log : List Item) (h : WF owner log)
    (hm : me ∈ (gstate owner log).members) :
    view me owner log = some (List.replicate (gstate owner log).ngen true) := by
  have hl : live (.acc me) (gstate owner log) = true := by simpa [live] using hm
  rw [view_eq me owner log h, front_of_live _ owner log h hl, viewOf_full]

/-- the same, generation by generation, together with derivability from the raw log -/
theorem member_derives_all_keys (me owner : Nat) (log : List Item) (h : WF owner log)
    (hm : me ∈ (gstate owner log).members) (g : Nat) (hg : g < (gstate owner log).ngen) :
    Derives (.acc me) owner log (.rk g) := by
  have hl : live (.acc me) (gstate owner log) = true := by simpa [live] using hm
  rw [derives_iff_front _ owner log h, front_of_live _ owner log h hl]
  exact hg

/-! ## non-members -/

/-- general form, for accounts and invite keys: if `p` is not live after any content of `post`
(it was removed / dropped / revoked by the first content of `post`, or never was live), then no
generation introduced by `post` — the one introduced by the removing record included — is derivable. -/
theorem cannot_derive_after_loss (p : Prin) (owner : Nat) (pre post : List Item) (h : WF owner (pre ++ post))
    (hnot : ∀ k, 1 ≤ k → k ≤ post.length → live p (gstate owner (pre ++ post.take k)) = false)
    (g : Nat) (hg : (gstate owner pre).ngen ≤ g) :
    ¬ Derives p owner (pre ++ post) (.rk g) := by
  rw [derives_iff_front p owner _ h]
  have hpre : WF owner pre := wfFrom_append pre post _ h
  have hgood := good_of_wf p owner pre hpre
  have hle := hgood.le
  rw [sem_front, sem_g] at hle
  have hfr : front p owner (pre ++ post) = front p owner pre := by
    unfold front
    rw [frontFrom_append]
    apply frontFrom_notlive
    intro k hk1 hk2
    have := hnot k hk1 hk2
    rw [gstate, gFrom_append] at this
    exact this
  omega

/-- **nonmember_cannot_derive** (accounts): an account that holds no permission after every content
of `post` cannot derive any generation introduced since. -/
theorem nonmember_cannot_derive (me owner : Nat) (pre post : List Item) (h : WF owner (pre ++ post))
    (hnot : ∀ k, 1 ≤ k → k ≤ post.length → me ∉ (gstate owner (pre ++ post.take k)).members)
    (g : Nat) (hg : (gstate owner pre).ngen ≤ g) :
    ¬ Derives (.acc me) owner (pre ++ post) (.rk g) :=
  cannot_derive_after_loss (.acc me) owner pre post h
    (fun k h1 h2 => by have := hnot k h1 h2; simpa [live] using this) g hg

/-- and its view agrees: that generation is absent from the account's own key map -/
theorem nonmember_view_lacks (me owner : Nat) (pre post : List Item) (h : WF owner (pre ++ post))
    (hnot : ∀ k, 1 ≤ k → k ≤ post.length → me ∉ (gstate owner (pre ++ post.take k)).members)
    (g : Nat) (hg : (gstate owner pre).ngen ≤ g) :
    ∃ hasRev, view me owner (pre ++ post) = some hasRev ∧ hasGen hasRev g = false := by
  refine ⟨_, view_eq me owner _ h, ?_⟩
  rw [hasGen_viewOf]
  have := nonmember_cannot_derive me owner pre post h hnot g hg
  rw [derives_iff_front _ owner _ h] at this
  simpa using this

/-- a revoked (or never live) anyone-can-join invite key opens no generation introduced since -/
theorem revoked_invite_cannot_derive (i owner : Nat) (pre post : List Item) (h : WF owner (pre ++ post))
    (hnot : ∀ k, 1 ≤ k → k ≤ post.length → i ∉ (gstate owner (pre ++ post.take k)).openIds)
    (g : Nat) (hg : (gstate owner pre).ngen ≤ g) :
    ¬ Derives (.inv i) owner (pre ++ post) (.rk g) :=
  cannot_derive_after_loss (.inv i) owner pre post h
    (fun k h1 h2 => by have := hnot k h1 h2; simpa [live] using this) g hg

/-- never admitted ⇒ no read key at all (not even generation 0) -/
theorem never_admitted_derives_nothing (me owner : Nat) (log : List Item) (h : WF owner log) (hne : me ≠ owner)
    (hnot : ∀ k, k ≤ log.length → me ∉ (gstate owner (log.take k)).members) (g : Nat) :
    ¬ Derives (.acc me) owner log (.rk g) := by
  rw [derives_iff_front _ owner log h]
  have : front (.acc me) owner log = 0 := by
    unfold front
    have h0 : front0 (.acc me) owner = 0 := by
      simp only [front0]; split
      · rename_i e; cases e; exact absurd rfl hne
      · rfl
    rw [h0]
    apply frontFrom_notlive
    intro k _ hk2
    have := hnot k hk2
    simpa [live, gstate] using this
  omega

/-! ## the code's key map is exactly what is derivable -/

/-- **view_matches_knows**: for every account (member or not) and every existing generation, the
account's key map (computed the way the code does: `unpackAllKeys` on admission, one decryption per
rotation) holds the generation iff its read key is derivable from the raw log and the account's
private key. Sound and complete. -/
theorem view_matches_knows (me owner : Nat) (log : List Item) (h : WF owner log) (g : Nat) :
    ∃ hasRev, view me owner log = some hasRev ∧
      (hasGen hasRev g = true ↔ Derives (.acc me) owner log (.rk g)) := by
  refine ⟨_, view_eq me owner log h, ?_⟩
  rw [hasGen_viewOf, derives_iff_front _ owner log h]
  simp

/-! ## tree content -/

/-- **build_without_key_fails**: building an encrypted change without a read key is an error, never
the plaintext. -/
theorem build_without_key_fails (d : Nat) : buildData false none d = .error .missingEncryptKey := rfl

/-- **tree_content_ciphertext_only** (builder): an encrypted change carries `senc key (data d)`, which
is not the plaintext; only `Unencrypted = true` yields the plaintext. -/
theorem tree_content_ciphertext_only (k : Term) (d : Nat) :
    buildData false (some k) d = .ok (.senc k (.data d)) ∧ Term.senc k (.data d) ≠ .data d
    ∧ ∀ rk', buildData true rk' d = .ok (.data d) := by
  exact ⟨rfl, (fun h => by cases h), fun _ => rfl⟩

/-- a member's view yields the tree key of the CURRENT generation, so its encrypted changes name the
current read-key id; a view without the current key yields none and `buildData` fails -/
theorem member_writes_under_current (me owner : Nat) (log : List Item) (h : WF owner log)
    (hm : me ∈ (gstate owner log).members) (tree : Nat) :
    ∃ hasRev, view me owner log = some hasRev ∧
      currentTreeKey tree hasRev = some (.tk tree ((gstate owner log).ngen - 1)) := by
  refine ⟨_, member_has_all_keys me owner log h hm, ?_⟩
  have hpos := (good_of_wf (.acc me) owner log h).pos
  rw [sem_g] at hpos
  obtain ⟨m, hm'⟩ : ∃ m, (gstate owner log).ngen = m + 1 := ⟨_, (Nat.sub_add_cancel hpos).symm⟩
  rw [hm']
  simp [currentTreeKey, List.replicate_succ]

/-- every principal that is live now (in particular every current member) decrypts every piece of
encrypted content in the log to the original, whatever generation it was written under -/
theorem member_decrypts_content (p : Prin) (owner : Nat) (log : List Item) (h : WF owner log)
    (hl : live p (gstate owner log) = true) (tree g d : Nat) (hc : Item.content tree g d ∈ log) :
    Derives p owner log (.data d) := by
  have hgood := good_of_wf p owner log h
  have hpub : Term.senc (.tk tree g) (.data d) ∈ pub owner log :=
    List.mem_cons_of_mem _ (mem_pubFrom log _ _ hc (by simp [itemPub]))
  have hsh := hgood.shape (Term.senc (.tk tree g) (.data d)) (by rw [sem_pub]; exact hpub)
  have hlt : g < (gstate owner log).ngen := by
    rcases hsh with h' | ⟨_, _, h', _⟩ | ⟨_, h', _⟩ | ⟨_, _, _, h', hlt⟩
    · cases h'
    · cases h'
    · cases h'
    · cases h'; rw [sem_g] at hlt; exact hlt
  have hk : Derives p owner log (.rk g) := by
    rw [derives_iff_front p owner log h, front_of_live p owner log h hl]; exact hlt
  exact Knows.sdec (Knows.init (List.mem_cons_of_mem _ hpub)) (Knows.derive hk)

/-- conversely, content is only readable through a generation below the principal's frontier: a
removed account reads nothing written (only) under generations introduced since its removal -/
theorem content_needs_generation (p : Prin) (owner : Nat) (log : List Item) (h : WF owner log) (d : Nat)
    (hd : Derives p owner log (.data d)) :
    ∃ tree g, g < front p owner log ∧ Term.senc (.tk tree g) (.data d) ∈ pub owner log := by
  have hgood := good_of_wf p owner log h
  have hd' : Knows (Term.sk p :: (semFrom p (sem0 p owner) log).pub) (.data d) := by rw [sem_pub]; exact hd
  rcases knows_closed hgood hd' with h' | h' | ⟨_, _, h'⟩ | ⟨_, _, _, h'⟩ | ⟨tree, g, d', hlt, h', hmem⟩
  · cases h'
  · rcases hgood.shape _ h' with h'' | ⟨_, _, h'', _⟩ | ⟨_, h'', _⟩ | ⟨_, _, _, h'', _⟩ <;> cases h''
  · cases h'
  · cases h'
  · cases h'
    rw [sem_front] at hlt; rw [sem_pub] at hmem
    exact ⟨tree, g, hlt, hmem⟩

/-! ## long-lived tree objects (per-tree key cache, `readKeysFromAclState`) -/

/-- A tree object that stays open through the whole history — touched (built, `AddRawChanges`,
`AddContent`) at ARBITRARY points, in particular while its account is out of the space — holds, after
its next touch, a derived key for exactly the generations its account's key map holds. (The cache is
refreshed unless it already has a key for every generation; skipping the rescan on a weaker condition,
e.g. an unchanged number of generations, breaks this for an account re-admitted under the generation
its removal introduced.) -/
theorem longlived_tree_cache (me owner : Nat) (evs : List Ev) (h : WF owner (evItems evs)) :
    ∃ hasRev cache, treeRun me owner (evs ++ [.touch]) = some (hasRev, cache)
      ∧ view me owner (evItems evs) = some hasRev
      ∧ ∀ g, treeDecrypts cache g = hasGen hasRev g := by
  have hv := view_eq me owner (evItems evs) h
  obtain ⟨c', hc'⟩ := treeFrom_exists me evs (G0 owner) (view0 me owner) (refresh (view0 me owner) []) _ hv
  have hinv := (treeFrom_inv me evs (G0 owner) (view0 me owner) _ _ c' rfl (cacheInv0 me owner) hc').1
  refine ⟨viewOf (gstate owner (evItems evs)).ngen (front (.acc me) owner (evItems evs)),
    refresh (viewOf (gstate owner (evItems evs)).ngen (front (.acc me) owner (evItems evs))) c', ?_, hv, ?_⟩
  · unfold treeRun
    rw [treeFrom_snoc_touch, hc']; rfl
  · intro g
    have := refresh_mem_iff hinv g
    simp only [treeDecrypts, List.contains_eq_mem]
    by_cases hg : hasGen (viewOf (gstate owner (evItems evs)).ngen (front (.acc me) owner (evItems evs))) g = true
    · rw [hg]; simpa using this.mpr hg
    · have hg' : hasGen (viewOf (gstate owner (evItems evs)).ngen (front (.acc me) owner (evItems evs))) g = false := by
        simpa using hg
      rw [hg']; simpa using fun hm => hg (this.mp hm)

/-- at every moment (touched or not, validated log or not) a long-lived tree decrypts only generations
its account's key map holds — hence, by `view_matches_knows`, only derivable ones -/
theorem longlived_tree_sound (me owner : Nat) (evs : List Ev) (hasRev : List Bool) (cache : List Nat)
    (hr : treeRun me owner evs = some (hasRev, cache)) (g : Nat) (hd : treeDecrypts cache g = true) :
    hasGen hasRev g = true := by
  have hinv := (treeFrom_inv me evs (G0 owner) (view0 me owner) _ _ cache rfl (cacheInv0 me owner) hr).1
  exact hinv.2 g (by simpa [treeDecrypts] using hd)

/-- **member_decrypts_content for long-lived trees**: whatever happened to the account before (removed,
tree touched while out, re-admitted under the same generation, …), once it holds a permission and its
long-lived tree has been touched, the tree decrypts content of every generation and writes under the
current one -/
theorem longlived_member_decrypts (me owner : Nat) (evs : List Ev) (h : WF owner (evItems evs))
    (hm : me ∈ (gstate owner (evItems evs)).members) (tree : Nat) :
    ∃ hasRev cache, treeRun me owner (evs ++ [.touch]) = some (hasRev, cache)
      ∧ (∀ g, g < (gstate owner (evItems evs)).ngen → treeDecrypts cache g = true)
      ∧ treeWriteKey tree (gstate owner (evItems evs)).ngen cache
          = some (.tk tree ((gstate owner (evItems evs)).ngen - 1)) := by
  obtain ⟨hasRev, cache, hrun, hview, hdec⟩ := longlived_tree_cache me owner evs h
  have hall := member_has_all_keys me owner _ h hm
  rw [hview] at hall
  cases hall
  have hpos := (good_of_wf (.acc me) owner _ h).pos
  rw [sem_g] at hpos
  refine ⟨_, cache, hrun, fun g hg => ?_, ?_⟩
  · rw [hdec g]; exact hasGen_replicate hg
  · have := hdec ((gstate owner (evItems evs)).ngen - 1)
    rw [hasGen_replicate (by omega)] at this
    simp only [treeDecrypts] at this
    simp only [treeWriteKey, this, if_true]

/-! ## honest participants: the builder's records are well formed, so nothing above is vacuous or conditional for them -/

/-- every log produced by the (model of the) real record builder from honest operations is accepted
by the validator and carries honest payloads -/
theorem honest_logs_wf (owner : Nat) (ops : List Op) (h : ∀ op ∈ ops, op.sane) :
    WF owner (honestLog owner ops) :=
  wf_buildLog ops (G0 owner) h

/-- hence, for every history of honest operations, unconditionally: members hold every generation and
every account's key map is exactly what it can derive -/
theorem honest_history (owner : Nat) (ops : List Op) (h : ∀ op ∈ ops, op.sane) (me g : Nat) :
    (me ∈ (gstate owner (honestLog owner ops)).members →
      view me owner (honestLog owner ops) = some (List.replicate (gstate owner (honestLog owner ops)).ngen true))
    ∧ ∃ hasRev, view me owner (honestLog owner ops) = some hasRev ∧
        (hasGen hasRev g = true ↔ Derives (.acc me) owner (honestLog owner ops) (.rk g)) :=
  ⟨member_has_all_keys me owner _ (honest_logs_wf owner ops h),
   view_matches_knows me owner _ (honest_logs_wf owner ops h) g⟩

/-- the batch builder after fix F-keys-batch-revoke-keeps-key (revokes first, revoked invites excluded
from the removal's rotation): the key of an invite revoked by the batch does not open the generation
the batch introduces — the record-granular statement for revoked invites -/
theorem batch_revoke_excluded (owner i : Nat) (pre : List Item) (rm : List Nat)
    (h : WF owner (pre ++ [.revoke i, buildRotate (gstep (gstate owner pre) (.revoke i)) rm])) :
    ¬ Derives (.inv i) owner (pre ++ [.revoke i, buildRotate (gstep (gstate owner pre) (.revoke i)) rm])
        (.rk (gstate owner pre).ngen) := by
  apply revoked_invite_cannot_derive i owner pre _ h _ _ (Nat.le_refl _)
  intro k h1 h2
  have h2' : k ≤ 2 := h2
  rw [gstate, gFrom_append]
  have : k = 1 ∨ k = 2 := by omega
  rcases this with rfl | rfl
  · exact not_open_after_revoke _ i
  · show i ∉ (gstep (gstep (gFrom (G0 owner) pre) (.revoke i)) (buildRotate _ rm)).openIds
    rw [buildRotate, openIds_rotate]
    exact not_open_after_revoke _ i

/-- and that is what `buildOp` emits for such a batch -/
theorem batch_builder_shape (g : G) (i : Nat) (rm : List Nat) :
    buildOp g (.batchRevokeRemove [i] rm) = [] ∨
    buildOp g (.batchRevokeRemove [i] rm) = [.revoke i, buildRotate (gstep g (.revoke i)) rm] := by
  simp only [buildOp]
  split
  · right; simp [gFrom]
  · left; rfl

/-! ## why the guard of fix F-keys-permchange-readmit is needed -/

/-- With a bare permission change re-admitting an account (`Item.grant`, accepted by the validator
before the fix), `member_has_all_keys` fails: the account holds a permission and no key. -/
theorem grant_breaks_member_has_all :
    ∃ (me owner : Nat) (log : List Item), me ∈ (gstate owner log).members ∧
      view me owner log ≠ some (List.replicate (gstate owner log).ngen true) :=
  ⟨1, 0, [.grant 1], by decide, by decide⟩

/-! ## non-vacuity: a concrete accepted honest history exercising every kind of content -/

def exLog : List Item :=
  [ .invite 0 true (.aenc (.inv 0) (.rk 0)),
    .enter 1 (.aenc (.acc 1) (.rk 0)),
    .content 7 0 41,
    .rotate [1] [(0, .aenc (.acc 0) (.rk 1))] [(0, .aenc (.inv 0) (.rk 1))] (.senc (.rk 1) (.rk 0)),
    .enter 2 (.aenc (.acc 2) (.rk 1)),
    .revoke 0,
    .rotate [] [(2, .aenc (.acc 2) (.rk 2)), (0, .aenc (.acc 0) (.rk 2))] [] (.senc (.rk 2) (.rk 1)),
    .drop 2,
    .content 7 2 42 ]

example : WF 0 exLog := by unfold WF; decide
example : (gstate 0 exLog).members = [0] ∧ (gstate 0 exLog).ngen = 3 := by decide
-- owner: all three generations; removed account 1: generation 0 only; dropped account 2: all (no rotation
-- since); never admitted account 3: nothing
example : view 0 0 exLog = some [true, true, true] := by decide
example : view 1 0 exLog = some [false, false, true] := by decide
example : view 2 0 exLog = some [true, true, true] := by decide
example : view 3 0 exLog = some [false, false, false] := by decide
example : front (.acc 1) 0 exLog = 1 ∧ front (.inv 0) 0 exLog = 2 ∧ front (.acc 3) 0 exLog = 0 := by decide
-- hypotheses of `nonmember_cannot_derive` for account 1, removed by the 4th content
example : ∀ k, 1 ≤ k → k ≤ (exLog.drop 3).length → 1 ∉ (gstate 0 (exLog.take 3 ++ (exLog.drop 3).take k)).members := by
  intro k h1 h2
  have h2' : k ≤ 6 := h2
  have : k = 1 ∨ k = 2 ∨ k = 3 ∨ k = 4 ∨ k = 5 ∨ k = 6 := by omega
  rcases this with rfl | rfl | rfl | rfl | rfl | rfl <;> decide
example : buildData false (currentTreeKey 7 [false, true]) 5 = .error .missingEncryptKey := rfl
-- the same history as produced by the honest builder (up to the order of recipients)
def exOps : List Op := [.invite 0 true, .join 1, .write 7 41, .rotate [1], .join 2, .batchRevokeRemove [0] [], .drop 2, .write 7 42]
example : ∀ op ∈ exOps, op.sane := by
  intro op h
  simp only [exOps, List.mem_cons, List.not_mem_nil, or_false] at h
  rcases h with rfl | rfl | rfl | rfl | rfl | rfl | rfl | rfl <;> simp [Op.sane]
-- the scenario of the per-tree cache: account 1 is removed, its tree is touched while out, it is re-admitted
-- under the generation its removal introduced, its tree is touched again: it decrypts both generations
def exEvs : List Ev :=
  [ .item (.enter 1 (.aenc (.acc 1) (.rk 0))), .touch,
    .item (.rotate [1] [(0, .aenc (.acc 0) (.rk 1))] [] (.senc (.rk 1) (.rk 0))), .touch,
    .item (.enter 1 (.aenc (.acc 1) (.rk 1))) ]
example : WF 0 (evItems exEvs) := by unfold WF; decide
example : treeRun 1 0 exEvs = some ([true, true], [0]) ∧ treeRun 1 0 (exEvs ++ [.touch]) = some ([true, true], [0, 1]) := by decide
example : (gstate 0 (honestLog 0 exOps)).ngen = 3 ∧ view 1 0 (honestLog 0 exOps) = some [false, false, true] := by decide

end AnySync.Keys
