/-
C02 — only authentic, authorised changes are ever attached or persisted.
Only property theorems (and their non-vacuity examples) live here.
-/
import AnySyncModel.Auth.Model
import AnySyncModel.Generated.AuthShape

namespace AnySync.Auth
open Generated.Auth

/-- obligation on the regenerated fragment: the extractor recognised the shapes it reads -/
theorem shape_ok : shapeOk = true := by decide

/-- `AclPermissions.CanWrite()` is true exactly for Owner (1), Admin (2), Writer (3) -/
theorem canWrite_table (p : Perm) : canWritePerms.contains p = true ↔ (p = 1 ∨ p = 2 ∨ p = 3) := by
  simp [canWritePerms]

end AnySync.Auth
