/-
C02 — only authentic, authorised changes are ever attached or persisted.

Only property theorems (and their non-vacuity examples) live here. Vocabulary:
`Auth/Spec.lean` (`permAt`: the specification of "permission at a record", a fold over the record
sequence; symbolic signatures), `Auth/AcceptSpec.lean` (`Authentic`), `Auth/Model.lean` (the code).
Explicit hypotheses, never axioms: `Function.Injective H` (content ids are collision free), the
signature law is built into `Sig`/`verifySig` (a signature verifies under `pk` over `m` iff it is
the term `sign pk m`), `(l.map (·.id)).Nodup` (record ids in a log are distinct — they are content
ids of records that contain their predecessor's id).
-/
import AnySyncModel.Auth.Lemmas
import AnySyncModel.Generated.AuthShape

namespace AnySync.Auth
open Generated.Auth

/-! ## regenerated facts -/

/-- obligation on the regenerated fragment: the extractor recognised the shapes it reads -/
theorem shape_ok : shapeOk = true := by decide

/-- the model's "can write" as instantiated by the driver -/
def cwGen (p : Perm) : Bool := canWritePerms.contains p

/-- `AclPermissions.CanWrite()` is true exactly for Owner (1), Admin (2), Writer (3); in particular
"no permission" (0), Reader (4) and Guest (5) cannot write -/
theorem canWrite_table (p : Perm) : cwGen p = true ↔ (p = 1 ∨ p = 2 ∨ p = 3) := by
  simp [cwGen, canWritePerms]

theorem canWrite_none : cwGen 0 = false := by decide

/-! ## the permission cache against the specification -/

/-- FULL statement: for every log with distinct record ids, every account and every record of the
log, `closestPermissions` over the cached `PermissionChanges` answers the specification `permAt`. -/
def C02_closest_full (keep : Bool) : Prop :=
  ∀ (l : Log), (l.map (·.id)).Nodup → ∀ (a : Acc) (r : RecId) (i : Nat), idxOf l r = some i →
    closest l (histOf (buildCache keep l) a) r = permAt l i a

/-- the full statement holds when `applyAccountsAdd` keeps the older history (the repaired code) -/
theorem closestPermissions_eq_permAt_full_fixed : C02_closest_full true :=
  fun l hnd a r i hr => (cacheInv l hnd).main a r i hr

/-- witness of F-acl-readd: root by account 0; record 1 adds account 1 as Writer; record 2 removes
it; record 3 adds it again through AccountsAdd -/
def readdWitness : Log :=
  [⟨0, [.set 0 1]⟩, ⟨1, [.add 1 3]⟩, ⟨2, [.set 1 0]⟩, ⟨3, [.add 1 3]⟩]

/-- the full statement is FALSE for the code that replaces the history (unrepaired
`applyAccountsAdd`): at the first-add record the specification says Writer, the cache says None -/
theorem closestPermissions_eq_permAt_full_refuted_unfixed : ¬ C02_closest_full false := by
  intro h
  have := h readdWitness (by decide) 1 1 1 (by decide)
  revert this
  decide

/-- whichever shape the source currently has (read by the extractor on every run), the matching
statement holds: repaired ⇒ full equality; unrepaired ⇒ the full equality is refuted -/
theorem closestPermissions_eq_permAt_current :
    (accountsAddKeepsHistory = true → C02_closest_full accountsAddKeepsHistory) ∧
    (accountsAddKeepsHistory = false → ¬ C02_closest_full accountsAddKeepsHistory) := by
  constructor
  · intro h; rw [h]; exact closestPermissions_eq_permAt_full_fixed
  · intro h; rw [h]; exact closestPermissions_eq_permAt_full_refuted_unfixed

/-- PARTIAL (unrepaired code): equality for histories that never re-add a known account through
`AccountsAdd` (re-adds by request/accept or invite join are fine). Missing for the full statement:
exactly the histories excluded by `NoReadd`. -/
theorem closestPermissions_eq_permAt_partial (l : Log) (hnd : (l.map (·.id)).Nodup) (hno : NoReadd l)
    (a : Acc) (r : RecId) (i : Nat) (hr : idxOf l r = some i) :
    closest l (histOf (buildCache false l) a) r = permAt l i a := by
  rw [buildCache_false_eq_of_noReadd l hno]
  exact (cacheInv l hnd).main a r i hr

/-- for EVERY history and either shape of the code, the cache never grants more than the
specification: its answer is `permAt` or "no permission". (F-acl-readd loses valid changes, it
admits no invalid ones.) -/
theorem closestPermissions_never_exceeds_permAt (keep : Bool) (l : Log) (hnd : (l.map (·.id)).Nodup)
    (a : Acc) (r : RecId) (i : Nat) (hr : idxOf l r = some i) :
    closest l (histOf (buildCache keep l) a) r = permAt l i a ∨
    closest l (histOf (buildCache keep l) a) r = 0 :=
  closest_sound keep l hnd a r i hr

example : NoReadd [⟨0, [.set 0 1]⟩, ⟨1, [.add 1 3]⟩, ⟨2, [.set 1 4]⟩, ⟨3, [.set 1 0]⟩, ⟨4, [.touch 1]⟩, ⟨5, [.set 1 3]⟩] := by
  simp [NoReadd, noReaddFrom, noReaddEffs, histOf, emptyCache, applyRec, applyEffect]

example : ¬ NoReadd readdWitness := by
  simp [NoReadd, readdWitness, noReaddFrom, noReaddEffs, histOf, emptyCache, applyRec, applyEffect]

/-! ## accept ⇒ authentic (full, against the specification `permAt`) -/

/-- **accept_implies_authentic.** If `AddRawChanges` succeeds, every change that is attached
afterwards was attached before or is `Authentic` for some raw change of the batch — content id,
signature under the named identity (derived root excepted), cited record in the local log, write
permission at that record per the SPECIFICATION `permAt`, every parent attached and citing a
record that is not later. What is persisted is exactly what was newly attached. Holds for both
shapes of `applyAccountsAdd` (`keep`). -/
theorem accept_implies_authentic (H : Nat → Id) (cw : Perm → Bool) (hcw : cw 0 = false) (keep : Bool)
    (l : Log) (hnd : (l.map (·.id)).Nodup) (t : TreeSt) (batch : List Raw) (added : List Id) (t' : TreeSt)
    (h : addRaw H cw keep l t batch = (.ok, added, t')) :
    (∀ c ∈ t'.attached, c ∈ t.attached ∨ ∃ raw ∈ batch, Authentic H cw l t.rootId t'.attached raw c) ∧
    t'.stored = t.stored ++ added ∧
    (∀ id ∈ added, ∃ c ∈ t'.attached, c.id = id ∧ hasId t.attached id = false ∧
        ∃ raw ∈ batch, Authentic H cw l t.rootId t'.attached raw c) := by
  unfold addRaw at h
  split at h
  · cases h
  · simp only [Prod.mk.injEq] at h
    obtain ⟨_, rfl, rfl⟩ := h
    exact ⟨fun c hc => Or.inl hc, by simp, by simp⟩
  · rename_i new hne hnew
    split at h
    · cases h
    · -- the rebuild branch: FULL validation of the rebuilt tree
      simp only at h
      split at h
      · cases h
      · rename_i hval
        split at h
        · simp only [Prod.mk.injEq] at h
          obtain ⟨_, rfl, rfl⟩ := h
          exact ⟨fun c hc => Or.inl hc, by simp, by simp⟩
        · simp only [Prod.mk.injEq] at h
          obtain ⟨_, rfl, rfl⟩ := h
          have inv := addInv_treeAdd t.attached new
          have hall := validateAll_ok hval
          have hauth : ∀ c ∈ (treeAdd t.attached new).added,
              ∃ raw ∈ batch, Authentic H cw l t.rootId (treeAdd t.attached new).attached raw c := by
            intro c hc
            obtain ⟨raw, hm, _, hu⟩ := filterNew_ok hnew c (inv.added_new c hc)
            have hmem : c ∈ (treeAdd t.attached new).attached := by
              rw [inv.att_eq]; exact List.mem_append_right _ hc
            exact ⟨raw, hm, authentic_of_checks hcw hnd hu (hall c hmem)⟩
          refine ⟨?_, rfl, ?_⟩
          · intro c hc
            simp only at hc
            rw [inv.att_eq] at hc
            rcases List.mem_append.mp hc with hc | hc
            · exact Or.inl hc
            · exact Or.inr (hauth c hc)
          · intro id hid
            simp only [List.mem_map] at hid
            obtain ⟨c, hc, rfl⟩ := hid
            refine ⟨c, ?_, rfl, inv.added_fresh c hc, hauth c hc⟩
            simp only
            rw [inv.att_eq]; exact List.mem_append_right _ hc
    · simp only at h
      split at h
      · simp only [Prod.mk.injEq] at h
        obtain ⟨_, rfl, rfl⟩ := h
        exact ⟨fun c hc => Or.inl hc, by simp, by simp⟩
      · split at h
        · cases h
        · rename_i hval
          simp only [Prod.mk.injEq] at h
          obtain ⟨_, rfl, rfl⟩ := h
          have inv := addInv_treeAdd t.attached new
          have hall := validateAll_ok hval
          have hauth : ∀ c ∈ (treeAdd t.attached new).added,
              ∃ raw ∈ batch, Authentic H cw l t.rootId (treeAdd t.attached new).attached raw c := by
            intro c hc
            obtain ⟨raw, hm, _, hu⟩ := filterNew_ok hnew c (inv.added_new c hc)
            exact ⟨raw, hm, authentic_of_checks hcw hnd hu (hall c hc)⟩
          refine ⟨?_, rfl, ?_⟩
          · intro c hc
            simp only at hc
            rw [inv.att_eq] at hc
            rcases List.mem_append.mp hc with hc | hc
            · exact Or.inl hc
            · exact Or.inr (hauth c hc)
          · intro id hid
            simp only [List.mem_map] at hid
            obtain ⟨c, hc, rfl⟩ := hid
            refine ⟨c, ?_, rfl, inv.added_fresh c hc, hauth c hc⟩
            simp only
            rw [inv.att_eq]; exact List.mem_append_right _ hc

/-- the instance the driver runs (and the correspondence check compares with the real code): the
regenerated `CanWrite` table and the regenerated shape of `applyAccountsAdd` -/
theorem accept_implies_authentic_current (H : Nat → Id) (l : Log) (hnd : (l.map (·.id)).Nodup)
    (t : TreeSt) (batch : List Raw) (added : List Id) (t' : TreeSt)
    (h : addRaw H cwGen accountsAddKeepsHistory l t batch = (.ok, added, t')) :
    ∀ c ∈ t'.attached, c ∈ t.attached ∨ ∃ raw ∈ batch, Authentic H cwGen l t.rootId t'.attached raw c :=
  (accept_implies_authentic H cwGen canWrite_none _ l hnd t batch added t' h).1

/-- the same for opening a tree (`CreateStorage` + `BuildObjectTree`): a tree exists only over an
authentic root -/
theorem open_implies_authentic_root (H : Nat → Id) (cw : Perm → Bool) (hcw : cw 0 = false) (keep : Bool)
    (l : Log) (hnd : (l.map (·.id)).Nodup) (root : Raw) (t : TreeSt)
    (h : openTree H cw keep l root = .ok t) :
    ∃ c, t.attached = [c] ∧ t.stored = [c.id] ∧ t.rootId = root.id ∧ Authentic H cw l root.id [c] root c := by
  unfold openTree at h
  split at h
  · cases h
  · rename_i c hu
    split at h
    · cases h
    · rename_i hv
      cases h
      have hcid : c.id = root.id := by
        obtain ⟨_, p, s, _, hc, _⟩ := unmarshal_ok hu; rw [hc]
      exact ⟨c, rfl, by simp [hcid], rfl, authentic_of_checks hcw hnd hu hv⟩

/-- in Go `validateChange` dereferences `tree.attached[id]` for every previous id of a new change:
the model's explicit `.panic` outcome is unreachable from `AddRawChanges` (every change `Tree.Add`
attaches has all its previous ids attached) -/
theorem addRaw_never_panics (H : Nat → Id) (cw : Perm → Bool) (keep : Bool) (l : Log) (t : TreeSt)
    (hwf : ∀ c ∈ t.attached, ∀ pid ∈ c.prev, hasId t.attached pid = true)
    (batch : List Raw) : (addRaw H cw keep l t batch).1 ≠ .err .panic := by
  unfold addRaw
  split
  · rename_i e he
    rcases filterNew_err_kind he with rfl | rfl | rfl <;> simp
  · simp
  · rename_i new hne hnew
    split
    · simp
    · -- rebuild branch: the full validation visits the old changes too (`hwf`)
      have inv := addInv_treeAdd t.attached new
      simp only
      split
      · rename_i e he
        intro hh
        simp only [Outcome.err.injEq] at hh
        subst hh
        refine validateAll_no_panic cw keep l _ t.rootId _ ?_ he
        intro c hc pid hp
        rw [inv.att_eq] at hc
        rcases List.mem_append.mp hc with hc | hc
        · rw [inv.att_eq, hasId_append, hwf c hc pid hp]; rfl
        · exact inv.prevs c hc pid hp
      · split <;> simp
    · simp only
      split
      · simp
      · have inv := addInv_treeAdd t.attached new
        split
        · rename_i e he
          intro hh
          simp only [Outcome.err.injEq] at hh
          subst hh
          exact validateAll_no_panic cw keep l _ t.rootId _ inv.prevs he
        · simp

/-- (fix-tree-noprev) whatever `Tree.Add` attaches has at least one previous id and all of them are
attached: with a tree whose attached changes are reachable from the root, so are the new ones — the
root-based full validation, iteration, heads and order ids see every attached change -/
theorem attached_changes_have_attached_parents (att new : List Change) :
    ∀ c ∈ (treeAdd att new).added, c.prev ≠ [] ∧ ∀ pid ∈ c.prev, hasId (treeAdd att new).attached pid = true :=
  fun c hc => ⟨(addInv_treeAdd att new).hasPrev c hc, (addInv_treeAdd att new).prevs c hc⟩

/-! ## a rejected batch is a no-op -/

/-- **reject_is_noop.** Whatever the reason (bad content id, bad signature, undecodable bytes —
found before anything is touched —, or a permission / record / ACL-order failure found after
`Tree.Add` already attached the new changes and recomputed the heads), a rejected batch leaves the
attached set, the heads, the stored ids and the stored heads exactly as they were, and reports
nothing as added. Covers batches mixing valid and invalid changes in any position: the in-memory
`rollback` removes every change the call attached, valid ones included. -/
theorem reject_is_noop (H : Nat → Id) (cw : Perm → Bool) (keep : Bool) (l : Log) (t : TreeSt)
    (batch : List Raw) (e : Err) (added : List Id) (t' : TreeSt)
    (h : addRaw H cw keep l t batch = (.err e, added, t')) : t' = t ∧ added = [] := by
  unfold addRaw at h
  split at h
  · simp only [Prod.mk.injEq] at h; exact ⟨h.2.2.symm, h.2.1.symm⟩
  · cases h
  · rename_i new hne hnew
    split at h
    · simp only [Prod.mk.injEq] at h; exact ⟨h.2.2.symm, h.2.1.symm⟩
    · -- refused on the rebuild branch: the previous tree is restored (repair f2ef10f)
      simp only at h
      split at h
      · simp only [Prod.mk.injEq] at h; exact ⟨h.2.2.symm, h.2.1.symm⟩
      · split at h <;> cases h
    · simp only at h
      split at h
      · cases h
      · split at h
        · simp only [Prod.mk.injEq] at h
          obtain ⟨_, rfl, rfl⟩ := h
          refine ⟨?_, rfl⟩
          have inv := addInv_treeAdd t.attached new
          simp only [rollback]
          rw [inv.att_eq, rollback_filter _ _ inv.added_fresh]
        · cases h

/-! ### the rebuild branch (`rebuildFromStorage`) -/

/-- **the rebuild branch re-establishes the invariant from scratch.** When a batch takes the
`rebuildFromStorage` branch and is accepted, EVERY change of the resulting tree — the ones that were
attached before as well as the new ones — has just passed `validateChange` against the current log:
it is the derived root, or its author could write (specification `permAt`) at the record it cites,
which exists locally, and each parent is attached and cites a record that is not later. (The normal
branch validates only what it attached and relies on the invariant of the old tree.) -/
theorem rebuild_branch_revalidates_everything (H : Nat → Id) (cw : Perm → Bool) (hcw : cw 0 = false) (keep : Bool)
    (l : Log) (hnd : (l.map (·.id)).Nodup) (t : TreeSt) (batch : List Raw) (added : List Id) (t' : TreeSt)
    (hr : takesRebuild H t batch = true) (h : addRaw H cw keep l t batch = (.ok, added, t')) :
    ∀ c ∈ t'.attached, c.derived = true ∨
      ∃ i, idxOf l c.aclHead = some i ∧ cw (permAt l i c.identity) = true ∧
        (c.id = t.rootId ∨ ∀ pid ∈ c.prev, ∃ pc ∈ t'.attached, pc.id = pid ∧
          (pc.derived = true ∨ ∃ j, idxOf l pc.aclHead = some j ∧ j ≤ i)) := by
  unfold takesRebuild at hr
  unfold addRaw at h
  cases hfn : filterNew H t batch with
  | error e => rw [hfn] at hr; cases hr
  | ok new =>
    cases new with
    | nil => rw [hfn] at hr; cases hr
    | cons c0 cs =>
      rw [hfn] at hr h
      simp only [beq_iff_eq] at hr
      simp only [hr] at h
      have inv := addInv_treeAdd t.attached (c0 :: cs)
      split at h
      · cases h
      · rename_i hval
        have hall := validateAll_ok hval
        split at h
        · rename_i hemp
          simp only [Prod.mk.injEq] at h
          obtain ⟨_, _, rfl⟩ := h
          intro c hc
          have hatt : (treeAdd t.attached (c0 :: cs)).attached = t.attached := by
            rw [inv.att_eq]
            have : (treeAdd t.attached (c0 :: cs)).added = [] := by
              simpa [List.isEmpty_iff] using hemp
            rw [this, List.append_nil]
          rw [← hatt] at hc ⊢
          exact validateChange_ok hcw hnd (hall c hc)
        · simp only [Prod.mk.injEq] at h
          obtain ⟨_, _, rfl⟩ := h
          intro c hc
          exact validateChange_ok hcw hnd (hall c hc)

/-- the tree of the witness below: root 1; `c1` (id 5) on the root; snapshot `S` (id 6) on `c1`;
`c2` (id 3) on the ROOT but naming `S` as its snapshot — `S` is not an ancestor of `c2` -/
def rollbackWitness : TreeSt :=
  ⟨1, [⟨1, false, 0, 0, [], 0, true⟩, ⟨5, false, 0, 0, [1], 1, false⟩, ⟨6, false, 0, 0, [5], 1, true⟩,
       ⟨3, false, 0, 0, [1], 6, false⟩], [3, 6], [1, 5, 6, 3], [3, 6]⟩

/-- the same changes in the order of the storage (order ids follow the iteration, children by id:
1, 3, 5, 6) -/
def rollbackWitnessStorageOrder : List Change :=
  [⟨1, false, 0, 0, [], 0, true⟩, ⟨3, false, 0, 0, [1], 6, false⟩, ⟨5, false, 0, 0, [1], 1, false⟩,
   ⟨6, false, 0, 0, [5], 1, true⟩]

/-- **why repair f2ef10f was needed** (`decide` witness). Before the repair a batch refused on the
rebuild branch was rolled back by RELOADING the tree from the storage. Reloading is not the identity:
`c2` comes before its (non-ancestor) snapshot `S` in the storage order, its previous id is attached,
its snapshot id is not → `AddFast` drops it. A refused batch changed the attached set and the heads. -/
theorem prerepair_rollback_by_reload_not_noop :
    rollbackByReload rollbackWitness rollbackWitnessStorageOrder ≠ rollbackWitness ∧
    (rollbackByReload rollbackWitness rollbackWitnessStorageOrder).heads = [6] := by
  decide

/-- the reload itself is faithful when the storage order happens to be the attach order -/
example : reload rollbackWitness.attached = rollbackWitness.attached := by decide

/-- the in-memory rollback on its own: removing what `Tree.Add` attached from the attached set it
produced gives back the old attached set (new changes never reuse an attached id) -/
theorem rollback_restores (att new : List Change) :
    (treeAdd att new).attached.filter (fun c => !hasId (treeAdd att new).added c.id) = att := by
  have inv := addInv_treeAdd att new
  rw [inv.att_eq, rollback_filter _ _ inv.added_fresh]

/-! ## any alteration of an accepted change is rejected -/

/-- what `Unmarshall(verify)` establishes: content id, and — unless it is the derived root — the
signature term is exactly `sign identity payload-bytes` -/
theorem unmarshal_implies_hash_and_signature (H : Nat → Id) (rootId : Id) (raw : Raw) (c : Change)
    (h : unmarshal H rootId raw = .ok c) :
    raw.id = H raw.body.bytes ∧ ∃ p s, raw.body.decoded = some (p, s) ∧
      ((raw.id = rootId ∧ p.derived = true) ∨ s = Sig.sign p.identity p.bytes) := by
  obtain ⟨hid, p, s, hd, _, hsig⟩ := unmarshal_ok h
  refine ⟨hid, p, s, hd, ?_⟩
  rcases hsig with h | h
  · left; simpa using h
  · right; exact h

/-- **mutation_rejected (id).** Same bytes under another id: rejected (`cid`). -/
theorem mutation_rejected_id (H : Nat → Id) (rootId : Id) (raw : Raw) (c : Change)
    (hacc : unmarshal H rootId raw = .ok c) (id' : Id) (hne : id' ≠ raw.id) :
    unmarshal H rootId { raw with id := id' } = .error .cid := by
  have hid := (unmarshal_ok hacc).1
  simp [unmarshal, ← hid, hne]

/-- **mutation_rejected (bytes).** Any other byte string (payload byte, signature byte, wrapper
re-encoding, …) under the accepted id: rejected (`cid`) — hash injectivity. -/
theorem mutation_rejected_bytes (H : Nat → Id) (hH : Function.Injective H) (rootId : Id) (raw : Raw)
    (c : Change) (hacc : unmarshal H rootId raw = .ok c) (body' : Body) (hne : body'.bytes ≠ raw.body.bytes) :
    unmarshal H rootId { raw with body := body' } = .error .cid := by
  have hid := (unmarshal_ok hacc).1
  have : raw.id ≠ H body'.bytes := by
    rw [hid]; intro h; exact hne (hH h).symm
  simp [unmarshal, this]

/-- **mutation_rejected (payload, id recomputed).** Altered payload bytes (data, identity, ACL
head, parents, snapshot, re-encoding) with the ORIGINAL signature, whatever id the attacker puts
on it: never accepted, unless it poses as the derived root. -/
theorem mutation_rejected_payload (H : Nat → Id) (rootId : Id) (raw : Raw) (c : Change)
    (hacc : unmarshal H rootId raw = .ok c) (hnd : c.derived = false)
    (p p' : Payload) (s : Sig) (hdec : raw.body.decoded = some (p, s)) (hne : p'.bytes ≠ p.bytes)
    (id' : Id) (b' : Nat) (hnr : id' ≠ rootId ∨ p'.derived = false) (c' : Change) :
    unmarshal H rootId ⟨id', ⟨b', some (p', s)⟩⟩ ≠ .ok c' := by
  intro h
  obtain ⟨_, p0, s0, hd0, hc0, hs0⟩ := unmarshal_ok hacc
  rw [hdec] at hd0; cases hd0
  obtain ⟨_, p1, s1, hd1, _, hs1⟩ := unmarshal_ok h
  simp only [Option.some.injEq, Prod.mk.injEq] at hd1
  obtain ⟨rfl, rfl⟩ := hd1
  have hs : s = Sig.sign p.identity p.bytes := by
    rcases hs0 with h0 | h0
    · rw [hc0] at hnd; simp only at hnd; rw [hnd] at h0; cases h0
    · exact h0
  rcases hs1 with h1 | h1
  · simp only [Bool.and_eq_true, beq_iff_eq] at h1
    rcases hnr with hh | hh
    · exact hh h1.1
    · rw [hh] at h1; cases h1.2
  · rw [hs] at h1
    simp only [Sig.sign.injEq] at h1
    exact hne h1.2.symm

/-- **mutation_rejected (signature).** Same payload, any other signature term, whatever id:
never accepted (the signature law: only `sign identity payload` verifies), unless it poses as the
derived root. -/
theorem mutation_rejected_signature (H : Nat → Id) (rootId : Id) (raw : Raw) (c : Change)
    (hacc : unmarshal H rootId raw = .ok c) (hnd : c.derived = false)
    (p : Payload) (s s' : Sig) (hdec : raw.body.decoded = some (p, s)) (hne : s' ≠ s)
    (id' : Id) (b' : Nat) (hnr : id' ≠ rootId ∨ p.derived = false) (c' : Change) :
    unmarshal H rootId ⟨id', ⟨b', some (p, s')⟩⟩ ≠ .ok c' := by
  intro h
  obtain ⟨_, p0, s0, hd0, hc0, hs0⟩ := unmarshal_ok hacc
  rw [hdec] at hd0; cases hd0
  obtain ⟨_, p1, s1, hd1, hc1, hs1⟩ := unmarshal_ok h
  simp only [Option.some.injEq, Prod.mk.injEq] at hd1
  obtain ⟨rfl, rfl⟩ := hd1
  have hpd : (raw.id == rootId && p.derived) = false := by rw [hc0] at hnd; simpa using hnd
  have hs : s = Sig.sign p.identity p.bytes := by
    rcases hs0 with h0 | h0
    · rw [hpd] at h0; cases h0
    · exact h0
  rcases hs1 with h1 | h1
  · simp only [Bool.and_eq_true, beq_iff_eq] at h1
    rcases hnr with hh | hh
    · exact hh h1.1
    · rw [hh] at h1; cases h1.2
  · exact hne (h1.trans hs.symm)


/-- **mutation_rejected (claimed author).** A payload naming identity `a`, signed with ANY other
key `k ≠ a` (the attacker's own key, or the original author's signature kept after swapping the
identity), whatever id and bytes: never accepted. -/
theorem mutation_rejected_author (H : Nat → Id) (rootId : Id) (p' : Payload) (k : Acc) (m : Nat)
    (hk : k ≠ p'.identity) (id' : Id) (b' : Nat) (hnr : id' ≠ rootId ∨ p'.derived = false) (c' : Change) :
    unmarshal H rootId ⟨id', ⟨b', some (p', Sig.sign k m)⟩⟩ ≠ .ok c' := by
  intro h
  obtain ⟨_, p1, s1, hd1, _, hs1⟩ := unmarshal_ok h
  simp only [Option.some.injEq, Prod.mk.injEq] at hd1
  obtain ⟨rfl, rfl⟩ := hd1
  rcases hs1 with h1 | h1
  · simp only [Bool.and_eq_true, beq_iff_eq] at h1
    rcases hnr with hh | hh
    · exact hh h1.1
    · rw [hh] at h1; cases h1.2
  · simp only [Sig.sign.injEq] at h1
    exact hk h1.1

/-- **mutation_rejected, delivered inside a batch.** A batch that contains, at any position, a raw
change that `Unmarshall(verify)` refuses and whose id is not already attached is rejected as a
whole and changes nothing — the valid changes around it are not attached either. -/
theorem mutant_rejects_batch (H : Nat → Id) (cw : Perm → Bool) (keep : Bool) (l : Log) (t : TreeSt)
    (batch : List Raw) (m : Raw) (hm : m ∈ batch) (hnew : hasId t.attached m.id = false)
    (e : Err) (hbad : unmarshal H t.rootId m = .error e) :
    ∃ e', addRaw H cw keep l t batch = (.err e', [], t) := by
  obtain ⟨e', he'⟩ := filterNew_err hm hnew hbad
  exact ⟨e', by simp [addRaw, he']⟩

/-- a mutant that reuses the id of an attached change is ignored (never unmarshalled): alone it
changes nothing and is reported as "nothing added" -/
theorem mutant_with_attached_id_ignored (H : Nat → Id) (cw : Perm → Bool) (keep : Bool) (l : Log) (t : TreeSt)
    (m : Raw) (hold : hasId t.attached m.id = true) :
    addRaw H cw keep l t [m] = (.ok, [], t) := by
  simp [addRaw, filterNew, hold]


/-! ## all histories: the invariant of a replica's tree -/

/-- one delivered batch preserves "everything attached is authentic, storage = attached" -/
theorem add_preserves_allAuthentic (H : Nat → Id) (cw : Perm → Bool) (hcw : cw 0 = false) (keep : Bool)
    (l : Log) (hnd : (l.map (·.id)).Nodup) (t : TreeSt) (batch : List Raw)
    (hinv : AllAuthentic H cw l t) : AllAuthentic H cw l (addRaw H cw keep l t batch).2.2 := by
  rcases addRaw_shape H cw keep l t batch with ⟨ht, _⟩ | ⟨hok, hroot, cs, hatt, hadd, hst⟩
  · rw [ht]; exact hinv
  · have hacc := accept_implies_authentic H cw hcw keep l hnd t batch _ _
      (show addRaw H cw keep l t batch = (.ok, (addRaw H cw keep l t batch).2.1, (addRaw H cw keep l t batch).2.2) by
        rw [← hok])
    refine ⟨?_, ?_⟩
    · intro c hc
      rcases hacc.1 c hc with hold | ⟨raw, _, hauth⟩
      · obtain ⟨raw, hr⟩ := hinv.1 c hold
        refine ⟨raw, ?_⟩
        rw [hroot, hatt]
        have := authentic_mono hr cs []
        simpa using this
      · exact ⟨raw, by rw [hroot]; exact hauth⟩
    · rw [hst, hinv.2, hatt, hadd]; simp

/-- **every reachable state.** Start from a tree opened over a root (`CreateStorage` +
`BuildObjectTree`) and let ANY sequence of batches arrive, interleaved with ANY growth of the local
ACL log (record ids staying distinct): in every state reached, each attached change is authentic
and authorised with respect to the current log (the specification `permAt` is stable under log
growth), and the changes collection holds exactly the attached ids. Holds for both shapes of
`applyAccountsAdd`. -/
theorem reachable_all_authentic (H : Nat → Id) (cw : Perm → Bool) (hcw : cw 0 = false) (keep : Bool)
    (steps : List Step) (s : Sys) (hnd : (s.log.map (·.id)).Nodup) (hok : StepsOk s.log steps)
    (hinv : AllAuthentic H cw s.log s.tree) :
    AllAuthentic H cw (Sys.run H cw keep s steps).log (Sys.run H cw keep s steps).tree := by
  induction steps generalizing s with
  | nil => exact hinv
  | cons st rest ih =>
    simp only [Sys.run, List.foldl_cons]
    cases st with
    | add b =>
      exact ih ⟨s.log, _⟩ hnd hok (add_preserves_allAuthentic H cw hcw keep s.log hnd s.tree b hinv)
    | growAcl m =>
      refine ih ⟨s.log ++ m, s.tree⟩ hok.1 hok.2 ⟨?_, hinv.2⟩
      intro c hc
      obtain ⟨raw, hr⟩ := hinv.1 c hc
      exact ⟨raw, by simpa using authentic_mono hr [] m⟩

/-- the initial state of `reachable_all_authentic`: a freshly opened tree satisfies the invariant -/
theorem open_establishes_invariant (H : Nat → Id) (cw : Perm → Bool) (hcw : cw 0 = false) (keep : Bool)
    (l : Log) (hnd : (l.map (·.id)).Nodup) (root : Raw) (t : TreeSt)
    (h : openTree H cw keep l root = .ok t) : AllAuthentic H cw l t := by
  obtain ⟨c, hatt, hst, hroot, hauth⟩ := open_implies_authentic_root H cw hcw keep l hnd root t h
  refine ⟨?_, by rw [hst, hatt]; rfl⟩
  intro d hd
  rw [hatt] at hd ⊢
  simp only [List.mem_singleton] at hd
  subst hd
  exact ⟨root, by rw [hroot]; exact hauth⟩

/-! ## `addRaw_never_panics` for every reachable state (closes its former hypothesis) -/

/-- every attached change's previous ids are attached -/
def PrevsAttached (t : TreeSt) : Prop :=
  ∀ c ∈ t.attached, ∀ pid ∈ c.prev, hasId t.attached pid = true

/-- what a delivered batch can do to the attached set: nothing, or exactly `Tree.Add` -/
theorem addRaw_attached_shape (H : Nat → Id) (cw : Perm → Bool) (keep : Bool) (l : Log) (t : TreeSt)
    (batch : List Raw) :
    (addRaw H cw keep l t batch).2.2 = t ∨
    ∃ new, (addRaw H cw keep l t batch).2.2.attached = (treeAdd t.attached new).attached := by
  unfold addRaw
  split
  · left; rfl
  · left; rfl
  · rename_i new hne hnew
    split
    · left; rfl
    · simp only
      split
      · left; rfl
      · split
        · left; rfl
        · right; exact ⟨new, rfl⟩
    · simp only
      split
      · left; rfl
      · have inv := addInv_treeAdd t.attached new
        split
        · left
          simp only [rollback]
          rw [inv.att_eq, rollback_filter _ _ inv.added_fresh]
        · right; exact ⟨new, rfl⟩

/-- one delivered batch — accepted, rejected, rolled back, or rebuilt — preserves `PrevsAttached` -/
theorem addRaw_preserves_prevsAttached (H : Nat → Id) (cw : Perm → Bool) (keep : Bool) (l : Log) (t : TreeSt)
    (batch : List Raw) (h : PrevsAttached t) : PrevsAttached (addRaw H cw keep l t batch).2.2 := by
  rcases addRaw_attached_shape H cw keep l t batch with ht | ⟨new, hatt⟩
  · rw [ht]; exact h
  · have inv := addInv_treeAdd t.attached new
    intro c hc pid hp
    rw [hatt] at hc ⊢
    rw [inv.att_eq] at hc
    rcases List.mem_append.mp hc with hc | hc
    · rw [inv.att_eq, hasId_append, h c hc pid hp]; rfl
    · exact inv.prevs c hc pid hp

/-- `PrevsAttached` in every reachable state: any sequence of delivered batches and ACL growth -/
theorem reachable_prevsAttached (H : Nat → Id) (cw : Perm → Bool) (keep : Bool) (steps : List Step) (s : Sys)
    (hinv : PrevsAttached s.tree) : PrevsAttached (Sys.run H cw keep s steps).tree := by
  induction steps generalizing s with
  | nil => exact hinv
  | cons st rest ih =>
    simp only [Sys.run, List.foldl_cons]
    cases st with
    | add b => exact ih ⟨s.log, _⟩ (addRaw_preserves_prevsAttached H cw keep s.log s.tree b hinv)
    | growAcl m => exact ih ⟨s.log ++ m, s.tree⟩ hinv

/-- a freshly opened tree over a root without previous ids (`NewChangeFromRoot` sets none) satisfies it -/
theorem open_prevsAttached (H : Nat → Id) (cw : Perm → Bool) (keep : Bool) (l : Log) (root : Raw) (t : TreeSt)
    (h : openTree H cw keep l root = .ok t) (hroot : ∀ c ∈ t.attached, c.prev = []) : PrevsAttached t := by
  intro c hc pid hp
  rw [hroot c hc] at hp
  cases hp

/-- **addRaw_never_panics_reachable.** The nil dereference of `validateChange` (`tree.attached[id]` for
a previous id) is unreachable along EVERY history: open a tree over a root without previous ids, let
any sequence of batches arrive interleaved with any ACL growth, then deliver any further batch — the
model's `.panic` outcome never occurs. The hypothesis `hwf` of `addRaw_never_panics` is discharged by
the invariant `reachable_prevsAttached`. -/
theorem addRaw_never_panics_reachable (H : Nat → Id) (cw : Perm → Bool) (keep : Bool) (steps : List Step) (s : Sys)
    (hinv : PrevsAttached s.tree) (batch : List Raw) :
    (addRaw H cw keep (Sys.run H cw keep s steps).log (Sys.run H cw keep s steps).tree batch).1 ≠ .err .panic :=
  addRaw_never_panics H cw keep _ _ (reachable_prevsAttached H cw keep steps s hinv) batch

/-- **whole-tree admission.** A tree offered as root + changes + claimed heads
(`ValidateRawTreeDefault`, the path by which a tree received from a peer is admitted) is accepted
only if every change of the resulting tree, the root included, is authentic and authorised — even
though this path reads the root back unverified first and checks its permission before its
content id and signature. -/
theorem validateRawTree_implies_authentic (H : Nat → Id) (cw : Perm → Bool) (hcw : cw 0 = false) (keep : Bool)
    (l : Log) (hnd : (l.map (·.id)).Nodup) (root : Raw) (changes : List Raw) (heads : List Id) (t : TreeSt)
    (h : validateRawTree H cw keep l root changes heads = .ok t) : AllAuthentic H cw l t := by
  unfold validateRawTree at h
  split at h
  · cases h
  · rename_i c0 hc0
    split at h
    · cases h
    · rename_i hv
      split at h
      · cases h
      · rename_i c hu
        have hcc : c0 = c := by
          have := unmarshalNoVerify_of_unmarshal hu
          rw [hc0] at this; cases this; rfl
        subst hcc
        have hcid : c0.id = root.id := by
          obtain ⟨_, p, s, _, hc, _⟩ := unmarshal_ok hu; rw [hc]
        have hinit : AllAuthentic H cw l ⟨root.id, [c0], [root.id], [root.id], [root.id]⟩ := by
          refine ⟨?_, by simp [hcid]⟩
          intro d hd
          simp only [List.mem_singleton] at hd
          subst hd
          exact ⟨root, authentic_of_checks hcw hnd hu hv⟩
        have hpres := add_preserves_allAuthentic H cw hcw keep l hnd _ changes hinit
        split at h
        · cases h
        · cases h
        · rename_i added t' hadd
          rw [hadd] at hpres
          split at h
          · cases h
          · split at h
            · cases h
            · cases h; exact hpres

/-! ## the local path -/

/-- **AddContent (local path).** A change added locally is attached and persisted only if the signing
account can write now AND — per the specification `permAt` — at the ACL head record the change
cites, and every head it builds on is attached and cites a record that is not later. (Its id and
signature are produced by the builder itself.) -/
theorem addContent_implies_authorised (cw : Perm → Bool) (hcw : cw 0 = false) (keep : Bool) (l : Log)
    (hnd : (l.map (·.id)).Nodup) (t : TreeSt) (id : Id) (a : Acc) (added : List Id) (t' : TreeSt)
    (h : addContent cw keep l t id a = (.ok, added, t')) :
    added = [id] ∧ cw (permAfter l a) = true ∧
    ∃ c, t'.attached = t.attached ++ [c] ∧ t'.stored = t.stored ++ [id] ∧
      c.id = id ∧ c.identity = a ∧ c.prev = t.heads ∧ c.derived = false ∧
      ∃ i, idxOf l c.aclHead = some i ∧ cw (permAt l i a) = true ∧
        (c.id = t.rootId ∨ ∀ pid ∈ c.prev, ∃ pc ∈ t.attached, pc.id = pid ∧
          (pc.derived = true ∨ ∃ j, idxOf l pc.aclHead = some j ∧ j ≤ i)) := by
  unfold addContent at h
  split at h
  · cases h
  · rename_i hperm
    split at h
    · cases h
    · rename_i hd hhd
      simp only at h
      split at h
      · cases h
      · rename_i hv
        simp only [Prod.mk.injEq] at h
        obtain ⟨_, rfl, rfl⟩ := h
        refine ⟨rfl, by simpa using hperm, _, rfl, rfl, rfl, rfl, rfl, rfl, ?_⟩
        rcases validateChange_ok hcw hnd hv with hder | hrest
        · cases hder
        · exact hrest

/-- a refused local change leaves the tree and the storage untouched -/
theorem addContent_reject_is_noop (cw : Perm → Bool) (keep : Bool) (l : Log) (t : TreeSt) (id : Id) (a : Acc)
    (e : Err) (added : List Id) (t' : TreeSt) (h : addContent cw keep l t id a = (.err e, added, t')) :
    t' = t ∧ added = [] := by
  unfold addContent at h
  split at h
  · simp only [Prod.mk.injEq] at h; exact ⟨h.2.2.symm, h.2.1.symm⟩
  · split at h
    · simp only [Prod.mk.injEq] at h; exact ⟨h.2.2.symm, h.2.1.symm⟩
    · simp only at h
      split at h
      · simp only [Prod.mk.injEq] at h; exact ⟨h.2.2.symm, h.2.1.symm⟩
      · cases h

/-! ## non-vacuity: concrete runs of the model -/

namespace Ex
def log : Log := [⟨0, [.set 0 1]⟩, ⟨1, [.add 1 3]⟩, ⟨2, [.set 1 4]⟩]
def H : Nat → Id := fun b => b
def rootRaw : Raw := ⟨10, ⟨10, some (⟨100, false, 0, 0, [], 0, true⟩, .sign 0 100)⟩⟩
def rootCh : Change := ⟨10, false, 0, 0, [], 0, true⟩
def t0 : TreeSt := ⟨10, [rootCh], [10], [10], [10]⟩
/-- by account 1 while Writer (record 1) -/
def a : Raw := ⟨11, ⟨11, some (⟨101, false, 1, 1, [10], 10, false⟩, .sign 1 101)⟩⟩
/-- by account 1 after the demotion to Reader (record 2) -/
def b : Raw := ⟨12, ⟨12, some (⟨102, false, 1, 2, [11], 10, false⟩, .sign 1 102)⟩⟩
/-- `a` with the author swapped to the owner, signature kept, id recomputed -/
def aForged : Raw := ⟨13, ⟨13, some (⟨103, false, 0, 1, [10], 10, false⟩, .sign 1 101)⟩⟩
/-- cites record 0 although its parent `a` cites record 1 (signed by the owner) -/
def older : Raw := ⟨14, ⟨14, some (⟨104, false, 0, 0, [11], 10, false⟩, .sign 0 104)⟩⟩
def aCh : Change := ⟨11, false, 1, 1, [10], 10, false⟩
def t1 : TreeSt := ⟨10, [rootCh, aCh], [11], [10, 11], [11]⟩
end Ex

/-- the hypotheses of `open_implies_authentic_root` / `accept_implies_authentic` are satisfiable -/
example : openTree Ex.H cwGen false Ex.log Ex.rootRaw = .ok Ex.t0 := by rfl
example : addRaw Ex.H cwGen false Ex.log Ex.t0 [Ex.a] = (.ok, [11], Ex.t1) := by decide
/-- `reject_is_noop`, mixed batch: the valid `a` is attached by `Tree.Add`, then `b` fails
validation and the rollback removes `a` again -/
example : addRaw Ex.H cwGen false Ex.log Ex.t0 [Ex.a, Ex.b] = (.err .noPerm, [], Ex.t0) := by decide
example : addRaw Ex.H cwGen false Ex.log Ex.t0 [Ex.b, Ex.a] = (.err .noPerm, [], Ex.t0) := by decide
/-- `mutation_rejected_author` / `mutant_rejects_batch` -/
example : addRaw Ex.H cwGen false Ex.log Ex.t0 [Ex.a, Ex.aForged] = (.err .sig, [], Ex.t0) := by decide
/-- ACL-head monotonicity -/
example : addRaw Ex.H cwGen false Ex.log Ex.t1 [Ex.older] = (.err .aclOrder, [], Ex.t1) := by decide
/-- the rebuild branch: `y` names `x` (new, not a snapshot) as its snapshot → `rebuildFromStorage`;
both attach, the whole tree validates -/
def Ex.x : Raw := ⟨20, ⟨20, some (⟨120, false, 1, 1, [10], 10, false⟩, .sign 1 120)⟩⟩
def Ex.y : Raw := ⟨21, ⟨21, some (⟨121, false, 1, 1, [20], 20, false⟩, .sign 1 121)⟩⟩
/-- same, but written after the demotion (record 2): refused by the full validation -/
def Ex.yBad : Raw := ⟨22, ⟨22, some (⟨122, false, 1, 2, [20], 20, false⟩, .sign 1 122)⟩⟩
example : takesRebuild Ex.H Ex.t0 [Ex.x, Ex.y] = true := by decide
example : (addRaw Ex.H cwGen false Ex.log Ex.t0 [Ex.x, Ex.y]).1 = .ok ∧
    (addRaw Ex.H cwGen false Ex.log Ex.t0 [Ex.x, Ex.y]).2.1 = [20, 21] := by decide
/-- `reject_is_noop` on the rebuild branch -/
example : addRaw Ex.H cwGen false Ex.log Ex.t0 [Ex.x, Ex.yBad] = (.err .noPerm, [], Ex.t0) := by decide
example : (Ex.log.map (·.id)).Nodup := by decide
example : Function.Injective Ex.H := fun _ _ h => h
-- the premise of `addRaw_never_panics_reachable` is met by the opened example tree (and by the grown one)
example : PrevsAttached Ex.t0 := open_prevsAttached Ex.H cwGen false Ex.log Ex.rootRaw Ex.t0 rfl (by decide)
example : PrevsAttached Ex.t1 := by
  have h := addRaw_preserves_prevsAttached Ex.H cwGen false Ex.log Ex.t0 [Ex.a]
    (open_prevsAttached Ex.H cwGen false Ex.log Ex.rootRaw Ex.t0 rfl (by decide))
  have e : (addRaw Ex.H cwGen false Ex.log Ex.t0 [Ex.a]).2.2 = Ex.t1 := by decide
  rw [e] at h; exact h

end AnySync.Auth
