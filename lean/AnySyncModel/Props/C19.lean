/-
C19 — Outbound messaging is bounded and isolated: a stuck peer blocks nobody.

Only property theorems (and their non-vacuity examples) live here. The model is
`StreamPool/Model.lean`: a transition system whose steps are the critical sections of
`net/streampool`; a schedule is a `List Step`; `run (init w q) steps` is the state after it.
All theorems quantify over *every* schedule (any interleaving of callers, writers, closes), every
queue size, and every remote behaviour (healthy, gated = slow / blocked for ever, failing at write k).
-/
import AnySyncModel.StreamPool.Isolation
import AnySyncModel.StreamPool.MacroMicro
import AnySyncModel.StreamPool.Commute

namespace AnySync.StreamPool

/-! ## bounded buffers -/

/-- `stream.write` on a full queue drops the message with an error and leaves the stream unchanged. -/
theorem write_full_drops (s : Stream) (m : Nat) (h : s.queue.length ≥ s.cap) :
    s.tryAdd m = (s, false) := by
  unfold Stream.tryAdd
  split
  · rfl
  · split
    · rfl
    · omega

/-- …and it never drops while there is room on an open stream. -/
theorem write_room_accepts (s : Stream) (m : Nat) (hc : s.closed = false) (h : s.queue.length < s.cap) :
    (s.tryAdd m).2 = true ∧ (s.tryAdd m).1.queue = s.queue ++ [m] := by
  unfold Stream.tryAdd
  simp [hc]
  split
  · omega
  · exact ⟨rfl, rfl⟩

/-- After every schedule every stream buffers at most its configured number of messages, plus the one
message that is in flight inside `MsgSend`. -/
theorem queue_bounded (w q : Nat) (steps : List Step) :
    ∀ s ∈ (run (init w q) steps).objs,
      s.queue.length ≤ s.cap ∧ s.queue.length + s.inflight.toList.length ≤ s.cap + 1 := by
  intro s hs
  have h := obj_invariant QueueOk queueOk_fresh queueOk_step (init w q) (by simp [init]) steps s hs
  refine ⟨h, ?_⟩
  unfold QueueOk at h
  cases s.inflight <;> simp <;> omega

example : ∃ s ∈ (run (init 1 1) [.add 0 1 true 0 [0], .snapBroadcast 7 [0], .callWrite 0, .take 1,
    .snapBroadcast 8 [0], .callWrite 1, .snapBroadcast 9 [0], .callWrite 2]).objs,
    s.queue = [8] ∧ s.inflight = some 7 ∧ s.accepted = [7, 8] := by decide

/-! ## FIFO per stream -/

/-- What a stream's remote has received is a prefix of what the stream accepted, in acceptance order. -/
theorem fifo_per_stream (w q : Nat) (steps : List Step) :
    ∀ s ∈ (run (init w q) steps).objs, s.delivered <+: s.accepted := by
  intro s hs
  exact (obj_invariant FifoOk fifoOk_fresh fifoOk_step (init w q) (by simp [init]) steps s hs).2.1

/-- While the writer runs nothing is lost or reordered: accepted = delivered ++ in flight ++ buffered. -/
theorem fifo_no_loss_while_running (w q : Nat) (steps : List Step) :
    ∀ s ∈ (run (init w q) steps).objs, s.writerDone = false →
      s.accepted = s.delivered ++ s.inflight.toList ++ s.queue := by
  intro s hs
  exact (obj_invariant FifoOk fifoOk_fresh fifoOk_step (init w q) (by simp [init]) steps s hs).2.2

example : ∃ s ∈ (run (init 1 1) [.add 0 2 false 0 [0], .snapBroadcast 7 [0], .callWrite 0,
    .snapBroadcast 8 [0], .callWrite 1, .take 1, .complete 1, .take 1]).objs,
    s.delivered = [7] ∧ s.inflight = some 8 ∧ s.accepted = [7, 8] := by decide

/-! ## the three indexes describe one relation -/

/-- After every schedule `streams`, `streamIdsByPeer` and `streamIdsByTag` describe exactly the live
stream objects (each once under its peer, once per tag occurrence), and neither `log.Fatal` nor a nil
dereference of `s.streams[id]` has happened. -/
theorem indexes_consistent (w q : Nat) (steps : List Step) : IdxInv (run (init w q) steps) :=
  (IdxInv.init w q).run steps

/-- in particular the fatal path of `removeStream` is unreachable -/
theorem fatal_unreachable (w q : Nat) (steps : List Step) :
    (run (init w q) steps).fatal = false ∧ (run (init w q) steps).nilDeref = false :=
  ⟨(indexes_consistent w q steps).no_fatal, (indexes_consistent w q steps).no_nil⟩

example : (run (init 1 1) [.add 0 1 true 0 [0, 1], .add 0 2 false 0 [1], .removeTags 1 [0],
    .readClose 1, .closeRemote 1, .poolRemove 1]).byTag.get 1 = [2] := by decide

/-! ## ended streams are not targeted -/

/-- Once `removeStream` has run for a stream (any way it ended: read error, write error, handler error,
cancelled context) no index mentions it, so no later `Broadcast`, `SendById`, `Send` or `Streams`
snapshot contains it. -/
theorem closed_stream_untargeted (w q : Nat) (steps : List Step) (sid : Nat) (s : Stream)
    (hg : getObj (run (init w q) steps).objs sid = some s) (hr : s.removed = true) :
    let p := run (init w q) steps
    sid ∉ p.streams ∧ (∀ k, sid ∉ p.byPeer.get k) ∧ (∀ t, sid ∉ p.byTag.get t) ∧
    (∀ tags, sid ∉ p.broadcastIds tags) ∧ (∀ peers, sid ∉ (p.sendByIdGroups peers).flatten) ∧
    (∀ tags, sid ∉ p.streamsOf tags) := by
  intro p
  have h : IdxInv p := indexes_consistent w q steps
  have hns : sid ∉ p.streams := by
    intro hm
    have hl := (h.live sid).mp hm
    have hg' : getObj p.objs sid = some s := hg
    simp [liveOf, hg', hr] at hl
  refine ⟨hns, fun k hm => hns (h.byPeer_mem hm).1, fun t hm => hns (h.byTag_mem hm).1,
    fun tags hm => hns (h.broadcastIds_mem tags sid hm),
    fun peers hm => hns (h.sendByIdGroups_mem peers sid hm), ?_⟩
  intro tags hm
  unfold Pool.streamsOf at hm
  rw [List.mem_flatten] at hm
  obtain ⟨l, hl, hidl⟩ := hm
  rw [List.mem_map] at hl
  obtain ⟨t, _, rfl⟩ := hl
  exact hns (h.byTag_mem hidl).1

/-- A closed stream accepts nothing and delivers nothing any more, and stays closed, whatever steps
follow (callers that still hold it in an old snapshot get an error from `write`). -/
theorem closed_stream_frozen (s s' : Stream) (hc : s.closed = true) (st : ObjStep s s') :
    s'.closed = true ∧ s'.accepted = s.accepted ∧ s'.delivered = s.delivered :=
  closed_frozen s s' hc st

/-- removal is pending exactly while `closed ∧ ¬removed`, and then the `removeStream` step is enabled
for the party that closed the stream: it does not wait for anything. -/
theorem removal_enabled (p : Pool) (sid : Nat) (s : Stream) (hg : getObj p.objs sid = some s)
    (hc : s.closed = true) (hrc : s.remoteClosed = true) (hr : s.removed = false) :
    (step p (.poolRemove sid)).2 = .ok := by
  simp only [step, Pool.poolRemove, hg, hc, hr, hrc]
  simp only [Bool.not_true, Bool.false_eq_true, or_self, if_false]
  split
  · rfl
  · split <;> rfl

/-! ## callers never wait on a stream -/

/-- Every caller step is enabled in **every** state: its guard mentions no stream's writer (idle, in
flight, blocked for ever, failed), no queue level and no other caller. The only side condition is
that a `callWrite` refers to a call that exists. "Never blocks" is proved in this sense: absence of a
blocking dependency; real latency is sampled by the harness. -/
theorem caller_never_waits_on_stream (p : Pool) (st : Step) (hc : st.isCaller = true)
    (hcall : ∀ cid, st = .callWrite cid → ∃ c, p.calls.find? (fun c => c.id = cid) = some c) :
    (step p st).2 ≠ .disabled := by
  cases st <;> simp [Step.isCaller] at hc
  case add => simp [step]
  case addNoPeer => simp [step]
  case snapBroadcast => simp [step]
  case snapSendById => simp only [step, Pool.snapSendById]; split <;> simp
  case callWrite cid =>
    obtain ⟨c, hfind⟩ := hcall cid rfl
    simp only [step, Pool.callWrite, hfind]
    split <;> simp
  case addTags =>
    simp only [step, Pool.addTags]
    split
    · split <;> simp
    · simp
  case removeTags => simp only [step, Pool.removeTags]; split <;> simp
  case removeTagsById => simp only [step, Pool.removeTagsById]; split <;> simp
  case streamsQ => simp [step]
  case send => simp only [step, Pool.send]; split <;> simp

/-- A call needs at most `todo` own steps: every `callWrite` of a pending call either finishes the call
or strictly decreases its remaining work — whatever the stream it writes to does. -/
theorem call_progress (p : Pool) (cid : Nat) (c c' : Call)
    (hfind : p.calls.find? (fun c => c.id = cid) = some c)
    (hafter : (step p (.callWrite cid)).1.calls.find? (fun c => c.id = cid) = some c') :
    c'.todo < c.todo := by
  simp only [step, Pool.callWrite, hfind] at hafter
  split at hafter
  · rw [find_filter_ne] at hafter; cases hafter
  · rename_i sid hs
    simp only at hafter
    have hcalls : (p.writeTo sid c.msg).1.calls = p.calls := by
      unfold Pool.writeTo; split <;> rfl
    rw [hcalls] at hafter
    split at hafter
    · rw [find_filter_ne] at hafter; cases hafter
    · have hne' : c.groups ≠ [] := by
        intro e; rw [e] at hs; simp [nextTarget] at hs
      have hlt := advance_todo c.groups (p.writeTo sid c.msg).2 hne'
      rw [find_map_update p.calls cid c _ hfind] at hafter
      cases hafter
      simpa [Call.todo] using hlt

/-- writer and environment steps never touch the pending calls -/
theorem writer_steps_keep_calls (p : Pool) (sid : Nat) (b : Bool) :
    (step p (.take sid)).1.calls = p.calls ∧ (step p (.complete sid)).1.calls = p.calls ∧
    (step p (.ctxClose sid)).1.calls = p.calls ∧ (step p (.writerExit sid)).1.calls = p.calls ∧
    (step p (.readClose sid)).1.calls = p.calls ∧ (step p (.cancel sid)).1.calls = p.calls ∧
    (step p (.setGated sid b)).1.calls = p.calls ∧ (step p (.poolRemove sid)).1.calls = p.calls := by
  refine ⟨?_, ?_, ?_, ?_, ?_, ?_, ?_, ?_⟩
  · simp only [step, Pool.take]; split; · rfl
    split <;> rfl
  · simp only [step, Pool.complete]; split; · rfl
    split <;> rfl
  · simp only [step, Pool.ctxClose]; split; · rfl
    split <;> rfl
  · simp only [step, Pool.writerExit]; split; · rfl
    split <;> rfl
  · simp only [step, Pool.readClose]; split <;> rfl
  · simp only [step, Pool.cancel]; split <;> rfl
  · simp only [step, Pool.setGated]; split <;> rfl
  · simp only [step, Pool.poolRemove]; split; · rfl
    split; · rfl
    split; · rfl
    split <;> rfl


/-! ## the same invariants along macro schedules (what the correspondence harness executes) -/

theorem queue_bounded_macro (w q : Nat) (σ : List MStep) :
    ∀ s ∈ (mrun (init w q) σ).objs,
      s.queue.length ≤ s.cap ∧ s.queue.length + s.inflight.toList.length ≤ s.cap + 1 := by
  intro s hs
  have h := obj_invariant_m QueueOk queueOk_fresh queueOk_step (init w q) (by simp [init]) σ s hs
  refine ⟨h, ?_⟩
  unfold QueueOk at h
  cases s.inflight <;> simp <;> omega

theorem fifo_per_stream_macro (w q : Nat) (σ : List MStep) :
    ∀ s ∈ (mrun (init w q) σ).objs, s.delivered <+: s.accepted := by
  intro s hs
  exact (obj_invariant_m FifoOk fifoOk_fresh fifoOk_step (init w q) (by simp [init]) σ s hs).2.1

theorem indexes_consistent_macro (w q : Nat) (σ : List MStep) : IdxInv (mrun (init w q) σ) :=
  (IdxInv.init w q).mrun σ

/-! ## a macro step is its snapshot followed by its single writes -/

/-- **macro = micro.** In every reachable state, for every `Broadcast` call: the macro step yields the
same state as the snapshot step followed by `k` single `callWrite` steps of that call (in list order,
no other step interleaved). The only difference is the call-id counter, which the macro step does not
advance (`withBook` restores the pending calls, the counter and the flag of the reachable state). -/
theorem macro_eq_micro (w q : Nat) (steps : List Step) (m : Nat) (tags : List Nat) :
    let p := run (init w q) steps
    ∃ k, run p (.snapBroadcast m tags :: List.replicate k (.callWrite p.nextCall)) =
      (mstep p (.broadcast m tags)).withBook p.calls (p.nextCall + 1) p.nilDeref := by
  intro p
  have hi : IdxInv p := (IdxInv.init w q).run steps
  have hf : CallsFresh p := (CallsFresh.init w q).run steps
  obtain ⟨k, hk⟩ := macro_eq_micro_broadcast_any p hf m tags
  refine ⟨k, ?_⟩
  rw [hk, hi.missing_false _ (by
    intro id hid; rw [flatten_map_singleton] at hid; exact hi.broadcastIds_mem tags id hid), Bool.or_false]

/-- the same for `SendById`, together with the caller-visible result (`ErrUnableToConnect` or nil) -/
theorem macro_eq_micro_sendById (w q : Nat) (steps : List Step) (m : Nat) (peers : List Nat) :
    let p := run (init w q) steps
    (∃ k, run p (.snapSendById m peers :: List.replicate k (.callWrite p.nextCall)) =
      (mstep p (.sendById m peers)).withBook p.calls (p.nextCall + 1) p.nilDeref) ∧
    (step p (.snapSendById m peers)).2 = (p.sendByIdNow m peers).2 := by
  intro p
  have hi : IdxInv p := (IdxInv.init w q).run steps
  have hf : CallsFresh p := (CallsFresh.init w q).run steps
  obtain ⟨⟨k, hk⟩, hres⟩ := macro_eq_micro_sendById_any p hf m peers
  refine ⟨⟨k, ?_⟩, hres⟩
  rw [hk, hi.missing_false _ (hi.sendByIdGroups_mem peers), Bool.or_false]

/-- call ids are fresh in every reachable state (what makes "the call just snapshotted" unambiguous) -/
theorem calls_fresh (w q : Nat) (steps : List Step) : CallsFresh (run (init w q) steps) :=
  (CallsFresh.init w q).run steps

example : (run (init 1 1) [.add 0 1 true 0 [0], .add 1 2 false 0 [0], .snapBroadcast 7 [0], .callWrite 0,
      .callWrite 0]).objs.map (·.accepted) =
    (mstep (run (init 1 1) [.add 0 1 true 0 [0], .add 1 2 false 0 [0]]) (.broadcast 7 [0])).objs.map (·.accepted) := by
  decide

/-! ## from macro schedules to fine-grained interleavings (partial)

`queue_bounded`, `fifo_per_stream`, `indexes_consistent`, `closed_stream_untargeted` are proved directly
for every fine-grained schedule, so they need no transfer. For the isolation statement the transfer is
partial: `transfer_partial` shows that a pending single write of a call commutes with every step that
only touches another stream object (all writer / remote / close steps: `take`, `complete`, `ctxClose`,
`writerExit`, `closeRemote`, `readClose`, `cancel`, `setGated`, `setCloseBlocks`), so such steps can
be moved out from between a call's writes without changing any stream object, pending call or index.
Exact gap: commutation with the *index-changing* steps of other streams (`add`, `addTags`,
`removeTags*`, `poolRemove` — true because a snapshotted call never reads an index again, not yet
proved), with another call's `callWrite` on a different target, and with a step on the *same* target
stream (does not commute in general: the order of two writes to one stream is observable — that case
must stay, it is what FIFO is about); and the induction that bubbles a call's writes together. -/

theorem transfer_partial (p : Pool) (cid : Nat) (c : Call) (x y : Nat) (f : Stream → Stream) (st : Step)
    (hfind : p.calls.find? (fun c => c.id = cid) = some c) (hx : nextTarget c.groups = some x)
    (hst : st.objFn = some (y, f)) (hxy : y ≠ x) :
    (∀ z, getObj (step (p.callWrite cid).1 st).1.objs z = getObj ((step p st).1.callWrite cid).1.objs z) ∧
    (step (p.callWrite cid).1 st).1.calls = ((step p st).1.callWrite cid).1.calls ∧
    (step (p.callWrite cid).1 st).1.streams = ((step p st).1.callWrite cid).1.streams ∧
    (step (p.callWrite cid).1 st).1.byPeer = ((step p st).1.callWrite cid).1.byPeer ∧
    (step (p.callWrite cid).1 st).1.byTag = ((step p st).1.callWrite cid).1.byTag ∧
    (step (p.callWrite cid).1 st).1.lastId = ((step p st).1.callWrite cid).1.lastId :=
  callWrite_commutes_foreign p cid c x y f st hfind hx hst hxy

example : (Step.take 3).objFn.map (·.1) = some 3 ∧ (Step.closeRemote 2).objFn.map (·.1) = some 2 := by
  constructor <;> rfl

/-! ## closing the remote is never done under the pool lock

`streamClose` = `closed.Swap(true)`; `queue.Close()`; `stream.Close()` (step `closeRemote`: an
environment-dependent call that may take arbitrarily long or never return); and only then
`pool.removeStream` (step `poolRemove`, the critical section under `s.mu`). -/

/-- While `Close()` of a stream has not returned, its removal (the only step that runs under the pool
mutex on its behalf) has not started: the pool is untouched by the attempt. -/
theorem close_pending_blocks_only_own_removal (p : Pool) (x : Nat) (s : Stream)
    (hg : getObj p.objs x = some s) (hrc : s.remoteClosed = false) : (step p (.poolRemove x)).1 = p := by
  simp [step, Pool.poolRemove, hg, hrc]

/-- …and every caller step — for any peer, including the one whose `Close()` hangs — is still enabled
(instance of `caller_never_waits_on_stream`, which holds in every state). -/
theorem caller_never_waits_on_close (p : Pool) (x : Nat) (s : Stream) (_hg : getObj p.objs x = some s)
    (_hc : s.closed = true) (_hrc : s.remoteClosed = false) (st : Step) (hcaller : st.isCaller = true)
    (hcall : ∀ cid, st = .callWrite cid → ∃ c, p.calls.find? (fun c => c.id = cid) = some c) :
    (step p st).2 ≠ .disabled :=
  caller_never_waits_on_stream p st hcaller hcall

/-- the return of `Close()` touches nothing but the stream's own object -/
theorem close_return_local (p : Pool) (x a : Nat) (hax : a ≠ x) :
    getObj (step p (.closeRemote x)).1.objs a = getObj p.objs a ∧
    (step p (.closeRemote x)).1.streams = p.streams ∧ (step p (.closeRemote x)).1.byPeer = p.byPeer ∧
    (step p (.closeRemote x)).1.byTag = p.byTag :=
  ⟨foreign_step_frame p (.closeRemote x) a x rfl hax,
   (writer_step_keeps_pool p (.closeRemote x) x (by simp [Step.isWriterOf])).1,
   (writer_step_keeps_pool p (.closeRemote x) x (by simp [Step.isWriterOf])).2.1,
   (writer_step_keeps_pool p (.closeRemote x) x (by simp [Step.isWriterOf])).2.2.1⟩

example : ((run (init 1 1) [.add 0 1 true 0 [0], .setCloseBlocks 1 true, .readClose 1, .poolRemove 1]).streams = [1]) ∧
    ((run (init 1 1) [.add 0 1 true 0 [0], .setCloseBlocks 1 true, .readClose 1, .closeRemote 1, .poolRemove 1]).streams = []) := by
  decide

/-! ## isolation

`C19_isolation_full` is the trace-level non-interference statement; `isolation_full` proves it by the
unwinding argument of `StreamPool/Isolation.lean`. It is stated over *macro* schedules (`MStep`):
`Broadcast` / `SendById` run to completion as one step, every other step is as fine-grained as before.
Two restrictions, both about aligning two runs step by step and not about interference:
* calls are not split into snapshot + single writes (`MStep.ok`): the number of write steps of a
  call depends on how many streams it snapshotted, so two runs in which `b` was / was not yet removed
  cannot execute "the same list of steps";
* the handler opens no stream (`MStep.ok` excludes `setPlan _ (some _)`): stream ids are allocated
  globally, a stream opened for `b`'s peer in only one of the two runs would shift all later ids.
The four `isolation_*` frame theorems below hold for every fine-grained step without these restrictions. -/

/-- **Non-interference.** Take two macro schedules that differ only in the steps of `b`'s writer
goroutine and remote (when `MsgSend` returns, whether and when it fails, whether the peer context is
cancelled, how long `Close()` takes — including "never"). Then every stream `a` of another peer has the
same object — same accepted, buffered, in-flight and delivered messages, same tags, same life cycle —
after both. -/
def C19_isolation_full : Prop :=
  ∀ (w q a b pb : Nat) (σ σ' : List MStep),
    (∀ ms ∈ σ, ms.ok = true) → (∀ ms ∈ σ', ms.ok = true) →
    σ.filter (fun ms => !ms.isWriterOf b) = σ'.filter (fun ms => !ms.isWriterOf b) →
    (∀ k, peerOf (mrun (init w q) σ).objs b = some k → k = pb) →
    peerOf (mrun (init w q) σ).objs a ≠ some pb →
    getObj (mrun (init w q) σ).objs a = getObj (mrun (init w q) σ').objs a

theorem isolation_full : C19_isolation_full := by
  intro w q a b pb σ σ' hok hok' hf hb ha
  let fin := (mrun (init w q) σ).objs
  let isB : Nat → Bool := fun y => decide (peerOf fin y = some pb)
  have hr : Rel isB pb (mrun (init w q) σ) (mrun (init w q) σ') :=
    unwind b fin (fun y => by simp [isB]) hb σ (init w q) σ' (init w q) (Rel.refl _ rfl)
      (IdxInv.init w q) (IdxInv.init w q) (Ext.refl _) hok hok' hf
  exact hr.objs a (by simp [isB]; exact ha)

/-- the hypotheses are satisfiable and the conclusion is not vacuous: `b` (stream 1, peer 0) is healthy in
one run and blocked for ever, then failing, in the other; stream 2 (peer 1) receives the same messages -/
example :
    let σ  : List MStep := [.atom (.add 0 1 false 0 [0]), .atom (.add 1 1 false 0 [0]), .broadcast 7 [0],
      .atom (.take 1), .atom (.complete 1), .atom (.take 2), .atom (.complete 2), .sendById 8 [0, 1]]
    let σ' : List MStep := [.atom (.add 0 1 false 0 [0]), .atom (.add 1 1 false 0 [0]), .broadcast 7 [0],
      .atom (.take 2), .atom (.complete 2), .sendById 8 [0, 1]]
    (getObj (mrun (init 1 1) σ).objs 2).map (·.accepted) = some [7, 8] ∧
    (getObj (mrun (init 1 1) σ').objs 2).map (·.accepted) = some [7, 8] ∧
    (getObj (mrun (init 1 1) σ).objs 1).map (·.accepted) = some [7, 8] ∧
    (getObj (mrun (init 1 1) σ').objs 1).map (·.accepted) = some [7] := by decide

/-- frame 1: a writer / remote / close / removal step of stream `b` changes no other stream object -/
theorem isolation_foreign_step_frame (p : Pool) (st : Step) (a b : Nat) (hs : st.subject = some b)
    (hab : a ≠ b) : getObj (step p st).1.objs a = getObj p.objs a :=
  foreign_step_frame p st a b hs hab

/-- frame 2: a write addressed to `b` changes only `b`, and its outcome (accepted / dropped) is a function
of `b`'s own object — no other stream's queue or writer is consulted -/
theorem isolation_write_local (p : Pool) (a b m : Nat) (hab : a ≠ b) :
    getObj (p.writeTo b m).1.objs a = getObj p.objs a ∧
    getObj (p.writeTo b m).1.objs b = (getObj p.objs b).map (fun s => (s.tryAdd m).1) ∧
    (p.writeTo b m).2 = (match getObj p.objs b with
      | some s => (s.tryAdd m).2
      | none => false) :=
  ⟨writeTo_frame p a b m hab, (writeTo_local p b m).1, (writeTo_local p b m).2⟩

/-- frame 3: the writer of a stream (however slow, blocked for ever or failing) never touches an index, a
pending call or the dial pool -/
theorem isolation_writer_keeps_pool (p : Pool) (st : Step) (b : Nat) (hw : st.isWriterOf b = true) :
    (step p st).1.streams = p.streams ∧ (step p st).1.byPeer = p.byPeer ∧
    (step p st).1.byTag = p.byTag ∧ (step p st).1.calls = p.calls ∧
    (step p st).1.dialBuf = p.dialBuf ∧ (step p st).1.running = p.running ∧
    (step p st).1.lastId = p.lastId :=
  writer_step_keeps_pool p st b hw

/-- frame 4: "write to the next stream when this one is full" only happens inside one peer: every group
snapshotted by `SendById` (in every reachable pool) consists of streams of a single peer -/
theorem isolation_fallback_within_peer (w q : Nat) (steps : List Step) (peers : List Nat) :
    ∀ g ∈ (run (init w q) steps).sendByIdGroups peers,
      ∃ k, ∀ id ∈ g, peerOf (run (init w q) steps).objs id = some k :=
  groups_single_peer _ ((IdxInv.init w q).run steps) peers

example : (run (init 1 1) [.add 0 1 true 0 [0], .add 1 1 false 0 [0], .add 0 2 true 0 []]).sendByIdGroups [0, 1]
    = [[1, 3], [2]] := by decide

end AnySync.StreamPool
