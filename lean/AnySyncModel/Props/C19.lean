/-
C19 — Outbound messaging is bounded and isolated: a stuck peer blocks nobody.

Only property theorems (and their non-vacuity examples) live here.
-/
import AnySyncModel.StreamPool.Model

namespace AnySync.StreamPool

/-- `stream.write` on a full queue drops the message with an error and leaves the stream unchanged. -/
theorem write_full_drops (s : Stream) (m : Nat) (h : s.queue.length ≥ s.cap) :
    s.tryAdd m = (s, false) := by
  unfold Stream.tryAdd
  split
  · rfl
  · split
    · rfl
    · omega

end AnySync.StreamPool
