/-
C11 — Hostile or malformed peer input is rejected with an error, never a crash.

What a theorem can carry here is the hand-written byte-level logic in front of peer data; for each
modelled function the statement is `∀ input, f input ≠ .panic` (Go slice bounds / nil dereference /
division by zero are explicit `.panic` outcomes of the model) plus the size bounds the property
mentions. Guards and constants are regenerated from the Go source (`Generated/BytesConsts.lean`,
`Generated/HandshakeConsts.lean`): removing a guard in the source flips a constant and breaks the
corresponding theorem. Generated protobuf decoders, crypto primitives, snappy, SQLite and the Go
runtime are outside the model; they are exercised by the harness only.
-/
import AnySyncModel.Bytes.Lemmas
import AnySyncModel.Bytes.KeyProtoLemmas
import AnySyncModel.Handshake.Lemmas
import AnySyncModel.Ldiff.Shape

namespace AnySync.Props.C11
open AnySync.Bytes AnySync.Generated.Bytes

theorem shape_ok : shapeOk = true ∧ rangeArithShape = true ∧ edPrivSwitchShape = true := by decide

/-! ### encrypted key blobs -/

/-- `DecryptX25519` never panics; what reaches `box.Open` is a 32-byte ephemeral key and the rest.
(F-x25519-short: false before the fix — `x25519LenGuard` was false and `[] ↦ .panic`.) -/
theorem decryptX25519_total (enc : Bytes) :
    decryptX25519Split enc ≠ .panic ∧
    (∀ epk box, decryptX25519Split enc = .ok (epk, box) → epk.length = 32 ∧ enc = epk ++ box) ∧
    (enc.length < 32 → decryptX25519Split enc = .err) := by
  by_cases h : enc.length < 32
  · have : decryptX25519Split enc = .err := by
      simp [decryptX25519Split, x25519LenGuard, x25519Header, h]
    rw [this]; simp
  · have h' : 32 ≤ enc.length := by omega
    have : decryptX25519Split enc = .ok (enc.take 32, enc.drop 32) := by
      simp [decryptX25519Split, x25519LenGuard, x25519Header, h, sliceTo, sliceFrom, h']
    rw [this]
    refine ⟨by simp, ?_, fun hh => absurd hh h⟩
    intro epk box he
    simp at he
    obtain ⟨rfl, rfl⟩ := he
    simp; omega

theorem aesDecrypt_total (ct : Bytes) :
    aesSplit ct ≠ .panic ∧
    (∀ n c, aesSplit ct = .ok (n, c) → n.length = nonceBytes ∧ ct = n ++ c) ∧
    (ct.length < nonceBytes → aesSplit ct = .err) := by
  by_cases h : ct.length < 12
  · have : aesSplit ct = .err := by
      simp [aesSplit, aesLenGuard, nonceBytes, h]
    rw [this]; simp
  · have h' : 12 ≤ ct.length := by omega
    have : aesSplit ct = .ok (ct.take 12, ct.drop 12) := by
      simp [aesSplit, aesLenGuard, nonceBytes, h, sliceTo, sliceFrom, h']
    rw [this]
    refine ⟨by simp, ?_, fun hh => absurd hh (by simpa [nonceBytes] using h)⟩
    intro n c he
    simp at he
    obtain ⟨rfl, rfl⟩ := he
    simp [nonceBytes]; omega

/-- Ed25519 key decoding: length switch is total; only 32-byte strings reach the point decoder,
only 64 bytes survive as a private key -/
theorem unmarshalEd25519_total (data : Bytes) :
    edPub data ≠ .panic ∧ (∀ k, edPub data = .ok k → k.length = 32) ∧
    edPriv data ≠ .panic ∧ (∀ k, edPriv data = .ok k → k.length = 64) := by
  refine ⟨?_, ?_, ?_, ?_⟩
  · unfold edPub; split <;> simp
  · intro k h; unfold edPub at h
    simp only [edPubLenGuard, Bool.true_and, decide_eq_true_eq] at h
    split at h
    · cases h
    · rename_i hl; simp at h; subst h; omega
  · unfold edPriv slice sliceTo sliceFrom
    by_cases h96 : data.length = 96
    · simp [h96]; split <;> simp
    · simp only [h96, if_false]; split <;> simp
  · intro k h
    unfold edPriv slice sliceTo sliceFrom at h
    by_cases h96 : data.length = 96
    · simp [h96] at h
      split at h
      · simp at h; subst h; simp; omega
      · cases h
    · simp only [h96, if_false] at h
      split at h
      · rename_i h64; simp at h; subst h; exact h64
      · cases h

/-! ### a generated protobuf decoder, byte level: `cryptoproto.Key.UnmarshalVT` + `protohelpers.Skip` -/

/-- `Key.UnmarshalVT` on any bytes: no index / slice panic, and the loop budgets of the model are
never exhausted (every iteration of every loop consumes input) -/
theorem keyProto_unmarshal_total (d : Bytes) :
    KeyProto.unmarshalKey d ≠ .panic ∧ KeyProto.unmarshalKey d ≠ .fuel :=
  KeyProto.fieldsLoop_ok d (d.length + 1) ⟨0, []⟩ 0 (by omega)

/-- `crypto.UnmarshalEd25519PublicKeyProto` (decode, key-type switch, length check) is total; what
reaches the point decoder is exactly 32 bytes of a message whose type is Ed25519Public -/
theorem unmarshalEd25519PublicKeyProto_total (d : Bytes) :
    KeyProto.unmarshalEd25519PublicKeyProto d ≠ .panic ∧ KeyProto.unmarshalEd25519PublicKeyProto d ≠ .fuel ∧
    ∀ b, KeyProto.unmarshalEd25519PublicKeyProto d = .ok b → b.length = 32 := by
  obtain ⟨hp, hf⟩ := keyProto_unmarshal_total d
  unfold KeyProto.unmarshalEd25519PublicKeyProto
  cases hk : KeyProto.unmarshalKey d with
  | err => exact ⟨by simp, by simp, by intro b h; cases h⟩
  | panic => exact absurd hk hp
  | fuel => exact absurd hk hf
  | ok k =>
    simp only
    split
    · exact ⟨by simp, by simp, by intro b h; cases h⟩
    · have he := unmarshalEd25519_total k.data
      cases hpb : edPub k.data with
      | ok b => simp only; exact ⟨by simp, by simp, by intro b' h; injection h with h; subst h; exact he.2.1 b hpb⟩
      | err => exact ⟨by simp, by simp, by intro b h; cases h⟩
      | panic => exact absurd hpb he.1

/-! ### pub/sub topics and patterns -/

/-- `splitTopic` never panics and returns between 1 and `maxSegments + 1` segments (the extra one
is what makes validation reject over-long topics) -/
theorem splitTopic_total (topic : Bytes) :
    ∃ segs, splitTopic topic = .ok segs ∧ 1 ≤ segs.length ∧ segs.length ≤ maxSegments + 1 :=
  splitTopic_ok topic

theorem topic_validators_total (t : Bytes) :
    validateTopic t ≠ .panic ∧ validatePattern t ≠ .panic ∧ topicOwner t ≠ .panic := by
  obtain ⟨segs, hs, h1, _⟩ := splitTopic_ok t
  refine ⟨?_, ?_, ?_⟩
  · unfold validateTopic; rw [hs]; simp only; split <;> simp
  · unfold validatePattern; rw [hs]; simp only; split <;> simp
  · unfold topicOwner; rw [hs]; simp only
    split
    · intro hc; cases hc
    · rename_i hl
      have h0 : segs[0]? = some segs[0] := by simp
      have hl' : segs[segs.length - 1]? = some (segs[segs.length - 1]'(by omega)) := by
        simp
      rw [h0, hl']; simp only; split <;> simp

/-- accepted topics are non-empty, at most `maxTopicLen` bytes and `maxSegments` segments -/
theorem validTopic_bounded (t : Bytes) (h : validateTopic t = .ok ()) :
    0 < t.length ∧ t.length ≤ maxTopicLen := by
  obtain ⟨segs, hs, _, _⟩ := splitTopic_ok t
  unfold validateTopic at h; rw [hs] at h; simp only at h
  split at h
  · rename_i hv
    simp [validateSegments] at hv
    have h1 : t ≠ [] := hv.1.1.1.1
    have h2 := hv.1.1.1.2
    exact ⟨List.length_pos_iff.mpr h1, h2⟩
  · cases h

/-! ### space id -/

theorem validateSpaceHeader_idslice_total (id : Bytes) :
    spaceIdSplit id ≠ .panic ∧ (indexOf dot id = none → spaceIdSplit id = .err) := by
  unfold spaceIdSplit
  cases hi : indexOf dot id with
  | none => simp [spaceIdSepGuard]
  | some idx =>
    have hlt := indexOf_lt hi
    simp [sliceTo_some (Nat.le_of_lt hlt), sliceFrom_some (Nat.succ_le_of_lt hlt)]

/-! ### settings state from a hostile root -/

/-- F-settings-nil-snapshot: false before the fix (`settingsSnapshotNilSafe` was false, `none ↦ .panic`) -/
theorem settings_build_total (snapshot : Option (List Nat)) : stateFromSnapshot snapshot ≠ .panic := by
  unfold stateFromSnapshot; cases snapshot <;> simp [settingsSnapshotNilSafe]

/-! ### snappy frames -/

/-- F-snappy-declen: the buffer is grown to at most `maxSnappyExpansion × input length` (before the
fix `snappyLenGuard` was false and any announced length up to 2^32 was allocated) -/
theorem snappy_prealloc_bounded (announced inputLen : Nat) :
    snappyPrealloc announced inputLen ≠ .panic ∧
    ∀ n, snappyPrealloc announced inputLen = .ok n → n ≤ maxSnappyExpansion * inputLen := by
  unfold snappyPrealloc
  simp only [snappyLenGuard, Bool.true_and, decide_eq_true_eq]
  split
  · simp
  · rename_i h; simp; omega

/-! ### handshake frames -/

/-- `readMsg`: no panic on any byte stream / end condition / whitelist, payload ≤ sizeLimit,
single read request ≤ sizeLimit -/
theorem handshake_readMsg_total (allowed : List Nat) (s : Handshake.Bytes) (e : Handshake.End) :
    (∀ req, Handshake.readRaw allowed s e ≠ .fail .panic req) ∧
    (∀ tp p rest off, Handshake.readRaw allowed s e = .frame tp p rest off →
        p.length ≤ Generated.Handshake.sizeLimit ∧ allowed.contains tp = true) ∧
    (∀ v req, Handshake.readRaw allowed s e = .fail v req → req ≤ Generated.Handshake.sizeLimit) :=
  ⟨fun req => Handshake.readRaw_no_panic allowed s e req,
   fun _ _ _ _ h => ⟨(Handshake.readRaw_frame h).2.1, (Handshake.readRaw_frame h).1⟩,
   fun _ _ h => (Handshake.readRaw_fail_req h).1⟩

/-! ### range arithmetic -/

/-- `genTupleRanges` with a positive divide factor: no division by zero, exactly `df` ranges -/
theorem genTupleRanges_total (lo hi df : Nat) (hdf : 1 ≤ df) :
    ∃ l, genTupleRanges lo hi df = .ok l ∧ l.length = df := by
  unfold genTupleRanges
  have : df ≠ 0 := by omega
  simp only [this, if_false]
  exact ⟨_, rfl, genLoop_length _ _ _ _ _ _⟩

/-! `getBottomRange` — restated on the ldiff area's model (`Ldiff.bucketOf`, `Ldiff.childRange`,
`Ldiff.genTupleRanges`; arithmetic regenerated into `Generated/LdiffShape.lean`) after the repair of
F-ldiff-width: a range is divided only under the guard `canDivide(from, to, df)`. The lemmas of
`Ldiff/Arith.lean` / `Ldiff/Shape.lean` (`split_facts`, `bucket_closed`, `shape_tuple`,
`genTupleRanges_eq`, `canDivide_iff`) are reused, not re-proved. -/

/-- **full (guarded) statement**: for `lo ≤ hi < 2^64`, `df ≥ 2` and `canDivide lo hi df`, on every
hash of the range: `perRange ≥ 1` (no division by zero), the clamped bucket is `< df`, the tuple
`getBottomRange` looks up is that bucket's tuple of `genTupleRanges` -/
theorem bottomBucket_guarded (lo hi df h : Nat) (h1 : lo ≤ hi) (h2 : hi < Ldiff.M) (hdf : 2 ≤ df) (hM : df < Ldiff.M)
    (hc : Ldiff.canDivide lo hi df = true) (hl : lo ≤ h) (hh : h ≤ hi) :
    1 ≤ Ldiff.perRange lo hi df ∧
    ∃ b, Ldiff.bucketOf lo hi df h = some b ∧ b < df ∧
      (Generated.LdiffShape.gbFrom lo b (Ldiff.perRange lo hi df),
        if b = df - 1 then Generated.LdiffShape.gbLastTo (Generated.LdiffShape.gbTo lo b (Ldiff.perRange lo hi df)) (Ldiff.align lo hi df)
        else Generated.LdiffShape.gbTo lo b (Ldiff.perRange lo hi df)) = Ldiff.childRange lo hi df b ∧
      (Ldiff.genTupleRanges lo hi df)[b]? = some (Ldiff.childRange lo hi df b) := by
  have w : Ldiff.Wide lo hi df := ⟨h1, h2, hdf, (Ldiff.canDivide_iff lo hi df h1 h2 hdf (by omega)).1 hc⟩
  obtain ⟨hP, _, _⟩ := Ldiff.split_facts lo hi df w
  refine ⟨hP, ?_⟩
  have hb := Ldiff.bucket_closed lo hi df h w hl hh
  have hlt : (if (h - lo) / Ldiff.perRange lo hi df > df - 1 then df - 1 else (h - lo) / Ldiff.perRange lo hi df) < df := by
    split <;> omega
  refine ⟨_, hb, hlt, ?_, ?_⟩
  · obtain ⟨e1, e2⟩ := Ldiff.shape_tuple lo hi df _ w hM hlt
    exact Prod.ext e1 e2
  · rw [Ldiff.genTupleRanges_eq lo hi df w]
    simp [hlt]

/-- `getBottomRange` is only reached on divided ranges, and a range is divided only if `canDivide`
holds: `makeBottomRanges` (model `build`) … -/
theorem divided_only_if_canDivide {D} (A : Ldiff.DigAlg D) (p : Ldiff.Params) (sl : List Ldiff.Elem) (fuel lo hi c : Nat)
    (d : Option D) (kids : List (Ldiff.Tree D))
    (h : Ldiff.build A Ldiff.goSplit p sl fuel lo hi = .div c d kids) :
    Ldiff.canDivide lo hi p.df = true := by
  cases fuel with
  | zero =>
    unfold Ldiff.build at h
    split at h
    · cases h
    · simp [Ldiff.mkLeaf] at h
  | succ n =>
    unfold Ldiff.build at h
    split at h
    · rename_i hc; exact hc.2
    · simp [Ldiff.mkLeaf] at h

/-- … and `addElement` turning a leaf into a divided range (the extractor checks that the three
guards `&& canDivide(…)` / `|| !canDivide(…)` are present in the source: `Ldiff.ldiffShape_ok`) -/
theorem addElement_divides_only_if_canDivide {D} (A : Ldiff.DigAlg D) (p : Ldiff.Params) (sl : List Ldiff.Elem)
    (h f cnt lo hi c : Nat) (d0 d : Option D) (kids : List (Ldiff.Tree D))
    (hd : Ldiff.addEl A Ldiff.goSplit p sl h (f + 1) (.leaf cnt d0) lo hi = .div c d kids) :
    Ldiff.canDivide lo hi p.df = true := by
  unfold Ldiff.addEl at hd
  simp only at hd
  split at hd
  · rename_i hc; exact hc.2
  · simp [Ldiff.mkLeaf] at hd

/-- why the guard is needed (the former refutation witness): on the range [5,5] with df = 2 the
guard is false and the unguarded arithmetic divides by zero (`bucketOf = none` ⇔ Go panics) -/
theorem bottomBucket_unguarded_divides_by_zero :
    Ldiff.canDivide 5 5 2 = false ∧ Ldiff.bucketOf 5 5 2 5 = none := by
  constructor
  · unfold Ldiff.canDivide; decide
  · decide

/-! ### non-vacuity / witnesses -/

example : decryptX25519Split (List.replicate 31 0) = .err := by decide
example : decryptX25519Split (List.replicate 40 7) = .ok (List.replicate 32 7, List.replicate 8 7) := by decide
/-- "acc/x/me" -/
example : validateTopic [97, 99, 99, 47, 120, 47, 109, 101] = .ok () ∧
    topicOwner [97, 99, 99, 47, 120, 47, 109, 101] = .ok [109, 101] := by decide
/-- "a/*/>" is a pattern, "a/>/b" is not, "a//b" is neither -/
example : validatePattern [97, 47, 42, 47, 62] = .ok () ∧ validatePattern [97, 47, 62, 47, 98] = .err ∧
    validateTopic [97, 47, 47, 98] = .err := by decide
/-- "ba.a1" -/
example : spaceIdSplit [98, 97, 46, 97, 49] = .ok ([98, 97], [97, 49]) := by decide
example : spaceIdSplit [98, 97] = .err := by decide
/-- `08 00 12 02 aa bb`: Type = 0, Data = aa bb; trailing unknown group field; truncated length -/
example : KeyProto.unmarshalKey [0x08, 0x00, 0x12, 0x02, 0xaa, 0xbb] = .ok ⟨0, [0xaa, 0xbb]⟩ := by decide
example : KeyProto.unmarshalKey [0x08, 0x01, 0x1b, 0x08, 0x05, 0x1c] = .ok ⟨1, []⟩ := by decide
example : KeyProto.unmarshalKey [0x12, 0x05, 0xaa] = .err := by decide
example : genTupleRanges 0 99 4 = .ok [⟨0, 24⟩, ⟨25, 49⟩, ⟨50, 74⟩, ⟨75, 99⟩] := by decide

end AnySync.Props.C11
