/-
C01 — replicas of an object tree converge under any message schedule.

Abstract layer (`Sync/Net.lean`): a replica is the finite set of changes it stores, inside one global
DAG; messages are head updates, full-sync requests and response batches; the schedule is an
arbitrary list of operations (local add, deliver by id, drop, duplicate, SyncWithPeer).  Every
theorem below quantifies over all numbers of replicas and all schedules.  `step` validates each
operation against the protocol rules (Net.lean header), so "every run" means "every run in which
each replica follows the rules with *any* admissible resolution" — the real code's resolution is
checked to be admissible, step by step, by the correspondence run (`corr sync`).

Only property theorems (and their non-vacuity examples) live here.
-/
import AnySyncModel.Sync.LoaderBridge

namespace AnySync.Sync

/-- reachable from `n` replicas holding the root, by any schedule -/
def Reachable (n : Nat) (s : State) : Prop := ∃ ops, run (init n) ops = some s

theorem reachable_inv {n : Nat} {s : State} (h : Reachable n s) : Inv s := by
  obtain ⟨ops, hr⟩ := h
  exact inv_run _ _ ops (inv_init n) hr

/-! ## safety: never hold or advertise a change whose ancestors are not held -/

/-- In every reachable state, under any schedule and for any number of replicas: every replica
holds all ancestors of every change it holds, and for every message in flight the sender holds all
ancestors of every head and every change the message advertises. -/
theorem closed_always (n : Nat) (s : State) (h : Reachable n s) :
    (∀ r c a, c ∈ s.get r → AncEq s.dag a c → a ∈ s.get r) ∧
    (∀ p ∈ s.net, ∀ c, c ∈ p.2.heads ∨ c ∈ p.2.changes → ∀ a, AncEq s.dag a c → a ∈ s.get p.2.src) := by
  have hi := reachable_inv h
  refine ⟨fun r c a hc ha => ancEq_closed (hi.closed r) ha hc, ?_⟩
  intro p hp c hc a ha
  have hm := hi.msgs p hp
  have hc' : c ∈ p.2.have_ := hc.elim (hm.heads_have c) (hm.changes_have c)
  exact hm.have_held a (ancEq_closed hm.have_closed ha hc')

/-- The same, in the one-step form used by the harness oracle: stored sets are closed under
`parents`, advertised ids are stored by the sender. -/
theorem closed_always_parents (n : Nat) (s : State) (h : Reachable n s) :
    (∀ r, Closed s.dag (s.get r)) ∧
    (∀ p ∈ s.net, ∀ c, c ∈ p.2.heads ∨ c ∈ p.2.changes → c ∈ s.get p.2.src) := by
  have hi := reachable_inv h
  refine ⟨hi.closed, fun p hp c hc => ?_⟩
  have hm := hi.msgs p hp
  exact hm.have_held c (hc.elim (hm.heads_have c) (hm.changes_have c))

/-- The heads announced by a head update or a request are exactly the maximal elements of the set
the sender held when it sent the message (and that set is still held). -/
theorem heads_are_maximal (n : Nat) (s : State) (h : Reachable n s) :
    ∀ p ∈ s.net, p.2.kind ≠ .resp →
      (∀ c, c ∈ p.2.heads ↔ (c ∈ p.2.have_ ∧ ∀ d ∈ p.2.have_, c ∉ parents s.dag d)) ∧
      (∀ c ∈ p.2.have_, c ∈ s.get p.2.src) := by
  intro p hp hk
  have hi := reachable_inv h
  have hm := hi.msgs p hp
  refine ⟨fun c => ?_, hm.have_held⟩
  rw [hm.heads_max hk c, mem_heads]
  constructor
  · rintro ⟨_, h1, h2⟩; exact ⟨h1, h2⟩
  · rintro ⟨h1, h2⟩; exact ⟨hi.bounded _ c (hm.have_held c h1), h1, h2⟩

/-- what a replica itself would announce: `heads` are the maximal elements of its set -/
theorem heads_spec (g : Dag) (S : List Nat) (c : Nat) :
    c ∈ heads g S ↔ c < g.length ∧ c ∈ S ∧ ∀ d ∈ S, c ∉ parents g d := mem_heads

/-- No step of any kind ever removes a change from a replica. -/
theorem sets_only_grow (s s' : State) (op : Op) (h : step s op = some s') :
    ∀ r x, x ∈ s.get r → x ∈ s'.get r := (step_facts h).2.1

theorem sets_only_grow_run (s s' : State) (ops : List Op) (h : run s ops = some s') :
    ∀ r x, x ∈ s.get r → x ∈ s'.get r := (run_facts h).2

/-- The receiver rule: what is stored after receiving a batch `C` is an ancestor-closed set between
the old set and old ∪ `C`, and it contains every offered change whose ancestors are all held or
offered (so a batch that keeps the set closed is applied completely, otherwise exactly the
attachable part is kept). -/
theorem receive_keeps_attachable (g : Dag) (S C : List Nat) (hwf : WF g) (hS : Closed g S) :
    Closed g (attach g S C) ∧ (∀ x, x ∈ S → x ∈ attach g S C) ∧
    (∀ x, x ∈ attach g S C → x ∈ S ∨ x ∈ C) ∧
    ((∀ c ∈ C, ∀ p ∈ parents g c, p ∈ S ∨ p ∈ C) → ∀ c ∈ C, c < g.length → c ∈ attach g S C) :=
  ⟨attach_closed g S C hS, attach_mono g S C,
   fun x hx => (attach_sub g S C x hx).imp id (·.2), attach_complete g S C hwf⟩

/-! ## liveness: one exchange joins two replicas; a fair phase makes all replicas equal -/

/-- `antiEntropy r q` (SyncWithPeer, request, response, counter-request, response — five ordinary
steps with the reference resolution) always succeeds from a reachable state, changes only `r` and
`q`, and leaves both holding exactly the union of what they held. -/
theorem antiEntropy_joins (n : Nat) (s : State) (h : Reachable n s) (r q : Nat)
    (hr : r < s.n) (hq : q < s.n) (hne : r ≠ q) :
    ∃ s', antiEntropy s r q = some s' ∧
      (∀ x, x ∈ s'.get r ↔ x ∈ s.get r ∨ x ∈ s.get q) ∧
      (∀ x, x ∈ s'.get q ↔ x ∈ s.get r ∨ x ∈ s.get q) ∧
      (∀ z, z ≠ r → z ≠ q → s'.get z = s.get z) := by
  obtain ⟨s', hs, _, h1, h2, h3⟩ := antiEntropy_spec s r q (reachable_inv h) hr hq hne
  exact ⟨s', hs, h1, h2, h3⟩

/-- **Any admissible response stream joins.**  Whatever answer `step` accepts for a full-sync
request (any batching, any cut — in particular the answers of the real responder, which the
correspondence run validates with this very predicate): a requester that still holds what it held
when it asked (`hv`; sets only grow) and applies the batches in order ends up holding everything the
responder held, stays ancestor-closed, and gains nothing but the responder's changes. -/
theorem response_stream_joins (g : Dag) (S hv T : List Nat) (resps : List (List Nat × List Nat))
    (hwf : WF g) (hbS : Bounded g S) (hT : Closed g T) (hhv : ∀ x ∈ hv, x ∈ T)
    (hvalid : validResps g S hv resps = true) :
    (∀ x ∈ S, x ∈ applyBatches g T resps) ∧ Closed g (applyBatches g T resps) ∧
    (∀ x, x ∈ applyBatches g T resps → x ∈ T ∨ x ∈ S) := by
  simp only [validResps, Bool.and_eq_true, mem_hasAll, List.all_eq_true] at hvalid
  obtain ⟨⟨⟨_, hheld⟩, hcum⟩, hcomplete⟩ := hvalid
  have hsub : ∀ x ∈ batchChanges resps, x ∈ S := by
    intro x hx
    simp only [batchChanges, List.mem_flatMap] at hx
    obtain ⟨hc, hmem, hxc⟩ := hx
    exact (hheld hc hmem).2 x hxc
  refine ⟨?_, applyBatches_closed g T resps hT, ?_⟩
  · intro x hx
    apply applyBatches_complete g hwf hv T resps hhv (fun y hy => hbS y (hsub y hy)) hcum
    exact List.mem_append.1 (hcomplete x hx)
  · intro x hx
    exact (applyBatches_sub g T resps x hx).imp id (hsub x)

/-- The reference resolution of any delivery is accepted by `step` in every reachable state: the
validation in `step` never rejects the protocol itself (non-vacuity of "every run"). -/
theorem reference_protocol_accepted (n : Nat) (s : State) (h : Reachable n s) (mid : Nat) (m : Msg)
    (hf : findMsg s mid = some m) : ∃ s', step s (canonDeliver s mid) = some s' := by
  have hi := reachable_inv h
  by_cases hk : m.kind = .req
  · obtain ⟨s', hs, _⟩ := canon_req s mid m hi hf hk; exact ⟨s', hs⟩
  · obtain ⟨s', hs, _⟩ := canon_changes s mid m hi hf hk; exact ⟨s', hs⟩

/-- **Convergence.** From any reachable state, after any phase without local adds — arbitrary
deliveries, drops, duplications, further `SyncWithPeer` calls, in any order, the network need not
even be empty — in which every unordered pair of replicas completed at least one exchange
(initiated by either side, in any order): all replicas hold the same set, namely everything any
replica held when the phase started, and therefore announce the same heads. -/
theorem converge (n : Nat) (s s' : State) (ops : List PhaseOp) (h : Reachable n s)
    (hrun : runPhase s ops = some s')
    (hfair : ∀ a b, a < s.n → b < s.n → a ≠ b → (PhaseOp.ae a b ∈ ops ∨ PhaseOp.ae b a ∈ ops)) :
    ∀ a b, a < s.n → b < s.n →
      (∀ x, x ∈ s'.get a ↔ x ∈ s'.get b) ∧ (∀ x, x ∈ s'.get a ↔ Held s x) ∧
      heads s'.dag (s'.get a) = heads s'.dag (s'.get b) := by
  have hi := reachable_inv h
  have k := runPhase_keeps hi hrun
  have all : ∀ a, a < s.n → ∀ x, x ∈ s'.get a ↔ Held s x := by
    intro a ha x
    constructor
    · exact k.noNew a x
    · rintro ⟨c, hc, hx⟩
      by_cases hca : c = a
      · subst hca; exact k.mono c x hx
      · exact runPhase_spread hi hrun c a (hfair c a hc ha hca) x hx
  intro a b ha hb
  have hab : ∀ x, x ∈ s'.get a ↔ x ∈ s'.get b := fun x => (all a ha x).trans (all b hb x).symm
  exact ⟨hab, all a ha, heads_congr _ _ _ hab⟩

/-- the phase named in the property text — every unordered pair, twice over — is such a phase -/
theorem converge_all_pairs_twice (n : Nat) (s s' : State) (pairs : List (Nat × Nat))
    (h : Reachable n s)
    (hpairs : ∀ a b, a < s.n → b < s.n → a ≠ b → ((a, b) ∈ pairs ∨ (b, a) ∈ pairs))
    (hrun : runPhase s ((pairs ++ pairs).map (fun p => PhaseOp.ae p.1 p.2)) = some s') :
    ∀ a b, a < s.n → b < s.n → (∀ x, x ∈ s'.get a ↔ x ∈ s'.get b) ∧
      heads s'.dag (s'.get a) = heads s'.dag (s'.get b) := by
  intro a b ha hb
  have := converge n s s' _ h hrun (by
    intro a b ha hb hab
    rcases hpairs a b ha hb hab with hp | hp
    · exact Or.inl (List.mem_map.2 ⟨(a, b), List.mem_append_left _ hp, rfl⟩)
    · exact Or.inr (List.mem_map.2 ⟨(b, a), List.mem_append_left _ hp, rfl⟩)) a b ha hb
  exact ⟨this.1, this.2.2⟩

/-! ## the concrete responder: cut at the common snapshot

The real responder (`ChangesAfterCommonSnapshotLoader`) does not send "my set minus the known
ancestors of your heads": it additionally leaves out everything stored *before the common snapshot*
`cs` of the two snapshot paths.  `Sync/Snapshot.lean` adds snapshot bases and per-replica in-memory
roots to the abstract model (`SState`, `sstep`): a local add cites the adder's root, a snapshot
add becomes the root, a delivery may move the receiver's root to any held snapshot on the chain of
all its heads (validated).  The snapshot invariant Inv-S is proved for every reachable state, and
the hypothesis of `concrete_response_partial` is derived from it. -/

/-- reachable in the annotated model -/
def SReachable (n : Nat) (ss : SState) : Prop := ∃ ops, srun (sinit n) ops = some ss

/-- **Inv-S always**: in every reachable state of the annotated model (any replica count, any
schedule): the base of a change is an ancestor-or-equal of it; every ancestor-or-equal of a change
is comparable with its base; every replica's root is held and lies on the snapshot chain of each of
its heads; and the message-level invariant `Inv` (closure etc.) holds. -/
theorem invS_always (n : Nat) (ss : SState) (h : SReachable n ss) :
    SnapInv ss.base.dag ss.sn ∧ (∀ r, r < ss.base.n → RootOk ss.base.dag ss.sn (ss.base.get r) (ss.root r)) ∧
    Inv ss.base := by
  obtain ⟨ops, hr⟩ := h
  have := sinv_srun _ _ ops (sinv_init n) hr
  exact ⟨this.snap, this.rootOk, this.inv⟩

/-- the annotated model only adds ghost information: its runs project to runs of the base model -/
theorem sreachable_reachable (n : Nat) (ss : SState) (h : SReachable n ss) : Inv ss.base :=
  (invS_always n ss h).2.2

/-- **What is cut is held.**  In a reachable state, for a responder `r` and a requester `q` and a
snapshot `cs` on both snapshot paths (the chains from their roots): every change `r` holds that is
not at/after `cs` is held by `q`.  (The time-shifted form — requester's set taken when it asked —
is `cut_held`, which only needs the requester's set to be closed and to contain its then root.) -/
theorem cut_is_held (n : Nat) (ss : SState) (h : SReachable n ss) (r q cs : Nat)
    (hr : r < ss.base.n) (hq : q < ss.base.n)
    (hcr : OnChain ss.sn (ss.root r) cs) (hcq : OnChain ss.sn (ss.root q) cs) :
    ∀ x ∈ ss.base.get r, ¬ AncEq ss.base.dag cs x → x ∈ ss.base.get q := by
  obtain ⟨hs, hroot, hi⟩ := invS_always n ss h
  have hrq := hroot q hq
  exact cut_held hi.wf hs (hi.bounded r) (hroot r hr) hcr (hi.closed q) hrq.1
    (hi.bounded q _ hrq.1) hcq

/-- full statement of the responder's cut: for sets and roots satisfying Inv-S (i.e. for all
reachable states, `invS_always`), an answer that leaves out, besides the known ancestors of the
requester's heads, any changes that are not at/after a snapshot `cs` common to both snapshot paths is
admissible. -/
def C01_concrete_response_full : Prop :=
  ∀ (g : Dag) (sn S hv H cut : List Nat) (rr rq cs : Nat), WF g → SnapInv g sn →
    Closed g S → Bounded g S → RootOk g sn S rr → OnChain sn rr cs →
    Closed g hv → rq ∈ hv → rq < g.length → OnChain sn rq cs → (∀ x ∈ H, x ∈ hv) →
    (∀ x ∈ cut, ¬ AncEq g cs x) →
    validResps g S hv [(heads g S, (respond g S H).filter (fun c => !cut.contains c))] = true

/-- proved part with the raw hypothesis: admissible whenever what was cut is held by the requester -/
theorem concrete_response_partial (g : Dag) (S hv H cut : List Nat) (hS : Closed g S)
    (hb : Bounded g S) (hhv : Closed g hv) (hH : ∀ x ∈ H, x ∈ hv)
    (hcut : ∀ x ∈ cut, x ∈ S → x ∈ hv) :
    validResps g S hv [(heads g S, (respond g S H).filter (fun c => !cut.contains c))] = true := by
  have key : ∀ x, x ∈ S → x ∈ (respond g S H).filter (fun c => !cut.contains c) ∨ x ∈ hv := by
    intro x hx
    rcases respond_omits g S H hv hhv hH x hx (hb x hx) with h | h
    · by_cases hc : x ∈ cut
      · exact Or.inr (hcut x hc hx)
      · exact Or.inl (List.mem_filter.2 ⟨h, by simpa using hc⟩)
    · exact Or.inr h
  simp only [validResps, List.isEmpty_cons, Bool.not_false, List.all_cons, List.all_nil, Bool.and_true,
    Bool.true_and, cumClosed, batchChanges, List.flatMap_cons, List.flatMap_nil, List.append_nil,
    Bool.and_eq_true, mem_hasAll, closedRel, List.all_eq_true]
  refine ⟨⟨⟨fun x hx => (mem_heads.1 hx).2.1, fun x hx => (mem_respond.1 (List.mem_filter.1 hx).1).2.1⟩, ?_⟩, ?_⟩
  · intro x hx p hp
    have hxS := (mem_respond.1 (List.mem_filter.1 hx).1).2.1
    rcases key p (hS x hxS p hp) with h | h
    · exact List.mem_append_right _ h
    · exact List.mem_append_left _ h
  · intro x hx
    rcases key x hx with h | h
    · exact List.mem_append_right _ h
    · exact List.mem_append_left _ h

/-- the hypothesis is discharged from Inv-S: the full statement holds -/
theorem concrete_response_full_holds : C01_concrete_response_full := by
  intro g sn S hv H cut rr rq cs hwf hs hS hb hr hcr hhv hrq hrqb hcq hH hcut
  apply concrete_response_partial g S hv H cut hS hb hhv hH
  intro x hxc hxS
  exact cut_held hwf hs hb hr hcr hhv hrq hrqb hcq x hxS (hcut x hxc)

/-- **The loader of the `tree` area gives an admissible answer.**  `AnySync.Tree.respond` (C09: the
stored sequence from the common snapshot on, minus the marked ancestors of the requester's heads,
cut into batches of at most `max` bytes) — read as abstract response batches — is causally closed
batch by batch, complete for the requester and made of held changes, for sets and roots satisfying
Inv-S, when `cache` is the responder's stored sequence at/after `cs` (`CacheOf`) in a linear
extension of the DAG (`LinExt`, C06).  These are the substantive conjuncts of `validResps`
(non-emptiness and "announced heads are held" are C09 `heads_consistent`). -/
theorem loader_answer_admissible (g : Dag) (sn S hv H : List Nat) (rr rq cs : Nat)
    (cache : List AnySync.Tree.SChange) (max : Nat) (hwf : WF g) (hs : SnapInv g sn)
    (hS : Closed g S) (hb : Bounded g S) (hr : RootOk g sn S rr) (hcr : OnChain sn rr cs)
    (hhv : Closed g hv) (hrq : rq ∈ hv) (hrqb : rq < g.length) (hcq : OnChain sn rq cs)
    (hH : ∀ x ∈ H, x ∈ hv) (hc : CacheOf g S cs cache) (hlin : AnySync.Tree.LinExt cache) :
    cumClosed g hv (toResps (AnySync.Tree.respond cache H max)) = true ∧
    hasAll (hv ++ batchChanges (toResps (AnySync.Tree.respond cache H max))) S = true ∧
    (∀ b ∈ toResps (AnySync.Tree.respond cache H max), ∀ x ∈ b.2, x ∈ S) :=
  loader_valid g S hv H cs cache max hS hhv hH hc hlin
    (cut_held hwf hs hb hr hcr hhv hrq hrqb hcq)

/-! ## non-vacuity -/

/-- a concrete schedule: concurrent adds, a lost head update, a missing-parent delivery that
triggers a full sync, a duplicated request — the run is accepted and ends diverged … -/
def demoOps : List Op :=
  [ .add 0 1 [0], .add 1 2 [0], .add 0 3 [1],
    .drop 0,                       -- replica 1 never sees change 1 directly
    .deliver 2 false true [],      -- head update {3} at replica 1: cannot attach, asks
    .deliver 1 true false [],      -- head update {2} at replica 0: attaches, forwards (empty to 1)
    .dup 3 ]

example : (run (init 2) demoOps).map (fun s => (s.sets, s.net.map (·.1))) =
    some ([[0, 1, 3, 2], [0, 2]], [3, 4, 5]) := by decide

/-- … and one exchange joins the two replicas -/
example : ((run (init 2) demoOps).bind (fun s => antiEntropy s 1 0)).map
    (fun s => (canon s.dag (s.get 0), canon s.dag (s.get 1), heads s.dag (s.get 0), heads s.dag (s.get 1))) =
    some ([0, 1, 2, 3], [0, 1, 2, 3], [2, 3], [2, 3]) := by decide

/-- a two-batch answer that is admissible, applied in order — and the same batches in the wrong
order, where only the first batch's change attaches later -/
example : validResps [[], [0], [1]] [0, 1, 2] [0] [([1], [1]), ([2], [2])] = true ∧
    applyBatches [[], [0], [1]] [0] [([1], [1]), ([2], [2])] = [0, 1, 2] ∧
    applyBatches [[], [0], [1]] [0] [([2], [2]), ([1], [1])] = [0, 1] := by decide

/-- the annotated model: a plain change, a snapshot, both delivered; the receiver's root follows to
the snapshot; a root that is not on the chain of the heads (change 1 is no snapshot base of 2) is
rejected -/
example : (srun (sinit 2) [.add 0 1 [0] false, .add 0 2 [1] true,
      .deliver 0 true false [] 0, .deliver 1 true false [] 2]).map
      (fun ss => (ss.sn, ss.roots, ss.base.sets)) = some ([0, 0, 0], [2, 2], [[0, 1, 2], [0, 1, 2]]) ∧
    (srun (sinit 2) [.add 0 1 [0] false, .add 0 2 [1] true,
      .deliver 0 true false [] 0, .deliver 1 true false [] 1]).isNone = true := by decide

/-- a resolution that omits a required request is rejected -/
example : run (init 2) [.add 0 1 [0], .add 0 2 [1], .drop 0, .deliver 1 false false []] = none := by
  decide

/-- a response that leaves out a change the requester lacks is rejected -/
example : (run (init 2) [.add 0 1 [0], .add 0 2 [1], .drop 0, .drop 1, .sync 1 0,
    .deliver 2 false true [([2], [2])]]).isNone = true := by decide

end AnySync.Sync
