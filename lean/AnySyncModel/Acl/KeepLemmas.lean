/-
Lemmas about the byte-level model of the keep-only-ours partial decode (`Acl/KeepBytes.lean`):
bounds of the protowire readers, safety (no panic, no hang) of every loop of the fast path.
-/
import AnySyncModel.Acl.KeepBytes

namespace AnySync.Acl.Keep
open Fast

/-- neither a Go panic nor a non-terminating loop -/
def Res.Safe {α : Type} (r : Res α) : Prop := r ≠ .panic ∧ r ≠ .hang

theorem pwVarintAux_bounds : ∀ (b : Bytes) (k acc : Nat) (v : Nat) (n : Int),
    k ≤ 9 → pwVarintAux k b acc = (v, n) → 0 ≤ n → (k : Int) + 1 ≤ n ∧ n ≤ (k : Int) + b.length := by
  intro b
  induction b with
  | nil => intro k acc v n hk h hn; simp [pwVarintAux] at h; omega
  | cons x rest ih =>
    intro k acc v n hk h hn
    simp only [pwVarintAux] at h
    split at h
    · split at h
      · injection h with h1 h2; subst h2; simp only [List.length_cons]; omega
      · injection h with h1 h2; subst h2; omega
    · split at h
      · injection h with h1 h2; subst h2; simp only [List.length_cons]; omega
      · have := ih (k + 1) _ v n (by omega) h hn
        simp only [List.length_cons]; omega

theorem pwVarint_bounds (b : Bytes) (v : Nat) (n : Int) (h : pwVarint b = (v, n)) (hn : 0 ≤ n) :
    1 ≤ n ∧ n ≤ b.length := by
  have := pwVarintAux_bounds b 0 0 v n (by omega) h hn
  omega

theorem pwTag_bounds (b : Bytes) (num typ : Nat) (n : Int) (h : pwTag b = (num, typ, n)) (hn : 0 ≤ n) :
    1 ≤ n ∧ n ≤ b.length := by
  unfold pwTag at h
  generalize hv : pwVarint b = vn at h
  obtain ⟨v, n0⟩ := vn
  simp only at h
  split at h
  · injection h with _ h; injection h with _ h; omega
  · split at h
    · injection h with _ h; injection h with _ h; omega
    · split at h
      · injection h with _ h; injection h with _ h; omega
      · injection h with _ h; injection h with _ h; subst h
        exact pwVarint_bounds b v n0 hv hn

theorem pwBytes_bounds (b : Bytes) (p : Bytes) (n : Int) (h : pwBytes b = (p, n)) (hn : 0 ≤ n) :
    1 ≤ n ∧ n ≤ b.length := by
  unfold pwBytes at h
  generalize hv : pwVarint b = vn at h
  obtain ⟨m, n0⟩ := vn
  simp only at h
  split at h
  · injection h with _ h; omega
  · rename_i hn0
    have hb := pwVarint_bounds b m n0 hv (by omega)
    split at h
    · injection h with _ h; omega
    · rename_i hm
      injection h with _ h; subst h
      simp only [List.length_drop] at hm
      omega

theorem sliceFrom_some (d : Bytes) (i : Int) (h0 : 0 ≤ i) (h1 : i ≤ d.length) :
    sliceFrom d i = some (d.drop i.toNat) := by
  simp [sliceFrom, h0, h1]

theorem drop_len (d : Bytes) (i : Int) (h0 : 0 ≤ i) (h1 : i ≤ d.length) :
    ((d.drop i.toNat).length : Int) = (d.length : Int) - i := by
  have hi : (i.toNat : Int) = i := Int.toNat_of_nonneg h0
  have : i.toNat ≤ d.length := by omega
  rw [List.length_drop, Int.ofNat_sub this]; omega

/-- inside bounds `readTag` neither panics nor hangs, and a successful read moves strictly forward
and stays inside the buffer -/
theorem readTag_spec (d : Bytes) (i : Int) (h0 : 0 ≤ i) (h1 : i ≤ d.length) :
    (readTag d i).Safe ∧ ∀ f wt ni, readTag d i = .ok (f, wt, ni) → i < ni ∧ ni ≤ d.length := by
  have hlen := drop_len d i h0 h1
  unfold readTag
  rw [sliceFrom_some d i h0 h1]
  simp only
  generalize ht : pwTag (d.drop i.toNat) = t at *
  obtain ⟨num, typ, n⟩ := t
  simp only
  by_cases hc : n < 0 ∨ typ = 3 ∨ typ = 4
  · simp only [hc, if_true]
    exact ⟨⟨by simp, by simp⟩, by intro f wt ni h; cases h⟩
  · simp only [hc, if_false]
    refine ⟨⟨by simp, by simp⟩, ?_⟩
    intro f wt ni h
    injection h with h; injection h with _ h; injection h with _ h; subst h
    have hn : 0 ≤ n := by
      by_cases hlt : n < 0
      · exact absurd (Or.inl hlt) hc
      · omega
    have := pwTag_bounds _ num typ n ht hn
    omega

theorem readBytes_spec (d : Bytes) (i : Int) (h0 : 0 ≤ i) (h1 : i ≤ d.length) :
    (readBytes d i).Safe ∧ ∀ p ni, readBytes d i = .ok (p, ni) → i < ni ∧ ni ≤ d.length := by
  have hlen := drop_len d i h0 h1
  unfold readBytes
  rw [sliceFrom_some d i h0 h1]
  simp only
  generalize ht : pwBytes (d.drop i.toNat) = t at *
  obtain ⟨p0, n⟩ := t
  simp only
  by_cases hc : n < 0
  · simp only [hc, if_true]
    exact ⟨⟨by simp, by simp⟩, by intro p ni h; cases h⟩
  · simp only [hc, if_false]
    refine ⟨⟨by simp, by simp⟩, ?_⟩
    intro p ni h
    injection h with h; injection h with _ h; subst h
    have := pwBytes_bounds _ p0 n ht (by omega)
    omega

/-- a loop whose body is safe is safe, given enough fuel for the remaining bytes -/
theorem fieldLoop_safe {σ : Type} (step : Nat → Bytes → σ → Res σ)
    (hstep : ∀ f b s, (step f b s).Safe) (d : Bytes) :
    ∀ (fuel : Nat) (i : Int) (st : σ), 0 ≤ i → i ≤ d.length → (d.length : Int) - i < fuel →
      (fieldLoop step d fuel i st).Safe := by
  intro fuel
  induction fuel with
  | zero => intro i st h0 h1 hf; omega
  | succ fuel ih =>
    intro i st h0 h1 hf
    unfold fieldLoop
    split
    · exact ⟨by simp, by simp⟩
    · have ⟨hs, hb⟩ := readTag_spec d i h0 h1
      split
      · exact absurd ‹_› hs.1
      · exact absurd ‹_› hs.2
      · exact ⟨by simp, by simp⟩
      · rename_i f wt ni hrt
        have ⟨g1, g2⟩ := hb f wt ni hrt
        split
        · exact ⟨by simp, by simp⟩
        · have ⟨hs2, hb2⟩ := readBytes_spec d ni (by omega) g2
          split
          · exact absurd ‹_› hs2.1
          · exact absurd ‹_› hs2.2
          · exact ⟨by simp, by simp⟩
          · rename_i body ni2 hrb
            have ⟨k1, k2⟩ := hb2 body ni2 hrb
            split
            · exact ih ni2 _ (by omega) k2 (by omega)
            · rename_i r hne
              have := hstep f body st
              exact this

theorem runLoop_safe {σ : Type} (step : Nat → Bytes → σ → Res σ)
    (hstep : ∀ f b s, (step f b s).Safe) (d : Bytes) (st : σ) : (runLoop step d st).Safe :=
  fieldLoop_safe step hstep d (d.length + 1) 0 st (by omega) (by omega) (by omega)

theorem safe_ok {α : Type} (a : α) : (Res.ok a).Safe := ⟨by simp, by simp⟩
theorem safe_bail {α : Type} : (Res.bail : Res α).Safe := ⟨by simp, by simp⟩

theorem erkStep_safe (f : Nat) (b : Bytes) (s : Bytes × Bool × Bool) : (erkStep f b s).Safe := by
  unfold erkStep
  repeat' split
  all_goals first | exact safe_ok _ | exact safe_bail

theorem erkMatches_safe (isOurs : Bytes → Bool) (e : Bytes) : (erkMatches isOurs e).Safe := by
  have h := runLoop_safe erkStep erkStep_safe e ([], false, false)
  unfold erkMatches
  split
  · exact safe_ok _
  · exact safe_bail
  · rename_i heq; exact absurd heq h.1
  · rename_i heq; exact absurd heq h.2

theorem rkcStep_safe (dec : ErkDecoder) (isOurs : Bytes → Bool) (f : Nat) (b : Bytes)
    (s : RKC × Bool × Bool × Bool) : (rkcStep dec isOurs f b s).Safe := by
  have hm := erkMatches_safe isOurs b
  obtain ⟨out, sm, se, so⟩ := s
  unfold rkcStep
  simp only
  repeat' split
  all_goals first
    | exact safe_ok _
    | exact safe_bail
    | (rename_i heq; exact absurd heq hm.1)
    | (rename_i heq; exact absurd heq hm.2)

theorem keepRkc_safe (dec : ErkDecoder) (isOurs : Bytes → Bool) (d : Bytes) : (keepRkc dec isOurs d).Safe := by
  have h := runLoop_safe (rkcStep dec isOurs) (rkcStep_safe dec isOurs) d (RKC.empty, false, false, false)
  unfold keepRkc
  split
  · exact safe_ok _
  · exact safe_bail
  · rename_i heq; exact absurd heq h.1
  · rename_i heq; exact absurd heq h.2

theorem remStep_safe (dec : ErkDecoder) (isOurs : Bytes → Bool) (f : Nat) (b : Bytes)
    (s : List Bytes × Option RKC × Bool) : (remStep dec isOurs f b s).Safe := by
  have hm := keepRkc_safe dec isOurs b
  unfold remStep
  repeat' split
  all_goals first
    | exact safe_ok _
    | exact safe_bail
    | (rename_i heq; exact absurd heq hm.1)
    | (rename_i heq; exact absurd heq hm.2)

theorem keepRem_safe (dec : ErkDecoder) (isOurs : Bytes → Bool) (d : Bytes) : (keepRem dec isOurs d).Safe := by
  have h := runLoop_safe (remStep dec isOurs) (remStep_safe dec isOurs) d ([], none, false)
  unfold keepRem
  split
  · exact safe_ok _
  · exact safe_bail
  · rename_i heq; exact absurd heq h.1
  · rename_i heq; exact absurd heq h.2

theorem keepContent_safe (dec : ErkDecoder) (isOurs : Bytes → Bool) (cv : Bytes) :
    (keepContent dec isOurs cv).Safe := by
  have ⟨hs, hb⟩ := readTag_spec cv 0 (by omega) (by omega)
  unfold keepContent
  split
  · rename_i heq; exact absurd heq hs.1
  · rename_i heq; exact absurd heq hs.2
  · exact safe_bail
  · rename_i f wt ni hrt
    have ⟨g1, g2⟩ := hb f wt ni hrt
    split
    · exact safe_bail
    · have ⟨hs2, _⟩ := readBytes_spec cv ni (by omega) g2
      split
      · rename_i heq; exact absurd heq hs2.1
      · rename_i heq; exact absurd heq hs2.2
      · exact safe_bail
      · rename_i body next _
        have hk := keepRkc_safe dec isOurs body
        split
        · exact safe_bail
        · split
          · split
            · exact safe_ok _
            · exact safe_bail
            · rename_i heq; exact absurd heq hk.1
            · rename_i heq; exact absurd heq hk.2
          · split
            · exact keepRem_safe dec isOurs body
            · exact safe_bail

theorem topStep_safe (dec : ErkDecoder) (isOurs : Bytes → Bool) (f : Nat) (b : Bytes) (s : List Cnt) :
    (topStep dec isOurs f b s).Safe := by
  have hk := keepContent_safe dec isOurs b
  unfold topStep
  repeat' split
  all_goals first
    | exact safe_ok _
    | exact safe_bail
    | (rename_i heq; exact absurd heq hk.1)
    | (rename_i heq; exact absurd heq hk.2)

/-- the strict fast path never panics and always terminates, on every byte string, for every
`isOurs` and every element decoder -/
theorem keepIdentityFast_safe (dec : ErkDecoder) (isOurs : Bytes → Bool) (d : Bytes) :
    (keepIdentityFast dec isOurs d).Safe :=
  runLoop_safe (topStep dec isOurs) (topStep_safe dec isOurs) d []
end AnySync.Acl.Keep
