/-
Requests and pending entries are in bijection in every state a validating list can reach. This is
what makes the Go loop `for _, rec := range st.requestRecords { if rec.RequestIdentity.Equals(identity)
{ …; break } }` (applyInviteJoinWithoutApprove) independent of map iteration order: there is at most
one request per account.
-/
import AnySyncModel.Acl.Chain

namespace AnySync.Acl

/-- requestRecords[rid].RequestIdentity = a  ⇔  pendingRequests[a] = rid -/
def ReqInv (s : State) : Prop :=
  (∀ rid rq, s.requests.find? rid = some rq → s.pending.find? rq.acc = some rid) ∧
  (∀ a rid, s.pending.find? a = some rid → ∃ rq, s.requests.find? rid = some rq ∧ rq.acc = a)

/-- at most one request per account -/
theorem ReqInv.unique {s : State} (h : ReqInv s) (r1 r2 : Nat) (q1 q2 : Request)
    (h1 : s.requests.find? r1 = some q1) (h2 : s.requests.find? r2 = some q2) (ha : q1.acc = q2.acc) :
    r1 = r2 := by
  have e1 := h.1 r1 q1 h1
  have e2 := h.1 r2 q2 h2
  rw [ha, e2] at e1
  exact (Option.some.inj e1).symm

theorem reqInv_of_eq (s s' : State) (hr : s'.requests = s.requests) (hp : s'.pending = s.pending)
    (h : ReqInv s) : ReqInv s' := by
  unfold ReqInv; rw [hr, hp]; exact h

theorem reqInv_drop (s : State) (rid : Nat) (rq : Request) (h : ReqInv s)
    (hf : s.requests.find? rid = some rq) : ReqInv (dropRequest s rq.acc rid) := by
  constructor
  · intro rid' rq' hf'
    simp only [dropRequest, AMap.find?_erase] at hf' ⊢
    split at hf'
    · cases hf'
    · rename_i hne
      have hp := h.1 rid' rq' hf'
      by_cases hx : rq'.acc = rq.acc
      · have := h.unique rid' rid rq' rq hf' hf hx
        exact absurd this hne
      · simp [hx, hp]
  · intro a rid' hp'
    simp only [dropRequest, AMap.find?_erase] at hp' ⊢
    split at hp'
    · cases hp'
    · rename_i hne
      obtain ⟨rq', hf', ha⟩ := h.2 a rid' hp'
      refine ⟨rq', ?_, ha⟩
      by_cases hx : rid' = rid
      · subst hx; rw [hf] at hf'; cases hf'; exact absurd ha.symm hne
      · simp [hx, hf']

theorem reqInv_insert (s s' : State) (a rec : Nat) (rq : Request) (h : ReqInv s)
    (hacc : rq.acc = a) (hp : s.pending.find? a = none) (hr : s.requests.find? rec = none)
    (hr' : s'.requests = s.requests.insert rec rq) (hp' : s'.pending = s.pending.insert a rec) :
    ReqInv s' := by
  constructor
  · intro rid' rq' hf'
    rw [hr', AMap.find?_insert] at hf'
    rw [hp', AMap.find?_insert]
    split at hf'
    · cases hf'; subst_vars; simp
    · rename_i hne
      have := h.1 rid' rq' hf'
      by_cases hx : rq'.acc = a
      · rw [hx, hp] at this; cases this
      · simp [hx, this]
  · intro a' rid' hpp
    rw [hp', AMap.find?_insert] at hpp
    rw [hr']
    split at hpp
    · cases hpp; subst_vars; exact ⟨rq, by simp [AMap.find?_insert], rfl⟩
    · obtain ⟨rq', hf', ha⟩ := h.2 a' rid' hpp
      refine ⟨rq', ?_, ha⟩
      rw [AMap.find?_insert]
      by_cases hx : rid' = rec
      · subst hx; rw [hr] at hf'; cases hf'
      · simp [hx, hf']

/-! ### unique keys -/

/-- keys strictly ascending (what `AMap.insert` maintains) -/
def AMap.Sorted {α : Type} (m : AMap α) : Prop := m.Pairwise (fun p q => p.1 < q.1)

theorem AMap.sorted_insert {α : Type} (m : AMap α) (k : Nat) (v : α) (h : AMap.Sorted m) :
    AMap.Sorted (m.insert k v) := by
  induction m with
  | nil => simp [AMap.insert, AMap.Sorted]
  | cons hd t ih =>
    obtain ⟨k0, v0⟩ := hd
    have ht : AMap.Sorted t := (List.pairwise_cons.1 h).2
    have hhd := (List.pairwise_cons.1 h).1
    simp only [AMap.insert]
    split
    · rename_i hlt
      refine List.pairwise_cons.2 ⟨?_, h⟩
      intro p hp
      rcases List.mem_cons.1 hp with rfl | hp
      · exact hlt
      · exact Nat.lt_trans hlt (hhd p hp)
    · split
      · rename_i heq; subst heq
        exact List.pairwise_cons.2 ⟨hhd, ht⟩
      · rename_i hnlt hne
        refine List.pairwise_cons.2 ⟨?_, ih ht⟩
        intro p hp
        -- members of the insert are (k,v) or members of t
        have : p = (k, v) ∨ p ∈ t := by
          clear ih h ht hhd
          induction t with
          | nil => simp [AMap.insert] at hp; exact Or.inl hp
          | cons hd2 t2 ih2 =>
            obtain ⟨k2, v2⟩ := hd2
            simp only [AMap.insert] at hp
            split at hp
            · rcases List.mem_cons.1 hp with rfl | hp
              · exact Or.inl rfl
              · exact Or.inr hp
            · split at hp
              · rcases List.mem_cons.1 hp with rfl | hp
                · exact Or.inl rfl
                · exact Or.inr (List.mem_cons_of_mem _ hp)
              · rcases List.mem_cons.1 hp with rfl | hp
                · exact Or.inr List.mem_cons_self
                · rcases ih2 hp with h1 | h1
                  · exact Or.inl h1
                  · exact Or.inr (List.mem_cons_of_mem _ h1)
        rcases this with rfl | hp
        · simp only; omega
        · exact hhd p hp

theorem AMap.sorted_erase {α : Type} (m : AMap α) (k : Nat) (h : AMap.Sorted m) :
    AMap.Sorted (m.erase k) := List.Pairwise.filter _ h

theorem AMap.find?_of_mem {α : Type} (m : AMap α) (h : AMap.Sorted m) (k : Nat) (v : α)
    (hm : (k, v) ∈ m) : m.find? k = some v := by
  induction m with
  | nil => cases hm
  | cons hd t ih =>
    obtain ⟨k0, v0⟩ := hd
    have ht : AMap.Sorted t := (List.pairwise_cons.1 h).2
    have hhd := (List.pairwise_cons.1 h).1
    simp only [AMap.find?]
    rcases List.mem_cons.1 hm with heq | hm
    · cases heq; simp
    · have := hhd (k, v) hm
      have hne : k ≠ k0 := by simp only at this; omega
      simp [hne, ih ht hm]

/-! ### preservation by every content kind (full validation) -/

structure RInv (s : State) (author rec : Nat) : Prop where
  inv : ReqInv s
  sorted : AMap.Sorted s.requests
  own : ∀ rq, s.requests.find? rec = some rq → rq.acc = author
  nodup : s.keys.Nodup

theorem rinv_of_eq (s s' : State) (a rec : Nat) (hr : s'.requests = s.requests) (hp : s'.pending = s.pending)
    (hk : s'.keys = s.keys) (h : RInv s a rec) : RInv s' a rec :=
  ⟨reqInv_of_eq s s' hr hp h.inv, hr ▸ h.sorted, hr ▸ h.own, hk ▸ h.nodup⟩
theorem rinv_drop (s : State) (a rec rid : Nat) (rq : Request) (h : RInv s a rec)
    (hf : s.requests.find? rid = some rq) : RInv (dropRequest s rq.acc rid) a rec := by
  refine ⟨reqInv_drop s rid rq h.inv hf, AMap.sorted_erase _ _ h.sorted, ?_, h.nodup⟩
  intro rq' hf'
  simp only [dropRequest, AMap.find?_erase] at hf'
  split at hf'
  · cases hf'
  · exact h.own rq' hf'

theorem rinv_pc (cfg : Cfg) (s s' : State) (a rec t p : Nat) (h : RInv s a rec)
    (happ : applyPermissionChange cfg true s a rec t p = .ok s') : RInv s' a rec := by
  unfold applyPermissionChange at happ
  simp only [Bool.true_and, if_true] at happ
  repeat' (split at happ <;> try contradiction)
  injection happ with happ; subst happ
  exact rinv_of_eq s _ a rec rfl rfl rfl h

theorem rinv_own (cfg : Cfg) (s s' : State) (a rec n op : Nat) (h : RInv s a rec)
    (happ : applyOwnership cfg true s a rec n op = .ok s') : RInv s' a rec := by
  unfold applyOwnership at happ
  repeat' (split at happ <;> try contradiction)
  injection happ with happ; subst happ
  exact rinv_of_eq s _ a rec rfl rfl rfl h

theorem rinv_inv (s s' : State) (a rec t p k : Nat) (hr : Bool) (h : RInv s a rec)
    (happ : applyInvite true s a rec t p k hr = .ok s') : RInv s' a rec := by
  unfold applyInvite at happ
  repeat' (split at happ <;> try contradiction)
  injection happ with happ; subst happ
  exact rinv_of_eq s _ a rec rfl rfl rfl h

theorem rinv_ich (s s' : State) (a rec i p : Nat) (h : RInv s a rec)
    (happ : applyInviteChange true s a rec i p = .ok s') : RInv s' a rec := by
  unfold applyInviteChange at happ
  repeat' (split at happ <;> try contradiction)
  all_goals
    injection happ with happ; subst happ
    exact rinv_of_eq s _ a rec rfl rfl rfl h

theorem rinv_irv (s s' : State) (a rec i : Nat) (h : RInv s a rec)
    (happ : applyInviteRevoke true s a rec i = .ok s') : RInv s' a rec := by
  unfold applyInviteRevoke at happ
  repeat' (split at happ <;> try contradiction)
  injection happ with happ; subst happ
  exact rinv_of_eq s _ a rec rfl rfl rfl h

theorem rinv_opt (s s' : State) (a rec x : Nat) (h : RInv s a rec)
    (happ : applyOptions true s a rec x = .ok s') : RInv s' a rec := by
  unfold applyOptions at happ
  repeat' (split at happ <;> try contradiction)
  injection happ with happ; subst happ
  exact rinv_of_eq s _ a rec rfl rfl rfl h

theorem rinv_rkc (cfg : Cfg) (hone : cfg.oneRotationPerRecord = true) (v : Bool) (s s' : State)
    (a rec : Nat) (rk : Rkc) (val : Bool) (h : RInv s a rec)
    (happ : applyRkc cfg v s a rec rk val = .ok s') : RInv s' a rec := by
  unfold applyRkc at happ
  simp only [hone, Bool.true_and] at happ
  repeat' (split at happ <;> try contradiction)
  injection happ with happ; subst happ
  have hnot : rec ∉ s.keys := by simp_all
  refine ⟨h.inv, h.sorted, h.own, ?_⟩
  show (s.keys ++ [rec]).Nodup
  simp only [List.nodup_append, List.mem_singleton]
  refine ⟨h.nodup, by simp, ?_⟩
  intro x hx y hy hxy; subst hy; subst hxy; exact hnot hx

theorem rinv_doAdd (a rec r : Nat) (l : List (Nat × Nat)) : ∀ (s s' : State), RInv s a rec →
    doAccountsAdd s r l = .ok s' → RInv s' a rec := by
  induction l with
  | nil => intro s s' h happ; injection happ with happ; subst happ; exact h
  | cons hd t ih =>
    obtain ⟨x, p⟩ := hd
    intro s s' h happ
    unfold doAccountsAdd at happ
    split at happ <;> try contradiction
    refine ih _ s' ?_ happ
    exact rinv_of_eq s _ a rec rfl rfl rfl h

theorem rinv_add (s s' : State) (a rec : Nat) (l : List (Nat × Nat)) (h : RInv s a rec)
    (happ : applyAccountsAdd true s a rec l = .ok s') : RInv s' a rec := by
  unfold applyAccountsAdd at happ
  repeat' (split at happ <;> try contradiction)
  exact rinv_doAdd a rec rec l s s' h happ

theorem rinv_removeOne (s s' : State) (a rec r x : Nat) (h : RInv s a rec)
    (happ : removeOne s r x = .ok s') : RInv s' a rec := by
  unfold removeOne at happ
  split at happ <;> try contradiction
  split at happ <;> try contradiction
  simp only at happ
  split at happ
  · rename_i rid hpf
    injection happ with happ; subst happ
    obtain ⟨rq, hf, hacc⟩ := h.inv.2 x rid hpf
    subst hacc
    refine rinv_drop _ a rec rid rq ?_ hf
    exact rinv_of_eq s _ a rec rfl rfl rfl h
  · injection happ with happ; subst happ
    exact rinv_of_eq s _ a rec rfl rfl rfl h

theorem rinv_doRemove (a rec r : Nat) (l : List Nat) : ∀ (s s' : State), RInv s a rec →
    doRemove s r l = .ok s' → RInv s' a rec := by
  induction l with
  | nil => intro s s' h happ; injection happ with happ; subst happ; exact h
  | cons x t ih =>
    intro s s' h happ
    unfold doRemove at happ
    split at happ <;> try contradiction
    rename_i s1 h1
    exact ih s1 s' (rinv_removeOne s s1 a rec r x h h1) happ

theorem rinv_rem (cfg : Cfg) (hone : cfg.oneRotationPerRecord = true) (s s' : State) (a rec : Nat) (l : List Nat) (rk : Rkc) (h : RInv s a rec)
    (happ : applyAccountRemove cfg true s a rec l rk = .ok s') : RInv s' a rec := by
  unfold applyAccountRemove at happ
  repeat' (split at happ <;> try contradiction)
  rename_i s1 h1
  exact rinv_rkc cfg hone _ s1 s' a rec rk false (rinv_doRemove a rec rec l s s1 h h1) happ
theorem rinv_create (s s' : State) (a rec : Nat) (rq : Request) (h : RInv s a rec)
    (hacc : rq.acc = a) (hp : s.pending.contains a = false)
    (hr' : s'.requests = s.requests.insert rec rq) (hp' : s'.pending = s.pending.insert a rec)
    (hk : s'.keys = s.keys) : RInv s' a rec := by
  have hpn : s.pending.find? a = none := by
    simpa [AMap.contains] using hp
  have hrn : s.requests.find? rec = none := by
    cases hf : s.requests.find? rec with
    | none => rfl
    | some q =>
      have := h.inv.1 rec q hf
      rw [h.own q hf, hpn] at this; cases this
  refine ⟨reqInv_insert s s' a rec rq h.inv hacc hpn hrn hr' hp', hr' ▸ AMap.sorted_insert _ _ _ h.sorted, ?_, hk ▸ h.nodup⟩
  intro q hq
  rw [hr', AMap.find?_insert] at hq
  simp at hq; subst hq; exact hacc

theorem rinv_rjn (s s' : State) (a rec t i sk sa : Nat) (big : Bool) (h : RInv s a rec)
    (happ : applyRequestJoin true s a rec t i sk sa big = .ok s') : RInv s' a rec := by
  unfold applyRequestJoin at happ
  simp only [if_true] at happ
  split at happ <;> try contradiction
  rename_i hv
  injection happ with happ; subst happ
  unfold validateRequestJoin at hv
  repeat' (split at hv <;> try contradiction)
  have hta : a = t := by simp_all
  subst hta
  exact rinv_create s _ a rec ⟨a, rtJoin, some s.curKey⟩ h rfl (by simp_all) rfl rfl rfl

theorem rinv_rrm (s s' : State) (a rec : Nat) (h : RInv s a rec)
    (happ : applyRequestRemove true s a rec = .ok s') : RInv s' a rec := by
  unfold applyRequestRemove at happ
  simp only [Bool.true_and] at happ
  repeat' (split at happ <;> try contradiction)
  injection happ with happ; subst happ
  exact rinv_create s _ a rec ⟨a, rtRemove, none⟩ h rfl (by simp_all) rfl rfl rfl

theorem rinv_acc (cfg : Cfg) (s s' : State) (a rec t rid p : Nat) (h : RInv s a rec)
    (happ : applyRequestAccept cfg true s a rec t rid p = .ok s') : RInv s' a rec := by
  unfold applyRequestAccept at happ
  simp only [if_true] at happ
  repeat' (split at happ <;> try contradiction)
  injection happ with happ; subst happ
  exact rinv_drop _ a rec rid _ (rinv_of_eq s _ a rec rfl rfl rfl h) ‹_›

theorem rinv_dec (s s' : State) (a rec rid : Nat) (h : RInv s a rec)
    (happ : applyRequestDecline true s a rec rid = .ok s') : RInv s' a rec := by
  unfold applyRequestDecline at happ
  simp only [Bool.true_and, if_true] at happ
  repeat' (split at happ <;> try contradiction)
  injection happ with happ; subst happ
  exact rinv_drop _ a rec rid _ (rinv_of_eq s _ a rec rfl rfl rfl h) ‹_›

theorem rinv_can (s s' : State) (a rec rid : Nat) (h : RInv s a rec)
    (happ : applyRequestCancel true s a rec rid = .ok s') : RInv s' a rec := by
  unfold applyRequestCancel at happ
  simp only [Bool.true_and, if_true] at happ
  repeat' (split at happ <;> try contradiction)
  all_goals
    injection happ with happ; subst happ
    exact rinv_drop _ a rec rid _ (rinv_of_eq s _ a rec rfl rfl rfl h) ‹_›

theorem rinv_dropRequestOf (s : State) (a rec x : Nat) (h : RInv s a rec) : RInv (dropRequestOf s x) a rec := by
  unfold dropRequestOf
  split
  · rename_i rid rq hfind
    have hm := List.mem_of_find?_eq_some hfind
    exact rinv_drop s a rec rid rq h (AMap.find?_of_mem _ h.sorted rid rq hm)
  · exact h

theorem rinv_ijn (s s' : State) (a rec t i p sk sa : Nat) (big hr : Bool) (h : RInv s a rec)
    (happ : applyInviteJoin true s a rec t i p sk sa big hr = .ok s') : RInv s' a rec := by
  unfold applyInviteJoin at happ
  simp only [if_true] at happ
  repeat' (split at happ <;> try contradiction)
  all_goals
    injection happ with happ; subst happ
    exact rinv_dropRequestOf _ a rec t (rinv_of_eq s _ a rec rfl rfl rfl h)

/-! ### contents, records -/

theorem rinv_pcs (cfg : Cfg) (a rec : Nat) (l : List (Nat × Nat)) : ∀ (s s' : State), RInv s a rec →
    applyPermissionChanges cfg true s a rec l = .ok s' → RInv s' a rec := by
  induction l with
  | nil => intro s s' h happ; injection happ with happ; subst happ; exact h
  | cons hd t ih =>
    obtain ⟨x, p⟩ := hd
    intro s s' h happ
    simp only [applyPermissionChanges] at happ
    split at happ <;> try contradiction
    rename_i s1 h1
    exact ih s1 s' (rinv_pc cfg s s1 a rec x p h h1) happ

theorem rinv_content (cfg : Cfg) (hone : cfg.oneRotationPerRecord = true) (s s' : State) (a rec : Nat) (c : Content) (h : RInv s a rec)
    (happ : applyContent cfg true s a rec c = .ok s') : RInv s' a rec := by
  cases c with
  | pc t p => exact rinv_pc cfg s s' a rec t p h happ
  | pcs l => exact rinv_pcs cfg a rec l s s' h happ
  | own n p => exact rinv_own cfg s s' a rec n p h happ
  | add l => exact rinv_add s s' a rec l h happ
  | inv t p k hr => exact rinv_inv s s' a rec t p k hr h happ
  | ich r p => exact rinv_ich s s' a rec r p h happ
  | irv r => exact rinv_irv s s' a rec r h happ
  | ijn t r p sk sa big hr => exact rinv_ijn s s' a rec t r p sk sa big hr h happ
  | rjn t r sk sa big => exact rinv_rjn s s' a rec t r sk sa big h happ
  | acc t r p => exact rinv_acc cfg s s' a rec t r p h happ
  | dec r => exact rinv_dec s s' a rec r h happ
  | can r => exact rinv_can s s' a rec r h happ
  | rem l rk => exact rinv_rem cfg hone s s' a rec l rk h happ
  | rrm => exact rinv_rrm s s' a rec h happ
  | rkc rk => exact rinv_rkc cfg hone true s s' a rec rk true h happ
  | opt x => exact rinv_opt s s' a rec x h happ
  | nop => simp only [applyContent] at happ; injection happ with happ; subst happ; exact h

theorem rinv_contents (cfg : Cfg) (hone : cfg.oneRotationPerRecord = true) (a rec : Nat) (cs : List Content) : ∀ (s s' : State), RInv s a rec →
    applyContents cfg true s a rec cs = .ok s' → RInv s' a rec := by
  induction cs with
  | nil => intro s s' h happ; injection happ with happ; subst happ; exact h
  | cons c t ih =>
    intro s s' h happ
    simp only [applyContents] at happ
    split at happ <;> try contradiction
    rename_i s1 h1
    exact ih s1 s' (rinv_content cfg hone s s1 a rec c h h1) happ

/-- requests and pending entries stay in bijection (and request keys unique) across every record
accepted under full validation, provided the record id is fresh (it is a hash) -/
theorem reqInv_record (cfg : Cfg) (hone : cfg.oneRotationPerRecord = true) (s s' : State) (rec : Nat)
    (r : Record) (hi : ReqInv s) (hs : AMap.Sorted s.requests) (hk : s.keys.Nodup)
    (hfresh : s.requests.find? rec = none)
    (happ : applyRecord cfg true s rec r = .ok s') :
    ReqInv s' ∧ AMap.Sorted s'.requests ∧ s'.keys.Nodup := by
  unfold applyRecord at happ
  repeat' (split at happ <;> try contradiction)
  rename_i s1 h1
  injection happ with happ; subst happ
  have := rinv_contents cfg hone r.author rec r.contents s s1
    ⟨hi, hs, (fun rq hf => by rw [hfresh] at hf; cases hf), hk⟩ h1
  exact ⟨reqInv_of_eq s1 _ rfl rfl this.inv, this.sorted, this.nodup⟩

theorem reqInv_root (owner : Nat) (opts : Option Nat) :
    ReqInv (applyRoot owner opts) ∧ AMap.Sorted (applyRoot owner opts).requests ∧
    (applyRoot owner opts).keys.Nodup := by
  refine ⟨⟨?_, ?_⟩, List.Pairwise.nil, by simp [applyRoot]⟩
  · intro rid rq h; simp [applyRoot] at h
  · intro a rid h; simp [applyRoot] at h

end AnySync.Acl
