/-
From contents to records to logs: an accepted record is a chain of rule-abiding steps by its
author (`Chain`), and what follows for whole records and for every reachable state.
-/
import AnySyncModel.Acl.Rules

namespace AnySync.Acl
open Generated.AclPerm

/-- a sequence of transitions, each obeying the step rules for the same author -/
inductive Chain (author : Nat) : State → State → Prop
  | refl (s : State) : Chain author s s
  | step {s s1 s' : State} : StepRules s author s1 → Chain author s1 s' → Chain author s s'

theorem Chain.trans {author : Nat} {s s1 s' : State} (h1 : Chain author s s1) (h2 : Chain author s1 s') :
    Chain author s s' := by
  induction h1 with
  | refl => exact h2
  | step hr _ ih => exact Chain.step hr (ih h2)

theorem Chain.sane {author : Nat} {s s' : State} (h : Chain author s s') :
    InvitesSane s → InvitesSane s' := by
  induction h with
  | refl => exact id
  | step hr _ ih => exact fun hs => ih (hr.sane hs)

theorem Chain.one_owner {author : Nat} {s s' : State} (h : Chain author s s') :
    OneOwner s → OneOwner s' := by
  induction h with
  | refl => exact id
  | step hr _ ih => exact fun hs => ih (hr.one_owner hs)

theorem Chain.owner_untouchable {author : Nat} {s s' : State} (h : Chain author s s') (a : Nat)
    (ha : s.perm a = permOwner) (hne : a ≠ author) : s'.perm a = permOwner := by
  induction h with
  | refl => exact ha
  | step hr _ ih => exact ih (hr.owner_untouchable a ha hne)

/-- an author who is not the owner: no Owner bit moves, options stay, nobody else's Admin bit moves -/
theorem Chain.nonowner {author : Nat} {s s' : State} (h : Chain author s s')
    (hno : s.perm author ≠ permOwner) :
    (∀ a, s.perm a = permOwner ↔ s'.perm a = permOwner) ∧ s'.opts = s.opts ∧
    (∀ a, a ≠ author → (s.perm a = permAdmin ↔ s'.perm a = permAdmin)) := by
  induction h with
  | refl => exact ⟨fun _ => Iff.rfl, rfl, fun _ _ => Iff.rfl⟩
  | @step s s1 s' hr _ ih =>
    have hown : ∀ a, s.perm a = permOwner ↔ s1.perm a = permOwner := by
      intro a
      by_cases hh : (s.perm a = permOwner ↔ s1.perm a = permOwner)
      · exact hh
      · exact absurd (hr.transfer a hh) hno
    have hno1 : s1.perm author ≠ permOwner := fun hh => hno ((hown author).2 hh)
    obtain ⟨i1, i2, i3⟩ := ih hno1
    refine ⟨fun a => (hown a).trans (i1 a), ?_, ?_⟩
    · rw [i2]
      by_cases hh : s1.opts = s.opts
      · exact hh
      · exact absurd (hr.options hh) hno
    · intro a ha
      refine Iff.trans ?_ (i3 a ha)
      by_cases hh : (s.perm a = permAdmin ↔ s1.perm a = permAdmin)
      · exact hh
      · rcases hr.admin a hh with h1 | ⟨h1, _⟩
        · exact absurd h1 hno
        · exact absurd h1 ha

/-- an ordinary member (has a permission, cannot manage accounts) changes no other account's
entry, no invite, no option, and not its own permission — whatever the record contains -/
theorem Chain.ordinary_member {author : Nat} {s s' : State} (h : Chain author s s')
    (hnm : canManageAccounts (s.perm author) = false) (hmem : s.perm author ≠ permNone) :
    (∀ a, a ≠ author → s'.entry a = s.entry a) ∧ s'.invites = s.invites ∧ s'.opts = s.opts ∧
    s'.perm author = s.perm author := by
  induction h with
  | refl => exact ⟨fun _ _ => rfl, rfl, rfl, rfl⟩
  | @step s s1 s' hr _ ih =>
    have hp : s1.perm author = s.perm author := hr.self_perm hnm hmem
    obtain ⟨i1, i2, i3, i4⟩ := ih (by rw [hp]; exact hnm) (by rw [hp]; exact hmem)
    have hno : s.perm author ≠ permOwner := by
      intro hh; rw [hh] at hnm; revert hnm; decide
    refine ⟨?_, ?_, ?_, i4.trans hp⟩
    · intro a ha
      rw [i1 a ha]
      by_cases hh : s1.entry a = s.entry a
      · exact hh
      · have := hr.membership a ha hh; rw [hnm] at this; cases this
    · rw [i2]
      by_cases hh : s1.invites = s.invites
      · exact hh
      · have := hr.invites hh; rw [hnm] at this; cases this
    · rw [i3]
      by_cases hh : s1.opts = s.opts
      · exact hh
      · exact absurd (hr.options hh) hno

/-! ### contents → chain -/

theorem applyContents_append (cfg : Cfg) (v : Bool) (author rec : Nat) (l1 l2 : List Content) : ∀ s,
    applyContents cfg v s author rec (l1 ++ l2) =
      match applyContents cfg v s author rec l1 with
      | .error e => .error e
      | .ok s1 => applyContents cfg v s1 author rec l2 := by
  induction l1 with
  | nil => intro s; rfl
  | cons c t ih =>
    intro s
    simp only [List.cons_append, applyContents]
    cases applyContent cfg v s author rec c with
    | error e => rfl
    | ok s1 => exact ih s1

theorem chain_of_atomic (cfg : Cfg) (hfix : cfg.Fixed) (author rec : Nat) (cs : List Content)
    (hat : ∀ c ∈ cs, c.atomic = true) : ∀ s s', InvitesSane s →
    applyContents cfg true s author rec cs = .ok s' → Chain author s s' := by
  induction cs with
  | nil => intro s s' _ h; injection h with h; subst h; exact Chain.refl s
  | cons c t ih =>
    intro s s' hs h
    simp only [applyContents] at h
    split at h <;> try contradiction
    rename_i s1 h1
    have hr := step_rules cfg hfix s s1 author rec c (hat c List.mem_cons_self) hs h1
    exact Chain.step hr (ih (fun c hc => hat c (List.mem_cons_of_mem _ hc)) s1 s' (hr.sane hs) h)

theorem chain_of_contents (cfg : Cfg) (hfix : cfg.Fixed) (author rec : Nat) (cs : List Content) :
    ∀ s s', InvitesSane s →
    applyContents cfg true s author rec cs = .ok s' → Chain author s s' := by
  induction cs with
  | nil => intro s s' _ h; injection h with h; subst h; exact Chain.refl s
  | cons c t ih =>
    intro s s' hs h
    simp only [applyContents] at h
    split at h <;> try contradiction
    rename_i s1 h1
    have hc1 : Chain author s s1 := by
      cases hc : c.atomic with
      | true =>
        exact Chain.step (step_rules cfg hfix s s1 author rec c hc hs h1) (Chain.refl s1)
      | false =>
        cases c <;> simp [Content.atomic] at hc
        rename_i l
        simp only [applyContent] at h1
        rw [pcs_eq_contents] at h1
        refine chain_of_atomic cfg hfix author rec _ ?_ s s1 hs h1
        intro c hc
        obtain ⟨x, _, rfl⟩ := List.mem_map.1 hc
        rfl
    exact hc1.trans (ih s1 s' (hc1.sane hs) h)

/-- an accepted record = a chain of steps by its author, then `lastRecordId := id` -/
theorem chain_of_record (cfg : Cfg) (hfix : cfg.Fixed) (s s' : State) (rec : Nat) (r : Record)
    (hs : InvitesSane s) (h : applyRecord cfg true s rec r = .ok s') :
    ∃ s'', Chain r.author s s'' ∧ s' = { s'' with last := rec } := by
  unfold applyRecord at h
  repeat' (split at h <;> try contradiction)
  rename_i s'' hc
  injection h with h
  exact ⟨s'', chain_of_contents cfg hfix r.author rec r.contents s s'' hs hc, h.symm⟩

/-! ### logs -/

/-- states reachable by a fully validating list: a root, then accepted records -/
inductive Reachable (cfg : Cfg) : State → Prop
  | root (owner : Nat) (opts : Option Nat) : Reachable cfg (applyRoot owner opts)
  | record {s s' : State} (rec : Nat) (r : Record) :
      Reachable cfg s → applyRecord cfg true s rec r = .ok s' → Reachable cfg s'

theorem oneOwner_root (owner : Nat) (opts : Option Nat) : OneOwner (applyRoot owner opts) := by
  refine ⟨owner, by simp [applyRoot, State.perm, AMap.find?], ?_⟩
  intro a ha
  simp only [applyRoot, State.perm, AMap.find?] at ha
  split at ha
  · rename_i x hx; split at hx
    · assumption
    · cases hx
  · cases ha

theorem sane_root (owner : Nat) (opts : Option Nat) : InvitesSane (applyRoot owner opts) := by
  intro i inv h; simp [applyRoot, AMap.find?] at h

theorem perm_with_last (s : State) (n a : Nat) : State.perm { s with last := n } a = s.perm a := rfl

theorem reachable_inv (cfg : Cfg) (hfix : cfg.Fixed) (s : State) (h : Reachable cfg s) :
    OneOwner s ∧ InvitesSane s := by
  induction h with
  | root o opts => exact ⟨oneOwner_root o opts, sane_root o opts⟩
  | @record s s' rec r _ happ ih =>
    obtain ⟨s'', hc, rfl⟩ := chain_of_record cfg hfix s s' rec r ih.2 happ
    exact ⟨hc.one_owner ih.1, hc.sane ih.2⟩

end AnySync.Acl
